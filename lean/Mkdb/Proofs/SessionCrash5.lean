import Mkdb.Proofs.SessionCrash4
/-!
Sessions and crashes, part 5: **histories with crashes as flat lists of operations**.

* `SOp`: a statement, a `restart`, a crash (`crashRestart`); `runOps`: run a list of them (`none` if a
  recovery fails).
* `worldStep` / `worldOps`: the plain databases after a statement / a list of operations (the plain model
  `Spec.specStmt` on the selected database; the selection and the outcome of CREATE DATABASE are read off
  the session).
* `cleanStep` / `cleanOps`: the flag "no row statement was accepted by the selected database since it was
  selected / since its last CREATE TABLE / since the last restart or crash".
* `OkOps`: the side conditions along the list.  CREATE DATABASE, USE, SHOW DATABASES, SELECT: none.
  CREATE TABLE / INSERT / UPDATE / DELETE: either the statement leaves the session as it is and the plain
  model refuses it too, or the plain model accepts it, with room (`StmtRoom`), a CREATE TABLE only while the
  flag is set.
* `CInv`: `SessCrash'`, and while the flag is set EVERY database is checkpointed.
* `runOps_cinv`: **every such list runs (no recovery fails) and keeps `CInv`** for `worldOps`.
-/
set_option autoImplicit false
namespace Mkdb.Session
open Mkdb.Engine Mkdb.Sql Mkdb.Tree
open Mkdb.Store hiding Stmt

/-- an operation of a session: a statement, a clean restart, a crash followed by start-up recovery -/
inductive SOp where
  | stmt (s : Stmt)
  | restart
  | crash
deriving Repr, DecidableEq

/-- run a list of operations; `none` if a recovery (of a restart or after a crash) fails -/
def runOps : Sess → List SOp → Option Sess
  | s, [] => some s
  | s, .stmt st :: rest => runOps (exec s st).1 rest
  | s, .restart :: rest => (restart s).bind fun s' => runOps s' rest
  | s, .crash :: rest => (crashRestart s).bind fun s' => runOps s' rest

/-- the statements routed to the selected database -/
def isRouted : Stmt → Bool
  | .createTable _ _ => true
  | .insert _ _ _ => true
  | .update _ _ _ => true
  | .delete _ _ => true
  | _ => false

def isCreateTable : Stmt → Bool
  | .createTable _ _ => true
  | _ => false

/-- the plain databases after a routed statement: the plain model on the selected database -/
def routedW (s : Sess) (w : String → Spec.SDB) (st : Stmt) : String → Spec.SDB :=
  match s.cur with
  | none => w
  | some n =>
    match Spec.specStmt (w n) st with
    | some sdb' => setW w n sdb'
    | none => w

/-- the plain databases after a statement -/
def worldStep (s : Sess) (w : String → Spec.SDB) : Stmt → (String → Spec.SDB)
  | .createDatabase name => cdW s w name
  | st => if isRouted st then routedW s w st else w

/-- the flag after a routed statement: set by an accepted CREATE TABLE, cleared by an accepted row statement -/
def routedClean (s : Sess) (w : String → Spec.SDB) (clean : Bool) (st : Stmt) : Bool :=
  match s.cur with
  | none => clean
  | some n =>
    match Spec.specStmt (w n) st with
    | some _ => isCreateTable st
    | none => clean

/-- the flag after a statement: an accepted USE of another database sets it -/
def cleanStep (s : Sess) (w : String → Spec.SDB) (clean : Bool) : Stmt → Bool
  | .use name =>
    match (exec s (.use name)).2 with
    | .ok => decide (s.cur ≠ some (canon name)) || clean
    | _ => clean
  | st => if isRouted st then routedClean s w clean st else clean

/-- the plain databases after a list of operations (restarts and crashes change none) -/
def worldOps : Sess → (String → Spec.SDB) → List SOp → (String → Spec.SDB)
  | _, w, [] => w
  | s, w, .stmt st :: rest => worldOps (exec s st).1 (worldStep s w st) rest
  | s, w, .restart :: rest => match restart s with | some s' => worldOps s' w rest | none => w
  | s, w, .crash :: rest => match crashRestart s with | some s' => worldOps s' w rest | none => w

/-- the flag after a list of operations (a restart or crash sets it) -/
def cleanOps : Sess → (String → Spec.SDB) → Bool → List SOp → Bool
  | _, _, clean, [] => clean
  | s, w, clean, .stmt st :: rest => cleanOps (exec s st).1 (worldStep s w st) (cleanStep s w clean st) rest
  | s, w, clean, .restart :: rest => match restart s with | some s' => cleanOps s' w true rest | none => clean
  | s, w, clean, .crash :: rest => match crashRestart s with | some s' => cleanOps s' w true rest | none => clean

/-- the side condition of a statement routed to the selected database: it leaves the session as it is and
the plain model refuses it too; or the plain model accepts it, with room, a CREATE TABLE only while the
flag is set -/
def OkRouted (s : Sess) (w : String → Spec.SDB) (clean : Bool) (st : Stmt) : Prop :=
  ((exec s st).1 = s ∧ ∀ n, s.cur = some n → Spec.specStmt (w n) st = none) ∨
  (∃ n db sdb', s.cur = some n ∧ getDB s n = some db ∧ Spec.specStmt (w n) st = some sdb' ∧
    (∀ pt sch tbls, DbInv db (w n) pt sch tbls → StmtRoom db pt sch tbls st) ∧
    (isCreateTable st = true → clean = true))

/-- the side condition of a statement: none for CREATE DATABASE, USE, SHOW DATABASES, SELECT -/
def OkStmt (s : Sess) (w : String → Spec.SDB) (clean : Bool) (st : Stmt) : Prop :=
  isRouted st = true → OkRouted s w clean st

/-- the side conditions along a list of operations -/
def OkOps : Sess → (String → Spec.SDB) → Bool → List SOp → Prop
  | _, _, _, [] => True
  | s, w, clean, .stmt st :: rest =>
    OkStmt s w clean st ∧ OkOps (exec s st).1 (worldStep s w st) (cleanStep s w clean st) rest
  | s, w, _, .restart :: rest => ∀ s', restart s = some s' → OkOps s' w true rest
  | s, w, _, .crash :: rest => ∀ s', crashRestart s = some s' → OkOps s' w true rest

/-- **The invariant along a list of operations**: `SessCrash'`, and while the flag is set every database
(the selected one too) is checkpointed. -/
structure CInv (s : Sess) (w : String → Spec.SDB) (clean : Bool) : Prop where
  inv : SessCrash' s w
  ck : clean = true → ∀ p ∈ s.dbs, CkptNS p.2 (w p.1)

theorem cinv_empty (w : String → Spec.SDB) (clean : Bool) : CInv {} w clean :=
  ⟨sessCrash'_empty w, fun _ _ hp => absurd hp List.not_mem_nil⟩

/-- the selected database while the flag is set -/
theorem CInv.cur_ckpt {s : Sess} {w : String → Spec.SDB} {clean : Bool} (h : CInv s w clean) (hcl : clean = true)
    {n : String} {db : DB} (hg : getDB s n = some db) : CkptNS db (w n) := h.ck hcl (n, db) (getDB_mem hg)

theorem createDatabase_cinv {s : Sess} {w : String → Spec.SDB} {clean : Bool} (h : CInv s w clean) (name : Bytes) :
    CInv (exec s (.createDatabase name)).1 (cdW s w name) clean := by
  refine ⟨createDatabase_sessCrash' h.inv name, fun hcl => ?_⟩
  rcases createDatabase_cases s name with ⟨e, hno⟩ | ⟨hok, hnone, e⟩
  · rw [cdW_refused hno, e]; exact h.ck hcl
  · rw [cdW_ok hok, e]
    intro p hp
    rcases mem_setDB hp with rfl | ⟨hp', hne'⟩
    · rw [setW_same]; exact ckptNS_newDB
    · rw [setW_other w _ hne']; exact h.ck hcl p hp'

theorem use_cinv {s : Sess} {w : String → Spec.SDB} {clean : Bool} (h : CInv s w clean) (name : Bytes) :
    CInv (exec s (.use name)).1 w (cleanStep s w clean (.use name)) := by
  refine ⟨use_sessCrash' h.inv name, ?_⟩
  rcases use_cases s name with ⟨e, hno⟩ | ⟨hok, _, hcase⟩
  · have hcs : cleanStep s w clean (.use name) = clean := by
      show (match (exec s (.use name)).2 with | .ok => _ | _ => clean) = clean
      cases ho : (exec s (.use name)).2 with
      | ok => exact absurd ho hno
      | err k => rfl
      | panic => rfl
      | rows n => rfl
    rw [hcs, e]; exact h.ck
  · have hcs : cleanStep s w clean (.use name) = (decide (s.cur ≠ some (canon name)) || clean) := by
      show (match (exec s (.use name)).2 with | .ok => _ | _ => clean) = _
      rw [hok]
    rw [hcs]
    intro hcl p hp
    by_cases hsel : s.cur = some (canon name)
    · have hcl' : clean = true := by simpa [hsel] using hcl
      rcases hcase with ⟨e, _⟩ | ⟨c, db, db', hc, hne, _⟩
      · rw [e] at hp; exact h.ck hcl' p hp
      · rw [hc] at hsel; exact absurd (Option.some.inj hsel) hne
    · obtain ⟨hcur, hoth, db, hg, hck⟩ := use_ckpt h.inv name hok
      by_cases hpn : p.1 = canon name
      · have hnd := (use_sessCrash' h.inv name).base.abs.nodup
        have hg2 : getDB (exec s (.use name)).1 p.1 = some p.2 := mem_getDB hnd hp
        rw [hpn, hg] at hg2
        cases hg2
        rw [hpn]; exact hck hsel
      · exact hoth p hp hpn

/-- a routed statement that leaves the session as it is and that the plain model refuses -/
theorem unchanged_cinv {s : Sess} {w : String → Spec.SDB} {clean : Bool} (h : CInv s w clean) (st : Stmt)
    (_hr : isRouted st = true) (hs : (exec s st).1 = s) (hno : ∀ n, s.cur = some n → Spec.specStmt (w n) st = none) :
    CInv (exec s st).1 (routedW s w st) (routedClean s w clean st) := by
  have h1 : routedW s w st = w := by
    unfold routedW
    cases hc : s.cur with
    | none => rfl
    | some n => simp only [hno n hc]
  have h2 : routedClean s w clean st = clean := by
    unfold routedClean
    cases hc : s.cur with
    | none => rfl
    | some n => simp only [hno n hc]
  rw [h1, h2, hs]; exact h

/-- a routed statement the plain model accepts -/
theorem accepted_cinv {s : Sess} {w : String → Spec.SDB} {clean : Bool} (h : CInv s w clean) (st : Stmt)
    (hr : isRouted st = true) (n : String) (db : DB) (sdb' : Spec.SDB) (hc : s.cur = some n)
    (hg : getDB s n = some db) (hspec : Spec.specStmt (w n) st = some sdb')
    (hroom : ∀ pt sch tbls, DbInv db (w n) pt sch tbls → StmtRoom db pt sch tbls st)
    (hct : isCreateTable st = true → clean = true) :
    (exec s st).2 = Out.ok ∧ CInv (exec s st).1 (routedW s w st) (routedClean s w clean st) := by
  have h1 : routedW s w st = setW w n sdb' := by
    unfold routedW; simp only [hc, hspec]
  have h2 : routedClean s w clean st = isCreateTable st := by
    unfold routedClean; simp only [hc, hspec]
  rw [h1, h2]
  cases st with
  | createTable t cols =>
    obtain ⟨k1, k2, db', hg', hck'⟩ := createTable_sessCrash' h.inv n hc db hg (h.cur_ckpt (hct rfl) hg) t cols
      hroom sdb' hspec
    refine ⟨k1, k2, fun _ p hp => ?_⟩
    by_cases hpn : p.1 = n
    · have hg2 : getDB _ p.1 = some p.2 := mem_getDB k2.base.abs.nodup hp
      rw [hpn, hg'] at hg2
      cases hg2
      rw [hpn, setW_same]; exact hck'
    · refine k2.others p hp ?_
      rw [exec_routed s _ (.inl ⟨t, cols, rfl⟩), (onCurrent_others s _).1, hc]
      intro hx; exact hpn (Option.some.inj hx).symm
  | insert t c r =>
    obtain ⟨k1, k2⟩ := accepted_sessCrash' h.inv n hc db hg _ (.inl ⟨t, c, r, rfl⟩) hroom sdb' hspec
    exact ⟨k1, k2, fun hx => by cases hx⟩
  | update t a c =>
    obtain ⟨k1, k2⟩ := accepted_sessCrash' h.inv n hc db hg _ (.inr (.inl ⟨t, a, c, rfl⟩)) hroom sdb' hspec
    exact ⟨k1, k2, fun hx => by cases hx⟩
  | delete t c =>
    obtain ⟨k1, k2⟩ := accepted_sessCrash' h.inv n hc db hg _ (.inr (.inr ⟨t, c, rfl⟩)) hroom sdb' hspec
    exact ⟨k1, k2, fun hx => by cases hx⟩
  | createDatabase _ => cases hr
  | use _ => cases hr
  | showDatabases => cases hr
  | select _ => cases hr

theorem routed_cinv {s : Sess} {w : String → Spec.SDB} {clean : Bool} (h : CInv s w clean) (st : Stmt)
    (hr : isRouted st = true) (hok : OkRouted s w clean st) :
    CInv (exec s st).1 (routedW s w st) (routedClean s w clean st) := by
  rcases hok with ⟨hs, hno⟩ | ⟨n, db, sdb', hc, hg, hspec, hroom, hct⟩
  · exact unchanged_cinv h st hr hs hno
  · exact (accepted_cinv h st hr n db sdb' hc hg hspec hroom hct).2

/-- **One statement keeps the invariant.** -/
theorem step_cinv {s : Sess} {w : String → Spec.SDB} {clean : Bool} (h : CInv s w clean) (st : Stmt)
    (hok : OkStmt s w clean st) : CInv (exec s st).1 (worldStep s w st) (cleanStep s w clean st) := by
  cases st with
  | createDatabase name => exact createDatabase_cinv h name
  | use name => exact use_cinv h name
  | showDatabases => exact h
  | select q =>
    show CInv (exec s (.select q)).1 w clean
    rw [exec_select_fst]; exact h
  | createTable t c => exact routed_cinv h _ rfl (hok rfl)
  | insert t c r => exact routed_cinv h _ rfl (hok rfl)
  | update t a c => exact routed_cinv h _ rfl (hok rfl)
  | delete t c => exact routed_cinv h _ rfl (hok rfl)

/-- **Every list of operations that meets the side conditions runs - no recovery in it fails - and keeps
the invariant**, for the plain databases `worldOps` computes. -/
theorem runOps_cinv : ∀ (ops : List SOp) (s : Sess) (w : String → Spec.SDB) (clean : Bool),
    CInv s w clean → OkOps s w clean ops →
    ∃ s', runOps s ops = some s' ∧ CInv s' (worldOps s w ops) (cleanOps s w clean ops)
  | [], s, w, clean, h, _ => ⟨s, rfl, h⟩
  | .stmt st :: rest, s, w, clean, h, hok => by
    obtain ⟨s', e, h'⟩ := runOps_cinv rest _ _ _ (step_cinv h st hok.1) hok.2
    exact ⟨s', e, h'⟩
  | .restart :: rest, s, w, clean, h, hok => by
    obtain ⟨s1, e1, h1, _, _, hall⟩ := restart_sessCrash' h.inv.base
    obtain ⟨s', e, h'⟩ := runOps_cinv rest s1 w true ⟨h1, fun _ => hall⟩ (hok s1 e1)
    refine ⟨s', ?_, ?_⟩
    · simp only [runOps, e1, Option.bind_some, e]
    · simp only [worldOps, cleanOps, e1]; exact h'
  | .crash :: rest, s, w, clean, h, hok => by
    obtain ⟨s1, e1, h1, _, _, hall⟩ := crashRestart_sessCrash' h.inv.base
    obtain ⟨s', e, h'⟩ := runOps_cinv rest s1 w true ⟨h1, fun _ => hall⟩ (hok s1 e1)
    refine ⟨s', ?_, ?_⟩
    · simp only [runOps, e1, Option.bind_some, e]
    · simp only [worldOps, cleanOps, e1]; exact h'

end Mkdb.Session
