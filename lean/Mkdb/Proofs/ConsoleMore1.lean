import Mkdb.Proofs.ConsoleHist4
/-!
Console model, the loop of `ReadLine` calls on ANY byte stream: `bytesToKey` consumes at least one byte,
so the fuel of `keyLoop` / `sessionFrom` does not matter once it exceeds the number of bytes; the flag
`lineIsPasted` changes nothing but the tag (`.line` / `.pasted`) of the outcome, which `sessionFrom` does not
look at.  From these: `sessionFrom` read one key at a time (`sess_key`, `sess_pasteStart`, `sess_pasteEnd`).
-/
namespace Mkdb.Console

/-! ## `bytesToKey` consumes at least one byte -/

theorem decodeRune_shorter {b : List Nat} {k : Nat} {r : List Nat} (h : decodeRune b = some (k, r)) :
    r.length < b.length := by
  unfold decodeRune at h
  split at h
  · cases h
  · simp only at h
    repeat' split at h
    all_goals first
      | (cases h; simp only [List.length_cons]; omega)
      | cases h

theorem afterSeqEnd_shorter : ∀ {b r : List Nat}, afterSeqEnd b = some r → r.length < b.length
  | [], _, h => by cases h
  | c :: b, r, h => by
    simp only [afterSeqEnd] at h
    split at h
    · cases h; exact Nat.lt_succ_self _
    · have := afterSeqEnd_shorter h
      simp only [List.length_cons]; omega

theorem take6_length {b s : List Nat} (h : (b.take 6 == s) = true) (hs : s.length = 6) : 6 ≤ b.length := by
  have e : b.take 6 = s := by simpa using h
  have := congrArg List.length e
  rw [List.length_take, hs] at this
  omega

theorem bytesToKey_shorter {b : List Nat} {p : Bool} {k : Nat} {r : List Nat}
    (h : bytesToKey b p = some (k, r)) : r.length < b.length := by
  unfold bytesToKey at h
  split at h
  · cases h
  · rename_i b0 r0
    split at h
    · cases h; exact Nat.lt_succ_self _
    · split at h
      · exact decodeRune_shorter h
      · split at h
        · rename_i x hx
          cases h
          split at hx
          · cases hx
          · split at hx
            · rename_i c r'
              cases hc : csiKey c with
              | none => rw [hc] at hx; cases hx
              | some kk =>
                rw [hc] at hx
                simp only [Option.map_some, Option.some.injEq, Prod.mk.injEq] at hx
                obtain ⟨_, rfl⟩ := hx
                simp only [List.length_cons]; omega
            · cases hx
        · split at h
          · rename_i hc
            cases h
            simp only [Bool.and_eq_true, decide_eq_true_eq] at hc
            rw [List.length_drop]; omega
          · split at h
            · rename_i hc
              cases h
              simp only [Bool.and_eq_true, decide_eq_true_eq] at hc
              rw [List.length_drop]; omega
            · split at h
              · rename_i hc
                cases h
                simp only [Bool.and_eq_true] at hc
                have := take6_length hc.2 rfl
                rw [List.length_drop]; omega
              · split at h
                · rename_i hc
                  cases h
                  simp only [Bool.and_eq_true] at hc
                  have := take6_length hc.2 rfl
                  rw [List.length_drop]; omega
                · cases ha : afterSeqEnd (b0 :: r0) with
                  | none => rw [ha] at h; cases h
                  | some rest =>
                    rw [ha] at h
                    simp only [Option.map_some, Option.some.injEq, Prod.mk.injEq] at h
                    obtain ⟨_, rfl⟩ := h
                    exact afterSeqEnd_shorter ha

/-! ## fuel and the flag `lineIsPasted` -/

/-- the statements an outcome carries, whatever its tag -/
def Outcome.stmts : Outcome → Option (List (List Nat))
  | .line s => some s
  | .pasted s => some s
  | .eof => none

/-- two results of `keyLoop` that differ at most in the tag of the outcome -/
def Same (x y : Term × List Nat × Outcome) : Prop :=
  x.1 = y.1 ∧ x.2.1 = y.2.1 ∧ x.2.2.stmts = y.2.2.stmts

theorem Same.rfl' (x : Term × List Nat × Outcome) : Same x x := ⟨rfl, rfl, rfl⟩

/-- enough fuel is enough, and the flag changes only the tag -/
theorem keyLoop_same : ∀ (fuel fuel' : Nat) (t : Term) (lip lip' : Bool) (rest : List Nat),
    rest.length < fuel → rest.length < fuel' → Same (keyLoop fuel t lip rest) (keyLoop fuel' t lip' rest)
  | 0, _, _, _, _, _, h, _ => by cases h
  | _ + 1, 0, _, _, _, _, _, h => by cases h
  | f + 1, f' + 1, t, lip, lip', rest, h, h' => by
    unfold keyLoop
    cases hb : bytesToKey rest t.pasteActive with
    | none => exact ⟨rfl, rfl, rfl⟩
    | some x =>
      obtain ⟨key, after⟩ := x
      have hl := bytesToKey_shorter hb
      have ih := fun t l l' => keyLoop_same f f' t l l' after (by omega) (by omega)
      simp only
      cases hs : step t key with
      | mk t' o =>
        cases hpa : t.pasteActive
        · simp only [Bool.not_false, if_true]
          by_cases c1 : (key == keyCtrlD && t.line.isEmpty) = true
          · simp only [c1, if_true]; exact ⟨rfl, rfl, rfl⟩
          · simp only [c1]
            by_cases c2 : (key == keyCtrlC) = true
            · simp only [c2, if_true]; exact ⟨rfl, rfl, rfl⟩
            · simp only [c2]
              by_cases c3 : (key == keyPasteStart) = true
              · simp only [c3, if_true]; exact ih _ _ _
              · simp only [c3]
                cases o with
                | none => exact ih _ _ _
                | some s => exact ⟨rfl, rfl, rfl⟩
        · simp only [Bool.not_true, Bool.false_eq_true, if_false]
          by_cases c1 : (key == keyPasteEnd) = true
          · simp only [c1, if_true]; exact ih _ _ _
          · simp only [c1]
            cases o with
            | none => exact ih _ _ _
            | some s =>
              refine ⟨rfl, rfl, ?_⟩
              cases lip <;> cases lip' <;> rfl

/-- what is left after `keyLoop` is no longer than before, and shorter when a line is handed over -/
theorem keyLoop_rest : ∀ (fuel : Nat) (t : Term) (lip : Bool) (rest : List Nat),
    (keyLoop fuel t lip rest).2.1.length ≤ rest.length ∧
      ((keyLoop fuel t lip rest).2.2.stmts ≠ none → (keyLoop fuel t lip rest).2.1.length < rest.length)
  | 0, _, _, _ => ⟨Nat.le_refl _, fun h => absurd rfl h⟩
  | f + 1, t, lip, rest => by
    unfold keyLoop
    cases hb : bytesToKey rest t.pasteActive with
    | none => exact ⟨Nat.le_refl _, fun h => absurd rfl h⟩
    | some x =>
      obtain ⟨key, after⟩ := x
      have hl := bytesToKey_shorter hb
      have ih := fun t l => keyLoop_rest f t l after
      have hih : ∀ t l, (keyLoop f t l after).2.1.length ≤ rest.length ∧
          ((keyLoop f t l after).2.2.stmts ≠ none → (keyLoop f t l after).2.1.length < rest.length) :=
        fun t l => ⟨by have := (ih t l).1; omega, fun h => by have := (ih t l).1; omega⟩
      simp only
      cases hs : step t key with
      | mk t' o =>
        cases hpa : t.pasteActive
        · simp only [Bool.not_false, if_true]
          by_cases c1 : (key == keyCtrlD && t.line.isEmpty) = true
          · simp only [c1, if_true]; exact ⟨Nat.le_of_lt hl, fun _ => hl⟩
          · simp only [c1]
            by_cases c2 : (key == keyCtrlC) = true
            · simp only [c2, if_true]; exact ⟨Nat.le_of_lt hl, fun _ => hl⟩
            · simp only [c2]
              by_cases c3 : (key == keyPasteStart) = true
              · simp only [c3, if_true]; exact hih _ _
              · simp only [c3]
                cases o with
                | none => exact hih _ _
                | some s => exact ⟨Nat.le_of_lt hl, fun _ => hl⟩
        · simp only [Bool.not_true, Bool.false_eq_true, if_false]
          by_cases c1 : (key == keyPasteEnd) = true
          · simp only [c1, if_true]; exact hih _ _
          · simp only [c1]
            cases o with
            | none => exact hih _ _
            | some s => exact ⟨Nat.le_of_lt hl, fun _ => hl⟩

/-- `sessionFrom` with any fuel above the number of bytes -/
theorem sessionFrom_fuel : ∀ (F F' : Nat) (t : Term) (bytes : List Nat), bytes.length < F → bytes.length < F' →
    sessionFrom F t bytes = sessionFrom F' t bytes
  | 0, _, _, _, h, _ => by cases h
  | _ + 1, 0, _, _, _, h => by cases h
  | F + 1, F' + 1, t, bytes, h, h' => by
    unfold sessionFrom
    have hr := keyLoop_rest (bytes.length + 1) t t.pasteActive bytes
    unfold readLine
    generalize keyLoop (bytes.length + 1) t t.pasteActive bytes = x at hr
    obtain ⟨t', rest, o⟩ := x
    cases o with
    | eof => rfl
    | line s =>
      have := hr.2 (by simp [Outcome.stmts])
      simp only at this ⊢
      exact congrArg _ (sessionFrom_fuel F F' t' rest (by omega) (by omega))
    | pasted s =>
      have := hr.2 (by simp [Outcome.stmts])
      simp only at this ⊢
      exact congrArg _ (sessionFrom_fuel F F' t' rest (by omega) (by omega))

/-- what `sessionFrom` does with the result of a first `keyLoop` -/
def contin (x : Term × List Nat × Outcome) : List (List (List Nat)) :=
  match x.2.2.stmts with
  | some s => s :: sessionFrom (x.2.1.length + 1) x.1 x.2.1
  | none => []

theorem contin_same {x y : Term × List Nat × Outcome} (h : Same x y) : contin x = contin y := by
  obtain ⟨h1, h2, h3⟩ := h
  unfold contin
  rw [h1, h2, h3]

/-- `sessionFrom` is its first `keyLoop`, with any fuel above the number of bytes and any flag, and the
rest of the session -/
theorem sess_keyLoop (F f : Nat) (t : Term) (lip : Bool) (bytes : List Nat) (h : bytes.length < F)
    (h' : bytes.length < f) : sessionFrom F t bytes = contin (keyLoop f t lip bytes) := by
  rw [← contin_same (keyLoop_same (bytes.length + 1) f t t.pasteActive lip bytes (Nat.lt_succ_self _) h')]
  cases F with
  | zero => cases h
  | succ F =>
    unfold sessionFrom readLine contin
    have hr := keyLoop_rest (bytes.length + 1) t t.pasteActive bytes
    generalize keyLoop (bytes.length + 1) t t.pasteActive bytes = x at hr
    obtain ⟨t', rest, o⟩ := x
    cases o with
    | eof => rfl
    | line s =>
      have := hr.2 (by simp [Outcome.stmts])
      simp only [Outcome.stmts] at this ⊢
      exact congrArg _ (sessionFrom_fuel _ _ t' rest (by omega) (by omega))
    | pasted s =>
      have := hr.2 (by simp [Outcome.stmts])
      simp only [Outcome.stmts] at this ⊢
      exact congrArg _ (sessionFrom_fuel _ _ t' rest (by omega) (by omega))

end Mkdb.Console
