import Mkdb.Proofs.SessionInv7
import Mkdb.Proofs.SessionInv8
import Mkdb.Proofs.BaseCase2
import Mkdb.Proofs.SpecHistory
/-!
Session invariant, part 9: histories, and the witnesses (non-vacuity) of parts 1-8.

* `runAll`, `runAll_sessAbs`: a history run by the session from a state that satisfies the invariant.
* `Plain`, `sessOK_plain`: histories of CREATE DATABASE / USE / SHOW DATABASES / SELECT / DELETE / UPDATE
  statements (on names other than the two catalog tables, with SET literals a Go program can hold; a
  SELECT with a select list of a shape the parser builds) meet the side conditions `SessOK` in EVERY
  session state - whatever is or is not selected.  (CHANGED with the session model evaluating SELECT:
  `Plain (.select q)` was `True`, it now is `SelectSide (.select q)`.)
* `dbFlushed_tableDB`, `room_insert56`, `sessT`: the database `CREATE DATABASE; CREATE TABLE t (a INT)`
  produces (computed by the model, BaseCase2), as a closed database and inside a session.
-/
set_option autoImplicit false
namespace Mkdb.Session
open Mkdb.Engine Mkdb.Store Mkdb.Sql Mkdb.Tree

/-- a history run by the session (it goes on after every error): the final session, the outputs -/
def runAll (s : Sess) : List Sql.Stmt → Sess × List Out
  | [] => (s, [])
  | st :: rest => ((runAll (exec s st).1 rest).1, (exec s st).2 :: (runAll (exec s st).1 rest).2)

/-- **Every history keeps the invariant and never returns `Out.panic`.** -/
theorem runAll_sessAbs : ∀ (sts : List Sql.Stmt) (s : Sess) (w : String → Spec.SDB), SessAbs s w → SessOK s sts →
    (∃ w', SessAbs (runAll s sts).1 w') ∧ ∀ o ∈ (runAll s sts).2, o ≠ Out.panic
  | [], s, w, h, _ => ⟨⟨w, h⟩, fun _ ho => by cases ho⟩
  | st :: rest, s, w, h, hok => by
    obtain ⟨w1, h1, hnp, _⟩ := exec_sessAbs h st hok.1
    obtain ⟨hfin, houts⟩ := runAll_sessAbs rest (exec s st).1 w1 h1 hok.2
    refine ⟨hfin, fun o ho => ?_⟩
    rcases List.mem_cons.mp ho with rfl | ho
    · exact hnp
    · exact houts o ho

/-- statements whose side conditions hold in every session state (for a SELECT: the select list has a
shape the parser builds and the FROM clause names user tables - `SelectSide`) -/
def Plain : Sql.Stmt → Prop
  | .createDatabase _ | .use _ | .showDatabases => True
  | .select q => (Exec.NoPanicP.ParsedShape q) ∧ UserTables q
  | .delete t _ => t ≠ sysPages ∧ t ≠ sysSchema
  | .update t sets _ => (t ≠ sysPages ∧ t ≠ sysSchema) ∧ ∀ p ∈ sets, ∀ l, p.2 = .lit l → Tuple.ValidVal (Engine.litToVal l)
  | _ => False

theorem stmtSide_plain (s : Sess) (st : Sql.Stmt) (h : Plain st) : StmtSide s st := by
  intro n db _ _ sdb pt sch tbls _
  cases st with
  | createDatabase n => exact ⟨trivial, trivial, trivial, trivial⟩
  | use n => exact ⟨trivial, trivial, trivial, trivial⟩
  | showDatabases => exact ⟨trivial, trivial, trivial, trivial⟩
  | select q => exact ⟨trivial, trivial, trivial, h⟩
  | delete t w => exact ⟨fun _ => h, trivial, trivial, trivial⟩
  | update t sets w => exact ⟨fun _ => h.1, trivial, h.2, trivial⟩
  | createTable n c => exact h.elim
  | insert t c r => exact h.elim

/-- a history of such statements meets the side conditions from every session state -/
theorem sessOK_plain : ∀ (sts : List Sql.Stmt) (s : Sess), (∀ st ∈ sts, Plain st) → SessOK s sts
  | [], _, _ => trivial
  | st :: rest, s, h => ⟨stmtSide_plain s st (h st List.mem_cons_self),
      sessOK_plain rest _ (fun st' hst => h st' (List.mem_cons_of_mem _ hst))⟩

end Mkdb.Session

namespace Mkdb.Store
open Mkdb.Page Mkdb.Tuple Mkdb.Generated Mkdb.Tree Mkdb.Engine

/-- the database `CREATE DATABASE; CREATE TABLE t (a INT)` leaves is a closed database for the plain
database with the one empty table -/
theorem dbFlushed_tableDB : DbFlushed tableDB sdbA0 ptT schT [(tname, tT)] := ckpt_tableDB.dbFlushed noStale_tableDB

/-- `INSERT INTO t VALUES (5), (6)` on it: the side conditions of the refinement theorems -/
theorem room_insert56 : StmtRoom tableDB ptT schT [(tname, tT)] (.insert tname [] [[.int 5], [.int 6]]) := by
  refine ⟨?_, ?_⟩
  · intro r hr l hl
    simp only [List.mem_cons, List.not_mem_nil, or_false] at hr
    rcases hr with rfl | rfl
    · simp only [List.mem_singleton] at hl; subst hl; exact ⟨by decide, by decide⟩
    · simp only [List.mem_singleton] at hl; subst hl; exact ⟨by decide, by decide⟩
  · intro tr schema htr hs
    simp only [List.mem_singleton, Prod.mk.injEq, true_and] at htr
    subst htr
    rw [schT_t] at hs
    simp only [Option.some.injEq] at hs
    subst hs
    exact runT

theorem spec_insert56 : Spec.specStmt sdbA0 (.insert tname [] [[.int 5], [.int 6]]) = some sdbA1 := rfl

/-- whatever catalog description `tableDB` is given, it is the computed one -/
theorem dbInv_tableDB_unique {sdb : Spec.SDB} {pt sch : Levels} {tbls : List (Bytes × Levels)}
    (h : DbInv tableDB sdb pt sch tbls) : pt = ptT ∧ sch = schT ∧ ∀ tr, (tname, tr) ∈ tbls → tr = tT := by
  obtain ⟨sdb0, habs0, _⟩ := h.abs
  refine ⟨habs0.cat.pt_unique cat_tableDB, habs0.cat.sch_unique cat_tableDB, fun tr htr => ?_⟩
  exact habs0.cat.tree_unique cat_tableDB htr (List.mem_singleton.mpr rfl)

end Mkdb.Store

namespace Mkdb.Session
open Mkdb.Engine Mkdb.Store Mkdb.Sql Mkdb.Tree

/-- a session with the database of `CREATE TABLE t (a INT)` selected -/
def sessT : Sess := { dbs := [("d", tableDB)], cur := some "d" }

theorem sessAbs_sessT : SessAbs sessT (fun _ => sdbA0) where
  dbs := fun p hp => by
    simp only [sessT, List.mem_singleton] at hp
    subst hp
    exact ⟨ptT, schT, [(tname, tT)], dbFlushed_tableDB.inv, fun _ => dbFlushed_tableDB⟩
  cur := fun n hn => by
    simp only [sessT, Option.some.injEq] at hn
    subst hn
    decide
  nodup := by decide

/-- the side conditions of `INSERT INTO t VALUES (5), (6)` in that session -/
theorem stmtSide_sessT : StmtSide sessT (.insert tname [] [[.int 5], [.int 6]]) := by
  intro n db hc hg sdb pt sch tbls hi
  simp only [sessT, Option.some.injEq] at hc
  subst hc
  have hdb : db = tableDB := by
    have : getDB sessT "d" = some tableDB := by
      simp [getDB, sessT]
    rw [this] at hg
    exact (Option.some.inj hg).symm
  subst hdb
  obtain ⟨rfl, rfl, htr⟩ := dbInv_tableDB_unique hi
  refine ⟨fun _ => tname_ne_sys, ⟨room_insert56.1, ?_⟩, trivial, trivial⟩
  intro tr schema hm hs
  have := htr tr hm
  subst this
  rw [schT_t] at hs
  simp only [Option.some.injEq] at hs
  subst hs
  exact runT

end Mkdb.Session
