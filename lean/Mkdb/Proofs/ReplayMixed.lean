import Mkdb.Proofs.ReplayMixed3
import Mkdb.Proofs.SpecRefine
/-!
# Crash with nothing flushed since the checkpoint: mixed histories, up to the plain model

* `ReplayMixed1`: freshness of all pages (`FreshM`), `replay_update_record`, `replay_delete_record`.
* `ReplayMixed2`: `RStmt`, `LiveRunM`, `replay_update_logs_gen`, `replay_delete_logs_gen`,
  `replay_history_mixed(_gen)`, non-vacuity `history_mixed_st0`.
* `ReplayMixed3`: the engine's evaluators as live runs (`evalInsert_live`, `evalDelete_live`,
  `evalUpdate_live`).
* here: `EStmt`, `SpecRun` (a list of engine statements run from `db0`, each accepted by the plain
  model `Mkdb.Spec`), `spec_run_live`, and
  **`crash_recovery_spec`**: replaying the log the statements wrote on the store they started from
  ends in a store that abstracts (`AbsV`) to the plain-model state of all acknowledged statements;
  `crash_recoverPre`: the same about `Engine.recoverPre`; non-vacuity `crash_example`.
-/
set_option autoImplicit false
namespace Mkdb.Store
open Mkdb.Page Mkdb.Tuple Mkdb.Generated Mkdb.Tree Mkdb.Engine

/-! ### a held tree is determined by its root -/

theorem holds_unique {s : Store} {t t2 : Levels} (hH : Holds s t) (hI : Inv t s.hdr.nextFree)
    (hd : t.inner.length + 2 ≤ treeFuel) (hH2 : Holds s t2) (hI2 : Inv t2 s.hdr.nextFree)
    (hd2 : t2.inner.length + 2 ≤ treeFuel) (hr : rootOff t = rootOff t2) : t = t2 := by
  have h1 := ofHeap_view hH hI hd
  have h2 := ofHeap_view hH2 hI2 hd2
  rw [hr, h2] at h1
  exact (Option.some.inj h1).symm

/-- two catalog descriptions of one store give a table name the same tree -/
theorem Cat.tree_unique {s : Store} {pt pt2 sch sch2 : Levels} {tbls tbls2 : List (Bytes × Levels)}
    (h : Cat s pt sch tbls) (h2 : Cat s pt2 sch2 tbls2) {n : Bytes} {t t2 : Levels}
    (ht : (n, t) ∈ tbls) (ht2 : (n, t2) ∈ tbls2) : t = t2 := by
  obtain ⟨a, b, c, _, _⟩ := h.tree pt Cat.pt_mem
  obtain ⟨a2, b2, c2, _, _⟩ := h2.tree pt2 Cat.pt_mem
  have hpt : pt = pt2 := holds_unique a b c a2 b2 c2 (by rw [h.root, h2.root])
  subst hpt
  have hroot : rootOff t = rootOff t2 := by
    have := inj_of_nodup_map (·.1) _ h.names _ (h.etb (n, t) ht) _ (h2.etb (n, t2) ht2) rfl
    simp only [Prod.mk.injEq, true_and] at this
    exact this
  obtain ⟨x, y, z, _, _⟩ := h.tree t (Cat.tb_mem ht)
  obtain ⟨x2, y2, z2, _, _⟩ := h2.tree t2 (Cat.tb_mem ht2)
  exact holds_unique x y z x2 y2 z2 hroot

/-! ### a run of engine statements the plain model accepts -/

/-- a row statement of the engine (`EvaluateInsert` with several rows, `EvaluateDelete`,
`EvaluateUpdate`) -/
inductive EStmt where
  | insert (table : Bytes) (cols : List Bytes) (rows : List (List Val))
  | delete (table : Bytes) (w : Option Sql.Cond)
  | update (table : Bytes) (sets : List (Bytes × Sql.VExpr)) (w : Option Sql.Cond)

/-- A list of engine statements run from the database `db` (plain-model state `sdb`) to `db'`
(plain-model state `sdb'`): every statement is accepted by the plain model (`specInsert` /
`specDelete` / `specUpdate` return the next state), the engine's evaluator returns `.ok` with the next
database; the values are values a Go program can hold; for INSERT the fuel / size side conditions
`InsRunOK` hold for whatever tree the store holds for the table. -/
inductive SpecRun (sch : Levels) : Engine.DB → Spec.SDB → List EStmt → Engine.DB → Spec.SDB → Prop
  | nil (db : Engine.DB) (sdb : Spec.SDB) : SpecRun sch db sdb [] db sdb
  | insert {db db1 db2 : Engine.DB} {sdb sdb1 sdb2 : Spec.SDB} {rest : List EStmt} {n : Nat}
      (table : Bytes) (cols : List Bytes) (rows : List (List Val))
      (hvalid : ∀ r ∈ rows, ∀ v ∈ r, ValidVal v)
      (hspec : Spec.specInsert sdb table cols rows = some sdb1)
      (hrunok : ∀ pt tbls t schema, AbsV db.store pt sch tbls sdb → (table, t) ∈ tbls →
        schemaOf sch table = some schema →
        InsRunOK schema (cols.map Engine.bytesToName) t db.store.hdr.lastKey db.store.hdr.nextLSN
          db.store.hdr.nextFree rows)
      (heval : Engine.evalInsert db table cols rows = .ok n db1)
      (hrest : SpecRun sch db1 sdb1 rest db2 sdb2) :
      SpecRun sch db sdb (.insert table cols rows :: rest) db2 sdb2
  | delete {db db1 db2 : Engine.DB} {sdb sdb1 sdb2 : Spec.SDB} {rest : List EStmt} {n : Nat}
      (table : Bytes) (w : Option Sql.Cond)
      (hspec : Spec.specDelete sdb table w = some sdb1)
      (heval : Engine.evalDelete db table w = .ok n db1)
      (hrest : SpecRun sch db1 sdb1 rest db2 sdb2) :
      SpecRun sch db sdb (.delete table w :: rest) db2 sdb2
  | update {db db1 db2 : Engine.DB} {sdb sdb1 sdb2 : Spec.SDB} {rest : List EStmt}
      (table : Bytes) (sets : List (Bytes × Sql.VExpr)) (w : Option Sql.Cond)
      (hvalid : ∀ p ∈ sets, ∀ l, p.2 = .lit l → ValidVal (Engine.litToVal l))
      (hspec : Spec.specUpdate sdb table sets w = some sdb1)
      (heval : Engine.evalUpdate db table sets w = .ok () db1)
      (hrest : SpecRun sch db1 sdb1 rest db2 sdb2) :
      SpecRun sch db sdb (.update table sets w :: rest) db2 sdb2

/-- **A run of engine statements is a live run of row statements**: the stores are linked by a
`LiveRunM`, the log grew by exactly its records, and the final store abstracts to the plain-model
state, with the table list the live run ends in. -/
theorem spec_run_live (sch : Levels) {db dbN : Engine.DB} {sdb sdbN : Spec.SDB} {stmts : List EStmt}
    (run : SpecRun sch db sdb stmts dbN sdbN) :
    ∀ (pt : Levels) (tbls : List (Bytes × Levels)), AbsV db.store pt sch tbls sdb →
      ∃ ptN tblsN stmtsM logs, LiveRunM sch db.store tbls stmtsM dbN.store tblsN logs ∧
        dbN.wal = db.wal ++ logs ∧ AbsV dbN.store ptN sch tblsN sdbN := by
  induction run with
  | nil db sdb =>
    intro pt tbls hA
    exact ⟨pt, tbls, [], [], .nil _ _, by simp, hA⟩
  | @insert db db1 db2 sdb sdb1 sdb2 rest n table cols rows hvalid hspec hrunok heval _ ih =>
    intro pt tbls hA
    obtain ⟨sdb0, habs, hv⟩ := hA
    obtain ⟨sdb0', hspec0, hv'⟩ := specInsert_congr hv table cols rows hspec
    -- the table exists
    obtain ⟨st, hfind⟩ : ∃ st, Spec.findTable sdb0 table = some st := by
      unfold Spec.specInsert at hspec0
      cases hf : Spec.findTable sdb0 table with
      | none => rw [hf] at hspec0; cases hspec0
      | some st => exact ⟨st, rfl⟩
    obtain ⟨t, ht⟩ := habs.tabs.find_some hfind
    obtain ⟨schema, hsch, _, _⟩ := habs.tabs.find habs.cat.tnames ht
    obtain ⟨db', ptF, t', logs, sdb'', e, hw, hlive, habs', hvv⟩ := evalInsert_live db pt sch tbls sdb0 sdb0' habs
      table t ht schema hsch cols rows hvalid hspec0 (hrunok pt tbls t schema ⟨sdb0, habs, hv⟩ ht hsch)
    rw [e] at heval
    simp only [Engine.Res.ok.injEq] at heval
    obtain ⟨_, rfl⟩ := heval
    obtain ⟨ptN, tblsN, stmtsM, logs2, hrun2, hw2, hA2⟩ := ih ptF _ ⟨sdb'', habs', hvv.trans hv'⟩
    exact ⟨ptN, tblsN, _, _, hlive.append hrun2, by rw [hw2, hw, List.append_assoc], hA2⟩
  | @delete db db1 db2 sdb sdb1 sdb2 rest n table w hspec heval _ ih =>
    intro pt tbls hA
    obtain ⟨sdb0, habs, hv⟩ := hA
    obtain ⟨sdb0', hspec0, hv'⟩ := specDelete_congr hv table w hspec
    obtain ⟨n', db', t', logs, stmts1, e, hw, hlive, habs'⟩ := evalDelete_live db pt sch tbls sdb0 sdb0' habs
      table w hspec0
    rw [e] at heval
    simp only [Engine.Res.ok.injEq] at heval
    obtain ⟨_, rfl⟩ := heval
    obtain ⟨ptN, tblsN, stmtsM, logs2, hrun2, hw2, hA2⟩ := ih pt _ ⟨sdb0', habs', hv'⟩
    exact ⟨ptN, tblsN, _, _, hlive.append hrun2, by rw [hw2, hw, List.append_assoc], hA2⟩
  | @update db db1 db2 sdb sdb1 sdb2 rest table sets w hvalid hspec heval _ ih =>
    intro pt tbls hA
    obtain ⟨sdb0, habs, hv⟩ := hA
    obtain ⟨sdb0', hspec0, hv'⟩ := specUpdate_congr hv table sets w hspec
    -- the engine accepted the statement, so its test of the SET columns passed
    have hset : ∀ schema, schemaOf sch table = some schema →
        Engine.checkSetColumns (schema.map fun fd => (⟨[], fd.name.toUTF8.toList⟩ : Exec.Field)) []
          (sets.map (·.1)) = none := by
      intro schema hsch
      obtain ⟨st, hfind⟩ : ∃ st, Spec.findTable sdb0 table = some st := by
        rw [specUpdate_eq] at hspec0
        cases hf : Spec.findTable sdb0 table with
        | none => rw [hf] at hspec0; cases hspec0
        | some st => exact ⟨st, rfl⟩
      obtain ⟨t, ht⟩ := habs.tabs.find_some hfind
      obtain ⟨schema', hsch', hdec, _⟩ := habs.tabs.find habs.cat.tnames ht
      rw [hsch] at hsch'
      simp only [Option.some.injEq] at hsch'
      subst hsch'
      exact evalUpdate_ok_set habs.cat table t ht schema hsch hdec sets w heval
    obtain ⟨db', t', logs, stmts1, e, hw, hlive, habs'⟩ := evalUpdate_live_set db pt sch tbls sdb0 sdb0' habs
      table sets w hvalid hset hspec0
    rw [e] at heval
    simp only [Engine.Res.ok.injEq] at heval
    obtain ⟨_, rfl⟩ := heval
    obtain ⟨ptN, tblsN, stmtsM, logs2, hrun2, hw2, hA2⟩ := ih pt _ ⟨sdb0', habs', hv'⟩
    exact ⟨ptN, tblsN, _, _, hlive.append hrun2, by rw [hw2, hw, List.append_assoc], hA2⟩

/-- **After a crash in which nothing was flushed since the checkpoint, recovery restores the
plain-model state of all acknowledged statements.**  The statements `stmts` are run by the engine
from the database `db0`, whose log is empty and whose store abstracts (up to row ids) to the
plain-model state `sdb0`; they end in `dbN`, the plain model in `sdbN`.  Replaying the log `dbN.wal`
on the store `db0.store` the statements started from succeeds, and the resulting store abstracts to
`sdbN`, as the live final store does - with the same catalog description, i.e. the same page table and
the same trees for all tables, page for page. -/
theorem crash_recovery_spec (sch : Levels) {db0 dbN : Engine.DB} {sdb0 sdbN : Spec.SDB} {stmts : List EStmt}
    (run : SpecRun sch db0 sdb0 stmts dbN sdbN) (hwal : db0.wal = [])
    (pt : Levels) (tbls : List (Bytes × Levels)) (hA : AbsV db0.store pt sch tbls sdb0)
    (hself : PtSelf pt) (hf : FreshM db0.store tbls) :
    ∃ ptN tblsN rN, replayAll dbN.wal db0.store = (rN, none, false) ∧
      AbsV dbN.store ptN sch tblsN sdbN ∧ AbsV rN ptN sch tblsN sdbN ∧
      (∀ x ∈ catTrees ptN sch tblsN, ∀ o ∈ offs x, view rN o = view dbN.store o) ∧
      rN.hdr.nextFree = dbN.store.hdr.nextFree ∧ rN.hdr.lastKey = dbN.store.hdr.lastKey ∧
      rN.hdr.ptRoot = dbN.store.hdr.ptRoot ∧ rN.hdr.nextLSN ≤ dbN.store.hdr.nextLSN := by
  obtain ⟨_, tblsN, stmtsM, logs, hrun, hw, ⟨sdbF, habsF, hvF⟩⟩ := spec_run_live sch run pt tbls hA
  obtain ⟨_, habs0, _⟩ := hA
  rw [hwal, List.nil_append] at hw
  obtain ⟨ptN, rN, e, c1, c2, hpages, a1, a2, a3, a4⟩ := replay_history_mixed sch hrun pt habs0.cat hself hf
  exact ⟨ptN, tblsN, rN, by rw [hw]; exact e, ⟨sdbF, ⟨c1, habsF.tabs⟩, hvF⟩, ⟨sdbF, ⟨c2, habsF.tabs⟩, hvF⟩,
    hpages, a1, a2, a3, a4⟩

/-- the same about the model of start-up recovery: if the crashed database `dbN` (data file and log as
the statements left them) re-opens to the store the statements started from - nothing was flushed
since, and that store was a freshly opened one - then the cache `Engine.recoverPre` describes (the
replayed store with the final LSN bump, right before recovery's own flush) abstracts to `sdbN`. -/
theorem crash_recoverPre (sch : Levels) {db0 dbN : Engine.DB} {sdb0 sdbN : Spec.SDB} {stmts : List EStmt}
    (run : SpecRun sch db0 sdb0 stmts dbN sdbN) (hwal : db0.wal = [])
    (pt : Levels) (tbls : List (Bytes × Levels)) (hA : AbsV db0.store pt sch tbls sdb0)
    (hself : PtSelf pt) (hf : FreshM db0.store tbls) (hck : reopen dbN.store = db0.store) :
    ∃ ptN tblsN rN, Engine.recoverPre dbN = some rN ∧
      AbsV dbN.store ptN sch tblsN sdbN ∧ AbsV rN ptN sch tblsN sdbN := by
  obtain ⟨ptN, tblsN, rN, e, hAN, ⟨sdbF, habsR, hvF⟩, _⟩ := crash_recovery_spec sch run hwal pt tbls hA hself hf
  refine ⟨ptN, tblsN, { rN with hdr := { rN.hdr with nextLSN := rN.hdr.nextLSN + 1 } }, ?_, hAN,
    ⟨sdbF, ⟨habsR.cat.raise rfl rfl rfl (Nat.le_refl _), habsR.tabs⟩, hvF⟩⟩
  unfold Engine.recoverPre
  rw [hck, e]

/-! ### non-vacuity: the three statements of `chain_example`, then the crash -/

theorem freshM_st1 : FreshM st1 [(tname, t0)] :=
  ⟨by intro e he; simp at he; subst he; decide, by decide, by intro e he; simp at he; subst he; decide⟩

/-- `INSERT INTO t VALUES (5), (6)`, `UPDATE t SET a = 7 WHERE a = 5`, `DELETE FROM t WHERE a = 6` run
by the engine from `dbA` (store `st1`, empty log); the log they wrote, replayed on `st1`, gives a
store that abstracts to the plain-model state `sdbA3`: the table holds the single row `(7)`. -/
theorem crash_example : ∃ db3 ptN tblsN rN,
    SpecRun sch1 dbA sdbA0
      [.insert tname [] [[.int 5], [.int 6]], .update tname [([97], .lit (.int 7))] (some (condEq 5)),
       .delete tname (some (condEq 6))] db3 sdbA3 ∧
    replayAll db3.wal st1 = (rN, none, false) ∧
    AbsV db3.store ptN sch1 tblsN sdbA3 ∧ AbsV rN ptN sch1 tblsN sdbA3 := by
  obtain ⟨db1, db2, db3, _, _, e1, e2, e3, _, _⟩ := chain_example
  have run : SpecRun sch1 dbA sdbA0
      [.insert tname [] [[.int 5], [.int 6]], .update tname [([97], .lit (.int 7))] (some (condEq 5)),
       .delete tname (some (condEq 6))] db3 sdbA3 :=
    .insert tname [] [[.int 5], [.int 6]]
      (by
        intro r hr v hv
        simp only [List.mem_cons, List.not_mem_nil, or_false] at hr
        rcases hr with rfl | rfl
        · simp only [List.mem_singleton] at hv; subst hv; exact ⟨by decide, by decide⟩
        · simp only [List.mem_singleton] at hv; subst hv; exact ⟨by decide, by decide⟩)
      specA1
      (by
        intro pt tbls t schema hA ht hs
        obtain ⟨_, habs, _⟩ := hA
        have ht0 : t = t0 := habs.cat.tree_unique cat1 ht (List.mem_singleton.mpr rfl)
        subst ht0
        rw [sch1_t] at hs
        simp only [Option.some.injEq] at hs
        subst hs
        exact runA)
      e1
      (.update tname [([97], .lit (.int 7))] (some (condEq 5))
        (by
          intro p hp l hl
          simp only [List.mem_singleton] at hp
          subst hp
          simp only [Sql.VExpr.lit.injEq] at hl
          subst hl
          exact ⟨by decide, by decide⟩)
        specA2 e2
        (.delete tname (some (condEq 6)) specA3 e3 (.nil db3 sdbA3)))
  obtain ⟨ptN, tblsN, rN, e, hA1, hA2, _⟩ := crash_recovery_spec sch1 run rfl pt0 [(tname, t0)] abs1.toV pt0_self
    freshM_st1
  exact ⟨db3, ptN, tblsN, rN, run, e, hA1, hA2⟩

end Mkdb.Store
