import Mkdb.Proofs.Tree1
/-!
Proofs about the levels model of the B+ tree, part 2: what `bubble` does to the internal levels,
clause by clause (capacity, linking, separators, offsets).
-/
namespace Mkdb.Tree
open Mkdb.Page Mkdb.Generated

/-! ### capacity -/

def CapInner (lvls : List (List (Internal × Bool))) : Prop :=
  ∀ lvl ∈ lvls, ∀ p ∈ lvl, 1 ≤ p.1.cells.length ∧ p.1.cells.length < c_maxInternalNodeCells

theorem bubble_cap (h3 : 3 ≤ c_maxInternalNodeCells) (lsn : Nat) (lvls : List (List (Internal × Bool))) :
    ∀ (sep l nc nf : Nat), CapInner lvls → CapInner (bubble lsn lvls sep l nc nf).1 := by
  induction lvls with
  | nil =>
    intro sep l nc nf _
    rw [bubble_nil]
    intro lvl hlvl p hp
    simp only [List.mem_singleton] at hlvl
    subst hlvl
    simp only [List.mem_singleton] at hp
    subst hp
    simp only [List.length_cons, List.length_nil]
    omega
  | cons lvl rest ih =>
    intro sep l nc nf h
    rcases eq_nil_or_snoc lvl with rfl | ⟨pre, ⟨p, d⟩, rfl⟩
    · rw [bubble_cons_nil]
      intro lvl hlvl
      cases hlvl
    · have hp : 1 ≤ p.cells.length ∧ p.cells.length < c_maxInternalNodeCells :=
        h _ (List.mem_cons_self) (p, d) (by simp)
      have hpre : ∀ q ∈ pre, 1 ≤ q.1.cells.length ∧ q.1.cells.length < c_maxInternalNodeCells :=
        fun q hq => h _ (List.mem_cons_self) q (by simp [hq])
      have hrest : CapInner rest := fun lvl hl => h lvl (List.mem_cons_of_mem _ hl)
      have hlen : (intApp p sep nc lsn).cells.length = p.cells.length + 1 := by simp [intApp]
      rw [bubble_cons_snoc]
      split
      · rename_i hlt
        intro lvl hlvl q hq
        rcases List.mem_cons.mp hlvl with rfl | hl
        · rcases List.mem_append.mp hq with hq | hq
          · exact hpre q hq
          · simp only [List.mem_singleton] at hq
            subst hq
            refine ⟨?_, hlt⟩
            show 1 ≤ (intApp p sep nc lsn).cells.length
            omega
        · exact hrest lvl hl q hq
      · rename_i hlt
        intro lvl hlvl q hq
        rcases List.mem_cons.mp hlvl with rfl | hl
        · rcases List.mem_append.mp hq with hq | hq
          · exact hpre q hq
          · simp only [List.mem_cons, List.not_mem_nil, or_false] at hq
            rcases hq with rfl | rfl
            · simp only [intL, List.length_take]
              omega
            · simp only [intR, List.length_drop]
              omega
        · exact ih _ _ _ _ hrest lvl hl q hq

/-! ### linking -/

theorem childOffs_append (a b : List (Internal × Bool)) : childOffs (a ++ b) = childOffs a ++ childOffs b := by
  simp [childOffs, List.flatMap_append]

theorem childOffs_nil : childOffs [] = [] := rfl

theorem childOffs_cons (p : Internal × Bool) (b : List (Internal × Bool)) :
    childOffs (p :: b) = p.1.cells.map (·.child) ++ [p.1.right] ++ childOffs b := by
  simp [childOffs]

theorem split_at_mid {α} (xs : List α) (m : Nat) (d : α) (h : m < xs.length) :
    xs.take m ++ [(xs[m]?).getD d] ++ xs.drop (m + 1) = xs := by
  rw [List.getElem?_eq_getElem h, Option.getD_some, List.append_assoc, List.singleton_append,
    List.getElem_cons_drop, List.take_append_drop]

theorem childOffs_split (p1 : Internal) (lsn nf : Nat) (d1 d2 : Bool) (h : 1 ≤ p1.cells.length) :
    childOffs [(intL p1, d1), (intR p1 lsn nf, d2)] = p1.cells.map (·.child) ++ [p1.right] := by
  have hm : p1.cells.length / 2 < p1.cells.length := by omega
  have := split_at_mid p1.cells (p1.cells.length / 2) ⟨0, 0⟩ hm
  simp only [childOffs_cons, childOffs_nil, intL, intR, midCell, List.append_nil]
  conv => rhs; rw [← this]
  simp only [List.map_append, List.map_cons, List.map_nil, List.append_assoc]

theorem bubble_link (lsn : Nat) (lvls : List (List (Internal × Bool))) :
    ∀ (below : List Nat) (sep l nc nf : Nat), linked below lvls → below.getLast? = some l →
      linked (below ++ [nc]) (bubble lsn lvls sep l nc nf).1 := by
  induction lvls with
  | nil =>
    intro below sep l nc nf h hl
    rw [bubble_nil]
    obtain ⟨ys, rfl⟩ := List.getLast?_eq_some_iff.mp hl
    simp only [linked, List.length_append, List.length_cons, List.length_nil] at h
    have : ys = [] := List.eq_nil_of_length_eq_zero (by omega)
    subst this
    simp [linked, childOffs]
  | cons lvl rest ih =>
    intro below sep l nc nf h hl
    obtain ⟨hc, hrest⟩ := h
    rcases eq_nil_or_snoc lvl with rfl | ⟨pre, ⟨p, d⟩, rfl⟩
    · rw [childOffs_nil] at hc
      subst hc
      simp at hl
    · rw [bubble_cons_snoc]
      rw [childOffs_append, childOffs_cons, childOffs_nil] at hc
      split
      · refine ⟨?_, ?_⟩
        · rw [childOffs_append, childOffs_cons, childOffs_nil, ← hc]
          simp [intApp]
        · simpa [intApp] using hrest
      · refine ⟨?_, ?_⟩
        · rw [childOffs_append, childOffs_split _ _ _ _ _ (by simp [intApp]), ← hc]
          simp [intApp]
        · have := ih ((pre ++ [(p, d)]).map (·.1.off)) (midCell (intApp p sep nc lsn)).key p.off nf
            (nf + c_pageSize) hrest (by simp)
          simpa [intL, intR, intApp] using this

/-! ### separators -/

theorem levelLos_length (lvl : List (Internal × Bool)) : ∀ los, (levelLos los lvl).length = lvl.length := by
  induction lvl with
  | nil => intro los; rfl
  | cons p ps ih => intro los; simp [levelLos, ih]

theorem sepsOK_length (lvl : List (Internal × Bool)) :
    ∀ los, sepsOK los lvl → los.length = (childOffs lvl).length := by
  induction lvl with
  | nil => intro los h; simp only [sepsOK] at h; subst h; rfl
  | cons p ps ih =>
    intro los h
    obtain ⟨h1, _, h3⟩ := h
    have := ih _ h3
    rw [childOffs_cons]
    simp only [List.length_drop] at this
    simp only [List.length_append, List.length_map, List.length_cons, List.length_nil]
    omega

theorem sepsOK_singleton (p : Internal × Bool) (los : List Nat) :
    sepsOK los [p] ↔ ∃ x, los = x :: p.1.cells.map (·.key) := by
  simp only [sepsOK]
  constructor
  · rintro ⟨h1, h2, h3⟩
    have hlen : los.length = p.1.cells.length + 1 := by
      have := List.drop_eq_nil_iff.mp h3
      omega
    rw [List.take_of_length_le (by omega)] at h2
    cases los with
    | nil => simp at hlen
    | cons x xs => exact ⟨x, by simpa using h2⟩
  · rintro ⟨x, rfl⟩
    simp [List.take_of_length_le]

/-- replace the tail of a level: the separator property is transported -/
theorem sepsOK_tail_congr (tl tl' : List (Internal × Bool)) (ext : List Nat)
    (H : ∀ los', sepsOK los' tl → sepsOK (los' ++ ext) tl') (pre : List (Internal × Bool)) :
    ∀ los, sepsOK los (pre ++ tl) → sepsOK (los ++ ext) (pre ++ tl') := by
  induction pre with
  | nil => intro los h; exact H los h
  | cons p ps ih =>
    intro los h
    obtain ⟨h1, h2, h3⟩ := h
    refine ⟨?_, ?_, ?_⟩
    · simp only [List.length_append]; omega
    · rw [List.take_append_of_le_length h1]; exact h2
    · rw [List.drop_append_of_le_length h1]; exact ih _ h3

theorem levelLos_tail_congr (tl tl' : List (Internal × Bool)) (ext extra : List Nat)
    (H : ∀ los', sepsOK los' tl → levelLos (los' ++ ext) tl' = levelLos los' tl ++ extra)
    (pre : List (Internal × Bool)) :
    ∀ los, sepsOK los (pre ++ tl) → levelLos (los ++ ext) (pre ++ tl') = levelLos los (pre ++ tl) ++ extra := by
  induction pre with
  | nil => intro los h; exact H los h
  | cons p ps ih =>
    intro los h
    obtain ⟨h1, h2, h3⟩ := h
    simp only [List.cons_append, levelLos]
    rw [List.drop_append_of_le_length h1, ih _ h3]
    cases los with
    | nil => simp at h1
    | cons x xs => simp

theorem sepsOK_app (p : Internal) (d d' : Bool) (sep nc lsn : Nat) (los' : List Nat)
    (h : sepsOK los' [(p, d)]) : sepsOK (los' ++ [sep]) [(intApp p sep nc lsn, d')] := by
  obtain ⟨x, rfl⟩ := (sepsOK_singleton _ _).mp h
  exact (sepsOK_singleton _ _).mpr ⟨x, by simp [intApp]⟩

theorem levelLos_app (p : Internal) (d d' : Bool) (sep nc lsn : Nat) (los' : List Nat)
    (h : sepsOK los' [(p, d)]) :
    levelLos (los' ++ [sep]) [(intApp p sep nc lsn, d')] = levelLos los' [(p, d)] ++ [] := by
  obtain ⟨x, rfl⟩ := (sepsOK_singleton _ _).mp h
  simp [levelLos]

theorem sepsOK_split (p1 : Internal) (d d1 d2 : Bool) (lsn nf : Nat) (hp : 1 ≤ p1.cells.length)
    (los' : List Nat) (h : sepsOK los' [(p1, d)]) :
    sepsOK (los' ++ []) [(intL p1, d1), (intR p1 lsn nf, d2)] := by
  obtain ⟨x, rfl⟩ := (sepsOK_singleton _ _).mp h
  have hm : p1.cells.length / 2 < p1.cells.length := by omega
  rw [List.append_nil]
  refine ⟨?_, ?_, ?_⟩
  · simp only [intL, List.length_take, List.length_cons, List.length_map]; omega
  · simp only [intL, List.length_take, Nat.min_eq_left (Nat.le_of_lt hm), List.take_succ_cons,
      List.tail_cons, List.map_take]
  · apply (sepsOK_singleton _ _).mpr
    simp only [intL, List.length_take, Nat.min_eq_left (Nat.le_of_lt hm), List.drop_succ_cons, intR]
    refine ⟨(midCell p1).key, ?_⟩
    have hm' : p1.cells.length / 2 < (p1.cells.map (·.key)).length := by simpa using hm
    simp only [List.map_drop]
    rw [List.drop_eq_getElem_cons hm']
    simp [midCell, List.getElem?_eq_getElem hm]

theorem levelLos_split (p1 : Internal) (d d1 d2 : Bool) (lsn nf : Nat) (hp : 1 ≤ p1.cells.length)
    (los' : List Nat) (h : sepsOK los' [(p1, d)]) :
    levelLos (los' ++ []) [(intL p1, d1), (intR p1 lsn nf, d2)] =
      levelLos los' [(p1, d)] ++ [(midCell p1).key] := by
  obtain ⟨x, rfl⟩ := (sepsOK_singleton _ _).mp h
  have hm : p1.cells.length / 2 < p1.cells.length := by omega
  simp only [List.append_nil, levelLos, List.headD_cons, intL, List.length_take,
    Nat.min_eq_left (Nat.le_of_lt hm), List.drop_succ_cons, List.cons_append, List.nil_append,
    List.cons.injEq, true_and, and_true]
  have hm' : p1.cells.length / 2 < (p1.cells.map (·.key)).length := by simpa using hm
  rw [List.drop_eq_getElem_cons hm']
  simp [midCell, List.getElem?_eq_getElem hm]

theorem bubble_seps (lsn : Nat) (lvls : List (List (Internal × Bool))) :
    ∀ (below los : List Nat) (sep l nc nf : Nat), linked below lvls → sepsAll los lvls →
      los.length = below.length → below ≠ [] →
      sepsAll (los ++ [sep]) (bubble lsn lvls sep l nc nf).1 := by
  induction lvls with
  | nil =>
    intro below los sep l nc nf hlink _ hlen _
    rw [bubble_nil]
    simp only [linked] at hlink
    match los, hlen with
    | [x], _ => simp [sepsAll, sepsOK]
    | [], hlen => simp at hlen; omega
    | _ :: _ :: _, hlen => simp at hlen; omega
  | cons lvl rest ih =>
    intro below los sep l nc nf hlink hs hlen hne
    obtain ⟨hc, hrest⟩ := hlink
    obtain ⟨hs1, hs2⟩ := hs
    rcases eq_nil_or_snoc lvl with rfl | ⟨pre, ⟨p, d⟩, rfl⟩
    · rw [childOffs_nil] at hc
      exact absurd hc.symm hne
    · rw [bubble_cons_snoc]
      have happ : sepsOK (los ++ [sep]) (pre ++ [(intApp p sep nc lsn, true)]) :=
        sepsOK_tail_congr _ _ _ (sepsOK_app p d true sep nc lsn) pre los hs1
      have happL : levelLos (los ++ [sep]) (pre ++ [(intApp p sep nc lsn, true)]) =
          levelLos los (pre ++ [(p, d)]) := by
        have := levelLos_tail_congr _ _ _ _ (levelLos_app p d true sep nc lsn) pre los hs1
        simpa using this
      split
      · exact ⟨happ, by rw [happL]; exact hs2⟩
      · have h1 : 1 ≤ (intApp p sep nc lsn).cells.length := by simp [intApp]
        refine ⟨?_, ?_⟩
        · have := sepsOK_tail_congr _ _ _
            (sepsOK_split (intApp p sep nc lsn) true true true lsn nf h1) pre _ happ
          simpa using this
        · have := levelLos_tail_congr _ _ _ _
            (levelLos_split (intApp p sep nc lsn) true true true lsn nf h1) pre _ happ
          rw [List.append_nil] at this
          rw [this, happL]
          apply ih ((pre ++ [(p, d)]).map (·.1.off)) _ _ _ _ _ hrest hs2
          · simp [levelLos_length]
          · simp

/-! ### offsets -/

def innerOffs (lvls : List (List (Internal × Bool))) : List Nat :=
  lvls.flatMap fun lvl => lvl.map (·.1.off)

theorem offs_eq (t : Levels) : offs t = t.leaves.map (·.1.off) ++ innerOffs t.inner := by
  simp only [offs, flatten, innerOffs, List.map_flatMap, List.map_append, List.map_map]
  rfl

theorem innerOffs_cons (lvl) (rest) : innerOffs (lvl :: rest) = lvl.map (·.1.off) ++ innerOffs rest := by
  simp [innerOffs]

theorem nodup_aux (A R R' : List Nat) (nf ps nf' : Nat) (hps : 0 < ps)
    (hnd : (A ++ R).Nodup) (hlt : ∀ o ∈ A ++ R, o < nf)
    (hR' : R.Nodup → (∀ o ∈ R, o < nf + ps) → R'.Nodup)
    (hmem : ∀ o ∈ R', o ∈ R ∨ (nf + ps ≤ o ∧ o < nf')) :
    (A ++ [nf] ++ R').Nodup := by
  have ⟨hA, hR, hAR⟩ := List.nodup_append.mp hnd
  have hltA : ∀ o ∈ A, o < nf := fun o ho => hlt o (List.mem_append_left _ ho)
  have hltR : ∀ o ∈ R, o < nf := fun o ho => hlt o (List.mem_append_right _ ho)
  have hR'nd := hR' hR (fun o ho => by have := hltR o ho; omega)
  rw [List.append_assoc, List.nodup_append]
  refine ⟨hA, ?_, ?_⟩
  · rw [List.singleton_append, List.nodup_cons]
    refine ⟨?_, hR'nd⟩
    intro hmem'
    rcases hmem _ hmem' with h | h
    · have := hltR _ h; omega
    · omega
  · intro a ha b hb
    have := hltA a ha
    simp only [List.singleton_append, List.mem_cons] at hb
    rcases hb with rfl | hb
    · omega
    · rcases hmem b hb with h | h
      · exact hAR a ha b h
      · omega

theorem bubble_offs (hps : 0 < c_pageSize) (lsn : Nat) (lvls : List (List (Internal × Bool))) :
    ∀ (sep l nc nf : Nat),
      nf ≤ (bubble lsn lvls sep l nc nf).2 ∧
      (∀ o ∈ innerOffs (bubble lsn lvls sep l nc nf).1,
        o ∈ innerOffs lvls ∨ (nf ≤ o ∧ o < (bubble lsn lvls sep l nc nf).2)) ∧
      ((innerOffs lvls).Nodup → (∀ o ∈ innerOffs lvls, o < nf) →
        (innerOffs (bubble lsn lvls sep l nc nf).1).Nodup) := by
  induction lvls with
  | nil =>
    intro sep l nc nf
    rw [bubble_nil]
    simp [innerOffs]
    omega
  | cons lvl rest ih =>
    intro sep l nc nf
    rcases eq_nil_or_snoc lvl with rfl | ⟨pre, ⟨p, d⟩, rfl⟩
    · rw [bubble_cons_nil]
      simp [innerOffs]
    · rw [bubble_cons_snoc]
      split
      · have : innerOffs ((pre ++ [(intApp p sep nc lsn, true)]) :: rest) =
            innerOffs ((pre ++ [(p, d)]) :: rest) := by simp [innerOffs, intApp]
        rw [this]
        exact ⟨Nat.le_refl _, fun o ho => .inl ho, fun h _ => h⟩
      · obtain ⟨ih1, ih2, ih3⟩ := ih (midCell (intApp p sep nc lsn)).key p.off nf (nf + c_pageSize)
        have : ∀ R', innerOffs ((pre ++ [(intL (intApp p sep nc lsn), true),
              (intR (intApp p sep nc lsn) lsn nf, true)]) :: R') =
            (pre ++ [(p, d)]).map (·.1.off) ++ [nf] ++ innerOffs R' := by
          intro R'; simp [innerOffs, intApp, intL, intR]
        simp only [this, innerOffs_cons]
        refine ⟨by omega, ?_, ?_⟩
        · intro o ho
          rcases List.mem_append.mp ho with ho | ho
          · rcases List.mem_append.mp ho with ho | ho
            · exact .inl (List.mem_append_left _ ho)
            · simp only [List.mem_singleton] at ho
              subst ho
              exact .inr ⟨Nat.le_refl _, by omega⟩
          · rcases ih2 o ho with h | h
            · exact .inl (List.mem_append_right _ h)
            · exact .inr ⟨by omega, h.2⟩
        · intro hnd hlt
          exact nodup_aux _ _ _ nf c_pageSize _ hps hnd hlt ih3 ih2

end Mkdb.Tree
