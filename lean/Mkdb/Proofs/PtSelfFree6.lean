import Mkdb.Proofs.PtSelfFree4
/-!
The page table's row about itself, part 6 (W10): **why the two side conditions remain** - the crash
theorems are false of stores that violate them.  Both stores below are hand-made variants of the example
store `st1` (SpecRefine: one table `t (a INT)`, root leaf at 12288, counters `lastKey = 4`, `nextLSN = 7`);
neither is reachable (`C02_side_conditions_hold_in_every_reachable_database`); the catalog invariant `Cat`
looks neither at LSN stamps nor at the offset in the self-row, so it does not exclude them.  The results
are kernel evaluations of the model.

* `freshM_is_needed`: the root leaf of `t` carries LSN 100 while the LSN counter stands at 7.  `INSERT`
  stamps its record with 7; the replay finds the page "newer" than the record and skips it: the row is
  lost.  (`FreshM`: every page of a user table is older than the counter.)
* `ptSelf_is_needed`: the row of `sys_pages` in the page table names page 12288 - the root of `t` instead
  of a page of the page table.  Nine inserts move the root of `t` to 20480.  Replay of the nine INSERT
  records WITHOUT the catalog record that follows (the log cut of C03) re-points "the row that names
  12288": the first one - the self-row; the row of `t` keeps naming 12288, now the left half of the table.
  Replay of the whole log repairs the row of `t` (the catalog record names it by page and cell) but leaves
  the self-row rewritten, unlike the live run.  (`PtSelf`: the self-row names a page of the page table,
  which is never the root of a user table.)
-/
set_option autoImplicit false
namespace Mkdb.Store
open Mkdb.Page Mkdb.Tuple Mkdb.Generated Mkdb.Tree Mkdb.Engine

/-- `st1` with the root leaf of `t` stamped with LSN 100, ahead of the counter (7) -/
def stStale : Store :=
  { st1 with mem := [(4096, ⟨.leaf ptLeaf, true⟩), (8192, ⟨.leaf schLeaf, true⟩),
      (12288, ⟨.leaf ⟨12288, 100, false, false, 0, 0, []⟩, true⟩)] }

/-- number of cells of the leaf the engine sees at an offset -/
def cellsAt (s : Store) (off : Nat) : Nat :=
  match view s off with
  | some (.leaf l, _) => l.cells.length
  | _ => 0

/-- `INSERT INTO t VALUES (5)` on a store, then its log replayed on that store: (cells of the root leaf
after the live run, cells after the replay, replay ended without error) -/
def insertThenReplay (s : Store) : Option (Nat × Nat × Bool) :=
  match insert tname [] [Val.int 5] s with
  | .ok logs s' =>
    some (cellsAt s' 12288, cellsAt (replayAll logs s).1 12288,
      (replayAll logs s).2.1.isNone && !(replayAll logs s).2.2)
  | _ => none

/-- **`FreshM` is needed**: on `st1` the replay redoes the insert (one cell, as live); on `stStale` it
ends without error and the row is gone. -/
theorem freshM_is_needed :
    insertThenReplay st1 = some (1, 1, true) ∧ insertThenReplay stStale = some (1, 0, true) := by
  constructor <;> decide +kernel

/-- a page table whose self-row names the root of `t` -/
def ptLeafBad : Leaf := ⟨4096, 0, false, false, 0, 0,
  [⟨1, false, ptRow sysPages 12288⟩, ⟨2, false, ptRow sysSchema 8192⟩, ⟨3, false, ptRow tname 12288⟩]⟩

def stSelfBad : Store :=
  { st1 with mem := [(4096, ⟨.leaf ptLeafBad, true⟩), (8192, ⟨.leaf schLeaf, true⟩),
      (12288, ⟨.leaf ⟨12288, 0, false, false, 0, 0, []⟩, true⟩)] }

/-- `INSERT INTO t VALUES (i)` for each `i`, collecting the log -/
def insertMany : List Int → Store → List WalRec → Option (List WalRec × Store)
  | [], s, acc => some (acc, s)
  | i :: rest, s, acc =>
    match insert tname [] [Val.int i] s with
    | .ok logs s' => insertMany rest s' (acc ++ logs)
    | _ => none

/-- the offsets the rows of the page table's first page spell -/
def entryOffs (s : Store) : List Nat :=
  match view s 4096 with
  | some (.leaf l, _) => l.cells.map fun c => ((ptEntry c).map (·.2)).getD 0
  | _ => []

/-- nine inserts on a store; the first `k` records of their log replayed on that store: (length of the
log, offsets in the page table live, offsets after the replay, replay ended without error) -/
def nineThenReplay (s : Store) (k : Nat) : Option (Nat × List Nat × List Nat × Bool) :=
  match insertMany [1, 2, 3, 4, 5, 6, 7, 8, 9] s [] with
  | some (logs, s') =>
    some (logs.length, entryOffs s', entryOffs (replayAll (logs.take k) s).1,
      (replayAll (logs.take k) s).2.1.isNone && !(replayAll (logs.take k) s).2.2)
  | none => none

/-- **`PtSelf` is needed**: rows of the page table are (`sys_pages`, `sys_schema`, `t`).  On `st1` the
replay of the nine INSERT records alone re-points the row of `t` as the live run did.  On `stSelfBad` it
re-points the self-row and leaves the row of `t` naming the old root; the whole log (ten records) repairs
the row of `t` and leaves the self-row rewritten. -/
theorem ptSelf_is_needed :
    nineThenReplay st1 9 = some (10, [4096, 8192, 20480], [4096, 8192, 20480], true) ∧
    nineThenReplay stSelfBad 9 = some (10, [12288, 8192, 20480], [20480, 8192, 12288], true) ∧
    nineThenReplay stSelfBad 10 = some (10, [12288, 8192, 20480], [20480, 8192, 20480], true) := by
  refine ⟨?_, ?_, ?_⟩ <;> decide +kernel

end Mkdb.Store
