import Mkdb.Model.Csv
import Mkdb.Proofs.Tuple
/-!
Proofs about the CSV importer model: an accepted record is stored as exactly the converted
fields (`convert_spec`).
-/
namespace Mkdb.Csv
open Mkdb.Tuple Mkdb.Generated

/-! ### `List.mapM` in `Option` -/
section mapM
variable {α β : Type}

theorem mapM_cons_some {f : α → Option β} {a : α} {l : List α} {r : List β}
    (h : (a :: l).mapM f = some r) :
    ∃ b bs, f a = some b ∧ l.mapM f = some bs ∧ r = b :: bs := by
  rw [List.mapM_cons] at h
  cases hb : f a with
  | none => simp [hb] at h
  | some b =>
    cases hbs : l.mapM f with
    | none => simp [hb, hbs] at h
    | some bs =>
      simp [hb, hbs] at h
      exact ⟨b, bs, rfl, rfl, h.symm⟩

theorem mapM_some_length {f : α → Option β} {l : List α} {r : List β}
    (h : l.mapM f = some r) : r.length = l.length := by
  induction l generalizing r with
  | nil => simp at h; subst h; rfl
  | cons a t ih =>
    obtain ⟨b, bs, _, hbs, rfl⟩ := mapM_cons_some h
    simp [ih hbs]

theorem mapM_some_getElem? {f : α → Option β} {l : List α} {r : List β}
    (h : l.mapM f = some r) {i : Nat} {a : α} (ha : l[i]? = some a) :
    ∃ b, f a = some b ∧ r[i]? = some b := by
  induction l generalizing r i with
  | nil => simp at ha
  | cons a' t ih =>
    obtain ⟨b, bs, hb, hbs, rfl⟩ := mapM_cons_some h
    cases i with
    | zero =>
      simp at ha; subst ha
      exact ⟨b, hb, by simp⟩
    | succ j =>
      simp at ha
      obtain ⟨b', h1, h2⟩ := ih hbs ha
      exact ⟨b', h1, by simpa using h2⟩

theorem mapM_some_mem {f : α → Option β} {l : List α} {r : List β}
    (h : l.mapM f = some r) {b : β} (hb : b ∈ r) : ∃ a ∈ l, f a = some b := by
  induction l generalizing r with
  | nil => simp at h; subst h; cases hb
  | cons a' t ih =>
    obtain ⟨b', bs, hb', hbs, rfl⟩ := mapM_cons_some h
    rcases List.mem_cons.mp hb with rfl | hm
    · exact ⟨a', List.mem_cons_self, hb'⟩
    · obtain ⟨a, ha, hfa⟩ := ih hbs hm
      exact ⟨a, List.mem_cons_of_mem _ ha, hfa⟩

end mapM

/-! ### association-list lookup -/

theorem get_of_mem_nodup (l : Vals) (c : String) (v : Val)
    (hnd : (l.map Prod.fst).Nodup) (hm : (c, v) ∈ l) : get l c = v := by
  induction l with
  | nil => cases hm
  | cons p t ih =>
    obtain ⟨k, w⟩ := p
    simp only [List.map_cons, List.nodup_cons] at hnd
    rcases List.mem_cons.mp hm with heq | hm'
    · cases heq; exact get_cons_eq _ _ _
    · have hne : k ≠ c := by
        intro e; subst e
        exact hnd.1 (List.mem_map_of_mem (f := Prod.fst) hm')
      rw [get_cons_ne _ _ _ _ hne]; exact ih hnd.2 hm'

theorem get_of_not_mem (l : Vals) (c : String) (h : c ∉ l.map Prod.fst) : get l c = .null := by
  have : l.find? (fun p => p.1 == c) = none := by
    rw [List.find?_eq_none]
    intro p hp hpc
    apply h
    have : p.1 = c := by simpa using hpc
    rw [← this]; exact List.mem_map_of_mem hp
  simp [Tuple.get, this]

theorem get_null_or_mem (l : Vals) (c : String) : get l c = .null ∨ ∃ k, (k, get l c) ∈ l := by
  unfold Tuple.get
  cases hf : l.find? (fun p => p.1 == c) with
  | none => left; rfl
  | some p =>
    right
    obtain ⟨k, v⟩ := p
    exact ⟨k, List.mem_of_find?_eq_some hf⟩

/-! ### the catalog lookup of `colTypes` -/

theorem find?_name_of_nodup (l : List FieldDef) (fd : FieldDef)
    (hnd : (l.map (·.name)).Nodup) (hm : fd ∈ l) :
    l.find? (fun x => x.name == fd.name) = some fd := by
  induction l with
  | nil => cases hm
  | cons a t ih =>
    simp only [List.map_cons, List.nodup_cons] at hnd
    rcases List.mem_cons.mp hm with rfl | hm'
    · simp
    · have hne : a.name ≠ fd.name := by
        intro e; apply hnd.1; rw [e]; exact List.mem_map_of_mem hm'
      simp [hne, ih hnd.2 hm']

theorem colTypes_getElem? (schema : List FieldDef) (dst : List String) (types : List DataType)
    (hnd : (schema.map (·.name)).Nodup) (h : colTypes schema dst = some types)
    (fd : FieldDef) (hfd : fd ∈ schema) (i : Nat) (hi : dst[i]? = some fd.name) :
    types[i]? = some fd.ty := by
  obtain ⟨ty, h1, h2⟩ := mapM_some_getElem? h hi
  have hnd' : (schema.reverse.map (·.name)).Nodup := by
    rw [List.map_reverse]; exact (List.reverse_perm _).nodup_iff.mpr hnd
  rw [find?_name_of_nodup schema.reverse fd hnd' (List.mem_reverse.mpr hfd)] at h1
  simp at h1
  rw [h2, h1]

/-! ### converted values are values a Go program can hold -/

theorem atoi_core (neg : Bool) (ds : Bytes) (i : Int)
    (h : (if ds.isEmpty then none else
      match Sql.digitsVal ds 0 with
      | none => none
      | some n =>
        let v : Int := if neg then -(n : Int) else n
        if v < -9223372036854775808 ∨ v > 9223372036854775807 then none else some v) = some i) :
    -9223372036854775808 ≤ i ∧ i ≤ 9223372036854775807 := by
  split at h
  · cases h
  · split at h
    · cases h
    · rename_i n _
      by_cases hc : (if neg then -(n : Int) else n) < -9223372036854775808 ∨
          (if neg then -(n : Int) else n) > 9223372036854775807
      · simp only [hc, ↓reduceIte] at h; cases h
      · simp only [hc, ↓reduceIte] at h; cases h; omega

theorem atoi_range {f : Bytes} {i : Int} (h : Sql.atoi f = some i) :
    -9223372036854775808 ≤ i ∧ i ≤ 9223372036854775807 := by
  unfold Sql.atoi at h
  split at h <;> exact atoi_core _ _ _ h

theorem convField_valid {ty : DataType} {f : Bytes} {v : Val} (hf : f.length < 2 ^ 32)
    (h : convField ty f = some v) : ValidVal v := by
  unfold convField at h
  split at h
  · cases h; trivial
  · cases ty <;> simp only at h
    · cases ha : Sql.atoi f with
      | none => simp [ha] at h
      | some i => simp [ha] at h; subst h; exact atoi_range ha
    · cases h; exact hf
    · cases hb : boolWord f with
      | none => simp [hb] at h
      | some b => simp [hb] at h; subst h; trivial
    · cases ha : Sql.atoi f with
      | none => simp [ha] at h
      | some i => simp [ha] at h; subst h; exact atoi_range ha

/-! ### `insertRow` -/

theorem insertRow_spec (schema : List FieldDef) (cols : List String) (vals row : List Val)
    (hnd : (schema.map (·.name)).Nodup)
    (hvals : ∀ k, ValidVal (get (cols.zip vals).reverse k))
    (h : insertRow schema cols vals = some row) :
    cols.length = vals.length ∧
      row = schema.map fun fd => get (cols.zip vals).reverse fd.name := by
  unfold insertRow at h
  split at h
  · cases h
  · rename_i hl
    have hl' : cols.length = vals.length := by simpa using hl
    refine ⟨hl', ?_⟩
    simp only at h
    split at h
    · cases h
    · split at h
      · cases h
      · rename_i bs henc
        split at h
        · cases h
        · obtain ⟨m, hm1, hm2, _⟩ := decode_encode_aux schema _ hvals hnd bs [] []
            (by intros; rfl) henc
          rw [List.append_nil] at hm1
          rw [hm1] at h
          simp only [Option.some.injEq] at h
          rw [← h]
          exact List.map_congr_left fun fd hfd => hm2 fd hfd

/-! ### main theorem -/

/-- If a record is accepted, the stored row has one value per schema column; a column that is the i-th
destination column holds the conversion (to that column's type) of the record's field number `srcCols[i]`;
a column that is not a destination column is NULL. -/
theorem convert_spec (cfg : Cfg) (types : List DataType) (rec : List Bytes) (row : List Val)
    (hschema : (cfg.schema.map (·.name)).Nodup)          -- distinct column names in the table
    (hdst : cfg.dstCols.Nodup)                           -- each destination column named once
    (htypes : colTypes cfg.schema cfg.dstCols = some types)
    (hlen : cfg.srcCols.length = cfg.dstCols.length)
    (hfields : ∀ f ∈ rec, f.length < 2 ^ 32)             -- strings a Go program can hold
    (h : importRecord cfg types (some rec) = some row) :
    row.length = cfg.schema.length ∧
    ∀ (k : Nat) (fd : FieldDef), cfg.schema[k]? = some fd →
      (∀ (i : Nat), cfg.dstCols[i]? = some fd.name →
          ∃ idx f v, cfg.srcCols[i]? = some idx ∧ rec[idx]? = some f ∧ convField fd.ty f = some v ∧ row[k]? = some v) ∧
      (fd.name ∉ cfg.dstCols → row[k]? = some .null) := by
  simp only [importRecord] at h
  split at h
  · cases h
  · cases hv : csvToSql types cfg.srcCols rec with
    | none => simp [hv] at h
    | some vals =>
      simp only [hv] at h
      unfold csvToSql at hv
      -- every converted value is valid
      have hvalid : ∀ v ∈ vals, ValidVal v := by
        intro v hvm
        obtain ⟨⟨idx, ty⟩, _, hconv⟩ := mapM_some_mem hv hvm
        simp only at hconv
        cases hr : rec[idx]? with
        | none => simp [hr] at hconv
        | some f =>
          simp only [hr] at hconv
          exact convField_valid (hfields f (List.mem_of_getElem? hr)) hconv
      have hvals : ∀ k, ValidVal (get (cfg.dstCols.zip vals).reverse k) := by
        intro k
        rcases get_null_or_mem (cfg.dstCols.zip vals).reverse k with h0 | ⟨c, hc⟩
        · rw [h0]; trivial
        · exact hvalid _ (List.of_mem_zip (List.mem_reverse.mp hc)).2
      obtain ⟨hcl, hrow⟩ := insertRow_spec _ _ _ _ hschema hvals h
      have hkeys : ((cfg.dstCols.zip vals).reverse.map Prod.fst).Nodup := by
        rw [List.map_reverse, List.map_fst_zip (Nat.le_of_eq hcl)]
        exact (List.reverse_perm _).nodup_iff.mpr hdst
      have hkeys' : (cfg.dstCols.zip vals).reverse.map Prod.fst = cfg.dstCols.reverse := by
        rw [List.map_reverse, List.map_fst_zip (Nat.le_of_eq hcl)]
      refine ⟨by rw [hrow, List.length_map], ?_⟩
      intro k fd hk
      have hrk : row[k]? = some (get (cfg.dstCols.zip vals).reverse fd.name) := by
        rw [hrow, List.getElem?_map, hk]; rfl
      refine ⟨?_, ?_⟩
      · intro i hi
        have hty := colTypes_getElem? _ _ _ hschema htypes fd (List.mem_of_getElem? hk) i hi
        have hilt : i < cfg.srcCols.length := by
          rw [hlen]; exact (List.getElem?_eq_some_iff.mp hi).1
        have hsrc : cfg.srcCols[i]? = some cfg.srcCols[i] := List.getElem?_eq_getElem hilt
        have hz : (cfg.srcCols.zip types)[i]? = some (cfg.srcCols[i], fd.ty) :=
          List.getElem?_zip_eq_some.mpr ⟨hsrc, hty⟩
        obtain ⟨v, hconv, hvi⟩ := mapM_some_getElem? hv hz
        simp only at hconv
        cases hr : rec[cfg.srcCols[i]]? with
        | none => simp [hr] at hconv
        | some f =>
          simp only [hr] at hconv
          refine ⟨_, f, v, hsrc, hr, hconv, ?_⟩
          rw [hrk]
          congr 1
          apply get_of_mem_nodup _ _ _ hkeys
          apply List.mem_reverse.mpr
          exact List.mem_of_getElem? (List.getElem?_zip_eq_some.mpr ⟨hi, hvi⟩)
      · intro hnot
        rw [hrk]
        congr 1
        apply get_of_not_mem
        rw [hkeys']
        simpa using hnot

/-! ### non-vacuity: columns `b`, `a` mapped in swapped order from fields 1, 0; column `c` unmapped -/

/-- Table `(a BIGINT, b VARCHAR(255), c BOOLEAN)`, destination columns `b, a` fed from record
fields `1, 0`; column `c` is not a destination column. -/
def exCfg : Cfg :=
  ⟨[⟨"a", .bigint, 0⟩, ⟨"b", .varchar, 255⟩, ⟨"c", .boolean, 0⟩], ["b", "a"], [1, 0]⟩

/-- All hypotheses of `convert_spec` hold for `exCfg` and the record `123,x`; the theorem applies. -/
example :
    ([.int 123, .str [120], .null] : List Val).length = exCfg.schema.length ∧
    ∀ (k : Nat) (fd : FieldDef), exCfg.schema[k]? = some fd →
      (∀ (i : Nat), exCfg.dstCols[i]? = some fd.name →
          ∃ idx f v, exCfg.srcCols[i]? = some idx ∧ [[49, 50, 51], [120]][idx]? = some f ∧
            convField fd.ty f = some v ∧ [Val.int 123, .str [120], .null][k]? = some v) ∧
      (fd.name ∉ exCfg.dstCols → [Val.int 123, .str [120], .null][k]? = some .null) :=
  convert_spec exCfg [.varchar, .bigint] [[49, 50, 51], [120]] [.int 123, .str [120], .null]
    (by decide) (by decide) (by decide) rfl (by decide) (by decide)

/-- The individual hypotheses, spelled out. -/
example : (exCfg.schema.map (·.name)).Nodup := by decide
example : exCfg.dstCols.Nodup := by decide
example : colTypes exCfg.schema exCfg.dstCols = some [.varchar, .bigint] := by decide
example : exCfg.srcCols.length = exCfg.dstCols.length := rfl
example : ∀ f ∈ ([[49, 50, 51], [120]] : List Bytes), f.length < 2 ^ 32 := by decide
example : importRecord exCfg [.varchar, .bigint] (some [[49, 50, 51], [120]]) =
    some [.int 123, .str [120], .null] := by decide

end Mkdb.Csv
