import Mkdb.Proofs.TornFlush8
/-!
Torn flush without page allocation, part 9: two tools for the last step.

* `SameNodes`: two trees with the same page objects (dirty bits aside) - what the replayed store holds
  against what the live store holds.  Everything that is read off a description without the dirty bits
  carries over: `FreshM` (`FreshM.sameNodes`), `AppliedC` (`AppliedC.sameNodes`), the abstraction to the
  plain database (`AbsTables.sameC`).
* the data file a torn flush leaves (`tornFlush`): `torn_disk_written`, `torn_disk_unwritten`,
  `torn_disk_same`: the page at an offset among the first `j` of the write order that is resident in the
  cache is the cached page; every other page is the page of the data file before the flush.
-/
set_option autoImplicit false
namespace Mkdb.Store
open Mkdb.Page Mkdb.Tuple Mkdb.Generated Mkdb.Tree Mkdb.Engine

/-! ### the same page objects, dirty bits aside -/

/-- same internal levels, same leaf objects -/
def SameNodes (t t' : Levels) : Prop := t'.inner = t.inner ∧ t'.leaves.map (·.1) = t.leaves.map (·.1)

theorem SameNodes.cells {t t' : Levels} (h : SameNodes t t') : Tree.cells t' = Tree.cells t := by
  have e : ∀ u : Levels, Tree.cells u = (u.leaves.map (·.1)).flatMap (·.cells) := by
    intro u
    unfold Tree.cells
    rw [List.flatMap_map]
  rw [e, e, h.2]

theorem SameNodes.keys {t t' : Levels} (h : SameNodes t t') : Tree.keys t' = Tree.keys t := by
  unfold Tree.keys
  rw [SameNodes.cells h]

theorem SameNodes.flatten {t t' : Levels} (h : SameNodes t t') :
    (Tree.flatten t').map (fun x => (x.1, x.2.1)) = (Tree.flatten t).map (fun x => (x.1, x.2.1)) := by
  have e : ∀ u : Levels, (Tree.flatten u).map (fun x => (x.1, x.2.1)) =
      (u.leaves.map (·.1)).map (fun l => (l.off, Node.leaf l)) ++
      u.inner.flatMap (fun lvl => lvl.map fun p => (p.1.off, Node.internal p.1)) := by
    intro u
    unfold Tree.flatten
    simp only [List.map_append, List.map_map, List.map_flatMap]
    rfl
  rw [e, e, h.1, h.2]

theorem SameNodes.mem_flatten {t t' : Levels} (h : SameNodes t t') {x : Nat × Node × Bool} (hx : x ∈ Tree.flatten t') :
    ∃ y ∈ Tree.flatten t, y.1 = x.1 ∧ y.2.1 = x.2.1 := by
  have : (x.1, x.2.1) ∈ (Tree.flatten t).map (fun x => (x.1, x.2.1)) := by
    rw [← SameNodes.flatten h]
    exact List.mem_map.mpr ⟨x, hx, rfl⟩
  obtain ⟨y, hy, e⟩ := List.mem_map.mp this
  simp only [Prod.mk.injEq] at e
  exact ⟨y, hy, e.1, e.2⟩

theorem SameNodes.offs {t t' : Levels} (h : SameNodes t t') : Tree.offs t' = Tree.offs t := by
  have := congrArg (List.map Prod.fst) (SameNodes.flatten h)
  simp only [List.map_map] at this
  exact this

theorem SameNodes.rootOff {t t' : Levels} (h : SameNodes t t') : Tree.rootOff t' = Tree.rootOff t := by
  unfold Tree.rootOff
  rw [h.1]
  have : t'.leaves.head?.map (·.1.off) = t.leaves.head?.map (·.1.off) := by
    have := congrArg (fun l : List Leaf => l.head?.map (·.off)) h.2
    simp only [List.head?_map, Option.map_map] at this
    exact this
  rw [this]

theorem SameNodes.symm {t t' : Levels} (h : SameNodes t t') : SameNodes t' t := ⟨h.1.symm, h.2.symm⟩

theorem sameNodes_fill {cA cB : Pages} {t : Levels} (h : ∀ o ∈ leafOffs t, (cB o).1 = (cA o).1) :
    SameNodes (fill cA t) (fill cB t) := by
  refine ⟨rfl, ?_⟩
  rw [fill_leaves, fill_leaves, List.map_map, List.map_map]
  apply List.map_congr_left
  intro p hp
  exact h _ (mem_leafOffs hp)

/-- two table lists: the same names, trees with the same page objects -/
def SameT (tbls tbls' : List (Bytes × Levels)) : Prop :=
  ∀ e' ∈ tbls', ∃ e ∈ tbls, e.1 = e'.1 ∧ SameNodes e.2 e'.2

theorem sameT_fillT {cA cB : Pages} {D0 : List (Bytes × Levels)} (h : ∀ o, (cB o).1 = (cA o).1) :
    SameT (fillT cA D0) (fillT cB D0) := by
  intro e' he'
  obtain ⟨e0, he0, rfl⟩ := mem_fillT_inv he'
  exact ⟨_, mem_fillT he0, rfl, sameNodes_fill fun o _ => h o⟩

theorem FreshM.sameNodes {s : Store} {tbls tbls' : List (Bytes × Levels)} (hf : FreshM s tbls)
    (h : SameT tbls tbls') : FreshM s tbls' := by
  refine ⟨?_, hf.nf, ?_⟩
  · intro e' he' x hx
    obtain ⟨e, he, _, hs⟩ := h e' he'
    obtain ⟨y, hy, _, e2⟩ := SameNodes.mem_flatten hs hx
    rw [← e2]
    exact hf.lsn e he y hy
  · intro e' he' o ho
    obtain ⟨e, he, _, hs⟩ := h e' he'
    rw [SameNodes.offs hs] at ho
    exact hf.pos e he o ho

theorem AppliedC.sameNodes {pt sch : Levels} {tbls tbls' : List (Bytes × Levels)} {r : WalRec}
    (ha : AppliedC pt sch tbls r) (h : SameT tbls' tbls) : AppliedC pt sch tbls' r := by
  rcases ha with ⟨x, hx, e, he, hp, hl⟩ | ⟨hop, tb, tr, hm, hpg, hkey⟩
  · left
    rcases mem_catTrees.mp hx with rfl | rfl | ⟨e1, he1, rfl⟩
    · exact ⟨x, Cat.pt_mem, e, he, hp, hl⟩
    · exact ⟨x, Cat.sch_mem, e, he, hp, hl⟩
    · obtain ⟨e2, he2, _, hs⟩ := h e1 he1
      obtain ⟨y, hy, a1, a2⟩ := SameNodes.mem_flatten hs he
      exact ⟨e2.2, Cat.tb_mem he2, y, hy, by rw [a1]; exact hp, by rw [a2]; exact hl⟩
  · right
    obtain ⟨e2, he2, hn, hs⟩ := h (tb, tr) hm
    refine ⟨hop, e2.1, e2.2, he2, ?_, ?_⟩
    · rw [hpg]; exact SameNodes.rootOff hs
    · have := SameNodes.keys hs
      simp only at this
      rw [← this]
      exact hkey

/-- the abstraction to the plain database does not look at the dirty bits -/
theorem AbsTables.sameC {sch : Levels} {D0 : List (Bytes × Levels)} {cA cB : Pages} {sdb : Spec.SDB}
    (h : AbsTables sch (fillT cA D0) sdb) (hfA : ∀ e ∈ D0, PFiled cA e.2) (hc : ∀ o, (cB o).1 = (cA o).1) :
    AbsTables sch (fillT cB D0) sdb := by
  have hmap := AbsTables.map (fun e => (e.1, fill cB e.2)) id h (by
    intro e st he hx
    obtain ⟨e0, he0, rfl⟩ := mem_fillT_inv he
    obtain ⟨schema, h1, h2, h3, h4⟩ := hx
    have hcells : live (fill cB (fill cA e0.2)) = live (fill cA e0.2) := by
      unfold live
      rw [fill_fill (hfA _ he0), SameNodes.cells (sameNodes_fill (t := e0.2) fun o _ => hc o)]
    refine ⟨schema, h1, h2, ?_, ?_⟩
    · intro x hx
      simp only at hx
      rw [hcells] at hx
      exact h3 x hx
    · simp only [id]
      rw [h4]
      unfold absTable
      simp only
      rw [hcells])
  rw [List.map_id] at hmap
  have : (fillT cA D0).map (fun e => (e.1, fill cB e.2)) = fillT cB D0 := by
    unfold fillT
    rw [List.map_map]
    apply List.map_congr_left
    intro e he
    simp only [Function.comp]
    rw [fill_fill (hfA _ he)]
  rw [this] at hmap
  exact hmap

/-! ### the data file a torn flush leaves -/

/-- one page write of the flush -/
def tornStep (s : Store) (d : List (Nat × Node)) (off : Nat) : List (Nat × Node) :=
  match assocGet s.mem off with
  | some m => assocSet d (nodeOff m.node) m.node
  | none => d

theorem tornFlush_disk (s : Store) (order : List Nat) (j : Nat) :
    (tornFlush s order j).disk = (order.take j).foldl (tornStep s) s.disk := rfl

theorem tornFold_get (s : Store) (hmf : MemFiled s) (o : Nat) : ∀ (ws : List Nat) (d0 : List (Nat × Node)),
    assocGet (ws.foldl (tornStep s) d0) o =
      if o ∈ ws ∧ (assocGet s.mem o).isSome = true then (assocGet s.mem o).map (·.node) else assocGet d0 o
  | [], d0 => by simp
  | w :: ws, d0 => by
    rw [List.foldl_cons, tornFold_get s hmf o ws]
    by_cases h1 : o ∈ ws ∧ (assocGet s.mem o).isSome = true
    · rw [if_pos h1, if_pos ⟨List.mem_cons_of_mem _ h1.1, h1.2⟩]
    · rw [if_neg h1]
      unfold tornStep
      cases hw : assocGet s.mem w with
      | none =>
        simp only
        have : ¬ (o ∈ w :: ws ∧ (assocGet s.mem o).isSome = true) := by
          rintro ⟨h2, h3⟩
          rcases List.mem_cons.mp h2 with rfl | h2
          · rw [hw] at h3; cases h3
          · exact h1 ⟨h2, h3⟩
        rw [if_neg this]
      | some m =>
        simp only
        rw [hmf.get hw, assocGet_assocSet]
        by_cases e : o = w
        · subst e
          rw [if_pos rfl, if_pos ⟨List.mem_cons_self, by rw [hw]; rfl⟩, hw]
          rfl
        · rw [if_neg e]
          have : ¬ (o ∈ w :: ws ∧ (assocGet s.mem o).isSome = true) := by
            rintro ⟨h2, h3⟩
            rcases List.mem_cons.mp h2 with h2 | h2
            · exact e h2
            · exact h1 ⟨h2, h3⟩
          rw [if_neg this]

/-- a page among the first `j` of the write order that is resident: the cached page object is in the file -/
theorem torn_disk_written {s : Store} (hmf : MemFiled s) {order : List Nat} {j o : Nat} {m : MNode}
    (hw : o ∈ order.take j) (hm : assocGet s.mem o = some m) :
    assocGet (tornFlush s order j).disk o = some m.node := by
  rw [tornFlush_disk, tornFold_get s hmf, if_pos ⟨hw, by rw [hm]; rfl⟩, hm]
  rfl

/-- every other page is the page of the data file before the flush -/
theorem torn_disk_unwritten {s : Store} (hmf : MemFiled s) {order : List Nat} {j o : Nat}
    (h : ¬ (o ∈ order.take j ∧ (assocGet s.mem o).isSome = true)) :
    assocGet (tornFlush s order j).disk o = assocGet s.disk o := by
  rw [tornFlush_disk, tornFold_get s hmf, if_neg h]

/-- a page that the cache and the data file agree on is that page in the torn file, written or not -/
theorem torn_disk_same {s : Store} (hmf : MemFiled s) {order : List Nat} {j o : Nat} {n : Node} {d : Bool}
    (hv : view s o = some (n, d)) (hd : assocGet s.disk o = some n) :
    assocGet (tornFlush s order j).disk o = some n := by
  by_cases h : o ∈ order.take j ∧ (assocGet s.mem o).isSome = true
  · obtain ⟨m, hm⟩ := Option.isSome_iff_exists.mp h.2
    rw [torn_disk_written hmf h.1 hm]
    unfold view at hv
    rw [hm] at hv
    simp only [Option.some.injEq, Prod.mk.injEq] at hv
    rw [hv.1]
  · rw [torn_disk_unwritten hmf h, hd]

/-- a resident page among the first `j` of the write order: the torn file has what the engine sees -/
theorem torn_disk_live {s : Store} (hmf : MemFiled s) {order : List Nat} {j o : Nat} {n : Node} {d : Bool}
    (hv : view s o = some (n, d)) (h : o ∈ order.take j ∧ (assocGet s.mem o).isSome = true) :
    assocGet (tornFlush s order j).disk o = some n := by
  obtain ⟨m, hm⟩ := Option.isSome_iff_exists.mp h.2
  rw [torn_disk_written hmf h.1 hm]
  unfold view at hv
  rw [hm] at hv
  simp only [Option.some.injEq, Prod.mk.injEq] at hv
  rw [hv.1]

end Mkdb.Store
