import Mkdb.Model.BSearch
import Mkdb.Model.Store
/-!
Helper lemmas: the binary-search loop of `findCellOffsetByKey` (`Mkdb.BSearch.loop`) against the
insertion-point function the heap model uses (`Mkdb.Store.findPos`).  Core only.
-/
namespace Mkdb.BSearch

/-- the length of `takeWhile P` is the first index at which `P` fails -/
theorem takeWhile_length_eq {P : Nat → Bool} :
    ∀ (l : List Nat) (p : Nat), p ≤ l.length →
      (∀ i (hi : i < l.length), i < p → P l[i] = true) →
      (∀ (hp : p < l.length), P l[p] = false) →
      (l.takeWhile P).length = p
  | [], p, hp, _, _ => by simp at hp; simp [hp]
  | a :: t, 0, _, _, h2 => by
    have := h2 (by simp)
    simp at this
    simp [this]
  | a :: t, q + 1, hp, h1, h2 => by
    have ha : P a = true := h1 0 (by simp) (by omega)
    simp only [List.takeWhile_cons, ha, if_true, List.length_cons]
    congr 1
    apply takeWhile_length_eq t q (by simpa using hp)
    · intro i hi hiq
      have := h1 (i + 1) (by simpa using hi) (by omega)
      simpa using this
    · intro hq
      have := h2 (by simpa using hq)
      simpa using this

/-- conversely: what the length of `takeWhile P` says about the list -/
theorem takeWhile_length_spec {P : Nat → Bool} :
    ∀ (l : List Nat), (l.takeWhile P).length ≤ l.length ∧
      (∀ i (hi : i < l.length), i < (l.takeWhile P).length → P l[i] = true) ∧
      (∀ (hp : (l.takeWhile P).length < l.length), P l[(l.takeWhile P).length] = false)
  | [] => by simp
  | a :: t => by
    obtain ⟨ih1, ih2, ih3⟩ := takeWhile_length_spec (P := P) t
    by_cases ha : P a = true
    · simp only [List.takeWhile_cons, ha, if_true, List.length_cons]
      refine ⟨by omega, ?_, ?_⟩
      · intro i hi hip
        cases i with
        | zero => simpa using ha
        | succ j => simpa using ih2 j (by simpa using hi) (by omega)
      · intro hp
        simpa using ih3 (by omega)
    · have ha' : P a = false := by simpa using ha
      simp [ha']

theorem spec_of_bounds (keys : List Nat) (k p : Nat) (hp : p ≤ keys.length)
    (h1 : ∀ i (hi : i < keys.length), i < p → keys[i] < k)
    (h2 : ∀ (hp : p < keys.length), k ≤ keys[p]) :
    spec keys k = (p, keys[p]? == some k) := by
  have : (keys.takeWhile fun x => decide (x < k)).length = p := by
    apply takeWhile_length_eq keys p hp
    · intro i hi hip; simpa using h1 i hi hip
    · intro hp'; have := h2 hp'; simp; omega
  simp [spec, this]

/-- On strictly ascending keys the loop returns the insertion point and the hit flag, whatever
interval it is started on, as long as everything left of `low` is below the key and everything
right of `high` above it. -/
theorem loop_spec (keys : List Nat) (k : Nat) (hs : keys.Pairwise (· < ·)) :
    ∀ (n : Nat) (low high : Int), (high - low + 1).toNat = n → 0 ≤ low → high < keys.length →
      low ≤ high + 1 →
      (∀ i (hi : i < keys.length), (i : Int) < low → keys[i] < k) →
      (∀ i (hi : i < keys.length), high < (i : Int) → k < keys[i]) →
      loop keys k low high = .ret (spec keys k).1 (spec keys k).2 := by
  intro n
  induction n using Nat.strongRecOn with
  | _ n ih =>
    intro low high hn hlo hhi hle hL hR
    have hsorted := List.pairwise_iff_getElem.mp hs
    unfold loop
    by_cases hlh : low ≤ high
    · simp only [hlh, if_true]
      have hmid0 : ¬ (low + (high - low) / 2 < 0) := by omega
      simp only [hmid0, if_false]
      have hmlt : (low + (high - low) / 2).toNat < keys.length := by omega
      rw [List.getElem?_eq_getElem hmlt]
      simp only []
      by_cases hv : keys[(low + (high - low) / 2).toNat] = k
      · simp only [hv, if_true]
        have hsp : spec keys k = ((low + (high - low) / 2).toNat,
            keys[(low + (high - low) / 2).toNat]? == some k) := by
          apply spec_of_bounds keys k _ (by omega)
          · intro i hi him
            have := hsorted i _ hi hmlt him
            omega
          · intro _; omega
        rw [hsp, List.getElem?_eq_getElem hmlt, hv]; simp
      · simp only [hv, if_false]
        by_cases hlt : keys[(low + (high - low) / 2).toNat] < k
        · simp only [hlt, if_true]
          apply ih _ _ _ _ rfl
          · omega
          · exact hhi
          · omega
          · intro i hi hil
            by_cases him : i < (low + (high - low) / 2).toNat
            · have := hsorted i _ hi hmlt him; omega
            · have : i = (low + (high - low) / 2).toNat := by omega
              subst this; exact hlt
          · exact hR
          · omega
        · simp only [hlt, if_false]
          apply ih _ _ _ _ rfl
          · exact hlo
          · omega
          · omega
          · exact hL
          · intro i hi hil
            by_cases him : (low + (high - low) / 2).toNat < i
            · have := hsorted _ i hmlt hi him; omega
            · have : i = (low + (high - low) / 2).toNat := by omega
              subst this; omega
          · omega
    · simp only [hlh, if_false]
      have hl0 : ¬ low < 0 := by omega
      simp only [hl0, if_false]
      have hsp : spec keys k = (low.toNat, keys[low.toNat]? == some k) := by
        apply spec_of_bounds keys k _ (by omega)
        · intro i hi hil; exact hL i hi (by omega)
        · intro hp; have := hR low.toNat hp (by omega); omega
      have hf : (keys[low.toNat]? == some k) = false := by
        by_cases hp : low.toNat < keys.length
        · rw [List.getElem?_eq_getElem hp]
          have := hR low.toNat hp (by omega)
          simp; omega
        · rw [List.getElem?_eq_none (by omega)]; simp
      rw [hsp, hf]

/-- On ANY slot array (ascending or not, with duplicates or not) the loop ends, never indexes
outside the array, returns a position within `0..len`, and a hit is a real hit. -/
theorem loop_total (keys : List Nat) (k : Nat) :
    ∀ (n : Nat) (low high : Int), (high - low + 1).toNat = n → 0 ≤ low → high < keys.length →
      low ≤ high + 1 →
      ∃ p f, loop keys k low high = .ret p f ∧ p ≤ keys.length ∧ (f = true → keys[p]? = some k) := by
  intro n
  induction n using Nat.strongRecOn with
  | _ n ih =>
    intro low high hn hlo hhi hle
    unfold loop
    by_cases hlh : low ≤ high
    · simp only [hlh, if_true]
      have hmid0 : ¬ (low + (high - low) / 2 < 0) := by omega
      simp only [hmid0, if_false]
      have hmlt : (low + (high - low) / 2).toNat < keys.length := by omega
      rw [List.getElem?_eq_getElem hmlt]
      simp only []
      by_cases hv : keys[(low + (high - low) / 2).toNat] = k
      · simp only [hv, if_true]
        refine ⟨_, _, rfl, by omega, fun _ => ?_⟩
        rw [List.getElem?_eq_getElem hmlt, hv]
      · simp only [hv, if_false]
        by_cases hlt : keys[(low + (high - low) / 2).toNat] < k
        · simp only [hlt, if_true]
          exact ih _ (by omega) _ _ rfl (by omega) hhi (by omega)
        · simp only [hlt, if_false]
          exact ih _ (by omega) _ _ rfl hlo (by omega) (by omega)
    · simp only [hlh, if_false]
      have hl0 : ¬ low < 0 := by omega
      simp only [hl0, if_false]
      exact ⟨_, _, rfl, by omega, by simp⟩

theorem spec_eq_findPos (keys : List Nat) (k : Nat) : spec keys k = Mkdb.Store.findPos keys k := rfl

end Mkdb.BSearch
