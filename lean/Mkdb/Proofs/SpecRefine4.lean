import Mkdb.Proofs.SpecRefine3
/-!
End-to-end refinement, part 4: DELETE.

* `filterIds_selects`: the model's WHERE filter (`filterIds`) against the spec's `selects`: both run
  `Exec.evaluate` on the same fields and values.
* `evalDelete_go_spec`: the loop of `evalDelete` over distinct live row ids.
* `evalDelete_refines_spec`: the whole statement.
-/
set_option autoImplicit false
namespace Mkdb.Store
open Mkdb.Page Mkdb.Tuple Mkdb.Generated Mkdb.Tree

/-! ### the selected rows -/

/-- the rows a selection vector selects -/
def selRows (rows : List (Nat × List Val)) (sel : List Bool) : List (Nat × List Val) :=
  ((rows.zip sel).filter (·.2)).map (·.1)

/-- a fetched row as the spec has it -/
def mkRow (r : Nat × List Val) : Spec.SRow := ⟨some r.1, r.2⟩

theorem selRows_cons (r : Nat × List Val) (rows : List (Nat × List Val)) (b : Bool) (sel : List Bool) :
    selRows (r :: rows) (b :: sel) = if b then r :: selRows rows sel else selRows rows sel := by
  cases b <;> simp [selRows]

theorem selRows_all (rows : List (Nat × List Val)) : selRows rows (rows.map fun _ => true) = rows := by
  induction rows with
  | nil => rfl
  | cons r rest ih => rw [List.map_cons, selRows_cons, if_pos rfl, ih]

theorem selRows_sublist : ∀ (rows : List (Nat × List Val)) (sel : List Bool), (selRows rows sel).Sublist rows
  | [], _ => by simp [selRows]
  | _ :: _, [] => by simp [selRows]
  | r :: rows, b :: sel => by
    rw [selRows_cons]
    cases b
    · exact (selRows_sublist rows sel).cons _
    · exact (selRows_sublist rows sel).cons_cons _

theorem selRows_length : ∀ (rows : List (Nat × List Val)) (sel : List Bool), sel.length = rows.length →
    (selRows rows sel).length = (sel.filter id).length
  | [], [], _ => rfl
  | [], _ :: _, h => by simp at h
  | _ :: _, [], h => by simp at h
  | r :: rows, b :: sel, h => by
    have ih := selRows_length rows sel (by simpa using h)
    rw [selRows_cons]
    cases b
    · simpa using ih
    · simp [ih]

/-- the loop of `filterIds` against the spec's `mapM` -/
theorem filterIds_go_selects (c : Sql.Cond) (fields : List Exec.Field) :
    ∀ (rows : List (Nat × List Val)) (sel : List Bool),
      (rows.map mkRow).mapM (fun r =>
        match Exec.evaluate c fields r.vals with
        | .ok v => some (v == .bool true)
        | _ => none) = some sel →
      Engine.filterIds.go fields c rows = .ok (selRows rows sel) ∧ sel.length = rows.length
  | [], sel, h => by
    rw [List.map_nil, mapM_nil_some] at h
    subst h
    exact ⟨rfl, rfl⟩
  | r :: rest, sel, h => by
    rw [List.map_cons, mapM_cons_some] at h
    obtain ⟨b, bs, hb, hrest, rfl⟩ := h
    obtain ⟨ih1, ih2⟩ := filterIds_go_selects c fields rest bs hrest
    have hv : (mkRow r).vals = r.2 := rfl
    rw [hv] at hb
    cases hev : Exec.evaluate c fields r.2 with
    | ok v =>
      rw [hev] at hb
      simp only [Option.some.injEq] at hb
      subst hb
      refine ⟨?_, by simp only [List.length_cons, ih2]⟩
      simp only [Engine.filterIds.go, hev, ih1]
      rw [selRows_cons]
    | err e => rw [hev] at hb; cases hb
    | panic p => rw [hev] at hb; cases hb

/-- **The WHERE filter.**  If the spec's `selects` evaluates the condition on every row of the
abstraction of the table, the model's `filterIds` selects the same rows. -/
theorem filterIds_selects (name : Bytes) (schema : List FieldDef) (rows : List (Nat × List Val))
    (w : Option Sql.Cond) (sel : List Bool)
    (h : Spec.selects ⟨name, schema, rows.map mkRow⟩ w = some sel) :
    Engine.filterIds w (schema.map fun fd => ⟨[], fd.name.toUTF8.toList⟩) rows = .ok (selRows rows sel) ∧
      sel.length = rows.length := by
  cases w with
  | none =>
    simp only [Spec.selects, Option.some.injEq] at h
    subst h
    rw [List.map_map]
    have : ((fun (_ : Spec.SRow) => true) ∘ mkRow) = fun (_ : Nat × List Val) => true := rfl
    rw [this, selRows_all]
    exact ⟨rfl, by simp⟩
  | some c =>
    exact filterIds_go_selects c _ rows sel h

/-! ### what is left after the selected rows are gone -/

theorem rowOf_key {schema : List FieldDef} {c : LeafCell} {r : Nat × List Val} (h : rowOf schema c = some r) :
    r.1 = c.key := by
  unfold rowOf at h
  cases hd : decRow schema c.val with
  | none => rw [hd] at h; cases h
  | some m =>
    rw [hd] at h
    simp only [Option.map_some, Option.some.injEq] at h
    rw [← h]

/-- filtering cells by key, then building rows = building rows, then filtering by row id -/
theorem rowsOf_filter (schema : List FieldDef) (P : Nat → Bool) (cs : List LeafCell) :
    rowsOf schema (cs.filter fun c => P c.key) = (rowsOf schema cs).filter fun r => P r.1 := by
  induction cs with
  | nil => rfl
  | cons c rest ih =>
    simp only [rowsOf] at ih ⊢
    cases hr : rowOf schema c with
    | none =>
      by_cases hp : P c.key = true
      · simp only [List.filter_cons, hp, if_true, List.filterMap_cons, hr, ih]
      · simp only [List.filter_cons, hp, if_false, List.filterMap_cons, hr, ih, Bool.false_eq_true]
    | some r =>
      have hk := rowOf_key hr
      by_cases hp : P c.key = true
      · simp only [List.filter_cons, hp, if_true, List.filterMap_cons, hr, ih, hk]
      · simp only [List.filter_cons, hp, if_false, List.filterMap_cons, hr, ih, hk, Bool.false_eq_true]

theorem mem_rowsOf {schema : List FieldDef} {cs : List LeafCell} {r : Nat × List Val}
    (h : r ∈ rowsOf schema cs) : ∃ c ∈ cs, c.key = r.1 := by
  unfold rowsOf at h
  obtain ⟨c, hc, hr⟩ := List.mem_filterMap.mp h
  exact ⟨c, hc, (rowOf_key hr).symm⟩

theorem selRows_keys_sub (rows : List (Nat × List Val)) (sel : List Bool) (k : Nat)
    (h : k ∈ (selRows rows sel).map (·.1)) : k ∈ rows.map (·.1) :=
  ((selRows_sublist rows sel).map _).subset h

/-- with distinct row ids, a row is among the selected ones exactly when its flag is set -/
theorem selRows_mem_iff : ∀ (rows : List (Nat × List Val)) (sel : List Bool), (rows.map (·.1)).Nodup →
    ∀ p ∈ rows.zip sel, (p.1.1 ∈ (selRows rows sel).map (·.1) ↔ p.2 = true)
  | [], _, _, p, hp => by simp at hp
  | _ :: _, [], _, p, hp => by simp at hp
  | r :: rows, b :: sel, hnd, p, hp => by
    simp only [List.map_cons, List.nodup_cons] at hnd
    rw [List.zip_cons_cons, List.mem_cons] at hp
    rw [selRows_cons]
    rcases hp with rfl | hp
    · cases b
      · simp only [Bool.false_eq_true, if_false, iff_false]
        intro hm
        exact hnd.1 (selRows_keys_sub rows sel _ hm)
      · simp
    · have hne : p.1.1 ≠ r.1 := by
        intro heq
        apply hnd.1
        rw [← heq]
        exact List.mem_map.mpr ⟨p.1, (List.of_mem_zip (a := p.1) (b := p.2) hp).1, rfl⟩
      have ih := selRows_mem_iff rows sel hnd.2 p hp
      cases b
      · simpa using ih
      · simp only [if_true, List.map_cons, List.mem_cons, hne, false_or]
        exact ih

/-- the rows that stay, as the spec computes them -/
theorem rows_after_delete : ∀ (rows : List (Nat × List Val)) (sel : List Bool) (K : List Nat),
    sel.length = rows.length → (∀ p ∈ rows.zip sel, (p.1.1 ∈ K ↔ p.2 = true)) →
    (rows.filter fun r => !K.contains r.1).map mkRow =
      ((rows.map mkRow).zip sel).filterMap fun (r, s) => if s then none else some r
  | [], _, _, _, _ => by simp
  | r :: rows, [], _, hl, _ => by simp at hl
  | r :: rows, b :: sel, K, hl, hK => by
    have hr := hK (r, b) (by simp)
    have ih := rows_after_delete rows sel K (by simpa using hl)
      (fun p hp => hK p (by rw [List.zip_cons_cons]; exact List.mem_cons_of_mem _ hp))
    simp only at hr
    cases b
    · have : K.contains r.1 = false := by
        simp only [Bool.false_eq_true, iff_false] at hr
        simpa using hr
      simp only [List.filter_cons, this, Bool.not_false, if_true, List.map_cons, List.zip_cons_cons,
        List.filterMap_cons, Bool.false_eq_true, if_false, ih]
    · have : K.contains r.1 = true := by
        simp only [iff_true] at hr
        simpa using hr
      simp only [List.filter_cons, this, Bool.not_true, Bool.false_eq_true, if_false, List.map_cons,
        List.zip_cons_cons, List.filterMap_cons, if_true, ih]

/-! ### the loop -/

/-- the loop of `evalDelete` over distinct row ids of live cells -/
theorem evalDelete_go_spec (db : Engine.DB) (table : Bytes) (pt sch : Levels) :
    ∀ (ids : List (Nat × List Val)) (s : Store) (tbls : List (Bytes × Levels)) (t : Levels)
      (batch : List WalRec) (n : Nat),
      Cat s pt sch tbls → (table, t) ∈ tbls → (ids.map (·.1)).Nodup →
      (∀ r ∈ ids, ∃ c ∈ live t, c.key = r.1) →
      ∃ s' t' logs,
        Engine.evalDelete.go db table s batch n ids =
          .ok (n + ids.length) { store := s', wal := db.wal ++ (batch ++ logs) } ∧
        Cat s' pt sch (setTable tbls table t') ∧
        live t' = (live t).filter (fun c => !(ids.map (·.1)).contains c.key) ∧
        logs.length = ids.length ∧ s'.hdr.lastKey = s.hdr.lastKey ∧ s'.hdr.nextFree = s.hdr.nextFree
  | [], s, tbls, t, batch, n, h, ht, _, _ => by
    refine ⟨s, t, [], ?_, ?_, ?_, rfl, rfl, rfl⟩
    · simp only [Engine.evalDelete.go, List.length_nil, Nat.add_zero, List.append_nil]
    · rw [setTable_self h.tnames ht]; exact h
    · simp only [List.map_nil, List.contains_nil, Bool.not_false]
      exact (List.filter_eq_self.mpr (fun _ _ => rfl)).symm
  | r :: rest, s, tbls, t, batch, n, h, ht, hnd, hlive => by
    simp only [List.map_cons, List.nodup_cons] at hnd
    obtain ⟨c, hc, hck⟩ := hlive r List.mem_cons_self
    obtain ⟨s1, l, d, _, _, e1, hc1, _, hlk1, _, hnf1, _⟩ := markDeleted_cat h table t ht r.1 c hc hck
    have hlive1 : live (setDeleted t r.1 s.hdr.nextLSN) = (live t).filter (fun c => c.key != r.1) :=
      markDeleted_live t r.1 s.hdr.nextLSN
    obtain ⟨s', t', logs', ego, hc', hl', hlen', hlk', hnf'⟩ := evalDelete_go_spec db table pt sch rest s1
      (setTable tbls table (setDeleted t r.1 s.hdr.nextLSN)) (setDeleted t r.1 s.hdr.nextLSN)
      (batch ++ [⟨c_OpDelete, s.hdr.nextLSN, l.off, r.1, []⟩]) (n + 1) hc1 (mem_setTable_self _ ht) hnd.2
      (fun r' hr' => by
        obtain ⟨c', hc', hck'⟩ := hlive r' (List.mem_cons_of_mem _ hr')
        refine ⟨c', ?_, hck'⟩
        rw [hlive1, List.mem_filter]
        refine ⟨hc', ?_⟩
        have : c'.key ≠ r.1 := by
          intro heq
          apply hnd.1
          rw [← heq, hck']
          exact List.mem_map.mpr ⟨r', hr', rfl⟩
        simpa using this)
    refine ⟨s', t', ⟨c_OpDelete, s.hdr.nextLSN, l.off, r.1, []⟩ :: logs', ?_, ?_, ?_, ?_, ?_, ?_⟩
    · simp only [Engine.evalDelete.go, e1, ego, List.length_cons]
      rw [List.append_assoc, Nat.add_assoc, Nat.add_comm 1]
      rfl
    · rw [setTable_setTable] at hc'; exact hc'
    · rw [hl', hlive1, List.filter_filter]
      apply List.filter_congr
      intro x _
      simp only [List.map_cons, List.contains_cons, Bool.not_or, Bool.and_comm]
      rw [bne]
    · simp only [List.length_cons, hlen']
    · rw [hlk', hlk1]
    · rw [hnf', hnf1]

/-! ### the statement -/

/-- **DELETE refines the spec.**  If the store abstracts to `sdb` and the spec accepts the statement
(`specDelete … = some sdb'`: the table is known and the condition evaluates on every row), then the
model's `evalDelete` succeeds with the number of rows the spec selects, appends one record per deleted
row to the log, and the store afterwards abstracts to `sdb'` exactly (row ids included). -/
theorem evalDelete_refines_spec (db : Engine.DB) (pt sch : Levels) (tbls : List (Bytes × Levels))
    (sdb sdb' : Spec.SDB) (h : Abs db.store pt sch tbls sdb) (table : Bytes) (w : Option Sql.Cond)
    (hspec : Spec.specDelete sdb table w = some sdb') :
    ∃ n db' t' logs,
      Engine.evalDelete db table w = .ok n db' ∧ db'.wal = db.wal ++ logs ∧ logs.length = n ∧
      Abs db'.store pt sch (setTable tbls table t') sdb' ∧
      db'.store.hdr.lastKey = db.store.hdr.lastKey ∧
      (∀ st sel, Spec.findTable sdb table = some st → Spec.selects st w = some sel →
        n = (sel.filter id).length) := by
  unfold Spec.specDelete at hspec
  cases hfind : Spec.findTable sdb table with
  | none => rw [hfind] at hspec; cases hspec
  | some st =>
    rw [hfind] at hspec
    simp only [Option.bind_eq_bind, Option.bind_some] at hspec
    cases hsel : Spec.selects st w with
    | none => rw [hsel] at hspec; cases hspec
    | some sel =>
      rw [hsel] at hspec
      simp only [Option.bind_some, Option.pure_def, Option.some.injEq] at hspec
      obtain ⟨t, ht⟩ := h.tabs.find_some hfind
      obtain ⟨schema, hsch, hdec, hf⟩ := h.tabs.find h.cat.tnames ht
      rw [hfind] at hf
      simp only [Option.some.injEq] at hf
      subst hf
      -- the fetch and the filter
      obtain ⟨s1, efetch, hs1, hc1⟩ := fetchTable_cat h.cat table t ht schema hsch hdec
      obtain ⟨efilter, hsl⟩ := filterIds_selects table schema (rowsOf schema (live t)) w sel hsel
      -- the row ids are distinct
      obtain ⟨_, hIt, _, _, _⟩ := h.cat.tree t (Cat.tb_mem ht)
      have hnd : ((rowsOf schema (live t)).map (·.1)).Nodup := by
        rw [rowsOf_keys schema (live t) hdec]
        exact (live_keys_asc hIt.asc).imp (fun hlt => Nat.ne_of_lt hlt)
      have hnd' : ((selRows (rowsOf schema (live t)) sel).map (·.1)).Nodup :=
        hnd.sublist ((selRows_sublist _ sel).map _)
      obtain ⟨s', t', logs, ego, hc', hl', hlen', hlk', _⟩ := evalDelete_go_spec db table pt sch
        (selRows (rowsOf schema (live t)) sel) s1 tbls t [] 0 hc1 ht hnd'
        (fun r hr => mem_rowsOf ((selRows_sublist _ sel).subset hr))
      refine ⟨_, { store := s', wal := db.wal ++ ([] ++ logs) }, t', logs, ?_, by simp, hlen', ⟨hc', ?_⟩,
        by rw [hlk', hs1.2], ?_⟩
      · simp only [Engine.evalDelete, Engine.fetchForExec, Engine.liftS, efetch, efilter]
        rw [← Nat.zero_add (selRows (rowsOf schema (live t)) sel).length]
        exact ego
      · rw [← hspec]
        have hdec' : ∀ c ∈ live t', ∃ m, decodeTuple schema c.val [] = .ok m := by
          intro c hc
          rw [hl'] at hc
          exact hdec c (List.mem_filter.mp hc).1
        have := h.tabs.setTable h.cat.tnames ht schema hsch t' hdec'
          (fun _ => ((absTable table schema t).rows.zip sel).filterMap fun (r, s) => if s then none else some r)
          (by
            simp only [absTable]
            rw [hl', rowsOf_filter schema (fun k => !((selRows (rowsOf schema (live t)) sel).map (·.1)).contains k)]
            exact rows_after_delete _ sel _ hsl (selRows_mem_iff _ sel hnd))
        exact this
      · intro st' sel' hf' hs'
        simp only [Option.some.injEq] at hf'
        subst hf'
        rw [hsel] at hs'
        simp only [Option.some.injEq] at hs'
        subst hs'
        exact selRows_length _ _ hsl

end Mkdb.Store
