import Mkdb.Proofs.SortAny1
/-!
ORDER BY under any correct sorting algorithm, the converse: whatever `Spec.satisfies` accepts under
ORDER BY is `cut out` for SOME correct sort `out` of the meaning (`accepted_is_cut_of_sort`).  With
`satisfies_any_sort` this says that the reference accepts exactly the answers of the implementations
that sort correctly - stably or not - and cut.
-/
namespace Mkdb.Exec.SortAnyP
open Mkdb.Sql Mkdb.Tuple Mkdb.Spec Mkdb.Exec.SelectP Mkdb.Exec.MeaningP

/-! ### sub-multisets have a complement -/

theorem specCount_eq (r : Row) (l : List Row) : Spec.count r l = List.count r l := by
  unfold Spec.count
  rw [List.count, List.countP_eq_length_filter]

theorem count_le_of_subMultiset {res want : List Row} (h : subMultiset res want = true) (x : Row) :
    List.count x res ≤ List.count x want := by
  by_cases hx : x ∈ res
  · unfold subMultiset at h
    rw [List.all_eq_true] at h
    have := h x hx
    rw [decide_eq_true_eq, specCount_eq, specCount_eq] at this
    exact this
  · rw [List.count_eq_zero_of_not_mem hx]; exact Nat.zero_le _

theorem exists_rest_of_count_le (res : List Row) :
    ∀ want : List Row, (∀ x, List.count x res ≤ List.count x want) →
      ∃ rest, (res ++ rest).Perm want := by
  induction res with
  | nil => intro want _; exact ⟨want, List.Perm.refl _⟩
  | cons r rs ih =>
    intro want h
    have hr : r ∈ want := by
      have := h r
      rw [List.count_cons_self] at this
      exact List.count_pos_iff.1 (by omega)
    obtain ⟨rest, hp⟩ := ih (want.erase r) (by
      intro x
      have := h x
      rw [List.count_cons] at this
      rw [List.count_erase]
      by_cases e : r == x
      · simp only [e, if_true] at this ⊢; omega
      · simp only [e, Bool.false_eq_true, if_false] at this ⊢; omega)
    exact ⟨rest, ((List.perm_cons r).2 hp).trans (List.perm_cons_erase hr).symm⟩

/-! ### the sequence of key values of a sorted list -/

/-- `≤` on vectors of key values -/
def kle (keys : List (Nat × Bool)) (ka kb : List Val) : Prop :=
  vecLess (keys.map (·.2)) kb ka = false

theorem pairwise_iff_keys (keys : List (Nat × Bool)) (l : List Row) :
    l.Pairwise (fun a b => rowLess keys b a = false) ↔ (l.map (keyProj keys)).Pairwise (kle keys) := by
  rw [List.pairwise_map]
  constructor <;> intro h <;> refine h.imp ?_ <;> intro a b hab
  · show vecLess _ _ _ = false; rw [← rowLess_eq_vecLess]; exact hab
  · rw [rowLess_eq_vecLess]; exact hab

/-- two sorted lists of rows (comparable key columns) whose key values are the same multiset show the
same sequence of key values -/
theorem keyseq_unique {keys : List (Nat × Bool)} {S l l' : List Row}
    (hc : ∀ a ∈ S, ∀ b ∈ S, KeyComparable keys a b) (hl : ∀ x ∈ l, x ∈ S) (hl' : ∀ x ∈ l', x ∈ S)
    (hA : l.Pairwise (fun a b => rowLess keys b a = false))
    (hB : l'.Pairwise (fun a b => rowLess keys b a = false))
    (hp : (l.map (keyProj keys)).Perm (l'.map (keyProj keys))) :
    l.map (keyProj keys) = l'.map (keyProj keys) := by
  refine List.Perm.eq_of_pairwise (le := kle keys) ?_ ((pairwise_iff_keys keys l).1 hA)
    ((pairwise_iff_keys keys l').1 hB) hp
  intro ka kb hka hkb h1 h2
  obtain ⟨a, ha, rfl⟩ := List.mem_map.1 hka
  obtain ⟨b, hb, rfl⟩ := List.mem_map.1 hkb
  apply keyProj_eq_of_incomparable (hc a (hl a ha) b (hl' b hb))
  · rw [rowLess_eq_vecLess]; exact h2
  · rw [rowLess_eq_vecLess]; exact h1

/-! ### OFFSET / LIMIT as numbers -/

/-- drop `off`, then keep at most `lim` -/
def cutN (off : Nat) (lim : Option Nat) (l : List Row) : List Row :=
  match lim with
  | none => l.drop off
  | some m => (l.drop off).take m

theorem cut_eq_cutN (lim : LimitOffset) (l : List Row) :
    cut lim l = cutN (if lim.offsetActive then lim.offset.toNat else 0)
      (if lim.limitActive then some lim.limit.toNat else none) l := by
  rw [cut_eq]
  cases lim.limitActive <;> simp [cutN]

theorem cutN_eq_take_drop (off : Nat) (lim : Option Nat) (l : List Row) :
    cutN off lim l = (l.drop off).take (cutN off lim l).length := by
  cases lim with
  | none =>
    simp only [cutN, List.length_drop]
    exact (List.take_of_length_le (by simp only [List.length_drop]; omega)).symm
  | some m =>
    simp only [cutN, List.length_take, List.length_drop]
    rw [List.take_eq_take_iff]
    simp only [List.length_drop]
    omega

theorem cutN_length (off : Nat) (lim : Option Nat) (l : List Row) :
    (cutN off lim l).length = match lim with
      | none => l.length - off
      | some m => min m (l.length - off) := by
  cases lim <;> simp [cutN]

/-- the insertion of `result` at position `off` of `R` is cut back to `result`, when the lengths are
those of a cut of a list `S` with `|S| = |R| + |result|` -/
theorem cutN_insert (off : Nat) (lim : Option Nat) (R result : List Row) (s : Nat)
    (hs : s = R.length + result.length)
    (hn : result.length = match lim with
      | none => s - off
      | some m => min m (s - off)) :
    cutN off lim (R.take off ++ result ++ R.drop off) = result := by
  by_cases hoff : off ≤ R.length
  · have h1 : (R.take off).length = off := by simp [List.length_take]; omega
    have hd : (R.take off ++ result ++ R.drop off).drop off = result ++ R.drop off := by
      rw [List.append_assoc, List.drop_append_of_le_length (by omega), List.drop_of_length_le (by omega)]
      rfl
    cases lim with
    | none =>
      simp only [cutN, hd]
      simp only [] at hn
      have : R.drop off = [] := List.drop_of_length_le (by omega)
      rw [this, List.append_nil]
    | some m =>
      simp only [cutN, hd]
      simp only [] at hn
      by_cases hm : result.length = m
      · rw [List.take_append_of_le_length (by omega), List.take_of_length_le (by omega)]
      · have : R.drop off = [] := List.drop_of_length_le (by omega)
        rw [this, List.append_nil, List.take_of_length_le (by omega)]
  · have hr : result = [] := by
      apply List.eq_nil_of_length_eq_zero
      cases lim <;> simp only [] at hn <;> omega
    subst hr
    have : (R.take off ++ [] ++ R.drop off) = R := by simp
    rw [this]
    cases lim <;> simp only [cutN] <;> rw [List.drop_of_length_le (by omega)] <;> simp

/-- the key values of the insertion -/
theorem keys_insert {β : Type} (f : Row → β) (off : Nat) (S R result : List Row)
    (hM : result.map f = ((S.drop off).take result.length).map f)
    (hR : R.map f = (S.take off ++ S.drop (off + result.length)).map f) :
    (R.take off ++ result ++ R.drop off).map f = S.map f := by
  have hAB : (R.map f).take off = (S.take off).map f ∧
      (R.map f).drop off = (S.drop (off + result.length)).map f := by
    rw [hR, List.map_append]
    by_cases hoff : off ≤ S.length
    · have hl : ((S.take off).map f).length = off := by
        simp only [List.length_map, List.length_take]; omega
      exact ⟨List.take_left' hl, List.drop_left' hl⟩
    · have hB : S.drop (off + result.length) = [] := List.drop_of_length_le (by omega)
      rw [hB, List.map_nil, List.append_nil]
      exact ⟨List.take_of_length_le (by simp only [List.length_map, List.length_take]; omega),
        List.drop_of_length_le (by simp only [List.length_map, List.length_take]; omega)⟩
  rw [List.map_append, List.map_append, List.map_take, List.map_drop, hAB.1, hAB.2, hM,
    ← List.map_append, ← List.map_append]
  congr 1
  rw [List.append_assoc, ← List.drop_drop, List.take_append_drop, List.take_append_drop]

/-! ### what the judge accepts is the cut of a correct sort -/

/-- **what `Spec.satisfies` accepts under ORDER BY is `cut out` for some correct sort `out` of the
meaning** (comparable key columns): the converse of `satisfies_any_sort` -/
theorem accepted_is_cut_of_sort {q : Select} {hdr : List Field} {keys : List (Nat × Bool)}
    {want result : List Row} (hob : q.orderBy ≠ []) (hk : sortKeys q hdr = some keys)
    (hc : ∀ a ∈ want, ∀ b ∈ want, KeyComparable keys a b)
    (h : satisfies q hdr want result = true) :
    ∃ out, SortedPerm keys want out ∧ cut q.lim out = result := by
  rw [satisfies_eq] at h
  have hne : q.orderBy.isEmpty = false := by
    cases h' : q.orderBy with
    | nil => exact absurd h' hob
    | cons _ _ => rfl
  simp only [hne, Bool.false_eq_true, if_false, hk] at h
  rw [Bool.and_eq_true, Bool.and_eq_true, Bool.and_eq_true, beq_iff_eq, beq_iff_eq] at h
  obtain ⟨⟨⟨hlen, _⟩, hkeys⟩, hsub⟩ := h
  simp only [cut_eq_cutN] at hlen hkeys ⊢
  generalize (if q.lim.offsetActive then q.lim.offset.toNat else 0) = off at *
  generalize (if q.lim.limitActive then some q.lim.limit.toNat else none) = lim at *
  obtain ⟨rest, hp⟩ := exists_rest_of_count_le result want (count_le_of_subMultiset hsub)
  have hSp : (sortRows keys want).Perm want := sortRows_perm keys want
  have hRp : (sortRows keys rest).Perm rest := sortRows_perm keys rest
  have hmemRest : ∀ x ∈ rest, x ∈ want := fun x hx => hp.mem_iff.1 (List.mem_append_right _ hx)
  have hSpw := sortRows_pairwise keys want hc
  have hRpw := sortRows_pairwise keys rest
    (fun a ha b hb => hc a (hmemRest a ha) b (hmemRest b hb))
  generalize sortRows keys want = S at *
  generalize sortRows keys rest = R at *
  have hM : result.map (keyProj keys) = ((S.drop off).take result.length).map (keyProj keys) := by
    rw [hkeys, hlen, ← cutN_eq_take_drop]
  have hSeq : S = S.take off ++ ((S.drop off).take result.length ++ S.drop (off + result.length)) := by
    rw [← List.drop_drop, List.take_append_drop, List.take_append_drop]
  have hsub' : (S.take off ++ S.drop (off + result.length)).Sublist S := by
    have := List.Sublist.append (List.Sublist.refl (S.take off))
      (List.drop_sublist result.length (S.drop off))
    rw [List.drop_drop, List.take_append_drop] at this
    exact this
  have hR : R.map (keyProj keys) = (S.take off ++ S.drop (off + result.length)).map (keyProj keys) := by
    refine keyseq_unique hc (fun x hx => hmemRest x (hRp.mem_iff.1 hx))
      (fun x hx => hSp.mem_iff.1 (hsub'.subset hx)) hRpw (hSpw.sublist hsub') ?_
    have h1 : ((result ++ rest).map (keyProj keys)).Perm (S.map (keyProj keys)) :=
      (hp.trans hSp.symm).map _
    rw [hSeq, List.map_append, List.map_append, List.map_append, hM] at h1
    have h2 := h1.trans (List.perm_append_comm_assoc _ _ _)
    rw [List.perm_append_left_iff] at h2
    rw [List.map_append]
    exact (hRp.map _).trans h2
  refine ⟨R.take off ++ result ++ R.drop off, ⟨?_, ?_⟩, ?_⟩
  · refine ((List.perm_append_comm.append_right _).trans ?_).trans hp
    rw [List.append_assoc, List.take_append_drop]
    exact List.Perm.append_left _ hRp
  · apply sortedBy_of_pairwise
    rw [pairwise_iff_keys, keys_insert (keyProj keys) off S R result hM hR, ← pairwise_iff_keys]
    exact hSpw
  · apply cutN_insert off lim R result S.length
    · rw [hSp.length_eq, ← hp.length_eq, List.length_append, hRp.length_eq]; omega
    · exact hlen.trans (cutN_length off lim S)

end Mkdb.Exec.SortAnyP
