import Mkdb.Proofs.ReplayCkpt1
import Mkdb.Proofs.ReplayCkpt2
import Mkdb.Proofs.ReplayCkpt3
import Mkdb.Proofs.ReplayCkpt4
import Mkdb.Proofs.ReplayCkpt5
import Mkdb.Proofs.ReplayCkpt6
import Mkdb.Proofs.ReplayCkpt7
import Mkdb.Proofs.ReplayCkpt8
import Mkdb.Proofs.ReplayCkpt9
/-!
# Crash after a checkpoint: the log is never truncated

`crash_recovery_spec` (behind C02 "acknowledged statements survive a crash") assumes an empty log at
the start.  The real system only appends to its log; after any checkpoint the log still holds all
earlier records and start-up recovery replays the whole log on the data file.

* `ReplayCkpt1`: **`crash_recovery_ckpt`** (`_gen`): the log of the database the statements start from
  may hold any records that are `Applied` on the store and that the counters have passed (no LSN
  beyond the LSN counter, no INSERT key beyond the row-id counter - recovery raises the row-id counter
  to the key of every INSERT record, redone or skipped); the whole log - old records, then the records
  of the statements - is replayed.
* `ReplayCkpt2`: what a statement does to the LSNs of the pages of a tree (levels model):
  `insertAppend_page_kept`, `insertAppend_old_root` (the old root page carries the LSN of the insert
  that moved the root).
* `ReplayCkpt3`: `AppliedC` (applied, read off the catalog description), **`live_run_applied`**: along a
  live run every record of the log is applied on the live store, root moves included;
  **`live_run_keys`**: and no INSERT record carries a key beyond the row-id counter.
* `ReplayCkpt4`: `live_run_pages` (the clean pages at the end of a run are pages it started with),
  the catalog description after a flush (`AppliedC.clean`, …).
* `ReplayCkpt5`, `ReplayCkpt6`: frame facts - every operation keeps the cache well filed
  (`specRun_memFiled`, `replayAll_memFiled`) and only the flush writes the data file (`specRun_disk`,
  `replayAll_disk`, `replayAll_lsn`).
* `ReplayCkpt7`: `flush_ckpt`, the checkpoint invariant **`Ckpt`**, `ckpt_of_flushed`, `spec_run_ckpt`,
  `spec_run_keys`.
* `ReplayCkpt8`: **`Ckpt.flush_round`**, **`Ckpt.replay_reopened`** (the whole log replayed on the
  re-opened data file), `Ckpt.recoverPre`, **`Ckpt.recover_round`** (about `Engine.recover`), `Rounds`,
  **`rounds_ckpt`**, `rounds_recover`.
* `ReplayCkpt9`: non-vacuity: `crash_ckpt_example`, `rounds_example`.
-/
