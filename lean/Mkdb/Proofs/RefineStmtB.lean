import Mkdb.Proofs.RefineStmtB3
/-!
Refinement at the statement level, part B: the remaining storage-level statements under the
catalog invariant `Cat` (see `RefineStmt2.lean`).

* `fetchTable_cat`, `fetchTable_unknown_table` (`RefineStmtB1`): what SELECT reads
  (`RelationService.Fetch`): the rows `rowsOf schema (live t)` of the live cells of the table's tree.
* `markDeleted_cat`, `markDeleted_cat_absent`, `markDeleted_live`, `markDeleted_unknown_table`
  (`RefineStmtB1`): DELETE of one row id is `setDeleted` on the tree of the table.
* `update_cat`, `update_cat_absent`, `update_live`, `update_unknown_table` (`RefineStmtB2`): UPDATE of
  one row id is `setVal` on the tree of the table.
* `fetchTable_cat_undecodable`, `update_cat_undecodable`, `update_cat_encode_error`,
  `update_cat_too_large` (`RefineStmtB3`): the refusals, with the model's error and nothing changed.
* `Cat.updTable` (`RefineStmtB1`): the catalog invariant after a page-local change of a user table.
* below: non-vacuity on the concrete store `st0` of `RefineStmt.lean`: insert, select, delete, select.
-/
set_option autoImplicit false
namespace Mkdb.Store
open Mkdb.Page Mkdb.Tuple Mkdb.Generated Mkdb.Tree

/-- the table `"t"` of `st0` after the insert of one (empty) row -/
def t1 : Levels := ⟨[(⟨12288, 7, false, false, 0, 0, [⟨4, false, []⟩]⟩, true)], []⟩

/-- **Non-vacuity.**  On the concrete store `st0` (catalog `cat0`): the insert of a row into `"t"`
succeeds (`insert_refines`); `fetchTable` then returns exactly that row, with id 4
(`fetchTable_cat`); `markDeleted` of id 4 logs one delete record for the leaf at 12288 with LSN 8
(`markDeleted_cat`); `fetchTable` then returns no row; the catalog invariant holds at the end, the
table being `setDeleted t1 4 8`. -/
theorem select_delete_example :
    ∃ s1 s2 s3 s4 logs1,
      insert tname [] [] st0 = .ok logs1 s1 ∧
      fetchTable tname s1 = .ok ([(4, [])], []) s2 ∧
      markDeleted tname 4 s2 = .ok [⟨c_OpDelete, 8, 12288, 4, []⟩] s3 ∧
      fetchTable tname s3 = .ok ([], []) s4 ∧
      Cat s4 pt0 sch0 [(tname, setDeleted t1 4 8)] := by
  obtain ⟨s1, ptF, logs1, e1, hc1, _, _, hcase⟩ := insert_refines st0 pt0 sch0 [(tname, t0)] cat0 tname t0
    (by simp) [] [] [] [] (by decide) (by decide) rfl rfl (by decide) t1 16384 rfl (by decide) (by decide)
    (by decide)
  have hst : setTable [(tname, t0)] tname t1 = [(tname, t1)] := by decide
  rw [hst] at hc1
  rcases hcase with ⟨_, rfl, hlsn1, _⟩ | ⟨hne, _⟩
  · have hmem : (tname, t1) ∈ [(tname, t1)] := List.mem_singleton.mpr rfl
    obtain ⟨s2, e2, hs2, hc2⟩ := fetchTable_cat hc1 tname t1 hmem [] (by decide)
      (by intro c _; exact ⟨[], rfl⟩)
    have hrows : rowsOf [] (live t1) = [(4, [])] := by decide
    rw [hrows] at e2
    obtain ⟨s3, l, d, hm, _, e3, hc3, _⟩ := markDeleted_cat hc2 tname t1 hmem 4 ⟨4, false, []⟩
      (by decide) rfl
    have hl : l.off = 12288 := by
      simp only [t1, List.mem_singleton, Prod.mk.injEq] at hm
      rw [hm.1]
    have hn2 : s2.hdr.nextLSN = 8 := by rw [hs2.2, hlsn1]; rfl
    rw [hn2, hl] at e3
    rw [hn2] at hc3
    have hst3 : setTable [(tname, t1)] tname (setDeleted t1 4 8) = [(tname, setDeleted t1 4 8)] := by decide
    rw [hst3] at hc3
    obtain ⟨s4, e4, hs4, hc4⟩ := fetchTable_cat hc3 tname _ (List.mem_singleton.mpr rfl) [] (by decide)
      (by intro c _; exact ⟨[], rfl⟩)
    have hrows4 : rowsOf [] (live (setDeleted t1 4 8)) = [] := by decide
    rw [hrows4] at e4
    exact ⟨s1, s2, s3, s4, logs1, e1, e2, e3, e4, hc4⟩
  · exact absurd (by decide) hne

/-- **Non-vacuity of `update_cat`.**  On the store after the insert, the update of row 4 (the table
has no columns, so the re-encoded row is empty again) logs one update record for the leaf at 12288
with LSN 8, and the catalog invariant holds with the table `setVal t1 4 8 []`. -/
theorem update_example :
    ∃ s1 s2 logs1,
      insert tname [] [] st0 = .ok logs1 s1 ∧
      update tname 4 [] [] s1 = .ok [⟨c_OpUpdate, 8, 12288, 4, []⟩] s2 ∧
      Cat s2 pt0 sch0 [(tname, setVal t1 4 8 [])] ∧ s2.hdr.nextLSN = 9 := by
  obtain ⟨s1, ptF, logs1, e1, hc1, _, _, hcase⟩ := insert_refines st0 pt0 sch0 [(tname, t0)] cat0 tname t0
    (by simp) [] [] [] [] (by decide) (by decide) rfl rfl (by decide) t1 16384 rfl (by decide) (by decide)
    (by decide)
  have hst : setTable [(tname, t0)] tname t1 = [(tname, t1)] := by decide
  rw [hst] at hc1
  rcases hcase with ⟨_, rfl, hlsn1, _⟩ | ⟨hne, _⟩
  · have hmem : (tname, t1) ∈ [(tname, t1)] := List.mem_singleton.mpr rfl
    obtain ⟨s2, l, d, hm, _, e2, hc2, hlsn2, _⟩ := update_cat hc1 tname t1 hmem [] (by decide) 4 [] [] rfl
      ⟨4, false, []⟩ (by decide) rfl [] [] rfl rfl (by decide)
    have hl : l.off = 12288 := by
      simp only [t1, List.mem_singleton, Prod.mk.injEq] at hm
      rw [hm.1]
    have hn1 : s1.hdr.nextLSN = 8 := by rw [hlsn1]; rfl
    rw [hn1, hl] at e2
    rw [hn1] at hc2 hlsn2
    have hst2 : setTable [(tname, t1)] tname (setVal t1 4 8 []) = [(tname, setVal t1 4 8 [])] := by decide
    rw [hst2] at hc2
    exact ⟨s1, s2, logs1, e1, e2, hc2, hlsn2⟩
  · exact absurd (by decide) hne

end Mkdb.Store
