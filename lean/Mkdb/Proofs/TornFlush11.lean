import Mkdb.Proofs.TornFlush10
import Mkdb.Proofs.BaseCase2
/-!
Torn flush without page allocation, part 11: rounds with torn flushes, and non-vacuity on computed
stores.

* `RoundsT`, `roundsT_ckpt`: `Rounds` with a third kind of round - statements that allocate no page, a
  flush torn at any point, start-up recovery - keep the checkpoint invariant.
* `torn_example`: `CREATE DATABASE; CREATE TABLE t (a INT)` (the computed `tableDB`);
  `INSERT INTO t VALUES (5), (6)`; `UPDATE t SET a = 7 WHERE a = 5`; the flush is torn before its first
  page write (`j = 0`: the leaf of `t` is still the empty page of the checkpoint) or after it, before the
  header write (`j = 1`: the leaf is current, the header still says `lastKey = 10`, `nextLSN = 10`):
  all hypotheses of `Ckpt.torn_flush_round` hold, both recoveries succeed.
-/
set_option autoImplicit false
namespace Mkdb.Store
open Mkdb.Page Mkdb.Tuple Mkdb.Generated Mkdb.Tree Mkdb.Engine

/-- a history of rounds: statements, then a complete flush, or a crash with nothing flushed, or - if
the statements allocated no page - a flush torn before its `j`-th page write; a crash is followed by
start-up recovery -/
inductive RoundsT (sch : Levels) (db : Engine.DB) (sdb : Spec.SDB) : Engine.DB → Spec.SDB → Prop
  | nil : RoundsT sch db sdb db sdb
  | flush {db1 dbN db2 : Engine.DB} {sdb1 sdbN : Spec.SDB} {stmts : List EStmt} {order : List Nat}
      (hist : RoundsT sch db sdb db1 sdb1) (run : SpecRun sch db1 sdb1 stmts dbN sdbN)
      (hfl : Engine.flush dbN order = .ok () db2) : RoundsT sch db sdb db2 sdbN
  | crash {db1 dbN db2 : Engine.DB} {sdb1 sdbN : Spec.SDB} {stmts : List EStmt} {o1 o2 : List Nat}
      (hist : RoundsT sch db sdb db1 sdb1) (run : SpecRun sch db1 sdb1 stmts dbN sdbN)
      (hrec : Engine.recover dbN o1 o2 = .ok db2) : RoundsT sch db sdb db2 sdbN
  | torn {db1 dbN db2 : Engine.DB} {sdb1 sdbN : Spec.SDB} {stmts : List EStmt} {order o1 o2 : List Nat} {j : Nat}
      (hist : RoundsT sch db sdb db1 sdb1) (run : SpecRun sch db1 sdb1 stmts dbN sdbN)
      (hnf : dbN.store.hdr.nextFree = db1.store.hdr.nextFree)
      (hrec : Engine.recover { store := tornFlush dbN.store order j, wal := dbN.wal } o1 o2 = .ok db2) :
      RoundsT sch db sdb db2 sdbN

/-- **Rounds with torn flushes keep the checkpoint invariant.** -/
theorem roundsT_ckpt {sch : Levels} {db db' : Engine.DB} {sdb sdb' : Spec.SDB}
    (hist : RoundsT sch db sdb db' sdb') {pt : Levels} {tbls : List (Bytes × Levels)}
    (h : Ckpt sch db sdb pt tbls) : ∃ pt' tbls', Ckpt sch db' sdb' pt' tbls' := by
  induction hist with
  | nil => exact ⟨pt, tbls, h⟩
  | flush _ run hfl ih =>
    obtain ⟨pt1, tbls1, h1⟩ := ih
    obtain ⟨db', ptN, tblsN, e, _, hk⟩ := h1.flush_round run _
    rw [hfl] at e
    simp only [Engine.Res.ok.injEq, true_and] at e
    subst e
    exact ⟨ptN, tblsN, hk⟩
  | crash _ run hrec ih =>
    obtain ⟨pt1, tbls1, h1⟩ := ih
    obtain ⟨db', ptN, tblsN, e, _, hk⟩ := h1.recover_round run _ _
    rw [hrec] at e
    simp only [Engine.RecRes.ok.injEq] at e
    subst e
    exact ⟨ptN, tblsN, hk⟩
  | torn _ run hnf hrec ih =>
    obtain ⟨pt1, tbls1, h1⟩ := ih
    obtain ⟨db', tblsL, e, _, _, hk, _⟩ := h1.torn_flush_round run hnf _ _ _ _
    rw [hrec] at e
    simp only [Engine.RecRes.ok.injEq] at e
    subst e
    exact ⟨_, _, hk⟩

/-- in such a history no recovery fails - not the recovery from a torn flush either -/
theorem roundsT_torn_recovers {sch : Levels} {db db1 dbN : Engine.DB} {sdb sdb1 sdbN : Spec.SDB} {stmts : List EStmt}
    {pt : Levels} {tbls : List (Bytes × Levels)} (h : Ckpt sch db sdb pt tbls)
    (hist : RoundsT sch db sdb db1 sdb1) (run : SpecRun sch db1 sdb1 stmts dbN sdbN)
    (hnf : dbN.store.hdr.nextFree = db1.store.hdr.nextFree) (order : List Nat) (j : Nat) (o1 o2 : List Nat) :
    ∃ db2, Engine.recover { store := tornFlush dbN.store order j, wal := dbN.wal } o1 o2 = .ok db2 ∧
      RoundsT sch db sdb db2 sdbN ∧ ∃ pt2 tbls2, Ckpt sch db2 sdbN pt2 tbls2 := by
  obtain ⟨pt1, tbls1, h1⟩ := roundsT_ckpt hist h
  obtain ⟨db2, tblsL, e, _, _, hk, _⟩ := h1.torn_flush_round run hnf order j o1 o2
  exact ⟨db2, e, .torn hist run hnf e, _, _, hk⟩

/-! ### non-vacuity on computed stores -/

/-- the two statements of the example run on `tableDB` allocate no page (kernel evaluation of the model) -/
theorem torn_example_nextFree :
    (match Engine.evalInsert tableDB tname [] [[.int 5], [.int 6]] with
     | .ok _ d1 =>
       (match Engine.evalUpdate d1 tname [([97], .lit (.int 7))] (some (condEq 5)) with
        | .ok _ d2 => d2.store.hdr.nextFree == 16384 && d2.wal.length == 3
        | _ => false)
     | _ => false) = true := by decide +kernel

/-- **Non-vacuity of `Ckpt.torn_flush_round`.**  From the computed `tableDB`
(`CREATE DATABASE; CREATE TABLE t (a INT)`): `INSERT INTO t VALUES (5), (6)`; `UPDATE t SET a = 7 WHERE a = 5`
(three log records, one dirty page, no allocation).  Whatever the point at which the flush is torn, recovery
succeeds and ends checkpointed for the plain database with the rows `(7)`, `(6)`. -/
theorem torn_example : ∃ db2,
    SpecRun schT tableDB sdbA0
      [.insert tname [] [[.int 5], [.int 6]], .update tname [([97], .lit (.int 7))] (some (condEq 5))] db2 sdbA2 ∧
    db2.store.hdr.nextFree = tableDB.store.hdr.nextFree ∧ db2.wal.length = 3 ∧
    ∀ order j, ∃ dbR tblsR, Engine.recover { store := tornFlush db2.store order j, wal := db2.wal } [] [] = .ok dbR ∧
      dbR.wal = db2.wal ∧ Ckpt schT dbR sdbA2 (clean ptT) (cleanT tblsR) := by
  have hk0 := ckpt_tableDB
  have hmem : (tname, tT) ∈ [(tname, tT)] := List.mem_singleton.mpr rfl
  obtain ⟨db1, ptF1, t1', logs1, e1, _, _, hA1, _⟩ := evalInsert_refines_specV tableDB ptT schT [(tname, tT)] sdbA0
    sdbA1 hk0.abs tname tT hmem schemaA schT_t [] [[.int 5], [.int 6]] valid56 specA1 runT
  have hvalid : ∀ p ∈ [(([97] : Bytes), Sql.VExpr.lit (.int 7))], ∀ l, p.2 = .lit l →
      ValidVal (Engine.litToVal l) := by
    intro p hp l hl
    simp only [List.mem_singleton] at hp
    subst hp
    simp only [Sql.VExpr.lit.injEq] at hl
    subst hl
    exact ⟨by decide, by decide⟩
  obtain ⟨db2, _, _, e2, _⟩ := evalUpdate_refines_specV db1 ptF1 schT _ sdbA1 sdbA2 hA1 tname
    [([97], .lit (.int 7))] (some (condEq 5)) hvalid
    (by
      intro p hp
      simp only [List.mem_singleton] at hp
      subst hp
      rw [nameStr_a]
      exact a_bytes)
    specA2
  have run : SpecRun schT tableDB sdbA0
      [.insert tname [] [[.int 5], [.int 6]], .update tname [([97], .lit (.int 7))] (some (condEq 5))] db2 sdbA2 :=
    .insert tname [] [[.int 5], [.int 6]] valid56 specA1
      (by
        intro pt tbls t schema hA ht hs
        obtain ⟨_, habs, _⟩ := hA
        have ht0 : t = tT := habs.cat.tree_unique cat_tableDB ht hmem
        subst ht0
        rw [schT_t] at hs
        simp only [Option.some.injEq] at hs
        subst hs
        exact runT)
      e1 (.update tname [([97], .lit (.int 7))] (some (condEq 5)) hvalid specA2 e2 (.nil db2 sdbA2))
  have hcomp := torn_example_nextFree
  rw [e1] at hcomp
  simp only at hcomp
  rw [e2] at hcomp
  simp only [Bool.and_eq_true, beq_iff_eq] at hcomp
  have hnf : db2.store.hdr.nextFree = tableDB.store.hdr.nextFree := hcomp.1
  refine ⟨db2, run, hnf, hcomp.2, ?_⟩
  intro order j
  obtain ⟨dbR, tblsR, e, hw, _, hk, _⟩ := hk0.torn_flush_round run hnf order j [] []
  exact ⟨dbR, tblsR, e, hw, hk⟩

/-- **Non-vacuity of `Hist` / `torn_image_replay`**: the run of `torn_example` is a history of three
page-local steps over the skeleton of `tableDB`'s one user table. -/
theorem torn_hist_example : ∃ (db2 : Engine.DB) (logs : List WalRec) (c : Nat → Pages),
    Hist ptT schT [(tname, tT)] tableDB.store.hdr.nextFree db2.store.hdr.lastKey logs c ∧ logs.length = 3 ∧
    db2.wal = logs := by
  obtain ⟨db2, run, hnf, hlen, _⟩ := torn_example
  obtain ⟨_, _, _, logs, hrun, hw, _⟩ := ckpt_tableDB.run_facts run
  obtain ⟨_, habs0, _⟩ := ckpt_tableDB.abs
  obtain ⟨c, H, _⟩ := live_run_hist schT hrun ptT habs0.cat ckpt_tableDB.fresh hnf
  have hw' : db2.wal = logs := by rw [hw]; rfl
  exact ⟨db2, logs, c, H, by rw [← hw']; exact hlen, hw'⟩

end Mkdb.Store
