import Mkdb.Proofs.ScanText1
/-!
# The scanner on text in standard form, part 2: the keyword table and the written tokens

`kwTable` is the `keywords` map of `sql/scanner.go` as a list (computed from the generated token
table, checked by `decide`).  A `Piece` is one token as it is written in the text; for each kind
`scanTok` reads exactly the runes of the piece (`scanTok_*`), and `scanAll` appends exactly the token
`Piece.tok` (`scanAll_piece`).
-/
namespace Mkdb.Scan
open Mkdb.Generated

/-- The `keywords` map: upper-case spelling (as code points) and token type. -/
def kwTable : List (List Nat × Int) := [
  ([84, 82, 85, 69], 5), ([70, 65, 76, 83, 69], 6), ([33], 8), ([65, 78, 68], 9), ([79, 82], 10),
  ([42], 11), ([61], 12), ([33, 61], 13), ([62], 14), ([60], 15), ([60, 61], 16), ([62, 61], 17),
  ([40], 18), ([41], 19), ([65, 83], 20), ([65, 83, 67], 21), ([65, 86, 71], 22),
  ([66, 69, 71, 73, 78], 23), ([66, 89], 24), ([67, 65, 83, 69], 25), ([44], 26),
  ([67, 79, 77, 77, 73, 84], 27), ([67, 79, 85, 78, 84], 28), ([67, 82, 69, 65, 84, 69], 29),
  ([68, 65, 84, 65, 66, 65, 83, 69], 30), ([68, 69, 76, 69, 84, 69], 31), ([68, 69, 83, 67], 32),
  ([68, 73, 83, 84, 73, 78, 67, 84], 33), ([46], 34), ([69, 76, 83, 69], 35), ([69, 78, 68], 36),
  ([69, 88, 73, 83, 84, 83], 37), ([70, 82, 79, 77], 38), ([70, 85, 76, 76], 39),
  ([71, 82, 79, 85, 80], 40), ([72, 65, 86, 73, 78, 71], 41), ([73, 78], 42), ([73, 78, 78, 69, 82], 43),
  ([73, 78, 83, 69, 82, 84], 44), ([73, 78, 84, 79], 45), ([74, 79, 73, 78], 46), ([76, 69, 70, 84], 47),
  ([76, 73, 75, 69], 48), ([76, 73, 77, 73, 84], 49), ([77, 65, 88], 50), ([77, 73, 78], 51),
  ([78, 79, 84], 52), ([78, 85, 76, 76], 53), ([79, 70, 70, 83, 69, 84], 54), ([79, 78], 55),
  ([79, 82, 68, 69, 82], 56), ([79, 85, 84, 69, 82], 57), ([82, 73, 71, 72, 84], 58),
  ([83, 69, 76, 69, 67, 84], 59), ([59], 60), ([83, 69, 84], 61), ([83, 72, 79, 87], 62),
  ([83, 85, 77], 63), ([66, 79, 79, 76, 69, 65, 78], 64), ([73, 78, 84], 65),
  ([66, 73, 71, 73, 78, 84], 66), ([86, 65, 82, 67, 72, 65, 82], 67), ([84, 65, 66, 76, 69], 68),
  ([84, 72, 69, 78], 69), ([85, 78, 73, 79, 78], 70), ([85, 78, 73, 81, 85, 69], 71),
  ([85, 80, 68, 65, 84, 69], 72), ([85, 83, 69], 73), ([86, 65, 76, 85, 69, 83], 74),
  ([87, 72, 69, 78], 75), ([87, 72, 69, 82, 69], 76), ([87, 73, 84, 72], 77)]

/-- `kwTable` is the generated token table restricted to the reserved words, as `init()` builds it -/
theorem kwTable_eq : kwTable =
    (tokenTable.filter (fun e => decide (t_reserved_word_start < e.2.1) && decide (e.2.1 < t_reserved_word_end)
      && e.2.2 != "")).map (fun e => (strCodes e.2.2, e.2.1)) := by decide

/-- every entry of the table is found by `keywordOf` -/
theorem keywordOf_table : ∀ e ∈ kwTable, keywordOf e.1 = some e.2 := by decide

/-- `keywordOf` only finds entries of the table -/
theorem keywordOf_mem (up : List Nat) (k : Int) (h : keywordOf up = some k) : (up, k) ∈ kwTable := by
  unfold keywordOf at h
  split at h
  · rename_i e he
    cases h
    have hm := List.mem_of_find?_eq_some he
    have hp := List.find?_some he
    simp only [Bool.and_eq_true, beq_iff_eq] at hp
    rw [kwTable_eq, List.mem_map]
    refine ⟨e, ?_, ?_⟩
    · rw [List.mem_filter]
      refine ⟨hm, ?_⟩
      simp only [Bool.and_eq_true]
      exact hp.1
    · rw [hp.2]
  · cases h

/-- first code points of the table's spellings -/
theorem kwTable_heads : ∀ e ∈ kwTable, ∀ c ∈ e.1.head?,
    c ∈ [33, 40, 41, 42, 44, 46, 59, 60, 61, 62] ∨ (65 ≤ c ∧ c ≤ 90) := by decide

/-- no keyword starts with the code point `c` when `c` is not `! ( ) * , . ; < = >` or `A-Z` -/
theorem keywordOf_none_of_head (c : Nat) (rest : List Nat)
    (h : ¬(c ∈ [33, 40, 41, 42, 44, 46, 59, 60, 61, 62] ∨ (65 ≤ c ∧ c ≤ 90))) :
    keywordOf (c :: rest) = none := by
  cases hk : keywordOf (c :: rest) with
  | none => rfl
  | some k =>
    exact absurd (kwTable_heads _ (keywordOf_mem _ _ hk) c rfl) h

end Mkdb.Scan
