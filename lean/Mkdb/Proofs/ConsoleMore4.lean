import Mkdb.Proofs.ConsoleMore3
import Mkdb.Proofs.ConsoleHist2
/-!
Console model, the keys Up and Down: Down undoes Up (back to the line that was being typed, kept aside as
`historyPending`), Up at the oldest entry changes nothing.
-/
namespace Mkdb.Console

theorem nthPrevious_ofNat (h : List (List Nat)) (n : Nat) : nthPrevious h (n : Int) = h[n]? := by
  unfold nthPrevious
  rw [if_neg (by omega)]
  rfl

theorem step_down_out (t : Term) (hpa : t.pasteActive = false) (hi : t.historyIndex = -1) :
    step t keyDown = (t, none) := by
  simp [step, handleKey, hpa, hi, keyEnter, keyBackspace, keyAltLeft, keyAltRight, keyLeft, keyRight,
    keyHome, keyEnd, keyUp, keyDown]

theorem step_down_zero (t : Term) (hpa : t.pasteActive = false) (hi : t.historyIndex = 0) :
    step t keyDown = (setLine { t with historyIndex := -1 } t.historyPending, none) := by
  simp [step, handleKey, hpa, hi, keyEnter, keyBackspace, keyAltLeft, keyAltRight, keyLeft, keyRight,
    keyHome, keyEnd, keyUp, keyDown]

theorem step_down_pos (t : Term) (hpa : t.pasteActive = false) (m : Nat) (hi : t.historyIndex = (m : Int) + 1)
    (e : List Nat) (h : t.history[m]? = some e) :
    step t keyDown = (setLine { t with historyIndex := (m : Int) } e, none) := by
  have h1 : (t.historyIndex == -1) = false := by rw [hi]; simp; omega
  have h2 : (t.historyIndex == 0) = false := by rw [hi]; simp; omega
  have h3 : nthPrevious t.history (m : Int) = some e := by
    rw [nthPrevious_ofNat, h]
  have h4 : t.historyIndex - 1 = (m : Int) := by omega
  simp [step, handleKey, hpa, h1, h2, h3, h4, keyEnter, keyBackspace, keyAltLeft, keyAltRight, keyLeft, keyRight,
    keyHome, keyEnd, keyUp, keyDown]

/-- inside the history at entry `m`: the line is that entry, the cursor at its end -/
structure InHist (t : Term) (m : Nat) : Prop where
  paste : t.pasteActive = false
  idx : t.historyIndex = (m : Int)
  line : t.history[m]? = some t.line
  pos : t.pos = t.line.length

theorem up_state {t : Term} {m : Nat} (h : InHist t m) (hlen : m + 1 < t.history.length) :
    step t keyUp = (setLine { t with historyIndex := (m : Int) + 1 } t.history[m + 1], none) := by
  have hn : nthPrevious t.history (t.historyIndex + 1) = some t.history[m + 1] := by
    rw [h.idx, show (m : Int) + 1 = ((m + 1 : Nat) : Int) by omega, nthPrevious_ofNat,
      List.getElem?_eq_getElem hlen]
  have hne : (t.historyIndex == -1) = false := by rw [h.idx]; simp
  have hs := step_up t h.paste hn
  rw [hne, h.idx] at hs
  exact hs

/-- Up inside the history, an older entry there: one entry deeper, and Down comes back to exactly the
same state -/
theorem up_inHist {t : Term} {m : Nat} (h : InHist t m) (hlen : m + 1 < t.history.length) :
    InHist (step t keyUp).1 (m + 1) ∧ (step t keyUp).2 = none ∧ (step t keyUp).1.history = t.history ∧
      step (step t keyUp).1 keyDown = (t, none) := by
  rw [up_state h hlen]
  refine ⟨⟨h.paste, ?_, ?_, rfl⟩, rfl, rfl, ?_⟩
  · show (m : Int) + 1 = ((m + 1 : Nat) : Int)
    omega
  · exact List.getElem?_eq_getElem hlen
  · have hd := step_down_pos (setLine { t with historyIndex := (m : Int) + 1 } t.history[m + 1]) h.paste m rfl
      t.line h.line
    show step (setLine { t with historyIndex := (m : Int) + 1 } t.history[m + 1]) keyDown = (t, none)
    rw [hd]
    cases t with
    | mk line pos pa hist hi hp =>
      have h1 := h.idx
      have h2 := h.pos
      simp only at h1 h2
      subst h1
      subst h2
      rfl

theorem replicate_up_down (j : Nat) :
    List.replicate (j + 1) keyUp ++ List.replicate (j + 1) keyDown =
      keyUp :: ((List.replicate j keyUp ++ List.replicate j keyDown) ++ [keyDown]) := by
  rw [List.replicate_succ, List.replicate_succ' (n := j), List.cons_append, List.append_assoc]

/-- Up `j` times, Down `j` times inside the history: nothing handed over, exactly the same state -/
theorem ups_downs_inHist : ∀ (j : Nat) (t : Term) (m : Nat), InHist t m → m + j < t.history.length →
    run t (List.replicate j keyUp ++ List.replicate j keyDown) = [] ∧
      final t (List.replicate j keyUp ++ List.replicate j keyDown) = t
  | 0, _, _, _, _ => ⟨rfl, rfl⟩
  | j + 1, t, m, h, hlen => by
    obtain ⟨h1, hnone, hh, hback⟩ := up_inHist h (by omega)
    obtain ⟨r, f⟩ := ups_downs_inHist j (step t keyUp).1 (m + 1) h1 (by rw [hh]; omega)
    have hs : step t keyUp = ((step t keyUp).1, none) := Prod.ext rfl hnone
    rw [replicate_up_down]
    constructor
    · rw [run_cons_none _ hs, run_append, r, f, run_cons_none _ hback]; rfl
    · rw [final_cons, final_append, f, final_cons, hback]; rfl

/-- what Up and then Down leave of a state that was outside the history: the line that was being typed comes
back as it was kept aside - `string(line)` converted back to runes - with the cursor at its end -/
def afterUpDown (t : Term) : Term :=
  { t with line := t.line.map validRune, pos := t.line.length, historyPending := t.line.map validRune }

/-- Up `j` times then Down `j` times from outside the history (`1 ≤ j ≤` the number of entries) -/
theorem ups_downs (j : Nat) (t : Term) (hpa : t.pasteActive = false) (hi : t.historyIndex = -1)
    (hj : j ≤ t.history.length) (hj1 : 1 ≤ j) :
    run t (List.replicate j keyUp ++ List.replicate j keyDown) = [] ∧
      final t (List.replicate j keyUp ++ List.replicate j keyDown) = afterUpDown t := by
  obtain ⟨i, rfl⟩ : ∃ i, j = i + 1 := ⟨j - 1, by omega⟩
  have hlen : 0 < t.history.length := by omega
  have hn : nthPrevious t.history (t.historyIndex + 1) = some t.history[0] := by
    rw [hi, show (-1 : Int) + 1 = ((0 : Nat) : Int) by rfl, nthPrevious_ofNat, List.getElem?_eq_getElem hlen]
  have hs : step t keyUp = (setLine { t with historyPending := t.line.map validRune, historyIndex := 0 }
      t.history[0], none) := by
    have hs := step_up t hpa hn
    rw [hi] at hs
    exact hs
  have h1 : InHist (step t keyUp).1 0 := by
    rw [hs]
    exact ⟨hpa, rfl, List.getElem?_eq_getElem hlen, rfl⟩
  obtain ⟨r, f⟩ := ups_downs_inHist i (step t keyUp).1 0 h1 (by rw [hs]; simp only [setLine]; omega)
  have hback : step (step t keyUp).1 keyDown = (afterUpDown t, none) := by
    rw [step_down_zero _ h1.paste h1.idx, hs]
    cases t with
    | mk line pos pa hist hx hp =>
      simp only at hi
      subst hi
      simp [setLine, afterUpDown]
  rw [replicate_up_down]
  constructor
  · rw [run_cons_none _ (Prod.ext rfl (by rw [hs]) : step t keyUp = ((step t keyUp).1, none)), run_append, r, f,
      run_cons_none _ hback]; rfl
  · rw [final_cons, final_append, f, final_cons, hback]; rfl

theorem afterUpDown_valid (t : Term) (hv : ∀ c ∈ t.line, validRune c = c) (hend : t.pos = t.line.length) :
    afterUpDown t = { t with historyPending := t.line } := by
  unfold afterUpDown
  rw [map_validRune_id hv, ← hend]

/-- Up at the oldest entry (or with an empty history), any number of times: nothing changes -/
theorem ups_beyond : ∀ (j : Nat) (t : Term), t.pasteActive = false →
    nthPrevious t.history (t.historyIndex + 1) = none →
    run t (List.replicate j keyUp) = [] ∧ final t (List.replicate j keyUp) = t
  | 0, _, _, _ => ⟨rfl, rfl⟩
  | j + 1, t, hpa, h => by
    have hs := step_up_none t hpa h
    obtain ⟨r, f⟩ := ups_beyond j t hpa h
    rw [List.replicate_succ]
    exact ⟨by rw [run_cons_none _ hs]; exact r, by rw [final_cons, hs]; exact f⟩

/-- Up pressed more often than there are older entries: the presses beyond do nothing -/
theorem run_ups_extra (t : Term) (n extra : Nat) (tail : List Nat)
    (hpa : (final t (List.replicate n keyUp)).pasteActive = false)
    (hnone : nthPrevious (final t (List.replicate n keyUp)).history
      ((final t (List.replicate n keyUp)).historyIndex + 1) = none) :
    run t (List.replicate (n + extra) keyUp ++ tail) = run t (List.replicate n keyUp ++ tail) := by
  obtain ⟨r2, f2⟩ := ups_beyond extra _ hpa hnone
  rw [← List.replicate_append_replicate, List.append_assoc, run_append, run_append (List.replicate extra keyUp), r2,
    f2, List.nil_append, ← run_append]

/-! ## ^D as a byte -/

theorem bytesToKey_ctrlD (r : List Nat) : bytesToKey (4 :: r) false = some (keyCtrlD, r) := by
  simp [bytesToKey, ctrlKey, keyEscape, keyCtrlD, decode1]

/-- ^D on an empty line ends the console: nothing more is handed over, whatever follows -/
theorem sess_ctrlD_empty (F : Nat) (t : Term) (rest : List Nat) (hpa : t.pasteActive = false)
    (hl : t.line = []) (hF : (4 :: rest).length < F) : sessionFrom F t (4 :: rest) = [] := by
  rw [sess_keyLoop F ((4 :: rest).length + 1) t false _ hF (Nat.lt_succ_self _)]
  unfold keyLoop
  rw [hpa, bytesToKey_ctrlD]
  simp [hl, contin, Outcome.stmts]

/-- ^D at the end of a line that is not empty is skipped -/
theorem sess_ctrlD_nonempty (F F' : Nat) (t : Term) (rest : List Nat) (hpa : t.pasteActive = false)
    (hl : t.line ≠ []) (hend : t.line.length ≤ t.pos) (hF : (4 :: rest).length < F) (hF' : rest.length < F') :
    sessionFrom F t (4 :: rest) = sessionFrom F' t rest := by
  have h := sess_key F F' t (4 :: rest) rest keyCtrlD hpa (bytesToKey_ctrlD rest) (by simp [hl]) (by decide)
    (by decide) hF hF'
  rw [step_ctrlD_atEnd t hpa hend] at h
  exact h

end Mkdb.Console
