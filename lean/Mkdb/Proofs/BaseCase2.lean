import Mkdb.Proofs.BaseCase1
import Mkdb.Proofs.ReplayCkpt9
/-!
# The base case, part 3: `CREATE DATABASE ; CREATE TABLE t (a INT)`, computed

From the EMPTY plain database no row statement is accepted, and `Rounds` has no CREATE TABLE
(`specRun_of_empty`).  So that the round theorems have a starting point that is a real database WITH a
table, the database `tableDB` that `CREATE TABLE t (a INT)` leaves when run on `newDB` is computed
(`create_table_eq`, kernel evaluation of `evalStmt`), and `Rel` and `Ckpt` are proved of it with the
plain database `sdbA0` (= the one empty table `t (a INT)`).  `tableDB` is what the hand-written store
`st1` of the examples stands for; they differ (see the end of `BaseCase`).

`real_rounds_example`: `INSERT INTO t VALUES (5), (6)`; crash; recovery; `UPDATE t SET a = 7 WHERE a =
5`; crash; recovery - from `tableDB`, i.e. a history all of whose states are produced by the model
from `CREATE DATABASE` on.
-/
set_option autoImplicit false
namespace Mkdb.Store
open Mkdb.Page Mkdb.Tuple Mkdb.Generated Mkdb.Tree Mkdb.Engine

/-! ### the store -/

/-- the page table after `CREATE TABLE t (a INT)`: row 9 names `t`, root 12288 -/
def ptLeafT : Leaf := ⟨4096, 8, false, false, 0, 0,
  ptLeafNew.cells ++ [⟨9, false, [0, 1, 0, 0, 0, 116, 0, 0, 48, 0, 0, 0, 0, 0, 0]⟩]⟩

/-- `sys_schema` after `CREATE TABLE t (a INT)`: row 10 is the column `a INT` of `t` (the bytes are
`schRow`, the row of the hand-written `schLeaf`) -/
def schLeafT : Leaf := ⟨8192, 9, false, false, 0, 0, schLeafNew.cells ++ [⟨10, false, schRow⟩]⟩

/-- the empty root leaf of `t` -/
def tLeafT : Leaf := ⟨12288, 0, false, false, 0, 0, []⟩

def hdrT : Header := { lastKey := 10, ptRoot := 4096, nextFree := 16384, nextLSN := 10 }

/-- **The store `CREATE TABLE t (a INT)` leaves** on the new database -/
def tableStore : Store :=
  { hdr := hdrT,
    mem := [(4096, ⟨.leaf ptLeafT, false⟩), (12288, ⟨.leaf tLeafT, false⟩), (8192, ⟨.leaf schLeafT, false⟩)],
    disk := [(4096, .leaf ptLeafT), (8192, .leaf schLeafT), (12288, .leaf tLeafT)],
    dhdr := hdrT, ghost := 0 }

/-- **The database `CREATE DATABASE ; CREATE TABLE t (a INT)` leaves** (the log is empty: CREATE TABLE
writes no log record, it flushes) -/
def tableDB : Engine.DB := { store := tableStore, wal := [] }

/-- a statement succeeded with this database -/
def okWithDB (r : Engine.Res Unit) (db : Engine.DB) : Bool :=
  match r with
  | .ok _ db' => storeFieldsEq db'.store db.store && db'.wal == db.wal
  | _ => false

theorem eq_of_okWithDB {r : Engine.Res Unit} {db : Engine.DB} (h : okWithDB r db = true) : r = .ok () db := by
  unfold okWithDB at h
  split at h
  · rename_i u db' 
    simp only [Bool.and_eq_true, beq_iff_eq] at h
    cases db'; cases db
    simp only at h
    rw [eq_of_storeFieldsEq h.1, h.2]
  · cases h

/-- **`CREATE TABLE t (a INT)` on the new database, computed** -/
theorem create_table_eq : evalStmt newDB [] (.createTable tname acols) = .ok () tableDB :=
  eq_of_okWithDB (by decide +kernel)

/-! ### the invariants -/

def ptT : Levels := ⟨[(ptLeafT, false)], []⟩
def schT : Levels := ⟨[(schLeafT, false)], []⟩
def tT : Levels := ⟨[(tLeafT, false)], []⟩

/-- the tree of `t` is the empty tree of the hand-written examples, flushed -/
theorem tT_eq : tT = clean t0 := by decide

/-- the page table has the entries the hand-written `pt0` has (`pt0_entries`) -/
theorem ptT_entries : ptEntries ptT = [(sysPages, 4096), (sysSchema, 8192), (tname, 12288)] := by decide +kernel

theorem ptT_inv : Inv ptT 16384 := by
  refine ⟨?_, ?_, ?_, ?_, ?_, ?_, ?_⟩
  · refine ⟨?_, ?_⟩
    · intro p hp; simp [ptT] at hp; subst hp; simp [ptLeafT, ptLeafNew, c_maxLeafNodeCells]
    · intro lvl hl; simp [ptT] at hl
  · simp [KeysAsc, keys, cells, ptT, ptLeafT, ptLeafNew]
  · intro h2; simp [ptT] at h2
  · simp [ChainOK, chainFrom, ptT, ptLeafT]
  · simp [LinkOK, linked, ptT]
  · simp [SepsOK, sepsAll, ptT]
  · simp [OffsOK, offs, flatten, ptT, ptLeafT]

theorem schT_inv : Inv schT 16384 := by
  refine ⟨?_, ?_, ?_, ?_, ?_, ?_, ?_⟩
  · refine ⟨?_, ?_⟩
    · intro p hp; simp [schT] at hp; subst hp; simp [schLeafT, schLeafNew, c_maxLeafNodeCells]
    · intro lvl hl; simp [schT] at hl
  · simp [KeysAsc, keys, cells, schT, schLeafT, schLeafNew]
  · intro h2; simp [schT] at h2
  · simp [ChainOK, chainFrom, schT, schLeafT]
  · simp [LinkOK, linked, schT]
  · simp [SepsOK, sepsAll, schT]
  · simp [OffsOK, offs, flatten, schT, schLeafT]

theorem tT_inv : Inv tT 16384 := by
  refine ⟨?_, ?_, ?_, ?_, ?_, ?_, ?_⟩
  · refine ⟨?_, ?_⟩
    · intro p hp; simp [tT] at hp; subst hp; simp [tLeafT, c_maxLeafNodeCells]
    · intro lvl hl; simp [tT] at hl
  · simp [KeysAsc, keys, cells, tT, tLeafT]
  · intro h2; simp [tT] at h2
  · simp [ChainOK, chainFrom, tT, tLeafT]
  · simp [LinkOK, linked, tT]
  · simp [SepsOK, sepsAll, tT]
  · simp [OffsOK, offs, flatten, tT, tLeafT]

/-- **`Cat`** for the database with the table `t` -/
theorem cat_tableDB : Cat tableDB.store ptT schT [(tname, tT)] := by
  refine ⟨?_, ?_, rfl, ?_, ?_, ?_, ?_, ?_, ?_, ?_, ?_⟩
  · intro x hx
    simp only [catTrees, List.map_cons, List.map_nil, List.mem_cons, List.not_mem_nil, or_false] at hx
    rcases hx with rfl | rfl | rfl
    · refine ⟨?_, ptT_inv, by decide, by decide, ?_⟩
      · intro e he; simp [flatten, ptT] at he; subst he; rfl
      · intro a ha; simp [keys, cells, ptT, ptLeafT, ptLeafNew] at ha; rcases ha with rfl | rfl | rfl <;> decide
    · refine ⟨?_, schT_inv, by decide, by decide, ?_⟩
      · intro e he; simp [flatten, schT] at he; subst he; rfl
      · intro a ha; simp [keys, cells, schT, schLeafT, schLeafNew] at ha
        rcases ha with rfl | rfl | rfl | rfl | rfl | rfl | rfl <;> decide
    · refine ⟨?_, tT_inv, by decide, by decide, ?_⟩
      · intro e he; simp [flatten, tT] at he; subst he; rfl
      · intro a ha; simp [keys, cells, tT, tLeafT] at ha
  · simp [catTrees, offs, flatten, ptT, schT, tT, ptLeafT, schLeafT, tLeafT]
  · decide +kernel
  · rw [ptT_entries]; decide +kernel
  · rw [ptT_entries]; simp [schT, schLeafT, rootOff]
  · intro e he; simp at he; subst he; rw [ptT_entries]; simp [tT, tLeafT, rootOff]
  · intro e he; rw [ptT_entries] at he; simp at he
    rcases he with rfl | rfl | rfl <;> simp
  · decide
  · rw [sysPages_eq, sysSchema_eq]; decide
  · intro e he; simp at he; subst he; decide

/-- `sys_schema` spells the column list `a INT` for `t` -/
theorem schT_t : schemaOf schT tname = some schemaA := by decide +kernel

/-- **`Abs`**: the database abstracts to the plain database with the one empty table `t (a INT)` -/
theorem abs_tableDB : Abs tableDB.store ptT schT [(tname, tT)] sdbA0 :=
  ⟨cat_tableDB, .cons ⟨schemaA, schT_t, (by simp [schemaA]), (by intro c hc; cases hc), rfl⟩ .nil⟩

/-- the seven rows of `sys_schema`, decoded -/
def schRowsT : List Vals :=
  schRowsNew ++ [[("field_length", .int 0), ("field_type", .int 0), ("field_name", .str [97]), ("table_name", .str [116])]]

theorem schT_rows : mapO (fun c : LeafCell => decRow schemaTableSchema c.val) (live schT) = some schRowsT := by
  decide +kernel

theorem schRowsT_names : ∀ m ∈ schRowsT, get m "table_name" = .str sysPages ∨ get m "table_name" = .str sysSchema ∨
    get m "table_name" = .str tname := by decide +kernel

theorem noStale_tableDB : NoStale schT [(tname, tT)] := by
  intro n hn h1 h2
  have h3 : n ≠ tname := by simpa using hn
  unfold schemaOf
  rw [schT_rows]
  have hf : (schRowsT.filter fun m => get m "table_name" == Val.str n) = [] := by
    rw [List.filter_eq_nil_iff]
    intro m hm
    rcases schRowsT_names m hm with h | h | h <;> rw [h, val_str_beq] <;> simp only [decide_eq_true_eq]
    · exact fun e => h1 e.symm
    · exact fun e => h2 e.symm
    · exact fun e => h3 e.symm
  simp only [hf]
  rfl

theorem memFiled_tableDB : MemFiled tableDB.store := by
  intro p hp
  simp only [tableDB, tableStore, List.mem_cons, List.not_mem_nil, or_false] at hp
  rcases hp with rfl | rfl | rfl <;> rfl

/-- **`Rel`** for `CREATE DATABASE ; CREATE TABLE t (a INT)` -/
theorem rel_tableDB : Rel tableDB ptT schT [(tname, tT)] sdbA0 :=
  ⟨abs_tableDB.toV, noStale_tableDB, memFiled_tableDB⟩

theorem ptT_self : PtSelf ptT := by
  intro off hm
  rw [ptT_entries] at hm
  simp only [List.mem_cons, Prod.mk.injEq, List.not_mem_nil, or_false] at hm
  rcases hm with ⟨_, rfl⟩ | ⟨h, _⟩ | ⟨h, _⟩
  · decide
  · rw [sysPages_eq, sysSchema_eq] at h
    exact absurd h (by decide)
  · rw [sysPages_eq] at h
    exact absurd h (by decide)

theorem freshM_tableDB : FreshM tableDB.store [(tname, tT)] where
  lsn := fun e he x hx => by
    simp only [List.mem_singleton] at he; subst he
    simp [flatten, tT] at hx; subst hx; decide
  nf := by decide
  pos := fun e he o ho => by
    simp only [List.mem_singleton] at he; subst he
    simp [offs, flatten, tT, tLeafT] at ho; subst ho; decide

theorem onDisk_tableDB : OnDisk tableDB.store ptT schT [(tname, tT)] := by
  intro x hx e he
  simp only [catTrees, List.map_cons, List.map_nil, List.mem_cons, List.not_mem_nil, or_false] at hx
  rcases hx with rfl | rfl | rfl
  · simp [flatten, ptT] at he; subst he; exact ⟨rfl, rfl⟩
  · simp [flatten, schT] at he; subst he; exact ⟨rfl, rfl⟩
  · simp [flatten, tT] at he; subst he; exact ⟨rfl, rfl⟩

/-- **`Ckpt`**: `CREATE TABLE` ends with a flush, so the database it leaves is checkpointed -/
theorem ckpt_tableDB : Ckpt schT tableDB sdbA0 ptT [(tname, tT)] where
  abs := abs_tableDB.toV
  self := ptT_self
  fresh := freshM_tableDB
  filed := memFiled_tableDB
  log := fun r hr => by cases hr
  lsn := fun r hr => by cases hr
  keys := fun r hr => by cases hr
  dhdr := rfl
  disk := onDisk_tableDB

/-- **Rounds from `CREATE DATABASE ; CREATE TABLE t (a INT)`** -/
theorem from_create_table_rounds {db' : Engine.DB} {sdb' : Spec.SDB}
    (hist : Rounds schT tableDB sdbA0 db' sdb') : ∃ pt' tbls', Ckpt schT db' sdb' pt' tbls' :=
  rounds_ckpt hist ckpt_tableDB

/-! ### `tableDB` and the hand-written `st1` -/

/-- `st1` is not `tableDB`: same page-table entries, same column list for `t`, same allocation
frontier - but other row ids and LSNs (`lastKey` 4 / 10, `nextLSN` 7 / 10), nothing in the data file,
and (`handwritten_sch_omits_catalog`) no description of the catalog tables in `sys_schema` -/
theorem tableDB_vs_st1 :
    tableDB.store ≠ st1 ∧ ptEntries ptT = ptEntries pt0 ∧ schemaOf schT tname = schemaOf sch1 tname ∧
    tableDB.store.hdr = ⟨10, 4096, 16384, 10⟩ ∧ st1.hdr = ⟨4, 4096, 16384, 7⟩ ∧
    tableDB.store.disk.length = 3 ∧ st1.disk = [] ∧
    schemaOf schT sysPages = some pageTableSchema ∧ schemaOf schT sysSchema = some schemaTableSchema := by
  refine ⟨?_, by rw [ptT_entries, pt0_entries], by rw [schT_t, sch1_t], rfl, rfl, rfl, rfl, ?_⟩
  · intro h
    have := congrArg (fun s => s.hdr.lastKey) h
    revert this
    decide
  · decide +kernel

/-! ### a history of rounds all of whose states the model produced -/

/-- the table after the first inserted row … -/
def tT1 : Levels := ⟨[(⟨12288, 10, false, false, 0, 0, [⟨11, false, [0, 5, 0, 0, 0]⟩]⟩, true)], []⟩
/-- … and after the second -/
def tT2 : Levels :=
  ⟨[(⟨12288, 11, false, false, 0, 0, [⟨11, false, [0, 5, 0, 0, 0]⟩, ⟨12, false, [0, 6, 0, 0, 0]⟩]⟩, true)], []⟩

/-- the side conditions of `INSERT INTO t VALUES (5), (6)` hold on `tableDB`: row ids 11 and 12, LSNs
10 and 11 -/
theorem runT : InsRunOK schemaA ([].map Engine.bytesToName) tT 10 10 16384 [[.int 5], [.int 6]] := by
  intro buf t' nf' he hi
  have e1 : encodeTuple schemaA ((colsOf schemaA ([].map Engine.bytesToName)).zip [Val.int 5]).reverse =
      .ok [0, 5, 0, 0, 0] := rfl
  rw [e1] at he
  cases he
  have i1 : insertAppend tT (10 + 1) 10 [0, 5, 0, 0, 0] 16384 = .ok (tT1, 16384) := rfl
  rw [i1] at hi
  cases hi
  refine ⟨by decide, by decide, by decide, ?_⟩
  show InsRunOK schemaA ([].map Engine.bytesToName) tT1 11 11 16384 [[.int 6]]
  intro buf t' nf' he hi
  have e2 : encodeTuple schemaA ((colsOf schemaA ([].map Engine.bytesToName)).zip [Val.int 6]).reverse =
      .ok [0, 6, 0, 0, 0] := rfl
  rw [e2] at he
  cases he
  have i2 : insertAppend tT1 (11 + 1) 11 [0, 6, 0, 0, 0] 16384 = .ok (tT2, 16384) := rfl
  rw [i2] at hi
  cases hi
  exact ⟨by decide, by decide, by decide, trivial⟩

/-- **A history of rounds from `CREATE DATABASE` on.**  `CREATE DATABASE` (`newDB`);
`CREATE TABLE t (a INT)` (`tableDB`); `INSERT INTO t VALUES (5), (6)`; crash; recovery;
`UPDATE t SET a = 7 WHERE a = 5`; crash; recovery.  Every state is the output of the model on the
state before; both recoveries succeed; the final database is checkpointed for the plain database with
the rows `(7)`, `(6)`; the four steps after CREATE TABLE form a `Rounds` history. -/
theorem real_rounds_example : ∃ db1 dbR1 db2 dbR2 pt2 tbls2,
    evalStmt newDB [] (.createTable tname acols) = .ok () tableDB ∧
    SpecRun schT tableDB sdbA0 [.insert tname [] [[.int 5], [.int 6]]] db1 sdbA1 ∧
    Engine.recover db1 [] [] = .ok dbR1 ∧ dbR1.wal = db1.wal ∧
    SpecRun schT dbR1 sdbA1 [.update tname [([97], .lit (.int 7))] (some (condEq 5))] db2 sdbA2 ∧
    Engine.recover db2 [] [] = .ok dbR2 ∧ dbR2.wal = db2.wal ∧
    Ckpt schT dbR2 sdbA2 pt2 tbls2 ∧ Rounds schT tableDB sdbA0 dbR2 sdbA2 := by
  have hk0 := ckpt_tableDB
  have hmem : (tname, tT) ∈ [(tname, tT)] := List.mem_singleton.mpr rfl
  -- round 1
  obtain ⟨db1, _, _, _, e1, _⟩ := evalInsert_refines_specV tableDB ptT schT [(tname, tT)] sdbA0 sdbA1 hk0.abs tname tT
    hmem schemaA schT_t [] [[.int 5], [.int 6]] valid56 specA1 runT
  have run1 : SpecRun schT tableDB sdbA0 [.insert tname [] [[.int 5], [.int 6]]] db1 sdbA1 :=
    .insert tname [] [[.int 5], [.int 6]] valid56 specA1
      (by
        intro pt tbls t schema hA ht hs
        obtain ⟨_, habs, _⟩ := hA
        have ht0 : t = tT := habs.cat.tree_unique cat_tableDB ht hmem
        subst ht0
        rw [schT_t] at hs
        simp only [Option.some.injEq] at hs
        subst hs
        exact runT)
      e1 (.nil db1 sdbA1)
  obtain ⟨dbR1, pt1, tbls1, er1, hw1, hk1⟩ := hk0.recover_round run1 [] []
  -- round 2
  have hvalid : ∀ p ∈ [(([97] : Bytes), Sql.VExpr.lit (.int 7))], ∀ l, p.2 = .lit l →
      ValidVal (Engine.litToVal l) := by
    intro p hp l hl
    simp only [List.mem_singleton] at hp
    subst hp
    simp only [Sql.VExpr.lit.injEq] at hl
    subst hl
    exact ⟨by decide, by decide⟩
  obtain ⟨db2, _, _, e2, _⟩ := evalUpdate_refines_specV dbR1 pt1 schT tbls1 sdbA1 sdbA2 hk1.abs tname
    [([97], .lit (.int 7))] (some (condEq 5)) hvalid
    (by
      intro p hp
      simp only [List.mem_singleton] at hp
      subst hp
      rw [nameStr_a]
      exact a_bytes)
    specA2
  have run2 : SpecRun schT dbR1 sdbA1 [.update tname [([97], .lit (.int 7))] (some (condEq 5))] db2 sdbA2 :=
    .update tname [([97], .lit (.int 7))] (some (condEq 5)) hvalid specA2 e2 (.nil db2 sdbA2)
  obtain ⟨dbR2, pt2, tbls2, er2, hw2, hk2⟩ := hk1.recover_round run2 [] []
  exact ⟨db1, dbR1, db2, dbR2, pt2, tbls2, create_table_eq, run1, er1, hw1, run2, er2, hw2, hk2,
    .crash (.crash .nil run1 er1) run2 er2⟩

end Mkdb.Store
