import Mkdb.Proofs.SpecRefineB3
/-!
End-to-end refinement, part B4: one theorem per outcome over `Sql.Stmt`.

* `KeepsFiled.fetchTable`, `.markDeleted`, `.update`; `evalInsert_filed`, `evalDelete_filed`,
  `evalUpdate_filed`, `evalCreateTable_filed`: the evaluators keep every cached page filed under its own
  offset (`MemFiled`, which CREATE TABLE's flush needs).
* `evalStmt`: the dispatcher over the four DML / DDL statement kinds (everything else changes nothing).
* `Rel db pt sch tbls sdb`: the relation all statements preserve: `AbsV` + `NoStale` + `MemFiled`.
* `StmtRoom`: the per-statement side conditions (values a Go program can hold, `InsRunOK`, the room
  conditions of CREATE TABLE, SET column names that are valid UTF-8).
* `evalStmt_refines_spec`: `specStmt sdb st = some sdb'` → `evalStmt … = .ok () db'`, `Rel` again.
* `StmtRefusal`, `evalStmt_refused_spec`: the refusals before anything changed: `specStmt sdb st = none`,
  `evalStmt … = .err e db'`, same log, `Rel` with the SAME catalog and spec database.
* `evalStmt_total`: never `.panic` / `.unmodelled` / `.fuel`.
-/
set_option autoImplicit false
namespace Mkdb.Store
open Mkdb.Page Mkdb.Tuple Mkdb.Generated Mkdb.Tree

/-! ### the evaluators keep the cache filed -/

theorem KeepsFiled.findLeaf : ∀ (fuel off key : Nat), KeepsFiled (findLeaf fuel off key)
  | 0, _, _ => KeepsFiled.outOfFuel
  | fuel+1, off, key => by
    unfold Store.findLeaf
    refine (KeepsFiled.fetch _).bind fun pg => ?_
    cases pg with
    | leaf l => exact KeepsFiled.pure _
    | internal n => exact KeepsFiled.findLeaf fuel _ key

theorem KeepsFiled.fetchTable (table : Bytes) : KeepsFiled (fetchTable table) := by
  rw [fetchTable_eq]
  refine (KeepsFiled.relationOffset _).bind fun off => (KeepsFiled.relationSchema _).bind fun schema =>
    (KeepsFiled.fetch _).bind fun _ => (KeepsFiled.scanRight _).bind fun cells =>
    (KeepsFiled.mapS (fun c => ?_) _).bind fun _ => KeepsFiled.pure _
  unfold fetchRow
  exact (KeepsFiled.decodeRow _ _).bind fun _ => KeepsFiled.pure _

theorem KeepsFiled.markDeleted (table : Bytes) (rowId : Nat) : KeepsFiled (markDeleted table rowId) := by
  rw [markDeleted_eq]
  refine (KeepsFiled.relationOffset _).bind fun off => (KeepsFiled.fetch _).bind fun _ =>
    (KeepsFiled.findLeaf _ _ _).bind fun l => ?_
  cases l.cells.find? (fun c => c.key == rowId) with
  | none => exact KeepsFiled.throw _
  | some c =>
    simp only
    refine KeepsFiled.ite (KeepsFiled.throw _) (KeepsFiled.getS.bind fun s => (KeepsFiled.fetch _).bind fun pg => ?_)
    cases pg with
    | internal n => exact KeepsFiled.panicS _
    | leaf l1 =>
      refine (KeepsFiled.putNode _ _).bind fun _ => (KeepsFiled.markDirty _ _).bind fun _ =>
        KeepsFiled.bind ?_ fun _ => ?_
      · exact KeepsFiled.modifyS fun _ => rfl
      · exact KeepsFiled.pure _

theorem KeepsFiled.update (table : Bytes) (rowId : Nat) (cols : List String) (src : List Val) :
    KeepsFiled (update table rowId cols src) := by
  rw [update_eq_stmt]
  refine (KeepsFiled.relationOffset _).bind fun off => (KeepsFiled.fetch _).bind fun _ =>
    (KeepsFiled.relationSchema _).bind fun schema => ?_
  cases checkColumns schema cols with
  | some e => exact KeepsFiled.throw _
  | none =>
  refine (KeepsFiled.scanRight _).bind fun cells =>
    (KeepsFiled.mapS (fun c => ?_) _).bind fun _ => KeepsFiled.pure _
  unfold updBody
  refine KeepsFiled.ite (KeepsFiled.pure _) ((KeepsFiled.decodeRow _ _).bind fun _ =>
    (KeepsFiled.encodeRow _ _).bind fun _ => KeepsFiled.getS.bind fun _ =>
    (KeepsFiled.updateCellAt _ _ _ _).bind fun _ => KeepsFiled.bind ?_ fun _ => ?_)
  · exact KeepsFiled.modifyS fun _ => rfl
  · exact KeepsFiled.pure _

/-- the store of an `.ok` / `.err` result is filed -/
def ResFiled {α} : Engine.Res α → Prop
  | .ok _ db' => MemFiled db'.store
  | .err _ db' => MemFiled db'.store
  | _ => True

theorem evalInsert_go_filed (db : Engine.DB) (table : Bytes) (cols : List Bytes) :
    ∀ (rows : List (List Val)) (s : Store) (batch : List WalRec) (n : Nat), MemFiled s →
      ResFiled (Engine.evalInsert.go db table cols s batch n rows)
  | [], s, batch, n, hf => hf
  | r :: rest, s, batch, n, hf => by
    have hk := KeepsFiled.insert table (cols.map Engine.bytesToName) r s hf
    simp only [Engine.evalInsert.go]
    cases e : insert table (cols.map Engine.bytesToName) r s with
    | ok logs s' => rw [e] at hk; exact evalInsert_go_filed db table cols rest s' _ _ hk
    | err x s' => rw [e] at hk; exact hk
    | panic p => trivial
    | unmodelled w => trivial
    | fuel => trivial

theorem evalInsert_filed (db : Engine.DB) (table : Bytes) (cols : List Bytes) (rows : List (List Val))
    (hf : MemFiled db.store) : ResFiled (Engine.evalInsert db table cols rows) :=
  evalInsert_go_filed db table cols rows db.store [] 0 hf

theorem evalDelete_go_filed (db : Engine.DB) (table : Bytes) :
    ∀ (ids : List (Nat × List Val)) (s : Store) (batch : List WalRec) (n : Nat), MemFiled s →
      ResFiled (Engine.evalDelete.go db table s batch n ids)
  | [], s, batch, n, hf => hf
  | r :: rest, s, batch, n, hf => by
    have hk := KeepsFiled.markDeleted table r.1 s hf
    simp only [Engine.evalDelete.go]
    cases e : markDeleted table r.1 s with
    | ok logs s' => rw [e] at hk; exact evalDelete_go_filed db table rest s' _ _ hk
    | err x s' => rw [e] at hk; exact hk
    | panic p => trivial
    | unmodelled w => trivial
    | fuel => trivial

theorem evalDelete_filed (db : Engine.DB) (table : Bytes) (w : Option Sql.Cond) (hf : MemFiled db.store) :
    ResFiled (Engine.evalDelete db table w) := by
  have hk := KeepsFiled.fetchTable table db.store hf
  simp only [Engine.evalDelete, Engine.fetchForExec, Engine.liftS]
  cases e : fetchTable table db.store with
  | ok a s' =>
    rw [e] at hk
    simp only
    cases Engine.filterIds w (a.2.map fun fd => ⟨[], fd.name.toUTF8.toList⟩) a.1 with
    | ok sel => exact evalDelete_go_filed db table sel s' _ _ hk
    | err x => exact hk
    | panic p => trivial
  | err x s' => rw [e] at hk; exact hk
  | panic p => trivial
  | unmodelled w => trivial
  | fuel => trivial

theorem evalUpdate_go_filed (db : Engine.DB) (table : Bytes) (cols : List String) (src : List Val) :
    ∀ (ids : List (Nat × List Val)) (s : Store) (batch : List WalRec), MemFiled s →
      ResFiled (Engine.evalUpdate.go db table cols src s batch ids)
  | [], s, batch, hf => hf
  | r :: rest, s, batch, hf => by
    have hk := KeepsFiled.update table r.1 cols src s hf
    simp only [Engine.evalUpdate.go]
    cases e : update table r.1 cols src s with
    | ok logs s' => rw [e] at hk; exact evalUpdate_go_filed db table cols src rest s' _ hk
    | err x s' => rw [e] at hk; exact hk
    | panic p => trivial
    | unmodelled w => trivial
    | fuel => trivial

theorem evalUpdate_filed (db : Engine.DB) (table : Bytes) (sets : List (Bytes × Sql.VExpr)) (w : Option Sql.Cond)
    (hf : MemFiled db.store) : ResFiled (Engine.evalUpdate db table sets w) := by
  by_cases hcol : ∃ p ∈ sets, ∃ c, p.2 = .col c
  · rw [evalUpdate_col db table sets w hcol]; exact hf
  · have hnocol : ∀ p ∈ sets, ∀ c, p.2 ≠ .col c := fun p hp c hpc => hcol ⟨p, hp, c, hpc⟩
    rw [evalUpdate_nocol db table sets w hnocol]
    have hk := KeepsFiled.fetchTable table db.store hf
    simp only [Engine.fetchForExec, Engine.liftS]
    cases e : fetchTable table db.store with
    | ok a s' =>
      rw [e] at hk
      simp only
      cases Engine.checkSetColumns (a.2.map fun fd => ⟨[], fd.name.toUTF8.toList⟩) [] (sets.map (·.1)) with
      | some ec => exact hk
      | none =>
      simp only
      cases Engine.filterIds w (a.2.map fun fd => ⟨[], fd.name.toUTF8.toList⟩) a.1 with
      | ok sel => exact evalUpdate_go_filed db table _ _ sel s' _ hk
      | err x => exact hk
      | panic p => trivial
    | err x s' => rw [e] at hk; exact hk
    | panic p => trivial
    | unmodelled w => trivial
    | fuel => trivial

theorem evalCreateTable_filed (db : Engine.DB) (name : Bytes) (cols : List Sql.ColDef) (order : List Nat)
    (doFlush : Bool) (hf : MemFiled db.store) : ResFiled (Engine.evalCreateTable db name cols order doFlush) := by
  have hk := KeepsFiled.createTable (cols.map Engine.colTypeToField) name order doFlush db.store hf
  simp only [Engine.evalCreateTable, Engine.liftS]
  cases e : createTable (cols.map Engine.colTypeToField) name order doFlush db.store with
  | ok a s' => rw [e] at hk; exact hk
  | err x s' => rw [e] at hk; exact hk
  | panic p => trivial
  | unmodelled w => trivial
  | fuel => trivial

theorem ResFiled.ok {α} {r : Engine.Res α} {a : α} {db' : Engine.DB} (h : ResFiled r) (e : r = .ok a db') :
    MemFiled db'.store := by subst e; exact h

theorem ResFiled.err {α} {r : Engine.Res α} {x : Engine.StmtErr} {db' : Engine.DB} (h : ResFiled r)
    (e : r = .err x db') : MemFiled db'.store := by subst e; exact h

/-! ### the dispatcher -/

/-- forget the row count -/
def voidRes {α} : Engine.Res α → Engine.Res Unit
  | .ok _ db' => .ok () db'
  | .err e db' => .err e db'
  | .panic p => .panic p
  | .unmodelled w => .unmodelled w
  | .fuel => .fuel

/-- the four DML / DDL statement kinds on the model (`order`: the page write order of CREATE TABLE's
flush); SELECT, USE, SHOW DATABASES, CREATE DATABASE change nothing of a database -/
def evalStmt (db : Engine.DB) (order : List Nat) : Sql.Stmt → Engine.Res Unit
  | .createTable n cols => Engine.evalCreateTable db n cols order true
  | .insert t cols rows => voidRes (Engine.evalInsert db t cols (rows.map fun r => r.map Engine.litToVal))
  | .update t sets w => Engine.evalUpdate db t sets w
  | .delete t w => voidRes (Engine.evalDelete db t w)
  | _ => .ok () db

/-- **The relation every statement preserves.** -/
def Rel (db : Engine.DB) (pt sch : Levels) (tbls : List (Bytes × Levels)) (sdb : Spec.SDB) : Prop :=
  AbsV db.store pt sch tbls sdb ∧ NoStale sch tbls ∧ MemFiled db.store

/-- the side conditions of a statement: values a Go program can hold, fuel / size room -/
def StmtRoom (db : Engine.DB) (pt sch : Levels) (tbls : List (Bytes × Levels)) : Sql.Stmt → Prop
  | .createTable n cols =>
    (∀ c ∈ cols, ∀ k, c.ty = .varchar k → -2147483648 ≤ k) ∧
    checkCatalogRows (cols.map Engine.colTypeToField) n = none ∧
    pt.inner.length + 3 ≤ treeFuel ∧ pt.leaves.length + 1 ≤ scanFuel ∧
    sch.inner.length + cols.length + 2 ≤ treeFuel ∧ sch.leaves.length + cols.length ≤ scanFuel ∧
    db.store.hdr.nextFree + 262144 * cols.length + 262144 ≤ 9223372036854775807
  | .insert t cols rows =>
    (∀ r ∈ rows, ∀ l ∈ r, ValidVal (Engine.litToVal l)) ∧
    ∀ tr schema, (t, tr) ∈ tbls → schemaOf sch t = some schema →
      InsRunOK schema (cols.map Engine.bytesToName) tr db.store.hdr.lastKey db.store.hdr.nextLSN
        db.store.hdr.nextFree (rows.map fun r => r.map Engine.litToVal)
  | .update _ sets _ =>
    (∀ p ∈ sets, ∀ l, p.2 = .lit l → ValidVal (Engine.litToVal l)) ∧
    -- the SET column names are valid UTF-8 (the statement's check compares the raw bytes)
    ∀ p ∈ sets, (Spec.nameStr p.1).toUTF8.toList = p.1
  | _ => True

theorem litRows_eq (rows : List (List Sql.Lit)) :
    (rows.map fun r => r.map Spec.litVal) = rows.map fun r => r.map Engine.litToVal := by
  have : Spec.litVal = Engine.litToVal := funext litVal_eq
  rw [this]

theorem litRows_valid (rows : List (List Sql.Lit)) (h : ∀ r ∈ rows, ∀ l ∈ r, ValidVal (Engine.litToVal l)) :
    ∀ r ∈ rows.map (fun r => r.map Engine.litToVal), ∀ v ∈ r, ValidVal v := by
  intro r hr v hv
  obtain ⟨r0, hr0, rfl⟩ := List.mem_map.mp hr
  obtain ⟨l, hl, rfl⟩ := List.mem_map.mp hv
  exact h r0 hr0 l hl

/-- **Every statement the spec accepts runs on the model as the spec says.** -/
theorem evalStmt_refines_spec (db : Engine.DB) (order : List Nat) (pt sch : Levels) (tbls : List (Bytes × Levels))
    (sdb sdb' : Spec.SDB) (h : Rel db pt sch tbls sdb) (st : Sql.Stmt) (hroom : StmtRoom db pt sch tbls st)
    (hspec : Spec.specStmt sdb st = some sdb') :
    ∃ db' pt' sch' tbls', evalStmt db order st = .ok () db' ∧ Rel db' pt' sch' tbls' sdb' := by
  obtain ⟨habs, hns, hmf⟩ := h
  cases st with
  | createTable n cols =>
    obtain ⟨hlo, hchk, hpd, hpl, hsd, hsl, hbig⟩ := hroom
    obtain ⟨db', pt', sch', e, _, habs', hns', hmf', _⟩ := evalCreateTable_refines_specV db pt sch tbls sdb sdb' habs hns
      hmf n cols order hspec hlo hchk hpd hpl hsd hsl hbig
    exact ⟨db', pt', sch', _, e, habs', hns', hmf'⟩
  | insert t cols rows =>
    obtain ⟨hvalid, hrun⟩ := hroom
    simp only [Spec.specStmt] at hspec
    rw [litRows_eq] at hspec
    -- the table is known
    obtain ⟨sdb0, habs0, hv⟩ := habs
    have hfind : ∃ st, Spec.findTable sdb t = some st := by
      unfold Spec.specInsert at hspec
      cases hf : Spec.findTable sdb t with
      | none => rw [hf] at hspec; cases hspec
      | some st => exact ⟨st, rfl⟩
    obtain ⟨st, hfind⟩ := hfind
    obtain ⟨st0, hfind0, _⟩ := findTable_congr_some hv hfind
    obtain ⟨tr, htr⟩ := habs0.tabs.find_some hfind0
    obtain ⟨schema, hsch, _, _⟩ := habs0.tabs.find habs0.cat.tnames htr
    obtain ⟨db', ptF, t', logs, e, _, _, habs', _⟩ := evalInsert_refines_specV db pt sch tbls sdb sdb' ⟨sdb0, habs0, hv⟩
      t tr htr schema hsch cols _ (litRows_valid rows hvalid) hspec (hrun tr schema htr hsch)
    refine ⟨db', ptF, sch, setTable tbls t t', ?_, habs', hns.setTable t t', ?_⟩
    · simp only [evalStmt, e, voidRes]
    · exact (evalInsert_filed db t cols _ hmf).ok e
  | update t sets w =>
    obtain ⟨db', t', logs, e, _, habs', _⟩ := evalUpdate_refines_specV db pt sch tbls sdb sdb' habs t sets w hroom.1
      hroom.2 hspec
    exact ⟨db', pt, sch, setTable tbls t t', e, habs', hns.setTable t t', (evalUpdate_filed db t sets w hmf).ok e⟩
  | delete t w =>
    obtain ⟨n, db', t', logs, e, _, _, habs', _⟩ := evalDelete_refines_specV db pt sch tbls sdb sdb' habs t w hspec
    refine ⟨db', pt, sch, setTable tbls t t', ?_, habs', hns.setTable t t', (evalDelete_filed db t w hmf).ok e⟩
    simp only [evalStmt, e, voidRes]
  | createDatabase n =>
    simp only [Spec.specStmt, Option.some.injEq] at hspec
    subst hspec
    exact ⟨db, pt, sch, tbls, rfl, habs, hns, hmf⟩
  | select s =>
    simp only [Spec.specStmt, Option.some.injEq] at hspec
    subst hspec
    exact ⟨db, pt, sch, tbls, rfl, habs, hns, hmf⟩
  | use d =>
    simp only [Spec.specStmt, Option.some.injEq] at hspec
    subst hspec
    exact ⟨db, pt, sch, tbls, rfl, habs, hns, hmf⟩
  | showDatabases =>
    simp only [Spec.specStmt, Option.some.injEq] at hspec
    subst hspec
    exact ⟨db, pt, sch, tbls, rfl, habs, hns, hmf⟩

/-! ### refusals -/

/-- why a statement is refused before it changed anything -/
inductive StmtRefusal (sdb : Spec.SDB) (pt : Levels) : Sql.Stmt → Prop
  | create (n : Bytes) (cols : List Sql.ColDef) : CreateRefusal sdb pt n cols → StmtRefusal sdb pt (.createTable n cols)
  | insert (t : Bytes) (cols : List Bytes) (r : List Sql.Lit) (rest : List (List Sql.Lit)) :
      ((Spec.findTable sdb t = none ∧ t ≠ sysPages ∧ t ≠ sysSchema) ∨
        ∃ st, Spec.findTable sdb t = some st ∧
          (Spec.rowOf st cols (r.map Engine.litToVal) = none ∨
            Spec.namesOK st (cols.map Spec.nameStr) = false)) →
      StmtRefusal sdb pt (.insert t cols (r :: rest))
  | update (t : Bytes) (sets : List (Bytes × Sql.VExpr)) (w : Option Sql.Cond) :
      UpdRefusal sdb t sets w → StmtRefusal sdb pt (.update t sets w)
  | delete (t : Bytes) (w : Option Sql.Cond) :
      (Spec.findTable sdb t = none → t ≠ sysPages ∧ t ≠ sysSchema) → Spec.specDelete sdb t w = none →
      StmtRefusal sdb pt (.delete t w)

/-- **Every statement refused before it changed anything (C14).**  The spec refuses; the model fails;
the log is the old one; the relation holds with the same catalog trees and the same spec database. -/
theorem evalStmt_refused_spec (db : Engine.DB) (order : List Nat) (pt sch : Levels) (tbls : List (Bytes × Levels))
    (sdb : Spec.SDB) (h : Rel db pt sch tbls sdb) (st : Sql.Stmt) (hbad : StmtRefusal sdb pt st) :
    Spec.specStmt sdb st = none ∧
    ∃ e db', evalStmt db order st = .err e db' ∧ db'.wal = db.wal ∧ Rel db' pt sch tbls sdb := by
  obtain ⟨habs, hns, hmf⟩ := h
  cases hbad with
  | create n cols hc =>
    obtain ⟨h1, e, db', he, _, hw, _, habs'⟩ := evalCreateTable_refused_specV db pt sch tbls sdb habs n cols order true hc
    exact ⟨h1, .store e, db', he, hw, habs', hns, (evalCreateTable_filed db n cols order true hmf).err he⟩
  | insert t cols r rest hc =>
    obtain ⟨h1, e, db', he, _, hw, habs'⟩ := evalInsert_refused_specV db pt sch tbls sdb habs t cols
      (r.map Engine.litToVal) (rest.map fun r => r.map Engine.litToVal) hc
    refine ⟨?_, .store e, db', ?_, hw, habs', hns, (evalInsert_filed db t cols _ hmf).err he⟩
    · simp only [Spec.specStmt]
      rw [litRows_eq]
      exact h1
    · simp only [evalStmt, List.map_cons, he, voidRes]
  | update t sets w hc =>
    obtain ⟨h1, e, db', he, _, hw, _, habs'⟩ := evalUpdate_refused_specV db pt sch tbls sdb habs t sets w hc
    exact ⟨h1, e, db', he, hw, habs', hns, (evalUpdate_filed db t sets w hmf).err he⟩
  | delete t w hsys hnone =>
    obtain ⟨e, db', he, _, _, _, hw, _, habs'⟩ := evalDelete_refused_specV db pt sch tbls sdb habs t w hsys hnone
    refine ⟨hnone, e, db', ?_, hw, habs', hns, (evalDelete_filed db t w hmf).err he⟩
    simp only [evalStmt, he, voidRes]

/-! ### totality -/

theorem Total.void {α} {db : Engine.DB} {r : Engine.Res α} (h : Total db r) : Total db (voidRes r) := by
  rcases h with ⟨a, db', rfl⟩ | ⟨e, db', rfl, hw⟩
  · exact .inl ⟨(), db', rfl⟩
  · exact .inr ⟨e, db', rfl, hw⟩

/-- the names a DML statement may use: a user table, or a name that is not a catalog table -/
def StmtNames (pt : Levels) (tbls : List (Bytes × Levels)) : Sql.Stmt → Prop
  | .createTable n _ => n = sysPages → ∃ off, (sysPages, off) ∈ ptEntries pt
  | .insert t _ _ => t ∉ tbls.map (·.1) → t ≠ sysPages ∧ t ≠ sysSchema
  | .update t _ _ => t ∉ tbls.map (·.1) → t ≠ sysPages ∧ t ≠ sysSchema
  | .delete t _ => t ∉ tbls.map (·.1) → t ≠ sysPages ∧ t ≠ sysSchema
  | _ => True

/-- the room conditions totality needs (for CREATE TABLE: only if the statement gets past the checks) -/
def StmtRoomT (db : Engine.DB) (pt sch : Levels) (tbls : List (Bytes × Levels)) : Sql.Stmt → Prop
  | .createTable _ cols =>
    pt.inner.length + 3 ≤ treeFuel ∧ pt.leaves.length + 1 ≤ scanFuel ∧
    sch.inner.length + cols.length + 2 ≤ treeFuel ∧ sch.leaves.length + cols.length ≤ scanFuel ∧
    db.store.hdr.nextFree + 262144 * cols.length + 262144 ≤ 9223372036854775807
  | .insert t cols rows =>
    (∀ r ∈ rows, ∀ l ∈ r, ValidVal (Engine.litToVal l)) ∧
    ∀ tr schema, (t, tr) ∈ tbls → schemaOf sch t = some schema →
      InsRunOK schema (cols.map Engine.bytesToName) tr db.store.hdr.lastKey db.store.hdr.nextLSN
        db.store.hdr.nextFree (rows.map fun r => r.map Engine.litToVal)
  | _ => True

theorem findTable_none_iff_notin {s : Store} {pt sch : Levels} {tbls : List (Bytes × Levels)} {sdb : Spec.SDB}
    (h : AbsV s pt sch tbls sdb) (n : Bytes) : Spec.findTable sdb n = none ↔ n ∉ tbls.map (·.1) := by
  obtain ⟨sdb0, habs, hv⟩ := h
  rw [← findTable_none_congr hv n]
  constructor
  · exact findTable_none_notin habs.tabs habs.cat.tnames
  · exact habs.tabs.find_none

/-- **No statement can crash the engine** (model level, the four DML / DDL kinds). -/
theorem evalStmt_total (db : Engine.DB) (order : List Nat) (pt sch : Levels) (tbls : List (Bytes × Levels))
    (sdb : Spec.SDB) (h : Rel db pt sch tbls sdb) (st : Sql.Stmt) (hnames : StmtNames pt tbls st)
    (hroom : StmtRoomT db pt sch tbls st) : Total db (evalStmt db order st) := by
  obtain ⟨habs, hns, hmf⟩ := h
  cases st with
  | insert t cols rows =>
    exact (evalInsert_total db pt sch tbls sdb habs t cols _ (litRows_valid rows hroom.1) hnames hroom.2).void
  | update t sets w => exact evalUpdate_total db pt sch tbls sdb habs t sets w hnames
  | delete t w =>
    exact (evalDelete_total db pt sch tbls sdb habs t w
      (fun h0 => hnames ((findTable_none_iff_notin habs t).mp h0))).void
  | createDatabase n => exact .inl ⟨(), db, rfl⟩
  | select s => exact .inl ⟨(), db, rfl⟩
  | use d => exact .inl ⟨(), db, rfl⟩
  | showDatabases => exact .inl ⟨(), db, rfl⟩
  | createTable n cols =>
    obtain ⟨hpd, hpl, hsd, hsl, hbig⟩ := hroom
    by_cases hex : (Spec.findTable sdb n).isSome
    · obtain ⟨_, e, db', he, _, hw, _⟩ := evalCreateTable_refused_specV db pt sch tbls sdb habs n cols order true
        (.exists_ hex)
      exact .inr ⟨.store e, db', he, hw⟩
    · have hfind : Spec.findTable sdb n = none := by
        cases hf : Spec.findTable sdb n with
        | none => rfl
        | some x => rw [hf] at hex; exact absurd rfl hex
      by_cases hs2 : n = sysSchema
      · obtain ⟨_, e, db', he, _, hw, _⟩ := evalCreateTable_refused_specV db pt sch tbls sdb habs n cols order true
          (.sysSchema hs2)
        exact .inr ⟨.store e, db', he, hw⟩
      · by_cases hs1 : n = sysPages
        · obtain ⟨off, hoff⟩ := hnames hs1
          obtain ⟨_, e, db', he, _, hw, _⟩ := evalCreateTable_refused_specV db pt sch tbls sdb habs n cols order true
            (.sysPages off hs1 hoff)
          exact .inr ⟨.store e, db', he, hw⟩
        · cases hfld : checkFieldsFrom [] (cols.map Engine.colTypeToField) with
          | some x =>
            obtain ⟨e, db', he, hw, _⟩ := evalCreateTable_catalog_refused db pt sch tbls sdb habs n cols order true
              hfind hs1 hs2 (.inr (.inl ⟨x, hfld⟩))
            exact .inr ⟨.store e, db', he, hw⟩
          | none =>
            cases hchk : checkCatalogRows (cols.map Engine.colTypeToField) n with
            | some x =>
              obtain ⟨e, db', he, hw, _⟩ := evalCreateTable_catalog_refused db pt sch tbls sdb habs n cols order true
                hfind hs1 hs2 (.inr (.inr ⟨x, hchk⟩))
              exact .inr ⟨.store e, db', he, hw⟩
            | none =>
              -- the statement gets past the checks: it succeeds
              obtain ⟨sdb0, habs0, hv⟩ := habs
              have hn3 : n ∉ tbls.map (·.1) := (findTable_none_iff_notin ⟨sdb0, habs0, hv⟩ n).mp hfind
              obtain ⟨sN, s', pt1, nf1, ptN, schN, _, e2, _⟩ :=
                createTable_cat habs0.cat hmf (cols.map Engine.colTypeToField) n order hs1 hs2 hn3 hfld hchk hpd hpl
                  (by rw [List.length_map]; exact hsd) (by rw [List.length_map]; exact hsl)
                  (by rw [List.length_map]; exact hbig)
              refine .inl ⟨(), { db with store := s' }, ?_⟩
              simp only [evalStmt, Engine.evalCreateTable, Engine.liftS, e2]

end Mkdb.Store
