import Mkdb.Proofs.CrashPrefix3
/-!
Crash while a statement appends its records to the log, part 4: **DELETE of the engine.**

Every row of a DELETE logs exactly one record, so every cut is a row boundary: the first `k` records
replayed give the table with the first `k` selected rows removed.

* `evalDelete_go_append`: the loop over `A ++ B` is the loop over `A`, then the loop over `B`.
* `deleteFirst`, `rows_deleteFirst`: the rows after the first `n` selected ones were removed.
* `evalDelete_cut`: the statement.
-/
set_option autoImplicit false
namespace Mkdb.Store
open Mkdb.Page Mkdb.Tuple Mkdb.Generated Mkdb.Tree

/-! ### the loop over a prefix -/

/-- the loop of `evalDelete` through `A`, whatever follows: its log extends the batch, and the loop
over `A ++ B` continues over `B` from where the loop over `A` ended -/
theorem evalDelete_go_append (db : Engine.DB) (table : Bytes) :
    ∀ (A : List (Nat × List Val)) (s : Store) (batch : List WalRec) (n m : Nat) (sJ : Store) (w : List WalRec),
      Engine.evalDelete.go db table s batch n A = .ok m { store := sJ, wal := w } →
      ∃ lJ, w = db.wal ++ (batch ++ lJ) ∧ ∀ B, Engine.evalDelete.go db table s batch n (A ++ B) =
        Engine.evalDelete.go db table sJ (batch ++ lJ) m B
  | [], s, batch, n, m, sJ, w, h => by
    simp only [Engine.evalDelete.go, Engine.Res.ok.injEq, Engine.DB.mk.injEq] at h
    obtain ⟨rfl, rfl, rfl⟩ := h
    exact ⟨[], by rw [List.append_nil], fun B => by rw [List.nil_append, List.append_nil]⟩
  | r :: A, s, batch, n, m, sJ, w, h => by
    simp only [Engine.evalDelete.go] at h
    cases hmd : markDeleted table r.1 s with
    | ok logs s1 =>
      rw [hmd] at h
      obtain ⟨lJ, hw, hB⟩ := evalDelete_go_append db table A s1 (batch ++ logs) (n + 1) m sJ w h
      refine ⟨logs ++ lJ, by rw [hw, List.append_assoc], fun B => ?_⟩
      simp only [List.cons_append, Engine.evalDelete.go, hmd]
      rw [hB B, List.append_assoc]
    | err e s1 => rw [hmd] at h; cases h
    | panic p => rw [hmd] at h; cases h
    | unmodelled u => rw [hmd] at h; cases h
    | fuel => rw [hmd] at h; cases h

/-! ### the rows after the first `n` selected ones were removed -/

/-- the rows of a spec table after the first `n` selected rows were removed (the local `goDel` of
`Spec.rowPrefixStates`, on rows instead of values) -/
def deleteFirst : Nat → List (Spec.SRow × Bool) → List Spec.SRow
  | _, [] => []
  | n, (r, s) :: rest =>
    if s && decide (n > 0) then deleteFirst (n - 1) rest else r :: deleteFirst n rest

theorem rows_deleteFirst : ∀ (rows : List (Nat × List Val)) (sel : List Bool) (n : Nat),
    sel.length = rows.length → (rows.map (·.1)).Nodup →
    (rows.filter fun r => !(((selRows rows sel).take n).map (·.1)).contains r.1).map mkRow =
      deleteFirst n ((rows.map mkRow).zip sel)
  | [], _, _, _, _ => by simp [deleteFirst]
  | _ :: _, [], _, hl, _ => by simp at hl
  | r :: rows, b :: sel, n, hl, hnd => by
    simp only [List.map_cons, List.nodup_cons] at hnd
    have hl' : sel.length = rows.length := by simpa using hl
    rw [selRows_cons, List.map_cons, List.zip_cons_cons]
    cases b with
    | false =>
      have hnotK : (((selRows rows sel).take n).map (·.1)).contains r.1 = false := by
        apply Bool.eq_false_iff.mpr
        intro hc
        rw [List.contains_iff_mem] at hc
        exact hnd.1 (selRows_keys_sub rows sel _ (((List.take_sublist n _).map _).subset hc))
      simp only [Bool.false_eq_true, if_false, List.filter_cons, hnotK, Bool.not_false, if_true, List.map_cons,
        deleteFirst, Bool.false_and]
      rw [rows_deleteFirst rows sel n hl' hnd.2]
    | true =>
      cases n with
      | zero =>
        simp only [if_true, List.take_zero, List.map_nil, List.contains_nil, Bool.not_false, List.filter_cons,
          List.map_cons, deleteFirst, Nat.lt_irrefl, decide_false, Bool.and_false, Bool.false_eq_true, if_false]
        have ih := rows_deleteFirst rows sel 0 hl' hnd.2
        simp only [List.take_zero, List.map_nil, List.contains_nil, Bool.not_false] at ih
        rw [ih]
      | succ n' =>
        have hcongr : (rows.filter fun x => !((r.1 :: ((selRows rows sel).take n').map (·.1)).contains x.1)) =
            rows.filter fun x => !((((selRows rows sel).take n').map (·.1)).contains x.1) := by
          apply List.filter_congr
          intro x hx
          have hne : (x.1 == r.1) = false := by
            apply beq_false_of_ne
            intro he
            exact hnd.1 (he ▸ List.mem_map.mpr ⟨x, hx, rfl⟩)
          simp only [List.contains_cons, hne, Bool.false_or]
        simp only [if_true, List.take_succ_cons, List.map_cons, List.filter_cons, List.contains_cons, beq_self_eq_true,
          Bool.true_or, Bool.not_true, Bool.false_eq_true, if_false, deleteFirst, Nat.zero_lt_succ, decide_true,
          Bool.and_self, Nat.add_one_sub_one]
        have ih := rows_deleteFirst rows sel n' hl' hnd.2
        rw [← ih]
        simp only [List.contains_cons] at hcongr
        rw [hcongr]

/-! ### the statement -/

/-- **DELETE of the engine, its log cut anywhere and replayed.**  The database `db` abstracts to the
plain-model database `sdb`; `r` is a store with the same catalog description as `db.store`, same
frontier and row-id counter.  The plain model accepts the statement (table `st`, selection `sel`).
Then the engine runs it; it logs one record per selected row; and for EVERY `k`, with
`j = min k logs.length`: replaying the first `k` records of `logs` on `r` ends without error in a store
`rK`, and there is a live run of `j` row statements from `db.store` to a store `sK` - the store of the
engine's loop after the first `j` selected rows - whose log is exactly `logs.take k`, such that `sK`
and `rK` both abstract to `sdb` with the first `j` selected rows of the table removed, with the same
page table and the same trees, page for page; frontier and row-id counter are those before the
statement. -/
theorem evalDelete_cut (db : Engine.DB) (r : Store) (pt sch : Levels) (tbls : List (Bytes × Levels))
    (sdb sdb' : Spec.SDB) (h : Abs db.store pt sch tbls sdb) (hr : Cat r pt sch tbls) (hself : PtSelf pt)
    (hf : FreshM db.store tbls) (e1 : r.hdr.nextFree = db.store.hdr.nextFree)
    (e2 : r.hdr.lastKey = db.store.hdr.lastKey) (e3 : r.hdr.nextLSN ≤ db.store.hdr.nextLSN)
    (table : Bytes) (w : Option Sql.Cond) (hspec : Spec.specDelete sdb table w = some sdb') :
    ∃ n dbC logs st sel, Engine.evalDelete db table w = .ok n dbC ∧ dbC.wal = db.wal ++ logs ∧
      Spec.findTable sdb table = some st ∧ Spec.selects st w = some sel ∧
      logs.length = (sel.filter id).length ∧
      ∀ k, ∃ sK ptK tK rK stmts,
        LiveRunM sch db.store tbls stmts sK (setTable tbls table tK) (logs.take k) ∧
        stmts.length = min k logs.length ∧
        Engine.replayAll (logs.take k) r = (rK, none, false) ∧
        Abs sK ptK sch (setTable tbls table tK)
          (sdb.map (updRows table fun rs => deleteFirst (min k logs.length) (rs.zip sel))) ∧
        Abs rK ptK sch (setTable tbls table tK)
          (sdb.map (updRows table fun rs => deleteFirst (min k logs.length) (rs.zip sel))) ∧
        (∀ x ∈ catTrees ptK sch (setTable tbls table tK), ∀ o ∈ offs x, view rK o = view sK o) ∧
        rK.hdr.nextFree = sK.hdr.nextFree ∧ rK.hdr.lastKey = sK.hdr.lastKey ∧
        rK.hdr.nextLSN ≤ sK.hdr.nextLSN ∧
        sK.hdr.nextFree = db.store.hdr.nextFree ∧ sK.hdr.lastKey = db.store.hdr.lastKey := by
  unfold Spec.specDelete at hspec
  cases hfind : Spec.findTable sdb table with
  | none => rw [hfind] at hspec; cases hspec
  | some st =>
    rw [hfind] at hspec
    simp only [Option.bind_eq_bind, Option.bind_some] at hspec
    cases hsel : Spec.selects st w with
    | none => rw [hsel] at hspec; cases hspec
    | some sel =>
      obtain ⟨t, ht⟩ := h.tabs.find_some hfind
      obtain ⟨schema, hsch, hdec, hfd⟩ := h.tabs.find h.cat.tnames ht
      rw [hfind] at hfd
      simp only [Option.some.injEq] at hfd
      subst hfd
      obtain ⟨s1, efetch, hs1, hc1⟩ := fetchTable_cat h.cat table t ht schema hsch hdec
      obtain ⟨efilter, hsl⟩ := filterIds_selects table schema (rowsOf schema (live t)) w sel hsel
      obtain ⟨_, hIt, _, _, _⟩ := h.cat.tree t (Cat.tb_mem ht)
      have hnd : ((rowsOf schema (live t)).map (·.1)).Nodup := by
        rw [rowsOf_keys schema (live t) hdec]
        exact (live_keys_asc hIt.asc).imp (fun hlt => Nat.ne_of_lt hlt)
      have hnd' : ((selRows (rowsOf schema (live t)) sel).map (·.1)).Nodup :=
        hnd.sublist ((selRows_sublist _ sel).map _)
      have hmemsel : ∀ q ∈ selRows (rowsOf schema (live t)) sel, ∃ c ∈ live t, c.key = q.1 :=
        fun q hq => mem_rowsOf ((selRows_sublist _ sel).subset hq)
      -- the whole statement
      obtain ⟨sC, tC, logs, ego, _, _, _, hlenC, _, _⟩ := evalDelete_go_live db table pt sch
        (selRows (rowsOf schema (live t)) sel) s1 tbls t [] 0 hc1 ht hnd' hmemsel
      have hf1 : FreshM s1 tbls :=
        hf.of_hdr (by rw [hs1.2]; exact Nat.le_refl _) (by rw [hs1.2]; exact Nat.le_refl _)
      refine ⟨(selRows (rowsOf schema (live t)) sel).length, { store := sC, wal := db.wal ++ ([] ++ logs) }, logs, _,
        sel, ?_, by simp, rfl, hsel, by rw [hlenC, selRows_length _ _ hsl], ?_⟩
      · simp only [Engine.evalDelete, Engine.fetchForExec, Engine.liftS, efetch, efilter]
        rw [← Nat.zero_add (selRows (rowsOf schema (live t)) sel).length]
        exact ego
      intro k
      -- the first `j` selected rows
      have hsplit := List.take_append_drop (min k logs.length) (selRows (rowsOf schema (live t)) sel)
      have hjlen : ((selRows (rowsOf schema (live t)) sel).take (min k logs.length)).length = min k logs.length := by
        rw [List.length_take, ← hlenC]; omega
      obtain ⟨sK, tK, logsJ, egoJ, hrunJ, hcJ, hlJ, hlenJ, hlkJ, hnfJ⟩ := evalDelete_go_live db table pt sch
        ((selRows (rowsOf schema (live t)) sel).take (min k logs.length)) s1 tbls t [] 0 hc1 ht
        (hnd'.sublist ((List.take_sublist _ _).map _))
        (fun q hq => hmemsel q ((List.take_sublist _ _).subset hq))
      rw [hjlen] at hlenJ
      -- its log is the prefix of the log of the whole statement
      obtain ⟨lJ, hwJ, hB⟩ := evalDelete_go_append db table _ s1 [] 0 _ sK _ egoJ
      have hlJeq : lJ = logsJ := by
        have := List.append_cancel_left hwJ
        simp only [List.nil_append] at this
        exact this.symm
      subst hlJeq
      have hrest := hB ((selRows (rowsOf schema (live t)) sel).drop (min k logs.length))
      rw [hsplit, ego] at hrest
      obtain ⟨l2, hw2, _⟩ := evalDelete_go_append db table _ sK ([] ++ lJ) _ _ sC _ hrest.symm
      have hlogs : logs = lJ ++ l2 := by
        have := List.append_cancel_left hw2
        simp only [List.nil_append] at this
        exact this
      have htake : logs.take k = lJ := by
        have h1 : logs.take k = logs.take (min k logs.length) := by
          rw [List.take_eq_take_iff]; omega
        rw [h1, hlogs]
        exact List.take_left' (by rw [hlenJ, ← hlogs])
      -- replay
      obtain ⟨ptK, rK, hre, c1, c2, _, _, a1, a2, a3⟩ := replay_history_mixed_gen sch hrunJ pt r hc1 hr hself hf1
        (by rw [hs1.2]; exact e1) (by rw [hs1.2]; exact e2) (by rw [hs1.2]; exact e3)
      -- the abstraction
      have hdec' : ∀ c ∈ live tK, ∃ m, decodeTuple schema c.val [] = .ok m := by
        intro c hc
        rw [hlJ] at hc
        exact hdec c (List.mem_filter.mp hc).1
      have htabs := h.tabs.setTable h.cat.tnames ht schema hsch tK hdec'
        (fun rs => deleteFirst (min k logs.length) (rs.zip sel))
        (by
          simp only [absTable]
          rw [hlJ, rowsOf_filter schema
            (fun key => !(((selRows (rowsOf schema (live t)) sel).take (min k logs.length)).map (·.1)).contains key)]
          exact rows_deleteFirst _ sel _ hsl hnd)
      refine ⟨sK, ptK, tK, rK, delStmts table ((selRows (rowsOf schema (live t)) sel).take (min k logs.length)),
        ?_, ?_, by rw [htake]; exact hre, ⟨c1, htabs⟩, ⟨c2, htabs⟩, c1.same_pages c2, a1,
        a2, a3, by rw [hnfJ, hs1.2], by rw [hlkJ, hs1.2]⟩
      · rw [htake]; exact .same hs1 hrunJ
      · simp only [delStmts, List.length_map]; exact hjlen

end Mkdb.Store
