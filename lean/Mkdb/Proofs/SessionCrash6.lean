import Mkdb.Proofs.SessionCrash5
/-!
Sessions and crashes, part 6: **examples** (non-vacuity of the theorems of parts 4 and 5).

* `crashOps`, `crashOps_example` (computed): CREATE DATABASE d; CREATE DATABASE e; USE d; CREATE TABLE t (a INT);
  INSERT (5); crash; USE e; CREATE TABLE t (a INT); restart; USE d; INSERT (6); crash - every statement is
  accepted, no recovery fails, afterwards `d.t` holds `(5), (6)` and `e.t` is empty.
* `sess1`, `sess2`: the sessions after CREATE DATABASE d and after CREATE DATABASE d; USE d, as terms;
  `createTable_after_use_example`: the hypotheses of `createTable_after_use` hold for USE d; CREATE TABLE t.
* `okOps_example`: `OkOps` holds of CREATE DATABASE d; USE d; CREATE TABLE t (a INT); crash; USE d; restart.
* `okOps_sessT_example`: `OkOps` from the session `sessT`: INSERT (5), (6); crash; USE d; restart.
-/
set_option autoImplicit false
namespace Mkdb.Session
open Mkdb.Engine Mkdb.Sql Mkdb.Tree
open Mkdb.Store hiding Stmt

def crashOps : List SOp :=
  [.stmt (.createDatabase [100]), .stmt (.createDatabase [101]), .stmt (.use [100]),
   .stmt (.createTable tname acols), .stmt (.insert tname [] [[.int 5]]), .crash,
   .stmt (.use [101]), .stmt (.createTable tname acols), .restart,
   .stmt (.use [100]), .stmt (.insert tname [] [[.int 6]]), .crash]

/-- the outputs of the statements of a list of operations (`none` if a recovery fails) -/
def outsOps : Sess → List SOp → Option (List Out)
  | _, [] => some []
  | s, .stmt st :: rest => (outsOps (exec s st).1 rest).map ((exec s st).2 :: ·)
  | s, .restart :: rest => (restart s).bind fun s' => outsOps s' rest
  | s, .crash :: rest => (crashRestart s).bind fun s' => outsOps s' rest

set_option maxRecDepth 100000 in
/-- **The computed example**: all statements accepted, no recovery fails; at the end nothing is selected,
`d.t` holds `(5), (6)` (one row logged before the first crash, one before the second), `e.t` is empty. -/
theorem crashOps_example :
    (outsOps {} crashOps).map allOk = some true ∧
    (runOps {} crashOps).map (fun s' => (s'.cur, rowsOf (exec s' (.use [100])).1 "d",
        rowsOf (exec s' (.use [101])).1 "e")) = some (none, some [[.int 5], [.int 6]], some []) := by
  decide +kernel

theorem allOk_single {o : Out} (h : allOk [o] = true) : o = Out.ok := by
  cases o with
  | ok => rfl
  | err k => cases h
  | panic => cases h
  | rows n => cases h

/-- the session after CREATE DATABASE d -/
def sess1 : Sess := (exec {} (.createDatabase [100])).1
/-- the session after CREATE DATABASE d; USE d -/
def sess2 : Sess := (exec sess1 (.use [100])).1

theorem cd_ok : (exec {} (.createDatabase [100])).2 = Out.ok := allOk_single (by decide +kernel)

theorem sess1_eq : sess1 = setDB {} (canon [100]) newDB := by
  rcases createDatabase_cases {} [100] with ⟨_, hno⟩ | ⟨_, _, e⟩
  · exact absurd cd_ok hno
  · exact e

theorem use_ok : (exec sess1 (.use [100])).2 = Out.ok := allOk_single (by decide +kernel)

theorem sess2_eq : sess2 = { sess1 with cur := some (canon [100]) } := by
  have hc : sess1.cur = none := by rw [sess1_eq]; rfl
  rcases use_cases sess1 [100] with ⟨_, hno⟩ | ⟨_, _, ⟨e, _⟩ | ⟨c, _, _, hc', _⟩⟩
  · exact absurd use_ok hno
  · exact e
  · rw [hc] at hc'; cases hc'

theorem sess2_cur : sess2.cur = some (canon [100]) := by rw [sess2_eq]

theorem sess2_get : getDB sess2 (canon [100]) = some newDB := by
  rw [sess2_eq]
  show getDB sess1 (canon [100]) = some newDB
  rw [sess1_eq, getDB_setDB]
  simp

/-- the plain databases after CREATE DATABASE d -/
theorem world1 (w : String → Spec.SDB) : worldStep {} w (.createDatabase [100]) = setW w (canon [100]) [] :=
  cdW_ok cd_ok

/-- room for CREATE TABLE t (a INT) on the new database, whatever its catalog is described by -/
theorem room_newDB {sdb : Spec.SDB} (pt sch : Levels) (tbls : List (Bytes × Levels))
    (hi : DbInv newDB sdb pt sch tbls) : StmtRoom newDB pt sch tbls (.createTable tname acols) := by
  obtain ⟨sdb0, habs0, _⟩ := hi.abs
  obtain ⟨rfl, rfl, rfl⟩ := cat_newDB_unique habs0.cat
  exact room_create_t

/-- **Non-vacuity of `createTable_after_use`**: CREATE DATABASE d; then USE d; CREATE TABLE t (a INT). -/
theorem createTable_after_use_example :
    SessCrash' sess1 (setW (fun _ => []) (canon [100]) []) ∧ (exec sess1 (.use [100])).2 = Out.ok ∧
    sess1.cur ≠ some (canon [100]) ∧ getDB (exec sess1 (.use [100])).1 (canon [100]) = some newDB ∧
    (∀ pt sch tbls, DbInv newDB (setW (fun _ => []) (canon [100]) [] (canon [100])) pt sch tbls →
      StmtRoom newDB pt sch tbls (.createTable tname acols)) ∧
    Spec.specStmt (setW (fun _ => []) (canon [100]) [] (canon [100])) (.createTable tname acols) =
      some [⟨tname, [⟨"a", .int, 0⟩], []⟩] := by
  refine ⟨?_, use_ok, ?_, sess2_get, fun pt sch tbls hi => room_newDB pt sch tbls hi, ?_⟩
  · have := createDatabase_sessCrash' (sessCrash'_empty (fun _ => [])) [100]
    rw [cdW_ok cd_ok] at this
    exact this
  · rw [sess1_eq]; intro hx; cases hx
  · rw [setW_same]; exact spec_create_t

theorem cleanStep_use_true (s : Sess) (w : String → Spec.SDB) (name : Bytes) :
    cleanStep s w true (.use name) = true := by
  show (match (exec s (.use name)).2 with | .ok => _ | _ => true) = true
  cases (exec s (.use name)).2 <;> simp

/-- **Non-vacuity of `OkOps` from the empty session**: CREATE DATABASE d; USE d; CREATE TABLE t (a INT);
crash; USE d; restart. -/
theorem okOps_example : OkOps {} (fun _ => []) true
    [.stmt (.createDatabase [100]), .stmt (.use [100]), .stmt (.createTable tname acols), .crash,
     .stmt (.use [100]), .restart] := by
  refine ⟨(fun hx => by cases hx), (fun hx => by cases hx), ?_, ?_⟩
  · intro _
    refine .inr ⟨canon [100], newDB, [⟨tname, [⟨"a", .int, 0⟩], []⟩], sess2_cur, sess2_get, ?_, ?_, ?_⟩
    · show Spec.specStmt (worldStep {} (fun _ => []) (.createDatabase [100]) (canon [100])) _ = _
      rw [world1, setW_same]; exact spec_create_t
    · intro pt sch tbls hi; exact room_newDB pt sch tbls hi
    · intro _; exact cleanStep_use_true _ _ _
  · intro s' _
    exact ⟨(fun hx => by cases hx), fun _ _ => trivial⟩

/-- **Non-vacuity of `OkOps` with an accepted row statement**, from the session `sessT` (CREATE DATABASE d;
USE d; CREATE TABLE t (a INT)): INSERT INTO t VALUES (5), (6); crash; USE d; restart. -/
theorem okOps_sessT_example : CInv sessT (fun _ => sdbA0) false ∧ OkOps sessT (fun _ => sdbA0) false
    [.stmt (.insert tname [] [[.int 5], [.int 6]]), .crash, .stmt (.use [100]), .restart] := by
  refine ⟨⟨⟨sessCrash_sessT, fun p hp hne => ?_⟩, (fun hx => by cases hx)⟩, ?_, ?_⟩
  · simp only [sessT, List.mem_singleton] at hp
    subst hp
    exact absurd rfl hne
  · intro _
    refine .inr ⟨"d", tableDB, sdbA1, rfl, by simp [getDB, sessT], rfl, ?_, fun hx => by cases hx⟩
    intro pt sch tbls hi
    obtain ⟨rfl, rfl, htr⟩ := dbInv_tableDB_unique hi
    refine ⟨room_insert56.1, fun tr schema hm hs => ?_⟩
    have := htr tr hm
    subst this
    exact room_insert56.2 tT schema (List.mem_singleton.mpr rfl) hs
  · intro s' _
    exact ⟨(fun hx => by cases hx), fun _ _ => trivial⟩

end Mkdb.Session
