import Mkdb.Proofs.Join
/-!
One name for two tables of a FROM clause (C06).

A table id - the alias of a table when it has one, else its name - is used once in a FROM clause.
When `l JOIN r` brings `r` in under an id some field of `l` already carries, the executor refuses
the clause (`fieldAmbiguous`) and the relational definition `Spec.fromRows` is undefined; whenever
the relational definition is defined, the table ids are pairwise distinct, and a qualified
reference matches fields of at most one table.
-/
namespace Mkdb.Exec.JoinP
open Mkdb.Sql Mkdb.Tuple

/-! ### the tables of a FROM clause, their ids and their fields -/

/-- the table id of a table of a FROM clause: its alias if it has one, else its name -/
def tableId (t : TableName) : Bytes := t.alias.getD t.name

/-- the tables of a FROM clause, left to right -/
def tablesOf : TableRef → List TableName
  | .table t => [t]
  | .join l _ r _ => tablesOf l ++ [r]

/-- the table ids of a FROM clause (alias, else name), left to right -/
def tableIds : TableRef → List Bytes
  | .table t => [tableId t]
  | .join l _ r _ => tableIds l ++ [tableId r]

/-- the fields one table contributes to the header (none when the table does not exist) -/
def tableFields (fetch : Bytes → Option Table) (t : TableName) : List Field :=
  match fetch t.name with
  | some tbl => tbl.cols.map fun c => ⟨tableId t, c⟩
  | none => []

/-- the header of a FROM clause, table by table, left to right -/
def tableBlocks (fetch : Bytes → Option Table) (tr : TableRef) : List (List Field) :=
  (tablesOf tr).map (tableFields fetch)

theorem tableIds_eq_map (tr : TableRef) : tableIds tr = (tablesOf tr).map tableId := by
  induction tr with
  | table t => rfl
  | join l jt r on ih => simp only [tableIds, tablesOf, ih, List.map_append, List.map_cons, List.map_nil]

theorem fieldsOf_some {fetch : Bytes → Option Table} {t : TableName} {R : List Row}
    {rf : List Field} (h : Spec.fieldsOf fetch t = some (R, rf)) :
    ∃ tbl, fetch t.name = some tbl ∧ R = tbl.rows ∧ rf = tbl.cols.map (fun c => ⟨tableId t, c⟩) := by
  obtain ⟨tbl, hf, hR, hrf, _, _⟩ := fetchTable_alias fetch t R rf (fetchTable_of_fieldsOf h)
  exact ⟨tbl, hf, hR, hrf⟩

theorem fieldsOf_tableFields {fetch : Bytes → Option Table} {t : TableName} {R : List Row}
    {rf : List Field} (h : Spec.fieldsOf fetch t = some (R, rf)) : rf = tableFields fetch t := by
  obtain ⟨tbl, hf, _, hrf⟩ := fieldsOf_some h
  unfold tableFields
  rw [hf, hrf]

theorem tableFields_id (fetch : Bytes → Option Table) (t : TableName) :
    ∀ g ∈ tableFields fetch t, g.tableId = tableId t := by
  intro g hg
  unfold tableFields at hg
  split at hg
  · obtain ⟨c, _, rfl⟩ := List.mem_map.mp hg
    rfl
  · cases hg

/-! ### 1. one name for two tables: refused -/

/-- The executor: `l JOIN r` where some field gathered for `l` already carries the table id of `r`
(and `r` has a column to show it) is refused as ambiguous, whatever the ON condition and the join
type - the loops are not entered. -/
theorem nestedLoopJoin_one_name_for_two_tables (fetch : Bytes → Option Table) (l : TableRef)
    (jt : JoinType) (r : TableName) (on : Cond) (lRows rRows : List Row)
    (lFields rFields : List Field)
    (hl : nestedLoopJoin fetch l = .ok (lRows, lFields))
    (hr : fetchTable fetch r = .ok (rRows, rFields))
    (hne : rFields ≠ [])
    (hc : ∃ f ∈ lFields, f.tableId = tableId r) :
    nestedLoopJoin fetch (.join l jt r on) = .err .fieldAmbiguous := by
  have hh : headClash lFields rFields = true := by
    unfold headClash
    cases rFields with
    | nil => exact absurd rfl hne
    | cons g0 rest =>
      obtain ⟨f, hf, hid⟩ := hc
      simp only [List.head?_cons]
      refine List.any_eq_true.mpr ⟨f, hf, ?_⟩
      rw [hid, fetchTable_one_id hr g0 List.mem_cons_self]
      exact beq_self_eq_true _
  rw [nestedLoopJoin_join_unfold fetch l jt r on lRows rRows lFields rFields hl hr, hh]
  rfl

/-- the same, with the clash read off the head field of the right table as the executor does -/
theorem nestedLoopJoin_one_name_for_two_tables' (fetch : Bytes → Option Table) (l : TableRef)
    (jt : JoinType) (r : TableName) (on : Cond) (lRows rRows : List Row)
    (lFields rFields : List Field) (f0 : Field)
    (hl : nestedLoopJoin fetch l = .ok (lRows, lFields))
    (hr : fetchTable fetch r = .ok (rRows, rFields))
    (h0 : rFields.head? = some f0)
    (hc : ∃ f ∈ lFields, f.tableId = f0.tableId) :
    nestedLoopJoin fetch (.join l jt r on) = .err .fieldAmbiguous := by
  have hm : f0 ∈ rFields := List.mem_of_head? h0
  refine nestedLoopJoin_one_name_for_two_tables fetch l jt r on lRows rRows lFields rFields hl hr
    (List.ne_nil_of_mem hm) ?_
  obtain ⟨f, hf, hid⟩ := hc
  exact ⟨f, hf, hid.trans (fetchTable_one_id hr f0 hm)⟩

/-- The relational definition agrees: the clause has no meaning. -/
theorem fromRows_one_name_for_two_tables (fetch : Bytes → Option Table) (l : TableRef)
    (jt : JoinType) (r : TableName) (on : Cond) (L R : List Row) (lf rf : List Field)
    (hL : Spec.fromRows fetch l = some (L, lf))
    (hR : Spec.fieldsOf fetch r = some (R, rf))
    (hc : rf.any (fun g => lf.any (·.tableId == g.tableId)) = true) :
    Spec.fromRows fetch (.join l jt r on) = none := by
  unfold Spec.fromRows
  simp only [hL, hR, Option.bind_eq_bind, Option.bind_some, hc, if_true]

/-! ### 2. whenever the relational definition is defined, the table ids are distinct -/

/-- the header of a defined FROM clause is the concatenation of its tables' fields -/
theorem fromRows_fields_eq_blocks (fetch : Bytes → Option Table) (tr : TableRef) :
    ∀ (rows : List Row) (fields : List Field), Spec.fromRows fetch tr = some (rows, fields) →
      fields = (tableBlocks fetch tr).flatten := by
  induction tr with
  | table t =>
    intro rows fields h
    have h' : Spec.fieldsOf fetch t = some (rows, fields) := by simpa [Spec.fromRows] using h
    simp only [tableBlocks, tablesOf, List.map_cons, List.map_nil, List.flatten_cons,
      List.flatten_nil, List.append_nil]
    exact fieldsOf_tableFields h'
  | join l jt r on ih =>
    intro rows fields h
    obtain ⟨L, lf, R, rf, hL, hR, rfl, _, _, _⟩ := fromRows_join_some' h
    simp only [tableBlocks, tablesOf, List.map_append, List.map_cons, List.map_nil,
      List.flatten_append, List.flatten_cons, List.flatten_nil, List.append_nil]
    rw [← fieldsOf_tableFields hR]
    exact congrArg (· ++ rf) (ih L lf hL)

/-- fields of two different tables of a defined FROM clause never share a table id (no hypothesis
on the tables: a table without columns has no field to share anything with) -/
theorem fromRows_blocks_disjoint (fetch : Bytes → Option Table) (tr : TableRef) :
    ∀ (rows : List Row) (fields : List Field), Spec.fromRows fetch tr = some (rows, fields) →
      (tableBlocks fetch tr).Pairwise fun b₁ b₂ => ∀ f ∈ b₁, ∀ g ∈ b₂, f.tableId ≠ g.tableId := by
  induction tr with
  | table t =>
    intro rows fields _
    simp only [tableBlocks, tablesOf, List.map_cons, List.map_nil, List.pairwise_cons,
      List.not_mem_nil, false_imp_iff, implies_true, List.Pairwise.nil, and_self]
  | join l jt r on ih =>
    intro rows fields h
    obtain ⟨L, lf, R, rf, hL, hR, rfl, hd, _, _⟩ := fromRows_join_some' h
    simp only [tableBlocks, tablesOf, List.map_append, List.map_cons, List.map_nil]
    refine List.pairwise_append.mpr ⟨ih L lf hL, List.pairwise_singleton _ _, ?_⟩
    intro b₁ hb₁ b₂ hb₂ f hf g hg heq
    rw [List.mem_singleton] at hb₂
    subst hb₂
    rw [← fieldsOf_tableFields hR] at hg
    have hfl : f ∈ lf := by
      rw [fromRows_fields_eq_blocks fetch l L lf hL]
      exact List.mem_flatten.mpr ⟨b₁, hb₁, hf⟩
    have : anyClash lf rf = true :=
      List.any_eq_true.mpr ⟨g, hg, List.any_eq_true.mpr ⟨f, hfl, by rw [heq]; exact beq_self_eq_true _⟩⟩
    rw [hd] at this
    cases this

theorem filter_length_le_one_of_pairwise {α : Type} (p : α → Bool) (R : α → α → Prop)
    (hR : ∀ a b, R a b → p a = true → p b = true → False) :
    ∀ l : List α, l.Pairwise R → (l.filter p).length ≤ 1
  | [], _ => Nat.zero_le _
  | a :: t, h => by
    obtain ⟨ha, ht⟩ := List.pairwise_cons.mp h
    rw [List.filter_cons]
    cases hp : p a with
    | false => exact filter_length_le_one_of_pairwise p R hR t ht
    | true =>
      have : t.filter p = [] :=
        List.filter_eq_nil_iff.mpr fun b hb hpb => hR a b (ha b hb) hp hpb
      simp only [if_true, List.length_cons, this, List.length_nil]
      exact Nat.le_refl _

/-- A qualified reference `id.col` matches fields of at most one table of a defined FROM clause:
at most one of the tables (counted by position, so one table joined to itself counts twice) has a
field carrying the table id `id`. -/
theorem qualified_ref_at_most_one_table (fetch : Bytes → Option Table) (tr : TableRef)
    (rows : List Row) (fields : List Field) (h : Spec.fromRows fetch tr = some (rows, fields))
    (id : Bytes) :
    ((tableBlocks fetch tr).filter fun b => b.any (·.tableId == id)).length ≤ 1 := by
  refine filter_length_le_one_of_pairwise _ _ ?_ _ (fromRows_blocks_disjoint fetch tr rows fields h)
  intro b₁ b₂ hR h₁ h₂
  obtain ⟨f, hf, hfi⟩ := List.any_eq_true.mp h₁
  obtain ⟨g, hg, hgi⟩ := List.any_eq_true.mp h₂
  exact hR f hf g hg ((beq_iff_eq.mp hfi).trans (beq_iff_eq.mp hgi).symm)

/-- every table of the FROM clause that exists has at least one column -/
def AllHaveColumns (fetch : Bytes → Option Table) (tr : TableRef) : Prop :=
  ∀ t ∈ tablesOf tr, ∀ tbl, fetch t.name = some tbl → tbl.cols ≠ []

theorem fromRows_tableIds_aux (fetch : Bytes → Option Table) (tr : TableRef)
    (hcols : AllHaveColumns fetch tr) :
    ∀ (rows : List Row) (fields : List Field), Spec.fromRows fetch tr = some (rows, fields) →
      (tableIds tr).Nodup ∧ ∀ id ∈ tableIds tr, ∃ f ∈ fields, f.tableId = id := by
  induction tr with
  | table t =>
    intro rows fields h
    have h' : Spec.fieldsOf fetch t = some (rows, fields) := by simpa [Spec.fromRows] using h
    obtain ⟨tbl, hf, _, rfl⟩ := fieldsOf_some h'
    refine ⟨List.pairwise_singleton _ _, fun id hid => ?_⟩
    simp only [tableIds, List.mem_singleton] at hid
    subst hid
    have hne := hcols t (by simp [tablesOf]) tbl hf
    cases hc : tbl.cols with
    | nil => exact absurd hc hne
    | cons c cs => exact ⟨⟨tableId t, c⟩, List.mem_cons_self, rfl⟩
  | join l jt r on ih =>
    intro rows fields h
    obtain ⟨L, lf, R, rf, hL, hR, rfl, hd, _, _⟩ := fromRows_join_some' h
    obtain ⟨hnd, hcov⟩ := ih (fun t ht => hcols t (by simp [tablesOf, ht])) L lf hL
    obtain ⟨tbl, hf, _, hrf⟩ := fieldsOf_some hR
    have hne := hcols r (by simp [tablesOf]) tbl hf
    -- `r` has a field, and it carries the id of `r`
    have hg : ∃ g ∈ rf, g.tableId = tableId r := by
      cases hc : tbl.cols with
      | nil => exact absurd hc hne
      | cons c cs => exact ⟨⟨tableId r, c⟩, by rw [hrf, hc]; exact List.mem_cons_self, rfl⟩
    obtain ⟨g, hgm, hgi⟩ := hg
    simp only [tableIds]
    refine ⟨List.nodup_append.mpr ⟨hnd, List.pairwise_singleton _ _, ?_⟩, ?_⟩
    · intro a ha b hb heq
      rw [List.mem_singleton] at hb
      subst hb
      obtain ⟨f, hfm, hfi⟩ := hcov a ha
      have : anyClash lf rf = true :=
        List.any_eq_true.mpr ⟨g, hgm, List.any_eq_true.mpr
          ⟨f, hfm, by rw [hfi, hgi, heq]; exact beq_self_eq_true _⟩⟩
      rw [hd] at this
      cases this
    · intro id hid
      rcases List.mem_append.mp hid with hid | hid
      · obtain ⟨f, hfm, hfi⟩ := hcov id hid
        exact ⟨f, List.mem_append_left _ hfm, hfi⟩
      · rw [List.mem_singleton] at hid
        subst hid
        exact ⟨g, List.mem_append_right _ hgm, hgi⟩

/-- Whenever the relational definition of a FROM clause is defined, the table ids of its tables
(alias, else name) are pairwise distinct - provided every table of the clause has at least one
column.  (A table without columns contributes no field to the header; the test, which looks at
fields, cannot see it, and no reference can name a column of it either.) -/
theorem fromRows_tableIds_nodup (fetch : Bytes → Option Table) (tr : TableRef)
    (rows : List Row) (fields : List Field) (h : Spec.fromRows fetch tr = some (rows, fields))
    (hcols : AllHaveColumns fetch tr) : (tableIds tr).Nodup :=
  (fromRows_tableIds_aux fetch tr hcols rows fields h).1

/-- the executor's side, directly: a join it answers has passed the test - no field gathered for
the left side shares a table id with a field of the right table -/
theorem nestedLoopJoin_ok_no_clash (fetch : Bytes → Option Table) (l : TableRef) (jt : JoinType)
    (r : TableName) (on : Cond) (lRows rRows rows : List Row) (lFields rFields fields : List Field)
    (hl : nestedLoopJoin fetch l = .ok (lRows, lFields))
    (hr : fetchTable fetch r = .ok (rRows, rFields))
    (h : nestedLoopJoin fetch (.join l jt r on) = .ok (rows, fields)) :
    ∀ f ∈ lFields, ∀ g ∈ rFields, f.tableId ≠ g.tableId := by
  intro f hf g hg heq
  have hany : anyClash lFields rFields = true :=
    List.any_eq_true.mpr ⟨g, hg, List.any_eq_true.mpr ⟨f, hf, by rw [heq]; exact beq_self_eq_true _⟩⟩
  rw [← headClash_eq_anyClash hr] at hany
  rw [nestedLoopJoin_join_unfold fetch l jt r on lRows rRows lFields rFields hl hr, hany] at h
  cases h

/-! ### 3. concrete instances: `t(k)` with two rows -/
namespace Example

def bk : Bytes := [107]       -- "k"
def bxx : Bytes := [120]      -- "x"
def byy : Bytes := [121]      -- "y"

def fetchT (n : Bytes) : Option Table :=
  if n = bt then some ⟨[bk], [[.int 1], [.int 2]]⟩ else none

/-- `t JOIN t ON t.k = t.k` -/
def trTT : TableRef :=
  .join (.table ⟨bt, none⟩) .inner ⟨bt, none⟩ (.pred ⟨.col ⟨bt, bk⟩, Generated.t_EQ, .col ⟨bt, bk⟩⟩)

/-- `t x JOIN t y ON x.k = y.k` -/
def trXY : TableRef :=
  .join (.table ⟨bt, some bxx⟩) .inner ⟨bt, some byy⟩
    (.pred ⟨.col ⟨bxx, bk⟩, Generated.t_EQ, .col ⟨byy, bk⟩⟩)

/-- one name for two tables: refused by the executor (it used to answer all four pairs, `t.k`
being the left `k` on both sides of the comparison) ... -/
example : nestedLoopJoin fetchT trTT = .err .fieldAmbiguous := by decide

/-- ... by the general theorem ... -/
example : nestedLoopJoin fetchT trTT = .err .fieldAmbiguous :=
  nestedLoopJoin_one_name_for_two_tables fetchT _ _ ⟨bt, none⟩ _ [[.int 1], [.int 2]]
    [[.int 1], [.int 2]] [⟨bt, bk⟩] [⟨bt, bk⟩] (by decide) (by decide) (by decide)
    ⟨⟨bt, bk⟩, by decide, by decide⟩

/-- ... and without a meaning in the relational definition -/
example : Spec.fromRows fetchT trTT = none := by decide

/-- also when only the alias of one table is the name of the other: `t JOIN t x ... ` is fine, but
`t x JOIN t x` and `t JOIN t t` are not -/
example : nestedLoopJoin fetchT (.join (.table ⟨bt, some bxx⟩) .left ⟨bt, some bxx⟩
    (.val (.lit (.bool true)))) = .err .fieldAmbiguous := by decide

example : nestedLoopJoin fetchT (.join (.table ⟨bt, none⟩) .right ⟨bt, some bt⟩
    (.val (.lit (.bool true)))) = .err .fieldAmbiguous := by decide

/-- under two aliases the self-join is answered: the two rows pair with themselves -/
example : nestedLoopJoin fetchT trXY =
    .ok ([[.int 1, .int 1], [.int 2, .int 2]], [⟨bxx, bk⟩, ⟨byy, bk⟩]) := by decide

example : Spec.fromRows fetchT trXY =
    some ([[.int 1, .int 1], [.int 2, .int 2]], [⟨bxx, bk⟩, ⟨byy, bk⟩]) := by decide

example : tableIds trTT = [bt, bt] ∧ tableIds trXY = [bxx, byy] := by decide

example : (tableIds trXY).Nodup :=
  fromRows_tableIds_nodup fetchT trXY [[.int 1, .int 1], [.int 2, .int 2]]
    [⟨bxx, bk⟩, ⟨byy, bk⟩] (by decide) (by
    intro t ht tbl hf
    simp only [trXY, tablesOf, List.cons_append, List.nil_append, List.mem_cons, List.not_mem_nil,
      or_false] at ht
    rcases ht with rfl | rfl <;>
    · simp only [fetchT, if_true, Option.some.injEq] at hf
      subst hf
      exact List.cons_ne_nil _ _)

end Example

end Mkdb.Exec.JoinP

section Axioms
open Mkdb.Exec Mkdb.Exec.JoinP
#print axioms nestedLoopJoin_one_name_for_two_tables
#print axioms nestedLoopJoin_one_name_for_two_tables'
#print axioms fromRows_one_name_for_two_tables
#print axioms fromRows_fields_eq_blocks
#print axioms fromRows_blocks_disjoint
#print axioms qualified_ref_at_most_one_table
#print axioms fromRows_tableIds_nodup
#print axioms nestedLoopJoin_ok_no_clash
end Axioms
