import Mkdb.Spec.Query
/-!
C07: COUNT / GROUP BY of the executor model compute true aggregates.

`groupsOf key rows` is the list of groups `aggregateRows` builds (see `aggregateRows_groups`).
-/
namespace Mkdb.Exec.AggP
open Mkdb.Sql

/-- the groups `aggregateRows` builds, for an arbitrary key function -/
def groupsOf (key : Row → List Val) (rows : List Row) : List Group :=
  rows.foldl (fun gs r => addToGroups (key r) r gs) []

/-- `aggregateRows` groups with `groupsOf` (definitional). -/
theorem aggregateRows_groups (idxs : List Nat) (rows : List Row) :
    rows.foldl (fun gs r => addToGroups (idxs.map fun i => (r[i]?).getD .null) r gs) []
      = groupsOf (fun r => idxs.map fun i => (r[i]?).getD .null) rows := rfl

theorem snoc_induction {α} {P : List α → Prop} (nil : P [])
    (snoc : ∀ l a, P l → P (l ++ [a])) : ∀ l, P l := by
  have h : ∀ l : List α, P l.reverse := by
    intro l
    induction l with
    | nil => exact nil
    | cons a l ih => rw [List.reverse_cons]; exact snoc _ _ ih
  intro l
  have := h l.reverse
  rwa [List.reverse_reverse] at this

theorem groupsOf_nil (key : Row → List Val) : groupsOf key [] = [] := rfl

theorem groupsOf_snoc (key : Row → List Val) (rows : List Row) (r : Row) :
    groupsOf key (rows ++ [r]) = addToGroups (key r) r (groupsOf key rows) := by
  simp [groupsOf, List.foldl_append]

/-! ### `addToGroups` -/

theorem addToGroups_not_mem (k : List Val) (r : Row) :
    ∀ gs : List Group, k ∉ gs.map (·.key) → addToGroups k r gs = gs ++ [⟨k, [r]⟩]
  | [], _ => rfl
  | g :: rest, h => by
    simp only [List.map_cons, List.mem_cons, not_or] at h
    have hk : (g.key == k) = false := by
      apply Bool.eq_false_iff.mpr
      intro e
      exact h.1 (eq_of_beq e).symm
    simp [addToGroups, hk, addToGroups_not_mem k r rest h.2]

/-- what `addToGroups` does to the group with the matching key -/
def bump (k : List Val) (r : Row) (g : Group) : Group :=
  if g.key == k then { g with rows := g.rows ++ [r] } else g

theorem bump_key (k : List Val) (r : Row) (g : Group) : (bump k r g).key = g.key := by
  unfold bump; split <;> rfl

theorem map_bump_not_mem (k : List Val) (r : Row) :
    ∀ gs : List Group, k ∉ gs.map (·.key) → gs.map (bump k r) = gs
  | [], _ => rfl
  | g :: rest, h => by
    simp only [List.map_cons, List.mem_cons, not_or] at h
    have hk : (g.key == k) = false := by
      apply Bool.eq_false_iff.mpr
      intro e
      exact h.1 (eq_of_beq e).symm
    simp [bump, hk]
    have := map_bump_not_mem k r rest h.2
    simpa [bump] using this

theorem addToGroups_mem (k : List Val) (r : Row) :
    ∀ gs : List Group, (gs.map (·.key)).Nodup → k ∈ gs.map (·.key) →
      addToGroups k r gs = gs.map (bump k r)
  | [], _, h => by simp at h
  | g :: rest, nd, h => by
    simp only [List.map_cons, List.nodup_cons] at nd
    by_cases hk : g.key = k
    · have hb : (g.key == k) = true := by simp [hk]
      have hnot : k ∉ rest.map (·.key) := hk ▸ nd.1
      simp only [addToGroups, hb, if_true, List.map_cons, map_bump_not_mem k r rest hnot]
      simp [bump, hb]
    · have hb : (g.key == k) = false := by simp [hk]
      have hin : k ∈ rest.map (·.key) := by
        simp only [List.map_cons, List.mem_cons] at h
        rcases h with h | h
        · exact absurd h.symm hk
        · exact h
      simp only [addToGroups, hb, List.map_cons, addToGroups_mem k r rest nd.2 hin]
      simp [bump, hb]

theorem addToGroups_flatMap_perm (k : List Val) (r : Row) :
    ∀ gs : List Group,
      ((addToGroups k r gs).flatMap (·.rows)).Perm (gs.flatMap (·.rows) ++ [r])
  | [] => by simp [addToGroups]
  | g :: rest => by
    unfold addToGroups
    split
    · simp only [List.flatMap_cons, List.append_assoc]
      exact List.Perm.append_left _ List.perm_append_comm
    · simp only [List.flatMap_cons, List.append_assoc]
      exact List.Perm.append_left _ (addToGroups_flatMap_perm k r rest)

/-! ### the invariant of the grouping loop -/

structure GInv (key : Row → List Val) (rows : List Row) (gs : List Group) : Prop where
  keysEq : gs.map (·.key) = (rows.map key).eraseDups
  nodup  : (gs.map (·.key)).Nodup
  rowsEq : ∀ g ∈ gs, g.rows = rows.filter (fun r => key r == g.key)
  cover  : ∀ r ∈ rows, key r ∈ gs.map (·.key)
  keyMem : ∀ g ∈ gs, ∃ r ∈ rows, key r = g.key

theorem GInv.nil (key : Row → List Val) : GInv key [] [] :=
  ⟨rfl, List.nodup_nil, by simp, by simp, by simp⟩

theorem GInv.step {key : Row → List Val} {rows : List Row} {gs : List Group}
    (inv : GInv key rows gs) (r : Row) :
    GInv key (rows ++ [r]) (addToGroups (key r) r gs) := by
  by_cases hk : key r ∈ gs.map (·.key)
  · -- the key is already there: the matching group gets the row
    rw [addToGroups_mem _ _ _ inv.nodup hk]
    have hkeys : (gs.map (bump (key r) r)).map (·.key) = gs.map (·.key) := by
      rw [List.map_map]; apply List.map_congr_left; intro g _; exact bump_key _ _ _
    refine ⟨?_, ?_, ?_, ?_, ?_⟩
    · rw [hkeys, List.map_append, List.eraseDups_append, ← inv.keysEq]
      have hm : key r ∈ rows.map key := by
        rw [← List.mem_eraseDups, ← inv.keysEq]; exact hk
      have : (List.map key [r]).removeAll (List.map key rows) = [] := by
        simp only [List.removeAll, List.map_cons, List.map_nil, List.filter_cons, List.filter_nil,
          List.elem_eq_mem, hm, decide_true, Bool.not_true, Bool.false_eq_true, if_false]
      rw [this]; simp
    · rw [hkeys]; exact inv.nodup
    · intro g' hg'
      rw [List.mem_map] at hg'
      obtain ⟨g, hg, rfl⟩ := hg'
      rw [bump_key, List.filter_append]
      unfold bump
      by_cases e : g.key = key r
      · have hb : (g.key == key r) = true := by simp [e]
        have hb' : (key r == g.key) = true := by simp [e]
        simp [hb, hb', inv.rowsEq g hg]
      · have hb : (g.key == key r) = false := by simp [e]
        have hb' : (key r == g.key) = false := by simp; exact fun h => e h.symm
        simp [hb, hb', inv.rowsEq g hg]
    · intro r' hr'
      rw [hkeys]
      rw [List.mem_append] at hr'
      rcases hr' with h | h
      · exact inv.cover r' h
      · simp at h; subst h; exact hk
    · intro g' hg'
      rw [List.mem_map] at hg'
      obtain ⟨g, hg, rfl⟩ := hg'
      rw [bump_key]
      obtain ⟨r0, h0, e0⟩ := inv.keyMem g hg
      exact ⟨r0, List.mem_append_left _ h0, e0⟩
  · -- a new key: a new group at the end
    rw [addToGroups_not_mem _ _ _ hk]
    have hnone : ∀ r' ∈ rows, key r' ≠ key r := by
      intro r' hr' e
      exact hk (e ▸ inv.cover r' hr')
    refine ⟨?_, ?_, ?_, ?_, ?_⟩
    · rw [List.map_append, List.map_append, List.eraseDups_append, ← inv.keysEq]
      have hm : key r ∉ rows.map key := by
        rw [← List.mem_eraseDups, ← inv.keysEq]; exact hk
      have : (List.map key [r]).removeAll (List.map key rows) = [key r] := by
        simp only [List.removeAll, List.map_cons, List.map_nil, List.filter_cons, List.filter_nil,
          List.elem_eq_mem, hm, decide_false, Bool.not_false, if_true]
      rw [this]
      simp [List.eraseDups_cons]
    · rw [List.map_append, List.nodup_append]
      refine ⟨inv.nodup, by simp, ?_⟩
      intro a ha b hb
      simp at hb
      subst hb
      intro e
      exact hk (e ▸ ha)
    · intro g hg
      rw [List.mem_append] at hg
      rw [List.filter_append]
      rcases hg with hg | hg
      · have hne : g.key ≠ key r := by
          intro e
          exact hk (e ▸ List.mem_map_of_mem hg)
        have hb' : (key r == g.key) = false := by simp; exact fun h => hne h.symm
        simp [hb', inv.rowsEq g hg]
      · simp at hg
        subst hg
        have : rows.filter (fun r' => key r' == key r) = [] := by
          rw [List.filter_eq_nil_iff]
          intro r' hr'
          simp
          exact hnone r' hr'
        simp [this]
    · intro r' hr'
      rw [List.mem_append] at hr'
      rw [List.map_append, List.mem_append]
      rcases hr' with h | h
      · exact Or.inl (inv.cover r' h)
      · simp at h; subst h; right; simp
    · intro g hg
      rw [List.mem_append] at hg
      rcases hg with hg | hg
      · obtain ⟨r0, h0, e0⟩ := inv.keyMem g hg
        exact ⟨r0, List.mem_append_left _ h0, e0⟩
      · simp at hg; subst hg
        exact ⟨r, by simp, rfl⟩

theorem groupsOf_inv (key : Row → List Val) : ∀ rows, GInv key rows (groupsOf key rows) := by
  apply snoc_induction
  · exact GInv.nil key
  · intro l a ih
    rw [groupsOf_snoc]
    exact ih.step a

/-! ### (a) one result row per distinct combination of grouping values -/

theorem groups_keys_nodup (key : Row → List Val) (rows : List Row) :
    ((groupsOf key rows).map (·.key)).Nodup :=
  (groupsOf_inv key rows).nodup

/-- keys appear in order of first occurrence -/
theorem groups_keys_first_occurrence (key : Row → List Val) (rows : List Row) :
    (groupsOf key rows).map (·.key) = (rows.map key).eraseDups :=
  (groupsOf_inv key rows).keysEq

/-! ### (c) each group is exactly the rows with its key, in input order -/

theorem groups_rows_eq_filter (key : Row → List Val) (rows : List Row) :
    ∀ g ∈ groupsOf key rows, g.rows = rows.filter (fun r => key r == g.key) :=
  (groupsOf_inv key rows).rowsEq

/-! ### (b) same group iff equal grouping values -/

theorem groups_rows_key (key : Row → List Val) (rows : List Row) :
    (∀ g ∈ groupsOf key rows, ∀ r ∈ g.rows, key r = g.key) ∧
    (∀ r ∈ rows, ∃ g ∈ groupsOf key rows, g.key = key r ∧ r ∈ g.rows) := by
  have inv := groupsOf_inv key rows
  constructor
  · intro g hg r hr
    rw [inv.rowsEq g hg, List.mem_filter] at hr
    exact eq_of_beq hr.2
  · intro r hr
    have := inv.cover r hr
    rw [List.mem_map] at this
    obtain ⟨g, hg, e⟩ := this
    refine ⟨g, hg, e, ?_⟩
    rw [inv.rowsEq g hg, List.mem_filter]
    exact ⟨hr, by simp [e]⟩

/-- a group's rows all come from the input, and no group is empty -/
theorem groups_rows_mem (key : Row → List Val) (rows : List Row) :
    ∀ g ∈ groupsOf key rows, (∀ r ∈ g.rows, r ∈ rows) ∧ g.rows ≠ [] := by
  intro g hg
  have inv := groupsOf_inv key rows
  constructor
  · intro r hr
    rw [inv.rowsEq g hg, List.mem_filter] at hr
    exact hr.1
  · obtain ⟨r0, h0, e0⟩ := inv.keyMem g hg
    intro hnil
    have : r0 ∈ g.rows := by
      rw [inv.rowsEq g hg, List.mem_filter]
      exact ⟨h0, by simp [e0]⟩
    rw [hnil] at this
    simp at this

theorem groups_flatMap_perm (key : Row → List Val) :
    ∀ rows, ((groupsOf key rows).flatMap (·.rows)).Perm rows := by
  apply snoc_induction
  · simp [groupsOf]
  · intro l a ih
    rw [groupsOf_snoc]
    exact (addToGroups_flatMap_perm _ _ _).trans (List.Perm.append_right _ ih)

theorem groups_partition (key : Row → List Val) (rows : List Row) :
    ((groupsOf key rows).flatMap (·.rows)).Perm rows ∧
    (∀ g ∈ groupsOf key rows, g.rows = rows.filter (fun r => key r == g.key)) :=
  ⟨groups_flatMap_perm key rows, groups_rows_eq_filter key rows⟩

/-! ### (d) COUNT -/

theorem count_fold (f : Row → Int) (nonNull : Row → Bool) :
    ∀ (rows : List Row) (acc : Int),
      (∀ r ∈ rows, f r = if nonNull r then 1 else 0) →
      rows.foldl (fun acc r => acc + f r) acc = acc + ((rows.filter nonNull).length : Int)
  | [], acc, _ => by simp
  | r :: rest, acc, h => by
    have hr := h r (by simp)
    have ih := count_fold f nonNull rest (acc + f r)
      (fun r' hr' => h r' (List.mem_cons_of_mem _ hr'))
    rw [List.foldl_cons, ih, hr]
    cases hn : nonNull r
    · simp [hn]
    · simp [hn]; omega

/-- COUNT(col): the number of rows of the group whose source value was not NULL. -/
theorem count_col_correct (c : Option ColRef) (colIdx : Nat) (g : Group) (nonNull : Row → Bool)
    (h : ∀ r ∈ g.rows, r[colIdx]? = some (.int (if nonNull r then 1 else 0))) :
    aggCell (.count c) colIdx g = .ok (.int (g.rows.filter nonNull).length) := by
  show X.ok _ = X.ok _
  rw [count_fold _ nonNull g.rows 0 ?_]
  · simp
  · intro r hr
    simp only [h r hr]

/-- COUNT(*): the number of rows of the group. -/
theorem count_star_correct (colIdx : Nat) (g : Group)
    (h : ∀ r ∈ g.rows, r[colIdx]? = some (.int 1)) :
    aggCell (.count none) colIdx g = .ok (.int g.rows.length) := by
  have := count_col_correct none colIdx g (fun _ => true) (by simpa using h)
  rw [List.filter_eq_self.2 (fun _ _ => rfl)] at this
  exact this

/-- the seed of COUNT(*) really is `1` in every row -/
theorem projectItem_count_star (fields : List Field) (row : Row) :
    projectItem (.count none) fields row = .ok (.int 1) := rfl

/-! ### (e) COUNT does not depend on the order of the rows -/

theorem count_perm_invariant (key : Row → List Val) {rows rows' : List Row}
    (hp : rows'.Perm rows) (k : List Val) :
    ((∃ g' ∈ groupsOf key rows', g'.key = k) ↔ (∃ g ∈ groupsOf key rows, g.key = k)) ∧
    (∀ g' ∈ groupsOf key rows', ∀ g ∈ groupsOf key rows, g'.key = k → g.key = k →
      g'.rows.Perm g.rows ∧ g'.rows.length = g.rows.length) := by
  have inv := groupsOf_inv key rows
  have inv' := groupsOf_inv key rows'
  have hex : ∀ (rs : List Row) (gs : List Group), GInv key rs gs →
      ((∃ g ∈ gs, g.key = k) ↔ ∃ r ∈ rs, key r = k) := by
    intro rs gs i
    constructor
    · rintro ⟨g, hg, e⟩
      obtain ⟨r0, h0, e0⟩ := i.keyMem g hg
      exact ⟨r0, h0, e0.trans e⟩
    · rintro ⟨r, hr, e⟩
      have := i.cover r hr
      rw [List.mem_map] at this
      obtain ⟨g, hg, eg⟩ := this
      exact ⟨g, hg, eg.trans e⟩
  constructor
  · rw [hex _ _ inv, hex _ _ inv']
    constructor
    · rintro ⟨r, hr, e⟩; exact ⟨r, hp.mem_iff.mp hr, e⟩
    · rintro ⟨r, hr, e⟩; exact ⟨r, hp.mem_iff.mpr hr, e⟩
  · intro g' hg' g hg e' e
    have hperm : g'.rows.Perm g.rows := by
      rw [inv.rowsEq g hg, inv'.rowsEq g' hg', e, e']
      exact hp.filter _
    exact ⟨hperm, hperm.length_eq⟩

/-! ### (f) AVG: sanity lemmas and the counterexample -/

theorem roundDiv_exact (q : Int) (n : Nat) (hn : 0 < n) : roundDiv (q * n) n = q := by
  unfold roundDiv
  have h0 : (n == 0) = false := by simp; omega
  have habs : (q * (n : Int)).natAbs = q.natAbs * n := by
    rw [Int.natAbs_mul]; simp
  simp only [h0, habs, Nat.mul_div_cancel _ hn, Nat.mul_mod_left]
  have h2 : ¬ (2 * 0 ≥ n) := by omega
  simp only [h2, if_false]
  by_cases hq : q < 0
  · have : q * (n : Int) < 0 := Int.mul_neg_of_neg_of_pos hq (by omega)
    simp only [Bool.false_eq_true, if_false, this, if_true]
    omega
  · have : ¬ (q * (n : Int) < 0) := by
      have : 0 ≤ q * (n : Int) := Int.mul_nonneg (by omega) (by omega)
      omega
    simp only [Bool.false_eq_true, if_false, this]
    omega

theorem runningAvg_single (x : Int) : runningAvg [x] = x := by
  have := roundDiv_exact x 1 (by omega)
  simp only [Int.natCast_one, Int.mul_one] at this
  simp [runningAvg, this]

theorem runningAvg_fold_const (x : Int) :
    ∀ (m k : Nat),
      (List.replicate m x).foldl
        (fun (acc : Int × Nat) x => (roundDiv (acc.1 * acc.2 + x) (acc.2 + 1), acc.2 + 1))
        (x, k) = (x, k + m)
  | 0, k => by simp
  | m + 1, k => by
    rw [List.replicate_succ, List.foldl_cons]
    have : roundDiv (x * (k : Int) + x) (k + 1) = x := by
      have := roundDiv_exact x (k + 1) (by omega)
      rw [← this]
      congr 1
      rw [this]
      simp [Int.mul_add]
    simp only [this]
    rw [runningAvg_fold_const x m (k + 1)]
    congr 1
    omega

theorem runningAvg_const (x : Int) (n : Nat) : runningAvg (List.replicate (n + 1) x) = x := by
  unfold runningAvg
  rw [List.replicate_succ, List.foldl_cons]
  have := roundDiv_exact x 1 (by omega)
  simp only [Int.natCast_one, Int.mul_one] at this
  simp only [Int.zero_mul, Int.zero_add, Nat.zero_add, this]
  rw [runningAvg_fold_const x n 1]

/-- "AVG = round(sum / count)" is FALSE of the engine: the cumulative average is rounded after
every row, so the result depends on the order of the rows. -/
theorem runningAvg_counterexample :
    runningAvg [2, 1, 1] = 2 ∧ runningAvg [1, 1, 2] = 1 ∧ roundDiv 4 3 = 1 := by decide

/-! ### examples -/

private def exKey : Row → List Val := fun r => [(r[0]?).getD .null]
private def exRows : List Row :=
  [[.str [97], .int 1], [.str [98], .int 1], [.str [97], .int 0], [.null, .int 1], [.str [98], .int 1]]

example : (groupsOf exKey exRows).map (·.key) = [[.str [97]], [.str [98]], [.null]] := by decide
example : (groupsOf exKey exRows).map (·.rows.length) = [2, 2, 1] := by decide
example : (groupsOf exKey exRows).map (fun g => aggCell (.count none) 1 g) =
    [.ok (.int 1), .ok (.int 2), .ok (.int 1)] := rfl
example : aggregateRows [⟨.expr (.val (.col ⟨[], [107]⟩)), []⟩, ⟨.count none, []⟩] [⟨[], [107]⟩] exRows
    = .ok [[.str [97], .int 1], [.str [98], .int 2], [.null, .int 1]] := rfl

end Mkdb.Exec.AggP
