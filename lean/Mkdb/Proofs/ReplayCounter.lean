import Mkdb.Proofs.ReplayInsert2
/-!
What the repair of the row-id counter in recovery achieves (corpus `C04/F27`: a torn flush writes the
page of an insert but not the header; recovery skipped the record of that insert because its page
already carried its LSN - and with it the raise of the row-id counter, so the next insert was handed
a row id the table already held).

`replayOne` now raises the row-id counter to the key of every INSERT record *before* the page-LSN
test.  Hence, whatever the store and whatever the log:

* `replayOne_counter`: one record of the replay - on every path, the error paths included - leaves
  the row-id counter at or above the raised counter (`raiseRec`); so (`replayOne_key`) at or above the
  key of an INSERT record, redone or skipped, and (`replayOne_lastKey_mono`) never below the old one.
* **`replayAll_counter`**: after a replay that ran to its end, the row-id counter is at least the key of
  *every* INSERT record of the log, and at least the counter before.
* `skipped_example`: a record skipped by page LSN on a store whose header is behind its pages: the
  counter is raised all the same.

The first part extends the `Keeps` lemmas of `RefineStmt3` ("leaves the row-id counter, the page-table
root and the LSN counter alone") to `insertKey` and to the catalog re-point of recovery.
-/
set_option autoImplicit false
namespace Mkdb.Store
open Mkdb.Page Mkdb.Tuple Mkdb.Generated Mkdb.Tree Mkdb.Engine

/-! ### `Keeps` for the operations of the replay -/

theorem Keeps.getS : Keeps getS := fun _ => rfl

theorem Keeps.decodeRow (sch : List FieldDef) (bs : Bytes) : Keeps (decodeRow sch bs) := by
  intro s
  unfold Store.decodeRow
  cases decodeTuple sch bs [] <;> rfl

theorem Keeps.encodeRow (sch : List FieldDef) (m : Vals) : Keeps (encodeRow sch m) := by
  intro s
  unfold Store.encodeRow
  cases encodeTuple sch m with
  | ok b => rfl
  | error e => cases e <;> rfl

/-- one structural step of a `Keeps` proof -/
macro "kp_step" : tactic =>
  `(tactic| first
    | exact Keeps.pure _
    | exact Keeps.getS
    | exact Keeps.fetch _
    | exact Keeps.putNode _ _
    | exact Keeps.appendNode _ _
    | exact Keeps.markDirty _ _
    | exact Keeps.throw _
    | exact Keeps.panicS _
    | exact Keeps.unmodelledS _
    | exact Keeps.outOfFuel
    | exact Keeps.decodeRow _ _
    | exact Keeps.encodeRow _ _
    | assumption
    | refine Keeps.bind ?_ (fun _ => ?_)
    | split)

theorem Keeps.leftmostLeaf : ∀ (fuel off : Nat), Keeps (leftmostLeaf fuel off)
  | 0, _ => Keeps.outOfFuel
  | fuel+1, off => by
    unfold Store.leftmostLeaf
    repeat (first | exact Keeps.leftmostLeaf fuel _ | kp_step)

theorem Keeps.scanLeaves : ∀ (fuel : Nat) (l : Leaf), Keeps (scanLeaves fuel l)
  | 0, _ => Keeps.outOfFuel
  | fuel+1, l => by
    unfold Store.scanLeaves
    repeat (first | exact Keeps.scanLeaves fuel _ | kp_step)

theorem Keeps.scanRight (root : Nat) : Keeps (scanRight root) := by
  unfold Store.scanRight
  exact (Keeps.leftmostLeaf _ _).bind fun _ => Keeps.scanLeaves _ _

theorem Keeps.findFirstM {α β} {f : α → SM (Option β)} (hf : ∀ a, Keeps (f a)) :
    ∀ l : List α, Keeps (findFirstM f l)
  | [] => Keeps.pure _
  | a :: rest => by
    unfold Store.findFirstM
    repeat (first | exact hf a | exact Keeps.findFirstM hf rest | kp_step)

theorem Keeps.updateCellAt (off key : Nat) (value : Bytes) (lsn : Nat) :
    Keeps (updateCellAt off key value lsn) := by
  unfold Store.updateCellAt
  repeat kp_step

/-- the catalog re-point of recovery touches no counter -/
theorem Keeps.repointPageTable (old new lsn : Nat) : Keeps (repointPageTable old new lsn) := by
  rw [repointPageTable_eq]
  unfold rpFind
  repeat (first
    | exact Keeps.scanRight _
    | exact Keeps.updateCellAt _ _ _ _
    | exact Keeps.findFirstM (fun _ => by repeat kp_step) _
    | kp_step)

/-- the tree insert of the engine (the `ghost` counter is no header field) -/
theorem Keeps.insertKey (bt : BT) (key lsn : Nat) (value : Bytes) :
    Keeps (Store.insertKey bt key lsn value) := by
  intro s
  have h := Keeps.insertKeyHeap bt key lsn value s
  unfold Store.insertKey
  simp only
  generalize ghostAgrees s bt key lsn value (Store.insertKeyHeap bt key lsn value s) = g
  cases g <;> cases e : Store.insertKeyHeap bt key lsn value s <;> rw [e] at h <;> first | exact h | trivial

/-! ### one record -/

/-- **One record of the replay never lowers the raised row-id counter**: on every path of `replayOne` -
redo, skip, tolerated key, silent abort, every error - the counter ends at or above the counter the
record raised at its start (`raiseRec`). -/
theorem replayOne_counter (r : WalRec) (s : Store) :
    (raiseRec s r).hdr.lastKey ≤ (replayOne r s).1.hdr.lastKey := by
  have key : ∀ {a b : Store}, hrest b = hrest a → a.hdr.lastKey ≤ b.hdr.lastKey := fun h => by
    rw [(hrest_eq h).1]; exact Nat.le_refl _
  unfold raiseRec
  unfold Engine.replayOne
  simp only
  generalize (if r.op == c_OpInsert then max s.hdr.lastKey r.cell else s.hdr.lastKey) = k
  split
  · rename_i node s1 hfe
    have h1 := key ((Keeps.fetch r.page).ok hfe)
    split
    · exact h1
    · split
      · split
        · rename_i bt s2 hik
          have h2 := Nat.le_trans h1 (key ((Keeps.insertKey _ _ _ _).ok hik))
          have h3 : _ ≤ max s2.hdr.lastKey r.cell := Nat.le_trans h2 (Nat.le_max_left _ _)
          split
          · split
            · rename_i hrp; exact Nat.le_trans h3 (key ((Keeps.repointPageTable _ _ _).ok hrp))
            · rename_i hrp; exact Nat.le_trans h3 (key ((Keeps.repointPageTable _ _ _).err hrp))
            · exact h3
            · exact h3
            · exact h3
          · exact h3
        · rename_i s2 hik
          exact Nat.le_trans (Nat.le_trans h1 (key ((Keeps.insertKey _ _ _ _).err hik))) (Nat.le_max_left _ _)
        · rename_i s2 _ hik
          exact Nat.le_trans h1 (key ((Keeps.insertKey _ _ _ _).err hik))
        · exact h1
        · exact h1
        · exact h1
      · split
        · split
          · split <;> exact h1
          · split
            · exact h1
            · exact h1
        · split
          · split
            · split <;> exact h1
            · split
              · exact h1
              · exact h1
          · exact h1
  · exact Nat.le_refl _

/-- one record never lowers the row-id counter -/
theorem replayOne_lastKey_mono (r : WalRec) (s : Store) : s.hdr.lastKey ≤ (replayOne r s).1.hdr.lastKey := by
  refine Nat.le_trans ?_ (replayOne_counter r s)
  show s.hdr.lastKey ≤ if r.op == c_OpInsert then max s.hdr.lastKey r.cell else s.hdr.lastKey
  split
  · exact Nat.le_max_left _ _
  · exact Nat.le_refl _

/-- **an INSERT record raises the row-id counter to its key - redone or skipped**, whatever the store,
whatever the outcome -/
theorem replayOne_key (r : WalRec) (s : Store) (hop : r.op = c_OpInsert) :
    r.cell ≤ (replayOne r s).1.hdr.lastKey := by
  refine Nat.le_trans ?_ (replayOne_counter r s)
  rw [raiseRec_insert s r hop]
  exact Nat.le_max_right _ _

/-! ### a whole log -/

/-- the replay of a log never lowers the row-id counter (whatever its outcome) -/
theorem replayAll_lastKey_mono (log : List WalRec) (s : Store) :
    s.hdr.lastKey ≤ (replayAll log s).1.hdr.lastKey := by
  induction log generalizing s with
  | nil => exact Nat.le_refl _
  | cons r rest ih =>
    have h1 := replayOne_lastKey_mono r s
    unfold Engine.replayAll
    split
    · rename_i s' he
      rw [he] at h1
      exact Nat.le_trans h1 (ih s')
    · exact h1

/-- **After recovery no logged row id is beyond the row-id counter.**  For any store and any log: if the
replay runs to its end, the row-id counter is at least the key of every INSERT record of the log -
whether the record was redone, tolerated (key present) or skipped because its page had already reached
the data file - and at least what it was before.  So the next insert (key `lastKey + 1`) is handed a
row id no logged insert used, also when the header on file was behind the pages. -/
theorem replayAll_counter (log : List WalRec) (s s' : Store) (h : replayAll log s = (s', none, false)) :
    (∀ r ∈ log, r.op = c_OpInsert → r.cell ≤ s'.hdr.lastKey) ∧ s.hdr.lastKey ≤ s'.hdr.lastKey := by
  refine ⟨?_, by have := replayAll_lastKey_mono log s; rw [h] at this; exact this⟩
  induction log generalizing s with
  | nil => intro r hr; cases hr
  | cons r0 rest ih =>
    unfold Engine.replayAll at h
    split at h
    · rename_i s1 he
      intro r hr hop
      rcases List.mem_cons.mp hr with e | hr'
      · have h1 := replayOne_key r0 s (e ▸ hop)
        rw [he] at h1
        have h2 := replayAll_lastKey_mono rest s1
        rw [h] at h2
        rw [e]
        exact Nat.le_trans h1 h2
      · exact ih s1 h r hr' hop
    · rename_i hne
      exact absurd h (hne s')

/-! ### the torn flush, concretely -/

/-- the data file after a torn flush: the page of the insert of row id 7 (LSN 5) was written, the
header was not - its row-id counter still says 3 -/
def tornStore : Store :=
  { hdr := { lastKey := 3, ptRoot := 0, nextFree := 8192, nextLSN := 2 },
    disk := [(4096, .leaf ⟨4096, 5, false, false, 0, 0, [⟨7, false, [1]⟩]⟩)] }

/-- the log holds the record of that insert -/
def tornLog : List WalRec := [⟨c_OpInsert, 5, 4096, 7, [1]⟩]

/-- **The record is skipped by page LSN (`5 ≤ 5`) - the page is left as it is - and the row-id counter
is raised to 7 all the same.**  (Before the repair the replay left the counter at 3, and the next four
inserts were handed the row ids 4 … 7, the last of which the table already held.) -/
theorem skipped_example :
    (replayAll tornLog tornStore).2 = (none, false) ∧
    view (replayAll tornLog tornStore).1 4096 = view tornStore 4096 ∧
    (replayAll tornLog tornStore).1.hdr.lastKey = 7 ∧ tornStore.hdr.lastKey = 3 := by decide

/-- `replayAll_counter` on the example -/
example : ∀ r ∈ tornLog, r.op = c_OpInsert → r.cell ≤ (replayAll tornLog tornStore).1.hdr.lastKey :=
  (replayAll_counter tornLog tornStore (replayAll tornLog tornStore).1 (by rw [← skipped_example.1])).1

end Mkdb.Store
