import Mkdb.Proofs.ScanText7
/-!
# The scanner on text in standard form, part 8: the concrete texts of the examples in `Props/C10Text.lean`
-/
namespace Mkdb.Scan.TextEx
open Mkdb.Scan Mkdb.Generated Mkdb.Sql

/-- the ASCII text of a string literal, as runes -/
def asciiText (s : String) : Input := (strCodes s).map asciiRune

def sp : Gap := [.ws 32]

/-- the tokens of `sElEcT a , COUNT(*) from t\n WHERE a <= 10 AND b != 'x y' GROUP BY a ;` (keyword text empty) -/
def exToks : List Token := [⟨t_SELECT, []⟩, ⟨t_IDENT, [97]⟩, ⟨t_COMMA, []⟩, ⟨t_COUNT, []⟩, ⟨t_LPAREN, []⟩,
  ⟨t_ASTRSK, []⟩, ⟨t_RPAREN, []⟩, ⟨t_FROM, []⟩, ⟨t_IDENT, [116]⟩, ⟨t_WHERE, []⟩, ⟨t_IDENT, [97]⟩, ⟨t_LTE, []⟩,
  ⟨t_INT, [49, 48]⟩, ⟨t_AND, []⟩, ⟨t_IDENT, [98]⟩, ⟨t_NEQ, []⟩, ⟨t_STR, [120, 32, 121]⟩, ⟨t_GROUP, []⟩, ⟨t_BY, []⟩,
  ⟨t_IDENT, [97]⟩, ⟨t_SEMICOLON, []⟩]
/-- its layout: single blanks, a line break, `COUNT(*)` written without blanks -/
def exGap (i : Nat) : Gap :=
  [[], sp, sp, sp, [], [], [], sp, sp, [.ws 10, .ws 32], sp, sp, sp, sp, sp, sp, sp, sp, sp, sp, sp, []].getD i []
/-- its keyword cases: `sElEcT`, `from`, the others upper case -/
def exCase (i : Nat) : List Bool :=
  if i == 0 then [true, false, true, false, true, false] else if i == 7 then [true, true, true, true] else []

/-- the hypotheses of `C10_scan_roundtrip` / `C10_text_parse` hold of it -/
theorem exToks_ok : (∀ t ∈ exToks, TokOK t = true) ∧ layoutOK exGap exCase 0 exToks = true := by decide

/-- Comments, tabs, CR LF, tokens that touch: `/* q */select\tt.a,b//x\r\nfrom t;\r\n`. -/
def exToks2 : List Token := [⟨t_SELECT, []⟩, ⟨t_IDENT, [116]⟩, ⟨t_DOT, []⟩, ⟨t_IDENT, [97]⟩, ⟨t_COMMA, []⟩,
  ⟨t_IDENT, [98]⟩, ⟨t_FROM, []⟩, ⟨t_IDENT, [116]⟩, ⟨t_SEMICOLON, []⟩]
def exGap2 (i : Nat) : Gap :=
  [[.block (asciiText " q ")], [.ws 9], [], [], [], [], [.line (asciiText "x\r")], sp, [], [.ws 13, .ws 10]].getD i []
def exCase2 (_ : Nat) : List Bool := [true, true, true, true, true, true]

theorem exToks2_ok : (∀ t ∈ exToks2, TokOK t = true) ∧ layoutOK exGap2 exCase2 0 exToks2 = true := by decide

end Mkdb.Scan.TextEx
