import Mkdb.Proofs.ReplayInsert3
/-!
Replay of INSERT log records, part 4: two facts about `insertAppend` that keep the side conditions
of the replay theorem true along a history.

* `insertAppend_rootLSN`: the root page of the new tree is the old root page, or a page stamped
  with the insert's LSN.
* `insertAppend_offs_pos`: no page of the new tree is at offset 0 if none of the old tree is and
  the allocation frontier is positive.
-/
set_option autoImplicit false
namespace Mkdb.Store
open Mkdb.Page Mkdb.Generated Mkdb.Tree

/-- the LSN of the first node of the top level (`dflt` when there is no level) -/
def topLSN (lvls : List (List (Internal × Bool))) (dflt : Nat) : Nat :=
  match lvls.getLast? with
  | some lvl => (lvl.head?.map (·.1.lsn)).getD 0
  | none => dflt

theorem rootLSN_eq (t : Levels) : rootLSN t = topLSN t.inner ((t.leaves.head?.map (·.1.lsn)).getD 0) := by
  unfold rootLSN topLSN
  cases t.inner.getLast? <;> rfl

theorem topLSN_cons_ne (X : List (Internal × Bool)) (B : List (List (Internal × Bool))) (d d' : Nat)
    (h : B ≠ []) : topLSN (X :: B) d = topLSN B d' := by
  cases B with
  | nil => exact absurd rfl h
  | cons b bs =>
    unfold topLSN
    rw [List.getLast?_cons_cons]
    cases hb : (b :: bs).getLast? with
    | none => simp at hb
    | some x => rfl

/-- every level is non-empty and the top level is a single node -/
def LevelsWF (lvls : List (List (Internal × Bool))) : Prop :=
  (∀ lvl ∈ lvls, lvl ≠ []) ∧ ∀ top, lvls.getLast? = some top → top.length = 1

theorem LevelsWF.tail {lvl : List (Internal × Bool)} {rest : List (List (Internal × Bool))}
    (h : LevelsWF (lvl :: rest)) : LevelsWF rest := by
  refine ⟨fun x hx => h.1 x (List.mem_cons_of_mem _ hx), ?_⟩
  intro top ht
  apply h.2 top
  cases rest with
  | nil => simp at ht
  | cons r rs => rw [List.getLast?_cons_cons]; exact ht

theorem levelsWF_of_inv {t : Levels} {nf : Nat} (hI : Inv t nf) : LevelsWF t.inner := by
  refine ⟨linked_levels_ne t.inner _ hI.link, ?_⟩
  intro top ht
  obtain ⟨lo, hin⟩ := List.getLast?_eq_some_iff.mp ht
  have h1 := linked_topRow_len t.inner _ hI.link
  rw [hin, topRow_snoc, List.length_map] at h1
  exact h1

/-- the top of the levels after a split was propagated: stamped with the LSN, or the old top -/
theorem bubble_top (lsn : Nat) : ∀ (lvls : List (List (Internal × Bool))) (sep l nc nf : Nat),
    LevelsWF lvls →
    (bubble lsn lvls sep l nc nf).1 ≠ [] ∧
    ∀ d d', topLSN (bubble lsn lvls sep l nc nf).1 d' = lsn ∨
      (lvls ≠ [] ∧ topLSN (bubble lsn lvls sep l nc nf).1 d' = topLSN lvls d)
  | [], sep, l, nc, nf, _ => by
    rw [bubble_nil]
    refine ⟨by simp, fun d d' => .inl ?_⟩
    simp [topLSN]
  | lvl :: rest, sep, l, nc, nf, hwf => by
    have hne : lvl ≠ [] := hwf.1 lvl List.mem_cons_self
    obtain ⟨pre, ⟨p, dp⟩, rfl⟩ : ∃ pre x, lvl = pre ++ [x] := by
      rcases eq_nil_or_snoc lvl with h | h
      · exact absurd h hne
      · exact h
    rw [bubble_cons_snoc]
    split
    · -- no split at this level
      refine ⟨by simp, fun d d' => ?_⟩
      cases rest with
      | nil =>
        left
        have hlen := hwf.2 (pre ++ [(p, dp)]) (by simp)
        have hpre : pre = [] := by
          simp only [List.length_append, List.length_cons, List.length_nil] at hlen
          exact List.eq_nil_of_length_eq_zero (by omega)
        subst hpre
        simp [topLSN, intApp]
      | cons r rs =>
        right
        refine ⟨by simp, ?_⟩
        exact (topLSN_cons_ne _ (r :: rs) d' d (by simp)).trans (topLSN_cons_ne _ (r :: rs) d d (by simp)).symm
    · -- split: the rest of the levels decides
      obtain ⟨hB, hT⟩ := bubble_top lsn rest (midCell (intApp p sep nc lsn)).key p.off nf (nf + c_pageSize)
        hwf.tail
      refine ⟨by simp, fun d d' => ?_⟩
      simp only
      rw [topLSN_cons_ne _ _ d' d' hB]
      rcases hT d d' with h | ⟨hr, h⟩
      · exact .inl h
      · right
        refine ⟨by simp, ?_⟩
        rw [h, topLSN_cons_ne _ _ d d hr]

/-- **The root page after an insert** is the old root page, or carries the insert's LSN. -/
theorem insertAppend_rootLSN (t t' : Levels) (k lsn nf nf' : Nat) (v : Bytes) (hI : Inv t nf)
    (h : insertAppend t k lsn v nf = .ok (t', nf')) : rootLSN t' = lsn ∨ rootLSN t' = rootLSN t := by
  obtain ⟨pre, last, d, hpre, _, _, hcase⟩ := insertAppend_inv_cases h
  rcases hcase with ⟨_, rfl, _⟩ | ⟨_, rfl, _⟩
  · -- no split
    cases hin : t.inner.getLast? with
    | none =>
      left
      have hnil : t.inner = [] := List.getLast?_eq_none_iff.mp hin
      have hl := hI.link
      unfold LinkOK at hl
      rw [hnil, hpre] at hl
      simp only [linked, List.length_map, List.length_append, List.length_cons, List.length_nil] at hl
      have hp : pre = [] := List.eq_nil_of_length_eq_zero (by omega)
      subst hp
      simp [rootLSN, hin, leafApp]
    | some top =>
      right
      simp [rootLSN, hin]
  · -- split
    obtain ⟨hB, hT⟩ := bubble_top lsn t.inner
      (((leafR (leafApp last k lsn v) lsn nf).cells.head?.map (·.key)).getD 0) last.off nf (nf + c_pageSize)
      (levelsWF_of_inv hI)
    rw [rootLSN_eq, rootLSN_eq]
    rcases hT ((t.leaves.head?.map (·.1.lsn)).getD 0) _ with h1 | ⟨_, h1⟩
    · exact .inl h1
    · exact .inr h1

/-- no page at offset 0 in the new tree -/
theorem insertAppend_offs_pos (t t' : Levels) (k lsn nf nf' : Nat) (v : Bytes)
    (h : insertAppend t k lsn v nf = .ok (t', nf')) (hnf : 0 < nf) (hpos : ∀ o ∈ offs t, 0 < o) :
    ∀ o ∈ offs t', 0 < o := by
  intro o ho
  rcases insertAppend_offs_new t t' k lsn nf nf' v h o ho with h1 | h1
  · exact hpos o h1
  · omega

end Mkdb.Store
