import Mkdb.Proofs.RoundtripStmt5
/-!
Token-level round trip (C10), part 6: closing semicolons and the end of the input; `Parser.Parse`
(`parseTokens`, with its own fuel `ts.length + 2`) reads every rendered statement back.
-/
namespace Mkdb.Sql
open Mkdb.Scan Mkdb.Generated

/-- what may close a statement: `k` semicolons, then an explicit EOF token or nothing (the scanner
ends the token list without an EOF token; the parser's `Cur()` supplies one) -/
def closing (o : ROpts) (k : Nat) (e : Bool) : List Token :=
  List.replicate k (K o t_SEMICOLON) ++ (if e then [K o t_EOF] else [])

theorem closing_length (o : ROpts) (k : Nat) (e : Bool) : (closing o k e).length = k + e.toNat := by
  cases e <;> simp [closing]

theorem headNot_closing (o : ROpts) (k : Nat) (e : Bool) : HeadNot stmtBad (closing o k e) := by
  cases k with
  | zero => cases e <;> simp only [closing, List.replicate_zero, List.nil_append] <;> first | trivial | exact rfl
  | succ k => exact rfl

theorem atEnd_closing (o : ROpts) (k : Nat) (e : Bool) : atEnd (closing o k e) = true := by
  have hd : dropSemis (closing o k e) = (if e then [K o t_EOF] else []) := by
    induction k with
    | zero =>
      cases e
      · rfl
      · simp only [closing, List.replicate_zero, List.nil_append, ↓reduceIte]
        rfl
    | succ k ih =>
      have h : ((K o t_SEMICOLON).ty == t_SEMICOLON) = true := rfl
      simp only [closing, List.replicate_succ, List.cons_append, dropSemis, h, ↓reduceIte] at ih ⊢
      exact ih
  unfold atEnd
  rw [hd]
  cases e <;> rfl

/-- the closings the parser accepts behind `s`: any for a statement with a complete clause
structure; at most one token behind a SELECT without FROM (`p.HasNext()`) -/
def closingOK (s : Stmt) (k : Nat) (e : Bool) : Bool := !needsShortTail s || decide (k + e.toNat ≤ 1)

/-- **`Parser.Parse` round trip** for any literal tokens that are good on the literals `ok` accepts. -/
theorem parseTokens_render (o : ROpts) (ok : Lit → Bool) (hlit : ∀ l, ok l = true → GoodLit o.lit l)
    (s : Stmt) (hw : wfStmt ok s = true) (k : Nat) (e : Bool) (hc : closingOK s k e = true) :
    parseTokens (renderStmt o s ++ closing o k e) = .ok s := by
  have hp := parseStmt_tok o ok hlit s hw (closing o k e) (headNot_closing o k e)
    (fun hn => by
      rw [closing_length]
      simpa [closingOK, hn] using hc)
    ((renderStmt o s ++ closing o k e).length + 2) (by simp only [List.length_append]; omega)
  simp only [parseTokens, hp, atEnd_closing, ↓reduceIte]

end Mkdb.Sql
