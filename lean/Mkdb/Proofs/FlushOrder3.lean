import Mkdb.Proofs.FlushOrder2
/-!
C16, the flush of the code (`flushOrd`) reaches every arrangement: for every order `F` of the pages that
were dirty there is an iteration order (the keys of `F`, last first) after which the recency list is
`F ++ clean pages`; and every `order` gives the state of an `order` that enumerates the dirty pages.
-/
namespace Mkdb.PageCache

variable {α : Type}

theorem filterMap_congr' {β γ : Type} {f g : β → Option γ} {l : List β} (h : ∀ x ∈ l, f x = g x) :
    l.filterMap f = l.filterMap g := by
  induction l with
  | nil => rfl
  | cons a t ih =>
    rw [List.filterMap_cons, List.filterMap_cons, h a List.mem_cons_self,
      ih fun x hx => h x (List.mem_cons_of_mem _ hx)]

/-- the entries the turns at `ks` put in front: last met first -/
def front (v : List (Ent α)) (ks : List Nat) : List (Ent α) :=
  ks.reverse.filterMap fun k => (find? v k).map clean

theorem visit_dirty {v : List (Ent α)} {k : Nat} {e : Ent α} (hf : find? v k = some e) (hd : e.dirty = true) :
    visit v k = clean e :: remove v k := by
  simp [visit, hf, hd]

/-- the loop over distinct keys of dirty pages, computed -/
theorem foldl_visit_keys (v : List (Ent α)) (hnd : (v.map (·.key)).Nodup) (ks : List Nat) (hks : ks.Nodup)
    (hd : ∀ k ∈ ks, ∃ e, find? v k = some e ∧ e.dirty = true) :
    ks.foldl visit v = front v ks ++ v.filter fun x => !decide (x.key ∈ ks) := by
  induction ks generalizing v with
  | nil =>
    simp only [List.foldl_nil, front, List.reverse_nil, List.filterMap_nil, List.nil_append]
    exact (List.filter_eq_self.mpr (by simp)).symm
  | cons k ks ih =>
    obtain ⟨e, hf, hde⟩ := hd k List.mem_cons_self
    obtain ⟨hm, hek⟩ := find?_some hf
    simp only [List.nodup_cons] at hks
    have hndv' : ((clean e :: remove v k).map (·.key)).Nodup := by
      simp only [List.map_cons, List.nodup_cons]
      refine ⟨?_, (List.Sublist.map _ (remove_sublist v k)).nodup hnd⟩
      show e.key ∉ _
      rw [hek]
      exact keys_remove_not_mem v k
    have hfind : ∀ k' ∈ ks, find? (clean e :: remove v k) k' = find? v k' := by
      intro k' hk'
      have hne : k' ≠ k := fun h => hks.1 (h ▸ hk')
      rw [find?_cons]
      have : ¬ (clean e).key = k' := fun h => hne (h.symm.trans hek)
      simp only [this, ↓reduceIte]
      exact find?_remove_ne v hne
    have hd' : ∀ k' ∈ ks, ∃ e', find? (clean e :: remove v k) k' = some e' ∧ e'.dirty = true := by
      intro k' hk'
      rw [hfind k' hk']
      exact hd k' (List.mem_cons_of_mem _ hk')
    rw [List.foldl_cons, visit_dirty hf hde, ih _ hndv' hks.2 hd']
    have hfront : front (clean e :: remove v k) ks = front v ks := by
      unfold front
      apply filterMap_congr'
      intro k' hk'
      rw [hfind k' (List.mem_reverse.mp hk')]
    have hfront2 : front v (k :: ks) = front v ks ++ [clean e] := by
      unfold front
      rw [List.reverse_cons, List.filterMap_append]
      simp [hf]
    have hrest : (clean e :: remove v k).filter (fun x => !decide (x.key ∈ ks)) =
        clean e :: v.filter fun x => !decide (x.key ∈ k :: ks) := by
      have hk : (!decide ((clean e).key ∈ ks)) = true := by
        have : (clean e).key = k := hek
        simp [this, hks.1]
      rw [List.filter_cons, hk]
      simp only [↓reduceIte, remove, List.filter_filter]
      congr 1
      apply List.filter_congr
      intro x _
      by_cases h1 : x.key = k <;> by_cases h2 : x.key ∈ ks <;> simp [h1, h2]
    rw [hfront, hfront2, hrest, List.append_assoc]
    rfl

/-- every arrangement `F` of the pages that were dirty is what the flush of the code leaves in front after
the iteration order "keys of `F`, last first", and that order names every dirty page -/
theorem flushOrd_reaches (s : St α) (hnd : (s.items.map (·.key)).Nodup) (F : List (Ent α))
    (hF : F.Perm ((s.items.filter fun e => e.dirty).map clean)) :
    (flushOrd s (F.map (·.key)).reverse).items = F ++ s.items.filter (fun e => !e.dirty) ∧
      ∀ e ∈ s.items, e.dirty = true → e.key ∈ (F.map (·.key)).reverse := by
  have hi : ∀ x ∈ F, ∃ e ∈ s.items, e.dirty = true ∧ x = clean e := by
    intro x hx
    obtain ⟨e, he, rfl⟩ := List.mem_map.mp (hF.subset hx)
    obtain ⟨he1, he2⟩ := List.mem_filter.mp he
    exact ⟨e, he1, he2, rfl⟩
  have hall : ∀ e ∈ s.items, e.dirty = true → e.key ∈ (F.map (·.key)).reverse := by
    intro e he hd
    have : clean e ∈ F := hF.symm.subset (List.mem_map.mpr ⟨e, List.mem_filter.mpr ⟨he, hd⟩, rfl⟩)
    exact List.mem_reverse.mpr (List.mem_map.mpr ⟨clean e, this, rfl⟩)
  refine ⟨?_, hall⟩
  have hks : ((F.map (·.key)).reverse).Nodup := by
    apply (List.reverse_perm _).nodup_iff.mpr
    apply (hF.map (·.key)).nodup_iff.mpr
    rw [keys_clean]
    exact (List.Sublist.map _ List.filter_sublist).nodup hnd
  have hd : ∀ k ∈ (F.map (·.key)).reverse, ∃ e, find? s.items k = some e ∧ e.dirty = true := by
    intro k hk
    obtain ⟨x, hx, rfl⟩ := List.mem_map.mp (List.mem_reverse.mp hk)
    obtain ⟨e, he, hde, rfl⟩ := hi x hx
    exact ⟨e, find?_of_mem hnd he, hde⟩
  have hfront : front s.items (F.map (·.key)).reverse = F := by
    unfold front
    rw [List.reverse_reverse, List.filterMap_map]
    conv => rhs; rw [← List.filterMap_some (l := F)]
    apply filterMap_congr'
    intro x hx
    obtain ⟨e, he, _, rfl⟩ := hi x hx
    show (find? s.items e.key).map clean = some (clean e)
    rw [find?_of_mem hnd he]
    rfl
  have hrest : (s.items.filter fun x => !decide (x.key ∈ (F.map (·.key)).reverse)) =
      s.items.filter fun x => !x.dirty := by
    apply List.filter_congr
    intro x hx
    cases hxd : x.dirty with
    | true => simp [hall x hx hxd]
    | false =>
      have : x.key ∉ (F.map (·.key)).reverse := by
        intro hk
        obtain ⟨y, hy, hyk⟩ := List.mem_map.mp (List.mem_reverse.mp hk)
        obtain ⟨e, he, hde, rfl⟩ := hi y hy
        have h1 := find?_of_mem hnd he
        have h2 := find?_of_mem hnd hx
        have hyk : e.key = x.key := hyk
        rw [hyk, h2] at h1
        cases h1
        rw [hxd] at hde; cases hde
      simp [this]
  have hv := foldl_visit_keys s.items hnd _ hks hd
  rw [hfront, hrest] at hv
  rw [flushOrd_items, hv]
  have hclean : ∀ x ∈ F ++ s.items.filter (fun e => !e.dirty), x.dirty = false := by
    intro x hx
    rcases List.mem_append.mp hx with hx | hx
    · obtain ⟨e, _, _, rfl⟩ := hi x hx; rfl
    · simpa using (List.mem_filter.mp hx).2
  have h1 : ((F ++ s.items.filter fun e => !e.dirty).filter fun e => e.dirty) = [] := by
    apply List.filter_eq_nil_iff.mpr
    intro x hx
    simp [hclean x hx]
  have h2 : ((F ++ s.items.filter fun e => !e.dirty).filter fun e => !e.dirty) =
      F ++ s.items.filter fun e => !e.dirty := by
    apply List.filter_eq_self.mpr
    intro x hx
    simp [hclean x hx]
  rw [h1, h2]
  rfl

/-- completing an `order` adds no behaviour: every `order` gives the state of one that names every dirty
resident page - an iteration order of the code -/
theorem flushOrd_complete_order (s : St α) (hnd : (s.items.map (·.key)).Nodup) (order : List Nat) :
    ∃ order', (∀ e ∈ s.items, e.dirty = true → e.key ∈ order') ∧ flushOrd s order = flushOrd s order' := by
  obtain ⟨F, h1, h2⟩ := flushOrd_shape s hnd order
  obtain ⟨h3, h4⟩ := flushOrd_reaches s hnd F h2
  refine ⟨(F.map (·.key)).reverse, h4, ?_⟩
  have hi : (flushOrd s order).items = (flushOrd s (F.map (·.key)).reverse).items := by rw [h1, h3]
  show ({ s with disk := (flush s).disk, items := (flushOrd s order).items } : St α) =
    { s with disk := (flush s).disk, items := (flushOrd s (F.map (·.key)).reverse).items }
  rw [hi]

end Mkdb.PageCache
