import Mkdb.Proofs.SpecRefineB5
/-!
# End-to-end refinement, part B: refusals, totality, CREATE TABLE, one theorem over `Sql.Stmt`

Continues `Mkdb/Proofs/SpecRefine.lean` (abstraction `Abs` / `AbsV`, INSERT / DELETE / UPDATE the spec
accepts, refused INSERT).

* **`SpecRefineB1`** - refusals of DELETE and UPDATE (C14): `filterIds_fail` (a WHERE the spec cannot
  evaluate is an executor error of the model, never a panic), `evalDelete_refused_spec(V)`,
  `UpdRefusal`, `evalUpdate_refused_spec(V)` (column source, unknown table, unknown / repeated SET
  column, WHERE not evaluable, first selected row not rewritable): nothing is changed (`Same`), the log is untouched.
* **`SpecRefineB2`** - totality: `Total`, `evalInsert_total`, `evalDelete_total`, `evalUpdate_total`.
* **`SpecRefineB3`** - CREATE TABLE: `colField_eq`, `NoStale`, `evalCreateTable_refines_specV`,
  `CreateRefusal`, `evalCreateTable_refused_specV`, `evalCreateTable_catalog_refused`.
* **`SpecRefineB4`** - `evalStmt`, `Rel`, `StmtRoom`, `evalStmt_refines_spec`, `StmtRefusal`,
  `evalStmt_refused_spec`, `evalStmt_total`; the evaluators keep the cache filed (`evalInsert_filed` …).
* **`SpecRefineB5`** - UPDATE refused at a later selected row, exactly: `evalUpdate_go_prefix`,
  `rewriteFirst`, `rows_rewriteFirst`, `evalUpdate_kth_refused_spec`, `kth_state_in_prefixStates` (the
  table left behind is one of the states `Spec.prefixStates` lists).
* below: **non-vacuity** on the concrete store `st1` of `SpecRefine.lean` (table `t (a INT)`).
-/
set_option autoImplicit false
namespace Mkdb.Store
open Mkdb.Page Mkdb.Tuple Mkdb.Generated Mkdb.Tree

/-! ### the relation `Rel` holds of the concrete store -/

theorem decRow_schRow : decRow schemaTableSchema schRow =
    some [("field_length", .int 0), ("field_type", .int 0), ("field_name", .str [97]), ("table_name", .str [116])] := by
  decide

theorem noStale1 : NoStale sch1 [(tname, t0)] := by
  intro n hn _ _
  have hne : n ≠ tname := by simpa using hn
  unfold schemaOf
  have : live sch1 = [⟨4, false, schRow⟩] := by decide
  rw [this]
  simp only [mapO, decRow_schRow]
  have hg : (get [("field_length", Val.int 0), ("field_type", Val.int 0), ("field_name", Val.str [97]),
      ("table_name", Val.str [116])] "table_name" == Val.str n) = false := by
    have : get [("field_length", Val.int 0), ("field_type", Val.int 0), ("field_name", Val.str [97]),
        ("table_name", Val.str [116])] "table_name" = Val.str [116] := by decide
    rw [this, val_str_beq]
    simp only [decide_eq_false_iff_not]
    intro h; exact hne h.symm
  simp only [List.filter_cons, hg, List.filter_nil]
  rfl

theorem st1_memFiled : MemFiled st1 := by
  intro p hp
  simp only [st1, List.mem_cons, List.not_mem_nil, or_false] at hp
  rcases hp with rfl | rfl | rfl <;> rfl

/-- **Non-vacuity of `Rel`.** -/
theorem rel1 : Rel dbA pt0 sch1 [(tname, t0)] sdbA0 := ⟨abs1.toV, noStale1, st1_memFiled⟩

/-! ### CREATE TABLE u (b VARCHAR(10)) -/

def bcols : List Sql.ColDef := [⟨[98], .varchar 10⟩]
theorem bcheck : checkCatalogRows (bcols.map Engine.colTypeToField) uname = none := by decide +kernel

/-- **Non-vacuity of `evalStmt_refines_spec` (CREATE TABLE).**  On the concrete store the statement
`CREATE TABLE u (b VARCHAR(10))` succeeds and the relation holds afterwards with the spec database
the spec computes: the old table and the new empty one. -/
theorem create_stmt_example :
    ∃ db' pt' sch' tbls', evalStmt dbA [] (.createTable uname bcols) = .ok () db' ∧
      Rel db' pt' sch' tbls' (sdbA0 ++ [⟨uname, [⟨"b", .varchar, 10⟩], []⟩]) := by
  apply evalStmt_refines_spec dbA [] pt0 sch1 [(tname, t0)] sdbA0 _ rel1 (.createTable uname bcols)
  · refine ⟨?_, bcheck, by decide, by decide, by decide, by decide, by decide⟩
    intro c hc k hk
    simp only [bcols, List.mem_singleton] at hc
    subst hc
    simp only [Sql.ColType.varchar.injEq] at hk
    omega
  · have h1 : (uname == "sys_pages".toUTF8.toList) = false := by
      have := sysPages_eq
      unfold sysPages at this
      rw [this]; decide
    have h2 : (uname == "sys_schema".toUTF8.toList) = false := by
      have := sysSchema_eq
      unfold sysSchema at this
      rw [this]; decide
    have h0 : (Spec.findTable sdbA0 uname).isSome = false := rfl
    simp only [Spec.specStmt, Spec.specCreate, h0, h1, h2, Bool.or_self, Bool.false_eq_true, if_false]
    rfl

/-- … and it is refused when the name is taken (`CREATE TABLE t …`): nothing changes. -/
theorem create_refused_example :
    Spec.specStmt sdbA0 (.createTable tname bcols) = none ∧
    ∃ e db', evalStmt dbA [] (.createTable tname bcols) = .err e db' ∧ db'.wal = dbA.wal ∧
      Rel db' pt0 sch1 [(tname, t0)] sdbA0 :=
  evalStmt_refused_spec dbA [] pt0 sch1 [(tname, t0)] sdbA0 rel1 _ (.create tname bcols (.exists_ rfl))

/-- **Non-vacuity of the refusals by column name.**  On the concrete store, `UPDATE t SET b = 1` (the
table `t (a INT)` has no column `b`; no row need be selected) and
`CREATE TABLE u (b VARCHAR(10), b VARCHAR(10))` (one column name twice) are refused by the spec and by
the model; the log is untouched and the relation holds with the same catalog and spec database. -/
theorem names_refusals_example :
    (Spec.specStmt sdbA0 (.update tname [([98], .lit (.int 1))] none) = none ∧
      ∃ e db', evalStmt dbA [] (.update tname [([98], .lit (.int 1))] none) = .err e db' ∧ db'.wal = dbA.wal ∧
        Rel db' pt0 sch1 [(tname, t0)] sdbA0) ∧
    (Spec.specStmt sdbA0 (.createTable uname (bcols ++ bcols)) = none ∧
      ∃ e db', evalStmt dbA [] (.createTable uname (bcols ++ bcols)) = .err e db' ∧ db'.wal = dbA.wal ∧
        Rel db' pt0 sch1 [(tname, t0)] sdbA0) := by
  constructor
  · exact evalStmt_refused_spec dbA [] pt0 sch1 [(tname, t0)] sdbA0 rel1 _
      (.update tname _ none (.names ⟨tname, schemaA, []⟩
        (by intro p hp c hc; simp only [List.mem_singleton] at hp; subst hp; cases hc) rfl (by decide)))
  · have h1 : uname ≠ sysPages := by rw [sysPages_eq]; decide
    have h2 : uname ≠ sysSchema := by rw [sysSchema_eq]; decide
    exact evalStmt_refused_spec dbA [] pt0 sch1 [(tname, t0)] sdbA0 rel1 _
      (.create uname _ (.dupColumn rfl h1 h2 (by simp [bcols])))

/-! ### refused DELETE / UPDATE on the table with the rows `(5), (6)` -/

/-- `b = 1`: no such column -/
def condB : Sql.Cond := .pred ⟨.col ⟨[], [98]⟩, t_EQ, .lit (.int 1)⟩

theorem selB : Spec.selects ⟨tname, schemaA, [⟨none, [.int 5]⟩, ⟨none, [.int 6]⟩]⟩ (some condB) = none := by
  simp only [Spec.selects, fieldsA]
  rfl

theorem specB_delete : Spec.specDelete sdbA1 tname (some condB) = none := by
  have hf : Spec.findTable sdbA1 tname = some ⟨tname, schemaA, [⟨none, [.int 5]⟩, ⟨none, [.int 6]⟩]⟩ := rfl
  unfold Spec.specDelete
  rw [hf]
  simp only [Option.bind_eq_bind, Option.bind_some, selB]
  rfl

theorem selA5 : Spec.selects ⟨tname, schemaA, [⟨none, [.int 5]⟩, ⟨none, [.int 6]⟩]⟩ (some (condEq 5)) =
    some [true, false] := by
  simp only [Spec.selects, fieldsA]
  rfl

/-- **Non-vacuity of the DELETE / UPDATE refusals and of totality.**  After
`INSERT INTO t VALUES (5), (6)` on the concrete store:
`DELETE FROM t WHERE b = 1` (no such column) fails with an executor error;
`UPDATE t SET a = 3000000000 WHERE a = 5` (the first selected row cannot be rewritten: INT out of
range) fails; `UPDATE t SET a = a` fails with `unsupported`; each time pages, header and log are as
before and the store still abstracts to the table holding `(5), (6)`. -/
theorem refusals_example :
    ∃ db1 pt1 tbls1,
      Engine.evalInsert dbA tname [] [[.int 5], [.int 6]] = .ok 2 db1 ∧
      AbsV db1.store pt1 sch1 tbls1 sdbA1 ∧
      (∃ x db', Engine.evalDelete db1 tname (some condB) = .err (.exec x) db' ∧ db'.wal = db1.wal ∧
        Same db1.store db'.store ∧ AbsV db'.store pt1 sch1 tbls1 sdbA1) ∧
      (∃ e db', Engine.evalUpdate db1 tname [([97], .lit (.int 3000000000))] (some (condEq 5)) = .err e db' ∧
        db'.wal = db1.wal ∧ Same db1.store db'.store ∧ AbsV db'.store pt1 sch1 tbls1 sdbA1) ∧
      (∃ db', Engine.evalUpdate db1 tname [([97], .col ⟨[], [97]⟩)] none = .err .unsupported db' ∧
        db'.wal = db1.wal) ∧
      Total db1 (Engine.evalUpdate db1 tname [([97], .lit (.int 3000000000))] none) := by
  obtain ⟨db1, pt1, t1', logs1, e1, _, _, habs1, _⟩ := evalInsert_refines_specV dbA pt0 sch1 [(tname, t0)]
    sdbA0 sdbA1 abs1.toV tname t0 (List.mem_singleton.mpr rfl) schemaA sch1_t [] [[.int 5], [.int 6]]
    (by
      intro r hr v hv
      simp only [List.mem_cons, List.not_mem_nil, or_false] at hr
      rcases hr with rfl | rfl
      · simp only [List.mem_singleton] at hv; subst hv; exact ⟨by decide, by decide⟩
      · simp only [List.mem_singleton] at hv; subst hv; exact ⟨by decide, by decide⟩)
    specA1 runA
  refine ⟨db1, pt1, _, e1, habs1, ?_, ?_, ?_, ?_⟩
  · obtain ⟨e, db', he, _, _, hsome, hw, hs, habs'⟩ := evalDelete_refused_specV db1 pt1 sch1 _ sdbA1 habs1 tname
      (some condB) (fun h0 => by cases h0) specB_delete
    obtain ⟨x, rfl⟩ := hsome rfl
    exact ⟨x, db', he, hw, hs, habs'⟩
  · obtain ⟨_, e, db', he, _, hw, hs, habs'⟩ := evalUpdate_refused_specV db1 pt1 sch1 _ sdbA1 habs1 tname
      [([97], .lit (.int 3000000000))] (some (condEq 5))
      (.firstRow ⟨tname, schemaA, [⟨none, [.int 5]⟩, ⟨none, [.int 6]⟩]⟩ [true, false] [.int 5] []
        (by intro p hp c hc; simp only [List.mem_singleton] at hp; subst hp; cases hc) rfl selA5 rfl rfl)
    exact ⟨e, db', he, hw, hs, habs'⟩
  · exact ⟨db1, evalUpdate_col db1 tname _ none ⟨_, List.mem_singleton.mpr rfl, _, rfl⟩, rfl⟩
  · exact evalUpdate_total db1 pt1 sch1 _ sdbA1 habs1 tname _ none
      (fun hn => by exfalso; apply hn; rw [setTable_names]; simp)

end Mkdb.Store
