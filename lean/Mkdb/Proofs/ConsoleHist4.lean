import Mkdb.Proofs.ConsoleHist3
import Mkdb.Proofs.ConsoleEditBytes
/-!
Console model, the editing keys at the byte level: the bytes a terminal sends for backspace, ^U, the
arrow keys, Home/End, Alt-arrows, ^L, ^W, ^K are decoded by `bytesToKey` to those keys, and `session` on the
bytes of a sequence of typed and editing keys is `run` on the keys.
-/
namespace Mkdb.Console

local macro "pa_branch" : tactic =>
  `(tactic| (((try dsimp only); repeat' split) <;> (first | rfl | simp only [addKeyToLine, eraseNPreviousChars, setLine])))

theorem handleKey_paste_same (t : Term) (k : Nat) : (handleKey t k).1.pasteActive = t.pasteActive := by
  unfold handleKey
  by_cases c0 : (t.pasteActive && k != keyEnter) = true
  · rw [if_pos c0]; try pa_branch
  rw [if_neg c0]
  by_cases c1 : (k == keyBackspace) = true
  · rw [if_pos c1]; try pa_branch
  rw [if_neg c1]
  by_cases c2 : (k == keyAltLeft) = true
  · rw [if_pos c2]; try pa_branch
  rw [if_neg c2]
  by_cases c3 : (k == keyAltRight) = true
  · rw [if_pos c3]; try pa_branch
  rw [if_neg c3]
  by_cases c4 : (k == keyLeft) = true
  · rw [if_pos c4]; try pa_branch
  rw [if_neg c4]
  by_cases c5 : (k == keyRight) = true
  · rw [if_pos c5]; try pa_branch
  rw [if_neg c5]
  by_cases c6 : (k == keyHome) = true
  · rw [if_pos c6]; try pa_branch
  rw [if_neg c6]
  by_cases c7 : (k == keyEnd) = true
  · rw [if_pos c7]; try pa_branch
  rw [if_neg c7]
  by_cases c8 : (k == keyUp) = true
  · rw [if_pos c8]; try pa_branch
  rw [if_neg c8]
  by_cases c9 : (k == keyDown) = true
  · rw [if_pos c9]; try pa_branch
  rw [if_neg c9]
  by_cases c10 : (k == keyDeleteWord) = true
  · rw [if_pos c10]; try pa_branch
  rw [if_neg c10]
  by_cases c11 : (k == keyDeleteLine) = true
  · rw [if_pos c11]; try pa_branch
  rw [if_neg c11]
  by_cases c12 : (k == keyCtrlD) = true
  · rw [if_pos c12]; try pa_branch
  rw [if_neg c12]
  by_cases c13 : (k == keyCtrlU) = true
  · rw [if_pos c13]; try pa_branch
  rw [if_neg c13]
  by_cases c14 : (k == keyClearScreen) = true
  · rw [if_pos c14]; try pa_branch
  rw [if_neg c14]
  pa_branch

theorem step_paste_same (t : Term) (k : Nat) : (step t k).1.pasteActive = t.pasteActive := by
  have := handleKey_paste_same t k
  unfold step
  split
  · rename_i t' s heq
    rw [heq] at this
    rw [addHistory_paste]; exact this
  · rename_i t' heq
    rw [heq] at this
    exact this

def keyBytes (k : Nat) : List Nat :=
  if k = keyBackspace then [127] else if k = keyCtrlU then [21]
  else if k = keyUp then [27, 91, 65] else if k = keyDown then [27, 91, 66]
  else if k = keyRight then [27, 91, 67] else if k = keyLeft then [27, 91, 68]
  else if k = keyHome then [27, 91, 72] else if k = keyEnd then [27, 91, 70]
  else if k = keyAltLeft then [27, 91, 49, 59, 51, 68] else if k = keyAltRight then [27, 91, 49, 59, 51, 67]
  else if k = keyClearScreen then [12] else if k = keyDeleteWord then [23] else if k = keyDeleteLine then [11]
  else encodeRune k

def isEditKey (k : Nat) : Bool :=
  k == keyBackspace || k == keyCtrlU || k == keyUp || k == keyDown || k == keyRight || k == keyLeft ||
  k == keyHome || k == keyEnd || k == keyAltLeft || k == keyAltRight || k == keyClearScreen ||
  k == keyDeleteWord || k == keyDeleteLine

theorem editKey_bytes {k : Nat} (h : isEditKey k = true) (r : List Nat) :
    bytesToKey (keyBytes k ++ r) false = some (k, r) := by
  simp only [isEditKey, Bool.or_eq_true, beq_iff_eq] at h
  rcases h with (((((((((((h | h) | h) | h) | h) | h) | h) | h) | h) | h) | h) | h) | h <;> subst h
  · simp [keyBytes, bytesToKey, ctrlKey, keyEscape, keyBackspace, decode1]
  · simp [keyBytes, bytesToKey, ctrlKey, keyEscape, keyBackspace, keyCtrlU, decode1]
  · simp [keyBytes, bytesToKey, ctrlKey, csiKey, keyEscape, keyBackspace, keyCtrlU, keyUp]
  · simp [keyBytes, bytesToKey, ctrlKey, csiKey, keyEscape, keyBackspace, keyCtrlU, keyUp, keyDown]
  · simp [keyBytes, bytesToKey, ctrlKey, csiKey, keyEscape, keyBackspace, keyCtrlU, keyUp, keyDown, keyRight]
  · simp [keyBytes, bytesToKey, ctrlKey, csiKey, keyEscape, keyBackspace, keyCtrlU, keyUp, keyDown, keyRight, keyLeft]
  · simp [keyBytes, bytesToKey, ctrlKey, csiKey, keyEscape, keyBackspace, keyCtrlU, keyUp, keyDown, keyRight, keyLeft, keyHome]
  · simp [keyBytes, bytesToKey, ctrlKey, csiKey, keyEscape, keyBackspace, keyCtrlU, keyUp, keyDown, keyRight, keyLeft, keyHome, keyEnd]
  · simp [keyBytes, bytesToKey, ctrlKey, csiKey, keyEscape, keyBackspace, keyCtrlU, keyUp, keyDown, keyRight, keyLeft, keyHome, keyEnd, keyAltLeft]
  · simp [keyBytes, bytesToKey, ctrlKey, csiKey, keyEscape, keyBackspace, keyCtrlU, keyUp, keyDown, keyRight, keyLeft, keyHome, keyEnd, keyAltLeft, keyAltRight]
  · simp [keyBytes, bytesToKey, ctrlKey, keyBackspace, keyCtrlU, keyUp, keyDown, keyRight, keyLeft, keyHome, keyEnd, keyAltLeft, keyAltRight, keyClearScreen]
  · simp [keyBytes, bytesToKey, ctrlKey, keyBackspace, keyCtrlU, keyUp, keyDown, keyRight, keyLeft, keyHome, keyEnd, keyAltLeft, keyAltRight, keyClearScreen, keyDeleteWord]
  · simp [keyBytes, bytesToKey, ctrlKey, keyBackspace, keyCtrlU, keyUp, keyDown, keyRight, keyLeft, keyHome, keyEnd, keyAltLeft, keyAltRight, keyClearScreen, keyDeleteWord, keyDeleteLine]

/-- a typed key (printable or Enter, a Unicode scalar value) or one of the editing keys -/
def EditKey (k : Nat) : Prop := TypedKey k ∨ isEditKey k = true

instance (k : Nat) : Decidable (EditKey k) := by unfold EditKey; exact inferInstance

theorem keyBytes_typed {k : Nat} (h : TypedKey k) : keyBytes k = encodeRune k := by
  have hne : k ≠ keyBackspace ∧ k ≠ keyAltLeft ∧ k ≠ keyAltRight ∧ k ≠ keyLeft ∧ k ≠ keyRight ∧ k ≠ keyHome ∧
      k ≠ keyEnd ∧ k ≠ keyUp ∧ k ≠ keyDown ∧ k ≠ keyDeleteWord ∧ k ≠ keyDeleteLine ∧ k ≠ keyCtrlD ∧
      k ≠ keyCtrlU ∧ k ≠ keyClearScreen := by
    rcases h.1 with e | ⟨hp, _⟩
    · subst e; decide
    · exact printable_ne hp
  obtain ⟨h1, h2, h3, h4, h5, h6, h7, h8, h9, h10, h11, _, h13, h14⟩ := hne
  simp [keyBytes, h1, h2, h3, h4, h5, h6, h7, h8, h9, h10, h11, h13, h14]

theorem editKey_facts {k : Nat} (h : isEditKey k = true) :
    k ≠ keyCtrlD ∧ k ≠ keyCtrlC ∧ k ≠ keyPasteStart ∧ 1 ≤ (keyBytes k).length := by
  simp only [isEditKey, Bool.or_eq_true, beq_iff_eq] at h
  rcases h with (((((((((((h | h) | h) | h) | h) | h) | h) | h) | h) | h) | h) | h) | h <;> subst h <;> decide

/-- the bytes of a key are decoded to that key outside paste mode, whatever follows; the key is none
of those `readLine` takes for itself -/
theorem key_bytes {k : Nat} (h : EditKey k) (r : List Nat) :
    bytesToKey (keyBytes k ++ r) false = some (k, r) ∧ k ≠ keyCtrlD ∧ k ≠ keyCtrlC ∧ k ≠ keyPasteStart ∧
      1 ≤ (keyBytes k).length := by
  rcases h with h | h
  · obtain ⟨h1, h2, h3⟩ := typedKey_facts h
    have hk' : k = 13 ∨ isPrintable k = true := h.1.elim Or.inl (fun h => Or.inr h.1)
    rw [keyBytes_typed h]
    exact ⟨bytesToKey_encode hk' h.2 r false, h1, h2, h3, encodeRune_ne_nil k⟩
  · obtain ⟨h1, h2, h3, h4⟩ := editKey_facts h
    exact ⟨editKey_bytes h r, h1, h2, h3, h4⟩

/-- the bytes of a key sequence -/
def keysBytes (keys : List Nat) : List Nat := keys.flatMap keyBytes

theorem keysBytes_length : ∀ keys : List Nat, (∀ k ∈ keys, EditKey k) → keys.length ≤ (keysBytes keys).length
  | [], _ => Nat.le_refl _
  | k :: ks, hv => by
    have := keysBytes_length ks (fun x hx => hv x (List.mem_cons_of_mem _ hx))
    have := (key_bytes (hv k List.mem_cons_self) []).2.2.2.2
    simp only [keysBytes, List.flatMap_cons, List.length_append, List.length_cons] at *
    omega

theorem keyLoop_edit : ∀ (keys : List Nat) (fuel : Nat) (t : Term) (lip : Bool),
    t.pasteActive = false → (∀ k ∈ keys, EditKey k) → keys.length < fuel →
    keyLoop fuel t lip (keysBytes keys) =
      ((firstLine t keys).1, keysBytes (firstLine t keys).2.1, (firstLine t keys).2.2)
  | [], fuel, t, lip, _, _, hf => by
    cases fuel with
    | zero => cases hf
    | succ f => simp [keyLoop, bytesToKey, keysBytes, firstLine]
  | k :: ks, fuel, t, lip, hpa, hv, hf => by
    cases fuel with
    | zero => cases hf
    | succ f =>
      have hk := hv k List.mem_cons_self
      obtain ⟨hb, h1, h2, h3, _⟩ := key_bytes hk (keysBytes ks)
      have henc : keysBytes (k :: ks) = keyBytes k ++ keysBytes ks := by
        simp [keysBytes]
      rw [henc, keyLoop, hpa, hb]
      have e1 : (k == keyCtrlD) = false := by simpa using h1
      have e2 : (k == keyCtrlC) = false := by simpa using h2
      have e3 : (k == keyPasteStart) = false := by simpa using h3
      simp only [Bool.not_false, if_true, e1, e2, e3, Bool.false_and, Bool.false_eq_true, if_false]
      have hpa' : (step t k).1.pasteActive = false := by rw [step_paste_same]; exact hpa
      cases h : step t k with
      | mk t' o =>
        rw [h] at hpa'
        cases o with
        | some s => simp only [firstLine, h]
        | none =>
          simp only [firstLine, h]
          exact keyLoop_edit ks f t' false hpa' (fun x hx => hv x (List.mem_cons_of_mem _ hx))
            (by simp only [List.length_cons] at hf; omega)

theorem firstLine_run_edit : ∀ (keys : List Nat) (t : Term), t.pasteActive = false →
    (∀ k ∈ keys, EditKey k) →
    (∃ s, (firstLine t keys).2.2 = .line s ∧
        run t keys = s :: run (firstLine t keys).1 (firstLine t keys).2.1 ∧
        (firstLine t keys).2.1.length < keys.length ∧
        (∀ k ∈ (firstLine t keys).2.1, EditKey k) ∧ (firstLine t keys).1.pasteActive = false) ∨
      ((firstLine t keys).2.2 = .eof ∧ run t keys = [])
  | [], _, _, _ => Or.inr ⟨rfl, rfl⟩
  | k :: ks, t, hpa, hv => by
    have hvr : ∀ x ∈ ks, EditKey x := fun x hx => hv x (List.mem_cons_of_mem _ hx)
    have hpa' : (step t k).1.pasteActive = false := by rw [step_paste_same]; exact hpa
    cases h : step t k with
    | mk t' o =>
      rw [h] at hpa'
      cases o with
      | some s =>
        refine Or.inl ⟨s, ?_, ?_, ?_, ?_, ?_⟩ <;> simp only [firstLine, h, run]
        · exact Nat.lt_succ_self _
        · exact hvr
        · exact hpa'
      | none =>
        rcases firstLine_run_edit ks t' hpa' hvr with ⟨s, a, b, c, d, e⟩ | ⟨a, b⟩
        · refine Or.inl ⟨s, ?_, ?_, ?_, ?_, ?_⟩ <;> simp only [firstLine, h, run]
          · exact a
          · exact b
          · simp only [List.length_cons]; omega
          · exact d
          · exact e
        · refine Or.inr ⟨?_, ?_⟩ <;> simp only [firstLine, h, run]
          · exact a
          · exact b

theorem sessionFrom_edit : ∀ (fuel : Nat) (keys : List Nat) (t : Term), t.pasteActive = false →
    (∀ k ∈ keys, EditKey k) → keys.length < fuel →
    sessionFrom fuel t (keysBytes keys) = run t keys
  | 0, _, _, _, _, hf => by cases hf
  | fuel + 1, keys, t, hpa, hv, hf => by
    have hl := keysBytes_length keys hv
    have hk := keyLoop_edit keys ((keysBytes keys).length + 1) t t.pasteActive hpa hv (by omega)
    rw [sessionFrom, readLine, hk]
    rcases firstLine_run_edit keys t hpa hv with ⟨s, a, b, c, d, e⟩ | ⟨a, b⟩
    · rw [a, b]
      simp only
      exact congrArg _ (sessionFrom_edit fuel _ _ e d (by omega))
    · rw [a, b]

/-- what is typed as bytes - printable keys, Enters and editing keys - is handed over as `run` says for
the keys -/
theorem session_edit (keys : List Nat) (hv : ∀ k ∈ keys, EditKey k) :
    session (keysBytes keys) = run {} keys := by
  have hl := keysBytes_length keys hv
  exact sessionFrom_edit _ keys {} rfl hv (by omega)

end Mkdb.Console
