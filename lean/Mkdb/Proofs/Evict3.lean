import Mkdb.Proofs.Evict2
/-!
C16 on the heap model, part 3: **the run on the smaller cache IS the run on the larger cache** - the
simulation relation and the primitives of the page store.

Parts 1-2 go through the plain model: outcomes are decided by the plain database, which the eviction
does not change.  That says "accepted / refused" but not "refused with the same error", needs the side
conditions of the refinement theorems, and says nothing about a statement refused at a later row.  This
part and the next ones prove the statement directly on the heap model, for every program of the page
store and every statement, with no reference to the plain model.

* `CacheEq s1 s2`: `s2` has the same headers and the same data file as `s1`, the engine sees the same
  page with the same dirty bit at EVERY offset of both, every page cached in `s2` is cached in `s1`
  (`s2` is the store with the smaller cache), and both caches are filed under their own offsets with
  one entry per offset (a Go map).
* `SRel r1 r2`: if the run on `s2` returned a value or an error value, the run on `s1` returned the
  same value or the same error value, in stores related by `CacheEq`; if it ended on an unmodelled path
  or out of fuel, so did the other.  Nothing is said when the run on the smaller cache panics: the one
  panic that depends on the cache is `markDirty` on a page that is not resident - the model's stand-in
  for Go's use of a page pointer after the page left the cache, which no statement does
  (`C18_dml_ddl_never_crash`).
* `Sim m`: `m` maps `CacheEq` stores to `SRel` results; closed under `pure`, `>>=`, `throw`, …;
  `Sim.fetch`, `Sim.putNode`, `Sim.markDirty`, `Sim.appendNode`, `Sim.getS_bind`, `Sim.modifyS`.
* `CacheEq.of_evict`: evicting clean pages that are in the data file gives a `CacheEq` store.
-/
set_option autoImplicit false
namespace Mkdb.Store
open Mkdb.Page Mkdb.Tuple Mkdb.Generated Mkdb.Tree Mkdb.Engine

/-- one cache entry per offset (the cache is a Go map) -/
def MemNodup (s : Store) : Prop := s.mem.Pairwise fun a b => a.1 ≠ b.1

theorem assocSet_nodup {β} (l : List (Nat × β)) (k : Nat) (v : β) (h : l.Pairwise fun a b => a.1 ≠ b.1) :
    (assocSet l k v).Pairwise fun a b => a.1 ≠ b.1 := by
  unfold assocSet
  split
  · rw [List.pairwise_map]
    refine h.imp ?_
    intro a b hab
    have ha : (if (a.1 == k) = true then (k, v) else a).1 = a.1 := by
      split
      · rename_i hk; simp only [beq_iff_eq] at hk; exact hk.symm
      · rfl
    have hb : (if (b.1 == k) = true then (k, v) else b).1 = b.1 := by
      split
      · rename_i hk; simp only [beq_iff_eq] at hk; exact hk.symm
      · rfl
    rw [ha, hb]; exact hab
  · rename_i hany
    rw [List.pairwise_append]
    refine ⟨h, List.pairwise_singleton _ _, ?_⟩
    intro a ha b hb
    rw [List.mem_singleton] at hb
    subst hb
    intro hk
    exact hany (List.any_eq_true.mpr ⟨a, ha, by simpa using hk⟩)

theorem MemNodup.set {s s' : Store} (h : MemNodup s) {k : Nat} {v : MNode} (e : s'.mem = assocSet s.mem k v) :
    MemNodup s' := by
  unfold MemNodup
  rw [e]
  exact assocSet_nodup _ _ _ h

theorem MemNodup.evict {s : Store} (h : MemNodup s) (offs : List Nat) : MemNodup (evict s offs) :=
  List.Pairwise.sublist List.filter_sublist h

/-- **The store `s2` is the store `s1` with a smaller cache.** -/
structure CacheEq (s1 s2 : Store) : Prop where
  hdr : s2.hdr = s1.hdr
  dhdr : s2.dhdr = s1.dhdr
  ghost : s2.ghost = s1.ghost
  disk : ∀ o, assocGet s2.disk o = assocGet s1.disk o
  view : ∀ o, view s2 o = view s1 o
  res : ∀ o, (assocGet s2.mem o).isSome = true → (assocGet s1.mem o).isSome = true
  filed1 : MemFiled s1
  filed2 : MemFiled s2
  nodup1 : MemNodup s1
  nodup2 : MemNodup s2

theorem CacheEq.refl {s : Store} (hf : MemFiled s) (hn : MemNodup s) : CacheEq s s :=
  ⟨rfl, rfl, rfl, fun _ => rfl, fun _ => rfl, fun _ h => h, hf, hf, hn, hn⟩

theorem CacheEq.view_fun {s1 s2 : Store} (h : CacheEq s1 s2) : Store.view s2 = Store.view s1 := funext h.view

/-- the clean pages at these offsets are the data file's pages -/
def EvictSafe (s : Store) (offs : List Nat) : Prop :=
  ∀ o ∈ offs, ∀ n, Store.view s o = some (n, false) → assocGet s.disk o = some n

/-- evicting pages that are in the data file -/
theorem CacheEq.evict_right {s1 s2 : Store} (h : CacheEq s1 s2) (offs : List Nat) (hs : EvictSafe s2 offs) :
    CacheEq s1 (evict s2 offs) where
  hdr := h.hdr
  dhdr := h.dhdr
  ghost := h.ghost
  disk := h.disk
  view := fun o => by
    rw [← h.view o]
    by_cases ho : o ∈ offs
    · exact evict_view_eq (hs o ho)
    · unfold Store.view
      rw [evict_keeps_others ho]
      rfl
  res := fun o ho => by
    apply h.res o
    rw [assocGet_evict] at ho
    split at ho
    · cases ho
    · exact ho
  filed1 := h.filed1
  filed2 := h.filed2.evict offs
  nodup1 := h.nodup1
  nodup2 := h.nodup2.evict offs

theorem CacheEq.of_evict {s : Store} (hf : MemFiled s) (hn : MemNodup s) (offs : List Nat) (hs : EvictSafe s offs) :
    CacheEq s (evict s offs) := (CacheEq.refl hf hn).evict_right offs hs

/-- a header change on both sides -/
theorem CacheEq.with_hdr {s1 s2 : Store} (h : CacheEq s1 s2) (h1 h2 : Header) (e : h2 = h1) :
    CacheEq { s1 with hdr := h1 } { s2 with hdr := h2 } :=
  ⟨e, h.dhdr, h.ghost, h.disk, h.view, h.res, h.filed1.of_mem_eq rfl, h.filed2.of_mem_eq rfl, h.nodup1, h.nodup2⟩

theorem CacheEq.with_ghost {s1 s2 : Store} (h : CacheEq s1 s2) (g1 g2 : Nat) (e : g2 = g1) :
    CacheEq { s1 with ghost := g1 } { s2 with ghost := g2 } :=
  ⟨h.hdr, h.dhdr, e, h.disk, h.view, h.res, h.filed1.of_mem_eq rfl, h.filed2.of_mem_eq rfl, h.nodup1, h.nodup2⟩

/-- the same page object is filed under the same offset in both caches -/
theorem CacheEq.set_both {s1 s2 : Store} (h : CacheEq s1 s2) (k : Nat) (m : MNode) (hk : nodeOff m.node = k)
    (h1 h2 : Header) (e : h2 = h1) :
    CacheEq { s1 with mem := assocSet s1.mem k m, hdr := h1 } { s2 with mem := assocSet s2.mem k m, hdr := h2 } where
  hdr := e
  dhdr := h.dhdr
  ghost := h.ghost
  disk := h.disk
  view := fun o => by
    rw [view_set s2 _ h2 k m rfl, view_set s1 _ h1 k m rfl]
    unfold upd
    rw [h.view o]
  res := fun o ho => by
    simp only [assocGet_assocSet] at ho ⊢
    by_cases hok : o = k
    · simp [hok]
    · simp only [hok, if_false] at ho ⊢
      exact h.res o ho
  filed1 := h.filed1.set hk rfl
  filed2 := h.filed2.set hk rfl
  nodup1 := h.nodup1.set rfl
  nodup2 := h.nodup2.set rfl

/-- the smaller cache loads the page the larger cache holds -/
theorem CacheEq.set_right {s1 s2 : Store} (h : CacheEq s1 s2) (k : Nat) (m : MNode) (hk : nodeOff m.node = k)
    (hv : Store.view s1 k = some (m.node, m.dirty)) (hr : (assocGet s1.mem k).isSome = true) :
    CacheEq s1 { s2 with mem := assocSet s2.mem k m } where
  hdr := h.hdr
  dhdr := h.dhdr
  ghost := h.ghost
  disk := h.disk
  view := fun o => by
    rw [view_set s2 _ s2.hdr k m rfl]
    unfold upd
    by_cases hok : o = k
    · simp only [hok, if_true]; exact hv.symm
    · simp only [hok, if_false]; exact h.view o
  res := fun o ho => by
    simp only [assocGet_assocSet] at ho
    by_cases hok : o = k
    · rw [hok]; exact hr
    · simp only [hok, if_false] at ho
      exact h.res o ho
  filed1 := h.filed1
  filed2 := h.filed2.set hk rfl
  nodup1 := h.nodup1
  nodup2 := h.nodup2.set rfl

/-- the dirty bit `putNode` keeps is the one the engine sees -/
theorem dirtyBit_view (s : Store) (o : Nat) :
    ((assocGet s.mem o).map (·.dirty)).getD false = ((Store.view s o).map (·.2)).getD false := by
  unfold Store.view
  cases assocGet s.mem o with
  | some m => rfl
  | none => cases assocGet s.disk o <;> rfl

theorem CacheEq.dirty_eq {s1 s2 : Store} (h : CacheEq s1 s2) (o : Nat) :
    ((assocGet s2.mem o).map (·.dirty)).getD false = ((assocGet s1.mem o).map (·.dirty)).getD false := by
  rw [dirtyBit_view, dirtyBit_view, h.view o]

/-- a page cached in both caches is the same page -/
theorem CacheEq.node_eq {s1 s2 : Store} (h : CacheEq s1 s2) {o : Nat} {m1 m2 : MNode}
    (e1 : assocGet s1.mem o = some m1) (e2 : assocGet s2.mem o = some m2) : m2.node = m1.node := by
  have := h.view o
  unfold Store.view at this
  rw [e1, e2] at this
  simp only [Option.some.injEq, Prod.mk.injEq] at this
  exact this.1

/-! ### results and programs -/

/-- the result on the larger cache (`r1`) against the result on the smaller cache (`r2`) -/
def SRel {α} (r1 r2 : SRes α) : Prop :=
  match r2 with
  | .ok a s2 => ∃ s1, r1 = .ok a s1 ∧ CacheEq s1 s2
  | .err e s2 => ∃ s1, r1 = .err e s1 ∧ CacheEq s1 s2
  | .panic _ => True
  | .unmodelled w => r1 = .unmodelled w
  | .fuel => r1 = .fuel

theorem SRel.ok {α} {a : α} {s1 s2 : Store} (h : CacheEq s1 s2) : SRel (.ok a s1) (.ok a s2) := ⟨s1, rfl, h⟩
theorem SRel.err {α} {e : SErr} {s1 s2 : Store} (h : CacheEq s1 s2) : SRel (.err e s1 : SRes α) (.err e s2) :=
  ⟨s1, rfl, h⟩

/-- **`m` does not see the size of the cache.** -/
def Sim {α} (m : SM α) : Prop := ∀ s1 s2, CacheEq s1 s2 → SRel (m s1) (m s2)

theorem Sim.pure {α} (a : α) : Sim (pure a : SM α) := fun _ _ h => SRel.ok h
theorem Sim.throw {α} (e : SErr) : Sim (throw e : SM α) := fun _ _ h => SRel.err h
theorem Sim.panicS {α} (w : String) : Sim (panicS w : SM α) := fun _ _ _ => trivial
theorem Sim.unmodelledS {α} (w : String) : Sim (unmodelledS w : SM α) := fun _ _ _ => rfl
theorem Sim.outOfFuel {α} : Sim (outOfFuel : SM α) := fun _ _ _ => rfl

theorem Sim.bind {α β} {m : SM α} {f : α → SM β} (hm : Sim m) (hf : ∀ a, Sim (f a)) : Sim (m >>= f) := by
  intro s1 s2 h
  have h0 := hm s1 s2 h
  rw [bind_def, bind_def]
  cases e2 : m s2 with
  | ok a t2 =>
    rw [e2] at h0
    obtain ⟨t1, e1, ht⟩ := h0
    rw [e1]
    exact hf a t1 t2 ht
  | err x t2 =>
    rw [e2] at h0
    obtain ⟨t1, e1, ht⟩ := h0
    rw [e1]
    exact ⟨t1, rfl, ht⟩
  | panic p => trivial
  | unmodelled w =>
    rw [e2] at h0
    have h0' : m s1 = .unmodelled w := h0
    rw [h0']
    rfl
  | fuel =>
    rw [e2] at h0
    have h0' : m s1 = .fuel := h0
    rw [h0']
    rfl

theorem Sim.ite {α} {c : Prop} [Decidable c] {a b : SM α} (ha : Sim a) (hb : Sim b) :
    Sim (if c then a else b) := by
  split
  · exact ha
  · exact hb

/-- reading the state, of which the continuation uses the header only -/
theorem Sim.getS_bind {β} {f : Store → SM β} (hf : ∀ s, Sim (f s))
    (hc : ∀ s1 s2 : Store, s2.hdr = s1.hdr → f s2 = f s1) : Sim (getS >>= f) := by
  intro s1 s2 h
  show SRel (f s1 s1) (f s2 s2)
  rw [hc s1 s2 h.hdr]
  exact hf s1 s1 s2 h

/-- a state update that respects the relation (a header update) -/
theorem Sim.modifyS {f : Store → Store} (hf : ∀ s1 s2, CacheEq s1 s2 → CacheEq (f s1) (f s2)) :
    Sim (modifyS f) := fun s1 s2 h => SRel.ok (hf s1 s2 h)

/-! ### the primitives -/

theorem Sim.fetch (off : Nat) : Sim (fetch off) := by
  intro s1 s2 h
  unfold Store.fetch
  cases e2 : assocGet s2.mem off with
  | some m2 =>
    have hr := h.res off (by rw [e2]; rfl)
    cases e1 : assocGet s1.mem off with
    | none => rw [e1] at hr; cases hr
    | some m1 =>
      simp only
      rw [h.node_eq e1 e2]
      exact SRel.ok h
  | none =>
    simp only
    cases e1 : assocGet s1.mem off with
    | some m1 =>
      simp only
      -- the smaller cache reads the page from the data file: the page the larger cache holds, clean
      have hv := h.view off
      unfold Store.view at hv
      rw [e1, e2] at hv
      cases ed : assocGet s2.disk off with
      | none => rw [ed] at hv; cases hv
      | some n =>
        rw [ed] at hv
        simp only [Option.map_some, Option.some.injEq, Prod.mk.injEq] at hv
        obtain ⟨hn, hd⟩ := hv
        simp only [Option.getD_some]
        rw [hn]
        have hk : nodeOff m1.node = off := h.filed1.get e1
        rw [hk]
        refine SRel.ok (h.set_right off ⟨m1.node, false⟩ hk ?_ (by rw [e1]; rfl))
        unfold Store.view
        rw [e1]
        simp only [hd]
    | none =>
      simp only
      rw [h.disk off]
      exact SRel.ok (h.set_both _ ⟨_, false⟩ rfl s1.hdr s2.hdr h.hdr)

theorem Sim.putNode (n : Node) (d : Option Bool) : Sim (putNode n d) := by
  intro s1 s2 h
  unfold Store.putNode
  cases d with
  | some b => exact SRel.ok (h.set_both _ ⟨n, b⟩ rfl s1.hdr s2.hdr h.hdr)
  | none =>
    simp only
    have hd : (Option.map (fun x => x.dirty) (assocGet s2.mem (nodeOff n))).getD false =
        (Option.map (fun x => x.dirty) (assocGet s1.mem (nodeOff n))).getD false := h.dirty_eq (nodeOff n)
    rw [hd]
    exact SRel.ok (h.set_both _ ⟨n, _⟩ rfl s1.hdr s2.hdr h.hdr)

theorem Sim.markDirty (off lsn : Nat) : Sim (markDirty off lsn) := by
  intro s1 s2 h
  unfold Store.markDirty
  cases e2 : assocGet s2.mem off with
  | none => trivial
  | some m2 =>
    have hr := h.res off (by rw [e2]; rfl)
    cases e1 : assocGet s1.mem off with
    | none => rw [e1] at hr; cases hr
    | some m1 =>
      simp only
      rw [h.node_eq e1 e2]
      exact SRel.ok (h.set_both off ⟨setLSN m1.node lsn, true⟩
        ((nodeOff_setLSN _ _).trans (h.filed1.get e1)) s1.hdr s2.hdr h.hdr)

theorem Sim.appendNode (n : Node) (d : Bool) : Sim (appendNode n d) := by
  intro s1 s2 h
  unfold Store.appendNode
  simp only
  rw [h.hdr]
  exact SRel.ok (h.set_both s1.hdr.nextFree ⟨setOff n s1.hdr.nextFree, d⟩ (nodeOff_setOff _ _) _ _ rfl)

theorem Sim.decodeRow (sch : List FieldDef) (bs : Bytes) : Sim (decodeRow sch bs) := by
  intro s1 s2 h
  unfold Store.decodeRow
  cases decodeTuple sch bs [] with
  | ok m => exact SRel.ok h
  | error e => exact SRel.err h

theorem Sim.encodeRow (sch : List FieldDef) (m : Vals) : Sim (encodeRow sch m) := by
  intro s1 s2 h
  unfold Store.encodeRow
  cases encodeTuple sch m with
  | ok b => exact SRel.ok h
  | error e => cases e <;> exact SRel.err h

end Mkdb.Store
