import Mkdb.Proofs.Forest
/-!
Reading a tree back from any page lookup that shows its pages (`ofHeap_of_pages`): the round trip
`ofHeap_flatten` of `Mkdb.Proofs.Forest`, for an arbitrary lookup function instead of `heapOf t`.
-/
set_option autoImplicit false
namespace Mkdb.Tree
open Mkdb.Page Mkdb.Generated

/-- the lookup `get` shows every page of `t` -/
def Shows (get : Nat → Option (Node × Bool)) (t : Levels) : Prop :=
  (∀ p ∈ t.leaves, get p.1.off = some (Node.leaf p.1, p.2)) ∧
  (∀ lvl ∈ t.inner, ∀ p ∈ lvl, get p.1.off = some (Node.internal p.1, p.2))

theorem go_pages (get : Nat → Option (Node × Bool)) (t : Levels) (hsh : Shows get t) (hlink : LinkOK t) :
    ∀ (rlo : List (List (Internal × Bool))) (hi : List (List (Internal × Bool))) (extra : Nat),
      t.inner = rlo.reverse ++ hi →
      ofHeap.go get (rlo.length + 1 + extra) (topRow (t.leaves.map (·.1.off)) rlo.reverse) hi
        = some t := by
  intro rlo
  induction rlo with
  | nil =>
    intro hi extra hin
    have hf : ([] : List (List (Internal × Bool))).length + 1 + extra = extra.succ := by
      simp only [List.length_nil]; omega
    rw [hf, ofHeap.go.eq_2]
    simp only [List.reverse_nil, topRow]
    rw [mapM_some get (fun p : Leaf × Bool => p.1.off) (fun p => (Node.leaf p.1, p.2)) t.leaves
      (fun p hp => hsh.1 p hp)]
    simp only [List.reverse_nil, List.nil_append] at hin
    cases t with
    | mk leaves inner =>
      simp only at hin
      subst hin
      simp [List.filterMap_map, Function.comp_def]
  | cons lvl rest ih =>
    intro hi extra hin
    have hf : (lvl :: rest).length + 1 + extra = (rest.length + 1 + extra).succ := by
      simp only [List.length_cons]; omega
    rw [List.reverse_cons, List.append_assoc, List.singleton_append] at hin
    have hmem : lvl ∈ t.inner := by rw [hin]; simp
    have hne : lvl ≠ [] := linked_levels_ne _ _ hlink lvl hmem
    have hchild : childOffs lvl = topRow (t.leaves.map (·.1.off)) rest.reverse := by
      apply linked_mid rest.reverse lvl hi
      rw [← hin]; exact hlink
    rw [hf, ofHeap.go.eq_2, List.reverse_cons, topRow_snoc]
    rw [mapM_some get (fun p : Internal × Bool => p.1.off) (fun p => (Node.internal p.1, p.2)) lvl
      (fun p hp => hsh.2 lvl hmem p hp)]
    dsimp only
    rw [if_neg (by cases lvl with
          | nil => exact absurd rfl hne
          | cons p ps => simp), if_pos (by simp)]
    have := ih (lvl :: hi) extra hin
    rw [← hchild] at this
    have h3 : ∀ g : Node × Bool → Option (Internal × Bool),
        (∀ p : Internal × Bool, g (Node.internal p.1, p.2) = some p) →
        (lvl.map (fun p : Internal × Bool => (Node.internal p.1, p.2))).filterMap g = lvl := by
      intro g hg
      rw [List.filterMap_map]
      have : (g ∘ fun p : Internal × Bool => (Node.internal p.1, p.2)) = some := funext hg
      rw [this, List.filterMap_some]
    rw [h3 _ (fun p => rfl)]
    exact this

/-- a lookup that shows the pages of a linked tree reads back as that tree, given fuel for its depth -/
theorem ofHeap_of_pages (get : Nat → Option (Node × Bool)) (t : Levels) (hsh : Shows get t) (hlink : LinkOK t)
    (extra : Nat) : ofHeap get (t.inner.length + 2 + extra) (rootOff t) = some t := by
  have hroot : [rootOff t] = topRow (t.leaves.map (·.1.off)) t.inner := by
    rw [Lookup.rootOff_eq, rootOf_topRow]
    exact singleton_head _ (linked_topRow_len _ _ hlink)
  have hf : t.inner.length + 2 + extra = (t.inner.length + 1 + extra).succ := by omega
  rw [hf, ofHeap.eq_2, hroot]
  have := go_pages get t hsh hlink t.inner.reverse [] extra (by simp)
  simpa using this

end Mkdb.Tree
