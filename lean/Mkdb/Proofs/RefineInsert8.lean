import Mkdb.Proofs.RefineInsert7
/-!
Refinement of the heap insert by the levels insert, part 8: the refusals.  A call of
`insertLeaf` / `insertInternal` that ends in an error has only read pages (`ErrAt`); errors
propagate from a child to its parent (`errAt_internal`).
-/
set_option autoImplicit false
namespace Mkdb.Store
open Mkdb.Page Mkdb.Generated Mkdb.Tree

/-! ### `findPos` -/

theorem findPos_found_mem (keys : List Nat) (k : Nat) (h : (findPos keys k).2 = true) : k ∈ keys := by
  unfold findPos at h
  simp only [beq_iff_eq] at h
  exact List.mem_of_getElem? h

theorem findPos_found_of_mem : ∀ (keys : List Nat) (k : Nat), keys.Pairwise (· < ·) → k ∈ keys →
    (findPos keys k).2 = true
  | [], _, _, h => by cases h
  | a :: as, k, hpw, hm => by
    have hpw' := List.pairwise_cons.mp hpw
    unfold findPos
    by_cases hak : a < k
    · have hm' : k ∈ as := by
        rcases List.mem_cons.mp hm with h | h
        · omega
        · exact h
      have ih := findPos_found_of_mem as k hpw'.2 hm'
      unfold findPos at ih
      simp only [List.takeWhile_cons, decide_eq_true hak, if_true, List.length_cons,
        List.getElem?_cons_succ]
      exact ih
    · have hka : k = a := by
        rcases List.mem_cons.mp hm with h | h
        · exact h
        · have := hpw'.1 k h; omega
      subst hka
      simp

/-- when the key is not a separator, `insertInternal` descends where `findCell` does -/
theorem findPos_route (right : Nat) : ∀ (cells : List ICell) (k : Nat),
    (findPos (cells.map (·.key)) k).2 = false →
    (match cells[(findPos (cells.map (·.key)) k).1]? with | some c => c.child | none => right) =
      (match cells.find? (fun c => k < c.key) with | some c => c.child | none => right)
  | [], _, _ => rfl
  | a :: as, k, h => by
    unfold findPos at h ⊢
    by_cases hak : a.key < k
    · have hnot : ¬ k < a.key := by omega
      simp only [List.map_cons, List.takeWhile_cons, decide_eq_true hak, if_true, List.length_cons,
        List.getElem?_cons_succ, List.find?_cons, decide_eq_false hnot] at h ⊢
      have ih := findPos_route right as k
      unfold findPos at ih
      exact ih h
    · simp only [List.map_cons, List.takeWhile_cons, decide_eq_false hak, Bool.false_eq_true, if_false,
        List.length_nil, List.getElem?_cons_zero, beq_eq_false_iff_ne, ne_eq, Option.some.injEq] at h
      have hlt : k < a.key := by omega
      simp [hak, hlt]

/-! ### calls that end in an error -/

/-- the recursive call on a fetched node -/
def callOn (fuel : Nat) (parent : Option Nat) (n : Node) (key lsn : Nat) (value : Bytes) (root : RootOff) :
    SM RootOff :=
  match n with
  | .leaf l => insertLeaf parent l key lsn value root
  | .internal i => insertInternal fuel parent i key lsn value root

/-- the child `insertInternal` descends to -/
def childOf (cur : Internal) (key : Nat) : Nat :=
  match cur.cells[(findPos (keysOfInternal cur) key).1]? with
  | some c => c.child
  | none => cur.right

theorem insertInternal_eq' (fuel : Nat) (parent : Option Nat) (cur : Internal) (key lsn : Nat) (value : Bytes)
    (root : RootOff) :
    insertInternal (fuel+1) parent cur key lsn value root =
      if (findPos (keysOfInternal cur) key).2 then throw .keyExists else
      (fetch (childOf cur key) >>= fun child =>
        callOn fuel (some cur.off) child key lsn value root >>= afterChild parent cur.off lsn) := by
  rw [insertInternal_eq]
  congr 1
  unfold childOf
  congr 1
  funext child
  cases child <;> rfl

/-- on the node `n`, the insert ends in the error `e` having only read pages -/
def ErrAt (e : SErr) (s : Store) (key lsn : Nat) (value : Bytes) (k : Nat) (n : Node) : Prop :=
  ∀ fuel, k ≤ fuel → ∀ (parent : Option Nat) (root : Nat) (s1 : Store), view s1 = view s →
    s1.hdr.nextFree = s.hdr.nextFree →
    ∃ s2, callOn fuel parent n key lsn value root s1 = .err e s2 ∧ view s2 = view s ∧
      s2.hdr.nextFree = s.hdr.nextFree

theorem errAt_leaf_exists (s : Store) (l : Leaf) (key lsn : Nat) (value : Bytes)
    (hm : key ∈ keysOfLeaf l) (hpw : (keysOfLeaf l).Pairwise (· < ·)) :
    ErrAt .keyExists s key lsn value 0 (.leaf l) := by
  intro fuel _ parent root s1 hv hn
  refine ⟨s1, ?_, hv, hn⟩
  show insertLeaf parent l key lsn value root s1 = _
  rw [insertLeaf_eq, findPos_found_of_mem _ _ hpw hm]
  rfl

theorem errAt_leaf_tooLarge (s : Store) (l : Leaf) (key lsn : Nat) (value : Bytes)
    (hm : key ∉ keysOfLeaf l) (hv : value.length > c_maxValueSize) :
    ErrAt .rowTooLarge s key lsn value 0 (.leaf l) := by
  intro fuel _ parent root s1 hv1 hn
  refine ⟨s1, ?_, hv1, hn⟩
  show insertLeaf parent l key lsn value root s1 = _
  have hf : (findPos (keysOfLeaf l) key).2 = false := by
    cases h : (findPos (keysOfLeaf l) key).2 with
    | false => rfl
    | true => exact absurd (findPos_found_mem _ _ h) hm
  rw [insertLeaf_eq, hf]
  simp only [Bool.false_eq_true, if_false, hv, if_true]
  rfl

/-- an internal node passes on the error of the child it descends to -/
theorem errAt_internal (e : SErr) (s : Store) (cur : Internal) (key lsn : Nat) (value : Bytes) (k : Nat)
    (hfound : (findPos (keysOfInternal cur) key).2 = true → e = .keyExists)
    (hchild : (findPos (keysOfInternal cur) key).2 = false →
      ∃ n d, view s (childOf cur key) = some (n, d) ∧ nodeOff n = childOf cur key ∧
        ErrAt e s key lsn value k n) :
    ErrAt e s key lsn value (k + 1) (.internal cur) := by
  intro fuel hfuel parent root s1 hv hn
  obtain ⟨f, rfl⟩ : ∃ f, fuel = f + 1 := ⟨fuel - 1, by omega⟩
  show ∃ s2, insertInternal (f + 1) parent cur key lsn value root s1 = _ ∧ _
  rw [insertInternal_eq']
  cases hf : (findPos (keysOfInternal cur) key).2 with
  | true =>
    rw [hfound hf]
    exact ⟨s1, rfl, hv, hn⟩
  | false =>
    obtain ⟨n, d, hvn, hoff, herr⟩ := hchild hf
    simp only [Bool.false_eq_true, if_false]
    obtain ⟨s2, e2, v2, n2, _⟩ := fetch_spec s1 (childOf cur key) n d (by rw [hv]; exact hvn) hoff
    rw [bind_ok e2]
    obtain ⟨s3, e3, v3, n3⟩ := herr f (by omega) (some cur.off) root s2 (by rw [v2, hv]) (by rw [n2, hn])
    rw [bind_err e3]
    exact ⟨s3, rfl, v3, n3⟩

theorem childOf_mem (cur : Internal) (key : Nat) : childOf cur key ∈ cur.cells.map (·.child) ++ [cur.right] := by
  unfold childOf
  cases h : cur.cells[(findPos (keysOfInternal cur) key).1]? with
  | none => simp
  | some c =>
    have := List.mem_of_getElem? h
    simp only [List.mem_append, List.mem_map, List.mem_singleton]
    exact .inl ⟨c, this, rfl⟩

theorem childOf_route (cur : Internal) (key : Nat) (h : (findPos (keysOfInternal cur) key).2 = false) :
    childOf cur key = routeChild cur key := by
  unfold childOf routeChild keysOfInternal
  exact findPos_route cur.right cur.cells key h

/-- the root call -/
theorem insertKeyHeap_err (e : SErr) (s : Store) (rootOff : Nat) (key lsn : Nat) (value : Bytes) (k : Nat)
    (n : Node) (d : Bool) (hv : view s rootOff = some (n, d)) (hoff : nodeOff n = rootOff)
    (herr : ErrAt e s key lsn value k n) (hk : k ≤ treeFuel) :
    ∃ s', insertKeyHeap ⟨rootOff⟩ key lsn value s = .err e s' ∧ view s' = view s ∧
      s'.hdr.nextFree = s.hdr.nextFree := by
  have hkh : insertKeyHeap ⟨rootOff⟩ key lsn value =
      (fetch rootOff >>= fun pg =>
        callOn treeFuel none pg key lsn value rootOff >>= fun r => pure ⟨r⟩) := by
    show _ = (fetch rootOff >>= fun pg => _)
    unfold insertKeyHeap
    congr 1
    funext pg
    cases pg <;> rfl
  obtain ⟨s1, e1, v1, n1, _⟩ := fetch_spec s rootOff n d hv hoff
  obtain ⟨s2, e2, v2, n2⟩ := herr treeFuel hk none rootOff s1 v1 n1
  rw [hkh, bind_ok e1, bind_err e2]
  exact ⟨s2, rfl, v2, n2⟩

end Mkdb.Store
