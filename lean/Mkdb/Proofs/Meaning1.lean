import Mkdb.Proofs.Select
import Mkdb.Proofs.Join
/-!
`evaluateSelect` against the reference meaning `Spec.meaning` / `Spec.satisfies` (the pair the
differential-testing judge evaluates on the output of the real implementation, see
`Mkdb/Driver/Exec.lean`).  Part 1: the pieces shared by C05 / C06 / C07 -

* `Spec.meaning` split into its FROM, WHERE (`specWhere`) and select-list (`specTail`) parts;
* the header the judge hands to `Spec.satisfies` (`judgeHeader`);
* `mapX` (the executor's loops) against `List.mapM` (the comprehension of the specification);
* WHERE: `filterRows` against the `mapM` / `zip` / `filterMap` comprehension;
* the select list: `projectColumns` against the `mapM` of `Spec.itemVal`;
* ORDER BY: `sortColumns` against `Spec.sortKeys`.
-/
namespace Mkdb.Exec.MeaningP
open Mkdb.Sql Mkdb.Tuple Mkdb.Spec Mkdb.Exec.SelectP

/-! ### `Spec.meaning`, clause by clause -/

/-- the WHERE part of `Spec.meaning` -/
def specWhere (w : Option Cond) (fields : List Field) (src : List Row) : Option (List Row) :=
  match w with
  | none => some src
  | some c => do
    let t ← src.mapM (holds c fields)
    pure ((src.zip t).filterMap fun (r, b) => if b then some r else none)

/-- the select-list / GROUP BY part of `Spec.meaning` (the text of the specification, verbatim) -/
def specTail (q : Select) (fields : List Field) (src : List Row) : Option (List Row) :=
  if isStar q.list then
    (if q.groupBy.isEmpty && !(q.list.any fun d => isAgg d.item) then some src else none)
  else do
  let _ ← (q.list.flatMap fun d => itemColumns d.item).mapM fun c =>
    match findColumn c fields with | .ok i => some i | _ => none
  if !(q.list.any fun d => isAgg d.item) && q.groupBy.isEmpty then
    src.mapM fun r => q.list.mapM fun d => itemVal d.item fields r
  else do
    let gidx ← q.groupBy.mapM (groupIdx q.list)
    let gitems := gidx.filterMap fun i => q.list[i]?
    let keyOf (r : Row) : Option (List Val) := gitems.mapM fun d => itemVal d.item fields r
    let keys ← src.mapM keyOf
    if q.groupBy.isEmpty then
      (do let row ← q.list.mapM fun d =>
            if src.isEmpty then (if isAgg d.item then some (.int 0) else itemVal d.item [] [])
            else aggVal d.item fields src
          pure [row])
    else
      (distinctKeys keys).mapM fun k =>
        let grp := (src.zip keys).filterMap fun (r, k') => if k' == k then some r else none
        q.list.mapM fun d => aggVal d.item fields grp

/-- `Spec.meaning` is: the FROM clause, then WHERE, then the select list -/
theorem meaning_of {fetch : Bytes → Option Table} {q : Select} {tr : TableRef} {src : List Row}
    {fields : List Field} (hf : q.from_ = some tr) (hr : fromRows fetch tr = some (src, fields)) :
    meaning fetch q = (specWhere q.where_ fields src).bind (specTail q fields) := by
  unfold meaning
  rw [hf]
  show (fromRows fetch tr >>= _) = _
  rw [hr]
  unfold specWhere specTail
  cases q.where_ with
  | none => rfl
  | some c =>
    simp only [Option.bind_eq_bind, Option.bind_some]
    cases List.mapM (holds c fields) src <;> rfl

theorem meaning_none_from {fetch : Bytes → Option Table} {q : Select} {tr : TableRef}
    (hf : q.from_ = some tr) (hr : fromRows fetch tr = none) : meaning fetch q = none := by
  unfold meaning
  rw [hf]
  show (fromRows fetch tr >>= _) = _
  rw [hr]; rfl

theorem meaning_no_from {fetch : Bytes → Option Table} {q : Select}
    (hf : q.from_ = none) : meaning fetch q = none := by
  unfold meaning
  rw [hf]; rfl

/-- a meaning comes from a FROM clause that has one -/
theorem meaning_some_from {fetch : Bytes → Option Table} {q : Select} {want : List Row}
    (h : meaning fetch q = some want) :
    ∃ tr src fields, q.from_ = some tr ∧ fromRows fetch tr = some (src, fields) := by
  cases hf : q.from_ with
  | none => rw [meaning_no_from hf] at h; cases h
  | some tr =>
    cases hr : fromRows fetch tr with
    | none => rw [meaning_none_from hf hr] at h; cases h
    | some p => obtain ⟨s, f⟩ := p; exact ⟨tr, s, f, rfl, hr⟩

/-! ### the header the judge passes to `Spec.satisfies`

`judgeLine` (`Mkdb/Driver/Exec.lean`) computes `fields` from `Spec.fromRows` and the header as
`projectColumns q.list fields []`: the same two expressions. -/

def judgeFields (fetch : Bytes → Option Table) (q : Select) : List Field :=
  match q.from_ with
  | some tr => (match Spec.fromRows fetch tr with | some (_, f) => f | none => [])
  | none => []

def judgeHeader (fetch : Bytes → Option Table) (q : Select) : List Field :=
  match projectColumns q.list (judgeFields fetch q) [] with | .ok (_, h) => h | _ => []

theorem judgeFields_of {fetch : Bytes → Option Table} {q : Select} {tr : TableRef} {src : List Row}
    {fields : List Field} (hf : q.from_ = some tr) (hr : fromRows fetch tr = some (src, fields)) :
    judgeFields fetch q = fields := by
  unfold judgeFields; rw [hf]; simp only [hr]

/-! ### `hasAggr` and `Spec.isAgg` -/

theorem any_isAgg_eq_hasAggr (sl : List DerivedCol) :
    (sl.any fun d => isAgg d.item) = hasAggr sl := by
  unfold hasAggr
  congr 1

/-! ### `mapX` against `List.mapM` -/

theorem mapM_cons_some {α β : Type} {g : α → Option β} {a : α} {l : List α} {r : List β} :
    (a :: l).mapM g = some r ↔ ∃ b bs, g a = some b ∧ l.mapM g = some bs ∧ r = b :: bs := by
  rw [List.mapM_cons]
  cases hb : g a with
  | none => simp
  | some b =>
    cases hbs : l.mapM g with
    | none => simp
    | some bs =>
      simp only [Option.bind_eq_bind, Option.bind_some, Option.pure_def, Option.some.injEq]
      constructor
      · intro h; exact ⟨b, bs, rfl, rfl, h.symm⟩
      · rintro ⟨b', bs', hb', hbs', rfl⟩; cases hb'; cases hbs'; rfl

theorem mapX_cons_ok_iff {α β : Type} {f : α → X β} {a : α} {l : List α} {r : List β} :
    mapX f (a :: l) = .ok r ↔ ∃ b bs, f a = .ok b ∧ mapX f l = .ok bs ∧ r = b :: bs := by
  constructor
  · exact mapX_cons_ok
  · rintro ⟨b, bs, hb, hbs, rfl⟩
    simp only [mapX, hb, hbs, bind_ok, pure_eq_ok]

/-- the executor's loop succeeds with `r` exactly when the comprehension of the specification is
defined and is `r`, provided each step does -/
theorem mapX_ok_iff_mapM {α β : Type} {f : α → X β} {g : α → Option β} {l : List α}
    (hfg : ∀ a ∈ l, ∀ b, f a = .ok b ↔ g a = some b) {r : List β} :
    mapX f l = .ok r ↔ l.mapM g = some r := by
  induction l generalizing r with
  | nil =>
    simp only [mapX, X.ok.injEq, List.mapM_nil, Option.pure_def, Option.some.injEq]
  | cons a l ih =>
    rw [mapX_cons_ok_iff, mapM_cons_some]
    have ih' := fun r => @ih (fun a ha => hfg a (List.mem_cons_of_mem _ ha)) r
    constructor
    · rintro ⟨b, bs, hb, hbs, rfl⟩
      exact ⟨b, bs, (hfg a List.mem_cons_self b).1 hb, (ih' bs).1 hbs, rfl⟩
    · rintro ⟨b, bs, hb, hbs, rfl⟩
      exact ⟨b, bs, (hfg a List.mem_cons_self b).2 hb, (ih' bs).2 hbs, rfl⟩

theorem mapM_some_forall {α β : Type} {g : α → Option β} {l : List α} {r : List β}
    (h : l.mapM g = some r) : ∀ a ∈ l, ∃ b, g a = some b := by
  induction l generalizing r with
  | nil => intro a ha; cases ha
  | cons a l ih =>
    obtain ⟨b, bs, hb, hbs, rfl⟩ := mapM_cons_some.1 h
    intro x hx
    rcases List.mem_cons.1 hx with rfl | hx
    · exact ⟨b, hb⟩
    · exact ih hbs x hx

theorem mapM_some_of_forall {α β : Type} {g : α → Option β} {l : List α}
    (h : ∀ a ∈ l, ∃ b, g a = some b) : ∃ r, l.mapM g = some r := by
  induction l with
  | nil => exact ⟨[], rfl⟩
  | cons a l ih =>
    obtain ⟨b, hb⟩ := h a List.mem_cons_self
    obtain ⟨bs, hbs⟩ := ih (fun a ha => h a (List.mem_cons_of_mem _ ha))
    exact ⟨b :: bs, mapM_cons_some.2 ⟨b, bs, hb, hbs, rfl⟩⟩

theorem mapX_ok_forall {α β : Type} {f : α → X β} {l : List α} {r : List β}
    (h : mapX f l = .ok r) : ∀ a ∈ l, ∃ b, f a = .ok b := by
  induction l generalizing r with
  | nil => intro a ha; cases ha
  | cons a l ih =>
    obtain ⟨b, bs, hb, hbs, rfl⟩ := mapX_cons_ok h
    intro x hx
    rcases List.mem_cons.1 hx with rfl | hx
    · exact ⟨b, hb⟩
    · exact ih hbs x hx

theorem mapX_ok_of_forall' {α β : Type} {f : α → X β} {l : List α}
    (h : ∀ a ∈ l, ∃ b, f a = .ok b) : ∃ r, mapX f l = .ok r := by
  induction l with
  | nil => exact ⟨[], rfl⟩
  | cons a l ih =>
    obtain ⟨b, hb⟩ := h a List.mem_cons_self
    obtain ⟨bs, hbs⟩ := ih (fun a ha => h a (List.mem_cons_of_mem _ ha))
    exact ⟨b :: bs, mapX_cons_ok_iff.2 ⟨b, bs, hb, hbs, rfl⟩⟩

/-- a defined comprehension is a `map` -/
theorem mapM_some_eq_filterMap {α β : Type} {g : α → Option β} {l : List α} {r : List β}
    (h : l.mapM g = some r) : r = l.filterMap g := by
  induction l generalizing r with
  | nil => simp only [List.mapM_nil, Option.pure_def, Option.some.injEq] at h; subst h; rfl
  | cons a l ih =>
    obtain ⟨b, bs, hb, hbs, rfl⟩ := mapM_cons_some.1 h
    rw [List.filterMap_cons, hb, ← ih hbs]

theorem mapM_some_length {α β : Type} {g : α → Option β} {l : List α} {r : List β}
    (h : l.mapM g = some r) : r.length = l.length := by
  induction l generalizing r with
  | nil => simp only [List.mapM_nil, Option.pure_def, Option.some.injEq] at h; subst h; rfl
  | cons a l ih =>
    obtain ⟨b, bs, hb, hbs, rfl⟩ := mapM_cons_some.1 h
    simp [ih hbs]

/-- a comprehension over a permutation of the input is a permutation of the output -/
theorem mapM_perm {α β : Type} {g : α → Option β} {l l' : List α} {r : List β}
    (hp : l'.Perm l) (h : l.mapM g = some r) : ∃ r', l'.mapM g = some r' ∧ r'.Perm r := by
  obtain ⟨r', hr'⟩ := mapM_some_of_forall (g := g) (l := l')
    (fun a ha => mapM_some_forall h a (hp.mem_iff.1 ha))
  refine ⟨r', hr', ?_⟩
  rw [mapM_some_eq_filterMap h, mapM_some_eq_filterMap hr']
  exact hp.filterMap g

/-! ### WHERE -/

/-- the WHERE clause is a condition: not a bare integer or string literal (`WHERE 5`,
`WHERE 'x'`), which the executor accepts - it selects no row - and the specification does not -/
def condIsBoolean : Cond → Bool
  | .val (.lit (.int _)) => false
  | .val (.lit (.str _)) => false
  | _ => true

def whereIsBoolean (q : Select) : Bool :=
  match q.where_ with
  | some c => condIsBoolean c
  | none => true

/-- a condition that is not a bare non-boolean literal evaluates, if at all, to a boolean -/
theorem evaluate_bool {c : Cond} (hc : condIsBoolean c = true) {fields : List Field} {row : Row}
    {v : Val} (h : evaluate c fields row = .ok v) : ∃ b, v = .bool b := by
  cases c with
  | val e =>
    cases e with
    | lit l =>
      cases l with
      | int i => cases hc
      | str s => cases hc
      | bool b => simp only [evaluate, litVal, X.ok.injEq] at h; exact ⟨b, h.symm⟩
    | col c => simp only [evaluate] at h; cases h
  | pred p =>
    simp only [evaluate] at h
    obtain ⟨b, _, hb⟩ := bind_eq_ok.1 h
    simp only [pure_eq_ok, X.ok.injEq] at hb
    exact ⟨b, hb.symm⟩
  | and p r =>
    simp only [evaluate] at h
    obtain ⟨a, _, h⟩ := bind_eq_ok.1 h
    obtain ⟨w, _, h⟩ := bind_eq_ok.1 h
    cases w with
    | bool b => simp only [pure_eq_ok, X.ok.injEq] at h; exact ⟨_, h.symm⟩
    | int i => cases h
    | str s => cases h
    | null => cases h
  | or l r =>
    simp only [evaluate] at h
    obtain ⟨a, _, h⟩ := bind_eq_ok.1 h
    obtain ⟨w, _, h⟩ := bind_eq_ok.1 h
    cases a <;> cases w <;> first
      | (simp only [pure_eq_ok, X.ok.injEq] at h; exact ⟨_, h.symm⟩)
      | cases h

theorem holds_some_iff {c : Cond} {fields : List Field} {row : Row} {b : Bool} :
    holds c fields row = some b ↔ evaluate c fields row = .ok (.bool b) := by
  constructor
  · exact JoinP.holds_eq_some
  · intro h; unfold holds; rw [h]

/-- the comprehension of the specification is the filter, when every truth value is defined -/
theorem specWhere_some {c : Cond} {fields : List Field} {src out : List Row} :
    specWhere (some c) fields src = some out ↔
      (∀ r ∈ src, ∃ b, evaluate c fields r = .ok (.bool b)) ∧ out = src.filter (keeps c fields) := by
  unfold specWhere
  constructor
  · intro h
    cases hT : src.mapM (holds c fields) with
    | none => simp [hT] at h
    | some tl =>
      simp only [hT, Option.bind_eq_bind, Option.bind_some, Option.pure_def, Option.some.injEq] at h
      obtain ⟨htl, hall⟩ := JoinP.mapM_some_eq_map (g := fun r => keeps c fields r) hT
        (by intro a _ b hb; rw [keeps_eq_holds, hb]; cases b <;> rfl)
      subst htl
      rw [JoinP.zip_map_filterMap] at h
      exact ⟨fun r hr => ⟨_, JoinP.holds_eq_some (hall r hr)⟩, h.symm⟩
  · rintro ⟨hall, rfl⟩
    obtain ⟨tl, hT⟩ := mapM_some_of_forall (g := holds c fields) (l := src)
      (fun r hr => by obtain ⟨b, hb⟩ := hall r hr; exact ⟨b, holds_some_iff.2 hb⟩)
    obtain ⟨htl, _⟩ := JoinP.mapM_some_eq_map (g := fun r => keeps c fields r) hT
      (by intro a _ b hb; rw [keeps_eq_holds, hb]; cases b <;> rfl)
    subst htl
    simp only [hT, Option.bind_eq_bind, Option.bind_some, Option.pure_def, Option.some.injEq]
    exact JoinP.zip_map_filterMap _ _

/-- the WHERE step of the executor, as one function of the optional condition -/
def whereX (w : Option Cond) (fields : List Field) (rows : List Row) : X (List Row) :=
  match w with
  | some c => filterRows c fields rows
  | none => pure rows

/-- WHERE, executor ⟹ specification (a boolean condition) -/
theorem whereX_ok_spec {w : Option Cond} {fields : List Field} {src out : List Row}
    (hb : (match w with | some c => condIsBoolean c | none => true) = true)
    (h : whereX w fields src = .ok out) : specWhere w fields src = some out := by
  cases w with
  | none => simp only [whereX, pure_eq_ok, X.ok.injEq] at h; subst h; rfl
  | some c =>
    obtain ⟨hall, hout⟩ := filterRows_ok h
    refine specWhere_some.2 ⟨fun r hr => ?_, hout⟩
    obtain ⟨v, hv⟩ := hall r hr
    obtain ⟨b, rfl⟩ := evaluate_bool hb hv
    exact ⟨b, hv⟩

/-- WHERE, specification ⟹ executor -/
theorem specWhere_whereX {w : Option Cond} {fields : List Field} {src out : List Row}
    (h : specWhere w fields src = some out) : whereX w fields src = .ok out := by
  cases w with
  | none => simp only [specWhere, Option.some.injEq] at h; subst h; rfl
  | some c =>
    obtain ⟨hall, rfl⟩ := specWhere_some.1 h
    exact filterRows_of_ok (fun r hr => by obtain ⟨b, hb⟩ := hall r hr; exact ⟨_, hb⟩)

/-- what WHERE keeps is a sublist of its input, in both readings -/
theorem specWhere_eq_filter {w : Option Cond} {fields : List Field} {src out : List Row}
    (h : specWhere w fields src = some out) :
    out = src.filter (fun r => match w with | some c => keeps c fields r | none => true) := by
  cases w with
  | none => simp only [specWhere, Option.some.injEq] at h; subst h; exact (List.filter_eq_self.2 (fun _ _ => rfl)).symm
  | some c => exact (specWhere_some.1 h).2

/-- WHERE over a permutation of the rows is a permutation of the result -/
theorem specWhere_perm {w : Option Cond} {fields : List Field} {src src' out : List Row}
    (hp : src'.Perm src) (h : specWhere w fields src = some out) :
    ∃ out', specWhere w fields src' = some out' ∧ out'.Perm out := by
  cases w with
  | none =>
    simp only [specWhere, Option.some.injEq] at h; subst h
    exact ⟨src', rfl, hp⟩
  | some c =>
    obtain ⟨hall, rfl⟩ := specWhere_some.1 h
    exact ⟨_, specWhere_some.2 ⟨fun r hr => hall r (hp.mem_iff.1 hr), rfl⟩, hp.filter _⟩

end Mkdb.Exec.MeaningP
