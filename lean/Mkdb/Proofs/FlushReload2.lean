import Mkdb.Proofs.FlushReload1
/-!
Flushes and reloads of one tree on the page heap, part 2: **histories** in which flushes and re-opens
are interleaved with the tree operations of `RefineHistory`.

* `FROp`: a tree operation (`HOp`: insert / value change / deletion), a flush with its page write order,
  or a reload (`Store.reopen`: the cache dropped, the header re-read, every page read from the data file
  again).
* `applyF`, `runF`: the meaning on the levels model: a flush and a reload clear every dirty bit
  (`clean`) and change nothing else.
* `heapStepF`, `heapRunF`: the same on the page heap.
* `RunOKF`: `RunOK` of `RefineHistory` for the tree operations; a reload only at a moment when no
  page of the tree is dirty (`clean t = t`: right after a flush, after another reload, after reads
  and refused operations) - a re-open with dirty pages is a crash, which loses them (C02/C03).
* **`heapRunF_refines`**: the heap run succeeds and ends in a heap that holds the tree of the levels
  run, which is well formed.
-/
set_option autoImplicit false
namespace Mkdb.Store
open Mkdb.Page Mkdb.Tuple Mkdb.Generated Mkdb.Tree

/-- a step of a history with flushes and reloads -/
inductive FROp where
  | op (o : HOp)
  | flush (order : List Nat)
  | reload

/-- one step on the levels model: a flush and a reload clear the dirty bits -/
def applyF (st : Levels × Nat) : FROp → Levels × Nat
  | .op o => applyH st o
  | .flush _ => (clean st.1, st.2)
  | .reload => (clean st.1, st.2)

def runF (st : Levels × Nat) (ops : List FROp) : Levels × Nat := ops.foldl applyF st

/-- one step on the heap; returns the (possibly new) root -/
def heapStepF (root : Nat) : FROp → SM Nat
  | .op o => heapStep root o
  | .flush order => flushPages order >>= fun _ => pure root
  | .reload => fun s => .ok root (reopen s)

/-- a history on the heap; returns the final root -/
def heapRunF : Nat → List FROp → SM Nat
  | root, [] => pure root
  | root, op :: rest => heapStepF root op >>= fun root' => heapRunF root' rest

/-- the hypotheses on a history, along the levels run -/
def RunOKF : Levels × Nat → List FROp → Prop
  | _, [] => True
  | st, .op o :: rest => st.1.inner.length + 1 ≤ treeFuel ∧ OpOK st o ∧ RunOKF (applyH st o) rest
  | st, .flush _ :: rest => RunOKF (clean st.1, st.2) rest
  | st, .reload :: rest => clean st.1 = st.1 ∧ RunOKF (clean st.1, st.2) rest

instance decRunOKF : (st : Levels × Nat) → (ops : List FROp) → Decidable (RunOKF st ops)
  | _, [] => isTrue trivial
  | st, .op o :: rest =>
    have := decRunOKF (applyH st o) rest
    inferInstanceAs (Decidable (st.1.inner.length + 1 ≤ treeFuel ∧ OpOK st o ∧ RunOKF (applyH st o) rest))
  | st, .flush _ :: rest => decRunOKF (clean st.1, st.2) rest
  | st, .reload :: rest =>
    have := decRunOKF (clean st.1, st.2) rest
    inferInstanceAs (Decidable (clean st.1 = st.1 ∧ RunOKF (clean st.1, st.2) rest))

theorem applyF_inv (st : Levels × Nat) (op : FROp) (h : Inv st.1 st.2) : Inv (applyF st op).1 (applyF st op).2 := by
  cases op with
  | op o => exact applyH_inv st o h
  | flush _ => exact clean_inv st.1 st.2 h
  | reload => exact clean_inv st.1 st.2 h

theorem runF_inv (ops : List FROp) : ∀ (st : Levels × Nat), Inv st.1 st.2 → Inv (runF st ops).1 (runF st ops).2 := by
  induction ops with
  | nil => intro st h; exact h
  | cons op rest ih => intro st h; exact ih _ (applyF_inv st op h)

/-- one step of a history with flushes and reloads -/
theorem heapStepF_refines (s : Store) (t : Levels) (op : FROp) (h : HeapInv s t)
    (hok : RunOKF (t, s.hdr.nextFree) [op]) :
    ∃ s', heapStepF (rootOff t) op s = .ok (rootOff (applyF (t, s.hdr.nextFree) op).1) s' ∧
      HeapInv s' (applyF (t, s.hdr.nextFree) op).1 ∧
      s'.hdr.nextFree = (applyF (t, s.hdr.nextFree) op).2 := by
  cases op with
  | op o =>
    obtain ⟨hdepth, hop, _⟩ := hok
    exact h.op o hdepth hop
  | flush order =>
    obtain ⟨s', e, hi, hh, _⟩ := h.flush order
    refine ⟨s', ?_, hi, by rw [hh]; rfl⟩
    show (flushPages order >>= fun _ => pure (rootOff t)) s = _
    rw [bind_ok e]
    show _ = SRes.ok (rootOff (clean t)) s'
    rw [rootOff_clean]
    rfl
  | reload =>
    obtain ⟨hc, _⟩ := hok
    obtain ⟨hi, hn⟩ := h.reload hc
    refine ⟨reopen s, ?_, hi, hn⟩
    show SRes.ok (rootOff t) (reopen s) = SRes.ok (rootOff (clean t)) (reopen s)
    rw [rootOff_clean]

/-- **Every history with flushes and reloads on the heap is the history of the levels model.**  Started
in a store whose heap holds a well-formed tree `t` (`HeapInv`), the heap run of `ops` - tree operations,
flushes in any page write order, re-opens at moments when nothing is dirty - succeeds, returns the root
of the tree `t'` the levels run produces, and ends in a store whose heap holds `t'` (`HeapInv` again:
`t'` is well formed at the final allocation frontier, the cache is filed, the clean pages are in the
data file). -/
theorem heapRunF_refines (ops : List FROp) : ∀ (s : Store) (t : Levels), HeapInv s t →
    RunOKF (t, s.hdr.nextFree) ops →
    ∃ s' root', heapRunF (rootOff t) ops s = .ok root' s' ∧
      root' = rootOff (runF (t, s.hdr.nextFree) ops).1 ∧
      HeapInv s' (runF (t, s.hdr.nextFree) ops).1 ∧
      s'.hdr.nextFree = (runF (t, s.hdr.nextFree) ops).2 := by
  induction ops with
  | nil =>
    intro s t h _
    exact ⟨s, rootOff t, rfl, rfl, h, rfl⟩
  | cons op rest ih =>
    intro s t h hok
    have hok1 : RunOKF (t, s.hdr.nextFree) [op] ∧ RunOKF (applyF (t, s.hdr.nextFree) op) rest := by
      cases op with
      | op o => exact ⟨⟨hok.1, hok.2.1, trivial⟩, hok.2.2⟩
      | flush order => exact ⟨trivial, hok⟩
      | reload => exact ⟨⟨hok.1, trivial⟩, hok.2⟩
    obtain ⟨s1, e1, h1, hn1⟩ := heapStepF_refines s t op h hok1.1
    have hst : ((applyF (t, s.hdr.nextFree) op).1, s1.hdr.nextFree) = applyF (t, s.hdr.nextFree) op := by
      rw [hn1]
    obtain ⟨s', root', e2, hr, h', hn'⟩ := ih s1 (applyF (t, s.hdr.nextFree) op).1 h1
      (by rw [hst]; exact hok1.2)
    rw [hst] at hr h' hn'
    refine ⟨s', root', ?_, hr, h', hn'⟩
    show (heapStepF (rootOff t) op >>= fun root' => heapRunF root' rest) s = _
    rw [bind_ok e1]
    exact e2

/-! ### the store a history starts from -/

/-- a store whose heap holds `t` with every page dirty (a tree just created, nothing flushed yet) or,
more generally, with its clean pages in the data file and the header saved -/
theorem HeapInv.of_all_dirty {s : Store} {t : Levels} (hH : Holds s t) (hI : Inv t s.hdr.nextFree)
    (hmf : MemFiled s) (hd : ∀ e ∈ flatten t, e.2.2 = true) : HeapInv s t := by
  have hne : flatten t ≠ [] := by
    have := linked_below_ne t.inner _ hI.link
    intro h
    unfold flatten at h
    have h2 := (List.append_eq_nil_iff.mp h).1
    rw [List.map_eq_nil_iff] at h2
    rw [h2] at this
    exact this rfl
  refine ⟨hH, hI, hmf, ?_, ?_⟩
  · intro e he hcl
    rw [hd e he] at hcl; cases hcl
  · intro hc
    obtain ⟨e, he⟩ := List.exists_mem_of_ne_nil _ hne
    have := clean_self_pages hc e he
    rw [hd e he] at this; cases this

/-! ### non-vacuity -/

/-- 12 inserts (a leaf split, a new root), a flush, an update and a delete, a flush in another order, a
reload, a refused insert, another reload, two more inserts, a flush and a reload -/
def opsF0 : List FROp :=
  (List.range' 1 12).map (fun k => FROp.op (.ins k k [1])) ++
  [.flush [], .op (.upd 3 20 [9]), .op (.del 5 21), .flush [12288, 4096], .reload, .op (.ins 5 22 []), .reload,
   .op (.ins 13 23 [7]), .op (.ins 14 24 [7]), .flush [8192], .reload]

example : RunOKF (emptyTree 4096, 8192) opsF0 := by decide

theorem s0_memFiled : MemFiled s0 := by
  intro p hp
  simp only [s0, List.mem_singleton] at hp
  subst hp
  rfl

theorem s0_heapInv : HeapInv s0 (emptyTree 4096) := by
  refine HeapInv.of_all_dirty s0_holds (emptyTree_inv 4096 8192 (by decide)) s0_memFiled ?_
  intro e he
  simp [flatten, emptyTree] at he
  subst he
  rfl

/-- the theorem applies to the concrete history: the heap run succeeds, and the tree it ends with has three
leaves under a root and holds thirteen live rows -/
example : ∃ s' root', heapRunF 4096 opsF0 s0 = .ok root' s' ∧ HeapInv s' (runF (emptyTree 4096, 8192) opsF0).1 ∧
    ((runF (emptyTree 4096, 8192) opsF0).1.leaves.length, (runF (emptyTree 4096, 8192) opsF0).1.inner.length,
      (live (runF (emptyTree 4096, 8192) opsF0).1).map (·.key)) = (3, 1, [1, 2, 3, 4, 6, 7, 8, 9, 10, 11, 12, 13, 14]) := by
  obtain ⟨s', root', e, _, h, _⟩ := heapRunF_refines opsF0 s0 (emptyTree 4096) s0_heapInv (by decide)
  exact ⟨s', root', e, h, by decide⟩

end Mkdb.Store
