import Mkdb.Model.ScanBuf
/-!
Buffering in `Scanner.next` (sql/go_scanner.go) is invisible: whatever the reader returns per
`Read`, the runes, their widths and the token text are those of the unbuffered input.
-/
namespace Mkdb.ScanBuf

/-! ## DecodeRune / FullRune -/

set_option linter.unusedSimpArgs false in
/-- (d) `DecodeRune` is prefix-stable: once the bytes begin with a full rune (or there are
`UTFMax` of them), more bytes behind them do not change the result. -/
theorem decodeRune_prefix_stable (bs more : Bytes)
    (h : fullRune bs = true ∨ utfMax ≤ bs.length) :
    decodeRune (bs ++ more) = decodeRune bs := by
  match bs, h with
  | [], h => simp [fullRune, utfMax] at h
  | b0 :: t, h =>
    simp only [List.cons_append, decodeRune, fullRune] at h ⊢
    generalize lead b0 = L at h ⊢
    cases L with
    | ascii => rfl
    | invalid => rfl
    | two lo hi =>
      match t, h with
      | [], h => simp [utfMax] at h
      | _ :: _, _ => rfl
    | three lo hi =>
      match t, h with
      | [], h => simp [utfMax] at h
      | [b1], h =>
        simp only [utfMax, List.length_cons, List.length_nil] at h
        have h' : inR lo hi b1 = false := by simpa using h
        cases more <;> simp [h']
      | _ :: _ :: _, _ => rfl
    | four lo hi =>
      match t, h with
      | [], h => simp [utfMax] at h
      | [b1], h =>
        have h' : inR lo hi b1 = false := by simpa [utfMax] using h
        match more with
        | [] => simp
        | [_] => simp
        | _ :: _ :: _ => simp [h']
      | [b1, b2], h =>
        have h' : inR lo hi b1 = false ∨ cont b2 = false := by simpa [utfMax] using h
        cases more with
        | nil => rcases h' with h' | h' <;> simp [h']
        | cons m ms => rcases h' with h' | h' <;> simp [h']
      | _ :: _ :: _ :: _, _ => rfl

theorem decodeRune_width_le (p : Bytes) : (decodeRune p).2 ≤ p.length := by
  match p with
  | [] => simp [decodeRune]
  | b0 :: t =>
    simp only [decodeRune]
    repeat' split
    all_goals simp

theorem lead_ascii (b : UInt8) (h : b.toNat < runeSelf) : lead b = .ascii := by
  simp only [runeSelf] at h
  simp [lead, h]

/-- the ASCII fast path of `next` agrees with `DecodeRune` -/
theorem decodeRune_ascii (p : Bytes) (h : ¬ runeSelf ≤ headOrSentinel p) :
    p ≠ [] ∧ decodeRune p = (headOrSentinel p, 1) := by
  match p with
  | [] => simp [headOrSentinel] at h
  | b :: t =>
    simp only [headOrSentinel, Nat.not_le] at h
    simp [decodeRune, lead_ascii b h, headOrSentinel]

/-! ## the refill loop -/

/-- the token text collected so far: `tokBuf ++ srcBuf[tokPos:srcPos]` (if `tokPos >= 0`) -/
def tokAll (st : St) : Option Bytes := st.tok.map (st.tokBuf ++ ·)

@[simp] theorem saveTok_win (st : St) : (saveTok st).win = st.win := by
  unfold saveTok; split <;> rfl
@[simp] theorem saveTok_rest (st : St) : (saveTok st).rest = st.rest := by
  unfold saveTok; split <;> rfl
@[simp] theorem saveTok_last (st : St) : (saveTok st).last = st.last := by
  unfold saveTok; split <;> rfl
@[simp] theorem saveTok_sched (st : St) : (saveTok st).sched = st.sched := by
  unfold saveTok; split <;> rfl
@[simp] theorem saveTok_tokAll (st : St) : tokAll (saveTok st) = tokAll st := by
  unfold saveTok tokAll; split <;> simp [*]

@[simp] theorem tokAll_mk (w tb : Bytes) (t : Option Bytes) (l r : Bytes) (sc : Nat → Choice) (k : Nat) :
    tokAll ⟨w, tb, t, l, r, sc, k⟩ = t.map (tb ++ ·) := rfl
@[simp] theorem saveTok_tokAll' (st : St) :
    (saveTok st).tok.map ((saveTok st).tokBuf ++ ·) = tokAll st := saveTok_tokAll st

theorem readCount_pos (c : Choice) (i left : Nat) (hi : i < utfMax) (hl : 0 < left) :
    1 ≤ readCount c i left := by
  simp only [readCount, utfMax, bufLen] at *
  omega

/-- what the loop of `next` guarantees -/
structure RefillOK (st : St) (r : Bool × St) : Prop where
  pend : pending r.2 = pending st
  tok : tokAll r.2 = tokAll st
  sched : r.2.sched = st.sched
  eof : r.1 = true → pending st = [] ∧ r.2.win = [] ∧ r.2.last = []
  go : r.1 = false → r.2.win ≠ [] ∧ decodeRune r.2.win = decodeRune (pending st)

theorem refill_ok : ∀ (n : Nat) (st : St), st.rest.length = n → RefillOK st (refill st) := by
  intro n
  induction n using Nat.strongRecOn with
  | _ n ih =>
    intro st hn
    rw [refill]
    by_cases h : st.win.length < utfMax ∧ fullRune st.win = false
    · rw [dif_pos h]
      by_cases hr : st.rest = []
      · simp only [hr, dite_true]
        by_cases hw : st.win = []
        · simp only [hw, ite_true]
          constructor <;> simp [pending, hr, hw]
        · simp only [hw, ite_false]
          constructor <;> simp [pending, hr, hw]
      · rw [dif_neg hr]
        have hl : 0 < st.rest.length := List.length_pos_iff.mpr hr
        have hn1 := readCount_pos (st.sched st.reads) st.win.length st.rest.length h.1 hl
        dsimp only
        generalize readCount (st.sched st.reads) st.win.length st.rest.length = k at hn1
        have hpend : (st.win ++ st.rest.take k) ++ st.rest.drop k = pending st := by
          simp [pending]
        have hne : st.win ++ st.rest.take k ≠ [] := by
          cases hrr : st.rest with
          | nil => exact absurd hrr hr
          | cons a t =>
            cases k with
            | zero => omega
            | succ k => simp
        split
        · rename_i hb
          constructor
          · exact hpend
          · simp
          · simp
          · simp
          · intro _
            refine ⟨hne, ?_⟩
            rw [← hpend, hb.1, List.append_nil]
        · have hlt : (st.rest.drop k).length < n := by
            simp only [List.length_drop]; omega
          have := ih _ hlt ⟨st.win ++ st.rest.take k, (saveTok st).tokBuf, (saveTok st).tok,
            (saveTok st).last, st.rest.drop k, (saveTok st).sched, st.reads + 1⟩ rfl
          constructor
          · rw [this.pend]; exact hpend
          · rw [this.tok]; simp
          · rw [this.sched]; simp
          · intro he
            have := this.eof he
            simp only [pending] at this
            exact absurd (List.append_eq_nil_iff.mp this.1).1 hne
          · intro hg
            have h2 := this.go hg
            refine ⟨h2.1, ?_⟩
            rw [h2.2]
            simp only [pending]
            rw [hpend]; rfl
    · rw [dif_neg h]
      refine ⟨rfl, rfl, rfl, by simp, fun _ => ?_⟩
      have h' : fullRune st.win = true ∨ utfMax ≤ st.win.length := by
        by_cases hf : fullRune st.win = true
        · exact Or.inl hf
        · right
          have : ¬ st.win.length < utfMax := fun hl => h ⟨hl, by simpa using hf⟩
          omega
      refine ⟨?_, (decodeRune_prefix_stable st.win st.rest h').symm⟩
      intro he
      rw [he] at h'
      simp [fullRune, utfMax] at h'

/-! ## one call of `next` -/

theorem advance_ok (st : St) (w : Nat) (hw : w ≤ st.win.length) :
    pending (advance st w) = (pending st).drop w ∧ (advance st w).last = (pending st).take w ∧
    tokAll (advance st w) = (tokAll st).map (· ++ (pending st).take w) ∧
    (∀ t, (advance st w).tok = some t → (advance st w).last.length ≤ t.length) := by
  have h1 : (st.win ++ st.rest).drop w = st.win.drop w ++ st.rest := List.drop_append_of_le_length hw
  have h2 : (st.win ++ st.rest).take w = st.win.take w := List.take_append_of_le_length hw
  refine ⟨?_, ?_, ?_, ?_⟩
  · simp only [pending, advance, h1]
  · simp only [pending, advance, h2]
  · simp only [pending, advance, h2, tokAll, Option.map_map]
    congr 1
    funext t
    simp
  · intro t ht
    simp only [advance, Option.map_eq_some_iff] at ht
    obtain ⟨t0, _, rfl⟩ := ht
    simp only [advance, List.length_append]
    omega

/-- What one call of `next` does, in terms of the unread source bytes `pending st` only:
it decodes the rune at their front, consumes exactly its bytes, remembers them as the last
character and appends them to the token text; at the end of the source it returns EOF. -/
structure NextOK (st : St) (r : Option Nat × Nat × St) : Prop where
  sched : r.2.2.sched = st.sched
  lastLen : ∀ t, r.2.2.tok = some t → r.2.2.last.length ≤ t.length
  eof : pending st = [] →
    r.1 = none ∧ r.2.1 = 0 ∧ pending r.2.2 = [] ∧ r.2.2.last = [] ∧ tokAll r.2.2 = tokAll st
  rune : pending st ≠ [] →
    r.1 = some (decodeRune (pending st)).1 ∧ r.2.1 = (decodeRune (pending st)).2 ∧
    pending r.2.2 = (pending st).drop (decodeRune (pending st)).2 ∧
    r.2.2.last = (pending st).take (decodeRune (pending st)).2 ∧
    tokAll r.2.2 = (tokAll st).map (· ++ (pending st).take (decodeRune (pending st)).2)

theorem next_ok (st : St) : NextOK st (next st) := by
  unfold next
  split
  · -- refill
    have hr := refill_ok _ st rfl
    split
    · rename_i st1 heq
      rw [heq] at hr
      have he := hr.eof rfl
      refine ⟨hr.sched, ?_, fun _ => ⟨rfl, rfl, ?_, he.2.2, hr.tok⟩, fun hp => absurd he.1 hp⟩
      · intro t _; dsimp only; rw [he.2.2]; exact Nat.zero_le _
      · rw [hr.pend]; exact he.1
    · rename_i st1 heq
      rw [heq] at hr
      have hg := hr.go rfl
      have hpne : pending st ≠ [] := by
        rw [← hr.pend]; simp only [pending]; intro h
        exact hg.1 (List.append_eq_nil_iff.mp h).1
      have hdec : decodeRune (pending st1) = decodeRune (pending st) := by rw [hr.pend]
      dsimp only at hg hr ⊢
      split
      · have ha := advance_ok st1 (decodeRune st1.win).2 (decodeRune_width_le _)
        rw [hr.pend, hr.tok, hg.2] at ha
        have hll := (advance_ok st1 (decodeRune st1.win).2 (decodeRune_width_le _)).2.2.2
        rw [hg.2] at hll ⊢
        exact ⟨hr.sched, hll, fun hp => absurd hp hpne, fun _ => ⟨rfl, rfl, ha.1, ha.2.1, ha.2.2.1⟩⟩
      · rename_i hasc
        have hd := decodeRune_ascii st1.win hasc
        have hw : 1 ≤ st1.win.length := List.length_pos_iff.mpr hd.1
        have ha := advance_ok st1 1 hw
        have h1 : decodeRune (pending st) = (headOrSentinel st1.win, 1) := by rw [← hg.2, hd.2]
        rw [hr.pend, hr.tok] at ha
        refine ⟨hr.sched, ha.2.2.2, fun hp => absurd hp hpne, fun _ => ?_⟩
        rw [h1]
        exact ⟨rfl, rfl, ha.1, ha.2.1, ha.2.2.1⟩
  · rename_i hasc
    have hd := decodeRune_ascii st.win hasc
    have hw : 1 ≤ st.win.length := List.length_pos_iff.mpr hd.1
    have ha := advance_ok st 1 hw
    have hfull : fullRune st.win = true := by
      match hww : st.win, hasc with
      | [], h => simp [headOrSentinel] at h
      | b :: t, h =>
        simp only [headOrSentinel, Nat.not_le] at h
        simp [fullRune, lead_ascii b h]
    have h1 : decodeRune (pending st) = (headOrSentinel st.win, 1) := by
      rw [← hd.2]; exact decodeRune_prefix_stable st.win st.rest (Or.inl hfull)
    have hpne : pending st ≠ [] := by
      simp only [pending]; intro h
      exact hd.1 (List.append_eq_nil_iff.mp h).1
    refine ⟨rfl, ha.2.2.2, fun hp => absurd hp hpne, fun _ => ?_⟩
    rw [h1]
    exact ⟨rfl, rfl, ha.1, ha.2.1, ha.2.2.1⟩

/-- the width `DecodeRune` reports for the rune at the front of `p` (0 when `p` is empty) -/
def width (p : Bytes) : Nat := (decodeRune p).2

theorem width_nil : width [] = 0 := rfl

theorem next_pending (st : St) : pending (next st).2.2 = (pending st).drop (width (pending st)) := by
  have h := next_ok st
  by_cases hp : pending st = []
  · rw [(h.eof hp).2.2.1, hp]; rfl
  · exact (h.rune hp).2.2.1

theorem next_last (st : St) : (next st).2.2.last = (pending st).take (width (pending st)) := by
  have h := next_ok st
  by_cases hp : pending st = []
  · rw [(h.eof hp).2.2.2.1, hp]; rfl
  · exact (h.rune hp).2.2.2.1

theorem next_tokAll (st : St) :
    tokAll (next st).2.2 = (tokAll st).map (· ++ (pending st).take (width (pending st))) := by
  have h := next_ok st
  by_cases hp : pending st = []
  · rw [(h.eof hp).2.2.2.2, hp]
    simp
  · exact (h.rune hp).2.2.2.2

/-! ## (a), (b): all runes and widths -/

theorem decodeAll_nil : decodeAll [] = [] := by rw [decodeAll]

theorem decodeAll_ne (p : Bytes) (h : p ≠ []) :
    decodeAll p = decodeRune p :: decodeAll (p.drop (decodeRune p).2) := by
  match p, h with
  | b :: t, _ => rw [decodeAll]

theorem width_pos (p : Bytes) (h : p ≠ []) : 1 ≤ width p := by
  match p, h with
  | b :: t, _ => exact decodeRune_width_pos b t

/-- With enough fuel (more than the number of unread bytes) the buffered run delivers exactly
the (rune, width) pairs of direct decoding; in particular the result does not depend on the
fuel, i.e. the run reached EOF. -/
theorem nextAllFuel_eq_decodeAll : ∀ (fuel : Nat) (st : St), (pending st).length < fuel →
    nextAllFuel fuel st = decodeAll (pending st) := by
  intro fuel
  induction fuel with
  | zero => intro st h; omega
  | succ fuel ih =>
    intro st hlen
    have h := next_ok st
    have hp' := next_pending st
    simp only [width] at hp'
    unfold nextAllFuel
    by_cases hp : pending st = []
    · have he := (h.eof hp).1
      split
      · rw [hp, decodeAll_nil]
      · rename_i heq; rw [heq] at he; cases he
    · have hr := h.rune hp
      split
      · rename_i heq; rw [heq] at hr; cases hr.1
      · rename_i r w st' heq
        rw [heq] at hr hp'
        dsimp only at hr hp'
        have hw := width_pos _ hp
        simp only [width] at hw
        have hw2 := decodeRune_width_le (pending st)
        have hlen' : (pending st').length < fuel := by
          rw [hp', List.length_drop]; omega
        rw [ih st' hlen', decodeAll_ne _ hp, hp']
        have h1 : r = (decodeRune (pending st)).1 := Option.some.inj hr.1
        rw [h1, hr.2.1]

/-- (a)+(b) for any scanner state: runes and widths of the buffered run are those of decoding
the unread source bytes directly. -/
theorem nextAll_eq_decodeAll (st : St) : nextAll st = decodeAll (pending st) :=
  nextAllFuel_eq_decodeAll _ st (Nat.lt_succ_self _)

/-- the runes without the widths -/
def decodeRunes (bs : Bytes) : List Nat := (decodeAll bs).map (·.1)

/-- (a) For every input and every behaviour of the reader, the runes the buffered scanner
delivers from `Init` until EOF are the runes of the input decoded directly. -/
theorem nextAll_buffered_eq_unbuffered (input : Bytes) (sched : Nat → Choice) :
    (nextAll (init input sched)).map (·.1) = decodeRunes input := by
  rw [nextAll_eq_decodeAll]; rfl

/-- (b) ... and every rune consumes the same number of bytes, so all positions agree. -/
theorem nextAll_widths_eq (input : Bytes) (sched : Nat → Choice) :
    (nextAll (init input sched)).map (·.2) = (decodeAll input).map (·.2) := by
  rw [nextAll_eq_decodeAll]; rfl

/-- The widths add up to the length of the input: nothing is skipped, nothing read twice. -/
theorem decodeAll_widths_sum : ∀ (n : Nat) (p : Bytes), p.length = n →
    ((decodeAll p).map (·.2)).sum = p.length := by
  intro n
  induction n using Nat.strongRecOn with
  | _ n ih =>
    intro p hn
    by_cases hp : p = []
    · rw [hp, decodeAll_nil]; rfl
    · rw [decodeAll_ne p hp]
      have h1 := width_pos p hp
      have h2 := decodeRune_width_le p
      simp only [width] at h1
      have := ih (p.drop (decodeRune p).2).length (by rw [List.length_drop]; omega) _ rfl
      simp only [List.map_cons, List.sum_cons, this, List.length_drop]
      omega

/-! ## (c): token text -/

/-- bytes consumed by `k` calls of `next` when `p` is unread -/
def consumed : Nat → Bytes → Nat
  | 0, _ => 0
  | k + 1, p => width p + consumed k (p.drop (width p))

theorem nexts_pending : ∀ (k : Nat) (st : St),
    pending (nexts k st) = (pending st).drop (consumed k (pending st)) := by
  intro k
  induction k with
  | zero => intro st; rfl
  | succ k ih =>
    intro st
    simp only [nexts, consumed]
    rw [ih, next_pending, List.drop_drop]

theorem nexts_tokAll : ∀ (k : Nat) (st : St),
    tokAll (nexts k st) = (tokAll st).map (· ++ (pending st).take (consumed k (pending st))) := by
  intro k
  induction k with
  | zero => intro st; simp [nexts, consumed]
  | succ k ih =>
    intro st
    simp only [nexts, consumed]
    rw [ih, next_pending, next_tokAll, Option.map_map]
    congr 1
    funext t
    simp only [Function.comp, List.append_assoc, List.take_add]

theorem nexts_succ : ∀ (k : Nat) (st : St), nexts (k + 1) st = (next (nexts k st)).2.2 := by
  intro k
  induction k with
  | zero => intro st; rfl
  | succ k ih => intro st; rw [nexts, ih]; rfl

theorem tokenText_of_tokAll (st : St) (L : Bytes) (h : tokAll st = some (L ++ st.last))
    (hl : ∀ t, st.tok = some t → st.last.length ≤ t.length) : tokenText st = L := by
  unfold tokAll at h
  unfold tokenText
  cases ht : st.tok with
  | none => rw [ht] at h; cases h
  | some t =>
    rw [ht] at h
    have hlen := hl t ht
    have h' : st.tokBuf ++ t = L ++ st.last := Option.some.inj h
    have hlen2 := congrArg List.length h'
    simp only [List.length_append] at hlen2
    dsimp only
    have : st.tokBuf ++ t.take (t.length - st.last.length) = (st.tokBuf ++ t).take L.length := by
      have e1 : st.tokBuf.length ≤ L.length := by omega
      have e2 : L.length - st.tokBuf.length = t.length - st.last.length := by omega
      rw [List.take_append, List.take_of_length_le e1, e2]
    rw [this, h', List.take_left']
    rfl

/-- (c) Token text, for any scanner state `st` (any buffer content, any reader): if `Scan`
starts a token (`tokPos = srcPos - lastCharLen`) and then calls `next` `k+1` times, the text
`TokenText()` returns is the last character read before, followed by exactly the source bytes
the first `k` of these calls consumed (the last call read the look-ahead character, which
does not belong to the token) - whatever refills happened in between. -/
theorem tokenText_nexts (st : St) (k : Nat) :
    tokenText (nexts (k + 1) (startToken st)) =
      st.last ++ (pending st).take (consumed k (pending st)) := by
  rw [nexts_succ]
  apply tokenText_of_tokAll
  · rw [next_tokAll, next_last, nexts_tokAll]
    simp [tokAll, startToken, pending]
  · exact (next_ok _).lastLen

/-- `consumed` is the sum of the first `k` widths of direct decoding. -/
theorem consumed_eq_sum : ∀ (k : Nat) (p : Bytes),
    consumed k p = (((decodeAll p).take k).map (·.2)).sum := by
  intro k
  induction k with
  | zero => intro p; simp [consumed]
  | succ k ih =>
    intro p
    by_cases hp : p = []
    · subst hp
      have : ∀ j, consumed j [] = 0 := by
        intro j; induction j with
        | zero => rfl
        | succ j ihj => simp only [consumed, width_nil, List.drop_nil, ihj]
      rw [this, decodeAll_nil]; rfl
    · rw [decodeAll_ne p hp]
      simp only [consumed, List.take_succ_cons, List.map_cons, List.sum_cons, ih, width]

/-- (c) from `Init`: the token that `Scan` starts after `i+1` characters have been read (so it
begins with character number `i+1`) and ends when `k+1` more have been read is, as text,
the `k+1` characters of the input that begin at the byte offset of character `i+1`. -/
theorem tokenText_from_init (input : Bytes) (sched : Nat → Choice) (i k : Nat) :
    tokenText (nexts (k + 1) (startToken (nexts (i + 1) (init input sched)))) =
      (input.drop (consumed i input)).take (consumed (k + 1) (input.drop (consumed i input))) := by
  rw [tokenText_nexts, nexts_succ, next_last, next_pending, nexts_pending]
  have : pending (init input sched) = input := rfl
  rw [this]
  simp only [consumed, List.take_add]

/-- after all runes have been delivered, `next` returns EOF (and keeps returning it) -/
theorem next_eof_at_end (st : St) (h : pending st = []) :
    (next st).1 = none ∧ pending (next st).2.2 = [] :=
  ⟨((next_ok st).eof h).1, ((next_ok st).eof h).2.2.1⟩

/-! ## evaluation: the same functions by structural recursion

`refill` and `decodeAll` are defined by well-founded recursion, which `decide` does not
unfold.  Fuel versions, proved equal, let concrete runs be computed. -/

def refillF : Nat → St → Bool × St
  | 0, st => (false, st)
  | fuel + 1, st =>
    if st.win.length < utfMax ∧ fullRune st.win = false then
      let st1 := saveTok st
      if st.rest = [] then
        if st.win = [] then (true, { st1 with last := [], reads := st.reads + 1 })
        else (false, { st1 with reads := st.reads + 1 })
      else
        let c := st.sched st.reads
        let n := readCount c st.win.length st.rest.length
        let st2 : St := { st1 with win := st.win ++ st.rest.take n, rest := st.rest.drop n,
                                   reads := st.reads + 1 }
        if st2.rest = [] ∧ c.eofWithData = true then (false, st2)
        else refillF fuel st2
    else (false, st)

theorem refill_eq_refillF : ∀ (fuel : Nat) (st : St), st.rest.length < fuel →
    refill st = refillF fuel st := by
  intro fuel
  induction fuel with
  | zero => intro st h; omega
  | succ fuel ih =>
    intro st hlt
    rw [refill, refillF]
    by_cases h : st.win.length < utfMax ∧ fullRune st.win = false
    · rw [dif_pos h, if_pos h]
      by_cases hr : st.rest = []
      · simp only [hr, dite_true, ite_true]
      · rw [dif_neg hr, if_neg hr]
        have hl : 0 < st.rest.length := List.length_pos_iff.mpr hr
        have hn1 := readCount_pos (st.sched st.reads) st.win.length st.rest.length h.1 hl
        dsimp only
        split
        · rfl
        · apply ih
          simp only [List.length_drop]; omega
    · rw [dif_neg h, if_neg h]

def nextF (st : St) : Option Nat × Nat × St :=
  if runeSelf ≤ headOrSentinel st.win then
    match refillF (st.rest.length + 1) st with
    | (true, st1) => (none, 0, st1)
    | (false, st1) =>
      let ch := headOrSentinel st1.win
      if runeSelf ≤ ch then
        let d := decodeRune st1.win
        (some d.1, d.2, advance st1 d.2)
      else (some ch, 1, advance st1 1)
  else (some (headOrSentinel st.win), 1, advance st 1)

theorem next_eq_nextF (st : St) : next st = nextF st := by
  unfold next nextF
  rw [refill_eq_refillF (st.rest.length + 1) st (Nat.lt_succ_self _)]
  rfl

def nextsF : Nat → St → St
  | 0, st => st
  | k + 1, st => nextsF k (nextF st).2.2

theorem nexts_eq_nextsF : ∀ (k : Nat) (st : St), nexts k st = nextsF k st := by
  intro k
  induction k with
  | zero => intro st; rfl
  | succ k ih => intro st; rw [nexts, nextsF, ih, next_eq_nextF]

def nextAllF : Nat → St → List (Nat × Nat)
  | 0, _ => []
  | fuel + 1, st =>
    match nextF st with
    | (none, _, _) => []
    | (some r, w, st') => (r, w) :: nextAllF fuel st'

theorem nextAllFuel_eq_nextAllF : ∀ (fuel : Nat) (st : St), nextAllFuel fuel st = nextAllF fuel st := by
  intro fuel
  induction fuel with
  | zero => intro st; rfl
  | succ fuel ih =>
    intro st
    rw [nextAllFuel, nextAllF, next_eq_nextF]
    generalize nextF st = r
    match r with
    | (none, _, _) => rfl
    | (some r, w, st') => simp only [ih]

def decodeAllF : Nat → Bytes → List (Nat × Nat)
  | 0, _ => []
  | _, [] => []
  | fuel + 1, b :: t => decodeRune (b :: t) :: decodeAllF fuel ((b :: t).drop (decodeRune (b :: t)).2)

theorem decodeAll_eq_decodeAllF : ∀ (fuel : Nat) (p : Bytes), p.length ≤ fuel →
    decodeAll p = decodeAllF fuel p := by
  intro fuel
  induction fuel with
  | zero =>
    intro p h
    have : p = [] := List.length_eq_zero_iff.mp (by omega)
    rw [this, decodeAll_nil]; rfl
  | succ fuel ih =>
    intro p h
    match p, h with
    | [], _ => rw [decodeAll_nil]; rfl
    | b :: t, h =>
      rw [decodeAll_ne _ (by simp), decodeAllF]
      have := decodeRune_width_pos b t
      rw [ih]
      simp only [List.length_drop, List.length_cons] at h ⊢
      omega

end Mkdb.ScanBuf
