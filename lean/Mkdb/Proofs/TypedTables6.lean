import Mkdb.Proofs.TypedTables5
import Mkdb.Proofs.RoundtripStmt8
/-!
C18, typed tables, part 6: **a SELECT on a stored database never panics**.

* `stored_table_typed`: on a store that abstracts to a plain database, `Fetch` of a name other than the
  two catalog tables returns an error value (unknown table) or the table of the plain database - its
  declared columns, exactly its rows - and those rows are kinded by the declared column types.
* `select_on_stored_never_panics`: so `evaluateSelect (fetchOf db) q` is `.ok` or `.err` for every
  SELECT of a parser-produced shape whose FROM clause does not name `sys_pages` / `sys_schema`.
* `wfSelect_shape`, `parsed_select_shape`: the shape hypothesis holds of every SELECT `Parser.Parse` returns.

The FROM clause is restricted to user tables because the invariant (`AbsV`, `DbInv`) describes the rows
`sys_schema` holds for the USER tables only: what `Fetch` returns for the two catalog tables themselves
(their own schema rows, written by `CREATE DATABASE` and never touched) is not pinned by it.  Their
rows are well shaped whatever they are (`fetchOf_wellShaped`) and typed as soon as the schema `Fetch`
returns has distinct column names (`fetchTable_kinded`); what stays open for them is that `Fetch` itself
returns a value (for `sys_pages` that needs the page table to list itself, `PtSelf`, which `DbInv` does
not carry) and that distinctness - `catalogOK` checks exactly these two on a given database.
-/
set_option autoImplicit false
namespace Mkdb.Store
open Mkdb.Page Mkdb.Tuple Mkdb.Generated Mkdb.Tree Mkdb.Engine Mkdb.Exec Mkdb.Exec.TypedP Mkdb.Sql

/-- the table names a SELECT reads -/
def selectNames (q : Select) : List Bytes :=
  match q.from_ with
  | some tr => fromNames tr
  | none => []

/-- the SELECT reads user tables only: its FROM clause names neither `sys_pages` nor `sys_schema` -/
def UserTables (q : Select) : Prop := ∀ n ∈ selectNames q, n ≠ sysPages ∧ n ≠ sysSchema

instance (q : Select) : Decidable (UserTables q) := by unfold UserTables; infer_instance

/-- **What a SELECT reads from a user table name**: an error value (the name is unknown) or the table of
the plain database, and then every row is kinded by the declared column types. -/
theorem stored_table_typed {db : Engine.DB} {sdb : Spec.SDB} {pt sch : Levels} {tbls : List (Bytes × Levels)}
    (h : AbsV db.store pt sch tbls sdb) (n : Bytes) (h1 : n ≠ sysPages) (h2 : n ≠ sysSchema) :
    FetchTotal db n ∧ ∀ t, fetchOf db n = some t → ∃ tb, Spec.findTable sdb n = some tb ∧
      t.cols = tb.cols.map (fun fd => fd.name.toUTF8.toList) ∧ t.rows = tb.rows.map (·.vals) ∧
      ∀ r ∈ t.rows, rowHas (Spec.colKinds tb.cols) r = true := by
  cases hf : Spec.findTable sdb n with
  | some tb =>
    obtain ⟨rows, s', e, hrows⟩ := h.reads hf
    refine ⟨.inl ⟨_, s', e⟩, ?_⟩
    intro t ht
    unfold fetchOf at ht
    rw [e] at ht
    simp only [Option.some.injEq] at ht
    subst ht
    refine ⟨tb, rfl, rfl, hrows, ?_⟩
    intro r hr
    simp only [hrows, List.mem_map] at hr
    obtain ⟨r0, hr0, rfl⟩ := hr
    exact h.typed.rows tb (Spec.findTable_mem hf).1 r0 hr0
  | none =>
    obtain ⟨sdb0, habs, hv⟩ := h
    have hn : n ∉ tbls.map (·.1) :=
      findTable_none_notin habs.tabs habs.cat.tnames ((findTable_none_congr hv n).mpr hf)
    obtain ⟨s', e, _, _⟩ := fetchTable_unknown_table habs.cat n h1 h2 hn
    refine ⟨.inr ⟨_, s', e⟩, ?_⟩
    intro t ht
    unfold fetchOf at ht
    rw [e] at ht
    cases ht

/-- the tables of `fetchOf db` without the two catalog tables -/
def userFetch (db : Engine.DB) (n : Bytes) : Option Exec.Table :=
  if n = sysPages ∨ n = sysSchema then none else fetchOf db n

theorem userFetch_kinded {db : Engine.DB} {sdb : Spec.SDB} {pt sch : Levels} {tbls : List (Bytes × Levels)}
    (h : AbsV db.store pt sch tbls sdb) : KindedFetch (userFetch db) := by
  intro n t hn
  unfold userFetch at hn
  split at hn
  · cases hn
  · rename_i hsys
    obtain ⟨tb, _, hc, _, hk⟩ := (stored_table_typed h n (fun e => hsys (.inl e)) (fun e => hsys (.inr e))).2 t hn
    exact ⟨Spec.colKinds tb.cols, by rw [hc]; simp [Spec.colKinds], hk⟩

/-- **A SELECT on a stored database never panics.**  For a store that abstracts to a plain database, a
select list of the shape the parser builds and a FROM clause over user tables: `Fetch` of every table
read returns rows or an error value, and the evaluation returns rows or an error value. -/
theorem select_on_stored_never_panics {db : Engine.DB} {sdb : Spec.SDB} {pt sch : Levels}
    {tbls : List (Bytes × Levels)} (h : AbsV db.store pt sch tbls sdb) (q : Select)
    (hq : Exec.NoPanicP.ParsedShape q) (hn : UserTables q) :
    (∀ n ∈ selectNames q, FetchTotal db n) ∧ (∀ s, evaluateSelect (fetchOf db) q ≠ .panic s) ∧
      ∀ rows hdr, evaluateSelect (fetchOf db) q = .ok (rows, hdr) →
        ∃ ks : List Kind, ∀ r ∈ rows, rowHas ks r = true := by
  have hcongr : evaluateSelect (fetchOf db) q = evaluateSelect (userFetch db) q := by
    apply evaluateSelect_congr
    intro tr htr n hmem
    have : n ∈ selectNames q := by unfold selectNames; rw [htr]; exact hmem
    obtain ⟨a, b⟩ := hn n this
    unfold userFetch
    rw [if_neg (fun hx => hx.elim a b)]
  refine ⟨fun n hmem => (stored_table_typed h n (hn n hmem).1 (hn n hmem).2).1, ?_, ?_⟩
  · intro s
    rw [hcongr]
    exact evaluateSelect_no_panic (userFetch_kinded h) q hq s
  · intro rows hdr e
    rw [hcongr] at e
    exact (evaluateSelect_kinded (userFetch_kinded h) q hq).of_ok e

/-! ### the two catalog tables, by a check on the database -/

/-- a Boolean check of the two catalog tables: `Fetch` of `sys_pages` and of `sys_schema` returns an
error value, or rows under a schema whose column names are distinct -/
def catalogOK (db : Engine.DB) : Bool :=
  [sysPages, sysSchema].all fun n =>
    match fetchTable n db.store with
    | .ok (_, schema) _ => decide ((schema.map (·.name)).Nodup)
    | .err _ _ => true
    | _ => false

theorem catalog_table_typed {db : Engine.DB} (hc : catalogOK db = true) (n : Bytes)
    (hn : n = sysPages ∨ n = sysSchema) :
    FetchTotal db n ∧ ∀ t, fetchOf db n = some t →
      ∃ ks : List Kind, ks.length = t.cols.length ∧ ∀ r ∈ t.rows, rowHas ks r = true := by
  unfold catalogOK at hc
  have hc' := List.all_eq_true.mp hc n (by rcases hn with rfl | rfl <;> simp)
  cases e : fetchTable n db.store with
  | ok r s' =>
    obtain ⟨rows, schema⟩ := r
    rw [e] at hc'
    simp only [decide_eq_true_eq] at hc'
    refine ⟨.inl ⟨_, s', e⟩, ?_⟩
    intro t ht
    unfold fetchOf at ht
    rw [e] at ht
    simp only [Option.some.injEq] at ht
    subst ht
    refine ⟨Spec.colKinds schema, by simp [Spec.colKinds], ?_⟩
    intro r hr
    simp only [List.mem_map] at hr
    obtain ⟨r0, hr0, rfl⟩ := hr
    exact fetchTable_kinded e hc' r0 hr0
  | err x s' =>
    refine ⟨.inr ⟨_, s', e⟩, ?_⟩
    intro t ht
    unfold fetchOf at ht
    rw [e] at ht
    cases ht
  | panic p => rw [e] at hc'; cases hc'
  | unmodelled w => rw [e] at hc'; cases hc'
  | fuel => rw [e] at hc'; cases hc'

theorem fetchOf_kinded {db : Engine.DB} {sdb : Spec.SDB} {pt sch : Levels} {tbls : List (Bytes × Levels)}
    (h : AbsV db.store pt sch tbls sdb) (hc : catalogOK db = true) : KindedFetch (fetchOf db) := by
  intro n t hn
  by_cases hsys : n = sysPages ∨ n = sysSchema
  · exact (catalog_table_typed hc n hsys).2 t hn
  · obtain ⟨tb, _, hcols, _, hk⟩ :=
      (stored_table_typed h n (fun e => hsys (.inl e)) (fun e => hsys (.inr e))).2 t hn
    exact ⟨Spec.colKinds tb.cols, by rw [hcols]; simp [Spec.colKinds], hk⟩

/-- the same for ANY FROM clause - the two catalog tables included - on a database that passes the
check `catalogOK` -/
theorem select_any_table_never_panics {db : Engine.DB} {sdb : Spec.SDB} {pt sch : Levels}
    {tbls : List (Bytes × Levels)} (h : AbsV db.store pt sch tbls sdb) (hc : catalogOK db = true) (q : Select)
    (hq : Exec.NoPanicP.ParsedShape q) :
    (∀ n ∈ selectNames q, FetchTotal db n) ∧ ∀ s, evaluateSelect (fetchOf db) q ≠ .panic s := by
  refine ⟨fun n _ => ?_, evaluateSelect_no_panic (fetchOf_kinded h hc) q hq⟩
  by_cases hsys : n = sysPages ∨ n = sysSchema
  · exact (catalog_table_typed hc n hsys).1
  · exact (stored_table_typed h n (fun e => hsys (.inl e)) (fun e => hsys (.inr e))).1

/-! ### the shape hypothesis holds of parsed statements -/

theorem wfLimit_boundsOK {ok : Lit → Bool} {l : LimitOffset} (h : wfLimit ok l = true) :
    Spec.boundsOK l = true := by
  unfold wfLimit at h
  unfold Spec.boundsOK
  cases ho : l.offsetActive <;> cases hl : l.limitActive <;>
    simp only [ho, hl, Bool.false_eq_true, if_false, if_true, Bool.and_eq_true, decide_eq_true_eq] at h <;>
    simp only [Bool.not_false, Bool.not_true, Bool.true_or, Bool.false_or, Bool.and_self, Bool.and_true,
      Bool.true_and, decide_eq_true_eq, Bool.and_eq_true]
  · exact h.1.1
  · exact h.2.1
  · exact ⟨h.2.1, h.1.1⟩

theorem wfSelect_shape {ok : Lit → Bool} {q : Select} (h : wfSelect ok q = true) :
    Exec.NoPanicP.ParsedShape q := by
  unfold wfSelect at h
  simp only [Bool.and_eq_true] at h
  have hb := wfLimit_boundsOK h.1.2
  have hl := h.1.1.1
  unfold wfSelList at hl
  simp only [Bool.or_eq_true, decide_eq_true_eq, Bool.and_eq_true] at hl
  rcases hl with hl | ⟨hne, hl⟩
  · exact Exec.NoPanicP.ParsedShape.of_star hb hl
  · refine Exec.NoPanicP.ParsedShape.of_nostar ?_ hb ?_
    · intro e
      rw [e] at hne
      cases hne
    cases hql : q.list with
    | nil => rfl
    | cons d rest =>
      rw [hql] at hl
      have := List.all_eq_true.mp hl d (by simp)
      unfold isStar
      cases hd : d.item with
      | star => rw [hd] at this; cases this
      | count c => simp [hd]
      | avg c => simp [hd]
      | expr c => simp [hd]

/-- **every SELECT `Parser.Parse` returns has the shape `C18_no_panic_partial` asks for** -/
theorem parsed_select_shape {ts : List Scan.Token} {q : Select} (h : parseTokens ts = .ok (.select q)) :
    Exec.NoPanicP.ParsedShape q :=
  wfSelect_shape (parseTokens_wf h)

end Mkdb.Store
