import Mkdb.Proofs.SpecRefineB4
/-!
End-to-end refinement, part B5: UPDATE refused at a LATER selected row (the known finding, exactly).

The spec refuses the whole statement (nothing changes); the model's `evalUpdate` fails only after
having rewritten the selected rows before the first one that cannot be rewritten: the log is
untouched, and the store abstracts to the spec database in which exactly those rows are rewritten
(`rewriteFirst`, the states `Spec.prefixStates` enumerates).

* `evalUpdate_go_prefix`: the loop of `evalUpdate` runs through a prefix of rewritable rows.
* `rows_rewriteFirst`: the rows of the cells after the first `n` selected ones were rewritten.
* `evalUpdate_kth_refused_spec`.
-/
set_option autoImplicit false
namespace Mkdb.Store
open Mkdb.Page Mkdb.Tuple Mkdb.Generated Mkdb.Tree

/-- the rows of a spec table after the first `n` selected rows were rewritten (the local `go` of
`Spec.prefixStates`, on rows instead of values) -/
def rewriteFirst (cols : List FieldDef) (sets : List (Bytes × Sql.VExpr)) : Nat → List (Spec.SRow × Bool) → List Spec.SRow
  | _, [] => []
  | n, (r, s) :: rest =>
    if s && decide (n > 0) then
      { r with vals := (specAssign cols sets r.vals).getD r.vals } :: rewriteFirst cols sets (n - 1) rest
    else r :: rewriteFirst cols sets n rest

/-- the loop of `evalUpdate` through a prefix `ids` of rewritable rows, whatever follows -/
theorem evalUpdate_go_prefix (db : Engine.DB) (table : Bytes) (pt sch : Levels) (schema : List FieldDef)
    (hsch : schemaOf sch table = some schema) (sets : List (Bytes × Sql.VExpr)) (tail : List (Nat × List Val))
    (hnames : checkColumns schema (sets.map fun p => Engine.bytesToName p.1) = none) :
    ∀ (ids : List (Nat × List Val)) (s : Store) (tbls : List (Bytes × Levels)) (t : Levels)
      (batch : List WalRec),
      Cat s pt sch tbls → (table, t) ∈ tbls → (ids.map (·.1)).Nodup →
      (∀ r ∈ ids, ∃ c ∈ live t, c.key = r.1 ∧ ∃ m buf, decodeTuple schema c.val [] = .ok m ∧
        encodeTuple schema (setMap sets ++ m) = .ok buf ∧ buf.length ≤ c_maxValueSize) →
      ∃ s' t' logs,
        Engine.evalUpdate.go db table (sets.map fun p => Engine.bytesToName p.1)
            (sets.map fun p => match p.2 with | .lit l => Engine.litToVal l | .col _ => Val.null) s batch
            (ids ++ tail) =
          Engine.evalUpdate.go db table (sets.map fun p => Engine.bytesToName p.1)
            (sets.map fun p => match p.2 with | .lit l => Engine.litToVal l | .col _ => Val.null) s'
            (batch ++ logs) tail ∧
        Cat s' pt sch (setTable tbls table t') ∧
        live t' = (live t).map (updK schema sets (ids.map (·.1)))
  | [], s, tbls, t, batch, h, ht, _, _ => by
    refine ⟨s, t, [], ?_, ?_, ?_⟩
    · simp only [List.nil_append, List.append_nil]
    · rw [setTable_self h.tnames ht]; exact h
    · conv => lhs; rw [← List.map_id (live t)]
      apply List.map_congr_left
      intro c _
      simp [updK]
  | r :: rest, s, tbls, t, batch, h, ht, hnd, hlive => by
    simp only [List.map_cons, List.nodup_cons] at hnd
    obtain ⟨c, hc, hck, m, buf, hdec, henc, hsz⟩ := hlive r List.mem_cons_self
    have henc' : encodeTuple schema (((sets.map fun p => Engine.bytesToName p.1).zip
        (sets.map fun p => match p.2 with | .lit l => Engine.litToVal l | .col _ => Val.null)).reverse ++ m) =
        .ok buf := henc
    obtain ⟨s1, l, d, _, _, e1, hc1, _⟩ := update_cat h table t ht schema hsch r.1
      (sets.map fun p => Engine.bytesToName p.1)
      (sets.map fun p => match p.2 with | .lit l => Engine.litToVal l | .col _ => Val.null)
      hnames c hc hck m buf hdec henc' hsz
    have hlive1 : live (setVal t r.1 s.hdr.nextLSN buf) =
        (live t).map (fun c => if c.key == r.1 then { c with val := buf } else c) :=
      update_live t r.1 s.hdr.nextLSN buf
    obtain ⟨s', t', logs', ego, hc', hl'⟩ := evalUpdate_go_prefix db table pt sch schema hsch sets tail hnames
      rest s1 (setTable tbls table (setVal t r.1 s.hdr.nextLSN buf)) (setVal t r.1 s.hdr.nextLSN buf)
      (batch ++ [⟨c_OpUpdate, s.hdr.nextLSN, l.off, r.1, buf⟩]) hc1 (mem_setTable_self _ ht) hnd.2
      (fun r' hr' => by
        obtain ⟨c', hc', hck', hrest⟩ := hlive r' (List.mem_cons_of_mem _ hr')
        refine ⟨c', ?_, hck', hrest⟩
        rw [hlive1]
        have hne : c'.key ≠ r.1 := by
          intro heq
          apply hnd.1
          rw [← heq, hck']
          exact List.mem_map.mpr ⟨r', hr', rfl⟩
        exact List.mem_map.mpr ⟨c', hc', by simp [hne]⟩)
    obtain ⟨_, hIt, _, _, _⟩ := h.tree t (Cat.tb_mem ht)
    have hkn := live_keys_nodup hIt.asc
    refine ⟨s', t', ⟨c_OpUpdate, s.hdr.nextLSN, l.off, r.1, buf⟩ :: logs', ?_, ?_, ?_⟩
    · simp only [List.cons_append, Engine.evalUpdate.go, e1, ego]
      rw [List.append_assoc]
      rfl
    · rw [setTable_setTable] at hc'; exact hc'
    · rw [hl', hlive1, List.map_map]
      apply List.map_congr_left
      intro x hx
      simp only [Function.comp]
      by_cases hxk : x.key = r.1
      · have hxc : x = c := inj_of_nodup_map (·.key) (live t) hkn x hx c hc (by rw [hxk, hck])
        subst hxc
        have hupd : updCell schema sets x = { x with val := buf } := by
          unfold updCell
          simp only [hdec, henc]
        have hb : (x.key == r.1) = true := by simp [hxk]
        simp only [hb, if_true]
        have hnot : (rest.map (·.1)).contains r.1 = false := by
          simpa using hnd.1
        unfold updK
        simp only [hxk, hnot, Bool.false_eq_true, if_false, List.map_cons, List.contains_cons, beq_self_eq_true,
          Bool.true_or, if_true, hupd]
      · have hb : (x.key == r.1) = false := by simp [hxk]
        simp only [hb, Bool.false_eq_true, if_false]
        unfold updK
        simp only [List.map_cons, List.contains_cons, hb, Bool.false_or]

/-- cells whose keys are outside two key sets that agree elsewhere are rewritten alike -/
theorem map_updK_congr (schema : List FieldDef) (sets : List (Bytes × Sql.VExpr)) (K K' : List Nat)
    (cs : List LeafCell) (h : ∀ c ∈ cs, K.contains c.key = K'.contains c.key) :
    cs.map (updK schema sets K) = cs.map (updK schema sets K') := by
  apply List.map_congr_left
  intro c hc
  unfold updK
  rw [h c hc]

/-- **The rows after the first `n` selected rows were rewritten.** -/
theorem rows_rewriteFirst (schema : List FieldDef) (sets : List (Bytes × Sql.VExpr))
    (hvalid : ∀ p ∈ setMap sets, ValidVal p.2) :
    ∀ (cs : List LeafCell) (sel : List Bool) (n : Nat),
      (∀ c ∈ cs, ∃ m, decodeTuple schema c.val [] = .ok m) → sel.length = cs.length →
      (cs.map (·.key)).Nodup →
      (∀ r ∈ (selRows (rowsOf schema cs) sel).take n, specAssign schema sets r.2 ≠ none) →
      (∀ c ∈ cs.map (updK schema sets (((selRows (rowsOf schema cs) sel).take n).map (·.1))),
        ∃ m, decodeTuple schema c.val [] = .ok m) ∧
      (rowsOf schema (cs.map (updK schema sets (((selRows (rowsOf schema cs) sel).take n).map (·.1))))).map mkRow =
        rewriteFirst schema sets n (((rowsOf schema cs).map mkRow).zip sel)
  | [], sel, n, _, _, _, _ => by
    refine ⟨(fun c hc => by cases hc), ?_⟩
    simp [rowsOf, rewriteFirst]
  | c :: cs, [], n, _, hl, _, _ => by simp at hl
  | c :: cs, b :: sel, n, hdec, hl, hnd, hok => by
    obtain ⟨m, hm⟩ := hdec c List.mem_cons_self
    simp only [List.map_cons, List.nodup_cons] at hnd
    have hdec' : ∀ c' ∈ cs, ∃ m, decodeTuple schema c'.val [] = .ok m :=
      fun c' hc' => hdec c' (List.mem_cons_of_mem _ hc')
    have hl' : sel.length = cs.length := by simpa using hl
    rw [rowsOf_cons_dec schema c cs m hm] at hok ⊢
    rw [selRows_cons] at hok ⊢
    -- the keys of selected rows of the tail are keys of the tail
    have hsub : ∀ k j, k ∈ ((selRows (rowsOf schema cs) sel).take j).map (·.1) → k ∈ cs.map (·.key) := by
      intro k j hk
      rw [← rowsOf_keys schema cs hdec']
      obtain ⟨r, hr, rfl⟩ := List.mem_map.mp hk
      exact selRows_keys_sub _ sel _ (List.mem_map.mpr ⟨r, List.take_subset j _ hr, rfl⟩)
    by_cases hb : b = true ∧ 0 < n
    · -- the head is one of the first `n` selected rows: it is rewritten
      obtain ⟨hb1, hn0⟩ := hb
      subst hb1
      obtain ⟨n', rfl⟩ : ∃ n', n = n' + 1 := ⟨n - 1, by omega⟩
      simp only [if_true, List.take_succ_cons, List.map_cons] at hok ⊢
      have hhead : specAssign schema sets (schema.map fun fd => get m fd.name) ≠ none :=
        hok _ List.mem_cons_self
      obtain ⟨v, hv⟩ := Option.ne_none_iff_exists'.mp hhead
      obtain ⟨buf, henc, hsz, rfl⟩ := (specAssign_some_iff schema sets m v).mp hv
      obtain ⟨ih1, ih2⟩ := rows_rewriteFirst schema sets hvalid cs sel n' hdec' hl' hnd.2
        (fun r hr => hok r (List.mem_cons_of_mem _ hr))
      have hupd : updK schema sets (c.key :: ((selRows (rowsOf schema cs) sel).take n').map (·.1)) c =
          { c with val := buf } := by
        unfold updK
        simp only [List.contains_cons, beq_self_eq_true, Bool.true_or, if_true]
        unfold updCell
        simp only [hm, henc]
      have htail := map_updK_congr schema sets
        (c.key :: ((selRows (rowsOf schema cs) sel).take n').map (·.1))
        (((selRows (rowsOf schema cs) sel).take n').map (·.1)) cs (fun c' hc' => by
          have hne : c'.key ≠ c.key := by
            intro heq
            exact hnd.1 (heq ▸ List.mem_map.mpr ⟨c', hc', rfl⟩)
          simp only [List.contains_cons]
          have : (c'.key == c.key) = false := by simpa using hne
          rw [this, Bool.false_or])
      have hmv : ∀ p ∈ setMap sets ++ m, ValidVal p.2 := by
        intro p hp
        rcases List.mem_append.mp hp with hp | hp
        · exact hvalid p hp
        · exact decodeTuple_valid schema c.val [] m (fun _ hq => by cases hq) hm p hp
      obtain ⟨hdnew, hrnew⟩ := rowOf_new schema (setMap sets ++ m)
        (fun fd _ => get_valid _ hmv fd.name) buf henc c.key c.deleted
      rw [hupd, htail]
      refine ⟨?_, ?_⟩
      · intro c' hc'
        rcases List.mem_cons.mp hc' with rfl | hc'
        · exact hdnew
        · exact ih1 c' hc'
      · have : rowsOf schema ({ c with val := buf } ::
            cs.map (updK schema sets (((selRows (rowsOf schema cs) sel).take n').map (·.1)))) =
            (c.key, schema.map fun fd => get (setMap sets ++ m) fd.name) ::
              rowsOf schema (cs.map (updK schema sets (((selRows (rowsOf schema cs) sel).take n').map (·.1)))) := by
          simp only [rowsOf, List.filterMap_cons, hrnew]
        rw [this, List.map_cons, ih2, List.zip_cons_cons]
        simp only [rewriteFirst, Bool.true_and, Nat.add_one_sub_one, show decide (n' + 1 > 0) = true by simp,
          if_true, mkRow, hv, Option.getD_some]
    · -- the head stays: not selected, or no rewrite left
      have hK : ((if b = true then (c.key, schema.map fun fd => get m fd.name) :: selRows (rowsOf schema cs) sel
            else selRows (rowsOf schema cs) sel).take n).map (·.1) =
          ((selRows (rowsOf schema cs) sel).take n).map (·.1) := by
        cases b
        · simp
        · have : n = 0 := by
            apply Classical.byContradiction
            intro hne
            exact hb ⟨rfl, by omega⟩
          subst this
          simp
      have hok' : ∀ r ∈ (selRows (rowsOf schema cs) sel).take n, specAssign schema sets r.2 ≠ none := by
        intro r hr
        apply hok r
        cases b
        · simpa using hr
        · have : n = 0 := by
            apply Classical.byContradiction
            intro hne
            exact hb ⟨rfl, by omega⟩
          subst this
          simp at hr
      obtain ⟨ih1, ih2⟩ := rows_rewriteFirst schema sets hvalid cs sel n hdec' hl' hnd.2 hok'
      rw [hK]
      have hnk : c.key ∉ ((selRows (rowsOf schema cs) sel).take n).map (·.1) := fun hk => hnd.1 (hsub _ _ hk)
      have hupd : updK schema sets (((selRows (rowsOf schema cs) sel).take n).map (·.1)) c = c := by
        unfold updK
        have : (((selRows (rowsOf schema cs) sel).take n).map (·.1)).contains c.key = false := by simpa using hnk
        simp only [this, Bool.false_eq_true, if_false]
      rw [List.map_cons, hupd]
      refine ⟨?_, ?_⟩
      · intro c' hc'
        rcases List.mem_cons.mp hc' with rfl | hc'
        · exact ⟨m, hm⟩
        · exact ih1 c' hc'
      · rw [rowsOf_cons_dec schema c _ m hm, List.map_cons, ih2, List.map_cons, List.zip_cons_cons]
        have hcond : (b && decide (n > 0)) = false := by
          cases b
          · rfl
          · have : n = 0 := by
              apply Classical.byContradiction
              intro hne
              exact hb ⟨rfl, by omega⟩
            subst this
            rfl
        simp only [rewriteFirst, hcond, Bool.false_eq_true, if_false]

/-- **UPDATE refused at a later selected row (the known finding).**  The selected rows `pre` can be
rewritten, the next one `bad` cannot: the spec refuses the statement (nothing changes), the model's
`evalUpdate` fails with the store's error AFTER having rewritten the rows `pre`: the log is untouched,
and the store abstracts to the spec database in which exactly the first `pre.length` selected rows of
the table are rewritten.  (The SET columns pass the statement's check, `hset`: an unknown or repeated
SET column is refused before any row is rewritten - `UpdRefusal.names`.) -/
theorem evalUpdate_kth_refused_spec (db : Engine.DB) (pt sch : Levels) (tbls : List (Bytes × Levels))
    (sdb : Spec.SDB) (h : Abs db.store pt sch tbls sdb) (table : Bytes)
    (sets : List (Bytes × Sql.VExpr)) (w : Option Sql.Cond)
    (hnocol : ∀ p ∈ sets, ∀ c, p.2 ≠ .col c)
    (hvalid : ∀ p ∈ sets, ∀ l, p.2 = .lit l → ValidVal (Engine.litToVal l))
    (st : Spec.STable) (sel : List Bool) (pre : List (List Val)) (bad : List Val) (post : List (List Val))
    (hfind : Spec.findTable sdb table = some st) (hsel : Spec.selects st w = some sel)
    (hset : Engine.checkSetColumns (Spec.fieldsOfTable st) [] (sets.map (·.1)) = none)
    (hsplit : selVals st sel = pre ++ bad :: post)
    (hpre : ∀ v ∈ pre, specAssign st.cols sets v ≠ none) (hbad : specAssign st.cols sets bad = none) :
    Spec.specUpdate sdb table sets w = none ∧
    ∃ e db' t', Engine.evalUpdate db table sets w = .err (.store e) db' ∧
      (e = .typeMismatch ∨ e = .intOutOfRange ∨ e = .rowTooLarge) ∧ db'.wal = db.wal ∧
      Abs db'.store pt sch (setTable tbls table t')
        (sdb.map (updRows table fun rs => rewriteFirst st.cols sets pre.length (rs.zip sel))) := by
  refine ⟨specUpdate_none_of_selected sdb table sets w hnocol st sel hfind hsel bad
    (by rw [hsplit]; simp) hbad, ?_⟩
  obtain ⟨t, ht⟩ := h.tabs.find_some hfind
  obtain ⟨schema, hsch, hdec, hf⟩ := h.tabs.find h.cat.tnames ht
  rw [hfind] at hf
  simp only [Option.some.injEq] at hf
  subst hf
  change ∀ v ∈ pre, specAssign schema sets v ≠ none at hpre
  change specAssign schema sets bad = none at hbad
  change Engine.checkSetColumns (schema.map fun fd => (⟨[], fd.name.toUTF8.toList⟩ : Exec.Field)) []
    (sets.map (·.1)) = none at hset
  have hcc : checkColumns schema (sets.map fun p => Engine.bytesToName p.1) = none := by
    have := checkSetColumns_none_checkColumns schema _ hset
    rwa [List.map_map] at this
  obtain ⟨s1, efetch, hs1, hc1⟩ := fetchTable_cat h.cat table t ht schema hsch hdec
  obtain ⟨efilter, hsl⟩ := filterIds_selects table schema (rowsOf schema (live t)) w sel hsel
  obtain ⟨_, hIt, _, _, _⟩ := h.cat.tree t (Cat.tb_mem ht)
  have hkn := live_keys_nodup hIt.asc
  have hnd : ((rowsOf schema (live t)).map (·.1)).Nodup := by
    rw [rowsOf_keys schema (live t) hdec]; exact hkn
  have hnd' : ((selRows (rowsOf schema (live t)) sel).map (·.1)).Nodup :=
    hnd.sublist ((selRows_sublist _ sel).map _)
  -- split the selected rows
  have hsv : (selRows (rowsOf schema (live t)) sel).map (·.2) = pre ++ bad :: post := by
    rw [← selVals_selRows]; exact hsplit
  obtain ⟨idsPre, l2, hids, hpre2, hl2⟩ := List.map_eq_append_iff.mp hsv
  obtain ⟨rb, idsPost, rfl, hrb, _⟩ := List.map_eq_cons_iff.mp hl2
  have hmemsel : ∀ r ∈ idsPre ++ rb :: idsPost, r ∈ rowsOf schema (live t) := fun r hr =>
    (selRows_sublist _ sel).subset (hids ▸ hr)
  rw [hids, List.map_append, List.nodup_append] at hnd'
  obtain ⟨hndPre, hndPost, hdisj⟩ := hnd'
  have hlenPre : idsPre.length = pre.length := by rw [← hpre2, List.length_map]
  -- the rows before the bad one are rewritten
  obtain ⟨s', t', logs, ego, hc', hl'⟩ := evalUpdate_go_prefix db table pt sch schema hsch sets (rb :: idsPost) hcc
    idsPre s1 tbls t [] hc1 ht hndPre
    (fun r hr => by
      obtain ⟨c, hc, hck, m, hm, hr2⟩ := mem_rowsOf_cell (hmemsel r (List.mem_append_left _ hr))
      have hne : specAssign schema sets (schema.map fun fd => get m fd.name) ≠ none := by
        rw [← hr2]
        exact hpre r.2 (hpre2 ▸ List.mem_map.mpr ⟨r, hr, rfl⟩)
      obtain ⟨v, hv⟩ := Option.ne_none_iff_exists'.mp hne
      obtain ⟨buf, henc, hsz, _⟩ := (specAssign_some_iff schema sets m v).mp hv
      exact ⟨c, hc, hck, m, buf, hm, henc, hsz⟩)
  -- the bad one is refused
  obtain ⟨c, hc, hck, m, hm, hr2⟩ := mem_rowsOf_cell (hmemsel rb (by simp))
  have hnotK : c.key ∉ idsPre.map (·.1) := by
    intro hk
    exact hdisj c.key hk rb.1 (by simp) hck
  have hcl' : c ∈ live t' := by
    rw [hl']
    refine List.mem_map.mpr ⟨c, hc, ?_⟩
    unfold updK
    have : (idsPre.map (·.1)).contains c.key = false := by simpa using hnotK
    simp only [this, Bool.false_eq_true, if_false]
  have hno' : specAssign schema sets (schema.map fun fd => get m fd.name) = none := by
    rw [← hr2, hrb]; exact hbad
  obtain ⟨e, s2, he, hkind, hs2, hc2⟩ := update_refused_cat hc' table t' (mem_setTable_self t' ht) schema hsch sets
    hcc c hcl' m hm hno'
  rw [hck] at he
  have hcat2 : Cat s2 pt sch (setTable tbls table t') := hc2
  refine ⟨e, { db with store := s2 }, t', ?_, hkind, rfl, ⟨hcat2, ?_⟩⟩
  · rw [evalUpdate_nocol db table sets w hnocol]
    simp only [Engine.fetchForExec, Engine.liftS, efetch, hset, efilter, hids]
    exact ego.trans (evalUpdate_go_first_err db table _ _ rb idsPost s' s2 _ e he)
  · -- the abstraction: the first `pre.length` selected rows rewritten
    have hlen : sel.length = (live t).length := by
      rw [hsl, ← List.length_map (f := fun r : Nat × List Val => r.1), rowsOf_keys schema (live t) hdec,
        List.length_map]
    have htake : (selRows (rowsOf schema (live t)) sel).take pre.length = idsPre := by
      rw [hids]; exact List.take_left' hlenPre
    obtain ⟨hd', hrows⟩ := rows_rewriteFirst schema sets (setMap_valid sets hvalid) (live t) sel pre.length hdec hlen
      hkn (by
        rw [htake]
        intro r hr
        exact hpre r.2 (hpre2 ▸ List.mem_map.mpr ⟨r, hr, rfl⟩))
    rw [htake, ← hl'] at hd' hrows
    exact h.tabs.setTable h.cat.tnames ht schema hsch t' hd'
      (fun rs => rewriteFirst schema sets pre.length (rs.zip sel))
      (by simp only [absTable]; exact hrows)

/-! ### the state left behind is one of the states `Spec.prefixStates` enumerates -/

theorem rewriteFirst_vals (cols : List FieldDef) (sets : List (Bytes × Sql.VExpr)) :
    ∀ (l : List (Spec.SRow × Bool)) (n : Nat),
      (rewriteFirst cols sets n l).map (·.vals) = Spec.prefixStates.go (specAssign cols sets) l n
  | [], n => by simp [rewriteFirst, Spec.prefixStates.go]
  | (r, s) :: rest, n => by
    simp only [rewriteFirst, Spec.prefixStates.go]
    split
    · simp only [List.map_cons, rewriteFirst_vals cols sets rest (n - 1)]
    · simp only [List.map_cons, rewriteFirst_vals cols sets rest n]

theorem selVals_eq (st : Spec.STable) (sel : List Bool) :
    selVals st sel = ((st.rows.zip sel).filter (·.2)).map (·.1.vals) := by
  unfold selVals
  generalize st.rows = rows
  induction rows generalizing sel with
  | nil => simp
  | cons r rows ih =>
    cases sel with
    | nil => simp
    | cons b sel =>
      cases b
      · simpa using ih sel
      · simp only [List.map_cons, List.zip_cons_cons, List.filter_cons, if_true, List.map_cons, ih sel]

theorem takeWhile_split {α} (p : α → Bool) : ∀ (pre : List α) (bad : α) (post : List α),
    (∀ a ∈ pre, p a = true) → p bad = false → (pre ++ bad :: post).takeWhile p = pre
  | [], bad, post, _, hb => by simp [hb]
  | a :: pre, bad, post, hp, hb => by
    simp only [List.cons_append, List.takeWhile_cons, hp a List.mem_cons_self, if_true,
      takeWhile_split p pre bad post (fun x hx => hp x (List.mem_cons_of_mem _ hx)) hb]

/-- the table after an UPDATE refused at its `(k+1)`-th selected row (`k ≥ 1`) holds the values of
one of the states the spec's `prefixStates` lists for the statement - the states C14 forbids -/
theorem kth_state_in_prefixStates (sdb : Spec.SDB) (table : Bytes) (sets : List (Bytes × Sql.VExpr))
    (w : Option Sql.Cond) (st : Spec.STable) (sel : List Bool) (pre : List (List Val)) (bad : List Val)
    (post : List (List Val)) (hfind : Spec.findTable sdb table = some st) (hsel : Spec.selects st w = some sel)
    (hsplit : selVals st sel = pre ++ bad :: post)
    (hpre : ∀ v ∈ pre, specAssign st.cols sets v ≠ none) (hbad : specAssign st.cols sets bad = none)
    (hne : pre ≠ []) :
    (table, (rewriteFirst st.cols sets pre.length (st.rows.zip sel)).map (·.vals)) ∈
      Spec.prefixStates sdb (.update table sets w) := by
  rw [rewriteFirst_vals]
  simp only [Spec.prefixStates, hfind, hsel]
  rw [List.mem_map]
  have hlen : 0 < pre.length := List.length_pos_iff.mpr hne
  refine ⟨pre.length - 1, ?_, ?_⟩
  · rw [List.mem_range]
    have : ((((st.rows.zip sel).filter (·.2)).map (·.1.vals)).takeWhile
        fun v => (specAssign st.cols sets v).isSome) = pre := by
      rw [← selVals_eq, hsplit]
      apply takeWhile_split
      · intro v hv
        exact Option.isSome_iff_ne_none.mpr (hpre v hv)
      · rw [hbad]; rfl
    show pre.length - 1 < (List.takeWhile _ _).length
    have h2 : ((((st.rows.zip sel).filter (·.2)).map (·.1.vals)).takeWhile
        fun v => (specAssign st.cols sets v).isSome).length = pre.length := by rw [this]
    exact Nat.lt_of_lt_of_eq (by omega) h2.symm
  · have : pre.length - 1 + 1 = pre.length := by omega
    rw [this]
    rfl

end Mkdb.Store
