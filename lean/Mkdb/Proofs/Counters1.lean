import Mkdb.Proofs.SessionInv4
/-!
The header counters, part 1 (W16): **how far one storage operation can advance them.**

The header of the model (`Store.Header`) keeps the row-id counter `lastKey`, the LSN counter `nextLSN`
and the allocation frontier `nextFree` as natural numbers; the Go fields are `uint32`, `uint64`,
`uint64`.  The model is faithful as long as nothing has wrapped.  This file counts, operation by
operation and on EVERY store (no invariant is assumed: also corrupt pages, refused operations, error
paths), by how much each counter can move:

* `Adv s s' dk dl df`: from `s` to `s'` no counter went down, the row-id counter rose by at most `dk`,
  the LSN counter by at most `dl`, the allocation frontier by at most `df` bytes, and the header in the
  data file (`dhdr`) is untouched.
* `Grows m dk dl df`: the operation `m` advances the counters by at most that, whatever its outcome
  (`.ok` or `.err`: the Go code mutates in place, an error keeps the state reached).
* `Still m`: `m` moves no counter (reads, cache traffic, scans, catalog lookups, cell rewrites).
* the B-tree insert: a leaf split allocates one page, an internal split one page per level, a root
  growth one more: `insertInternal fuel parent` allocates at most `fuel + 1` pages below a parent and
  `fuel + 2` at the root; with the fuel of the model (`treeFuel = 64`: 64 internal levels above the leaf)
  **one insert allocates at most 66 pages** (`Grows.insertKey`), and moves no other counter.
* `Grows.btInsert`: `BTree.insert` hands out one row id and one LSN - also when the insertion fails.
-/
set_option autoImplicit false
namespace Mkdb.Store
open Mkdb.Page Mkdb.Tuple Mkdb.Generated Mkdb.Tree

/-! ### the relation between two stores -/

/-- from `s` to `s'` no counter of the in-memory header went down; the row-id counter rose by at most
`dk`, the LSN counter by at most `dl`, the allocation frontier by at most `df`; the header last written
to the data file is the same -/
structure Adv (s s' : Store) (dk dl df : Nat) : Prop where
  k_mono : s.hdr.lastKey ≤ s'.hdr.lastKey
  k_le : s'.hdr.lastKey ≤ s.hdr.lastKey + dk
  l_mono : s.hdr.nextLSN ≤ s'.hdr.nextLSN
  l_le : s'.hdr.nextLSN ≤ s.hdr.nextLSN + dl
  f_mono : s.hdr.nextFree ≤ s'.hdr.nextFree
  f_le : s'.hdr.nextFree ≤ s.hdr.nextFree + df
  dhdr : s'.dhdr = s.dhdr

theorem Adv.refl (s : Store) : Adv s s 0 0 0 :=
  ⟨Nat.le_refl _, Nat.le_refl _, Nat.le_refl _, Nat.le_refl _, Nat.le_refl _, Nat.le_refl _, rfl⟩

theorem Adv.trans {a b c : Store} {k1 l1 f1 k2 l2 f2 : Nat} (h1 : Adv a b k1 l1 f1) (h2 : Adv b c k2 l2 f2) :
    Adv a c (k1 + k2) (l1 + l2) (f1 + f2) := by
  obtain ⟨a1, a2, a3, a4, a5, a6, a7⟩ := h1
  obtain ⟨b1, b2, b3, b4, b5, b6, b7⟩ := h2
  exact ⟨by omega, by omega, by omega, by omega, by omega, by omega, b7.trans a7⟩

theorem Adv.mono {a b : Store} {k l f k' l' f' : Nat} (h : Adv a b k l f) (hk : k ≤ k') (hl : l ≤ l')
    (hf : f ≤ f') : Adv a b k' l' f' := by
  obtain ⟨a1, a2, a3, a4, a5, a6, a7⟩ := h
  exact ⟨a1, by omega, a3, by omega, a5, by omega, a7⟩

/-- nothing moved: the three counters are the same -/
theorem Adv.same {a b : Store} (h : Adv a b 0 0 0) :
    b.hdr.lastKey = a.hdr.lastKey ∧ b.hdr.nextLSN = a.hdr.nextLSN ∧ b.hdr.nextFree = a.hdr.nextFree := by
  obtain ⟨a1, a2, a3, a4, a5, a6, _⟩ := h
  exact ⟨by omega, by omega, by omega⟩

/-- the row-id and LSN counters did not move -/
theorem Adv.same_kl {a b : Store} {f : Nat} (h : Adv a b 0 0 f) :
    b.hdr.lastKey = a.hdr.lastKey ∧ b.hdr.nextLSN = a.hdr.nextLSN := by
  obtain ⟨a1, a2, a3, a4, _, _, _⟩ := h
  exact ⟨by omega, by omega⟩

/-- a step that leaves the header and the file header alone -/
theorem Adv.of_hdr {a b : Store} (hh : b.hdr = a.hdr) (hd : b.dhdr = a.dhdr) : Adv a b 0 0 0 := by
  refine ⟨?_, ?_, ?_, ?_, ?_, ?_, hd⟩ <;> rw [hh] <;> exact Nat.le_refl _

/-! ### the closure predicate -/

/-- whatever the outcome of `m`, the counters advanced by at most `dk`, `dl`, `df` -/
def Grows {α} (m : SM α) (dk dl df : Nat) : Prop :=
  ∀ s, match m s with
    | .ok _ s' => Adv s s' dk dl df
    | .err _ s' => Adv s s' dk dl df
    | _ => True

/-- `m` moves no counter -/
def Still {α} (m : SM α) : Prop := Grows m 0 0 0

theorem Grows.ok {α} {m : SM α} {dk dl df : Nat} (h : Grows m dk dl df) {s s' : Store} {a : α}
    (e : m s = .ok a s') : Adv s s' dk dl df := by have := h s; rw [e] at this; exact this

theorem Grows.err {α} {m : SM α} {dk dl df : Nat} (h : Grows m dk dl df) {s s' : Store} {x : SErr}
    (e : m s = .err x s') : Adv s s' dk dl df := by have := h s; rw [e] at this; exact this

theorem Still.ok {α} {m : SM α} (h : Still m) {s s' : Store} {a : α} (e : m s = .ok a s') : Adv s s' 0 0 0 :=
  Grows.ok h e

theorem Still.err {α} {m : SM α} (h : Still m) {s s' : Store} {x : SErr} (e : m s = .err x s') :
    Adv s s' 0 0 0 := Grows.err h e

theorem Grows.mono {α} {m : SM α} {k l f k' l' f' : Nat} (h : Grows m k l f) (hk : k ≤ k') (hl : l ≤ l')
    (hf : f ≤ f') : Grows m k' l' f' := by
  intro s
  have := h s
  cases e : m s with
  | ok a s' => rw [e] at this; exact this.mono hk hl hf
  | err x s' => rw [e] at this; exact this.mono hk hl hf
  | _ => trivial

theorem Still.grows {α} {m : SM α} (h : Still m) (k l f : Nat) : Grows m k l f :=
  Grows.mono h (Nat.zero_le _) (Nat.zero_le _) (Nat.zero_le _)

theorem Grows.bind {α β} {m : SM α} {f : α → SM β} {k1 l1 f1 k2 l2 f2 : Nat} (hm : Grows m k1 l1 f1)
    (hf : ∀ a, Grows (f a) k2 l2 f2) : Grows (m >>= f) (k1 + k2) (l1 + l2) (f1 + f2) := by
  intro s
  rw [bind_def]
  cases e : m s with
  | ok a s1 =>
    have h1 := hm.ok e
    have h2 := hf a s1
    simp only
    cases e2 : f a s1 with
    | ok b s2 => rw [e2] at h2; exact h1.trans h2
    | err x s2 => rw [e2] at h2; exact h1.trans h2
    | _ => trivial
  | err x s1 => exact (hm.err e).mono (Nat.le_add_right _ _) (Nat.le_add_right _ _) (Nat.le_add_right _ _)
  | _ => trivial

theorem Still.bind {α β} {m : SM α} {f : α → SM β} (hm : Still m) (hf : ∀ a, Still (f a)) : Still (m >>= f) :=
  Grows.bind (k1 := 0) (l1 := 0) (f1 := 0) (k2 := 0) (l2 := 0) (f2 := 0) hm hf

/-- a prefix that moves nothing -/
theorem Grows.after {α β} {m : SM α} {f : α → SM β} {k l f' : Nat} (hm : Still m)
    (hf : ∀ a, Grows (f a) k l f') : Grows (m >>= f) k l f' :=
  (Grows.bind (k1 := 0) (l1 := 0) (f1 := 0) hm hf).mono (by omega) (by omega) (by omega)

/-- a suffix that moves nothing -/
theorem Grows.before {α β} {m : SM α} {f : α → SM β} {k l f' : Nat} (hm : Grows m k l f')
    (hf : ∀ a, Still (f a)) : Grows (m >>= f) k l f' :=
  Grows.bind (k2 := 0) (l2 := 0) (f2 := 0) hm hf

theorem Still.pure {α} (a : α) : Still (pure a : SM α) := fun s => Adv.refl s
theorem Still.throw {α} (e : SErr) : Still (throw e : SM α) := fun s => Adv.refl s
theorem Still.panicS {α} (w : String) : Still (panicS w : SM α) := fun _ => trivial
theorem Still.unmodelledS {α} (w : String) : Still (unmodelledS w : SM α) := fun _ => trivial
theorem Still.outOfFuel {α} : Still (outOfFuel : SM α) := fun _ => trivial
theorem Still.getS : Still getS := fun s => Adv.refl s

theorem Still.ite {α} {c : Prop} [Decidable c] {a b : SM α} (ha : Still a) (hb : Still b) :
    Still (if c then a else b) := by
  split
  · exact ha
  · exact hb

theorem Grows.ite {α} {c : Prop} [Decidable c] {a b : SM α} {k l f : Nat} (ha : Grows a k l f)
    (hb : Grows b k l f) : Grows (if c then a else b) k l f := by
  split
  · exact ha
  · exact hb

/-! ### the primitives -/

theorem Still.fetch (off : Nat) : Still (fetch off) := by
  intro s
  unfold Store.fetch
  cases assocGet s.mem off with
  | some m => exact Adv.refl s
  | none => exact Adv.of_hdr rfl rfl

theorem Still.putNode (n : Node) (d : Option Bool) : Still (putNode n d) := fun _ => Adv.of_hdr rfl rfl

theorem Still.markDirty (off lsn : Nat) : Still (markDirty off lsn) := by
  intro s
  unfold Store.markDirty
  cases assocGet s.mem off with
  | none => trivial
  | some m => exact Adv.of_hdr rfl rfl

/-- `fileStore.append`: one page -/
theorem Grows.appendNode (n : Node) (d : Bool) : Grows (appendNode n d) 0 0 4096 := fun _ =>
  ⟨Nat.le_refl _, Nat.le_refl _, Nat.le_refl _, Nat.le_refl _, Nat.le_add_right _ _, Nat.le_refl _, rfl⟩

theorem Still.decodeRow (sch : List FieldDef) (bs : Bytes) : Still (decodeRow sch bs) := by
  intro s
  unfold Store.decodeRow
  cases decodeTuple sch bs [] <;> exact Adv.refl s

theorem Still.encodeRow (sch : List FieldDef) (m : Vals) : Still (encodeRow sch m) := by
  intro s
  unfold Store.encodeRow
  cases encodeTuple sch m with
  | ok b => exact Adv.refl s
  | error e => cases e <;> exact Adv.refl s

/-- one structural step of a `Still` proof -/
macro "st_step" : tactic =>
  `(tactic| first
    | exact Still.pure _
    | exact Still.getS
    | exact Still.fetch _
    | exact Still.putNode _ _
    | exact Still.markDirty _ _
    | exact Still.throw _
    | exact Still.panicS _
    | exact Still.unmodelledS _
    | exact Still.outOfFuel
    | exact Still.decodeRow _ _
    | exact Still.encodeRow _ _
    | assumption
    | refine Still.bind ?_ (fun _ => ?_)
    | split)

/-! ### scans and catalog lookups move nothing -/

theorem Still.leftmostLeaf : ∀ (fuel off : Nat), Still (leftmostLeaf fuel off)
  | 0, _ => Still.outOfFuel
  | fuel+1, off => by
    unfold Store.leftmostLeaf
    repeat (first | exact Still.leftmostLeaf fuel _ | st_step)

theorem Still.scanLeaves : ∀ (fuel : Nat) (l : Leaf), Still (scanLeaves fuel l)
  | 0, _ => Still.outOfFuel
  | fuel+1, l => by
    unfold Store.scanLeaves
    repeat (first | exact Still.scanLeaves fuel _ | st_step)

theorem Still.scanRight (root : Nat) : Still (scanRight root) := by
  unfold Store.scanRight
  exact (Still.leftmostLeaf _ _).bind fun _ => Still.scanLeaves _ _

theorem Still.findFirstM {α β} {f : α → SM (Option β)} (hf : ∀ a, Still (f a)) :
    ∀ l : List α, Still (findFirstM f l)
  | [] => Still.pure _
  | a :: rest => by
    unfold Store.findFirstM
    repeat (first | exact hf a | exact Still.findFirstM hf rest | st_step)

theorem Still.mapS {α β} {f : α → SM β} (hf : ∀ a, Still (f a)) : ∀ l : List α, Still (mapS f l)
  | [] => Still.pure _
  | a :: rest => by
    unfold Store.mapS
    exact (hf a).bind fun _ => (Still.mapS hf rest).bind fun _ => Still.pure _

theorem Still.findLeaf : ∀ (fuel off key : Nat), Still (findLeaf fuel off key)
  | 0, _, _ => Still.outOfFuel
  | fuel+1, off, key => by
    unfold Store.findLeaf
    repeat (first | exact Still.findLeaf fuel _ key | st_step)

theorem Still.updateCellAt (off key : Nat) (value : Bytes) (lsn : Nat) :
    Still (updateCellAt off key value lsn) := by
  unfold Store.updateCellAt
  repeat st_step

/-- one structural step, with the scans -/
macro "st_step2" : tactic =>
  `(tactic| first
    | exact Still.scanRight _
    | exact Still.findLeaf _ _ _
    | exact Still.updateCellAt _ _ _ _
    | exact Still.findFirstM (fun _ => by repeat st_step) _
    | exact Still.mapS (fun _ => by repeat st_step) _
    | st_step)

theorem Still.relationOffset (name : Bytes) : Still (relationOffset name) := by
  unfold Store.relationOffset
  repeat st_step2

theorem Still.relationSchema (name : Bytes) : Still (relationSchema name) := by
  unfold Store.relationSchema
  repeat (first | exact Still.relationOffset _ | st_step2)

/-- the catalog re-point of recovery -/
theorem Still.repointPageTable (old new lsn : Nat) : Still (repointPageTable old new lsn) := by
  rw [repointPageTable_eq]
  unfold rpFind
  repeat st_step2

/-- `RelationService.Fetch` (what SELECT, UPDATE and DELETE read) -/
theorem Still.fetchTable (table : Bytes) : Still (fetchTable table) := by
  rw [fetchTable_eq]
  unfold fetchRow
  repeat (first | exact Still.relationOffset _ | exact Still.relationSchema _ | st_step2)

/-! ### the B-tree insert: pages -/

/-- the pages the level below a parent may allocate beyond those of its children: its own split, and
at the root the new root -/
def apar : Option Nat → Nat
  | none => 2
  | some _ => 1

theorem Grows.leafSplitUp (parent : Option Nat) (curOff newOff newKey lsn root : Nat) :
    Grows (leafSplitUp parent curOff newOff newKey lsn root) 0 0 (4096 * (apar parent - 1)) := by
  unfold Store.leafSplitUp
  cases parent with
  | none =>
    exact (Grows.appendNode _ _).before fun _ => by repeat st_step
  | some pOff =>
    refine Still.grows ?_ _ _ _
    repeat st_step

theorem Grows.leafSplit (parent : Option Nat) (cur1 : Leaf) (lsn root : Nat) :
    Grows (leafSplit parent cur1 lsn root) 0 0 (4096 * apar parent) := by
  unfold Store.leafSplit
  refine (Grows.bind (Grows.appendNode _ _) fun _ => Grows.after (Still.putNode _ _) fun _ =>
    Grows.after (Still.putNode _ _) fun _ => Grows.leafSplitUp parent _ _ _ _ _).mono
    (Nat.le_refl _) (Nat.le_refl _) ?_
  cases parent <;> simp only [apar] <;> omega

/-- the leaf level: one page for the split, one more for a new root -/
theorem Grows.insertLeaf (parent : Option Nat) (cur : Leaf) (key lsn : Nat) (value : Bytes) (root : Nat) :
    Grows (insertLeaf parent cur key lsn value root) 0 0 (4096 * apar parent) := by
  rw [insertLeaf_eq]
  exact Grows.ite ((Still.throw _).grows _ _ _) (Grows.ite ((Still.throw _).grows _ _ _)
    (Grows.ite ((Still.unmodelledS _).grows _ _ _) (Grows.ite ((Still.unmodelledS _).grows _ _ _)
      (Grows.after (Still.putNode _ _) fun _ => Grows.ite ((Still.pure _).grows _ _ _)
        (Grows.leafSplit _ _ _ _)))))

theorem Grows.intSplitUp (parent : Option Nat) (curOff newOff midKey lsn root1 : Nat) :
    Grows (intSplitUp parent curOff newOff midKey lsn root1) 0 0 (4096 * (apar parent - 1)) := by
  unfold Store.intSplitUp
  cases parent with
  | none =>
    exact (Grows.appendNode _ _).before fun _ => by repeat st_step
  | some pOff =>
    refine Still.grows ?_ _ _ _
    repeat st_step

/-- an internal level after its child has returned: one page for the split, one more for a new root -/
theorem Grows.afterChild (parent : Option Nat) (curOff lsn root1 : Nat) :
    Grows (afterChild parent curOff lsn root1) 0 0 (4096 * apar parent) := by
  unfold Store.afterChild
  refine Grows.after (Still.fetch _) fun me => ?_
  cases me with
  | leaf l => exact (Still.panicS _).grows _ _ _
  | internal c1 =>
    refine Grows.ite ((Still.pure _).grows _ _ _) ?_
    refine (Grows.bind (Grows.appendNode _ _) fun _ => Grows.after (Still.putNode _ _) fun _ =>
      Grows.intSplitUp parent _ _ _ _ _).mono (Nat.le_refl _) (Nat.le_refl _) ?_
    cases parent <;> simp only [apar] <;> omega

/-- **The internal levels**: with `fuel` levels of fuel, at most `fuel` pages below this level plus the
pages of this level. -/
theorem Grows.insertInternal : ∀ (fuel : Nat) (parent : Option Nat) (cur : Internal) (key lsn : Nat)
    (value : Bytes) (root : Nat),
    Grows (insertInternal fuel parent cur key lsn value root) 0 0 (4096 * (fuel + apar parent))
  | 0, _, _, _, _, _, _ => Still.outOfFuel.grows _ _ _
  | fuel+1, parent, cur, key, lsn, value, root => by
    rw [insertInternal_eq]
    refine Grows.ite ((Still.throw _).grows _ _ _) (Grows.after (Still.fetch _) fun child => ?_)
    cases child with
    | leaf l =>
      refine (Grows.bind (Grows.insertLeaf (some cur.off) l key lsn value root)
        fun r => Grows.afterChild parent cur.off lsn r).mono (Nat.le_refl _) (Nat.le_refl _) ?_
      show 4096 * 1 + 4096 * apar parent ≤ 4096 * (fuel + 1 + apar parent)
      omega
    | internal i =>
      refine (Grows.bind (Grows.insertInternal fuel (some cur.off) i key lsn value root)
        fun r => Grows.afterChild parent cur.off lsn r).mono (Nat.le_refl _) (Nat.le_refl _) ?_
      show 4096 * (fuel + 1) + 4096 * apar parent ≤ 4096 * (fuel + 1 + apar parent)
      omega

/-- the pages one B-tree insert can allocate: one per level (64 internal levels of fuel and the leaf)
and one for a new root -/
def insertPages : Nat := 66

/-- `insertPages` pages, in bytes -/
def insertBytes : Nat := 270336

theorem insertBytes_eq : insertBytes = c_pageSize * (treeFuel + 2) := rfl

theorem Grows.insertKeyHeap (bt : BT) (key lsn : Nat) (value : Bytes) :
    Grows (Store.insertKeyHeap bt key lsn value) 0 0 270336 := by
  unfold Store.insertKeyHeap
  refine Grows.after (Still.fetch _) fun pg => ?_
  cases pg with
  | leaf l =>
    exact ((Grows.insertLeaf none l key lsn value bt.root).before fun _ => Still.pure _).mono
      (Nat.le_refl _) (Nat.le_refl _) (by decide)
  | internal i =>
    exact ((Grows.insertInternal treeFuel none i key lsn value bt.root).before fun _ => Still.pure _).mono
      (Nat.le_refl _) (Nat.le_refl _) (by decide)

/-- **One tree insert allocates at most 66 pages and moves no other counter** (on every store, with
every outcome; the `ghost` counter of the cross-check is no header field). -/
theorem Grows.insertKey (bt : BT) (key lsn : Nat) (value : Bytes) :
    Grows (Store.insertKey bt key lsn value) 0 0 270336 := by
  intro s
  have h := Grows.insertKeyHeap bt key lsn value s
  unfold Store.insertKey
  simp only
  generalize ghostAgrees s bt key lsn value (Store.insertKeyHeap bt key lsn value s) = g
  cases g <;> cases e : Store.insertKeyHeap bt key lsn value s <;> rw [e] at h <;>
    first | exact h | trivial | exact ⟨h.1, h.2, h.3, h.4, h.5, h.6, h.7⟩

/-- **`BTree.insert`: exactly one row id and one LSN are consumed - also when the insertion fails** -
and at most 66 pages. -/
theorem btInsert_counters (bt : BT) (value : Bytes) (s : Store) :
    match btInsert bt value s with
    | .ok r s' => Adv s s' 1 1 270336 ∧ s'.hdr.lastKey = s.hdr.lastKey + 1 ∧
        s'.hdr.nextLSN = s.hdr.nextLSN + 1 ∧ r.2.1 = s.hdr.lastKey + 1 ∧ r.2.2 = s.hdr.nextLSN
    | .err _ s' => Adv s s' 1 1 270336 ∧ s'.hdr.lastKey = s.hdr.lastKey + 1 ∧
        s'.hdr.nextLSN = s.hdr.nextLSN + 1
    | _ => True := by
  have h := Grows.insertKey bt (s.hdr.lastKey + 1) s.hdr.nextLSN value s
  unfold Store.btInsert
  simp only
  cases e : Store.insertKey bt (s.hdr.lastKey + 1) s.hdr.nextLSN value s with
  | ok a s1 =>
    rw [e] at h
    obtain ⟨h1, h2⟩ := h.same_kl
    refine ⟨⟨?_, ?_, ?_, ?_, h.f_mono, h.f_le, h.dhdr⟩, ?_, ?_, rfl, rfl⟩ <;>
      first | (show s1.hdr.lastKey + 1 = _; omega) | (show s1.hdr.nextLSN + 1 = _; omega)
            | (show _ ≤ s1.hdr.lastKey + 1; omega) | (show s1.hdr.lastKey + 1 ≤ _; omega)
            | (show _ ≤ s1.hdr.nextLSN + 1; omega) | (show s1.hdr.nextLSN + 1 ≤ _; omega)
  | err x s1 =>
    rw [e] at h
    obtain ⟨h1, h2⟩ := h.same_kl
    refine ⟨⟨?_, ?_, ?_, ?_, h.f_mono, h.f_le, h.dhdr⟩, ?_, ?_⟩ <;>
      first | (show s1.hdr.lastKey + 1 = _; omega) | (show s1.hdr.nextLSN + 1 = _; omega)
            | (show _ ≤ s1.hdr.lastKey + 1; omega) | (show s1.hdr.lastKey + 1 ≤ _; omega)
            | (show _ ≤ s1.hdr.nextLSN + 1; omega) | (show s1.hdr.nextLSN + 1 ≤ _; omega)
  | _ => trivial

theorem Grows.btInsert (bt : BT) (value : Bytes) : Grows (Store.btInsert bt value) 1 1 270336 := by
  intro s
  have h := btInsert_counters bt value s
  cases e : Store.btInsert bt value s with
  | ok a s1 => rw [e] at h; exact h.1
  | err x s1 => rw [e] at h; exact h.1
  | _ => trivial

end Mkdb.Store
