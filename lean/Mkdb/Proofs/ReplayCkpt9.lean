import Mkdb.Proofs.ReplayCkpt8
/-!
Crash after a checkpoint, part 7: non-vacuity on the concrete store `st1` of `crash_example`.

* `crash_ckpt_example`: the database `dbB` - the store `st1` with a log that already holds one applied
  record - runs `INSERT INTO t VALUES (5), (6)`; then the crash: the whole log (the old record first)
  is replayed on `st1`, and the result abstracts to the plain database with the two rows.
* `rounds_example`: `dbA` (store `st1`, empty log) is flushed - a checkpoint; `INSERT INTO t VALUES (5),
  (6)`; crash; recovery; `UPDATE t SET a = 7 WHERE a = 5`; crash; recovery - the second recovery replays
  the records of the insert (applied by then) and redoes the update; the final store abstracts to the
  plain database with the rows `(7)`, `(6)`.
-/
set_option autoImplicit false
namespace Mkdb.Store
open Mkdb.Page Mkdb.Tuple Mkdb.Generated Mkdb.Tree Mkdb.Engine

/-- a record from before the checkpoint: an insert into table `t` (root page 12288) whose page carries
its LSN already -/
def oldRec : WalRec := ⟨c_OpInsert, 0, 12288, 4, []⟩

/-- the store `st1` with a log that holds `oldRec` -/
def dbB : Engine.DB := { store := st1, wal := [oldRec] }

theorem oldRec_applied : AppliedC pt0 sch1 [(tname, t0)] oldRec :=
  .inl ⟨t0, by simp [catTrees], (12288, .leaf ⟨12288, 0, false, false, 0, 0, []⟩, true), by decide, rfl,
    Nat.le_refl _⟩

theorem valid56 : ∀ r ∈ [[Val.int 5], [Val.int 6]], ∀ v ∈ r, ValidVal v := by
  intro r hr v hv
  simp only [List.mem_cons, List.not_mem_nil, or_false] at hr
  rcases hr with rfl | rfl
  · simp only [List.mem_singleton] at hv; subst hv; exact ⟨by decide, by decide⟩
  · simp only [List.mem_singleton] at hv; subst hv; exact ⟨by decide, by decide⟩

/-- **Non-vacuity of `crash_recovery_ckpt`.**  `INSERT INTO t VALUES (5), (6)` run by the engine from
`dbB`, whose log is not empty; the log afterwards starts with the old record; replayed in full on
`st1` it gives a store that abstracts to the plain database `sdbA1` (the table holds `(5)`, `(6)`). -/
theorem crash_ckpt_example : ∃ db1 ptN tblsN rN,
    SpecRun sch1 dbB sdbA0 [.insert tname [] [[.int 5], [.int 6]]] db1 sdbA1 ∧
    db1.wal.head? = some oldRec ∧
    replayAll db1.wal st1 = (rN, none, false) ∧
    AbsV db1.store ptN sch1 tblsN sdbA1 ∧ AbsV rN ptN sch1 tblsN sdbA1 := by
  obtain ⟨db1, _, _, logs1, e1, hw, _⟩ := evalInsert_refines_specV dbB pt0 sch1 [(tname, t0)]
    sdbA0 sdbA1 abs1.toV tname t0 (List.mem_singleton.mpr rfl) schemaA sch1_t [] [[.int 5], [.int 6]]
    valid56 specA1 runA
  have run : SpecRun sch1 dbB sdbA0 [.insert tname [] [[.int 5], [.int 6]]] db1 sdbA1 :=
    .insert tname [] [[.int 5], [.int 6]] valid56 specA1
      (by
        intro pt tbls t schema hA ht hs
        obtain ⟨_, habs, _⟩ := hA
        have ht0 : t = t0 := habs.cat.tree_unique cat1 ht (List.mem_singleton.mpr rfl)
        subst ht0
        rw [sch1_t] at hs
        simp only [Option.some.injEq] at hs
        subst hs
        exact runA)
      e1 (.nil db1 sdbA1)
  obtain ⟨ptN, tblsN, rN, e, hA1, hA2, _⟩ := crash_recovery_ckpt sch1 run pt0 [(tname, t0)] abs1.toV pt0_self
    freshM_st1
    (by
      intro r hr
      simp only [dbB, List.mem_singleton] at hr
      subst hr
      exact oldRec_applied.applied cat1)
    (by
      intro r hr
      simp only [dbB, List.mem_singleton] at hr
      subst hr
      decide)
    (by
      intro r hr _
      simp only [dbB, List.mem_singleton] at hr
      subst hr
      decide)
  exact ⟨db1, ptN, tblsN, rN, run, by rw [hw]; rfl, e, hA1, hA2⟩

/-! ### rounds -/

/-- the side conditions of the INSERT hold on the flushed store -/
theorem runA' : InsRunOK schemaA ([].map Engine.bytesToName) (clean t0) 4 7 16384 [[.int 5], [.int 6]] := by
  intro buf t' nf' he hi
  have e1 : encodeTuple schemaA ((colsOf schemaA ([].map Engine.bytesToName)).zip [Val.int 5]).reverse =
      .ok [0, 5, 0, 0, 0] := rfl
  rw [e1] at he
  cases he
  have i1 : insertAppend (clean t0) (4 + 1) 7 [0, 5, 0, 0, 0] 16384 = .ok (tA1, 16384) := rfl
  rw [i1] at hi
  cases hi
  refine ⟨by decide, by decide, by decide, ?_⟩
  show InsRunOK schemaA ([].map Engine.bytesToName) tA1 5 8 16384 [[.int 6]]
  intro buf t' nf' he hi
  have e2 : encodeTuple schemaA ((colsOf schemaA ([].map Engine.bytesToName)).zip [Val.int 6]).reverse =
      .ok [0, 6, 0, 0, 0] := rfl
  rw [e2] at he
  cases he
  have i2 : insertAppend tA1 (5 + 1) 8 [0, 6, 0, 0, 0] 16384 = .ok (tA2, 16384) := rfl
  rw [i2] at hi
  cases hi
  exact ⟨by decide, by decide, by decide, trivial⟩

theorem memFiled_st1 : MemFiled st1 := by
  intro p hp
  simp only [st1, List.mem_cons, List.not_mem_nil, or_false] at hp
  rcases hp with rfl | rfl | rfl <;> rfl

theorem synced_st1 : Synced st1 pt0 sch1 [(tname, t0)] := by
  intro x hx e he hd
  simp only [catTrees, List.map_cons, List.map_nil, List.mem_cons, List.not_mem_nil, or_false] at hx
  rcases hx with rfl | rfl | rfl
  · simp [flatten, pt0] at he; subst he; cases hd
  · simp [flatten, sch1] at he; subst he; cases hd
  · simp [flatten, t0, emptyTree] at he; subst he; cases hd

/-- **Non-vacuity of the rounds.**  The database `dbA` (store `st1`, empty log) is flushed: a
checkpoint.  Then `INSERT INTO t VALUES (5), (6)`, crash, recovery; then `UPDATE t SET a = 7 WHERE a =
5`, crash, recovery - the second recovery finds the records of the insert in its log, applied, and
redoes the update.  Both recoveries succeed; the final database is checkpointed for the plain database
`sdbA2` (the table holds `(7)`, `(6)`), and these four steps form a `Rounds` history. -/
theorem rounds_example : ∃ dbC db1 dbR1 db2 dbR2 pt2 tbls2,
    Engine.flush dbA [] = .ok () dbC ∧
    SpecRun (clean sch1) dbC sdbA0 [.insert tname [] [[.int 5], [.int 6]]] db1 sdbA1 ∧
    Engine.recover db1 [] [] = .ok dbR1 ∧ dbR1.wal = db1.wal ∧
    SpecRun (clean sch1) dbR1 sdbA1 [.update tname [([97], .lit (.int 7))] (some (condEq 5))] db2 sdbA2 ∧
    Engine.recover db2 [] [] = .ok dbR2 ∧ dbR2.wal = db2.wal ∧
    Ckpt (clean sch1) dbR2 sdbA2 pt2 tbls2 ∧ Rounds (clean sch1) dbC sdbA0 dbR2 sdbA2 := by
  -- the checkpoint
  obtain ⟨sC, efC, hhC, _⟩ := flushPages_spec [] st1 memFiled_st1
  have hk0 : Ckpt (clean sch1) { store := sC, wal := [] } sdbA0 (clean pt0) (cleanT [(tname, t0)]) :=
    ckpt_of_flushed_gen abs1.toV pt0_self freshM_st1 memFiled_st1 (by intro r hr; cases hr)
      (by intro r hr; cases hr) (by intro r hr; cases hr) synced_st1 efC
  have hflush : Engine.flush dbA [] = .ok () { store := sC, wal := [] } := by
    simp only [Engine.flush, Engine.liftS, dbA, efC]
  have hmem : (tname, clean t0) ∈ cleanT [(tname, t0)] := List.mem_singleton.mpr rfl
  have hsch : schemaOf (clean sch1) tname = some schemaA := by rw [schemaOf_clean]; exact sch1_t
  have hrunC : InsRunOK schemaA ([].map Engine.bytesToName) (clean t0) sC.hdr.lastKey sC.hdr.nextLSN
      sC.hdr.nextFree [[.int 5], [.int 6]] := by rw [hhC]; exact runA'
  -- round 1
  obtain ⟨db1, _, _, _, e1, _⟩ := evalInsert_refines_specV { store := sC, wal := [] } (clean pt0) (clean sch1)
    (cleanT [(tname, t0)]) sdbA0 sdbA1 hk0.abs tname (clean t0) hmem schemaA hsch [] [[.int 5], [.int 6]]
    valid56 specA1 hrunC
  have run1 : SpecRun (clean sch1) { store := sC, wal := [] } sdbA0 [.insert tname [] [[.int 5], [.int 6]]] db1
      sdbA1 :=
    .insert tname [] [[.int 5], [.int 6]] valid56 specA1
      (by
        intro pt tbls t schema hA ht hs
        obtain ⟨_, habs, _⟩ := hA
        obtain ⟨_, habs0, _⟩ := hk0.abs
        have ht0 : t = clean t0 := habs.cat.tree_unique habs0.cat ht hmem
        subst ht0
        rw [hsch] at hs
        simp only [Option.some.injEq] at hs
        subst hs
        exact hrunC)
      e1 (.nil db1 sdbA1)
  obtain ⟨dbR1, pt1, tbls1, er1, hw1, hk1⟩ := hk0.recover_round run1 [] []
  -- round 2
  have hvalid : ∀ p ∈ [(([97] : Bytes), Sql.VExpr.lit (.int 7))], ∀ l, p.2 = .lit l →
      ValidVal (Engine.litToVal l) := by
    intro p hp l hl
    simp only [List.mem_singleton] at hp
    subst hp
    simp only [Sql.VExpr.lit.injEq] at hl
    subst hl
    exact ⟨by decide, by decide⟩
  obtain ⟨db2, _, _, e2, _⟩ := evalUpdate_refines_specV dbR1 pt1 (clean sch1) tbls1 sdbA1 sdbA2 hk1.abs tname
    [([97], .lit (.int 7))] (some (condEq 5)) hvalid
    (by
      intro p hp
      simp only [List.mem_singleton] at hp
      subst hp
      rw [nameStr_a]
      exact a_bytes)
    specA2
  have run2 : SpecRun (clean sch1) dbR1 sdbA1 [.update tname [([97], .lit (.int 7))] (some (condEq 5))] db2 sdbA2 :=
    .update tname [([97], .lit (.int 7))] (some (condEq 5)) hvalid specA2 e2 (.nil db2 sdbA2)
  obtain ⟨dbR2, pt2, tbls2, er2, hw2, hk2⟩ := hk1.recover_round run2 [] []
  exact ⟨_, db1, dbR1, db2, dbR2, pt2, tbls2, hflush, run1, er1, hw1, run2, er2, hw2, hk2,
    .crash (.crash .nil run1 er1) run2 er2⟩

end Mkdb.Store
