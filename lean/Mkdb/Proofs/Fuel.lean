import Mkdb.Model.Parse
/-! The initial fuel of the scanner and parser models is sufficient: `.fuel` is unreachable. -/

/-! ## Scanner -/

namespace Mkdb.Scan

theorem skipWs_length (l : Input) : (skipWs l).length ≤ l.length := by
  induction l with
  | nil => simp [skipWs]
  | cons r rest ih => unfold skipWs; split <;> simp <;> omega

theorem scanIdentTail_length (l : Input) : (scanIdentTail l).length ≤ l.length := by
  induction l with
  | nil => simp [scanIdentTail]
  | cons r rest ih => unfold scanIdentTail; split <;> simp <;> omega

theorem digits_length (hex : Bool) (l : Input) : (digits hex l).length ≤ l.length := by
  induction l with
  | nil => simp [digits]
  | cons r rest ih =>
    unfold digits
    repeat' split
    all_goals (simp only [List.length_cons]; omega)

theorem scanRawBody_length (l : Input) : (scanRawBody l).length ≤ l.length := by
  induction l with
  | nil => simp [scanRawBody]
  | cons r rest ih => unfold scanRawBody; split <;> simp <;> omega

theorem lineComment_length (l : Input) : (lineComment l).length ≤ l.length := by
  induction l with
  | nil => simp [lineComment]
  | cons r rest ih => unfold lineComment; split <;> simp <;> omega

theorem blockComment_length (l : Input) : ∀ b r', blockComment b l = some r' → r'.length ≤ l.length := by
  induction l with
  | nil => intro b r' h; simp [blockComment] at h
  | cons r rest ih =>
    intro b r' h
    unfold blockComment at h
    split at h
    · cases h; simp
    · have := ih _ _ h
      simp only [List.length_cons]; omega

theorem scanStringBody_length (q : Nat) (l : Input) :
    ∀ s, (scanStringBody q s l).2.length ≤ l.length := by
  induction l with
  | nil => intro s; cases s <;> simp [scanStringBody]
  | cons r rest ih =>
    intro s
    have h1 := ih .normal
    have h2 := ih .afterBackslash
    have h3 := fun n b => ih (.escDigits n b)
    cases s <;> simp only [scanStringBody] <;> (repeat' split) <;>
      first
      | (simp only [List.length_cons]; omega)
      | (simp only [List.length_cons]; exact Nat.le_succ_of_le (h3 _ _))

theorem scanNumber_length (l : Input) (b : Bool) : (scanNumber l b).2.length ≤ l.length := by
  unfold scanNumber
  grind [digits_length]

theorem scanNumber_lt (r : Rune) (rest : Input) (h : isDecimal r.code = true) :
    (scanNumber (r :: rest) false).2.length ≤ rest.length := by
  unfold scanNumber
  grind [digits_length, digits]

/-- `o` is a scanned token whose remaining input has length at most `n`, and less than `n`
unless the token is `eof`. -/
def TokOk (n : Nat) (o : Option (Kind × Input × Input)) : Prop :=
  ∃ k rs rest, o = some (k, rs, rest) ∧ rest.length ≤ n ∧ (k ≠ .eof → rest.length < n)

theorem TokOk.ite {n : Nat} {c : Prop} [Decidable c] {a b : Option (Kind × Input × Input)}
    (ha : c → TokOk n a) (hb : ¬c → TokOk n b) : TokOk n (if c then a else b) := by
  split
  · exact ha ‹_›
  · exact hb ‹_›

theorem TokOk.mk {n : Nat} {k : Kind} {rs rest : Input} (h : rest.length < n) :
    TokOk n (some (k, rs, rest)) :=
  ⟨k, rs, rest, rfl, Nat.le_of_lt h, fun _ => h⟩

theorem scanTok_ok : ∀ fuel (l : Input), l.length < fuel → TokOk l.length (scanTok fuel l) := by
  intro fuel
  induction fuel with
  | zero => intro l h; omega
  | succ fuel ih =>
    intro l0 h
    have hrec : ∀ X : Input, X.length + 2 ≤ l0.length → TokOk l0.length (scanTok fuel X) := by
      intro X hX
      obtain ⟨k, rs, r1, he, h1, h2⟩ := ih X (by omega)
      exact ⟨k, rs, r1, he, by omega, by intro _; omega⟩
    unfold scanTok
    simp only []
    have hw := skipWs_length l0
    cases hl : skipWs l0 with
    | nil => exact ⟨.eof, [], [], rfl, by simp, by simp⟩
    | cons r rest =>
      rw [hl] at hw
      simp only [List.length_cons] at hw
      simp only []
      have e1 := scanIdentTail_length rest
      have e2 := scanNumber_lt r rest
      have e3 : (List.tail (scanStringBody 34 .normal rest).2).length ≤ rest.length := by
        have := scanStringBody_length 34 rest .normal
        rw [List.length_tail]; omega
      have e4 : (List.tail (scanStringBody 39 .normal rest).2).length ≤ rest.length := by
        have := scanStringBody_length 39 rest .normal
        rw [List.length_tail]; omega
      have e5 : (List.tail (scanRawBody rest)).length ≤ rest.length := by
        have := scanRawBody_length rest
        rw [List.length_tail]; omega
      clear ih hl h
      refine TokOk.ite (fun _ => TokOk.mk (by omega)) fun _ => ?_
      refine TokOk.ite (fun hd => TokOk.mk (by have := e2 hd; omega)) fun _ => ?_
      refine TokOk.ite (fun _ => TokOk.mk (by omega)) fun _ => ?_
      refine TokOk.ite (fun _ => TokOk.mk (by omega)) fun _ => ?_
      refine TokOk.ite (fun _ => ?_) fun _ => ?_
      · cases rest with
        | nil => exact TokOk.mk (by omega)
        | cons d tl =>
          have e6 := scanNumber_length (d :: tl) true
          exact TokOk.ite (fun _ => TokOk.mk (by omega)) (fun _ => TokOk.mk (by omega))
      refine TokOk.ite (fun _ => ?_) fun _ => ?_
      · cases rest with
        | nil => exact TokOk.mk (by omega)
        | cons c rest' =>
          simp only [List.length_cons] at hw
          refine TokOk.ite (fun _ => hrec _ ?_) fun _ => TokOk.ite (fun _ => ?_) fun _ => ?_
          · have := lineComment_length rest'; omega
          · cases hb : blockComment false rest' with
            | none => exact TokOk.mk (by simp only [List.length_nil, List.length_cons]; omega)
            | some r'' =>
              have := blockComment_length rest' false r'' hb
              exact hrec _ (by omega)
          · exact TokOk.mk (by simp only [List.length_cons]; omega)
      exact TokOk.ite (fun _ => TokOk.mk (by omega)) (fun _ => TokOk.mk (by omega))

/-- With enough fuel `scanTok` succeeds and consumes input (all of it only at the end). -/
theorem scanTok_spec (fuel : Nat) (l : Input) (h : l.length < fuel) :
    ∃ k rs rest, scanTok fuel l = some (k, rs, rest) ∧ rest.length ≤ l.length ∧
      (k ≠ .eof → rest.length < l.length) :=
  scanTok_ok fuel l h

theorem scanAll_ne_fuel : ∀ fuel (l : Input) (acc : List Token), l.length + 1 ≤ fuel →
    scanAll fuel l acc ≠ .fuel := by
  intro fuel
  induction fuel with
  | zero => intro l acc h; omega
  | succ fuel ih =>
    intro l acc h
    unfold scanAll
    obtain ⟨k, rs, rest, he, h1, h2⟩ := scanTok_spec (fuel + 1) l (by omega)
    obtain ⟨k2, rs2, r2, he2, h12, _⟩ := scanTok_spec (fuel + 1) rest (by omega)
    rw [he]
    cases k <;> simp only [he2] <;> (repeat' split)
    all_goals first
      | (intro hh; cases hh; done)
      | (apply ih; have h3 := h2 (by intro hh; cases hh); omega)

theorem dropBOM_length (l : Input) : (dropBOM l).length ≤ l.length := by
  unfold dropBOM
  split
  · split <;> simp
  · simp

theorem scanSQL_ne_fuel (l : Input) : scanSQL l ≠ .fuel := by
  unfold scanSQL
  apply scanAll_ne_fuel
  have := dropBOM_length l
  omega

end Mkdb.Scan

/-! ## Parser -/

namespace Mkdb.Sql
open Mkdb.Scan Mkdb.Generated

/-- On every token list of length `n` the action `p` does not run out of fuel, and when it
succeeds its value and the length of the remaining token list satisfy `Q`. -/
def Tri {α} (p : P α) (n : Nat) (Q : α → Nat → Prop) : Prop :=
  ∀ ts : List Token, ts.length = n →
    p ts ≠ .fuel ∧ ∀ a rest, p ts = .ok a rest → Q a rest.length

theorem Tri.pure {α} {a : α} {n : Nat} {Q : α → Nat → Prop} (h : Q a n) :
    Tri (Pure.pure a : P α) n Q := by
  intro ts hts
  refine ⟨(by intro h; cases h), ?_⟩
  intro a' rest h'
  have : (Pure.pure a : P α) ts = .ok a ts := rfl
  rw [this] at h'; cases h'; rw [hts]; exact h

theorem Tri.fail {α} {e : PErr} {n : Nat} {Q : α → Nat → Prop} : Tri (fail e : P α) n Q := by
  intro ts _
  exact ⟨(by intro h; cases h), (by intro a rest h; cases h)⟩

theorem Tri.mono {α} {p : P α} {n : Nat} {Q Q' : α → Nat → Prop} (hp : Tri p n Q)
    (h : ∀ a m, Q a m → Q' a m) : Tri p n Q' := by
  intro ts hts
  exact ⟨(hp ts hts).1, fun a rest hr => h _ _ ((hp ts hts).2 a rest hr)⟩

theorem Tri.bind {α β} {m : P α} {f : α → P β} {n : Nat} {Q1 : α → Nat → Prop}
    {Q : β → Nat → Prop} (hm : Tri m n Q1) (hf : ∀ a k, Q1 a k → Tri (f a) k Q) :
    Tri (m >>= f) n Q := by
  intro ts hts
  have e : (m >>= f) ts = P.bind m f ts := rfl
  rw [e]
  unfold P.bind
  obtain ⟨h1, h2⟩ := hm ts hts
  cases hmts : m ts with
  | ok a rest => exact hf a rest.length (h2 a rest hmts) rest rfl
  | err e => exact ⟨(by intro h; cases h), (by intro a rest h; cases h)⟩
  | panic s => exact ⟨(by intro h; cases h), (by intro a rest h; cases h)⟩
  | fuel => exact absurd hmts h1

theorem Tri.ite {α} {c : Prop} [Decidable c] {p q : P α} {n : Nat} {Q : α → Nat → Prop}
    (hp : c → Tri p n Q) (hq : ¬c → Tri q n Q) : Tri (if c then p else q) n Q := by
  split
  · exact hp ‹_›
  · exact hq ‹_›

theorem Tri.curTok {n : Nat} : Tri curTok n (fun _ m => m = n) := by
  intro ts hts
  refine ⟨(by intro h; cases h), ?_⟩
  intro a rest h; cases h; exact hts

theorem Tri.advance {n : Nat} : Tri advance n (fun _ m => m = n - 1) := by
  intro ts hts
  refine ⟨(by intro h; cases h), ?_⟩
  intro a rest h; cases h; rw [List.length_tail, hts]

theorem Tri.hasNext {n : Nat} : Tri hasNext n (fun _ m => m = n) := by
  intro ts hts
  refine ⟨(by intro h; cases h), ?_⟩
  intro a rest h; cases h; exact hts

theorem Tri.curIs {tys : List Int} {n : Nat} : Tri (curIs tys) n (fun _ m => m = n) := by
  intro ts hts
  refine ⟨(by intro h; cases h), ?_⟩
  intro a rest h; cases h; exact hts

theorem Tri.matchTy {tys : List Int} {n : Nat} :
    Tri (matchTy tys) n (fun o m => m + o.isSome.toNat = n) := by
  intro ts hts
  unfold Sql.matchTy
  split
  · split
    · refine ⟨(by intro h; cases h), ?_⟩
      intro a rest h; cases h; simpa using hts
    · refine ⟨(by intro h; cases h), ?_⟩
      intro a rest h; cases h; exact hts
  · refine ⟨(by intro h; cases h), ?_⟩
    intro a rest h; cases h; exact hts

theorem Tri.requireMatch {tys : List Int} {n : Nat} :
    Tri (requireMatch tys) n (fun _ m => m + 1 = n) := by
  unfold Sql.requireMatch
  apply Tri.bind Tri.matchTy
  intro o k h
  cases o with
  | none => exact Tri.fail
  | some t => exact Tri.pure (by simpa using h)

theorem Tri.requireInt {n : Nat} : Tri requireInt n (fun _ m => m + 1 = n) := by
  unfold Sql.requireInt
  apply Tri.bind Tri.requireMatch
  intro t k h
  split
  · exact Tri.pure h
  · intro ts _
    exact ⟨(by intro h; cases h), (by intro a rest h; cases h)⟩
  · exact Tri.fail

theorem P.bind_assoc {α β γ} (m : P α) (g : α → P β) (f : β → P γ) :
    ((m >>= g) >>= f) = (m >>= fun a => g a >>= f) := by
  funext ts
  show P.bind (P.bind m g) f ts = P.bind m (fun a => P.bind (g a) f) ts
  unfold P.bind
  cases m ts <;> rfl

theorem P.pure_bind {α β} (a : α) (f : α → P β) : ((Pure.pure a : P α) >>= f) = f a := rfl

theorem P.fail_bind {α β} (e : PErr) (f : α → P β) : ((fail e : P α) >>= f) = fail e := rfl

theorem Tri.panic {α} {s : String} {n : Nat} {Q : α → Nat → Prop} : Tri (panic s : P α) n Q := by
  intro ts _
  exact ⟨(by intro h; cases h), (by intro a rest h; cases h)⟩

/-- close an arithmetic side goal after reducing the `match`es on known constructors -/
macro "tri_fin" : tactic =>
  `(tactic| first
    | omega
    | (simp only [Option.isSome_some, Option.isSome_none, Bool.toNat_true, Bool.toNat_false] at *; omega))

/-- decompose a goal `Tri (do …) n Q` along binds, matches and ifs -/
syntax "tri" : tactic
/-- prove `Tri p n ?Q` for a known action `p` (extended below by `macro_rules`) -/
syntax "tri_known" : tactic
macro_rules | `(tactic| tri_known) => `(tactic| first
  | with_reducible exact Tri.matchTy | with_reducible exact Tri.requireMatch
  | with_reducible exact Tri.requireInt | with_reducible exact Tri.curIs
  | with_reducible exact Tri.curTok | with_reducible exact Tri.advance
  | with_reducible exact Tri.hasNext
  | with_reducible assumption
  | ((with_reducible apply_assumption) <;> tri_fin))

macro "tri_step" : tactic => `(tactic| first
  | with_reducible exact Tri.fail
  | with_reducible exact Tri.panic
  | ((with_reducible apply Tri.pure); tri_fin)
  | ((with_reducible apply Tri.mono); (case hp => tri_known); (intro _ _ _; tri_fin))
  | ((with_reducible apply Tri.bind); (case hm => tri_known); intro _ _ _)
  | rw [P.bind_assoc]
  | rw [P.pure_bind]
  | rw [P.fail_bind]
  | split)

macro_rules | `(tactic| tri) => `(tactic| repeat' tri_step)

theorem Tri.columnReference {n : Nat} :
    Tri columnReference n (fun o m => m + o.isSome.toNat ≤ n) := by
  unfold Sql.columnReference
  tri

macro_rules | `(tactic| tri_known) => `(tactic| with_reducible exact Tri.columnReference)

theorem Tri.valueExpression {n : Nat} : Tri valueExpression n (fun _ m => m + 1 ≤ n) := by
  unfold Sql.valueExpression
  tri

macro_rules | `(tactic| tri_known) => `(tactic| with_reducible exact Tri.valueExpression)

theorem Tri.predicate {n : Nat} : Tri predicate n (fun _ m => m + 1 ≤ n) := by
  unfold Sql.predicate
  tri

macro_rules | `(tactic| tri_known) => `(tactic| with_reducible exact Tri.predicate)

theorem Tri.commaFollows {n : Nat} : Tri commaFollows n (fun c m => m + c.toNat = n) := by
  unfold Sql.commaFollows
  tri

macro_rules | `(tactic| tri_known) => `(tactic| with_reducible exact Tri.commaFollows)

theorem Tri.andBoth (f : Nat) : ∀ n, n + 1 ≤ f →
    Tri (andCond f) n (fun _ m => m + 1 ≤ n) ∧ ∀ ret, Tri (andLoop f ret) n (fun _ m => m ≤ n) := by
  induction f with
  | zero => intro n h; omega
  | succ f ih =>
    intro n h
    have h1 : ∀ k, k + 1 ≤ f → Tri (andCond f) k (fun _ m => m + 1 ≤ k) := fun k hk => (ih k hk).1
    have h2 : ∀ ret k, k + 1 ≤ f → Tri (andLoop f ret) k (fun _ m => m ≤ k) :=
      fun ret k hk => (ih k hk).2 ret
    refine ⟨?_, ?_⟩
    · unfold andCond; tri
    · intro ret; unfold andLoop; tri

theorem Tri.andCond {f n : Nat} (h : n + 1 ≤ f) : Tri (andCond f) n (fun _ m => m + 1 ≤ n) :=
  (Tri.andBoth f n h).1

theorem Tri.orBoth (f : Nat) : ∀ n, n + 2 ≤ f →
    Tri (orCond f) n (fun _ m => m + 1 ≤ n) ∧ ∀ ret, Tri (orLoop f ret) n (fun _ m => m ≤ n) := by
  induction f with
  | zero => intro n h; omega
  | succ f ih =>
    intro n h
    have h0 : ∀ k, k + 1 ≤ f → Tri (Sql.andCond f) k (fun _ m => m + 1 ≤ k) := fun k hk => Tri.andCond hk
    have h1 : ∀ k, k + 2 ≤ f → Tri (orCond f) k (fun _ m => m + 1 ≤ k) := fun k hk => (ih k hk).1
    have h2 : ∀ ret k, k + 2 ≤ f → Tri (orLoop f ret) k (fun _ m => m ≤ k) :=
      fun ret k hk => (ih k hk).2 ret
    refine ⟨?_, ?_⟩
    · unfold orCond; tri
    · intro ret; unfold orLoop; tri

theorem Tri.orCond {f n : Nat} (h : n + 2 ≤ f) : Tri (orCond f) n (fun _ m => m + 1 ≤ n) :=
  (Tri.orBoth f n h).1

macro_rules | `(tactic| tri_known) => `(tactic| ((with_reducible apply Tri.orCond); tri_fin))

/-- `sepLoop`: the body consumes a token whenever it asks for another iteration. -/
theorem Tri.sepLoop {α} {body : P (α × Bool)} (f : Nat) : ∀ n,
    (∀ k, k ≤ n → Tri body k (fun x m => m + x.2.toNat ≤ k)) → n + 1 ≤ f →
    Tri (sepLoop f body) n (fun _ m => m ≤ n) := by
  induction f with
  | zero => intro n _ h; omega
  | succ f ih =>
    intro n hb h
    unfold Sql.sepLoop
    apply Tri.bind (hb n (Nat.le_refl n))
    intro x k hk
    obtain ⟨a, cont⟩ := x
    cases cont with
    | false => simp only [Bool.false_eq_true, ↓reduceIte]; tri
    | true =>
      simp only [↓reduceIte]
      have hk' : k + 1 ≤ n := by simpa using hk
      have := ih k (fun k' hk' => hb k' (by omega)) (by omega)
      tri

/-- `guardedLoop`: every iteration starts by consuming the guard token. -/
theorem Tri.guardedLoop {α} {tys : List Int} {body : Token → P (α × Bool)} (f : Nat) : ∀ n,
    (∀ t k, k ≤ n → Tri (body t) k (fun _ m => m ≤ k)) → n + 1 ≤ f →
    Tri (guardedLoop f tys body) n (fun _ m => m ≤ n) := by
  induction f with
  | zero => intro n _ h; omega
  | succ f ih =>
    intro n hb h
    unfold Sql.guardedLoop
    apply Tri.bind Tri.matchTy
    intro o k hk
    cases o with
    | none => tri
    | some t =>
      have hk' : k + 1 = n := by simpa using hk
      apply Tri.bind (hb t k (by omega))
      intro x k2 hk2
      obtain ⟨a, cont⟩ := x
      cases cont with
      | false => simp only [Bool.false_eq_true, ↓reduceIte]; tri
      | true =>
        simp only [↓reduceIte]
        have := ih k2 (fun t' k' hk' => hb t' k' (by omega)) (by omega)
        tri

theorem Tri.sepLoop' {α} {body : P (α × Bool)} {f n : Nat}
    (hb : ∀ k, k ≤ n → Tri body k (fun x m => m + x.2.toNat ≤ k)) (h : n + 1 ≤ f) :
    Tri (Sql.sepLoop f body) n (fun _ m => m ≤ n) := Tri.sepLoop f n hb h

theorem Tri.guardedLoop' {α} {tys : List Int} {body : Token → P (α × Bool)} {f n : Nat}
    (hb : ∀ t k, k ≤ n → Tri (body t) k (fun _ m => m ≤ k)) (h : n + 1 ≤ f) :
    Tri (Sql.guardedLoop f tys body) n (fun _ m => m ≤ n) := Tri.guardedLoop f n hb h

macro_rules | `(tactic| tri_known) => `(tactic| first
  | ((with_reducible apply Tri.sepLoop'); (case h => tri_fin); intro _ _; tri)
  | ((with_reducible apply Tri.guardedLoop'); (case h => tri_fin); intro _ _ _; tri))

theorem Tri.setFunction {n : Nat} :
    Tri setFunction n (fun o m => m + o.isSome.toNat ≤ n) := by
  unfold Sql.setFunction
  tri

macro_rules | `(tactic| tri_known) => `(tactic| with_reducible exact Tri.setFunction)

theorem Tri.derivedColumn {f n : Nat} (h : n + 2 ≤ f) :
    Tri (derivedColumn f) n (fun _ m => m + 1 ≤ n) := by
  unfold Sql.derivedColumn
  tri

macro_rules | `(tactic| tri_known) => `(tactic| ((with_reducible apply Tri.derivedColumn); tri_fin))

theorem Tri.selectList {f n : Nat} (h : n + 2 ≤ f) :
    Tri (selectList f) n (fun _ m => m ≤ n) := by
  unfold Sql.selectList
  tri

theorem Tri.tableName {n : Nat} : Tri tableName n (fun _ m => m + 1 ≤ n) := by
  unfold Sql.tableName
  tri

macro_rules | `(tactic| tri_known) => `(tactic| with_reducible exact Tri.tableName)

theorem Tri.joinLoop (f : Nat) : ∀ n lhs, n + 2 ≤ f →
    Tri (joinLoop f lhs) n (fun _ m => m ≤ n) := by
  induction f with
  | zero => intro n _ h; omega
  | succ f ih =>
    intro n lhs h
    have ih' : ∀ lhs k, k + 2 ≤ f → Tri (Sql.joinLoop f lhs) k (fun _ m => m ≤ k) :=
      fun lhs k hk => ih k lhs hk
    unfold Sql.joinLoop
    tri

theorem Tri.fromClause {f n : Nat} (h : n + 2 ≤ f) :
    Tri (fromClause f) n (fun _ m => m ≤ n) := by
  have := fun lhs k hk => Tri.joinLoop f k lhs hk
  unfold Sql.fromClause
  tri

theorem Tri.whereClause {f n : Nat} (h : n + 2 ≤ f) :
    Tri (whereClause f) n (fun _ m => m ≤ n) := by
  unfold Sql.whereClause
  tri

theorem Tri.groupByLoop (f : Nat) : ∀ n b, n + 2 ≤ f →
    Tri (groupByLoop f b) n (fun _ m => m ≤ n) := by
  induction f with
  | zero => intro n _ h; omega
  | succ f ih =>
    intro n b h
    have ih' : ∀ b k, k + 2 ≤ f → Tri (Sql.groupByLoop f b) k (fun _ m => m ≤ k) :=
      fun b k hk => ih k b hk
    unfold Sql.groupByLoop
    tri

theorem Tri.groupByClause {f n : Nat} (h : n + 2 ≤ f) :
    Tri (groupByClause f) n (fun _ m => m ≤ n) := by
  have := fun b k hk => Tri.groupByLoop f k b hk
  unfold Sql.groupByClause
  tri

theorem Tri.sortSpecList {f n : Nat} (h : n + 2 ≤ f) :
    Tri (sortSpecList f) n (fun _ m => m ≤ n) := by
  unfold Sql.sortSpecList
  tri

theorem Tri.limitLoop (f : Nat) : ∀ n lc, n + 2 ≤ f →
    Tri (limitLoop f lc) n (fun _ m => m ≤ n) := by
  induction f with
  | zero => intro n _ h; omega
  | succ f ih =>
    intro n lc h
    have ih' : ∀ lc k, k + 2 ≤ f → Tri (Sql.limitLoop f lc) k (fun _ m => m ≤ k) :=
      fun lc k hk => ih k lc hk
    unfold Sql.limitLoop
    tri

theorem Tri.limitOffsetClause {f n : Nat} (h : n + 2 ≤ f) :
    Tri (limitOffsetClause f) n (fun _ m => m ≤ n) := by
  have := fun lc k hk => Tri.limitLoop f k lc hk
  unfold Sql.limitOffsetClause
  tri

macro_rules | `(tactic| tri_known) => `(tactic| first
  | ((with_reducible apply Tri.selectList); tri_fin) | ((with_reducible apply Tri.fromClause); tri_fin) | ((with_reducible apply Tri.whereClause); tri_fin)
  | ((with_reducible apply Tri.groupByClause); tri_fin) | ((with_reducible apply Tri.sortSpecList); tri_fin)
  | ((with_reducible apply Tri.limitOffsetClause); tri_fin))

theorem Tri.parseSelect {f n : Nat} (h : n + 2 ≤ f) :
    Tri (parseSelect f) n (fun _ m => m ≤ n) := by
  unfold Sql.parseSelect
  tri

theorem Tri.tableElements {f n : Nat} (h : n + 2 ≤ f) :
    Tri (tableElements f) n (fun _ m => m ≤ n) := by
  unfold Sql.tableElements
  tri

theorem Tri.parseCreate {f n : Nat} (h : n + 2 ≤ f) :
    Tri (parseCreate f) n (fun _ m => m ≤ n) := by
  have := fun k (hk : k + 2 ≤ f) => Tri.tableElements hk
  unfold Sql.parseCreate
  tri

theorem Tri.parseInsert {f n : Nat} (h : n + 2 ≤ f) :
    Tri (parseInsert f) n (fun _ m => m ≤ n) := by
  unfold Sql.parseInsert
  tri

theorem Tri.parseUpdate {f n : Nat} (h : n + 2 ≤ f) :
    Tri (parseUpdate f) n (fun _ m => m ≤ n) := by
  unfold Sql.parseUpdate
  tri

theorem Tri.parseDelete {f n : Nat} (h : n + 2 ≤ f) :
    Tri (parseDelete f) n (fun _ m => m ≤ n) := by
  unfold Sql.parseDelete
  tri

theorem Tri.parseShow {n : Nat} : Tri parseShow n (fun _ m => m ≤ n) := by
  unfold Sql.parseShow
  tri

theorem Tri.parseStmt {f n : Nat} (h : n + 2 ≤ f) :
    Tri (parseStmt f) n (fun _ m => m ≤ n) := by
  have := fun k (hk : k + 2 ≤ f) => Tri.parseCreate hk
  have := fun k (hk : k + 2 ≤ f) => Tri.parseSelect hk
  have := fun k (hk : k + 2 ≤ f) => Tri.parseInsert hk
  have := fun k (hk : k + 2 ≤ f) => Tri.parseUpdate hk
  have := fun k (hk : k + 2 ≤ f) => Tri.parseDelete hk
  have := @Tri.parseShow
  unfold Sql.parseStmt
  tri

/-- `parseStmt` does not run out of fuel when started with at least `ts.length + 2`. -/
theorem parseStmt_ne_fuel (ts : List Token) (f : Nat) (h : ts.length + 2 ≤ f) :
    parseStmt f ts ≠ .fuel :=
  (Tri.parseStmt h ts rfl).1

/-- The initial fuel of `parseTokens` is sufficient. -/
theorem parseTokens_ne_fuel (ts : List Token) : parseTokens ts ≠ .fuel := by
  unfold parseTokens
  have := parseStmt_ne_fuel ts (ts.length + 2) (Nat.le_refl _)
  split
  · split <;> (intro h; cases h)
  · intro h; cases h
  · intro h; cases h
  · contradiction

/-- `parseSQL` (scanner followed by parser) never runs out of fuel. -/
theorem parseSQL_ne_fuel (input : Input) : parseSQL input ≠ .fuel := by
  unfold parseSQL
  have := scanSQL_ne_fuel input
  split
  · exact parseTokens_ne_fuel _
  · contradiction

end Mkdb.Sql
