import Mkdb.Proofs.ReplayMixed2
import Mkdb.Proofs.SpecRefine7
/-!
Replay of mixed histories, part 3: the engine's statement evaluators as live runs of row statements.

`evalInsert_go_spec`, `evalDelete_go_spec`, `evalUpdate_go_spec` and the three `…_refines_spec`
theorems of `SpecRefine2/4/5/6` are proved again here with one more conclusion: the per-row calls of
`Store.insert` / `Store.markDeleted` / `Store.update` the evaluator makes form a `LiveRunM` from the
store of the database before the statement to the store after it (the fetch / filter phase of DELETE
and UPDATE is a `same` step), ending with exactly the table list the abstraction relation is stated
for.
-/
set_option autoImplicit false
namespace Mkdb.Store
open Mkdb.Page Mkdb.Tuple Mkdb.Generated Mkdb.Tree

/-! ### INSERT -/

/-- the row statements of a multi-row INSERT -/
def insStmts (table : Bytes) (cols : List Bytes) (rows : List (List Val)) : List RStmt :=
  rows.map fun r => .ins table (cols.map Engine.bytesToName) r

/-- `evalInsert_go_spec`, with the live run -/
theorem evalInsert_go_live (db : Engine.DB) (table : Bytes) (cols : List Bytes) (sch : Levels)
    (schema : List FieldDef) (hsch : schemaOf sch table = some schema) (tail : List (List Val)) :
    ∀ (rows : List (List Val)) (newRows : List (List Val)) (s : Store) (pt : Levels)
      (tbls : List (Bytes × Levels)) (t : Levels) (sdb : Spec.SDB) (batch : List WalRec) (n : Nat),
      Abs s pt sch tbls sdb → (table, t) ∈ tbls →
      (∀ r ∈ rows, ∀ v ∈ r, ValidVal v) →
      rows.mapM (Spec.rowOf ⟨table, schema, []⟩ cols) = some newRows →
      (rows = [] ∨ checkColumns schema (colsOf schema (cols.map Engine.bytesToName)) = none) →
      InsRunOK schema (cols.map Engine.bytesToName) t s.hdr.lastKey s.hdr.nextLSN s.hdr.nextFree rows →
      ∃ s' ptF t' logs,
        Engine.evalInsert.go db table cols s batch n (rows ++ tail) =
          Engine.evalInsert.go db table cols s' (batch ++ logs) (n + rows.length) tail ∧
        LiveRunM sch s tbls (insStmts table cols rows) s' (setTable tbls table t') logs ∧
        Abs s' ptF sch (setTable tbls table t')
          (sdb.map (updRows table (fun r => r ++ idRows s.hdr.lastKey newRows))) ∧
        s'.hdr.lastKey = s.hdr.lastKey + rows.length := by
  intro rows
  induction rows with
  | nil =>
    intro newRows s pt tbls t sdb batch n h ht _ hrows _ _
    rw [mapM_nil_some] at hrows
    subst hrows
    refine ⟨s, pt, t, [], ?_, ?_, ?_, rfl⟩
    · simp only [List.nil_append, List.length_nil, Nat.add_zero, List.append_nil]
    · rw [setTable_self h.cat.tnames ht]
      exact .nil s tbls
    · rw [setTable_self h.cat.tnames ht]
      simp only [idRows]
      rw [updRows_id]
      exact h
  | cons r rest ih =>
    intro newRows s pt tbls t sdb batch n h ht hvalid hrows hnames hrun
    have hnames : checkColumns schema (colsOf schema (cols.map Engine.bytesToName)) = none := by
      cases hnames with
      | inl h0 => cases h0
      | inr h1 => exact h1
    obtain ⟨vs, newRest, hr, hrest, rfl⟩ := (mapM_cons_some _ _ _ _).mp hrows
    have hstep := insert_step h table t ht schema hsch cols r vs (hvalid r List.mem_cons_self) hr hnames
      (fun buf t' nf' he hi => by
        obtain ⟨a, b, c, _⟩ := hrun buf t' nf' he hi
        exact ⟨a, b, c⟩)
    obtain ⟨s1, ptF1, logs1, buf, t1, nf1, e1, henc, hins, habs1, hlk1, hnf1, hlsn1⟩ := hstep
    obtain ⟨hd1, hl1, hbig1, hrun1⟩ := hrun buf t1 nf1 henc hins
    rw [← hlk1, ← hnf1, ← hlsn1] at hrun1
    -- the side conditions of the row
    obtain ⟨hlen0, buf0, henc0, hsz0, _⟩ := (specRowOf_some_iff _ cols r vs).mp hr
    change (colsOf schema (cols.map Engine.bytesToName)).length = r.length at hlen0
    change encodeTuple schema ((colsOf schema (cols.map Engine.bytesToName)).zip r).reverse = .ok buf0 at henc0
    rw [henc] at henc0
    simp only [Except.ok.injEq] at henc0
    subst henc0
    obtain ⟨s', ptF, t', logs', ego, hlive, habs', hlk'⟩ := ih newRest s1 ptF1 (setTable tbls table t1) t1 _
      (batch ++ logs1) (n + 1) habs1 (mem_setTable_self t1 ht)
      (fun r' hr' => hvalid r' (List.mem_cons_of_mem _ hr')) hrest (.inr hnames) hrun1
    rw [setTable_setTable] at hlive
    refine ⟨s', ptF, t', logs1 ++ logs', ?_, ?_, ?_, ?_⟩
    · simp only [List.cons_append, Engine.evalInsert.go, e1, ego, List.length_cons]
      rw [List.append_assoc, Nat.add_assoc, Nat.add_comm 1]
    · exact .ins table (cols.map Engine.bytesToName) r t schema buf t1 nf1 ht hsch hlen0 hnames henc hsz0 hins hd1 hl1
        hbig1 e1 hlive
    · rw [setTable_setTable, updRows_updRows] at habs'
      have hfun : (fun r => (r ++ [(⟨some (s.hdr.lastKey + 1), vs⟩ : Spec.SRow)]) ++ idRows s1.hdr.lastKey newRest) =
          (fun r => r ++ idRows s.hdr.lastKey (vs :: newRest)) := by
        funext r
        rw [hlk1, List.append_assoc]
        rfl
      rw [hfun] at habs'
      exact habs'
    · rw [hlk', hlk1, List.length_cons]; omega

/-- **INSERT of the engine, as a live run.**  Hypotheses and conclusions of `evalInsert_refines_spec`;
in addition the per-row inserts form a `LiveRunM` from the store before to the store after. -/
theorem evalInsert_live (db : Engine.DB) (pt sch : Levels) (tbls : List (Bytes × Levels))
    (sdb sdb' : Spec.SDB) (h : Abs db.store pt sch tbls sdb)
    (table : Bytes) (t : Levels) (ht : (table, t) ∈ tbls)
    (schema : List FieldDef) (hsch : schemaOf sch table = some schema)
    (cols : List Bytes) (rows : List (List Val)) (hvalid : ∀ r ∈ rows, ∀ v ∈ r, ValidVal v)
    (hspec : Spec.specInsert sdb table cols rows = some sdb')
    (hrun : InsRunOK schema (cols.map Engine.bytesToName) t db.store.hdr.lastKey db.store.hdr.nextLSN
      db.store.hdr.nextFree rows) :
    ∃ db' ptF t' logs sdb'',
      Engine.evalInsert db table cols rows = .ok rows.length db' ∧
      db'.wal = db.wal ++ logs ∧
      LiveRunM sch db.store tbls (insStmts table cols rows) db'.store (setTable tbls table t') logs ∧
      Abs db'.store ptF sch (setTable tbls table t') sdb'' ∧
      valsOf sdb'' = valsOf sdb' := by
  obtain ⟨schema', hsch', _, hfind⟩ := h.tabs.find h.cat.tnames ht
  rw [hsch] at hsch'
  simp only [Option.some.injEq] at hsch'
  subst hsch'
  have hnames : rows = [] ∨ checkColumns schema (colsOf schema (cols.map Engine.bytesToName)) = none := by
    cases rows with
    | nil => exact .inl rfl
    | cons r rest =>
      exact .inr (checkColumns_of_namesOK (absTable table schema t) cols (h.tabs.names_nodup ht hsch)
        (specInsert_namesOK hfind hspec))
  unfold Spec.specInsert at hspec
  rw [hfind] at hspec
  simp only [Option.bind_eq_bind, Option.bind_some] at hspec
  split at hspec
  · cases hspec
  cases hm : rows.mapM (Spec.rowOf (absTable table schema t) cols) with
  | none => rw [hm] at hspec; cases hspec
  | some newRows =>
    rw [hm] at hspec
    simp only [Option.bind_some, Option.pure_def, Option.some.injEq] at hspec
    obtain ⟨s', ptF, t', logs, ego, hlive, habs, _⟩ := evalInsert_go_live db table cols sch schema hsch [] rows
      newRows db.store pt tbls t sdb [] 0 h ht hvalid hm hnames hrun
    rw [List.append_nil] at ego
    refine ⟨{ store := s', wal := db.wal ++ ([] ++ logs) }, ptF, t', logs, _, ?_, ?_, hlive, habs, ?_⟩
    · unfold Engine.evalInsert
      rw [ego, Nat.zero_add]
      rfl
    · simp only [List.nil_append]
    · rw [← hspec]
      exact valsOf_updRows table (fun r => r ++ idRows db.store.hdr.lastKey newRows)
        (fun r => r ++ newRows.map fun v => ⟨none, v⟩) sdb (fun rs => by
        simp only [List.map_append, idRows_vals, List.map_map]
        congr 1
        conv => lhs; rw [← List.map_id newRows]
        apply List.map_congr_left
        intro v _
        rfl)

/-! ### DELETE -/

/-- the row statements of a DELETE over the selected row ids -/
def delStmts (table : Bytes) (ids : List (Nat × List Val)) : List RStmt := ids.map fun r => .del table r.1

/-- `evalDelete_go_spec`, with the live run -/
theorem evalDelete_go_live (db : Engine.DB) (table : Bytes) (pt sch : Levels) :
    ∀ (ids : List (Nat × List Val)) (s : Store) (tbls : List (Bytes × Levels)) (t : Levels)
      (batch : List WalRec) (n : Nat),
      Cat s pt sch tbls → (table, t) ∈ tbls → (ids.map (·.1)).Nodup →
      (∀ r ∈ ids, ∃ c ∈ live t, c.key = r.1) →
      ∃ s' t' logs,
        Engine.evalDelete.go db table s batch n ids =
          .ok (n + ids.length) { store := s', wal := db.wal ++ (batch ++ logs) } ∧
        LiveRunM sch s tbls (delStmts table ids) s' (setTable tbls table t') logs ∧
        Cat s' pt sch (setTable tbls table t') ∧
        live t' = (live t).filter (fun c => !(ids.map (·.1)).contains c.key) ∧
        logs.length = ids.length ∧ s'.hdr.lastKey = s.hdr.lastKey ∧ s'.hdr.nextFree = s.hdr.nextFree
  | [], s, tbls, t, batch, n, h, ht, _, _ => by
    refine ⟨s, t, [], ?_, ?_, ?_, ?_, rfl, rfl, rfl⟩
    · simp only [Engine.evalDelete.go, List.length_nil, Nat.add_zero, List.append_nil]
    · rw [setTable_self h.tnames ht]; exact .nil s tbls
    · rw [setTable_self h.tnames ht]; exact h
    · simp only [List.map_nil, List.contains_nil, Bool.not_false]
      exact (List.filter_eq_self.mpr (fun _ _ => rfl)).symm
  | r :: rest, s, tbls, t, batch, n, h, ht, hnd, hlive => by
    simp only [List.map_cons, List.nodup_cons] at hnd
    obtain ⟨c, hc, hck⟩ := hlive r List.mem_cons_self
    obtain ⟨s1, l, d, _, _, e1, hc1, _, hlk1, _, hnf1, _⟩ := markDeleted_cat h table t ht r.1 c hc hck
    have hlive1 : live (setDeleted t r.1 s.hdr.nextLSN) = (live t).filter (fun c => c.key != r.1) :=
      markDeleted_live t r.1 s.hdr.nextLSN
    obtain ⟨s', t', logs', ego, hrun', hc', hl', hlen', hlk', hnf'⟩ := evalDelete_go_live db table pt sch rest s1
      (setTable tbls table (setDeleted t r.1 s.hdr.nextLSN)) (setDeleted t r.1 s.hdr.nextLSN)
      (batch ++ [⟨c_OpDelete, s.hdr.nextLSN, l.off, r.1, []⟩]) (n + 1) hc1 (mem_setTable_self _ ht) hnd.2
      (fun r' hr' => by
        obtain ⟨c', hc', hck'⟩ := hlive r' (List.mem_cons_of_mem _ hr')
        refine ⟨c', ?_, hck'⟩
        rw [hlive1, List.mem_filter]
        refine ⟨hc', ?_⟩
        have : c'.key ≠ r.1 := by
          intro heq
          apply hnd.1
          rw [← heq, hck']
          exact List.mem_map.mpr ⟨r', hr', rfl⟩
        simpa using this)
    rw [setTable_setTable] at hrun'
    refine ⟨s', t', ⟨c_OpDelete, s.hdr.nextLSN, l.off, r.1, []⟩ :: logs', ?_, ?_, ?_, ?_, ?_, ?_, ?_⟩
    · simp only [Engine.evalDelete.go, e1, ego, List.length_cons]
      rw [List.append_assoc, Nat.add_assoc, Nat.add_comm 1]
      rfl
    · exact LiveRunM.del (logs := [⟨c_OpDelete, s.hdr.nextLSN, l.off, r.1, []⟩]) table r.1 t c ht hc hck e1 hrun'
    · rw [setTable_setTable] at hc'; exact hc'
    · rw [hl', hlive1, List.filter_filter]
      apply List.filter_congr
      intro x _
      simp only [List.map_cons, List.contains_cons, Bool.not_or, Bool.and_comm]
      rw [bne]
    · simp only [List.length_cons, hlen']
    · rw [hlk', hlk1]
    · rw [hnf', hnf1]

/-- **DELETE of the engine, as a live run.**  Hypotheses and conclusions of `evalDelete_refines_spec`;
in addition: the fetch phase is a `same` step, the per-row tombstones form a `LiveRunM`. -/
theorem evalDelete_live (db : Engine.DB) (pt sch : Levels) (tbls : List (Bytes × Levels))
    (sdb sdb' : Spec.SDB) (h : Abs db.store pt sch tbls sdb) (table : Bytes) (w : Option Sql.Cond)
    (hspec : Spec.specDelete sdb table w = some sdb') :
    ∃ n db' t' logs stmts,
      Engine.evalDelete db table w = .ok n db' ∧ db'.wal = db.wal ++ logs ∧
      LiveRunM sch db.store tbls stmts db'.store (setTable tbls table t') logs ∧
      Abs db'.store pt sch (setTable tbls table t') sdb' := by
  unfold Spec.specDelete at hspec
  cases hfind : Spec.findTable sdb table with
  | none => rw [hfind] at hspec; cases hspec
  | some st =>
    rw [hfind] at hspec
    simp only [Option.bind_eq_bind, Option.bind_some] at hspec
    cases hsel : Spec.selects st w with
    | none => rw [hsel] at hspec; cases hspec
    | some sel =>
      rw [hsel] at hspec
      simp only [Option.bind_some, Option.pure_def, Option.some.injEq] at hspec
      obtain ⟨t, ht⟩ := h.tabs.find_some hfind
      obtain ⟨schema, hsch, hdec, hf⟩ := h.tabs.find h.cat.tnames ht
      rw [hfind] at hf
      simp only [Option.some.injEq] at hf
      subst hf
      obtain ⟨s1, efetch, hs1, hc1⟩ := fetchTable_cat h.cat table t ht schema hsch hdec
      obtain ⟨efilter, hsl⟩ := filterIds_selects table schema (rowsOf schema (live t)) w sel hsel
      obtain ⟨_, hIt, _, _, _⟩ := h.cat.tree t (Cat.tb_mem ht)
      have hnd : ((rowsOf schema (live t)).map (·.1)).Nodup := by
        rw [rowsOf_keys schema (live t) hdec]
        exact (live_keys_asc hIt.asc).imp (fun hlt => Nat.ne_of_lt hlt)
      have hnd' : ((selRows (rowsOf schema (live t)) sel).map (·.1)).Nodup :=
        hnd.sublist ((selRows_sublist _ sel).map _)
      obtain ⟨s', t', logs, ego, hrun, hc', hl', _, _, _⟩ := evalDelete_go_live db table pt sch
        (selRows (rowsOf schema (live t)) sel) s1 tbls t [] 0 hc1 ht hnd'
        (fun r hr => mem_rowsOf ((selRows_sublist _ sel).subset hr))
      refine ⟨(selRows (rowsOf schema (live t)) sel).length, { store := s', wal := db.wal ++ ([] ++ logs) }, t', logs,
        _, ?_, by simp, .same hs1 hrun, ⟨hc', ?_⟩⟩
      · simp only [Engine.evalDelete, Engine.fetchForExec, Engine.liftS, efetch, efilter]
        rw [← Nat.zero_add (selRows (rowsOf schema (live t)) sel).length]
        exact ego
      · rw [← hspec]
        have hdec' : ∀ c ∈ live t', ∃ m, decodeTuple schema c.val [] = .ok m := by
          intro c hc
          rw [hl'] at hc
          exact hdec c (List.mem_filter.mp hc).1
        exact h.tabs.setTable h.cat.tnames ht schema hsch t' hdec'
          (fun _ => ((absTable table schema t).rows.zip sel).filterMap fun (r, s) => if s then none else some r)
          (by
            simp only [absTable]
            rw [hl', rowsOf_filter schema (fun k => !((selRows (rowsOf schema (live t)) sel).map (·.1)).contains k)]
            exact rows_after_delete _ sel _ hsl (selRows_mem_iff _ sel hnd))

/-! ### UPDATE -/

/-- the row statements of an UPDATE over the selected row ids -/
def updStmts (table : Bytes) (sets : List (Bytes × Sql.VExpr)) (ids : List (Nat × List Val)) : List RStmt :=
  ids.map fun r => .upd table r.1 (sets.map fun p => Engine.bytesToName p.1)
    (sets.map fun p => match p.2 with | .lit l => Engine.litToVal l | .col _ => Val.null)

/-- `evalUpdate_go_spec`, with the live run -/
theorem evalUpdate_go_live (db : Engine.DB) (table : Bytes) (pt sch : Levels) (schema : List FieldDef)
    (hsch : schemaOf sch table = some schema) (sets : List (Bytes × Sql.VExpr))
    (hnames : checkColumns schema (sets.map fun p => Engine.bytesToName p.1) = none) :
    ∀ (ids : List (Nat × List Val)) (s : Store) (tbls : List (Bytes × Levels)) (t : Levels)
      (batch : List WalRec),
      Cat s pt sch tbls → (table, t) ∈ tbls → (ids.map (·.1)).Nodup →
      (∀ r ∈ ids, ∃ c ∈ live t, c.key = r.1 ∧ ∃ m buf, decodeTuple schema c.val [] = .ok m ∧
        encodeTuple schema (setMap sets ++ m) = .ok buf ∧ buf.length ≤ c_maxValueSize) →
      ∃ s' t' logs,
        Engine.evalUpdate.go db table (sets.map fun p => Engine.bytesToName p.1)
            (sets.map fun p => match p.2 with | .lit l => Engine.litToVal l | .col _ => Val.null) s batch ids =
          .ok () { store := s', wal := db.wal ++ (batch ++ logs) } ∧
        LiveRunM sch s tbls (updStmts table sets ids) s' (setTable tbls table t') logs ∧
        Cat s' pt sch (setTable tbls table t') ∧
        live t' = (live t).map (updK schema sets (ids.map (·.1))) ∧
        logs.length = ids.length ∧ s'.hdr.lastKey = s.hdr.lastKey ∧ s'.hdr.nextFree = s.hdr.nextFree
  | [], s, tbls, t, batch, h, ht, _, _ => by
    refine ⟨s, t, [], ?_, ?_, ?_, ?_, rfl, rfl, rfl⟩
    · simp only [Engine.evalUpdate.go, List.append_nil]
    · rw [setTable_self h.tnames ht]; exact .nil s tbls
    · rw [setTable_self h.tnames ht]; exact h
    · conv => lhs; rw [← List.map_id (live t)]
      apply List.map_congr_left
      intro c _
      simp [updK]
  | r :: rest, s, tbls, t, batch, h, ht, hnd, hlive => by
    simp only [List.map_cons, List.nodup_cons] at hnd
    obtain ⟨c, hc, hck, m, buf, hdec, henc, hsz⟩ := hlive r List.mem_cons_self
    have henc' : encodeTuple schema (((sets.map fun p => Engine.bytesToName p.1).zip
        (sets.map fun p => match p.2 with | .lit l => Engine.litToVal l | .col _ => Val.null)).reverse ++ m) =
        .ok buf := henc
    obtain ⟨s1, l, d, _, _, e1, hc1, _, hlk1, _, hnf1, _⟩ := update_cat h table t ht schema hsch r.1
      (sets.map fun p => Engine.bytesToName p.1)
      (sets.map fun p => match p.2 with | .lit l => Engine.litToVal l | .col _ => Val.null) hnames
      c hc hck m buf hdec henc' hsz
    have hlive1 : live (setVal t r.1 s.hdr.nextLSN buf) =
        (live t).map (fun c => if c.key == r.1 then { c with val := buf } else c) :=
      update_live t r.1 s.hdr.nextLSN buf
    obtain ⟨s', t', logs', ego, hrun', hc', hl', hlen', hlk', hnf'⟩ := evalUpdate_go_live db table pt sch schema
      hsch sets hnames
      rest s1 (setTable tbls table (setVal t r.1 s.hdr.nextLSN buf)) (setVal t r.1 s.hdr.nextLSN buf)
      (batch ++ [⟨c_OpUpdate, s.hdr.nextLSN, l.off, r.1, buf⟩]) hc1 (mem_setTable_self _ ht) hnd.2
      (fun r' hr' => by
        obtain ⟨c', hc', hck', hrest⟩ := hlive r' (List.mem_cons_of_mem _ hr')
        refine ⟨c', ?_, hck', hrest⟩
        rw [hlive1]
        have hne : c'.key ≠ r.1 := by
          intro heq
          apply hnd.1
          rw [← heq, hck']
          exact List.mem_map.mpr ⟨r', hr', rfl⟩
        exact List.mem_map.mpr ⟨c', hc', by simp [hne]⟩)
    obtain ⟨_, hIt, _, _, _⟩ := h.tree t (Cat.tb_mem ht)
    have hkn := live_keys_nodup hIt.asc
    rw [setTable_setTable] at hrun'
    refine ⟨s', t', ⟨c_OpUpdate, s.hdr.nextLSN, l.off, r.1, buf⟩ :: logs', ?_, ?_, ?_, ?_, ?_, ?_, ?_⟩
    · simp only [Engine.evalUpdate.go, e1, ego]
      rw [List.append_assoc]
      rfl
    · exact LiveRunM.upd (logs := [⟨c_OpUpdate, s.hdr.nextLSN, l.off, r.1, buf⟩]) table r.1 _ _ t schema c m buf
        ht hsch hc hck hdec henc' hsz e1 hrun'
    · rw [setTable_setTable] at hc'; exact hc'
    · rw [hl', hlive1, List.map_map]
      apply List.map_congr_left
      intro x hx
      simp only [Function.comp]
      by_cases hxk : x.key = r.1
      · have hxc : x = c := inj_of_nodup_map (·.key) (live t) hkn x hx c hc (by rw [hxk, hck])
        subst hxc
        have hupd : Store.updCell schema sets x = { x with val := buf } := by
          unfold Store.updCell
          simp only [hdec, henc]
        have hb : (x.key == r.1) = true := by simp [hxk]
        simp only [hb, if_true]
        have hnot : (rest.map (·.1)).contains r.1 = false := by
          simpa using hnd.1
        unfold updK
        simp only [hxk, hnot, Bool.false_eq_true, if_false, List.map_cons, List.contains_cons, beq_self_eq_true,
          Bool.true_or, if_true, hupd]
      · have hb : (x.key == r.1) = false := by simp [hxk]
        simp only [hb, Bool.false_eq_true, if_false]
        unfold updK
        simp only [List.map_cons, List.contains_cons, hb, Bool.false_or]
    · simp only [List.length_cons, hlen']
    · rw [hlk', hlk1]
    · rw [hnf', hnf1]

/-- UPDATE of the engine, as a live run, when the engine's own test of the SET columns
(`Engine.checkSetColumns` over the fields of the table's schema) passes. -/
theorem evalUpdate_live_set (db : Engine.DB) (pt sch : Levels) (tbls : List (Bytes × Levels))
    (sdb sdb' : Spec.SDB) (h : Abs db.store pt sch tbls sdb) (table : Bytes)
    (sets : List (Bytes × Sql.VExpr)) (w : Option Sql.Cond)
    (hvalid : ∀ p ∈ sets, ∀ l, p.2 = .lit l → ValidVal (Engine.litToVal l))
    (hsetAll : ∀ schema, schemaOf sch table = some schema →
      Engine.checkSetColumns (schema.map fun fd => (⟨[], fd.name.toUTF8.toList⟩ : Exec.Field)) []
        (sets.map (·.1)) = none)
    (hspec : Spec.specUpdate sdb table sets w = some sdb') :
    ∃ db' t' logs stmts,
      Engine.evalUpdate db table sets w = .ok () db' ∧ db'.wal = db.wal ++ logs ∧
      LiveRunM sch db.store tbls stmts db'.store (setTable tbls table t') logs ∧
      Abs db'.store pt sch (setTable tbls table t') sdb' := by
  rw [specUpdate_eq] at hspec
  cases hfind : Spec.findTable sdb table with
  | none => rw [hfind] at hspec; cases hspec
  | some st =>
    rw [hfind] at hspec
    simp only [Option.bind_some] at hspec
    split at hspec
    · cases hspec
    · rename_i hany
      have hnocol : ∀ p ∈ sets, ∀ c, p.2 ≠ .col c := by
        intro p hp c hpc
        apply hany
        rw [List.any_eq_true]
        exact ⟨p, hp, by simp only [hpc]⟩
      split at hspec
      · cases hspec
      cases hsel : Spec.selects st w with
      | none => rw [hsel] at hspec; cases hspec
      | some sel =>
        rw [hsel] at hspec
        simp only [Option.bind_some] at hspec
        cases hrows : (st.rows.zip sel).mapM (specUpdRow st.cols sets) with
        | none => rw [hrows] at hspec; cases hspec
        | some rows' =>
          rw [hrows] at hspec
          simp only [Option.bind_some, Option.some.injEq] at hspec
          obtain ⟨t, ht⟩ := h.tabs.find_some hfind
          obtain ⟨schema, hsch, hdec, hf⟩ := h.tabs.find h.cat.tnames ht
          rw [hfind] at hf
          simp only [Option.some.injEq] at hf
          subst hf
          -- the SET columns
          have hset : Engine.checkSetColumns (schema.map fun fd => (⟨[], fd.name.toUTF8.toList⟩ : Exec.Field)) []
              (sets.map (·.1)) = none := hsetAll schema hsch
          have hcc : checkColumns schema (sets.map fun p => Engine.bytesToName p.1) = none := by
            have := checkSetColumns_none_checkColumns schema _ hset
            rwa [List.map_map] at this
          obtain ⟨s1, efetch, hs1, hc1⟩ := fetchTable_cat h.cat table t ht schema hsch hdec
          obtain ⟨efilter, hsl⟩ := filterIds_selects table schema (rowsOf schema (live t)) w sel hsel
          obtain ⟨_, hIt, _, _, _⟩ := h.cat.tree t (Cat.tb_mem ht)
          have hnd : ((rowsOf schema (live t)).map (·.1)).Nodup := by
            rw [rowsOf_keys schema (live t) hdec]
            exact live_keys_nodup hIt.asc
          have hnd' : ((selRows (rowsOf schema (live t)) sel).map (·.1)).Nodup :=
            hnd.sublist ((selRows_sublist _ sel).map _)
          have hlen : sel.length = (live t).length := by
            rw [hsl, ← List.length_map (f := fun r : Nat × List Val => r.1), rowsOf_keys schema (live t) hdec,
              List.length_map]
          have hKp : ∀ p ∈ (live t).zip sel,
              (p.1.key ∈ (selRows (rowsOf schema (live t)) sel).map (·.1) ↔ p.2 = true) := by
            intro p hp
            obtain ⟨q, hq, h1, h2⟩ := zip_rowsOf_mem schema (live t) sel hdec p hp
            rw [← h1, ← h2]
            exact selRows_mem_iff _ sel hnd q hq
          obtain ⟨hcan, hdec', hrows'⟩ := update_rows_agree schema sets (setMap_valid sets hvalid)
            ((selRows (rowsOf schema (live t)) sel).map (·.1)) (live t) sel rows' hdec hlen hKp hrows
          obtain ⟨s', t', logs, ego, hrun, hc', hl', _, _, _⟩ := evalUpdate_go_live db table pt sch schema hsch sets hcc
            (selRows (rowsOf schema (live t)) sel) s1 tbls t [] hc1 ht hnd'
            (fun r hr => by
              obtain ⟨c, hc, hck⟩ := mem_rowsOf ((selRows_sublist _ sel).subset hr)
              exact ⟨c, hc, hck, hcan c hc (hck ▸ List.mem_map.mpr ⟨r, hr, rfl⟩)⟩)
          refine ⟨{ store := s', wal := db.wal ++ ([] ++ logs) }, t', logs, _, ?_, by simp, .same hs1 hrun,
            ⟨hc', ?_⟩⟩
          · unfold Engine.evalUpdate
            split
            · rename_i hanyE
              exfalso
              rw [List.any_eq_true] at hanyE
              obtain ⟨p, hp, hpe⟩ := hanyE
              cases hp2 : p.2 with
              | lit l => rw [hp2] at hpe; cases hpe
              | col c => exact hnocol p hp c hp2
            · simp only [Engine.fetchForExec, Engine.liftS, efetch, hset, efilter]
              exact ego
          · rw [← hspec]
            rw [← hl'] at hdec' hrows'
            exact h.tabs.setTable h.cat.tnames ht schema hsch t' hdec' (fun _ => rows')
              (by simp only [absTable]; exact hrows')

/-- **UPDATE of the engine, as a live run.**  Hypotheses and conclusions of `evalUpdate_refines_spec`;
in addition: the fetch phase is a `same` step, the per-row rewrites form a `LiveRunM`. -/
theorem evalUpdate_live (db : Engine.DB) (pt sch : Levels) (tbls : List (Bytes × Levels))
    (sdb sdb' : Spec.SDB) (h : Abs db.store pt sch tbls sdb) (table : Bytes)
    (sets : List (Bytes × Sql.VExpr)) (w : Option Sql.Cond)
    (hvalid : ∀ p ∈ sets, ∀ l, p.2 = .lit l → ValidVal (Engine.litToVal l))
    (hutf : ∀ p ∈ sets, (Spec.nameStr p.1).toUTF8.toList = p.1)
    (hspec : Spec.specUpdate sdb table sets w = some sdb') :
    ∃ db' t' logs stmts,
      Engine.evalUpdate db table sets w = .ok () db' ∧ db'.wal = db.wal ++ logs ∧
      LiveRunM sch db.store tbls stmts db'.store (setTable tbls table t') logs ∧
      Abs db'.store pt sch (setTable tbls table t') sdb' := by
  refine evalUpdate_live_set db pt sch tbls sdb sdb' h table sets w hvalid ?_ hspec
  intro schema hsch
  rw [specUpdate_eq] at hspec
  cases hfind : Spec.findTable sdb table with
  | none => rw [hfind] at hspec; cases hspec
  | some st =>
    rw [hfind] at hspec
    simp only [Option.bind_some] at hspec
    split at hspec
    · cases hspec
    split at hspec
    · cases hspec
    rename_i hnamesB
    have hnamesOK : Spec.namesOK st (sets.map fun p => Spec.nameStr p.1) = true := by
      simpa using hnamesB
    obtain ⟨t, ht⟩ := h.tabs.find_some hfind
    obtain ⟨schema', hsch', _, hf⟩ := h.tabs.find h.cat.tnames ht
    rw [hsch] at hsch'
    simp only [Option.some.injEq] at hsch'
    subst hsch'
    rw [hfind] at hf
    simp only [Option.some.injEq] at hf
    subst hf
    have hutf' : ∀ c ∈ sets.map (·.1), (Spec.nameStr c).toUTF8.toList = c := by
      intro c hc
      obtain ⟨p, hp, rfl⟩ := List.mem_map.mp hc
      exact hutf p hp
    have hn' : Spec.namesOK (absTable table schema t) ((sets.map (·.1)).map Spec.nameStr) = true := by
      rw [List.map_map]; exact hnamesOK
    exact checkSetColumns_of_namesOK (absTable table schema t) (sets.map (·.1))
      (h.tabs.names_nodup ht hsch) hutf' hn'

/-- when the engine's UPDATE succeeds on a store the catalog describes, its test of the SET columns
passed -/
theorem evalUpdate_ok_set {db db1 : Engine.DB} {pt sch : Levels} {tbls : List (Bytes × Levels)}
    (h : Cat db.store pt sch tbls) (table : Bytes) (t : Levels) (ht : (table, t) ∈ tbls)
    (schema : List FieldDef) (hsch : schemaOf sch table = some schema)
    (hdec : ∀ c ∈ live t, ∃ m, decodeTuple schema c.val [] = .ok m)
    (sets : List (Bytes × Sql.VExpr)) (w : Option Sql.Cond)
    (heval : Engine.evalUpdate db table sets w = .ok () db1) :
    Engine.checkSetColumns (schema.map fun fd => (⟨[], fd.name.toUTF8.toList⟩ : Exec.Field)) []
      (sets.map (·.1)) = none := by
  obtain ⟨s1, efetch, _, _⟩ := fetchTable_cat h table t ht schema hsch hdec
  unfold Engine.evalUpdate at heval
  split at heval
  · cases heval
  simp only [Engine.fetchForExec, Engine.liftS, efetch] at heval
  cases hcs : Engine.checkSetColumns (schema.map fun fd => (⟨[], fd.name.toUTF8.toList⟩ : Exec.Field)) []
      (sets.map (·.1)) with
  | none => rfl
  | some e => rw [hcs] at heval; cases heval

end Mkdb.Store
