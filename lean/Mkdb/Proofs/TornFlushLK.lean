import Mkdb.Proofs.ReplayCounter
/-!
The replay of the write-ahead log does not read the row-id counter `hdr.lastKey`: it only raises it.

`RKFree m` says that the store operation `m` commutes with raising the row-id counter
(`raiseKey s K`): run on the raised store it takes the same path, returns the same value, and ends in
the raised version of the store it would have ended in.  It holds of every page operation, of the
B-tree insert, and of the catalog re-point of recovery; hence

* `replayOne_raiseKey`: one record of the replay on a store whose counter was raised to `K` first
  is the same record on the store as it was, with the counter raised to `K` afterwards - on every
  path, the error paths included;
* **`replayAll_raiseKey`**: the same for a whole log.

So two stores that differ only in the row-id counter (the header of a torn flush against the header
that should have been written) replay to stores that differ only in the row-id counter, with the
same outcome.
-/
set_option autoImplicit false
namespace Mkdb.Store
open Mkdb.Page Mkdb.Tuple Mkdb.Generated Mkdb.Tree Mkdb.Engine

/-- apply `f` to the store an outcome carries -/
def mapRes {α} (f : Store → Store) : SRes α → SRes α
  | .ok a s => .ok a (f s)
  | .err e s => .err e (f s)
  | .panic p => .panic p
  | .unmodelled w => .unmodelled w
  | .fuel => .fuel

/-- `m` commutes with raising the row-id counter -/
def RKFree {α} (m : SM α) : Prop :=
  ∀ s K, m (raiseKey s K) = mapRes (fun s' => raiseKey s' K) (m s)

theorem raiseKey_comm (s : Store) (a b : Nat) : raiseKey (raiseKey s a) b = raiseKey (raiseKey s b) a := by
  unfold raiseKey
  simp only [Nat.max_assoc, Nat.max_comm a b]

/-! ### the monad -/

theorem RKFree.pure {α} (a : α) : RKFree (pure a : SM α) := fun _ _ => rfl
theorem RKFree.throw {α} (e : SErr) : RKFree (throw e : SM α) := fun _ _ => rfl
theorem RKFree.panicS {α} (w : String) : RKFree (panicS w : SM α) := fun _ _ => rfl
theorem RKFree.unmodelledS {α} (w : String) : RKFree (unmodelledS w : SM α) := fun _ _ => rfl
theorem RKFree.outOfFuel {α} : RKFree (outOfFuel : SM α) := fun _ _ => rfl

theorem RKFree.bind {α β} {m : SM α} {f : α → SM β} (hm : RKFree m) (hf : ∀ a, RKFree (f a)) :
    RKFree (m >>= f) := by
  intro s K
  rw [bind_def, bind_def, hm s K]
  cases m s with
  | ok a s1 => exact hf a s1 K
  | err x s1 => rfl
  | panic p => rfl
  | unmodelled w => rfl
  | fuel => rfl

theorem RKFree.ite {α} {c : Prop} [Decidable c] {a b : SM α} (ha : RKFree a) (hb : RKFree b) :
    RKFree (if c then a else b) := by
  split
  · exact ha
  · exact hb

/-- `getS` hands the store itself to its continuation: it commutes when the continuation reads nothing
the raise changes -/
theorem RKFree.getS_bind {α} {f : Store → SM α} (hread : ∀ s K, f (raiseKey s K) = f s)
    (hf : ∀ s0, RKFree (f s0)) : RKFree (getS >>= f) := by
  intro s K
  show f (raiseKey s K) (raiseKey s K) = mapRes _ (f s s)
  rw [hread s K]
  exact hf s s K

/-! ### the page operations -/

theorem RKFree.fetch (off : Nat) : RKFree (fetch off) := by
  intro s K
  unfold Store.fetch
  show (match assocGet s.mem off with
    | some m => SRes.ok m.node (raiseKey s K)
    | none => _) = _
  cases assocGet s.mem off <;> rfl

theorem RKFree.putNode (n : Node) (d : Option Bool) : RKFree (putNode n d) := fun _ _ => rfl

theorem RKFree.markDirty (off lsn : Nat) : RKFree (markDirty off lsn) := by
  intro s K
  unfold Store.markDirty
  show (match assocGet s.mem off with
    | some m => SRes.ok () { raiseKey s K with mem := assocSet s.mem off ⟨setLSN m.node lsn, true⟩ }
    | none => _) = _
  cases assocGet s.mem off <;> rfl

theorem RKFree.appendNode (n : Node) (d : Bool) : RKFree (appendNode n d) := fun _ _ => rfl

theorem RKFree.decodeRow (sch : List FieldDef) (bs : Bytes) : RKFree (decodeRow sch bs) := by
  intro s K
  unfold Store.decodeRow
  cases decodeTuple sch bs [] <;> rfl

theorem RKFree.encodeRow (sch : List FieldDef) (m : Vals) : RKFree (encodeRow sch m) := by
  intro s K
  unfold Store.encodeRow
  cases encodeTuple sch m with
  | ok b => rfl
  | error e => cases e <;> rfl

/-- one structural step of an `RKFree` proof -/
macro "rk_step" : tactic =>
  `(tactic| first
    | exact RKFree.pure _
    | exact RKFree.fetch _
    | exact RKFree.putNode _ _
    | exact RKFree.appendNode _ _
    | exact RKFree.markDirty _ _
    | exact RKFree.throw _
    | exact RKFree.panicS _
    | exact RKFree.unmodelledS _
    | exact RKFree.outOfFuel
    | exact RKFree.decodeRow _ _
    | exact RKFree.encodeRow _ _
    | assumption
    | refine RKFree.bind ?_ (fun _ => ?_)
    | split)

/-! ### the B-tree insert -/

theorem RKFree.leafSplitUp (parent : Option Nat) (curOff newOff newKey lsn root : Nat) :
    RKFree (leafSplitUp parent curOff newOff newKey lsn root) := by
  unfold Store.leafSplitUp
  repeat rk_step

theorem RKFree.leafSplit (parent : Option Nat) (cur1 : Leaf) (lsn root : Nat) :
    RKFree (leafSplit parent cur1 lsn root) := by
  unfold Store.leafSplit
  repeat (first | exact RKFree.leafSplitUp _ _ _ _ _ _ | rk_step)

theorem RKFree.insertLeaf (parent : Option Nat) (cur : Leaf) (key lsn : Nat) (value : Bytes) (root : Nat) :
    RKFree (insertLeaf parent cur key lsn value root) := by
  rw [insertLeaf_eq]
  repeat (first | exact RKFree.leafSplit _ _ _ _ | rk_step)

theorem RKFree.intSplitUp (parent : Option Nat) (curOff newOff midKey lsn root1 : Nat) :
    RKFree (intSplitUp parent curOff newOff midKey lsn root1) := by
  unfold Store.intSplitUp
  repeat rk_step

theorem RKFree.afterChild (parent : Option Nat) (curOff lsn root1 : Nat) :
    RKFree (afterChild parent curOff lsn root1) := by
  unfold Store.afterChild
  repeat (first | exact RKFree.intSplitUp _ _ _ _ _ _ | rk_step)

theorem RKFree.insertInternal : ∀ (fuel : Nat) (parent : Option Nat) (cur : Internal) (key lsn : Nat)
    (value : Bytes) (root : Nat), RKFree (insertInternal fuel parent cur key lsn value root)
  | 0, _, _, _, _, _, _ => RKFree.outOfFuel
  | fuel+1, parent, cur, key, lsn, value, root => by
    rw [insertInternal_eq]
    refine RKFree.ite (RKFree.throw _) ((RKFree.fetch _).bind fun child => ?_)
    cases child with
    | leaf l => exact (RKFree.insertLeaf _ _ _ _ _ _).bind fun _ => RKFree.afterChild _ _ _ _
    | internal i =>
      exact (RKFree.insertInternal fuel _ _ _ _ _ _).bind fun _ => RKFree.afterChild _ _ _ _

theorem RKFree.insertKeyHeap (bt : BT) (key lsn : Nat) (value : Bytes) :
    RKFree (Store.insertKeyHeap bt key lsn value) := by
  have hkh : Store.insertKeyHeap bt key lsn value =
      (Store.fetch bt.root >>= fun pg =>
        match pg with
        | .leaf l => Store.insertLeaf none l key lsn value bt.root >>= fun r => Pure.pure (⟨r⟩ : BT)
        | .internal i => Store.insertInternal treeFuel none i key lsn value bt.root >>= fun r => Pure.pure (⟨r⟩ : BT)) := rfl
  rw [hkh]
  refine (RKFree.fetch _).bind fun pg => ?_
  cases pg with
  | leaf l => exact (RKFree.insertLeaf _ _ _ _ _ _).bind fun _ => RKFree.pure _
  | internal i => exact (RKFree.insertInternal _ _ _ _ _ _ _).bind fun _ => RKFree.pure _

/-- the cross-check against the levels model reads the pages and the allocation frontier only -/
theorem ghostAgrees_raiseKey (s : Store) (K : Nat) (bt : BT) (key lsn : Nat) (value : Bytes) (res : SRes BT) :
    ghostAgrees (raiseKey s K) bt key lsn value (mapRes (fun s' => raiseKey s' K) res) =
      ghostAgrees s bt key lsn value res := by
  unfold ghostAgrees
  rw [view_raiseKey]
  rw [show (raiseKey s K).hdr.nextFree = s.hdr.nextFree from rfl]
  cases Tree.ofHeap (view s) 64 bt.root with
  | none => cases res <;> rfl
  | some lv =>
    simp only
    cases Tree.insertAppend lv key lsn value s.hdr.nextFree with
    | ok p => cases res <;> rfl
    | error x => cases res <;> cases x <;> first | rfl | (rename_i e _; cases e <;> rfl)

/-- the tree insert of the engine (the `ghost` counter is no header field) -/
theorem RKFree.insertKey (bt : BT) (key lsn : Nat) (value : Bytes) :
    RKFree (Store.insertKey bt key lsn value) := by
  intro s K
  unfold Store.insertKey
  simp only
  rw [RKFree.insertKeyHeap bt key lsn value s K, ghostAgrees_raiseKey]
  cases ghostAgrees s bt key lsn value (Store.insertKeyHeap bt key lsn value s) <;>
    cases Store.insertKeyHeap bt key lsn value s <;> rfl

/-! ### the catalog re-point of recovery -/

theorem RKFree.leftmostLeaf : ∀ (fuel off : Nat), RKFree (leftmostLeaf fuel off)
  | 0, _ => RKFree.outOfFuel
  | fuel+1, off => by
    unfold Store.leftmostLeaf
    repeat (first | exact RKFree.leftmostLeaf fuel _ | rk_step)

theorem RKFree.scanLeaves : ∀ (fuel : Nat) (l : Leaf), RKFree (scanLeaves fuel l)
  | 0, _ => RKFree.outOfFuel
  | fuel+1, l => by
    unfold Store.scanLeaves
    repeat (first | exact RKFree.scanLeaves fuel _ | rk_step)

theorem RKFree.scanRight (root : Nat) : RKFree (scanRight root) := by
  unfold Store.scanRight
  exact (RKFree.leftmostLeaf _ _).bind fun _ => RKFree.scanLeaves _ _

theorem RKFree.findFirstM {α β} {f : α → SM (Option β)} (hf : ∀ a, RKFree (f a)) :
    ∀ l : List α, RKFree (findFirstM f l)
  | [] => RKFree.pure _
  | a :: rest => by
    unfold Store.findFirstM
    repeat (first | exact hf a | exact RKFree.findFirstM hf rest | rk_step)

theorem RKFree.updateCellAt (off key : Nat) (value : Bytes) (lsn : Nat) :
    RKFree (updateCellAt off key value lsn) := by
  unfold Store.updateCellAt
  repeat rk_step

/-- the catalog re-point of recovery reads the page-table root, not the row-id counter -/
theorem RKFree.repointPageTable (old new lsn : Nat) : RKFree (repointPageTable old new lsn) := by
  rw [repointPageTable_eq]
  refine RKFree.getS_bind (fun _ _ => rfl) (fun s0 => ?_)
  unfold rpFind
  repeat (first
    | exact RKFree.scanRight _
    | exact RKFree.updateCellAt _ _ _ _
    | exact RKFree.findFirstM (fun _ => by repeat rk_step) _
    | rk_step)

/-! ### one record -/

/-- the raise at the start of `replayOne` commutes with a raise of the row-id counter -/
theorem raiseRec_raiseKey (s : Store) (r : WalRec) (K : Nat) :
    raiseRec (raiseKey s K) r = raiseKey (raiseRec s r) K := by
  unfold raiseRec raiseKey
  cases r.op == c_OpInsert
  · rfl
  · simp only [if_true, Nat.max_assoc, Nat.max_comm K r.cell]

/-- `replayOne` after its first step (the raise of the two counters, `raiseRec`) -/
def replayBody (r : WalRec) (s : Store) : Store × Option String × Bool :=
  match fetch r.page s with
  | .ok node s1 =>
    if r.lsn ≤ nodeLSN node then (s1, none, false)
    else if r.op == c_OpInsert then
      match insertKey ⟨nodeOff node⟩ r.cell r.lsn r.val s1 with
      | .ok bt s2 =>
        if bt.root != nodeOff node then
          match repointPageTable (nodeOff node) bt.root r.lsn (raiseKey s2 r.cell) with
          | .ok _ s4 => (s4, none, false)
          | .err _ s4 => (s4, some "replay insert: repoint", false)
          | .panic p => (raiseKey s2 r.cell, some ("panic:" ++ p), false)
          | .unmodelled w => (raiseKey s2 r.cell, some ("unmodelled:" ++ w), false)
          | .fuel => (raiseKey s2 r.cell, some "hang", false)
        else (raiseKey s2 r.cell, none, false)
      | .err .keyExists s2 => (raiseKey s2 r.cell, none, false)
      | .err _ s2 => (s2, some "replay insert", false)
      | .panic p => (s1, some ("panic:" ++ p), false)
      | .unmodelled w => (s1, some ("unmodelled:" ++ w), false)
      | .fuel => (s1, some "hang", false)
    else if r.op == c_OpUpdate then
      match node with
      | .internal n =>
        if r.val.length > c_maxValueSize || !(n.cells.any fun c => c.key == r.cell) then (s1, none, true)
        else (s1, some "panic:updateCell on internal node", false)
      | .leaf l =>
        if r.val.length > c_maxValueSize || !(l.cells.any fun c => c.key == r.cell) then (s1, none, true)
        else
          let l' : Leaf := { l with cells := l.cells.map (fun c => if c.key == r.cell then { c with val := r.val } else c), lsn := r.lsn }
          ({ s1 with mem := assocSet s1.mem l.off ⟨.leaf l', true⟩ }, none, false)
    else if r.op == c_OpDelete then
      match node with
      | .internal n =>
        if n.cells.any fun c => c.key == r.cell then (s1, some "panic:delete on internal node", false)
        else (s1, some "replay delete: cell not found", false)
      | .leaf l =>
        if !(l.cells.any fun c => c.key == r.cell) then (s1, some "replay delete: cell not found", false)
        else
          let l' : Leaf := { l with cells := l.cells.map (fun c => if c.key == r.cell then { c with deleted := true } else c), lsn := r.lsn }
          ({ s1 with mem := assocSet s1.mem l.off ⟨.leaf l', true⟩ }, none, false)
    else (s1, none, false)
  | _ => (s, some "fetch", false)

theorem replayOne_eq_body (r : WalRec) (s : Store) : replayOne r s = replayBody r (raiseRec s r) := rfl

theorem replayBody_raiseKey (r : WalRec) (s : Store) (K : Nat) :
    replayBody r (raiseKey s K) = (raiseKey (replayBody r s).1 K, (replayBody r s).2) := by
  unfold replayBody
  rw [RKFree.fetch r.page s K]
  cases fetch r.page s with
  | ok node s1 =>
    simp only [mapRes]
    by_cases h1 : r.lsn ≤ nodeLSN node
    · simp only [if_pos h1]
    · simp only [if_neg h1]
      cases h2 : r.op == c_OpInsert
      · simp only [Bool.false_eq_true, if_false]
        cases h3 : r.op == c_OpUpdate
        · simp only [Bool.false_eq_true, if_false]
          cases h4 : r.op == c_OpDelete
          · simp only [Bool.false_eq_true, if_false]
          · simp only [if_true]
            cases node with
            | leaf l => simp only []; split <;> rfl
            | internal n => simp only []; split <;> rfl
        · simp only [if_true]
          cases node with
          | leaf l => simp only []; split <;> rfl
          | internal n => simp only []; split <;> rfl
      · simp only [if_true]
        rw [RKFree.insertKey _ r.cell r.lsn r.val s1 K]
        cases insertKey ⟨nodeOff node⟩ r.cell r.lsn r.val s1 with
        | ok bt s2 =>
          simp only [mapRes]
          rw [raiseKey_comm s2 K r.cell]
          split
          · rw [RKFree.repointPageTable _ _ _ (raiseKey s2 r.cell) K]
            cases repointPageTable (nodeOff node) bt.root r.lsn (raiseKey s2 r.cell) <;> rfl
          · rfl
        | err e s2 =>
          cases e <;> first | rfl | (simp only [mapRes]; rw [raiseKey_comm s2 K r.cell])
        | panic p => rfl
        | unmodelled w => rfl
        | fuel => rfl
  | err e s1 => rfl
  | panic p => rfl
  | unmodelled w => rfl
  | fuel => rfl

/-- **One record of the replay does not read the row-id counter.**  Replaying a record on a store whose
row-id counter was first raised to at least `K` takes the same path, with the same outcome, as on the
store itself, and ends in the same store with the counter raised to at least `K` - on every path of
`replayOne`: redo, skip by page LSN, tolerated key, silent abort, every error. -/
theorem replayOne_raiseKey (r : WalRec) (s : Store) (K : Nat) :
    replayOne r (raiseKey s K) = (raiseKey (replayOne r s).1 K, (replayOne r s).2) := by
  rw [replayOne_eq_body, replayOne_eq_body, raiseRec_raiseKey, replayBody_raiseKey]

/-! ### a whole log -/

/-- **The replay of a log does not read the row-id counter, it only raises it.**  For any log, any store
and any `K`: the replay from the store with its counter raised to at least `K` has the same outcome
(ran to its end / error message / silent abort) as the replay from the store itself, and the store it
ends in is the one the other ends in with the counter raised to at least `K`.  (No hypotheses: the
stores may be crash images.) -/
theorem replayAll_raiseKey (log : List WalRec) (s : Store) (K : Nat) :
    replayAll log (raiseKey s K) = (raiseKey (replayAll log s).1 K, (replayAll log s).2) := by
  induction log generalizing s with
  | nil => rfl
  | cons r rest ih =>
    unfold Engine.replayAll
    rw [replayOne_raiseKey]
    rcases replayOne r s with ⟨s', msg, ab⟩
    cases msg with
    | some m => rfl
    | none =>
      cases ab with
      | true => rfl
      | false => exact ih s'

/-- the same read off the three components -/
theorem replayAll_raiseKey_parts (log : List WalRec) (s : Store) (K : Nat) :
    (replayAll log (raiseKey s K)).1 = raiseKey (replayAll log s).1 K ∧
    (replayAll log (raiseKey s K)).2 = (replayAll log s).2 := by
  rw [replayAll_raiseKey]
  exact ⟨rfl, rfl⟩

/-- on the torn store of `ReplayCounter` (page written, header not: counter 3, logged row id 7): with the
counter raised to 9 first, the replay runs to its end and leaves the counter at 9 -/
example : (replayAll tornLog (raiseKey tornStore 9)).1.hdr.lastKey = 9 ∧
    (replayAll tornLog (raiseKey tornStore 9)).2 = (none, false) := by
  rw [replayAll_raiseKey]
  decide

end Mkdb.Store
