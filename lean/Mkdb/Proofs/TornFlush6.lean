import Mkdb.Proofs.TornFlush5
/-!
Torn flush without page allocation, part 6: **the whole log**, and the data file the replay starts from.

* `torn_replay`: by induction over the log with `torn_step`: after `i` records the store holds the
  catalog with the leaf pages `mixAt c k ρ i`; at the end these are the live pages of the end of the
  history (dirty bits aside).
* `img`, `Hist.inv_img`, `cat_of_image`: a store that shows, at every leaf offset `o`, the page as of
  the moment `k o` of the history (and the frozen internal nodes and catalog) satisfies the catalog
  invariant for that mixture of versions - the tree invariant only looks at offsets, links and key
  lists, and the key list of a leaf other than the last never changes.
-/
set_option autoImplicit false
namespace Mkdb.Store
open Mkdb.Page Mkdb.Tuple Mkdb.Generated Mkdb.Tree Mkdb.Engine

section
variable {pt sch : Levels} {D0 : List (Bytes × Levels)} {nf K : Nat} {log : List WalRec} {c : Nat → Pages}

/-- **The replay of the whole log over a data file of mixed page versions.**  `r0` holds the catalog
with, at each leaf offset `o`, the page as of moment `k o` of the history (clean).  After `i` records the
store holds the pages `mixAt c k ρ i`; no replay step fails. -/
theorem torn_replay (H : Hist pt sch D0 nf K log c) (hself : PtSelf pt) (k : Nat → Nat)
    (hk : ∀ o, k o ≤ log.length) (r0 : Store)
    (hcat0 : Cat r0 pt sch (fillT (mixAt c k (fun _ => false) 0) D0)) (hnf0 : r0.hdr.nextFree = nf) :
    ∀ i, i ≤ log.length → ∃ r ρ, replayAll (log.take i) r0 = (r, none, false) ∧
      Cat r pt sch (fillT (mixAt c k ρ i) D0) ∧ r.hdr.nextFree = nf ∧ (∀ o, ρ o = true → k o ≤ i) ∧
      (∀ o, ρ o = false → k o ≤ i → (c i o).1 = (c (k o) o).1) := by
  intro i
  induction i with
  | zero =>
    intro _
    refine ⟨r0, fun _ => false, rfl, hcat0, hnf0, fun o h => (by cases h), ?_⟩
    intro o _ h0
    have : k o = 0 := by omega
    rw [this]
  | succ i ih =>
    intro hi
    obtain ⟨r, ρ, e, hc, hn, h1, h2⟩ := ih (by omega)
    obtain ⟨r', ρ', e', hc', hn', h1', h2'⟩ := torn_step H hself k hk ρ (i := i) (by omega) r hc hn h1 h2
    refine ⟨r', ρ', ?_, hc', hn', h1', h2'⟩
    rw [List.take_succ_eq_append_getElem (by omega), replayAll_append e, replayAll_cons_ok' e']
    rfl

/-- at the end every page is the live one -/
theorem mixAt_end {k : Nat → Nat} (hk : ∀ o, k o ≤ log.length) (ρ : Nat → Bool) :
    mixAt c k ρ log.length = fun o => ((c log.length o).1, ρ o) := by
  funext o
  exact mixAt_cur (hk o)

/-! ### the data file the replay starts from -/

/-- the data file: the page at offset `o` as of moment `k o`, clean -/
def img (c : Nat → Pages) (k : Nat → Nat) : Pages := fun o => ((c (k o) o).1, false)

theorem mixAt_zero (k : Nat → Nat) : mixAt c k (fun _ => false) 0 = img c k := by
  funext o
  unfold mixAt img
  split
  · rfl
  · have : k o = 0 := by omega
    rw [this]

theorem skelL_eq_of {p q : Leaf × Bool} (h1 : hdr5 p.1 = hdr5 q.1) (h2 : keysOf p = keysOf q) : skelL p = skelL q := by
  unfold hdr5 at h1
  unfold keysOf at h2
  simp only [Prod.mk.injEq] at h1
  obtain ⟨a1, a2, a3, a4, a5⟩ := h1
  unfold skelL
  rw [a1, a2, a3, a4, a5, h2]

theorem Hist.img_filed (H : Hist pt sch D0 nf K log c) (k : Nat → Nat) (hk : ∀ o, k o ≤ log.length) :
    ∀ e ∈ D0, PFiled (img c k) e.2 := fun e he p hp => H.filed _ (hk _) e he p hp

/-- the tree of mixed page versions satisfies the tree invariant -/
theorem Hist.inv_img (H : Hist pt sch D0 nf K log c) (k : Nat → Nat) (hk : ∀ o, k o ≤ log.length)
    {table : Bytes} {t0 : Levels} (ht : (table, t0) ∈ D0) : Inv (fill (img c k) t0) nf := by
  rcases eq_nil_or_snoc t0.leaves with h0 | ⟨pre, p0, hl⟩
  · have : fill (img c k) t0 = fill (c 0) t0 := by
      apply fill_congr
      intro o ho
      unfold leafOffs at ho
      rw [h0] at ho
      cases ho
    rw [this]
    exact H.inv_at (Nat.zero_le _) ht
  · apply inv_fill_congr (H.inv_at (hk p0.1.off) ht)
    intro o ho
    obtain ⟨p, hp, rfl⟩ := List.mem_map.mp ho
    show skelL (c (k p.1.off) p.1.off) = skelL (c (k p0.1.off) p.1.off)
    apply skelL_eq_of
    · have e1 := (H.ev (Nat.zero_le (k p.1.off)) (hk _) p.1.off).hdr
      have e2 := (H.ev (Nat.zero_le (k p0.1.off)) (hk _) p.1.off).hdr
      rw [e1, e2]
    · rw [hl] at hp
      rcases List.mem_append.mp hp with hp | hp
      · exact H.keys_const (hk _) (hk _) ht hl hp
      · have : p = p0 := by simpa using hp
        rw [this]

/-- no key in it is beyond `K` -/
theorem Hist.keys_img_le (H : Hist pt sch D0 nf K log c) (k : Nat → Nat) (hk : ∀ o, k o ≤ log.length)
    {table : Bytes} {t0 : Levels} (ht : (table, t0) ∈ D0) : ∀ a ∈ keys (fill (img c k) t0), a ≤ K := by
  intro a ha
  obtain ⟨x, hx, rfl⟩ := List.mem_map.mp ha
  obtain ⟨q, hq, hxq⟩ := List.mem_flatMap.mp hx
  obtain ⟨o, ho, rfl⟩ := mem_fill_leaves hq
  obtain ⟨s, hc, _, hK⟩ := H.snap (k o) (hk o)
  have hmem : x ∈ cells (fill (c (k o)) t0) :=
    leaf_cells_sub (l := (c (k o) o).1) (d := (c (k o) o).2) (fill_leaf_mem ho) x hxq
  have := (hc.tree _ (Cat.tb_mem (mem_fillT (c := c (k o)) ht))).2.2.2.2 x.key (List.mem_map.mpr ⟨x, hmem, rfl⟩)
  exact Nat.le_trans this hK

theorem catTrees_offs_fillT {c : Pages} (hf : ∀ e ∈ D0, PFiled c e.2) :
    (catTrees pt sch (fillT c D0)).map offs = offs pt :: offs sch :: D0.map (fun e => offs e.2) := by
  unfold catTrees fillT
  simp only [List.map_cons, List.map_map]
  congr 2
  apply List.map_congr_left
  intro e he
  exact offs_fill (hf e he)

/-- **A store showing the mixed page versions holds the catalog with them.** -/
theorem cat_of_image (H : Hist pt sch D0 nf K log c) (k : Nat → Nat) (hk : ∀ o, k o ≤ log.length) (r : Store)
    (hpt : Holds r pt) (hsch : Holds r sch) (htb : ∀ e ∈ D0, Holds r (fill (img c k) e.2))
    (hnf : r.hdr.nextFree = nf) (hpr : rootOff pt = r.hdr.ptRoot) (hK : K ≤ r.hdr.lastKey) :
    Cat r pt sch (fillT (img c k) D0) := by
  obtain ⟨s0, hc0, hn0, hk0⟩ := H.snap 0 (Nat.zero_le _)
  have hfi := H.img_filed k hk
  have hf0 := H.filed 0 (Nat.zero_le _)
  refine { tree := ?_, disj := ?_, root := hpr, dec := hc0.dec, names := hc0.names, esch := hc0.esch,
           etb := ?_, only := ?_, tnames := ?_, tsys := ?_, tlen := ?_ }
  · intro x hx
    rcases mem_catTrees.mp hx with rfl | rfl | ⟨e, he, rfl⟩
    · obtain ⟨_, b, c', d, e⟩ := hc0.tree x Cat.pt_mem
      exact ⟨hpt, by rw [hnf, ← hn0]; exact b, c', d, fun a ha => Nat.le_trans (e a ha) (Nat.le_trans hk0 hK)⟩
    · obtain ⟨_, b, c', d, e⟩ := hc0.tree x Cat.sch_mem
      exact ⟨hsch, by rw [hnf, ← hn0]; exact b, c', d, fun a ha => Nat.le_trans (e a ha) (Nat.le_trans hk0 hK)⟩
    · obtain ⟨e0, he0, rfl⟩ := mem_fillT_inv he
      obtain ⟨_, _, c', d, _⟩ := hc0.tree _ (Cat.tb_mem (mem_fillT (c := c 0) he0))
      refine ⟨htb e0 he0, by rw [hnf]; exact H.inv_img k hk he0, c', ?_, ?_⟩
      · simp only [fill_leaves_length] at d ⊢
        exact d
      · intro a ha
        exact Nat.le_trans (H.keys_img_le k hk he0 a ha) hK
  · rw [catTrees_offs_fillT hfi, ← catTrees_offs_fillT hf0]
    exact hc0.disj
  · intro e he
    obtain ⟨e0, he0, rfl⟩ := mem_fillT_inv he
    have := hc0.etb _ (mem_fillT (c := c 0) he0)
    simp only [rootOff_fill (hf0 _ he0), rootOff_fill (hfi _ he0)] at this ⊢
    exact this
  · intro e he
    have := hc0.only e he
    rw [fillT_names] at this ⊢
    exact this
  · have := hc0.tnames
    rw [fillT_names] at this ⊢
    exact this
  · have := hc0.tsys
    rw [fillT_names] at this ⊢
    exact this
  · intro e he
    obtain ⟨e0, he0, rfl⟩ := mem_fillT_inv he
    exact hc0.tlen (e0.1, fill (c 0) e0.2) (mem_fillT (c := c 0) he0)

end

end Mkdb.Store
