import Lean.Meta.Tactic.Simp.RegisterCommand
/-! The simp set `sz_simp`: unfolding rules for the size and depth measures of `SizeBound2.lean`. -/

/-- unfolding rules for the size and depth measures on the SQL AST -/
register_simp_attr sz_simp
