import Mkdb.Proofs.SessionCrash2
/-!
Sessions and crashes, part 3: **histories with crashes**, the computed example, and the counterexample
that shows why the crash invariant is needed.

* `CrashHist s w`: the session `s` is reached from the empty session by CREATE DATABASE, USE, statements
  that leave the session as it is (SELECT, SHOW DATABASES, anything with no database selected), accepted
  INSERT / UPDATE / DELETE, accepted CREATE TABLE on a checkpointed selected database, `restart` and
  `crashRestart`; `w` are the plain databases of the acknowledged statements.
* `crashHist_sessCrash`: every such session satisfies the crash invariant for `w`.
* `sessCrash_sessT`, `crash_example`: CREATE DATABASE d; USE d; CREATE TABLE t (a INT); INSERT INTO t VALUES
  (5); crash; USE d: the row is read back (computed).
* `crash_loses_unlogged_rows`: INSERT INTO t VALUES (5), ('x') is refused at its second row; the first row
  stays in the cache (the known finding of C14), a reader sees it, `restart` (which flushes) keeps it,
  `crashRestart` loses it - and with it an acknowledged UPDATE of that row.  So `SessAbs s w` alone does
  NOT imply that `crashRestart` preserves `w`.
-/
set_option autoImplicit false
namespace Mkdb.Session
open Mkdb.Engine Mkdb.Sql Mkdb.Tree
open Mkdb.Store hiding Stmt

/-- **Histories of statements, restarts and crashes** with the plain databases of the acknowledged
statements. -/
inductive CrashHist : Sess → (String → Spec.SDB) → Prop
  | empty : CrashHist {} (fun _ => [])
  | createOk {s : Sess} {w : String → Spec.SDB} (h : CrashHist s w) (name : Bytes)
      (hok : (exec s (.createDatabase name)).2 = Out.ok) :
      CrashHist (exec s (.createDatabase name)).1 (setW w (canon name) [])
  | createRefused {s : Sess} {w : String → Spec.SDB} (h : CrashHist s w) (name : Bytes)
      (hne : (exec s (.createDatabase name)).2 ≠ Out.ok) : CrashHist (exec s (.createDatabase name)).1 w
  | use {s : Sess} {w : String → Spec.SDB} (h : CrashHist s w) (name : Bytes) : CrashHist (exec s (.use name)).1 w
  | same {s : Sess} {w : String → Spec.SDB} (h : CrashHist s w) (st : Stmt) (hs : (exec s st).1 = s) :
      CrashHist (exec s st).1 w
  | accepted {s : Sess} {w : String → Spec.SDB} (h : CrashHist s w) (n : String) (hc : s.cur = some n)
      (db : DB) (hg : getDB s n = some db) (st : Stmt)
      (hk : (∃ t c r, st = .insert t c r) ∨ (∃ t a c, st = .update t a c) ∨ (∃ t c, st = .delete t c))
      (hroom : ∀ pt sch tbls, DbInv db (w n) pt sch tbls → StmtRoom db pt sch tbls st)
      (sdb' : Spec.SDB) (hspec : Spec.specStmt (w n) st = some sdb') : CrashHist (exec s st).1 (setW w n sdb')
  | createTable {s : Sess} {w : String → Spec.SDB} (h : CrashHist s w) (n : String) (hc : s.cur = some n)
      (db : DB) (hg : getDB s n = some db) (hck : CkptNS db (w n)) (t : Bytes) (cols : List ColDef)
      (hroom : ∀ pt sch tbls, DbInv db (w n) pt sch tbls → StmtRoom db pt sch tbls (.createTable t cols))
      (sdb' : Spec.SDB) (hspec : Spec.specStmt (w n) (.createTable t cols) = some sdb') :
      CrashHist (exec s (.createTable t cols)).1 (setW w n sdb')
  | restart {s s' : Sess} {w : String → Spec.SDB} (h : CrashHist s w) (e : restart s = some s') : CrashHist s' w
  | crash {s s' : Sess} {w : String → Spec.SDB} (h : CrashHist s w) (e : crashRestart s = some s') : CrashHist s' w

/-- **Every history with crashes keeps the crash invariant**, for the plain databases of the acknowledged
statements. -/
theorem crashHist_sessCrash {s : Sess} {w : String → Spec.SDB} (h : CrashHist s w) : SessCrash s w := by
  induction h with
  | empty => exact sessCrash_empty _
  | createOk _ name hok ih =>
    obtain ⟨w', h1, _, h3, _⟩ := createDatabase_sessCrash ih name
    rw [← h3 hok]; exact h1
  | createRefused _ name hne ih =>
    obtain ⟨w', h1, _, _, h4⟩ := createDatabase_sessCrash ih name
    rw [← h4 hne]; exact h1
  | use _ name ih => exact use_sessCrash ih name
  | same _ st hs ih => exact same_sessCrash ih st hs
  | accepted _ n hc db hg st hk hroom sdb' hspec ih => exact (accepted_sessCrash ih n hc db hg st hk hroom sdb' hspec).2
  | createTable _ n hc db hg hck t cols hroom sdb' hspec ih =>
    exact (createTable_sessCrash ih n hc db hg hck t cols hroom sdb' hspec).2.1
  | restart _ e ih =>
    obtain ⟨s2, e2, h2, _⟩ := restart_sessCrash ih
    rw [e] at e2; cases e2; exact h2
  | crash _ e ih =>
    obtain ⟨s2, e2, h2, _⟩ := crashRestart_sessCrash ih
    rw [e] at e2; cases e2; exact h2

/-- in such a history no recovery fails: a crash (and a restart) at its end succeeds and keeps the names -/
theorem crashHist_recovers {s : Sess} {w : String → Spec.SDB} (h : CrashHist s w) :
    (∃ s', crashRestart s = some s' ∧ CrashHist s' w ∧ names s' = names s ∧ s'.cur = none) ∧
    (∃ s', Session.restart s = some s' ∧ CrashHist s' w ∧ names s' = names s ∧ s'.cur = none) := by
  obtain ⟨s1, e1, _, n1, c1, _⟩ := crashRestart_sessCrash (crashHist_sessCrash h)
  obtain ⟨s2, e2, _, n2, c2, _⟩ := restart_sessCrash (crashHist_sessCrash h)
  exact ⟨⟨s1, e1, .crash h e1, n1, c1⟩, ⟨s2, e2, .restart h e2, n2, c2⟩⟩

/-! ### the computed example -/

/-- the session after CREATE DATABASE d; USE d; CREATE TABLE t (a INT) satisfies the crash invariant -/
theorem sessCrash_sessT : SessCrash sessT (fun _ => sdbA0) := by
  refine ⟨sessAbs_sessT, fun p hp => ?_⟩
  simp only [sessT, List.mem_singleton] at hp
  subst hp
  exact CkptNS.dbCrash ⟨schT, ptT, _, ckpt_tableDB, noStale_tableDB⟩

/-- the rows a reader sees in table `t` of the database `n` -/
def rowsOf (s : Sess) (n : String) : Option (List Exec.Row) :=
  (getDB s n).bind fun db => (fetchOfDB db tname).map (·.rows)

/-- CREATE DATABASE d; USE d; CREATE TABLE t (a INT); INSERT INTO t VALUES (5) -/
def crashHistory : List Stmt :=
  [.createDatabase [100], .use [100], .createTable tname acols, .insert tname [] [[.int 5]]]

def allOk : List Out → Bool
  | [] => true
  | .ok :: rest => allOk rest
  | _ => false

set_option maxRecDepth 100000 in
/-- **The computed example**: all four statements are accepted; the process dies with no page of `d`
flushed since CREATE TABLE; start-up recovery succeeds; after USE d a reader sees the row `(5)`. -/
theorem crash_example :
    allOk (runAll {} crashHistory).2 = true ∧
    ((crashRestart (runAll {} crashHistory).1).map fun s' => rowsOf (exec s' (.use [100])).1 "d")
      = some (some [[.int 5]]) := by decide +kernel

/-- the same history with a last statement refused at its SECOND row: INSERT INTO t VALUES (5), ('x') -/
def ghostHistory : List Stmt :=
  [.createDatabase [100], .use [100], .createTable tname acols, .insert tname [] [[.int 5], [.str [120]]]]

/-- … followed by the accepted UPDATE t SET a = 7 WHERE a = 5 -/
def ghostUpdate : Stmt := .update tname [([97], .lit (.int 7))] (some (condEq 5))

set_option maxRecDepth 100000 in
/-- **A crash loses rows that a refused statement left in the cache, and acknowledged changes of them.**
The INSERT is refused at its second row (type mismatch) and writes no log record, but its first row stays
in the cache (C14): a reader sees `(5)`; `restart`, which flushes, makes it durable; `crashRestart` loses
it.  The UPDATE of that row is ACCEPTED and logged; a reader sees `(7)`; after a crash recovery succeeds
and the table is empty - the acknowledged UPDATE is gone with the row. -/
theorem crash_loses_unlogged_rows :
    rowsOf (runAll {} ghostHistory).1 "d" = some [[.int 5]] ∧
    (Session.restart (runAll {} ghostHistory).1).map (rowsOf · "d") = some (some [[.int 5]]) ∧
    (crashRestart (runAll {} ghostHistory).1).map (rowsOf · "d") = some (some []) ∧
    allOk [(exec (runAll {} ghostHistory).1 ghostUpdate).2] = true ∧
    rowsOf (exec (runAll {} ghostHistory).1 ghostUpdate).1 "d" = some [[.int 7]] ∧
    (crashRestart (exec (runAll {} ghostHistory).1 ghostUpdate).1).map (rowsOf · "d") = some (some []) := by
  decide +kernel

end Mkdb.Session
