import Mkdb.Proofs.SizeBound2
/-!
C09 "never exhausts memory", part 6: the scanner.  Every function of the scanner model returns
a suffix of its input, every token is made of runes no other token uses, so the number of
tokens is at most the number of runes and their text at most the bytes of the runes (plus the
two bytes of the ILLEGAL token that stands for an unterminated comment).
-/
namespace Mkdb.Scan
open Mkdb.Generated Mkdb.Sql

/-- total source bytes of a rune list -/
def inBytes (l : Input) : Nat := (textOf l).length

theorem inBytes_nil : inBytes [] = 0 := rfl

theorem inBytes_cons (r : Rune) (l : Input) : inBytes (r :: l) = r.bytes.length + inBytes l := by
  simp [inBytes, textOf]

theorem inBytes_append (a b : Input) : inBytes (a ++ b) = inBytes a + inBytes b := by
  simp [inBytes, textOf]

theorem inBytes_suffix {a b : Input} (h : a <:+ b) : inBytes a ≤ inBytes b := by
  obtain ⟨p, rfl⟩ := h
  rw [inBytes_append]; omega

theorem take_append_of_suffix {rest l : Input} (h : rest <:+ l) :
    l.take (l.length - rest.length) ++ rest = l := by
  obtain ⟨p, rfl⟩ := h
  simp

theorem skipWs_suffix (l : Input) : skipWs l <:+ l := by
  induction l with
  | nil => simp [skipWs]
  | cons r rest ih =>
    unfold skipWs; split
    · exact List.IsSuffix.trans ih (List.suffix_cons _ _)
    · exact List.suffix_refl _

theorem scanIdentTail_suffix (l : Input) : scanIdentTail l <:+ l := by
  induction l with
  | nil => simp [scanIdentTail]
  | cons r rest ih =>
    unfold scanIdentTail; split
    · exact List.IsSuffix.trans ih (List.suffix_cons _ _)
    · exact List.suffix_refl _

theorem digits_suffix (hex : Bool) (l : Input) : digits hex l <:+ l := by
  induction l with
  | nil => simp [digits]
  | cons r rest ih =>
    unfold digits
    repeat' split
    all_goals first
      | exact List.IsSuffix.trans ih (List.suffix_cons _ _)
      | exact List.suffix_refl _

theorem scanRawBody_suffix (l : Input) : scanRawBody l <:+ l := by
  induction l with
  | nil => simp [scanRawBody]
  | cons r rest ih =>
    unfold scanRawBody; split
    · exact List.suffix_refl _
    · exact List.IsSuffix.trans ih (List.suffix_cons _ _)

theorem lineComment_suffix (l : Input) : lineComment l <:+ l := by
  induction l with
  | nil => simp [lineComment]
  | cons r rest ih =>
    unfold lineComment; split
    · exact List.suffix_refl _
    · exact List.IsSuffix.trans ih (List.suffix_cons _ _)

theorem blockComment_suffix (l : Input) : ∀ b r', blockComment b l = some r' → r' <:+ l := by
  induction l with
  | nil => intro b r' h; simp [blockComment] at h
  | cons r rest ih =>
    intro b r' h
    unfold blockComment at h
    split at h
    · cases h; exact List.suffix_cons _ _
    · exact List.IsSuffix.trans (ih _ _ h) (List.suffix_cons _ _)

theorem scanStringBody_suffix (q : Nat) (l : Input) : ∀ s, (scanStringBody q s l).2 <:+ l := by
  induction l with
  | nil => intro s; cases s <;> simp [scanStringBody]
  | cons r rest ih =>
    intro s
    have h1 := List.IsSuffix.trans (ih .normal) (List.suffix_cons r rest)
    have h2 := List.IsSuffix.trans (ih .afterBackslash) (List.suffix_cons r rest)
    have h3 := fun n b => List.IsSuffix.trans (ih (.escDigits n b)) (List.suffix_cons r rest)
    cases s <;> simp only [scanStringBody] <;> (repeat' split) <;>
      first
      | exact List.suffix_refl _
      | exact h1
      | exact h2
      | exact h3 _ _

theorem tail_suffix_of_suffix {a b : Input} (h : a <:+ b) : a.tail <:+ b :=
  List.IsSuffix.trans (List.tail_suffix a) h

/-- the optional sign and the digits of an exponent -/
theorem expo_suffix (rest : Input) :
    digits false (match rest with
      | s :: rest' => if s.code == 43 || s.code == 45 then rest' else rest
      | [] => rest) <:+ rest := by
  refine List.IsSuffix.trans (digits_suffix _ _) ?_
  split
  · split
    · exact List.suffix_cons _ _
    · exact List.suffix_refl _
  · exact List.suffix_refl _

/-- the radix prefix `0x` / `0o` / `0b` of `scanNumber` (copied from the model) -/
def numPrefix (l : Input) : Bool × Input :=
  match l with
  | z :: rest =>
    if z.code == 48 then
      match rest with
      | p :: rest' =>
        if lower p.code == 120 then (true, rest')
        else if lower p.code == 111 then (false, rest')
        else if lower p.code == 98 then (false, rest')
        else (false, rest)
      | [] => (false, rest)
    else (false, l)
  | [] => (false, l)

/-- what `scanNumber` does behind the radix prefix (copied from the model) -/
def numTail (hex : Bool) (l0 : Input) : Bool × Input :=
  let l1 := digits hex l0
  let (isF1, l2) : Bool × Input :=
    match l1 with
    | d :: rest => if d.code == 46 then (true, digits hex rest) else (false, l1)
    | [] => (false, l1)
  match l2 with
  | r :: rest =>
    if lower r.code == 101 || lower r.code == 112 then
      let l3 := match rest with
        | s :: rest' => if s.code == 43 || s.code == 45 then rest' else rest
        | [] => rest
      (true, digits false l3)
    else (isF1, l2)
  | [] => (isF1, l2)

theorem scanNumber_false (l : Input) :
    scanNumber l false = numTail (numPrefix l).1 (numPrefix l).2 := rfl

theorem numPrefix_suffix (l : Input) : (numPrefix l).2 <:+ l := by
  unfold numPrefix
  repeat' split
  all_goals first
    | exact List.suffix_refl _
    | exact List.suffix_cons _ _
    | exact List.IsSuffix.trans (List.suffix_cons _ _) (List.suffix_cons _ _)

theorem numMid_suffix (hex : Bool) (l1 : Input) :
    (match l1 with
      | d :: rest => if d.code == 46 then (true, digits hex rest) else (false, l1)
      | [] => ((false, l1) : Bool × Input)).2 <:+ l1 := by
  split
  · split
    · exact List.IsSuffix.trans (digits_suffix _ _) (List.suffix_cons _ _)
    · exact List.suffix_refl _
  · exact List.suffix_refl _

theorem numEnd_suffix (isF1 : Bool) (l2 : Input) :
    (match l2 with
      | r :: rest =>
        if lower r.code == 101 || lower r.code == 112 then
          let l3 := match rest with
            | s :: rest' => if s.code == 43 || s.code == 45 then rest' else rest
            | [] => rest
          (true, digits false l3)
        else (isF1, l2)
      | [] => ((isF1, l2) : Bool × Input)).2 <:+ l2 := by
  split
  · split
    · exact List.IsSuffix.trans (expo_suffix _) (List.suffix_cons _ _)
    · exact List.suffix_refl _
  · exact List.suffix_refl _

theorem numTail_suffix (hex : Bool) (l0 : Input) : (numTail hex l0).2 <:+ l0 := by
  unfold numTail
  exact List.IsSuffix.trans (numEnd_suffix _ _)
    (List.IsSuffix.trans (numMid_suffix hex (digits hex l0)) (digits_suffix hex l0))

theorem scanNumber_suffix (l : Input) (b : Bool) : (scanNumber l b).2 <:+ l := by
  cases b with
  | false =>
    rw [scanNumber_false]
    exact List.IsSuffix.trans (numTail_suffix _ _) (numPrefix_suffix l)
  | true =>
    unfold scanNumber
    have hd := digits_suffix false l
    simp only [↓reduceIte]
    split
    · rename_i r rest heq
      split
      · refine List.IsSuffix.trans (expo_suffix rest) ?_
        exact List.IsSuffix.trans (List.suffix_cons r rest) (heq ▸ hd)
      · exact hd
    · exact hd

/-- the token's runes followed by the remaining input are a suffix of the input -/
def TokSuf (l : Input) (o : Option (Kind × Input × Input)) : Prop :=
  ∀ k rs rest, o = some (k, rs, rest) → rs ++ rest <:+ l

theorem TokSuf.ite {l : Input} {c : Prop} [Decidable c] {a b : Option (Kind × Input × Input)}
    (ha : c → TokSuf l a) (hb : ¬c → TokSuf l b) : TokSuf l (if c then a else b) := by
  split
  · exact ha ‹_›
  · exact hb ‹_›

theorem TokSuf.done {l0 l rest : Input} {k : Kind} (hl : l <:+ l0) (h : rest <:+ l) :
    TokSuf l0 (some (k, l.take (l.length - rest.length), rest)) := by
  intro k' rs rest' e
  cases e
  rw [take_append_of_suffix h]; exact hl

theorem TokSuf.nil {l0 : Input} {k : Kind} : TokSuf l0 (some (k, [], [])) := by
  intro k' rs rest' e
  cases e
  exact List.nil_suffix

theorem scanTok_suffix : ∀ fuel (l : Input), TokSuf l (scanTok fuel l) := by
  intro fuel
  induction fuel with
  | zero => intro l k rs rest h; simp [scanTok] at h
  | succ fuel ih =>
    intro l0
    unfold scanTok
    simp only []
    have hw := skipWs_suffix l0
    have hrec : ∀ X : Input, X <:+ skipWs l0 → TokSuf l0 (scanTok fuel X) := by
      intro X hX k rs rest e
      exact List.IsSuffix.trans (ih X k rs rest e) (List.IsSuffix.trans hX hw)
    cases hl : skipWs l0 with
    | nil => exact TokSuf.nil
    | cons r rest =>
      rw [hl] at hw hrec
      simp only []
      have hc : rest <:+ r :: rest := List.suffix_cons r rest
      have e1 := List.IsSuffix.trans (scanIdentTail_suffix rest) hc
      have e2 := scanNumber_suffix (r :: rest) false
      have e3 := List.IsSuffix.trans (tail_suffix_of_suffix (scanStringBody_suffix 34 rest .normal)) hc
      have e4 := List.IsSuffix.trans (tail_suffix_of_suffix (scanStringBody_suffix 39 rest .normal)) hc
      have e5 := List.IsSuffix.trans (tail_suffix_of_suffix (scanRawBody_suffix rest)) hc
      clear ih hl
      refine TokSuf.ite (fun _ => TokSuf.done hw e1) fun _ => ?_
      refine TokSuf.ite (fun _ => TokSuf.done hw e2) fun _ => ?_
      refine TokSuf.ite (fun _ => TokSuf.done hw e3) fun _ => ?_
      refine TokSuf.ite (fun _ => TokSuf.done hw e4) fun _ => ?_
      refine TokSuf.ite (fun _ => ?_) fun _ => ?_
      · cases rest with
        | nil => exact TokSuf.done hw hc
        | cons d tl =>
          have e6 := List.IsSuffix.trans (scanNumber_suffix (d :: tl) true) hc
          exact TokSuf.ite (fun _ => TokSuf.done hw e6) (fun _ => TokSuf.done hw hc)
      refine TokSuf.ite (fun _ => ?_) fun _ => ?_
      · cases rest with
        | nil => exact TokSuf.done hw hc
        | cons c rest' =>
          have hcc : rest' <:+ r :: c :: rest' :=
            List.IsSuffix.trans (List.suffix_cons c rest') hc
          refine TokSuf.ite (fun _ => hrec _ ?_) fun _ => TokSuf.ite (fun _ => ?_) fun _ => ?_
          · exact List.IsSuffix.trans (lineComment_suffix rest') hcc
          · cases hb : blockComment false rest' with
            | none => exact TokSuf.nil
            | some r'' =>
              exact hrec _ (List.IsSuffix.trans (blockComment_suffix rest' false r'' hb) hcc)
          · exact TokSuf.done hw hc
      exact TokSuf.ite (fun _ => TokSuf.done hw e5) (fun _ => TokSuf.done hw hc)

/-- The runes of a token and the remaining input together carry no more bytes than the input. -/
theorem scanTok_bytes (fuel : Nat) (l : Input) (k : Kind) (rs rest : Input)
    (h : scanTok fuel l = some (k, rs, rest)) : inBytes rs + inBytes rest ≤ inBytes l := by
  have := inBytes_suffix (scanTok_suffix fuel l k rs rest h)
  rw [inBytes_append] at this
  exact this

theorem stripQuotes_length (b t : Bytes) (h : stripQuotes b = some t) : t.length ≤ b.length := by
  unfold stripQuotes at h
  split at h
  · cases h
  · split at h
    · cases h
    · simp only [] at h
      split at h
      · cases h
      · cases h
        simp only [List.length_take, List.length_drop]; omega

theorem textBytes_cons (t : Token) (ts : List Token) :
    textBytes (t :: ts) = t.text.length + textBytes ts := rfl

theorem textBytes_reverse (ts : List Token) : textBytes ts.reverse = textBytes ts := by
  induction ts with
  | nil => rfl
  | cons t ts ih =>
    simp only [List.reverse_cons, textBytes, wsum_append, wsum] at *
    omega

theorem textOf_length (rs : Input) : (textOf rs).length = inBytes rs := rfl

/-- Invariant of the token loop: tokens so far plus runes left bound the final token count, and
text so far plus bytes left (plus 2 for the ILLEGAL token of an open comment) the final text. -/
theorem scanAll_bounds : ∀ fuel (l : Input) (acc : List Token) (ts : List Token), l.length + 1 ≤ fuel →
    scanAll fuel l acc = .ok ts →
    ts.length ≤ acc.length + l.length ∧ textBytes ts ≤ textBytes acc + inBytes l + 2 := by
  intro fuel
  induction fuel with
  | zero => intro l acc ts h; omega
  | succ fuel ih =>
    intro l acc ts h
    unfold scanAll
    obtain ⟨k, rs, rest, he, h1, h2⟩ := scanTok_spec (fuel + 1) l (by omega)
    obtain ⟨k2, rs2, r2, he2, h12, _⟩ := scanTok_spec (fuel + 1) rest (by omega)
    have hb := scanTok_bytes _ _ _ _ _ he
    have hb2 := scanTok_bytes _ _ _ _ _ he2
    have hlen := textOf_length rs
    rw [he]
    cases k <;> simp only [he2] <;> (repeat' split)
    all_goals first
      | (intro hh; cases hh
         simp only [List.length_reverse, List.length_cons, textBytes_reverse, textBytes_cons,
           List.length_nil] at *
         omega)
      | (intro hh; cases hh
         have h3 := h2 (by intro hh; cases hh)
         simp only [List.length_reverse, List.length_cons, textBytes_reverse, textBytes_cons,
           List.length_nil] at *
         omega)
      | (intro hh
         have h3 := h2 (by intro hh; cases hh)
         have h4 := ih _ _ _ (by omega) hh
         simp only [List.length_cons, textBytes_cons] at *
         first
           | omega
           | (have h5 := stripQuotes_length _ _ ‹_›; omega))

theorem dropBOM_suffix (l : Input) : dropBOM l <:+ l := by
  unfold dropBOM
  split
  · split
    · exact List.suffix_cons _ _
    · exact List.suffix_refl _
  · exact List.suffix_refl _

/-- The scanner returns at most one token per input rune. -/
theorem scanSQL_count (input : Input) (ts : List Token) (h : scanSQL input = .ok ts) :
    ts.length ≤ input.length := by
  unfold scanSQL at h
  have hl := dropBOM_length input
  have := (scanAll_bounds _ _ _ _ (by omega) h).1
  simp only [List.length_nil] at this
  omega

/-- The text of all tokens is at most the source bytes of all runes, plus 2. -/
theorem scanSQL_text (input : Input) (ts : List Token) (h : scanSQL input = .ok ts) :
    textBytes ts ≤ inBytes input + 2 := by
  unfold scanSQL at h
  have hl := dropBOM_length input
  have hs := inBytes_suffix (dropBOM_suffix input)
  have := (scanAll_bounds _ _ _ _ (by omega) h).2
  have e : textBytes [] = 0 := rfl
  omega

end Mkdb.Scan
