import Mkdb.Proofs.CsvEngine1
/-!
CSV import on the engine model, part 2: **the import loop on the engine model**.

* `DbInv.insert_accepted`, `DbInv.insert_refused`: `DbInv.accepted` / `DbInv.refused` for
  `Engine.evalInsert` on VALUES (`Tuple.Val`, NULL included - the importer hands `EvaluateInsert` Go values,
  not SQL text; a parsed statement has no NULL literal).
* `recordVals`: the part of `Csv.importRecord` before the INSERT (the values handed to `EvaluateInsert`).
* `importOnDb`: the loop of `doBatchInsert` on the engine model.
* `ImportRoom`: the side conditions of the INSERT theorems along the loop (as `HistOK` for histories).
-/
set_option autoImplicit false
namespace Mkdb.Store
open Mkdb.Page Mkdb.Tuple Mkdb.Generated Mkdb.Tree Mkdb.Engine

/-- **An INSERT of values the plain model accepts keeps the invariant, for the plain model's result**
(`DbInv.accepted` for `Engine.evalInsert` on values, NULL included). -/
theorem DbInv.insert_accepted {db : Engine.DB} {sdb : Spec.SDB} {pt sch : Levels} {tbls : List (Bytes × Levels)}
    (h : DbInv db sdb pt sch tbls) (t : Bytes) (cols : List Bytes) (rows : List (List Val))
    (hvalid : ∀ r ∈ rows, ∀ v ∈ r, ValidVal v)
    (hrun : ∀ tr schema, (t, tr) ∈ tbls → schemaOf sch t = some schema →
      InsRunOK schema (cols.map Engine.bytesToName) tr db.store.hdr.lastKey db.store.hdr.nextLSN
        db.store.hdr.nextFree rows)
    (sdb' : Spec.SDB) (hspec : Spec.specInsert sdb t cols rows = some sdb') :
    ∃ db' pt' tbls', Engine.evalInsert db t cols rows = .ok rows.length db' ∧ DbInv db' sdb' pt' sch tbls' := by
  obtain ⟨sdb0, habs0, hv⟩ := h.abs
  obtain ⟨sdb0', hspec0, hv'⟩ := specInsert_congr hv t cols _ hspec
  obtain ⟨st0, hfind0⟩ : ∃ st, Spec.findTable sdb0 t = some st := by
    unfold Spec.specInsert at hspec0
    cases hf : Spec.findTable sdb0 t with
    | none => rw [hf] at hspec0; cases hspec0
    | some st => exact ⟨st, rfl⟩
  obtain ⟨tr, htr⟩ := habs0.tabs.find_some hfind0
  obtain ⟨schema, hsch, _, _⟩ := habs0.tabs.find habs0.cat.tnames htr
  obtain ⟨db', ptF, t', logs, sdb'', e, hw, hlive, habs', hvv⟩ := evalInsert_live db pt sch tbls sdb0 sdb0' habs0
    t tr htr schema hsch cols rows hvalid hspec0 (hrun tr schema htr hsch)
  refine ⟨db', ptF, setTable tbls t t', e, ?_⟩
  exact h.live_run hlive habs'.cat ⟨sdb'', habs', hvv.trans hv'⟩ (setTable_names tbls t t') (Nat.le_refl _)
    (Nat.le_refl _) (.inl hw) (evalInsert_disk e) ((evalInsert_filed db t cols _ h.filed).ok e)

/-- **An INSERT of values refused at its first row keeps the invariant, for the same plain database**
(`DbInv.refused` for `Engine.evalInsert` on values). -/
theorem DbInv.insert_refused {db : Engine.DB} {sdb : Spec.SDB} {pt sch : Levels} {tbls : List (Bytes × Levels)}
    (h : DbInv db sdb pt sch tbls) (t : Bytes) (cols : List Bytes) (r : List Val) (rest : List (List Val))
    (hbad : (Spec.findTable sdb t = none ∧ t ≠ sysPages ∧ t ≠ sysSchema) ∨
      ∃ st, Spec.findTable sdb t = some st ∧
        (Spec.rowOf st cols r = none ∨ Spec.namesOK st (cols.map Spec.nameStr) = false)) :
    Spec.specInsert sdb t cols (r :: rest) = none ∧
    ∃ e db', Engine.evalInsert db t cols (r :: rest) = .err (.store e) db' ∧ db'.wal = db.wal ∧
      DbInv db' sdb pt sch tbls := by
  obtain ⟨hnone, e, db', he, _, hw, habs'⟩ := evalInsert_refused_specV db pt sch tbls sdb h.abs t cols r rest hbad
  obtain ⟨e2, db2, he2, hlk⟩ := evalInsert_refused_key db pt sch tbls sdb h.abs t cols r rest hbad
  rw [he] at he2
  simp only [Engine.Res.err.injEq] at he2
  obtain ⟨_, rfl⟩ := he2
  have hdisk : DiskSame db.store db'.store := by
    have hd := evalInsert_go_disk db t cols db.store (r :: rest) db.store [] 0 (DiskSame.refl _)
    have he' : Engine.evalInsert.go db t cols db.store [] 0 (r :: rest) = .err (.store e) db' := he
    rw [he'] at hd
    exact hd
  have hmf' : MemFiled db'.store := (evalInsert_filed db t cols _ h.filed).err he
  refine ⟨hnone, e, db', he, hw, habs', h.nostale, hmf', by rw [hw]; exact h.log, ?_, ?_, ?_⟩
  · intro r hr
    rw [hw] at hr
    exact Nat.lt_of_lt_of_le (h.lsn r hr) hdisk.2.2
  · intro r hr hop
    rw [hw] at hr
    exact Nat.le_trans (h.keys r hr hop) hlk
  · intro x hx e he hdy
    rw [hdisk.1]; exact h.synced x hx e he hdy

end Mkdb.Store

namespace Mkdb.Csv
open Mkdb.Tuple Mkdb.Generated Mkdb.Store Mkdb.Tree

/-- the part of `importRecord` before the INSERT: the values `csvToSql` hands to `EvaluateInsert`;
`none` = the record is reported as malformed without reaching the engine -/
def recordVals (cfg : Cfg) (types : List DataType) : Option (List Bytes) → Option (List Val)
  | none => none
  | some r => if cfg.srcCols.foldl max 0 ≥ r.length then none else csvToSql types cfg.srcCols r

theorem importRecord_eq (cfg : Cfg) (types : List DataType) (r : Option (List Bytes)) :
    importRecord cfg types r = (recordVals cfg types r).bind (insertRow cfg.schema cfg.dstCols) := by
  cases r with
  | none => rfl
  | some rec =>
    simp only [importRecord, recordVals]
    split
    · rfl
    · cases csvToSql types cfg.srcCols rec <;> rfl

/-- every value `csvToSql` produces from fields a Go program can hold is a value a Go program can hold -/
theorem recordVals_valid {cfg : Cfg} {types : List DataType} {rec : List Bytes} {vals : List Val}
    (hfields : ∀ f ∈ rec, f.length < 2 ^ 32) (h : recordVals cfg types (some rec) = some vals) :
    ∀ v ∈ vals, ValidVal v := by
  simp only [recordVals] at h
  split at h
  · cases h
  · unfold csvToSql at h
    intro v hvm
    obtain ⟨⟨idx, ty⟩, _, hconv⟩ := mapM_some_mem h hvm
    simp only at hconv
    cases hr : rec[idx]? with
    | none => simp [hr] at hconv
    | some f =>
      simp only [hr] at hconv
      exact convField_valid (hfields f (List.mem_of_getElem? hr)) hconv

/-- **The import loop of `doBatchInsert` on the engine model.**  For each record: a record the CSV reader
rejects, one that lacks a source column, one `csvToSql` cannot convert is an error event and the loop
goes on; otherwise `engine.EvaluateInsert` runs a one-row INSERT of the converted VALUES (Go values, NULL
included - not SQL text) with the destination column list, and the loop goes on after its error as after
its success, with the database the call left.  Result: the database at the end and, per record, whether
an error event was sent (`true`); `none` = the engine crashed (panic, unmodelled path, hang). -/
def importOnDb (cfg : Cfg) (types : List DataType) (table : Bytes) :
    Engine.DB → List (Option (List Bytes)) → Option (Engine.DB × List Bool)
  | db, [] => some (db, [])
  | db, r :: rest =>
    match recordVals cfg types r with
    | none => (importOnDb cfg types table db rest).map fun p => (p.1, true :: p.2)
    | some vals =>
      match Engine.evalInsert db table (cfg.dstCols.map colBytes) [vals] with
      | .ok _ db' => (importOnDb cfg types table db' rest).map fun p => (p.1, false :: p.2)
      | .err _ db' => (importOnDb cfg types table db' rest).map fun p => (p.1, true :: p.2)
      | _ => none

/-- **The side conditions of the INSERT theorems along the import loop** (what `HistOK` is for histories
of statements): for every record that reaches the engine and that `Csv.insertRow` accepts, the fuel / size
room of a one-row INSERT (`InsRunOK`, the room part of `StmtRoom`) in the database reached at that point,
under whatever catalog description it has.  (`importRoom_of_sizes`: enough room at the start suffices.) -/
def ImportRoom (cfg : Cfg) (types : List DataType) (table : Bytes) :
    Engine.DB → List (Option (List Bytes)) → Prop
  | _, [] => True
  | db, r :: rest =>
    match recordVals cfg types r with
    | none => ImportRoom cfg types table db rest
    | some vals =>
      ((insertRow cfg.schema cfg.dstCols vals).isSome →
        ∀ sdb pt sch tbls, DbInv db sdb pt sch tbls → ∀ tr schema, (table, tr) ∈ tbls →
          schemaOf sch table = some schema →
          InsRunOK schema ((cfg.dstCols.map colBytes).map Engine.bytesToName) tr db.store.hdr.lastKey
            db.store.hdr.nextLSN db.store.hdr.nextFree [vals]) ∧
      ∀ db', (Engine.evalInsert db table (cfg.dstCols.map colBytes) [vals] = .ok 1 db' ∨
          ∃ e, Engine.evalInsert db table (cfg.dstCols.map colBytes) [vals] = .err e db') →
        ImportRoom cfg types table db' rest

/-- the fields of every record are strings a Go program can hold -/
def FieldsFit (recs : List (Option (List Bytes))) : Prop :=
  ∀ rec, some rec ∈ recs → ∀ f ∈ rec, f.length < 2 ^ 32

theorem FieldsFit.tail {r : Option (List Bytes)} {rest : List (Option (List Bytes))}
    (h : FieldsFit (r :: rest)) : FieldsFit rest :=
  fun rec hm => h rec (List.mem_cons_of_mem _ hm)

/-- **The import loop on a database in use.**  The loop never crashes, keeps the invariant, sends an error
event exactly for the records `importRecord` rejects, and ends in a database that satisfies the invariant
for the plain database with the accepted records' rows appended to the table, in input order. -/
theorem importOnDb_spec (cfg : Cfg) (types : List DataType) (table : Bytes) (hne : cfg.dstCols ≠ []) :
    ∀ (recs : List (Option (List Bytes))) (db : Engine.DB) (sdb : Spec.SDB) (pt sch : Levels)
      (tbls : List (Bytes × Levels)) (tb : Spec.STable),
      DbInv db sdb pt sch tbls → Spec.findTable sdb table = some tb → tb.cols = cfg.schema →
      FieldsFit recs → ImportRoom cfg types table db recs →
      ∃ db' pt' tbls',
        importOnDb cfg types table db recs = some (db', recs.map fun r => (importRecord cfg types r).isNone) ∧
        DbInv db' (addRows sdb table (recs.filterMap (importRecord cfg types))) pt' sch tbls'
  | [], db, sdb, pt, sch, tbls, tb, h, _, _, _, _ => by
    refine ⟨db, pt, tbls, rfl, ?_⟩
    rw [List.filterMap_nil, addRows_nil]
    exact h
  | r :: rest, db, sdb, pt, sch, tbls, tb, h, hfind, hcols, hfit, hroom => by
    have hnd : (tb.cols.map (·.name)).Nodup := h.cols_nodup hfind
    simp only [importOnDb, ImportRoom, List.map_cons, List.filterMap_cons, importRecord_eq cfg types r] at hroom ⊢
    cases hv : recordVals cfg types r with
    | none =>
      rw [hv] at hroom
      simp only at hroom
      obtain ⟨db', pt', tbls', e, hi⟩ := importOnDb_spec cfg types table hne rest db sdb pt sch tbls tb h hfind hcols
        hfit.tail hroom
      refine ⟨db', pt', tbls', ?_, ?_⟩
      · simp only [e, Option.map_some, Option.bind_none, Option.isNone_none]
      · simpa only [Option.bind_none] using hi
    | some vals =>
      rw [hv] at hroom
      simp only at hroom
      obtain ⟨hrm, hnext⟩ := hroom
      have hvals : ∀ v ∈ vals, ValidVal v := by
        cases r with
        | none => cases hv
        | some rec => exact recordVals_valid (hfit rec List.mem_cons_self) hv
      have hone := specInsert_one_iff hfind cfg.dstCols vals hnd hvals hne
      rw [hcols] at hone
      simp only [Option.bind_some]
      cases hins : insertRow cfg.schema cfg.dstCols vals with
      | some row =>
        rw [hins, Option.map_some] at hone
        obtain ⟨db1, pt1, tbls1, e1, hi1⟩ := h.insert_accepted table (cfg.dstCols.map colBytes) [vals]
          (fun r0 hr0 v hvm => by
            simp only [List.mem_singleton] at hr0
            subst hr0
            exact hvals v hvm)
          (fun tr schema htr hsch => hrm (by rw [hins]; rfl) sdb pt sch tbls h tr schema htr hsch) _ hone
        have hf1 : Spec.findTable (addRows sdb table [row]) table =
            some { tb with rows := tb.rows ++ [row].map fun v => ⟨none, v⟩ } := findTable_addRows hfind [row]
        obtain ⟨db', pt', tbls', e, hi⟩ := importOnDb_spec cfg types table hne rest db1 _ pt1 sch tbls1 _ hi1 hf1 hcols
          hfit.tail (hnext db1 (.inl e1))
        refine ⟨db', pt', tbls', ?_, ?_⟩
        · simp only [e1, e, Option.map_some, Option.isNone_some]
        · rw [addRows_addRows] at hi
          exact hi
      | none =>
        rw [hins, Option.map_none] at hone
        have hbad : Spec.rowOf tb (cfg.dstCols.map colBytes) vals = none ∨
            Spec.namesOK tb ((cfg.dstCols.map colBytes).map Spec.nameStr) = false := by
          rw [nameStr_colBytes]
          cases h1 : Spec.namesOK tb cfg.dstCols with
          | false => exact .inr rfl
          | true =>
            left
            cases h2 : Spec.rowOf tb (cfg.dstCols.map colBytes) vals with
            | none => rfl
            | some row =>
              have := (insertRow_iff_rowOf tb cfg.dstCols vals row hnd hvals hne).mpr ⟨h1, h2⟩
              rw [hcols, hins] at this
              cases this
        obtain ⟨_, e1, db1, he1, _, hi1⟩ := h.insert_refused table (cfg.dstCols.map colBytes) vals []
          (.inr ⟨tb, hfind, hbad⟩)
        obtain ⟨db', pt', tbls', e, hi⟩ := importOnDb_spec cfg types table hne rest db1 sdb pt sch tbls tb hi1 hfind
          hcols hfit.tail (hnext db1 (.inr ⟨_, he1⟩))
        refine ⟨db', pt', tbls', ?_, hi⟩
        simp only [he1, e, Option.map_some, Option.isNone_none]

end Mkdb.Csv
