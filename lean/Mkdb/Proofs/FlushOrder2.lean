import Mkdb.Proofs.FlushOrder1
/-!
C16, the shape of the recency list after the flush of the code (`flushOrd`): the pages that were dirty
in front, in some order, then the pages that were clean in their old relative order.
-/
namespace Mkdb.PageCache

variable {α : Type}

/-- removing a key under which a dirty entry is filed does not touch the clean entries -/
theorem filter_clean_remove {v : List (Ent α)} (hnd : (v.map (·.key)).Nodup) {k : Nat} {e : Ent α}
    (hf : find? v k = some e) (hd : e.dirty = true) :
    (remove v k).filter (fun x => !x.dirty) = v.filter fun x => !x.dirty := by
  unfold remove
  rw [List.filter_filter]
  apply List.filter_congr
  intro x hx
  cases hxd : x.dirty with
  | true => rfl
  | false =>
    have hne : x.key ≠ k := by
      intro hk
      have := find?_of_mem hnd hx
      rw [hk, hf] at this
      cases this
      rw [hd] at hxd; cases hxd
    simp [hne]

theorem visit_filter_clean {v : List (Ent α)} (hnd : (v.map (·.key)).Nodup) (k : Nat) :
    ∃ A, (visit v k).filter (fun x => !x.dirty) = A ++ v.filter fun x => !x.dirty := by
  unfold visit
  cases hf : find? v k with
  | none => exact ⟨[], rfl⟩
  | some e =>
    cases hd : e.dirty with
    | false => exact ⟨[], by simp [hd]⟩
    | true =>
      refine ⟨[clean e], ?_⟩
      simp only [hd, ↓reduceIte]
      rw [List.filter_cons]
      simp only [clean, Bool.not_false, ↓reduceIte, List.cons_append, List.nil_append]
      rw [filter_clean_remove hnd hf hd]

theorem foldl_visit_filter_clean {l0 : List (Ent α)} (hnd : (l0.map (·.key)).Nodup) (order : List Nat)
    (v : List (Ent α)) (hp : (v.map clean).Perm (l0.map clean)) :
    ∃ A, (order.foldl visit v).filter (fun x => !x.dirty) = A ++ v.filter fun x => !x.dirty := by
  induction order generalizing v with
  | nil => exact ⟨[], rfl⟩
  | cons k rest ih =>
    simp only [List.foldl_cons]
    have hndv := nodup_of_clean_perm hnd hp
    obtain ⟨A1, h1⟩ := visit_filter_clean hndv k
    obtain ⟨A2, h2⟩ := ih (visit v k) ((visit_perm hndv k).trans hp)
    exact ⟨A2 ++ A1, by rw [h2, h1, List.append_assoc]⟩

/-- after the flush of the code: in front the pages that were dirty (all of them, each once, cleaned, in
some order), behind them the pages that were clean, in their old relative order -/
theorem flushOrd_shape (s : St α) (hnd : (s.items.map (·.key)).Nodup) (order : List Nat) :
    ∃ F, (flushOrd s order).items = F ++ s.items.filter (fun e => !e.dirty) ∧
      F.Perm ((s.items.filter fun e => e.dirty).map clean) := by
  obtain ⟨A, hA⟩ := foldl_visit_filter_clean hnd order s.items (List.Perm.refl _)
  refine ⟨((order.foldl visit s.items).filter fun e => e.dirty).map clean ++ A, ?_, ?_⟩
  · rw [flushOrd_items, hA, List.append_assoc]
  · have hp := flushOrd_items_perm s hnd order
    rw [flushOrd_items, hA, ← List.append_assoc, flush_items] at hp
    have h2 : (s.items.map clean).Perm
        ((s.items.filter fun e => e.dirty).map clean ++ s.items.filter fun e => !e.dirty) := by
      rw [← map_clean_filter_clean, ← List.map_append]
      exact ((List.filter_append_perm _ _).map clean).symm
    exact (List.perm_append_right_iff _).mp (hp.trans h2)

end Mkdb.PageCache
