import Mkdb.Proofs.Unchanged2
/-!
C14, part 3: DELETE and UPDATE rows that are refused.
-/
set_option autoImplicit false
namespace Mkdb.Store
open Mkdb.Page Mkdb.Tuple Mkdb.Generated

/-! ### `markDeleted` -/

/-- every error of `markDeleted` (unknown table, no such live row, undecodable catalog row) arises
before the first page write -/
theorem markDeleted_errRO (table : Bytes) (rowId : Nat) : ErrRO (markDeleted table rowId) := by
  unfold markDeleted
  refine ErrRO.bind_ro (ReadOnly.relationOffset _) (fun off => ?_)
  refine ErrRO.bind_ro (ReadOnly.fetch _) (fun _ => ?_)
  refine ErrRO.bind_ro (ReadOnly.findLeaf _ _ _) (fun l => ?_)
  split
  · exact (ReadOnly.throw _).errRO
  · refine ErrRO.ite (ReadOnly.throw _).errRO ?_
    apply NoErr.errRO
    repeat ei_step

theorem markDeleted_err (table : Bytes) (rowId : Nat) (s : Store) (e : SErr) (s' : Store)
    (hf : Filed s) (h : markDeleted table rowId s = .err e s') : Filed s' ∧ SameData s s' :=
  markDeleted_errRO table rowId s e s' hf h

/-! ### `updateCellAt` and `update` -/

theorem updateCellAt_errRO (off key : Nat) (value : Bytes) (lsn : Nat) :
    ErrRO (updateCellAt off key value lsn) := by
  unfold updateCellAt
  refine ErrRO.ite (ReadOnly.throw _).errRO ?_
  refine ErrRO.bind_ro (ReadOnly.fetch _) (fun pg => ?_)
  split
  · exact (ReadOnly.panicS _).errRO
  · refine ErrRO.ite (ReadOnly.throw _).errRO ?_
    apply NoErr.errRO
    repeat ei_step

/-- what `update` does with one cell of the scan -/
def updateRow (schema : List FieldDef) (rowId : Nat) (cols : List String) (src : List Val)
    (c : LeafCell × Nat) : SM (List WalRec) := do
  if c.1.key != rowId then pure [] else
  let m ← decodeRow schema c.1.val
  let m' : Vals := (cols.zip src).reverse ++ m
  let buf ← encodeRow schema m'
  let s ← getS
  let lsn := s.hdr.nextLSN
  updateCellAt c.2 c.1.key buf lsn
  modifyS fun s => { s with hdr := { s.hdr with nextLSN := s.hdr.nextLSN + 1 } }
  pure [(⟨c_OpUpdate, lsn, c.2, c.1.key, buf⟩ : WalRec)]

theorem update_eq (table : Bytes) (rowId : Nat) (cols : List String) (src : List Val) :
    update table rowId cols src = (do
      let off ← relationOffset table
      let _ ← fetch off
      let schema ← relationSchema table
      match checkColumns schema cols with
      | some e => throw e
      | none =>
      let cells ← scanRight off
      let logs ← mapS (updateRow schema rowId cols src) cells
      pure logs.flatten) := rfl

/-- one cell: decode, overlay, encode, size check and cell lookup all come before the page write -/
theorem updateRow_errRO (schema : List FieldDef) (rowId : Nat) (cols : List String) (src : List Val)
    (c : LeafCell × Nat) : ErrRO (updateRow schema rowId cols src c) := by
  unfold updateRow
  refine ErrRO.ite (ReadOnly.pure _).errRO ?_
  refine ErrRO.bind_ro (ReadOnly.decodeRow _ _) (fun m => ?_)
  refine ErrRO.bind_ro (ReadOnly.encodeRow _ _) (fun buf => ?_)
  refine ErrRO.bind_ro ReadOnly.getS (fun s => ?_)
  refine ErrRO.bind_noErr (updateCellAt_errRO _ _ _ _) (fun _ => ?_)
  repeat ei_step

theorem updateRow_other (schema : List FieldDef) (rowId : Nat) (cols : List String) (src : List Val)
    (c : LeafCell × Nat) (h : c.1.key ≠ rowId) (s : Store) :
    updateRow schema rowId cols src c s = .ok [] s := by
  unfold updateRow
  have : (c.1.key != rowId) = true := by simpa using h
  rw [if_pos this]; rfl

theorem mapS_updateRow_noMatch (schema : List FieldDef) (rowId : Nat) (cols : List String)
    (src : List Val) (l : List (LeafCell × Nat)) (h : ∀ c ∈ l, c.1.key ≠ rowId) (s : Store) :
    ∃ r, mapS (updateRow schema rowId cols src) l s = .ok r s := by
  induction l with
  | nil => exact ⟨[], rfl⟩
  | cons a rest ih =>
    obtain ⟨r, hr⟩ := ih (fun c hc => h c (List.mem_cons_of_mem _ hc))
    refine ⟨[] :: r, ?_⟩
    unfold mapS
    rw [bind_ok (updateRow_other schema rowId cols src a (h a List.mem_cons_self) s), bind_ok hr]
    rfl

/-- the scan loop of `update`, when at most one cell carries the row id: an error changes nothing -/
theorem mapS_updateRow_err (schema : List FieldDef) (rowId : Nat) (cols : List String)
    (src : List Val) (l : List (LeafCell × Nat)) (s : Store) (e : SErr) (s' : Store) (hf : Filed s)
    (huniq : (l.filter (fun c => c.1.key == rowId)).length ≤ 1)
    (h : mapS (updateRow schema rowId cols src) l s = .err e s') : Filed s' ∧ SameData s s' := by
  induction l with
  | nil => cases h
  | cons a rest ih =>
    unfold mapS at h
    rcases bind_eq_err h with h1 | ⟨b, s1, h1, h2⟩
    · exact updateRow_errRO schema rowId cols src a s e s' hf h1
    · rcases bind_eq_err h2 with h3 | ⟨tl, s2, _, h3⟩
      · by_cases hk : a.1.key = rowId
        · -- the one matching cell: no other cell matches, the rest of the loop cannot fail
          have hb : (a.1.key == rowId) = true := by simpa using hk
          simp only [List.filter_cons, hb, if_true, List.length_cons] at huniq
          have hnil : rest.filter (fun c => c.1.key == rowId) = [] :=
            List.eq_nil_of_length_eq_zero (by omega)
          have hno : ∀ c ∈ rest, c.1.key ≠ rowId := by
            intro c hc
            have := List.filter_eq_nil_iff.mp hnil c hc
            simpa using this
          obtain ⟨r, hr⟩ := mapS_updateRow_noMatch schema rowId cols src rest hno s1
          rw [hr] at h3; cases h3
        · have hb : ¬ (a.1.key == rowId) = true := by simpa using hk
          simp only [List.filter_cons, hb] at huniq
          rw [updateRow_other schema rowId cols src a hk s] at h1
          cases h1
          exact ih huniq h3
      · cases h3

/-- `update` that fails: nothing changed - unless the scan of the table delivered two live cells
with the row id being updated (impossible in a tree with strictly ascending keys): then the first
of them may already have been rewritten. -/
theorem update_err_cases (table : Bytes) (rowId : Nat) (cols : List String) (src : List Val)
    (s : Store) (e : SErr) (s' : Store) (hf : Filed s)
    (h : update table rowId cols src s = .err e s') :
    (Filed s' ∧ SameData s s') ∨
    ∃ off s0 s1 cells s2, relationOffset table s = .ok off s0 ∧ Filed s1 ∧ SameData s s1 ∧
      scanRight off s1 = .ok cells s2 ∧ 2 ≤ (cells.filter (fun c => c.1.key == rowId)).length := by
  rw [update_eq] at h
  rcases bind_eq_err h with h1 | ⟨off, s1, h1, h⟩
  · exact .inl ((ReadOnly.relationOffset _).err hf h1)
  obtain ⟨f1, d1⟩ := (ReadOnly.relationOffset _).ok hf h1
  rcases bind_eq_err h with h2 | ⟨_, s2, h2, h⟩
  · exact ((ErrIn.fetch (P := fun _ => False) off) _ _ _ h2).elim
  obtain ⟨f2, d2⟩ := (ReadOnly.fetch _).ok f1 h2
  rcases bind_eq_err h with h3 | ⟨schema, s3, h3, h⟩
  · obtain ⟨f3, d3⟩ := (ReadOnly.relationSchema _).err f2 h3
    exact .inl ⟨f3, (d1.trans d2).trans d3⟩
  obtain ⟨f3, d3⟩ := (ReadOnly.relationSchema _).ok f2 h3
  have d13 := (d1.trans d2).trans d3
  cases hcc : checkColumns schema cols with
  | some ec => rw [hcc] at h; cases h; exact .inl ⟨f3, d13⟩
  | none =>
  rw [hcc] at h
  simp only at h
  rcases bind_eq_err h with h4 | ⟨cells, s4, h4, h⟩
  · obtain ⟨f4, d4⟩ := (ReadOnly.scanRight _).err f3 h4
    exact .inl ⟨f4, d13.trans d4⟩
  obtain ⟨f4, d4⟩ := (ReadOnly.scanRight _).ok f3 h4
  rcases bind_eq_err h with h5 | ⟨logs, s5, _, h⟩
  · by_cases huniq : (cells.filter (fun c => c.1.key == rowId)).length ≤ 1
    · obtain ⟨f5, d5⟩ := mapS_updateRow_err schema rowId cols src cells s4 e s' f4 huniq h5
      exact .inl ⟨f5, (d13.trans d4).trans d5⟩
    · exact .inr ⟨off, s1, s3, cells, s4, h1, f3, d13, h4, by omega⟩
  · cases h

/-- C14 for one UPDATE row, in a table whose scan shows every row id at most once -/
theorem update_err (table : Bytes) (rowId : Nat) (cols : List String) (src : List Val)
    (s : Store) (e : SErr) (s' : Store) (hf : Filed s)
    (h : update table rowId cols src s = .err e s')
    (huniq : ∀ off s1 cells s2, scanRight off s1 = .ok cells s2 → Filed s1 → SameData s s1 →
      (cells.filter (fun c => c.1.key == rowId)).length ≤ 1) :
    Filed s' ∧ SameData s s' := by
  rcases update_err_cases table rowId cols src s e s' hf h with h1 | ⟨off, s0, s1, cells, s2, _, f1, d1, hs, h2⟩
  · exact h1
  · have := huniq off s1 cells s2 hs f1 d1
    omega

end Mkdb.Store
