import Mkdb.Proofs.TypedTables6
import Mkdb.Proofs.SessionInv10
import Mkdb.Proofs.BaseCase2
/-!
C18, typed tables, part 7: **histories, sessions, and computed examples**.

* `typed_specHist`: the plain database of any history of statements from the empty database is typed.
* `history_select_never_panics`: after any history of statements from `CREATE DATABASE`
  (`from_create_database_history`) a SELECT on user tables never panics.
* `session_select_never_panics`: in the session reached by any list of statements from the empty
  session, a SELECT on user tables never panics on any database of the session.
* computed examples on `tableDB` (the database `CREATE DATABASE; CREATE TABLE t (a INT)` leaves).
-/
set_option autoImplicit false
namespace Mkdb.Store
open Mkdb.Page Mkdb.Tuple Mkdb.Generated Mkdb.Tree Mkdb.Engine Mkdb.Exec Mkdb.Exec.TypedP Mkdb.Sql

/-- the plain database of a history (refused statements change nothing) stays typed -/
theorem typed_specHist : ∀ (sts : List Sql.Stmt) (sdb : Spec.SDB), Spec.Typed sdb → Spec.Typed (specHist sdb sts)
  | [], _, h => h
  | st :: rest, sdb, h => by
    unfold specHist
    apply typed_specHist rest
    cases hs : Spec.specStmt sdb st with
    | none => exact h
    | some sdb' => exact h.specStmt hs

/-- **After any history of statements from `CREATE DATABASE`** (each accepted with room or refused before
a change: `HistOK`), a SELECT of a parser-produced shape on user tables never panics. -/
theorem history_select_never_panics (sts : List Sql.Stmt) (hok : HistOK [] sts newDB []) :
    ∃ db', runHist [] newDB sts = some db' ∧ ∀ q : Select,
      (Exec.NoPanicP.ParsedShape q) → UserTables q →
      (∀ n ∈ selectNames q, FetchTotal db' n) ∧ ∀ s, evaluateSelect (fetchOf db') q ≠ .panic s := by
  obtain ⟨db', pt', sch', tbls', hrun, hrel⟩ := from_create_database_history sts hok
  refine ⟨db', hrun, fun q hq hn => ?_⟩
  obtain ⟨h1, h2, _⟩ := select_on_stored_never_panics hrel.1 q hq hn
  exact ⟨h1, h2⟩

end Mkdb.Store

namespace Mkdb.Session
open Mkdb.Engine Mkdb.Store Mkdb.Sql Mkdb.Exec

/-- in a session that satisfies the invariant, a SELECT on user tables never panics on any database -/
theorem sessInv_select_never_panics {s : Sess} (h : SessInv s) : ∀ p ∈ s.dbs, ∀ q : Select,
    (Exec.NoPanicP.ParsedShape q) → UserTables q →
    (∀ n ∈ selectNames q, FetchTotal p.2 n) ∧ ∀ x, evaluateSelect (fetchOf p.2) q ≠ .panic x := by
  obtain ⟨w, hw⟩ := h
  intro p hp q hq hn
  obtain ⟨pt, sch, tbls, hi, _⟩ := hw.dbs p hp
  obtain ⟨h1, h2, _⟩ := select_on_stored_never_panics hi.abs q hq hn
  exact ⟨h1, h2⟩

/-- **In the session any list of statements leaves** (run from the empty session, going on after every
error value; `SessOK`: the side conditions of the statement-level theorems), a SELECT of a
parser-produced shape on user tables never panics - on any database of the session. -/
theorem session_select_never_panics (sts : List Sql.Stmt) (hok : SessOK {} sts) :
    ∀ p ∈ (runAll {} sts).1.dbs, ∀ q : Select,
      (Exec.NoPanicP.ParsedShape q) → UserTables q →
      (∀ n ∈ selectNames q, FetchTotal p.2 n) ∧ ∀ x, evaluateSelect (fetchOf p.2) q ≠ .panic x :=
  sessInv_select_never_panics (runAll_sessAbs sts {} (fun _ => []) (sessAbs_empty _) hok).1

end Mkdb.Session

namespace Mkdb.Store
open Mkdb.Page Mkdb.Tuple Mkdb.Generated Mkdb.Tree Mkdb.Engine Mkdb.Exec Mkdb.Exec.TypedP Mkdb.Sql

/-! ### examples -/

/-- `SELECT a, count(*) FROM t GROUP BY a ORDER BY a` -/
def exGroupQuery : Select :=
  { list := [⟨.expr (.val (.col ⟨[], [97]⟩)), []⟩, ⟨.count none, []⟩],
    from_ := some (.table ⟨tname, none⟩),
    groupBy := [⟨[], [97]⟩],
    orderBy := [⟨⟨[], [97]⟩, false⟩] }

/-- `SELECT * FROM t x LEFT JOIN t y ON x.a < y.a ORDER BY y.a DESC` -/
def exJoinQuery : Select :=
  { list := [⟨.star, []⟩],
    from_ := some (.join (.table ⟨tname, some [120]⟩) .left ⟨tname, some [121]⟩
      (.pred ⟨.col ⟨[120], [97]⟩, Generated.t_LT, .col ⟨[121], [97]⟩⟩)),
    orderBy := [⟨⟨[121], [97]⟩, true⟩] }

theorem exQueries_ok : (Exec.NoPanicP.ParsedShape exGroupQuery) ∧
    UserTables exGroupQuery ∧
    (Exec.NoPanicP.ParsedShape exJoinQuery) ∧ UserTables exJoinQuery :=
  ⟨by decide, by decide +kernel, by decide, by decide +kernel⟩

/-- the result of a query as a Boolean test (the result type has no decidable equality) -/
def selectGives (r : Exec.X (List Row × List Field)) (rows : List Row) (hdr : List Field) : Bool :=
  match r with
  | .ok (rs, h) => rs == rows && h == hdr
  | _ => false

/-- on the computed database: what the SELECT reads for `t` is the (empty) table with the column `a`,
for a name the catalog does not know nothing -/
theorem fetchOf_tableDB : (fetchOf tableDB tname).map (fun t => (t.cols, t.rows)) = some ([[97]], []) ∧
    (fetchOf tableDB [117]).isNone = true := by
  constructor <;> decide +kernel

/-- and the two queries evaluate to no rows under their headers -/
theorem exQueries_on_tableDB :
    selectGives (evaluateSelect (fetchOf tableDB) exGroupQuery) [] [⟨tname, [97]⟩, ⟨[], "count(*)".toUTF8.toList⟩] = true ∧
    selectGives (evaluateSelect (fetchOf tableDB) exJoinQuery) [] [⟨[120], [97]⟩, ⟨[121], [97]⟩] = true := by
  constructor <;> decide +kernel

/-- `SELECT * FROM sys_schema ORDER BY field_type` -/
def exCatalogQuery : Select :=
  { list := [⟨.star, []⟩],
    from_ := some (.table ⟨sysSchema, none⟩),
    orderBy := [⟨⟨[], "field_type".toUTF8.toList⟩, false⟩] }

/-- the computed database passes the check of its two catalog tables; the catalog query returns the seven
rows of `sys_schema` (two for `sys_pages`, four for `sys_schema`, one for `t`) -/
theorem catalogOK_tableDB : catalogOK tableDB = true ∧
    (match evaluateSelect (fetchOf tableDB) exCatalogQuery with
      | .ok (rows, hdr) => rows.length == 7 && hdr.length == 4
      | _ => false) = true := by
  constructor <;> decide +kernel

/-! an executor-level example with rows: a LEFT JOIN whose padding puts NULLs into the sorted column -/

def exKT : Table := ⟨[[97], [98]], [[.int 1, .str [120]], [.int 2, .null], [.int 3, .str [121]]]⟩
def exKFetch : Bytes → Option Table := fun n => if n = tname then some exKT else none

theorem exKFetch_kinded : KindedFetch exKFetch := by
  intro n t h
  unfold exKFetch at h
  split at h
  · cases h
    exact ⟨[.int, .str], rfl, by decide⟩
  · cases h

theorem exJoin_on_exKFetch : selectGives (evaluateSelect exKFetch exJoinQuery)
    [[.int 1, .str [120], .int 3, .str [121]], [.int 2, .null, .int 3, .str [121]],
     [.int 1, .str [120], .int 2, .null], [.int 3, .str [121], .null, .null]]
    [⟨[120], [97]⟩, ⟨[120], [98]⟩, ⟨[121], [97]⟩, ⟨[121], [98]⟩] = true := by decide +kernel

end Mkdb.Store
