import Mkdb.Proofs.Meaning2
/-!
`evaluateSelect` against `Spec.meaning` / `Spec.satisfies`, part 3: the pipeline of
`evaluateSelect` as an equivalence (`evaluateSelect_iff`), and the single-table SELECT without
aggregates (C05): the executor answers exactly the queries that have a meaning (and whose sort
keys resolve and are comparable), with exactly the rows the meaning prescribes.
-/
namespace Mkdb.Exec.MeaningP
open Mkdb.Sql Mkdb.Tuple Mkdb.Spec Mkdb.Exec.SelectP

/-! ### the pipeline, as an equivalence -/

/-- everything after WHERE: project, aggregate, sort, cut -/
theorem selectTail_iff {q : Select} {fields : List Field} {filtered rows : List Row}
    {hdr : List Field} :
    selectTail q fields filtered = .ok (rows, hdr) ↔
      ∃ projected agg keys,
        projectColumns q.list fields filtered = .ok (projected, hdr) ∧
        aggregateRows q.list q.groupBy projected = .ok agg ∧
        resolveSortKeys q.orderBy (sortFields q.list hdr) = .ok keys ∧
        (∀ a ∈ agg, ∀ b ∈ agg, KeyComparable keys a b) ∧
        rows = cut q.lim (sortRows keys agg) ∧ Spec.boundsOK q.lim = true := by
  unfold selectTail
  constructor
  · intro h
    obtain ⟨⟨projected, hdr'⟩, hproj, h⟩ := bind_eq_ok.1 h
    obtain ⟨agg, hagg, h⟩ := bind_eq_ok.1 h
    obtain ⟨sorted, hsort, h⟩ := bind_eq_ok.1 h
    obtain ⟨cutted, hcut, h⟩ := bind_eq_ok.1 h
    simp only [pure_eq_ok, X.ok.injEq, Prod.mk.injEq] at h
    obtain ⟨hrows, rfl⟩ := h
    obtain ⟨keys, hkeys, hcomp, rfl⟩ := sortColumns_ok hsort
    obtain ⟨hb, rfl⟩ := cutRows_ok_iff.1 hcut
    exact ⟨projected, agg, keys, hproj, hagg, hkeys, hcomp, hrows.symm, hb⟩
  · rintro ⟨projected, agg, keys, hproj, hagg, hkeys, hcomp, rfl, hb⟩
    have hsort := sortColumns_ok_iff.2 ⟨keys, hkeys, hcomp, rfl⟩
    simp only [hproj, hagg, hsort, cutRows_of_boundsOK hb, bind_ok, pure_eq_ok]

/-- **`evaluateSelect` is FROM → WHERE → select list → GROUP BY / aggregates → ORDER BY →
OFFSET / LIMIT**, as an equivalence: it answers `(rows, hdr)` exactly when every stage succeeds
and `rows` is what the last one delivers. -/
theorem evaluateSelect_iff {fetch : Bytes → Option Table} {q : Select} {tr : TableRef}
    (hfrom : q.from_ = some tr) {rows : List Row} {hdr : List Field} :
    evaluateSelect fetch q = .ok (rows, hdr) ↔
      ∃ src fields filtered projected agg keys,
        nestedLoopJoin fetch tr = .ok (src, fields) ∧
        whereX q.where_ fields src = .ok filtered ∧
        projectColumns q.list fields filtered = .ok (projected, hdr) ∧
        aggregateRows q.list q.groupBy projected = .ok agg ∧
        resolveSortKeys q.orderBy (sortFields q.list hdr) = .ok keys ∧
        (∀ a ∈ agg, ∀ b ∈ agg, KeyComparable keys a b) ∧
        rows = cut q.lim (sortRows keys agg) ∧ Spec.boundsOK q.lim = true := by
  rw [evaluateSelect_from fetch q tr hfrom]
  constructor
  · intro h
    obtain ⟨⟨src, fields⟩, hj, h⟩ := bind_eq_ok.1 h
    obtain ⟨filtered, hw, h⟩ := bind_eq_ok.1 h
    obtain ⟨projected, agg, keys, h⟩ := selectTail_iff.1 h
    exact ⟨src, fields, filtered, projected, agg, keys, hj, hw, h⟩
  · rintro ⟨src, fields, filtered, projected, agg, keys, hj, hw, h⟩
    have ht := selectTail_iff.2 ⟨projected, agg, keys, h⟩
    unfold whereX at hw
    simp only [hj, bind_ok]
    exact (congrArg (· >>= _) hw).trans ht

/-! ### one table -/

theorem fieldsOf_iff_fetchTable {fetch : Bytes → Option Table} {t : TableName}
    {p : List Row × List Field} : Spec.fieldsOf fetch t = some p ↔ fetchTable fetch t = .ok p := by
  unfold Spec.fieldsOf fetchTable
  cases fetch t.name with
  | none => simp
  | some tbl =>
    simp only [Option.some.injEq, X.ok.injEq]
    exact Iff.rfl

theorem fromRows_table (fetch : Bytes → Option Table) (t : TableName) :
    Spec.fromRows fetch (.table t) = Spec.fieldsOf fetch t := by
  simp only [Spec.fromRows]

theorem option_bind_some {α β : Type} {o : Option α} {f : α → Option β} {b : β} :
    o.bind f = some b ↔ ∃ a, o = some a ∧ f a = some b := by
  cases o with
  | none => simp
  | some a => simp

/-- the sort keys of a query without ORDER BY are the empty list, and sorting by no key is the
identity -/
theorem keys_nil_of_no_order_by {q : Select} {hdr : List Field} {keys : List (Nat × Bool)}
    (hob : q.orderBy = []) (hk : Spec.sortKeys q hdr = some keys) : keys = [] := by
  rw [sortKeys_nil hdr hob] at hk
  exact (Option.some.inj hk).symm

/-- `Spec.satisfies` for a result that is literally `cut (sort meaning)` -/
theorem satisfies_single {q : Select} {t : TableName} {hdr : List Field} {keys : List (Nat × Bool)}
    (want : List Row)
    (hfrom : q.from_ = some (.table t)) (hagg : hasAggr q.list = false) (hgb : q.groupBy = [])
    (hk : Spec.sortKeys q hdr = some keys) :
    satisfies q hdr want (cut q.lim (sortRows keys want)) = true := by
  by_cases hob : q.orderBy = []
  · rw [keys_nil_of_no_order_by hob hk, sortRows_stable_nokeys]
    exact satisfies_plain hdr want hob hfrom hagg hgb
  · exact satisfies_sorted hob hk (List.Perm.refl _) rfl

/-- **single table, no aggregate: executor ⟺ reference meaning.**  The executor answers
`(rows, hdr)` exactly when the query has a meaning `want`, its sort keys resolve against the header
`hdr` (which is the header the judge computes) and are comparable on `want`, and
`rows = cut (sort want)`. -/
theorem single_table_iff {fetch : Bytes → Option Table} {q : Select} {t : TableName}
    (hfrom : q.from_ = some (.table t)) (hagg : hasAggr q.list = false) (hgb : q.groupBy = [])
    (hw : whereIsBoolean q = true) {rows : List Row} {hdr : List Field} :
    evaluateSelect fetch q = .ok (rows, hdr) ↔
      ∃ want keys, Spec.meaning fetch q = some want ∧
        projectColumns q.list (judgeFields fetch q) [] = .ok ([], hdr) ∧
        Spec.sortKeys q hdr = some keys ∧
        (∀ a ∈ want, ∀ b ∈ want, KeyComparable keys a b) ∧
        rows = cut q.lim (sortRows keys want) ∧ Spec.boundsOK q.lim = true := by
  rw [evaluateSelect_iff hfrom]
  constructor
  · rintro ⟨src, fields, filtered, projected, agg, keys, hj, hwh, hproj, hag, hkeys, hcomp, rfl, hb⟩
    rw [aggregateRows_noAggr _ hagg hgb] at hag
    cases hag
    have hfr : Spec.fromRows fetch (.table t) = some (src, fields) := by
      rw [fromRows_table]; exact fieldsOf_iff_fetchTable.2 hj
    have hsw := whereX_ok_spec (by unfold whereIsBoolean at hw; exact hw) hwh
    have hst := (projectColumns_iff_specTail (NoPanicP.projectColumns_ok_ne_nil hproj) hagg hgb).1 ⟨hdr, hproj⟩
    refine ⟨projected, keys, ?_, ?_, resolveSortKeys_iff_spec.1 hkeys, hcomp, rfl, hb⟩
    · rw [meaning_of hfrom hfr, hsw]; exact hst
    · rw [judgeFields_of hfrom hfr]; exact projectColumns_header hproj
  · rintro ⟨want, keys, hm, hh, hk, hcomp, rfl, hb⟩
    obtain ⟨tr, src, fields, hf, hfr⟩ := meaning_some_from hm
    rw [hfrom] at hf
    cases hf
    rw [meaning_of hfrom hfr] at hm
    obtain ⟨filtered, hsw, hst⟩ := option_bind_some.1 hm
    obtain ⟨hdr', hproj⟩ := (projectColumns_iff_specTail (NoPanicP.projectColumns_ok_ne_nil hh) hagg hgb).2 hst
    rw [judgeFields_of hfrom hfr, projectColumns_header hproj] at hh
    simp only [X.ok.injEq, Prod.mk.injEq, true_and] at hh
    subst hh
    rw [fromRows_table] at hfr
    exact ⟨src, fields, filtered, want, want, keys, fieldsOf_iff_fetchTable.1 hfr,
      specWhere_whereX hsw, hproj, aggregateRows_noAggr _ hagg hgb,
      resolveSortKeys_iff_spec.2 hk, hcomp, rfl, hb⟩

/-- the header of a successful single-table SELECT is the header the judge computes -/
theorem judgeHeader_of {fetch : Bytes → Option Table} {q : Select} {hdr : List Field}
    (h : projectColumns q.list (judgeFields fetch q) [] = .ok ([], hdr)) :
    judgeHeader fetch q = hdr := by
  unfold judgeHeader; rw [h]

/-- the converse without the hypothesis on WHERE: a query that has a meaning is answered (a select
list that is not empty, no negative bound: what the executor takes for granted) -/
theorem meaningful_single_table_answered {fetch : Bytes → Option Table} {q : Select} {t : TableName}
    (hfrom : q.from_ = some (.table t)) (hagg : hasAggr q.list = false) (hgb : q.groupBy = [])
    (hne : q.list ≠ []) (hb : Spec.boundsOK q.lim = true)
    {want : List Row} {keys : List (Nat × Bool)}
    (hm : Spec.meaning fetch q = some want)
    (hk : Spec.sortKeys q (judgeHeader fetch q) = some keys)
    (hcomp : ∀ a ∈ want, ∀ b ∈ want, KeyComparable keys a b) :
    evaluateSelect fetch q = .ok (cut q.lim (sortRows keys want), judgeHeader fetch q) ∧
      projectColumns q.list (judgeFields fetch q) [] = .ok ([], judgeHeader fetch q) := by
  obtain ⟨tr, src, fields, hf, hfr⟩ := meaning_some_from hm
  rw [hfrom] at hf
  cases hf
  have hm' := hm
  rw [meaning_of hfrom hfr] at hm'
  obtain ⟨filtered, hsw, hst⟩ := option_bind_some.1 hm'
  obtain ⟨hdr', hproj⟩ := (projectColumns_iff_specTail hne hagg hgb).2 hst
  have hh : projectColumns q.list (judgeFields fetch q) [] = .ok ([], hdr') := by
    rw [judgeFields_of hfrom hfr]; exact projectColumns_header hproj
  have hj : judgeHeader fetch q = hdr' := judgeHeader_of hh
  rw [hj] at hk ⊢
  refine ⟨?_, hh⟩
  rw [evaluateSelect_iff hfrom]
  rw [fromRows_table] at hfr
  exact ⟨src, fields, filtered, want, want, keys, fieldsOf_iff_fetchTable.1 hfr,
    specWhere_whereX hsw, hproj, aggregateRows_noAggr _ hagg hgb,
    resolveSortKeys_iff_spec.2 hk, hcomp, rfl, hb⟩

end Mkdb.Exec.MeaningP
