import Mkdb.Proofs.CreateFlush1
import Mkdb.Proofs.CreateFlush2
/-!
CREATE TABLE, the flush: `flushPages` under the catalog invariant.  The store holds the same
catalog afterwards, every tree with its dirty bits cleared (`clean`); the header on disk is the
header in memory.

* `CreateFlush1`: `clean` keeps cells, keys, offsets, root, catalog readings and `Inv`.
* `CreateFlush2`: `flushPages_spec`, `flushPages_disk` on a well-filed cache.
-/
set_option autoImplicit false
namespace Mkdb.Store
open Mkdb.Page Mkdb.Tuple Mkdb.Generated Mkdb.Tree

theorem catTrees_clean (pt sch : Levels) (tbls : List (Bytes × Levels)) :
    catTrees (clean pt) (clean sch) (tbls.map fun e => (e.1, clean e.2)) = (catTrees pt sch tbls).map clean := by
  simp only [catTrees, List.map_cons, List.map_map]
  rfl

theorem tbls_clean_names (tbls : List (Bytes × Levels)) :
    (tbls.map fun e => (e.1, clean e.2)).map (·.1) = tbls.map (·.1) := by
  rw [List.map_map]; rfl

/-- a held tree is held with its dirty bits cleared once every page is seen clean -/
theorem Holds.clean {s s' : Store} {t : Levels} (hH : Holds s t)
    (hv : ∀ off, view s' off = (view s off).map fun x => (x.1, false)) : Holds s' (clean t) := by
  intro e he
  rw [flatten_clean] at he
  obtain ⟨e0, he0, rfl⟩ := List.mem_map.mp he
  simp only
  rw [hv, hH e0 he0]
  rfl

theorem flushPages_cat {s : Store} {pt sch : Levels} {tbls : List (Bytes × Levels)} (order : List Nat)
    (h : Cat s pt sch tbls) (hf : MemFiled s) :
    ∃ s', flushPages order s = .ok () s' ∧ Cat s' (clean pt) (clean sch) (tbls.map fun e => (e.1, clean e.2)) ∧
      s'.hdr = s.hdr ∧ s'.dhdr = s.hdr ∧ MemFiled s' ∧
      (∀ off, view s' off = (view s off).map fun x => (x.1, false)) := by
  obtain ⟨s', e, hh, hdh, _, hf', hv, _⟩ := flushPages_spec order s hf
  refine ⟨s', e, ?_, hh, hdh, hf', hv⟩
  exact {
    tree := by
      intro x hx
      rw [catTrees_clean] at hx
      obtain ⟨y, hy, rfl⟩ := List.mem_map.mp hx
      obtain ⟨a, b, c, d, k⟩ := h.tree y hy
      rw [hh, clean_inner_length, clean_leaves_length, keys_clean]
      exact ⟨a.clean hv, clean_inv y _ b, c, d, k⟩
    disj := by
      rw [catTrees_clean, List.map_map]
      have : (offs ∘ clean) = offs := funext fun t => offs_clean t
      rw [this]
      exact h.disj
    root := by rw [rootOff_clean, hh]; exact h.root
    dec := by rw [live_clean]; exact h.dec
    names := by rw [ptEntries_clean]; exact h.names
    esch := by rw [ptEntries_clean, rootOff_clean]; exact h.esch
    etb := by
      intro e he
      obtain ⟨e0, he0, rfl⟩ := List.mem_map.mp he
      rw [ptEntries_clean]
      simp only [rootOff_clean]
      exact h.etb e0 he0
    only := by
      rw [ptEntries_clean, tbls_clean_names]; exact h.only
    tnames := by rw [tbls_clean_names]; exact h.tnames
    tsys := by rw [tbls_clean_names]; exact h.tsys
    tlen := by
      intro e he
      obtain ⟨e0, he0, rfl⟩ := List.mem_map.mp he
      exact h.tlen e0 he0 }

/-- `flushPages_cat` with the remaining facts of `flushPages_spec` and `flushPages_disk`: the ghost
counter is kept, nothing in the cache is dirty, every page that was seen dirty is on disk, and the
disk image of a page that was not cached is untouched -/
theorem flushPages_cat_full {s : Store} {pt sch : Levels} {tbls : List (Bytes × Levels)} (order : List Nat)
    (h : Cat s pt sch tbls) (hf : MemFiled s) :
    ∃ s', flushPages order s = .ok () s' ∧ Cat s' (clean pt) (clean sch) (tbls.map fun e => (e.1, clean e.2)) ∧
      s'.hdr = s.hdr ∧ s'.dhdr = s.hdr ∧ s'.ghost = s.ghost ∧ MemFiled s' ∧
      (∀ off, view s' off = (view s off).map fun x => (x.1, false)) ∧
      (∀ p ∈ s'.mem, p.2.dirty = false) ∧
      (∀ off n, view s off = some (n, true) → assocGet s'.disk off = some n) ∧
      (∀ off, assocGet s.mem off = none → assocGet s'.disk off = assocGet s.disk off) := by
  obtain ⟨s', e, hc, hh, hdh, hf', hv⟩ := flushPages_cat order h hf
  obtain ⟨s1, e1, _, _, hg, _, _, hnd⟩ := flushPages_spec order s hf
  obtain ⟨s2, e2, hw, hu⟩ := flushPages_disk order s hf
  rw [e] at e1 e2
  simp only [SRes.ok.injEq, true_and] at e1 e2
  subst e1
  subst e2
  exact ⟨s', e, hc, hh, hdh, hg, hf', hv, hnd, hw, hu⟩

end Mkdb.Store
