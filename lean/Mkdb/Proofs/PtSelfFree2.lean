import Mkdb.Proofs.PtSelfFree1
import Mkdb.Proofs.BaseCase1
/-!
The page table's row about itself, part 2 (W10): **histories with CREATE TABLE.**

`Rounds` (ReplayCkpt8) has no CREATE TABLE and keeps `sys_schema` fixed.  Here rounds and accepted
CREATE TABLEs alternate (`HistCT`), and the checkpoint invariant - with the side conditions `PtSelf`
and `FreshM` of the crash-replay theorems - is shown of every database such a history reaches from
`CREATE DATABASE` on (`histCT_ckpt`, `histCT_from_create_database`): the side conditions are invariants,
not assumptions about the starting point.

* `tree_size`: a well-formed tree has at most `cells + 1` leaves and fewer internal levels than leaves
  (so the fuel side conditions follow from cell counts).
* `insRunOK_of_room`: the fuel / size side conditions `InsRunOK` of an INSERT statement, from room.
* `LiveRunM.names`, `Ckpt.round_noStale`: a round keeps `NoStale` (row statements keep the table names).
* `HistCT`, `histCT_ckpt`, `histCT_from_create_database`.
-/
set_option autoImplicit false
namespace Mkdb.Store
open Mkdb.Page Mkdb.Tuple Mkdb.Generated Mkdb.Tree Mkdb.Engine

/-! ### the size of a well-formed tree -/

theorem childOffs_length_ge (lvl : List (Internal × Bool)) (h : ∀ p ∈ lvl, 1 ≤ p.1.cells.length) :
    2 * lvl.length ≤ (childOffs lvl).length := by
  induction lvl with
  | nil => simp [childOffs]
  | cons p rest ih =>
    have h1 := h p List.mem_cons_self
    have h2 := ih (fun q hq => h q (List.mem_cons_of_mem _ hq))
    have e : childOffs (p :: rest) = (p.1.cells.map (·.child) ++ [p.1.right]) ++ childOffs rest := by
      simp [childOffs]
    rw [e]
    simp only [List.length_append, List.length_map, List.length_cons, List.length_nil]
    omega

theorem linked_depth : ∀ (lvls : List (List (Internal × Bool))) (below : List Nat), linked below lvls →
    (∀ lvl ∈ lvls, ∀ p ∈ lvl, 1 ≤ p.1.cells.length) → lvls.length + 1 ≤ below.length
  | [], below, h, _ => by
    simp only [linked] at h
    simp only [List.length_nil]
    omega
  | lvl :: rest, below, h, hc => by
    simp only [linked] at h
    have ih := linked_depth rest _ h.2 (fun l hl => hc l (List.mem_cons_of_mem _ hl))
    rw [List.length_map] at ih
    have h2 := childOffs_length_ge lvl (hc lvl List.mem_cons_self)
    rw [h.1] at h2
    simp only [List.length_cons]
    omega

theorem flatMap_cells_length (l : List (Leaf × Bool)) (h : ∀ p ∈ l, p.1.cells ≠ []) :
    l.length ≤ (l.flatMap (·.1.cells)).length := by
  induction l with
  | nil => simp
  | cons p rest ih =>
    have h1 : 1 ≤ p.1.cells.length := by
      have := h p List.mem_cons_self
      cases hc : p.1.cells with
      | nil => exact absurd hc this
      | cons a b => simp
    have h2 := ih (fun q hq => h q (List.mem_cons_of_mem _ hq))
    simp only [List.flatMap_cons, List.length_append, List.length_cons]
    omega

/-- **The size of a well-formed tree**: at most one leaf more than cells, and fewer internal levels
than leaves -/
theorem tree_size {t : Levels} {nf : Nat} (hI : Inv t nf) :
    t.leaves.length ≤ (cells t).length + 1 ∧ t.inner.length + 1 ≤ t.leaves.length := by
  constructor
  · by_cases h2 : 2 ≤ t.leaves.length
    · have := flatMap_cells_length t.leaves (hI.ne h2)
      unfold cells
      omega
    · omega
  · have := linked_depth t.inner _ hI.link (fun lvl hl p hp => (hI.cap.2 lvl hl p hp).1)
    rw [List.length_map] at this
    exact this

/-- the fuel side conditions of CREATE TABLE and of the statements, from a cell count -/
theorem tree_fuel {t : Levels} {nf n : Nat} (hI : Inv t nf) (hc : (cells t).length ≤ n) :
    t.inner.length ≤ n ∧ t.leaves.length ≤ n + 1 := by
  obtain ⟨h1, h2⟩ := tree_size hI
  omega

/-! ### `InsRunOK` from room -/

/-- the side conditions of an INSERT statement hold when there is room for one level and one leaf per
row and for the pages -/
theorem insRunOK_of_room (schema : List FieldDef) (cols : List String) : ∀ (rows : List (List Val))
    (t : Levels) (lk lsn nf : Nat),
    t.inner.length + rows.length + 2 ≤ treeFuel → t.leaves.length + rows.length ≤ scanFuel →
    nf + 262144 * rows.length ≤ 9223372036854775807 → InsRunOK schema cols t lk lsn nf rows
  | [], _, _, _, _, _, _, _ => trivial
  | r :: rest, t, lk, lsn, nf, h1, h2, h3 => by
    intro buf t' nf' _ hi
    obtain ⟨g1, g2, g3⟩ := insertAppend_growth hi
    simp only [List.length_cons] at h1 h2 h3
    have h64 := treeFuel_eq
    refine ⟨by omega, by omega, by omega, ?_⟩
    exact insRunOK_of_room schema cols rest t' _ _ nf' (by omega) (by omega) (by omega)

/-! ### rounds keep `NoStale` -/

/-- row statements keep the table names -/
theorem LiveRunM.names {sch : Levels} {s sN : Store} {tbls tblsN : List (Bytes × Levels)} {stmts : List RStmt}
    {logs : List WalRec} (run : LiveRunM sch s tbls stmts sN tblsN logs) :
    tblsN.map (·.1) = tbls.map (·.1) := by
  induction run with
  | nil s tbls => rfl
  | same _ _ ih => exact ih
  | ins table cols vals t schema buf t' nf' ht hsch hcols hnames henc hlen hins hd' hl' hbig hrun _ ih =>
    rw [ih, setTable_names]
  | upd table rowId cols src t schema c m buf ht hsch hc hk hdec henc hlen hrun _ ih =>
    rw [ih, setTable_names]
  | updAbsent table rowId cols src t schema ht hsch habs hrun _ ih => exact ih
  | del table rowId t c ht hc hk hrun _ ih =>
    rw [ih, setTable_names]

/-- `NoStale` only looks at the names -/
theorem NoStale.of_names {sch : Levels} {tbls tbls2 : List (Bytes × Levels)} (h : NoStale sch tbls)
    (hsub : ∀ n ∈ tbls.map (·.1), n ∈ tbls2.map (·.1)) : NoStale sch tbls2 :=
  fun n hn h1 h2 => h n (fun hm => hn (hsub n hm)) h1 h2

/-- after a run of statements from a database with `NoStale`, every catalog description of the final
store has `NoStale` -/
theorem specRun_noStale {sch : Levels} {db dbN : Engine.DB} {sdb sdbN : Spec.SDB} {stmts : List EStmt}
    (run : SpecRun sch db sdb stmts dbN sdbN) {pt : Levels} {tbls : List (Bytes × Levels)}
    (hA : AbsV db.store pt sch tbls sdb) (hns : NoStale sch tbls)
    {ptL : Levels} {tblsL : List (Bytes × Levels)} (hL : AbsV dbN.store ptL sch tblsL sdbN) :
    NoStale sch tblsL := by
  obtain ⟨ptN, tblsN, _, _, hrun, _, hAN⟩ := spec_run_live sch run pt tbls hA
  obtain ⟨_, habsN, _⟩ := hAN
  obtain ⟨_, habsL, _⟩ := hL
  apply hns.of_names
  intro n hn
  rw [← hrun.names] at hn
  obtain ⟨e, he, rfl⟩ := List.mem_map.mp hn
  exact List.mem_map.mpr ⟨e, habsN.cat.tbls_sub habsL.cat e he, rfl⟩

/-- **Rounds keep the checkpoint invariant together with `NoStale`.** -/
theorem rounds_ckpt_noStale {sch : Levels} {db db' : Engine.DB} {sdb sdb' : Spec.SDB}
    (hist : Rounds sch db sdb db' sdb') {pt : Levels} {tbls : List (Bytes × Levels)}
    (h : Ckpt sch db sdb pt tbls) (hns : NoStale sch tbls) :
    ∃ pt' tbls', Ckpt sch db' sdb' pt' tbls' ∧ NoStale sch tbls' := by
  induction hist with
  | nil => exact ⟨pt, tbls, h, hns⟩
  | flush _ run hfl ih =>
    obtain ⟨pt1, tbls1, h1, hns1⟩ := ih
    obtain ⟨_, hcs, _⟩ := h1.disk.clean_eq
    obtain ⟨db', ptL, tblsL, e, _, hAL, hk, _⟩ := h1.flush_round_full run _
    rw [hfl] at e
    simp only [Engine.Res.ok.injEq, true_and] at e
    subst e
    refine ⟨_, _, hk, ?_⟩
    have := (specRun_noStale run h1.abs hns1 hAL).clean
    rw [hcs] at this
    exact this
  | crash _ run hrec ih =>
    obtain ⟨pt1, tbls1, h1, hns1⟩ := ih
    obtain ⟨_, hcs, _⟩ := h1.disk.clean_eq
    obtain ⟨db', ptL, tblsL, e, _, hAL, hk, _⟩ := h1.recover_round_full run _ _
    rw [hrec] at e
    simp only [Engine.RecRes.ok.injEq] at e
    subst e
    refine ⟨_, _, hk, ?_⟩
    have := (specRun_noStale run h1.abs hns1 hAL).clean
    rw [hcs] at this
    exact this

/-! ### histories with CREATE TABLE -/

/-- the room an accepted CREATE TABLE needs, for whatever catalog description the store has -/
def CreateRoom (db : Engine.DB) (sch : Levels) (cols : List Sql.ColDef) : Prop :=
  ∀ pt tbls, Cat db.store pt sch tbls →
    pt.inner.length + 3 ≤ treeFuel ∧ pt.leaves.length + 1 ≤ scanFuel ∧
    sch.inner.length + cols.length + 2 ≤ treeFuel ∧ sch.leaves.length + cols.length ≤ scanFuel ∧
    db.store.hdr.nextFree + 262144 * cols.length + 262144 ≤ 9223372036854775807

/-- **A history of rounds and CREATE TABLEs** from `db0` (`sys_schema` tree `sch0`, plain database
`sdb0`): `rounds` is any number of rounds `statements ; flush` / `statements ; crash ; recovery`
(`Rounds`); `create` is a CREATE TABLE the plain model accepts (fresh name that is not a catalog table,
the per-column and catalog-row checks pass, room), run by the engine; `sch2` is the `sys_schema` tree of
the store it leaves. -/
inductive HistCT (sch0 : Levels) (db0 : Engine.DB) (sdb0 : Spec.SDB) : Levels → Engine.DB → Spec.SDB → Prop
  | nil : HistCT sch0 db0 sdb0 sch0 db0 sdb0
  | rounds {sch1 : Levels} {db1 db2 : Engine.DB} {sdb1 sdb2 : Spec.SDB}
      (hist : HistCT sch0 db0 sdb0 sch1 db1 sdb1) (hr : Rounds sch1 db1 sdb1 db2 sdb2) :
      HistCT sch0 db0 sdb0 sch1 db2 sdb2
  | create {sch1 sch2 : Levels} {db1 db2 : Engine.DB} {sdb1 : Spec.SDB}
      (hist : HistCT sch0 db0 sdb0 sch1 db1 sdb1) (name : Bytes) (cols : List Sql.ColDef) (order : List Nat)
      (hfind : Spec.findTable sdb1 name = none) (hn1 : name ≠ sysPages) (hn2 : name ≠ sysSchema)
      (hfld : checkFieldsFrom [] (cols.map Engine.colTypeToField) = none)
      (hchk : checkCatalogRows (cols.map Engine.colTypeToField) name = none)
      (hroom : CreateRoom db1 sch1 cols)
      (heval : evalStmt db1 order (.createTable name cols) = .ok () db2)
      {pt2 : Levels} {tbls2 : List (Bytes × Levels)} (hsch : Cat db2.store pt2 sch2 tbls2) :
      HistCT sch0 db0 sdb0 sch2 db2 (sdb1 ++ [⟨name, cols.map Spec.colField, []⟩])

/-- **Every database such a history reaches is checkpointed** - for the plain database of all
acknowledged statements, with `PtSelf` and `FreshM`: the side conditions of the crash-replay theorems
(`C02_crash_after_a_checkpoint`, `C03_*`) hold at every point of the history, however many tables were
created, whether or not the page table has split. -/
theorem histCT_ckpt {sch0 sch : Levels} {db0 db : Engine.DB} {sdb0 sdb : Spec.SDB}
    (hist : HistCT sch0 db0 sdb0 sch db sdb) {pt0 : Levels} {tbls0 : List (Bytes × Levels)}
    (h : Ckpt sch0 db0 sdb0 pt0 tbls0) (hns : NoStale sch0 tbls0) :
    ∃ pt tbls, Ckpt sch db sdb pt tbls ∧ NoStale sch tbls := by
  induction hist with
  | nil => exact ⟨pt0, tbls0, h, hns⟩
  | rounds _ hr ih =>
    obtain ⟨pt1, tbls1, h1, hns1⟩ := ih
    exact rounds_ckpt_noStale hr h1 hns1
  | create _ name cols order hfind hn1 hn2 hfld hchk hroom heval hsch ih =>
    obtain ⟨pt1, tbls1, h1, hns1⟩ := ih
    obtain ⟨_, habs1, _⟩ := h1.abs
    obtain ⟨r1, r2, r3, r4, r5⟩ := hroom pt1 tbls1 habs1.cat
    obtain ⟨db', pt', sch', tbls', e, _, hk, hns', _⟩ := h1.createTable_ok hns1 name cols order hfind hn1 hn2 hfld
      hchk r1 r2 r3 r4 r5
    have e2 : evalStmt _ order (.createTable name cols) = .ok () db' := e
    rw [heval] at e2
    simp only [Engine.Res.ok.injEq, true_and] at e2
    subst e2
    obtain ⟨_, habs', _⟩ := hk.abs
    have es : sch' = _ := habs'.cat.sch_unique hsch
    subst es
    exact ⟨pt', tbls', hk, hns'⟩

/-- **… from CREATE DATABASE**: every database reached from the one `CREATE DATABASE` leaves (`newDB`)
by rounds and CREATE TABLEs is checkpointed; in it, the self-row of the page table names a page of the
page table and every page of every user table is older than the LSN counter. -/
theorem histCT_from_create_database {sch : Levels} {db : Engine.DB} {sdb : Spec.SDB}
    (hist : HistCT schNew newDB [] sch db sdb) :
    ∃ pt tbls, Ckpt sch db sdb pt tbls ∧ NoStale sch tbls ∧ PtSelf pt ∧ FreshM db.store tbls := by
  obtain ⟨pt, tbls, hk, hns⟩ := histCT_ckpt hist ckpt_newDB noStale_new
  exact ⟨pt, tbls, hk, hns, hk.self, hk.fresh⟩

/-- … and no recovery fails in it: after any further statements, a crash is recovered from, and the
recovered store abstracts to the plain database of all acknowledged statements -/
theorem histCT_recover {sch : Levels} {db dbN : Engine.DB} {sdb sdbN : Spec.SDB} {stmts : List EStmt}
    (hist : HistCT schNew newDB [] sch db sdb) (run : SpecRun sch db sdb stmts dbN sdbN) (o1 o2 : List Nat) :
    ∃ db2, Engine.recover dbN o1 o2 = .ok db2 ∧ HistCT schNew newDB [] sch db2 sdbN ∧
      ∃ pt2 tbls2, AbsV db2.store pt2 sch tbls2 sdbN ∧ ∀ r ∈ db2.wal, Applied tbls2 db2.store r := by
  obtain ⟨pt, tbls, hk, _⟩ := histCT_ckpt hist ckpt_newDB noStale_new
  obtain ⟨db2, e, hr, h2⟩ := rounds_recover hk .nil run o1 o2
  exact ⟨db2, e, .rounds hist hr, h2⟩

end Mkdb.Store
