import Mkdb.Proofs.TypedStmt4
/-!
# From keystrokes to the parsed statement, part 5: the concrete session of the examples in `Props/C20Parse.lean`

Two statements typed in one entry: `insert INTO t VALUES ('a; b');` - a `;` and a blank inside the
string literal - and, behind it on the same line, a SELECT that goes on over two more lines:

    ␣insert INTO t VALUES ('a; b'); select a⏎
    ␣from t⏎
    where a = 1;⏎
-/
namespace Mkdb.Console.TypedEx
open Mkdb.Scan Mkdb.Generated Mkdb.Sql Mkdb.Console

/-- `insert INTO t VALUES ('a; b');` and one blank behind it -/
def exIns : Typed where
  stmt := .insert [116] [] [[.str [97, 59, 32, 98]]]
  cases := fun i => if i == 0 then [true, true, true, true, true, true] else []
  gap := fun i => [[], [.ws 32], [.ws 32], [.ws 32], [.ws 32], [], [], [], []].getD i []
  after := [32]

/-- `select a  from t where a = 1;`: the two blanks before `from` are typed as Enter and a blank, the
blank before `where` as Enter; the final Enter stands as the blank behind the `;` -/
def exSel : Typed where
  stmt := .select {
    list := [⟨.expr (.val (.col ⟨[], [97]⟩)), []⟩],
    from_ := some (.table ⟨[116], none⟩),
    where_ := some (.pred ⟨.col ⟨[], [97]⟩, t_EQ, .lit (.int 1)⟩) }
  cases := fun _ => [true, true, true, true, true, true]
  gap := fun i => [[], [.ws 32], [.ws 32, .ws 32], [.ws 32], [.ws 32], [.ws 32], [.ws 32], [.ws 32], [], []].getD i []
  after := [32]

/-- the keys pressed: a blank, the INSERT, a blank, `select a`, Enter, a blank, `from t`, Enter,
`where a = 1;`, Enter -/
def exKeys : List Nat :=
  [32] ++ strCodes "insert INTO t VALUES ('a; b'); select a" ++ [13, 32] ++ strCodes "from t" ++ [13] ++
    strCodes "where a = 1;" ++ [13]

theorem exIns_ok : exIns.OK where
  lit := rfl
  wf := by decide
  textOK := by decide
  blank := fun i => blankGap_getD _ (by decide) i
  first := rfl
  last := rfl
  layout := by decide
  after := (blank_iff_all _).mp (by decide)

theorem exSel_ok : exSel.OK where
  lit := rfl
  wf := by decide
  textOK := by decide
  blank := fun i => blankGap_getD _ (by decide) i
  first := rfl
  last := rfl
  layout := by decide
  after := (blank_iff_all _).mp (by decide)

theorem exKeys_valid : ∀ k ∈ exKeys, k = 13 ∨ (isPrintable k = true ∧ k ≠ 13) := by decide

theorem exKeys_text : exKeys.map (fun k => if k = 13 then 32 else k) =
    [32] ++ [exIns, exSel].flatMap (fun t => t.keys ++ t.after) := by decide +kernel

/-- the same entry with the blank INSIDE the literal typed as Enter: the console makes a blank of it -/
def exKeysBreakInLiteral : List Nat :=
  [32] ++ strCodes "insert INTO t VALUES ('a;" ++ [13] ++ strCodes "b'); select a" ++ [13, 32] ++ strCodes "from t" ++ [13] ++
    strCodes "where a = 1;" ++ [13]

theorem exKeysBreakInLiteral_valid : ∀ k ∈ exKeysBreakInLiteral, k = 13 ∨ (isPrintable k = true ∧ k ≠ 13) := by decide

theorem exKeysBreakInLiteral_text : exKeysBreakInLiteral.map (fun k => if k = 13 then 32 else k) =
    [32] ++ [exIns, exSel].flatMap (fun t => t.keys ++ t.after) := by decide +kernel

end Mkdb.Console.TypedEx
