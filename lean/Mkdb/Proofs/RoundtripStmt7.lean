import Mkdb.Proofs.RoundtripStmt6
/-!
Token-level round trip (C10), part 7: the converse - `wfStmt` is not too narrow.  Whatever token
list `Parser.Parse` accepts, the statement it returns is well formed (relative to all literals):
together with part 6, the well-formed statements are exactly the parser's range.
-/
namespace Mkdb.Sql
open Mkdb.Scan Mkdb.Generated

/-- split the `match` on a parser result in `h : … = .ok a rest`; only the `.ok` branch survives -/
macro "rsplit" h:ident : tactic =>
  `(tactic| (split at $h:ident <;> first | (cases $h:ident; done) | skip))

/-- the literals a token can carry: every string and boolean, the int64 integers -/
def int64Lit : Lit → Bool
  | .int i => decide (-9223372036854775808 ≤ i) && decide (i ≤ 9223372036854775807)
  | _ => true

theorem atoi_core' (neg : Bool) (ds : Bytes) (i : Int)
    (h : (if ds.isEmpty then none else
      match digitsVal ds 0 with
      | none => none
      | some n =>
        let v : Int := if neg then -(n : Int) else n
        if v < -9223372036854775808 ∨ v > 9223372036854775807 then none else some v) = some i) :
    -9223372036854775808 ≤ i ∧ i ≤ 9223372036854775807 := by
  split at h
  · cases h
  · split at h
    · cases h
    · rename_i n _
      by_cases hc : (if neg then -(n : Int) else n) < -9223372036854775808 ∨
          (if neg then -(n : Int) else n) > 9223372036854775807
      · simp only [hc, ↓reduceIte] at h; cases h
      · simp only [hc, ↓reduceIte] at h; cases h; omega

theorem atoi_int64 {f : Bytes} {i : Int} (h : atoi f = some i) :
    -9223372036854775808 ≤ i ∧ i ≤ 9223372036854775807 := by
  unfold atoi at h
  split at h <;> exact atoi_core' _ _ _ h

/-- the literal of a token is in range -/
theorem tokenVal_range {t : Token} {l : Lit} (h : tokenVal t = .ok l) : int64Lit l = true := by
  unfold tokenVal at h
  split at h
  · cases h; rfl
  · split at h
    · split at h
      · rename_i i ha
        cases h
        have := atoi_int64 ha
        simp only [int64Lit, Bool.and_eq_true, decide_eq_true_eq]; exact this
      · cases h
    · split at h
      · cases h; rfl
      · split at h <;> cases h
        rfl

theorem matchTy_inv {tys : List Int} {ts : List Token} {o : Option Token} {rest : List Token}
    (h : matchTy tys ts = .ok o rest) :
    (o = none ∧ rest = ts ∧ HeadNot tys ts) ∨ (∃ t, o = some t ∧ ts = t :: rest ∧ tys.contains t.ty = true) := by
  cases ts with
  | nil => simp only [matchTy] at h; cases h; exact Or.inl ⟨rfl, rfl, trivial⟩
  | cons t r =>
    rw [matchTy_cons] at h
    split at h
    · cases h; rename_i hc; exact Or.inr ⟨t, rfl, rfl, hc⟩
    · cases h; rename_i hc; exact Or.inl ⟨rfl, rfl, by simpa [HeadNot] using hc⟩

/-- every value `p` can return satisfies `Q` -/
def Ret {α} (p : P α) (Q : α → Prop) : Prop := ∀ ts a r, p ts = .ok a r → Q a

theorem Ret.bind {α β} {m : P α} {f : α → P β} {Q1 : α → Prop} {Q : β → Prop} (hm : Ret m Q1)
    (hf : ∀ a, Q1 a → Ret (f a) Q) : Ret (m >>= f) Q := by
  intro ts b r h
  rw [bind_apply] at h
  rsplit h
  rename_i a mid hma
  exact hf a (hm _ _ _ hma) _ _ _ h

theorem Ret.any {α} (p : P α) : Ret p (fun _ => True) := fun _ _ _ _ => trivial

theorem Ret.pure {α} {a : α} {Q : α → Prop} (h : Q a) : Ret (Pure.pure a : P α) Q := by
  intro ts b r hb; cases hb; exact h

theorem Ret.fail {α} {e : PErr} {Q : α → Prop} : Ret (fail e : P α) Q := by
  intro ts b r hb; cases hb

/-- decompose a goal `Ret (do …) Q` whose intermediate values do not matter -/
macro "ret_auto" : tactic => `(tactic| repeat' (first
  | with_reducible exact Ret.fail
  | ((with_reducible apply Ret.pure); first | assumption | rfl | trivial)
  | ((with_reducible apply Ret.bind (Ret.any _)); intro _ _)
  | split))

theorem Ret.matchTy (tys : List Int) :
    Ret (Sql.matchTy tys) (fun o => ∀ t, o = some t → tys.contains t.ty = true) := by
  intro ts o r h t ho
  subst ho
  rcases matchTy_inv h with ⟨h1, _, _⟩ | ⟨t', h1, _, hc⟩
  · cases h1
  · cases h1; exact hc

theorem Ret.valueExpression : Ret Sql.valueExpression (fun v => wfV int64Lit v = true) := by
  unfold Sql.valueExpression
  with_reducible apply Ret.bind (Ret.any _); intro o _
  split
  · split
    · rename_i hv; exact Ret.pure (tokenVal_range hv)
    · exact Ret.fail
  · with_reducible apply Ret.bind (Ret.any _); intro oc _
    split
    · exact Ret.pure rfl
    · exact Ret.fail

/-- what `Predicate` returns: a bare value or a comparison with one of the six operators -/
theorem predicate_inv {ts : List Token} {c : Cond} {rest : List Token} (h : predicate ts = .ok c rest) :
    wfAnd int64Lit c = true := by
  have hr : Ret predicate (fun c => wfAnd int64Lit c = true) := by
    unfold predicate
    with_reducible apply Ret.bind Ret.valueExpression; intro lhs hl
    with_reducible apply Ret.bind (Ret.matchTy compOps); intro o ho
    split
    · exact Ret.pure hl
    · rename_i op
      with_reducible apply Ret.bind Ret.valueExpression; intro rhs hrhs
      apply Ret.pure
      simp only [wfAnd, wfPred, ho op rfl, hl, hrhs, Bool.and_self]
  exact hr _ _ _ h

theorem and_inv (f : Nat) : ∀ (ts : List Token) (c : Cond) (rest : List Token),
    (andCond f ts = .ok c rest → wfAnd int64Lit c = true) ∧
    (∀ ret, wfAnd int64Lit ret = true → andLoop f ret ts = .ok c rest → wfAnd int64Lit c = true) := by
  induction f with
  | zero => intro ts c rest; exact ⟨fun h => (by cases h), fun _ _ h => (by cases h)⟩
  | succ f ih =>
    intro ts c rest
    constructor
    · intro h
      rw [andCond_succ] at h
      rsplit h
      rename_i ret mid hp
      exact (ih mid c rest).2 ret (predicate_inv hp) h
    · intro ret hret h
      simp only [andLoop, bind_apply] at h
      rsplit h
      rename_i o mid hm
      rcases matchTy_inv hm with ⟨rfl, _, _⟩ | ⟨t, rfl, _, _⟩
      · simp only [pure_apply] at h; cases h; exact hret
      · cases ret with
        | pred p =>
          simp only [bind_apply] at h
          rsplit h
          rename_i rhs mid2 hrhs
          have h1 := (ih mid rhs mid2).1 hrhs
          refine (ih mid2 c rest).2 (.and p rhs) ?_ h
          simp only [wfAnd, Bool.and_eq_true] at hret ⊢
          exact ⟨hret, h1⟩
        | val v => cases h
        | and _ _ => cases h
        | or _ _ => cases h

theorem or_inv (f : Nat) : ∀ (ts : List Token) (c : Cond) (rest : List Token),
    (orCond f ts = .ok c rest → wfCond int64Lit c = true ∧ HeadNot [t_OR] rest) ∧
    (∀ ret, wfAnd int64Lit ret = true → orLoop f ret ts = .ok c rest → wfCond int64Lit c = true ∧ HeadNot [t_OR] rest) := by
  induction f with
  | zero => intro ts c rest; exact ⟨fun h => (by cases h), fun _ _ h => (by cases h)⟩
  | succ f ih =>
    intro ts c rest
    constructor
    · intro h
      rw [orCond_succ] at h
      rsplit h
      rename_i ret mid hp
      exact (ih mid c rest).2 ret ((and_inv f ts ret mid).1 hp) h
    · intro ret hret h
      simp only [orLoop, bind_apply] at h
      rsplit h
      rename_i o mid hm
      rcases matchTy_inv hm with ⟨rfl, rfl, hn⟩ | ⟨t, rfl, _, _⟩
      · simp only [pure_apply] at h; cases h; exact ⟨wfCond_of_wfAnd _ _ hret, hn⟩
      · simp only [bind_apply] at h
        rsplit h
        rename_i rhs mid2 hrhs
        obtain ⟨h1, h2⟩ := (ih mid rhs mid2).1 hrhs
        -- no OR follows the right operand: the loop ends here
        cases f with
        | zero => cases h
        | succ f' =>
          rw [orLoop_succ_miss _ _ _ h2] at h
          cases h
          exact ⟨by simp only [wfCond, hret, h1, Bool.and_self], h2⟩

theorem orCond_inv {f : Nat} {ts : List Token} {c : Cond} {rest : List Token} (h : orCond f ts = .ok c rest) :
    wfCond int64Lit c = true := ((or_inv f ts c rest).1 h).1

/-! ## Lists -/

theorem sepLoop_inv {α} (Q : α → Prop) (body : P (α × Bool))
    (hb : ∀ ts x b r, body ts = .ok (x, b) r → Q x) (f : Nat) : ∀ (ts : List Token) (xs : List α) (rest : List Token),
    sepLoop f body ts = .ok xs rest → xs ≠ [] ∧ ∀ x ∈ xs, Q x := by
  induction f with
  | zero => intro ts xs rest h; cases h
  | succ f ih =>
    intro ts xs rest h
    simp only [sepLoop, bind_apply] at h
    rsplit h
    rename_i xb mid hx
    obtain ⟨x, b⟩ := xb
    have hq := hb _ _ _ _ hx
    cases b with
    | false =>
      simp only [Bool.false_eq_true, ↓reduceIte, pure_apply] at h
      cases h
      exact ⟨by simp, fun y hy => by simp only [List.mem_singleton] at hy; subst hy; exact hq⟩
    | true =>
      simp only [↓reduceIte, bind_apply] at h
      rsplit h
      rename_i tl mid2 htl
      simp only [pure_apply] at h
      cases h
      obtain ⟨_, h2⟩ := ih _ _ _ htl
      exact ⟨by simp, fun y hy => by
        simp only [List.mem_cons] at hy
        rcases hy with rfl | hy
        · exact hq
        · exact h2 y hy⟩

/-! ## Select list -/

theorem setFunction_inv {ts : List Token} {it : SelItem} {rest : List Token}
    (h : setFunction ts = .ok (some it) rest) : wfItem int64Lit it = true := by
  simp only [setFunction, bind_apply] at h
  rsplit h
  rename_i o mid hm
  rcases matchTy_inv hm with ⟨rfl, rfl, _⟩ | ⟨t, rfl, _, _⟩
  · simp only [bind_apply] at h
    rsplit h
    rename_i o2 mid2 hm2
    rcases matchTy_inv hm2 with ⟨rfl, rfl, _⟩ | ⟨t, rfl, _, _⟩
    · simp only [pure_apply] at h; cases h
    · simp only [bind_apply] at h
      rsplit h
      rsplit h
      rename_i oc _ _
      cases oc with
      | none => cases h
      | some c =>
        simp only [bind_apply] at h
        rsplit h
        simp only [pure_apply] at h; cases h; rfl
  · simp only [bind_apply] at h
    rsplit h
    rsplit h
    rename_i item _ hitem
    rsplit h
    simp only [pure_apply] at h
    cases h
    -- the item is a COUNT
    rsplit hitem
    rename_i oc _ _
    cases oc with
    | some c => simp only [pure_apply] at hitem; cases hitem; rfl
    | none =>
      simp only [bind_apply] at hitem
      rsplit hitem
      simp only [pure_apply] at hitem; cases hitem; rfl

theorem derivedColumn_inv {f : Nat} {ts : List Token} {it : SelItem} {rest : List Token}
    (h : derivedColumn f ts = .ok it rest) : wfItem int64Lit it = true := by
  simp only [derivedColumn, bind_apply] at h
  rsplit h
  rename_i o mid hs
  cases o with
  | some s => simp only [pure_apply] at h; cases h; exact setFunction_inv hs
  | none =>
    simp only [bind_apply] at h
    rsplit h
    rename_i c _ hc
    simp only [pure_apply] at h; cases h
    exact orCond_inv hc

theorem selBody_inv {f : Nat} {ts : List Token} {d : DerivedCol} {b : Bool} {rest : List Token}
    (h : selBody f ts = .ok (d, b) rest) : wfItem int64Lit d.item = true := by
  have hr : Ret (selBody f) (fun x => wfItem int64Lit x.1.item = true) := by
    have hd : Ret (derivedColumn f) (fun it => wfItem int64Lit it = true) := fun _ _ _ hd => derivedColumn_inv hd
    unfold selBody
    with_reducible apply Ret.bind hd
    intro it hit
    ret_auto
  exact hr _ _ _ h

theorem selectList_inv {f : Nat} {ts : List Token} {sl : List DerivedCol} {rest : List Token}
    (h : selectList f ts = .ok sl rest) : wfSelList int64Lit sl = true := by
  simp only [selectList_eq, bind_apply] at h
  rsplit h
  rename_i o mid hm
  cases o with
  | some t => simp only [pure_apply] at h; cases h; rfl
  | none =>
    obtain ⟨hne, hall⟩ := sepLoop_inv (fun d => wfItem int64Lit d.item = true) (selBody f)
      (fun _ _ _ _ hb => selBody_inv hb) f _ _ _ h
    simp only [wfSelList, Bool.or_eq_true, decide_eq_true_eq, Bool.and_eq_true, Bool.not_eq_eq_eq_not,
      Bool.not_true, List.isEmpty_eq_false_iff, List.all_eq_true]
    exact Or.inr ⟨hne, hall⟩

/-! ## FROM, WHERE, LIMIT -/

/-- every ON condition of the chain is well formed -/
def wfTR (tr : TableRef) : Bool := tr.joins.all fun j => wfCond int64Lit j.2.2

theorem Ret.orCond (f : Nat) : Ret (Sql.orCond f) (fun c => wfCond int64Lit c = true) :=
  fun _ _ _ h => orCond_inv h

theorem joinLoop_inv (f : Nat) : ∀ lhs, wfTR lhs = true → Ret (joinLoop f lhs) (fun tr => wfTR tr = true) := by
  induction f with
  | zero => intro lhs _ ts a r h; cases h
  | succ f ih =>
    intro lhs hl
    unfold joinLoop
    with_reducible apply Ret.bind (Ret.any _); intro b _
    split
    · with_reducible apply Ret.bind (Ret.any _); intro jt _
      with_reducible apply Ret.bind (Ret.any _); intro _ _
      with_reducible apply Ret.bind (Ret.any _); intro rhs _
      with_reducible apply Ret.bind (Ret.any _); intro _ _
      with_reducible apply Ret.bind (Ret.orCond f); intro on hon
      apply ih
      simp only [wfTR, TableRef.joins, List.all_append, List.all_cons, List.all_nil, Bool.and_true,
        Bool.and_eq_true] at hl ⊢
      exact ⟨hl, hon⟩
    · exact Ret.pure hl

theorem Ret.fromClause (f : Nat) : Ret (Sql.fromClause f) (fun o => ∀ tr, o = some tr → wfTR tr = true) := by
  unfold Sql.fromClause
  with_reducible apply Ret.bind (Ret.any _); intro o _
  split
  · exact Ret.pure (fun tr h => by cases h)
  · with_reducible apply Ret.bind (Ret.any _); intro tn _
    with_reducible apply Ret.bind (joinLoop_inv f (.table tn) rfl); intro tr htr
    exact Ret.pure (fun tr' h => by cases h; exact htr)

theorem Ret.whereClause (f : Nat) : Ret (Sql.whereClause f) (fun w => wfOptCond int64Lit w = true) := by
  unfold Sql.whereClause
  with_reducible apply Ret.bind (Ret.any _); intro o _
  split
  · exact Ret.pure rfl
  · with_reducible apply Ret.bind (Ret.orCond f); intro c hc
    exact Ret.pure hc

theorem Ret.requireInt : Ret Sql.requireInt (fun n => int64Lit (.int n) = true) := by
  unfold Sql.requireInt
  with_reducible apply Ret.bind (Ret.any _); intro t _
  split
  · rename_i hv; exact Ret.pure (tokenVal_range hv)
  · intro ts a r h; cases h
  · exact Ret.fail

/-- an absent bound is 0, a present one is in range -/
def LInv (lc : LimitOffset) : Prop :=
  (lc.limitActive = false → lc.limit = 0) ∧ (lc.offsetActive = false → lc.offset = 0) ∧
  (lc.limitActive = true → int64Lit (.int lc.limit) = true) ∧
  (lc.offsetActive = true → int64Lit (.int lc.offset) = true)

theorem limitLoop_inv (f : Nat) : ∀ lc, LInv lc → Ret (limitLoop f lc) LInv := by
  induction f with
  | zero => intro lc _ ts a r h; cases h
  | succ f ih =>
    intro lc hl
    unfold limitLoop
    with_reducible apply Ret.bind (Ret.any _); intro o _
    split
    · exact Ret.pure hl
    · split
      · with_reducible apply Ret.bind Ret.requireInt; intro n hn
        apply ih
        exact ⟨fun h => (by cases h), hl.2.1, fun _ => hn, hl.2.2.2⟩
      · split
        · with_reducible apply Ret.bind Ret.requireInt; intro n hn
          apply ih
          exact ⟨hl.1, fun h => (by cases h), hl.2.2.1, fun _ => hn⟩
        · exact ih lc hl

theorem Ret.limitOffsetClause (f : Nat) : Ret (Sql.limitOffsetClause f) (fun lc => wfLimit int64Lit lc = true) := by
  have h0 : LInv {} := by
    unfold LInv
    exact ⟨fun _ => rfl, fun _ => rfl, fun h => (by cases h), fun h => (by cases h)⟩
  unfold Sql.limitOffsetClause
  with_reducible apply Ret.bind (limitLoop_inv f {} h0); intro lc hl
  split
  · exact Ret.fail
  · split
    · exact Ret.fail
    · rename_i h1 h2
      apply Ret.pure
      obtain ⟨la, oa, l, off⟩ := lc
      simp only [LInv] at hl
      simp only at h1 h2
      obtain ⟨ha, hb, hc, hd⟩ := hl
      cases la <;> cases oa <;>
        simp only [wfLimit, Bool.false_eq_true, ↓reduceIte, Bool.and_eq_true, decide_eq_true_eq] <;>
        refine ⟨?_, ?_⟩ <;> first | exact ha rfl | exact hb rfl | exact ⟨by omega, hc rfl⟩ | exact ⟨by omega, hd rfl⟩

end Mkdb.Sql
