import Mkdb.Proofs.CrashBytes3
import Mkdb.Proofs.BaseCase2
/-!
Crash at an arbitrary byte of a statement's log append, part 4: **non-vacuity on a computed
database.**

`tableDB` (`BaseCase2`) is the database the model computes for `CREATE DATABASE ; CREATE TABLE t (a INT)`.
`INSERT INTO t VALUES (5), (6)` on it logs two records of 34 bytes each (4 length bytes + 25 header
bytes + 5 value bytes).  The log file cut after 54 bytes - 16 bytes into the 30-byte body of the second
record - is read as the first record alone, flagged torn, and truncated to 34 bytes; replaying that
record on the store of `tableDB` gives a store that abstracts to the table with exactly the row `(5)`;
the row-id counter is 11 (= 10 + 1).
-/
set_option autoImplicit false
namespace Mkdb.Store
open Mkdb.Page Mkdb.Tuple Mkdb.Generated Mkdb.Tree Mkdb.Engine

/-- the two records `INSERT INTO t VALUES (5), (6)` logs on `tableDB` -/
def recT1 : WalRec := ⟨0, 10, 12288, 11, [0, 5, 0, 0, 0]⟩
def recT2 : WalRec := ⟨0, 11, 12288, 12, [0, 6, 0, 0, 0]⟩

/-- a statement succeeded with this log and these counters -/
def okWithLog (r : Engine.Res Nat) (w : List WalRec) (h : Header) : Bool :=
  match r with
  | .ok _ db => db.wal == w && db.store.hdr == h
  | _ => false

theorem of_okWithLog {r : Engine.Res Nat} {w : List WalRec} {h : Header} {n : Nat} {db : Engine.DB}
    (hok : okWithLog r w h = true) (hr : r = .ok n db) : db.wal = w ∧ db.store.hdr = h := by
  subst hr
  simp only [okWithLog, Bool.and_eq_true, beq_iff_eq] at hok
  exact hok

/-- the INSERT on `tableDB`, computed: its log and the counters it leaves -/
theorem insertT_log :
    okWithLog (Engine.evalInsert tableDB tname [] [[.int 5], [.int 6]]) [recT1, recT2] ⟨12, 4096, 16384, 12⟩ = true := by
  decide +kernel

/-- neither of the two inserts moves the root of `t` -/
theorem noMoveT : InsNoMove schemaA ([].map Engine.bytesToName) tT 10 10 16384 [[.int 5], [.int 6]] := by
  intro buf t' nf' he hi
  have e1 : encodeTuple schemaA ((colsOf schemaA ([].map Engine.bytesToName)).zip [Val.int 5]).reverse =
      .ok [0, 5, 0, 0, 0] := rfl
  rw [e1] at he
  cases he
  have i1 : insertAppend tT (10 + 1) 10 [0, 5, 0, 0, 0] 16384 = .ok (tT1, 16384) := rfl
  rw [i1] at hi
  cases hi
  refine ⟨by decide, ?_⟩
  show InsNoMove schemaA ([].map Engine.bytesToName) tT1 11 11 16384 [[.int 6]]
  intro buf t' nf' he hi
  have e2 : encodeTuple schemaA ((colsOf schemaA ([].map Engine.bytesToName)).zip [Val.int 6]).reverse =
      .ok [0, 6, 0, 0, 0] := rfl
  rw [e2] at he
  cases he
  have i2 : insertAppend tT1 (11 + 1) 11 [0, 6, 0, 0, 0] 16384 = .ok (tT2, 16384) := rfl
  rw [i2] at hi
  cases hi
  exact ⟨by decide, trivial⟩

theorem pinT (pt : Levels) (tbls : List (Bytes × Levels)) (t : Levels) (schema : List FieldDef)
    (hA : AbsV tableDB.store pt schT tbls sdbA0) (ht : (tname, t) ∈ tbls)
    (hs : schemaOf schT tname = some schema) : t = tT ∧ schema = schemaA := by
  obtain ⟨_, habs, _⟩ := hA
  have ht0 : t = tT := habs.cat.tree_unique cat_tableDB ht (List.mem_singleton.mpr rfl)
  rw [schT_t] at hs
  simp only [Option.some.injEq] at hs
  exact ⟨ht0, hs.symm⟩

/-- **Non-vacuity of `insert_byte_cut`, and what it yields on a computed database.**  All hypotheses of
`insert_byte_cut` hold for `INSERT INTO t VALUES (5), (6)` on `tableDB` (empty history).  The log file
(68 bytes) cut after 54 bytes: `wal.read` returns the first record, 34 good bytes, torn; the truncated
file is the file of that record; replaying it on the store of `tableDB` succeeds and the store
abstracts to the plain database whose table `t` holds exactly the row `(5)`; the row-id counter is 11. -/
theorem byte_cut_example : ∃ db1 rK ptR tblsK,
    Engine.evalInsert tableDB tname [] [[.int 5], [.int 6]] = .ok 2 db1 ∧
    db1.wal = [recT1, recT2] ∧ (walFile db1.wal).length = 68 ∧
    (∀ r ∈ db1.wal, (toRec r).wf) ∧
    ByteCut tableDB.wal db1.wal 54 1 true ∧
    Wal.readLog ((walFile db1.wal).take 54) = .ok [toRec recT1] 34 true ∧
    Wal.afterRead ((walFile db1.wal).take 54) = walFile [recT1] ∧
    replayAll [recT1] tableDB.store = (rK, none, false) ∧
    AbsV rK ptR schT tblsK sdbA5 ∧ rK.hdr.lastKey = 11 := by
  have hmem : (tname, tT) ∈ [(tname, tT)] := List.mem_singleton.mpr rfl
  obtain ⟨db1, _, _, _, e1, _⟩ := evalInsert_refines_specV tableDB ptT schT [(tname, tT)] sdbA0 sdbA1
    abs_tableDB.toV tname tT hmem schemaA schT_t [] [[.int 5], [.int 6]] valid56 specA1 runT
  obtain ⟨hw, hh⟩ := of_okWithLog insertT_log e1
  have hrunok : ∀ pt tbls t schema, AbsV tableDB.store pt schT tbls sdbA0 → (tname, t) ∈ tbls →
      schemaOf schT tname = some schema →
      InsRunOK schema (([] : List Bytes).map Engine.bytesToName) t tableDB.store.hdr.lastKey
        tableDB.store.hdr.nextLSN tableDB.store.hdr.nextFree [[.int 5], [.int 6]] := by
    intro pt tbls t schema hA ht hs
    obtain ⟨rfl, rfl⟩ := pinT pt tbls t schema hA ht hs
    exact runT
  -- the byte-level theorem, at byte 54
  obtain ⟨hwf, k, torn, hcut, _⟩ := insert_byte_cut schT (.nil tableDB sdbA0) rfl ptT [(tname, tT)]
    abs_tableDB.toV ptT_self freshM_tableDB tname [] [[.int 5], [.int 6]] valid56 sdbA1 specA1 hrunok 2 db1 e1
    (by rw [hh]; decide) (by rw [hh]; decide) (by rw [hh]; decide) 54
  -- which `k` it is
  have hk1 : k = 1 := by
    obtain ⟨hk, _, hle, hnext, _⟩ := hcut
    rw [hw] at hk hle hnext
    have hk2 : k ≤ 2 := hk
    have h3 : k = 0 ∨ k = 1 ∨ k = 2 := by omega
    rcases h3 with rfl | rfl | rfl
    · exact absurd (hnext (by decide)) (by decide)
    · rfl
    · exact absurd hle (by decide)
  subst hk1
  have htorn : torn = true := by
    obtain ⟨_, _, _, _, ht, _⟩ := hcut
    rw [hw] at ht
    exact ht.mpr (by decide)
  subst htorn
  obtain ⟨_, hread, _, _, _, hafter, _⟩ := id hcut
  -- the record-level theorem, with the trees pinned
  obtain ⟨j, rK, sdbJ, dbJ, ptJ, ptR, tblsJ, _, hre, hspecJ, hAR, _, _, _, _, hlk, hlkJ, _, _, hno⟩ :=
    insert_crash_prefix schT (.nil tableDB sdbA0) rfl ptT [(tname, tT)] abs_tableDB.toV ptT_self freshM_tableDB
      tname [] [[.int 5], [.int 6]] valid56 sdbA1 specA1 hrunok 2 db1 e1 1
  obtain ⟨hj, _, _, _⟩ := hno (by
    intro pt tbls t schema hA ht hs
    obtain ⟨rfl, rfl⟩ := pinT pt tbls t schema hA ht hs
    exact noMoveT)
  have hj1 : j = 1 := by rw [hj]; rfl
  subst hj1
  have hs5 : sdbJ = sdbA5 := by
    have h5 : Spec.specInsert sdbA0 tname [] ([[.int 5], [.int 6]].take 1) = some sdbA5 := rfl
    rw [h5] at hspecJ
    exact (Option.some.inj hspecJ).symm
  subst hs5
  rw [hw] at hre hread hafter
  refine ⟨db1, rK, ptR, tblsJ, e1, hw, by rw [hw]; decide, hwf, hcut, ?_, ?_, hre, hAR, by rw [hlk, hlkJ]; rfl⟩
  · rw [hw]
    exact hread
  · rw [hw]
    exact hafter

end Mkdb.Store
