import Mkdb.Proofs.Counters3
import Mkdb.Proofs.BaseCase0
/-!
The header counters, part 4 (W16): **any history, and the bound under which the model's natural numbers
are the values of the Go fields.**

* `Hist db0 w db`: `db` is reached from `db0` by ANY sequence of engine events - INSERT, UPDATE, DELETE,
  CREATE TABLE with any arguments and any outcome that leaves a database (accepted or refused: the Go code
  mutates in place), flushes in any page write order, crashes (also in the middle of a flush: `tornFlush`)
  followed by start-up recovery with any outcome that leaves a database, re-opening.  No invariant of the
  store is assumed and none is needed.  `w : Work` counts what the history did.
* `Bnd db K L F`: every counter of `db` - in memory, in the data-file header, and every key / LSN in the
  log - is at most `K` (row ids), `L` (LSNs), `F` (allocation frontier).
* **`hist_bounds`**: the three linear bounds.
* `newDB_bnd`, **`hist_from_create_database`**, **`counters_fit`**: from the database CREATE DATABASE leaves.
-/
set_option autoImplicit false
namespace Mkdb.Store
open Mkdb.Page Mkdb.Tuple Mkdb.Generated Mkdb.Tree Mkdb.Engine

/-- the database a statement leaves, if it leaves one (`.ok` and `.err`; not a panic, an unmodelled
branch or a hang) -/
def resDB {α} : Engine.Res α → Option Engine.DB
  | .ok _ db => some db
  | .err _ db => some db
  | _ => none

/-- the database start-up recovery leaves, if it leaves one -/
def recDB : Engine.RecRes → Option Engine.DB
  | .ok db => some db
  | .err _ db => some db
  | _ => none

/-- what a history did, as far as the counters are concerned -/
structure Work where
  /-- row ids at stake: the rows of every INSERT statement that was run (accepted or refused), and for
  every CREATE TABLE that was run its catalog rows (one per column, plus one) -/
  rows : Nat := 0
  /-- CREATE TABLE statements run (each may allocate the root page of the table) -/
  creates : Nat := 0
  /-- LSNs consumed by UPDATE and DELETE statements: one per row version written (for an accepted
  statement: the number of records it appended to the log, `evalUpdate_counters`) -/
  lsns : Nat := 0
  /-- start-up recoveries -/
  recs : Nat := 0
  /-- INSERT records in the log at the moment of each recovery, summed: recovery replays the whole log
  (it is never truncated), and a replayed INSERT may allocate again the pages a crash lost -/
  replayed : Nat := 0
deriving DecidableEq, Repr

/-- the total: the `N` of the wrap-around bound -/
def Work.total (w : Work) : Nat := w.rows + w.creates + w.lsns + w.recs + w.replayed

/-- **Any history of the engine.** -/
inductive Hist (db0 : Engine.DB) : Work → Engine.DB → Prop
  | nil : Hist db0 {} db0
  | insert {w : Work} {db db' : Engine.DB} (h : Hist db0 w db) (table : Bytes) (cols : List Bytes)
      (rows : List (List Val)) (hr : resDB (Engine.evalInsert db table cols rows) = some db') :
      Hist db0 { w with rows := w.rows + rows.length } db'
  | update {w : Work} {db db' : Engine.DB} (h : Hist db0 w db) (table : Bytes) (sets : List (Bytes × Sql.VExpr))
      (wh : Option Sql.Cond) (hr : resDB (Engine.evalUpdate db table sets wh) = some db') :
      Hist db0 { w with lsns := w.lsns + (db'.store.hdr.nextLSN - db.store.hdr.nextLSN) } db'
  | delete {w : Work} {db db' : Engine.DB} (h : Hist db0 w db) (table : Bytes) (wh : Option Sql.Cond)
      (hr : resDB (Engine.evalDelete db table wh) = some db') :
      Hist db0 { w with lsns := w.lsns + (db'.store.hdr.nextLSN - db.store.hdr.nextLSN) } db'
  | createTable {w : Work} {db db' : Engine.DB} (h : Hist db0 w db) (name : Bytes) (cols : List Sql.ColDef)
      (order : List Nat) (doFlush : Bool)
      (hr : resDB (Engine.evalCreateTable db name cols order doFlush) = some db') :
      Hist db0 { w with rows := w.rows + (cols.length + 1), creates := w.creates + 1 } db'
  | flush {w : Work} {db db' : Engine.DB} (h : Hist db0 w db) (order : List Nat)
      (hr : resDB (Engine.flush db order) = some db') : Hist db0 w db'
  | recover {w : Work} {db db' : Engine.DB} (h : Hist db0 w db) (o1 o2 : List Nat)
      (hr : recDB (Engine.recover db o1 o2) = some db') :
      Hist db0 { w with recs := w.recs + 1, replayed := w.replayed + insCount db.wal } db'
  | torn {w : Work} {db : Engine.DB} (h : Hist db0 w db) (order : List Nat) (j : Nat) :
      Hist db0 w { db with store := tornFlush db.store order j }
  | reopen {w : Work} {db : Engine.DB} (h : Hist db0 w db) : Hist db0 w { db with store := reopen db.store }

/-- every counter of the database - the header in memory, the header in the data file, the keys of the
logged inserts and the logged LSNs - is at most `K` / `L` / `F` -/
structure Bnd (db : Engine.DB) (K L F : Nat) : Prop where
  k : db.store.hdr.lastKey ≤ K
  kd : db.store.dhdr.lastKey ≤ K
  kw : ∀ r ∈ db.wal, r.op = c_OpInsert → r.cell ≤ K
  l : db.store.hdr.nextLSN ≤ L
  ld : db.store.dhdr.nextLSN ≤ L
  lw : ∀ r ∈ db.wal, r.lsn < L
  f : db.store.hdr.nextFree ≤ F
  fd : db.store.dhdr.nextFree ≤ F

theorem Bnd.mono {db : Engine.DB} {K L F K' L' F' : Nat} (h : Bnd db K L F) (hk : K ≤ K') (hl : L ≤ L')
    (hf : F ≤ F') : Bnd db K' L' F' :=
  ⟨Nat.le_trans h.k hk, Nat.le_trans h.kd hk, fun r hr hop => Nat.le_trans (h.kw r hr hop) hk,
   Nat.le_trans h.l hl, Nat.le_trans h.ld hl, fun r hr => Nat.lt_of_lt_of_le (h.lw r hr) hl,
   Nat.le_trans h.f hf, Nat.le_trans h.fd hf⟩

/-- a step that advances the in-memory counters, leaves the data-file header alone (or writes the new
header) and appends records stamped below the new counters -/
theorem Bnd.step {db db' : Engine.DB} {K L F dk dl df : Nat} (h : Bnd db K L F)
    (ha : AdvF db.store db'.store dk dl df) (logs : List WalRec) (hw : db'.wal = db.wal ++ logs)
    (hl : ∀ r ∈ logs, r.lsn < db'.store.hdr.nextLSN)
    (hk : ∀ r ∈ logs, r.op = c_OpInsert → r.cell ≤ db'.store.hdr.lastKey) :
    Bnd db' (K + dk) (L + dl) (F + df) := by
  obtain ⟨b1, b2, b3, b4, b5, b6, b7, b8⟩ := h
  obtain ⟨a1, a2, a3, a4, a5, a6, a7⟩ := ha
  refine ⟨by omega, ?_, ?_, by omega, ?_, ?_, by omega, ?_⟩
  · rcases a7 with e | e <;> rw [e] <;> omega
  · intro r hr hop
    rw [hw] at hr
    rcases List.mem_append.mp hr with hr | hr
    · have := b3 r hr hop; omega
    · have := hk r hr hop; omega
  · rcases a7 with e | e <;> rw [e] <;> omega
  · intro r hr
    rw [hw] at hr
    rcases List.mem_append.mp hr with hr | hr
    · have := b6 r hr; omega
    · have := hl r hr; omega
  · rcases a7 with e | e <;> rw [e] <;> omega

theorem resDB_ok {α} {r : Engine.Res α} {db' : Engine.DB} (h : resDB r = some db') :
    (∃ a, r = .ok a db') ∨ (∃ e, r = .err e db') := by
  cases r with
  | ok a db => simp only [resDB, Option.some.injEq] at h; subst h; exact .inl ⟨a, rfl⟩
  | err e db => simp only [resDB, Option.some.injEq] at h; subst h; exact .inr ⟨e, rfl⟩
  | panic p => cases h
  | unmodelled w => cases h
  | fuel => cases h

/-- what any INSERT statement does to the bounds -/
theorem Bnd.insert {db db' : Engine.DB} {K L F : Nat} (h : Bnd db K L F) (table : Bytes) (cols : List Bytes)
    (rows : List (List Val)) (hr : resDB (Engine.evalInsert db table cols rows) = some db') :
    Bnd db' (K + rows.length) (L + 2 * rows.length) (F + 270336 * rows.length) := by
  have hc := evalInsert_counters db table cols rows
  rcases resDB_ok hr with ⟨a, e⟩ | ⟨x, e⟩
  · rw [e] at hc
    obtain ⟨ha, logs, hw, hl⟩ := hc
    exact h.step ha.advF logs hw (fun r hr => (hl.lsn r hr).2) (fun r hr hop => (hl.key r hr hop).2)
  · rw [e] at hc
    exact h.step hc.1.advF [] (by rw [hc.2, List.append_nil]) (fun _ hr => by cases hr) (fun _ hr => by cases hr)

/-- what any UPDATE / DELETE statement does to the bounds -/
theorem Bnd.updel {α} {db db' : Engine.DB} {K L F : Nat} (h : Bnd db K L F) {r : Engine.Res α}
    (hc : ResUD db r) (hr : resDB r = some db') :
    Bnd db' K (L + (db'.store.hdr.nextLSN - db.store.hdr.nextLSN)) F := by
  rcases resDB_ok hr with ⟨a, e⟩ | ⟨x, e⟩
  · rw [e] at hc
    obtain ⟨ha, logs, hw, hl⟩ := hc
    exact h.step ha.adv.advF logs hw (fun r hr => (hl.lsn r hr).2) (fun r hr hop => (hl.key r hr hop).2)
  · rw [e] at hc
    exact h.step hc.1.adv.advF [] (by rw [hc.2, List.append_nil]) (fun _ hr => by cases hr)
      (fun _ hr => by cases hr)

/-- what any CREATE TABLE does to the bounds -/
theorem Bnd.createTable {db db' : Engine.DB} {K L F : Nat} (h : Bnd db K L F) (name : Bytes)
    (cols : List Sql.ColDef) (order : List Nat) (doFlush : Bool)
    (hr : resDB (Engine.evalCreateTable db name cols order doFlush) = some db') :
    Bnd db' (K + (cols.length + 1)) (L + (2 * cols.length + 1)) (F + (4096 + 270336 * (cols.length + 1))) := by
  have hc := evalCreateTable_counters db name cols order doFlush
  rcases resDB_ok hr with ⟨a, e⟩ | ⟨x, e⟩ <;> rw [e] at hc <;>
    exact h.step hc.1 [] (by rw [hc.2, List.append_nil]) (fun _ hr => by cases hr) (fun _ hr => by cases hr)

/-- a flush keeps the bounds -/
theorem Bnd.flush {db db' : Engine.DB} {K L F : Nat} (h : Bnd db K L F) (order : List Nat)
    (hr : resDB (Engine.flush db order) = some db') : Bnd db' K L F := by
  obtain ⟨db2, e, hh, hd, hw⟩ := flush_counters db order
  rw [e] at hr
  simp only [resDB, Option.some.injEq] at hr
  subst hr
  obtain ⟨b1, b2, b3, b4, b5, b6, b7, b8⟩ := h
  exact ⟨by rw [hh]; exact b1, by rw [hd]; exact b1, by rw [hw]; exact b3, by rw [hh]; exact b4,
    by rw [hd]; exact b4, by rw [hw]; exact b6, by rw [hh]; exact b7, by rw [hd]; exact b7⟩

/-- **Recovery keeps the bound on the row ids, needs one more LSN, and at most 66 pages per logged
INSERT** - because the header on file and every logged key / LSN were below the bounds. -/
theorem Bnd.recover {db db' : Engine.DB} {K L F : Nat} (h : Bnd db K L F) (o1 o2 : List Nat)
    (hr : recDB (Engine.recover db o1 o2) = some db') : Bnd db' K (L + 1) (F + 270336 * insCount db.wal) := by
  have hc := recover_counters db o1 o2
  have key : RecAdv db db' := by
    cases e : Engine.recover db o1 o2 with
    | ok d => rw [e] at hc hr; simp only [recDB, Option.some.injEq] at hr; subst hr; exact hc
    | err m d => rw [e] at hc hr; simp only [recDB, Option.some.injEq] at hr; subst hr; exact hc
    | panic p => rw [e] at hr; cases hr
    | unmodelled w => rw [e] at hr; cases hr
    | fuel => rw [e] at hr; cases hr
  obtain ⟨b1, b2, b3, b4, b5, b6, b7, b8⟩ := h
  obtain ⟨a1, a2, a3, a4, a5, a6, a7, a8⟩ := key
  have hk : maxKey db.wal db.store.dhdr.lastKey ≤ K := maxKey_le _ _ _ b2 b3
  have hl : maxLsn db.wal db.store.dhdr.nextLSN ≤ L := maxLsn_le _ _ _ b5 (fun r hr => Nat.le_of_lt (b6 r hr))
  refine ⟨by omega, by rw [a7]; omega, by rw [a8]; exact b3, by omega, by rw [a7]; omega, ?_, by omega,
    by rw [a7]; omega⟩
  intro r hr
  rw [a8] at hr
  have := b6 r hr
  omega

/-- the crash images keep the bounds: the in-memory header is replaced by the one in the data file -/
theorem Bnd.torn {db : Engine.DB} {K L F : Nat} (h : Bnd db K L F) (order : List Nat) (j : Nat) :
    Bnd { db with store := tornFlush db.store order j } K L F :=
  ⟨h.kd, h.kd, h.kw, h.ld, h.ld, h.lw, h.fd, h.fd⟩

theorem Bnd.reopen {db : Engine.DB} {K L F : Nat} (h : Bnd db K L F) :
    Bnd { db with store := reopen db.store } K L F :=
  ⟨h.kd, h.kd, h.kw, h.ld, h.ld, h.lw, h.fd, h.fd⟩

/-- **The three linear bounds.**  From a database whose counters are at most `K`, `L`, `F`, after ANY
history with work `w`: every row id in use is at most `K + rows`; every LSN at most
`L + 2 rows + lsns + recs`; the allocation frontier at most `F + 66 pages × (rows + replayed) + 1 page ×
creates`. -/
theorem hist_bounds {db0 db : Engine.DB} {w : Work} {K L F : Nat} (h0 : Bnd db0 K L F) (hist : Hist db0 w db) :
    Bnd db (K + w.rows) (L + 2 * w.rows + w.lsns + w.recs)
      (F + 270336 * w.rows + 4096 * w.creates + 270336 * w.replayed) := by
  induction hist with
  | nil => exact h0
  | insert _ table cols rows hr ih =>
    exact (ih.insert table cols rows hr).mono (by simp only; omega) (by simp only; omega) (by simp only; omega)
  | update _ table sets wh hr ih =>
    exact (ih.updel (evalUpdate_counters _ table sets wh) hr).mono (by simp only; omega) (by simp only; omega)
      (by simp only; omega)
  | delete _ table wh hr ih =>
    exact (ih.updel (evalDelete_counters _ table wh) hr).mono (by simp only; omega) (by simp only; omega)
      (by simp only; omega)
  | createTable _ name cols order doFlush hr ih =>
    exact (ih.createTable name cols order doFlush hr).mono (by simp only; omega) (by simp only; omega)
      (by simp only; omega)
  | flush _ order hr ih => exact ih.flush order hr
  | recover _ o1 o2 hr ih =>
    exact (ih.recover o1 o2 hr).mono (by simp only; omega) (by simp only; omega) (by simp only; omega)
  | torn _ order j ih => exact ih.torn order j
  | reopen _ ih => exact ih.reopen

/-- histories compose -/
theorem Hist.trans {db0 db1 db2 : Engine.DB} {w1 w2 : Work} (h1 : Hist db0 w1 db1) (h2 : Hist db1 w2 db2) :
    Hist db0 ⟨w1.rows + w2.rows, w1.creates + w2.creates, w1.lsns + w2.lsns, w1.recs + w2.recs,
      w1.replayed + w2.replayed⟩ db2 := by
  induction h2 with
  | nil => exact h1
  | insert _ table cols rows hr ih =>
    have := ih.insert table cols rows hr
    simp only [Nat.add_assoc] at this ⊢
    exact this
  | update _ table sets wh hr ih =>
    have := ih.update table sets wh hr
    simp only [Nat.add_assoc] at this ⊢
    exact this
  | delete _ table wh hr ih =>
    have := ih.delete table wh hr
    simp only [Nat.add_assoc] at this ⊢
    exact this
  | createTable _ name cols order doFlush hr ih =>
    have := ih.createTable name cols order doFlush hr
    simp only [Nat.add_assoc] at this ⊢
    exact this
  | flush _ order hr ih => exact ih.flush order hr
  | recover _ o1 o2 hr ih =>
    have := ih.recover o1 o2 hr
    simp only [Nat.add_assoc] at this ⊢
    exact this
  | torn _ order j ih => exact ih.torn order j
  | reopen _ ih => exact ih.reopen

/-! ### from CREATE DATABASE -/

/-- the database CREATE DATABASE leaves: eight row ids and eight LSNs used (the catalog describes itself:
two rows in `sys_pages`, six in `sys_schema`), the frontier behind the header page and the two catalog
pages; an empty log -/
theorem newDB_bnd : Bnd newDB 8 8 12288 :=
  ⟨Nat.le_refl _, Nat.le_refl _, fun _ hr => (by cases hr), Nat.le_refl _, Nat.le_refl _,
   fun _ hr => (by cases hr), Nat.le_refl _, Nat.le_refl _⟩

/-- **After any history from CREATE DATABASE** with work `w`. -/
theorem hist_from_create_database {db : Engine.DB} {w : Work} (hist : Hist newDB w db) :
    db.store.hdr.lastKey ≤ 8 + w.rows ∧
    db.store.hdr.nextLSN ≤ 8 + 2 * w.rows + w.lsns + w.recs ∧
    db.store.hdr.nextFree ≤ 12288 + 270336 * w.rows + 4096 * w.creates + 270336 * w.replayed := by
  have := hist_bounds newDB_bnd hist
  exact ⟨this.k, this.l, this.f⟩

/-- the largest amount of row-id work for which `lastKey` is still a `uint32`: `2^32 - 9` -/
def maxRows : Nat := 4294967287

theorem maxRows_eq : 8 + maxRows = 2 ^ 32 - 1 := by decide

/-- **The counters fit their Go types.**  Each counter on its own: the row-id counter is a `uint32` as long
as the history put at most `maxRows = 2^32 - 9` row ids at stake - this bound is exact, see
`lastKey_bound_is_attained` -; the LSN counter is a `uint64`, the allocation frontier an `int64` file offset,
under their own (far weaker) conditions. -/
theorem counters_fit_each {db : Engine.DB} {w : Work} (hist : Hist newDB w db) :
    (w.rows ≤ maxRows → db.store.hdr.lastKey < 2 ^ 32) ∧
    (2 * w.rows + w.lsns + w.recs < 2 ^ 64 - 8 → db.store.hdr.nextLSN < 2 ^ 64) ∧
    (66 * (w.rows + w.replayed) + w.creates < 2 ^ 51 - 3 → db.store.hdr.nextFree < 2 ^ 63) := by
  obtain ⟨h1, h2, h3⟩ := hist_from_create_database hist
  refine ⟨fun h => ?_, fun h => ?_, fun h => ?_⟩
  · have : (2 : Nat) ^ 32 = 4294967296 := by decide
    unfold maxRows at h
    omega
  · have : (2 : Nat) ^ 64 = 18446744073709551616 := by decide
    omega
  · have e1 : (2 : Nat) ^ 63 = 9223372036854775808 := by decide
    have e2 : (2 : Nat) ^ 51 = 2251799813685248 := by decide
    omega

/-- **… all three at once**: a history whose total work is at most `2^32 - 9`. -/
theorem counters_fit {db : Engine.DB} {w : Work} (hist : Hist newDB w db) (hN : w.total ≤ maxRows) :
    db.store.hdr.lastKey < 2 ^ 32 ∧ db.store.hdr.nextLSN < 2 ^ 64 ∧ db.store.hdr.nextFree < 2 ^ 63 := by
  obtain ⟨h1, h2, h3⟩ := counters_fit_each hist
  unfold Work.total maxRows at hN
  have e1 : (2 : Nat) ^ 64 = 18446744073709551616 := by decide
  have e2 : (2 : Nat) ^ 51 = 2251799813685248 := by decide
  exact ⟨h1 (by unfold maxRows; omega), h2 (by omega), h3 (by omega)⟩

end Mkdb.Store
