import Mkdb.Proofs.TypedStmt1
/-!
# From keystrokes to the parsed statement, part 2: a rendered token list is a well-formed console statement

`pieceOf_ascii`: every rune `renderText` writes for a token is the rune of an ASCII key.
`neutral_piece`: a covered token other than `;`, read as keys by the console, ends no statement and
leaves the console outside quotes.  `wfStmt_renderText`: covered tokens without `;`, then one `;`,
written with gaps of blanks only (none before the first token, none behind the `;`), are a statement
text as `C20_submit` wants it (`Console.WFStmt`).
-/
namespace Mkdb.Console
open Mkdb.Scan Mkdb.Generated

/-! ## Every written token consists of ASCII runes -/

theorem ascii_map_nat (ds : List Nat) : ∀ r ∈ ds.map asciiRune, r = asciiRune r.code := by
  intro r hr
  obtain ⟨d, _, rfl⟩ := List.mem_map.mp hr
  rfl

theorem ascii_map_bytes (bs : Bytes) : ∀ r ∈ bs.map (fun b => asciiRune b.toNat), r = asciiRune r.code := by
  intro r hr
  obtain ⟨d, _, rfl⟩ := List.mem_map.mp hr
  rfl

/-- the runes of a token as `renderText` writes it are runes of ASCII keys -/
theorem pieceOf_ascii (cs : List Bool) (t : Token) : ∀ r ∈ (pieceOf cs t).runes, r = asciiRune r.code := by
  unfold pieceOf
  split
  · exact ascii_map_bytes _
  · split
    · simp only [Piece.runes, List.map_map]
      intro r hr
      obtain ⟨d, _, rfl⟩ := List.mem_map.mp hr
      rfl
    · split
      · intro r hr
        simp only [Piece.runes, List.mem_cons, List.mem_append, List.not_mem_nil, or_false] at hr
        rcases hr with (rfl | hr) | rfl
        · rfl
        · exact ascii_map_bytes _ r hr
        · rfl
      · split
        · split
          · exact ascii_map_nat _
          · split <;> (intro r hr; simp only [Piece.runes, List.mem_cons, List.not_mem_nil, or_false] at hr)
            · subst hr; rfl
            · rcases hr with rfl | rfl <;> rfl
            · subst hr; rfl
        · intro r hr
          simp only [Piece.runes, List.mem_cons, List.not_mem_nil, or_false] at hr
          subst hr; rfl

/-! ## A written token is quote-neutral for the console -/

theorem plain_of_ident (c : Nat) (b : Bool) (h : isIdentRune (asciiRune c) b = true) : plainKey c = true := by
  simp only [isIdentRune, asciiRune_code, asciiRune_letter, asciiRune_digit, asciiLetter, isDecimal, Bool.or_eq_true,
    beq_iff_eq, Bool.and_eq_true, decide_eq_true_eq] at h
  simp only [plainKey, Bool.not_eq_true', Bool.or_eq_false_iff, beq_eq_false_iff_ne]
  omega

theorem plain_of_decimal (c : Nat) (h : isDecimal c = true) : plainKey c = true := by
  simp only [isDecimal, Bool.and_eq_true, decide_eq_true_eq] at h
  simp only [plainKey, Bool.not_eq_true', Bool.or_eq_false_iff, beq_eq_false_iff_ne]
  omega

theorem plain_punct : ∀ c ∈ punctCodes, c ≠ 59 → plainKey c = true := by decide

/-- a well-formed written token of ASCII runes other than `;` is quote-neutral -/
theorem neutral_piece (p : Piece) (hok : p.ok = true) (hascii : ∀ r ∈ p.runes, r = asciiRune r.code)
    (hne : p ≠ .punct 59) : Neutral (keysOfRunes p.runes) := by
  cases p with
  | word rs =>
    apply Neutral.of_plain
    intro c hc
    obtain ⟨r, hr, rfl⟩ := List.mem_map.mp hc
    have hra := hascii r hr
    cases rs with
    | nil => cases hr
    | cons r0 w =>
      simp only [Piece.ok, Bool.and_eq_true, List.all_eq_true] at hok
      simp only [Piece.runes, List.mem_cons] at hr
      rcases hr with rfl | hr
      · have := hok.1.1.1
        rw [hra] at this
        exact plain_of_ident _ _ this
      · have := hok.1.1.2 r hr
        rw [hra] at this
        exact plain_of_ident _ _ this
  | int ds =>
    apply Neutral.of_plain
    intro c hc
    simp only [keysOfRunes, Piece.runes, List.map_map, List.mem_map, Function.comp_apply, asciiRune_code] at hc
    obtain ⟨d, hd, rfl⟩ := hc
    cases ds with
    | nil => cases hd
    | cons d0 ds =>
      simp only [Piece.ok, Bool.and_eq_true, List.all_eq_true] at hok
      rcases List.mem_cons.mp hd with rfl | hd
      · exact plain_of_decimal _ hok.1
      · exact plain_of_decimal _ (hok.2 d hd)
  | str body =>
    have := neutral_str body hok
    simpa [keysOfRunes, Piece.runes] using this
  | punct c =>
    apply Neutral.of_plain
    intro d hd
    simp only [keysOfRunes, Piece.runes, List.map_cons, asciiRune_code, List.map_nil, List.mem_singleton] at hd
    subst hd
    simp only [Piece.ok, List.contains_iff_mem] at hok
    exact plain_punct d hok (fun e => hne (by rw [e]))
  | op2 c =>
    apply Neutral.of_plain
    intro d hd
    simp only [keysOfRunes, Piece.runes, List.map_cons, asciiRune_code, List.map_nil, List.mem_cons,
      List.not_mem_nil, or_false] at hd
    simp only [Piece.ok, Bool.or_eq_true, beq_iff_eq] at hok
    rcases hd with rfl | rfl
    · rcases hok with (rfl | rfl) | rfl <;> decide
    · decide

theorem punct_not_space : ∀ c ∈ punctCodes, isSpace c = false := by decide

/-- the first key of a well-formed written token is not a blank -/
theorem piece_head (p : Piece) (hok : p.ok = true) (hascii : ∀ r ∈ p.runes, r = asciiRune r.code) :
    ∃ c rest, keysOfRunes p.runes = c :: rest ∧ isSpace c = false := by
  cases p with
  | word rs =>
    cases rs with
    | nil => simp [Piece.ok] at hok
    | cons r0 w =>
      refine ⟨r0.code, keysOfRunes w, rfl, ?_⟩
      simp only [Piece.ok, Bool.and_eq_true] at hok
      have h1 := hok.1.1.1
      rw [hascii r0 List.mem_cons_self] at h1
      simp only [isIdentRune, asciiRune_code, asciiRune_letter, asciiRune_digit, asciiLetter, Bool.not_true,
        Bool.and_false, Bool.or_false, Bool.or_eq_true, beq_iff_eq, Bool.and_eq_true, decide_eq_true_eq] at h1
      simp only [isSpace, Bool.or_eq_false_iff, beq_eq_false_iff_ne, Bool.and_eq_false_iff, decide_eq_false_iff_not]
      omega
  | int ds =>
    cases ds with
    | nil => simp [Piece.ok] at hok
    | cons d0 ds =>
      refine ⟨d0, keysOfRunes (ds.map asciiRune), rfl, ?_⟩
      simp only [Piece.ok, Bool.and_eq_true, isDecimal, decide_eq_true_eq] at hok
      simp only [isSpace, Bool.or_eq_false_iff, beq_eq_false_iff_ne, Bool.and_eq_false_iff, decide_eq_false_iff_not]
      omega
  | str body => exact ⟨39, keysOfRunes (body ++ [asciiRune 39]), rfl, by decide⟩
  | punct c =>
    refine ⟨c, [], rfl, ?_⟩
    simp only [Piece.ok, List.contains_iff_mem] at hok
    exact punct_not_space c hok
  | op2 c =>
    refine ⟨c, [61], rfl, ?_⟩
    simp only [Piece.ok, Bool.or_eq_true, beq_iff_eq] at hok
    rcases hok with (rfl | rfl) | rfl <;> decide

/-! ## Tokens -/

/-- in the keyword table only the token type SEMICOLON is spelled `;` -/
theorem kwTable_semicolon : ∀ e ∈ kwTable, e.1 = [59] → e.2 = t_SEMICOLON := by decide

/-- the written form of a token is `;` only for the token type SEMICOLON -/
theorem pieceOf_semicolon (cs : List Bool) (t : Token) (h : pieceOf cs t = .punct 59) : t.ty = t_SEMICOLON := by
  unfold pieceOf at h
  split at h
  · cases h
  · split at h
    · cases h
    · split at h
      · cases h
      · split at h
        · rename_i codes k hf
          obtain ⟨hmem, hk⟩ := kwTable_find _ _ hf
          split at h
          · cases h
          · split at h
            · rename_i c
              cases h
              rw [← hk]
              exact kwTable_semicolon _ hmem rfl
            · cases h
            · cases h
        · cases h

theorem pieceOf_K_semicolon (cs : List Bool) (b : Bytes) : pieceOf cs ⟨t_SEMICOLON, b⟩ = .punct 59 := by
  rfl

/-- a covered token that is no `;`, as keys: quote-neutral -/
theorem neutral_tok (cs : List Bool) (t : Token) (hok : TokOK t = true) (hne : t.ty ≠ t_SEMICOLON) :
    Neutral (keysOfRunes (pieceOf cs t).runes) :=
  neutral_piece _ (pieceOf_ok cs t hok) (pieceOf_ascii cs t) (fun h => hne (pieceOf_semicolon cs t h))

/-! ## Gaps of blanks -/

/-- a gap of blanks only (what can be typed at the console between two tokens: the space bar, or Enter,
which the console turns into a blank) -/
def blankGap (g : Gap) : Bool := g.all fun e => match e with | .ws c => c == 32 | _ => false

theorem blankGap_ok (g : Gap) (h : blankGap g = true) : Gap.ok g = true := by
  simp only [blankGap, List.all_eq_true] at h
  simp only [Gap.ok, List.all_eq_true]
  intro e he
  have := h e he
  cases e with
  | ws c =>
    have hc : c = 32 := by simpa using this
    subst hc; rfl
  | block b => simp at this
  | line b => simp at this

theorem blankGap_keys (g : Gap) (h : blankGap g = true) : Blank (keysOfRunes (Gap.runes g)) := by
  induction g with
  | nil => intro c hc; cases hc
  | cons e g ih =>
    simp only [blankGap, List.all_cons, Bool.and_eq_true] at h
    rw [Gap.runes_cons, keysOfRunes_append]
    refine Blank.append ?_ (ih h.2)
    cases e with
    | ws c =>
      have hc : c = 32 := by simpa using h.1
      subst hc
      intro x hx
      simp only [keysOfRunes, GapEl.runes, List.map_cons, asciiRune_code, List.map_nil, List.mem_singleton] at hx
      subst hx; decide
    | block b => simp at h
    | line b => simp at h

theorem blankGap_ascii (g : Gap) (h : blankGap g = true) : ∀ r ∈ Gap.runes g, r = asciiRune r.code := by
  induction g with
  | nil => intro r hr; cases hr
  | cons e g ih =>
    simp only [blankGap, List.all_cons, Bool.and_eq_true] at h
    rw [Gap.runes_cons]
    intro r hr
    rcases List.mem_append.mp hr with hr | hr
    · cases e with
      | ws c =>
        simp only [GapEl.runes, List.mem_singleton] at hr
        subst hr; rfl
      | block b => simp at h
      | line b => simp at h
    · exact ih h.2 r hr

/-! ## The rendered text -/

theorem itemsOf_append (gap : Nat → Gap) (cs : Nat → List Bool) (A B : List Token) :
    ∀ i, itemsOf gap cs i (A ++ B) = itemsOf gap cs i A ++ itemsOf gap cs (i + A.length) B := by
  induction A with
  | nil => intro i; rfl
  | cons a A ih =>
    intro i
    simp only [List.cons_append, itemsOf, ih, List.length_cons]
    rw [show i + 1 + A.length = i + (A.length + 1) by omega]

theorem renderItems_append (X Y : List (Gap × Piece)) (tail : Gap) :
    renderItems (X ++ Y) tail = renderItems X [] ++ renderItems Y tail := by
  induction X with
  | nil => simp [renderItems, Gap.runes]
  | cons x X ih =>
    obtain ⟨g, p⟩ := x
    simp only [List.cons_append, renderItems, ih, List.append_assoc]

/-- all runes of a text with gaps of blanks are runes of ASCII keys -/
theorem renderItems_ascii (gap : Nat → Gap) (cs : Nat → List Bool) (hgap : ∀ i, blankGap (gap i) = true)
    (toks : List Token) (tail : Gap) (htail : blankGap tail = true) :
    ∀ i, ∀ r ∈ renderItems (itemsOf gap cs i toks) tail, r = asciiRune r.code := by
  induction toks with
  | nil => intro i; exact blankGap_ascii tail htail
  | cons t ts ih =>
    intro i r hr
    simp only [itemsOf, renderItems, List.mem_append] at hr
    rcases hr with hr | hr | hr
    · exact blankGap_ascii _ (hgap i) r hr
    · exact pieceOf_ascii _ _ r hr
    · exact ih (i + 1) r hr

/-- tokens without `;`, written with gaps of blanks, are quote-neutral -/
theorem neutral_items (gap : Nat → Gap) (cs : Nat → List Bool) (hgap : ∀ i, blankGap (gap i) = true)
    (toks : List Token) (htoks : ∀ t ∈ toks, TokOK t = true ∧ t.ty ≠ t_SEMICOLON) :
    ∀ i, Neutral (keysOfRunes (renderItems (itemsOf gap cs i toks) [])) := by
  induction toks with
  | nil => intro i; exact Neutral.nil
  | cons t ts ih =>
    intro i
    simp only [itemsOf, renderItems, keysOfRunes_append]
    obtain ⟨h1, h2⟩ := htoks t List.mem_cons_self
    exact (Neutral.of_blank (blankGap_keys _ (hgap i))).append
      ((neutral_tok _ t h1 h2).append (ih (fun t' ht' => htoks t' (List.mem_cons_of_mem _ ht')) (i + 1)))

/-- **A rendered statement is a well-formed console statement.**  Covered tokens none of which is a `;`,
then one `;`, written with gaps of blanks only, nothing before the first token and nothing behind the
`;`: read as keys, the only `;` outside quotes is the last key, the quotes are balanced and the first key
is no blank. -/
theorem wfStmt_renderText (gap : Nat → Gap) (cs : Nat → List Bool) (toks : List Token) (b : Bytes)
    (hgap : ∀ i, blankGap (gap i) = true) (hfirst : gap 0 = []) (hlast : gap (toks.length + 1) = [])
    (htoks : ∀ t ∈ toks, TokOK t = true ∧ t.ty ≠ t_SEMICOLON) :
    WFStmt (keysOfRunes (renderText gap cs (toks ++ [⟨t_SEMICOLON, b⟩]))) := by
  have hlen : (toks ++ [(⟨t_SEMICOLON, b⟩ : Token)]).length = toks.length + 1 := by simp
  have htext : keysOfRunes (renderText gap cs (toks ++ [⟨t_SEMICOLON, b⟩])) =
      (keysOfRunes (renderItems (itemsOf gap cs 0 toks) []) ++ keysOfRunes (Gap.runes (gap toks.length))) ++ [59] := by
    rw [renderText, hlen, hlast, itemsOf_append, renderItems_append]
    simp only [Nat.zero_add, itemsOf, pieceOf_K_semicolon, renderItems, Piece.runes, Gap.runes, List.flatMap_nil,
      List.append_nil, keysOfRunes_append, List.append_assoc]
    rfl
  refine ⟨_, htext, ?_, ?_, ?_⟩
  · exact ((neutral_items gap cs hgap toks htoks 0).append (Neutral.of_blank (blankGap_keys _ (hgap _)))).1
  · exact ((neutral_items gap cs hgap toks htoks 0).append (Neutral.of_blank (blankGap_keys _ (hgap _)))).2
  · -- the first key
    rw [htext]
    cases toks with
    | nil =>
      intro c hc
      simp only [itemsOf, renderItems, Gap.runes, List.flatMap_nil, List.length_nil, hfirst] at hc
      simp only [keysOfRunes, List.map_nil, List.nil_append, List.head?_cons, Option.some.injEq] at hc
      subst hc; decide
    | cons t ts =>
      obtain ⟨h1, _⟩ := htoks t List.mem_cons_self
      obtain ⟨c0, rest, hp, hc0⟩ := piece_head _ (pieceOf_ok (cs 0) t h1) (pieceOf_ascii (cs 0) t)
      intro c hc
      simp only [itemsOf, renderItems, hfirst, Gap.runes, List.flatMap_nil, List.nil_append, keysOfRunes_append, hp,
        List.cons_append, List.head?_cons, Option.some.injEq] at hc
      subst hc; exact hc0

end Mkdb.Console
