import Mkdb.Proofs.SessionInv2
/-!
Session invariant, part 3: **the invariant of one database of a session**, and what keeps it.

* `DbInv db sdb pt sch tbls` - a database in use: the store abstracts to the plain database `sdb`
  with the catalog description `pt`, `sch`, `tbls` (`AbsV`), `sys_schema` has no stale rows, the cache
  is filed under its own offsets, every record of the (never truncated) log is applied and behind the
  two counters, and every CLEAN page of the description is in the data file as the engine sees it
  (`Synced`).  This is the checkpoint invariant `Ckpt` (ReplayCkpt7) without "nothing is dirty" and
  without the two side conditions of the crash-replay theorems (`PtSelf`, `FreshM`): a session closes
  (flushes) a database before it re-opens it, so only the replay of an applied log is needed.
* `DbFlushed` - a closed database: `DbInv`, nothing dirty, header and every page in the data file.
* `DbInv.row_effect`: a `RowEffect` (any INSERT / UPDATE / DELETE, accepted or refused) keeps `DbInv`.
* `DbInv.flushPages`: the flush gives `DbFlushed`;  `DbFlushed.reopen`: so does re-opening the data file;
  `DbFlushed.recover`: start-up recovery of a closed database succeeds and gives `DbFlushed` for the
  same plain database and the same catalog description.
-/
set_option autoImplicit false
namespace Mkdb.Store
open Mkdb.Page Mkdb.Tuple Mkdb.Generated Mkdb.Tree Mkdb.Engine

/-- **The invariant of a database in use.** -/
structure DbInv (db : Engine.DB) (sdb : Spec.SDB) (pt sch : Levels) (tbls : List (Bytes × Levels)) : Prop where
  abs : AbsV db.store pt sch tbls sdb
  nostale : NoStale sch tbls
  filed : MemFiled db.store
  log : ∀ r ∈ db.wal, AppliedC pt sch tbls r
  lsn : ∀ r ∈ db.wal, r.lsn < db.store.hdr.nextLSN
  keys : ∀ r ∈ db.wal, r.op = c_OpInsert → r.cell ≤ db.store.hdr.lastKey
  synced : Synced db.store pt sch tbls

/-- **A closed (flushed) database.** -/
structure DbFlushed (db : Engine.DB) (sdb : Spec.SDB) (pt sch : Levels) (tbls : List (Bytes × Levels)) : Prop where
  inv : DbInv db sdb pt sch tbls
  dhdr : db.store.dhdr = db.store.hdr
  disk : OnDisk db.store pt sch tbls

/-- the invariant contains the relation of the refinement theorems -/
theorem DbInv.rel {db : Engine.DB} {sdb : Spec.SDB} {pt sch : Levels} {tbls : List (Bytes × Levels)}
    (h : DbInv db sdb pt sch tbls) : Rel db pt sch tbls sdb := ⟨h.abs, h.nostale, h.filed⟩

/-- a checkpointed database (ReplayCkpt7) whose `sys_schema` has no stale rows is a closed database -/
theorem Ckpt.dbFlushed {sch : Levels} {db : Engine.DB} {sdb : Spec.SDB} {pt : Levels} {tbls : List (Bytes × Levels)}
    (h : Ckpt sch db sdb pt tbls) (hns : NoStale sch tbls) : DbFlushed db sdb pt sch tbls :=
  ⟨⟨h.abs, hns, h.filed, h.log, h.lsn, h.keys, h.disk.synced⟩, h.dhdr, h.disk⟩

/-! ### row statements -/

/-- **A live run of row operations, then a refusal that leaves the catalog description alone, keeps the
invariant** - for the plain database and the catalog description the run ends in.  `hw`: the log grew by
the records of the run, or (a statement refused at a later row) not at all; `hd`, `hf`: the data file
was not written and the cache is filed (`ResDisk`, `ResFiled`). -/
theorem DbInv.live_run {db db' : Engine.DB} {sdb : Spec.SDB} {pt sch : Levels} {tbls : List (Bytes × Levels)}
    (h : DbInv db sdb pt sch tbls) {s1 : Store} {ptN : Levels} {tblsN : List (Bytes × Levels)}
    {stmtsM : List RStmt} {logs : List WalRec} {sdbN : Spec.SDB}
    (hrun : LiveRunM sch db.store tbls stmtsM s1 tblsN logs) (hcat1 : Cat s1 ptN sch tblsN)
    (habs' : AbsV db'.store ptN sch tblsN sdbN) (hnames : tblsN.map (·.1) = tbls.map (·.1))
    (hlsn : s1.hdr.nextLSN ≤ db'.store.hdr.nextLSN) (hlk : s1.hdr.lastKey ≤ db'.store.hdr.lastKey)
    (hw : db'.wal = db.wal ++ logs ∨ db'.wal = db.wal) (hd : DiskSame db.store db'.store)
    (hf : MemFiled db'.store) : DbInv db' sdbN ptN sch tblsN := by
  obtain ⟨sdb0, habs0, _⟩ := h.abs
  obtain ⟨pt1, c1, a1, a2, _⟩ := live_run_applied sch hrun pt db.wal habs0.cat h.log h.lsn
  have e1 : pt1 = ptN := c1.pt_unique hcat1
  subst e1
  obtain ⟨k1, _⟩ := live_run_keys sch hrun pt db.wal habs0.cat h.keys
  obtain ⟨pt2, c2, o2⟩ := live_run_pages (fun e => assocGet db.store.disk e.1 = some e.2.1) sch hrun pt habs0.cat
    (fun x hx e he => by
      cases hdy : e.2.2 with
      | true => exact .inl rfl
      | false => exact .inr (h.synced x hx e he hdy))
  have e2 : pt2 = pt1 := c2.pt_unique hcat1
  subst e2
  have hsub : ∀ r ∈ db'.wal, r ∈ db.wal ++ logs := by
    intro r hr
    rcases hw with hw | hw
    · rw [hw] at hr; exact hr
    · rw [hw] at hr; exact List.mem_append_left _ hr
  refine ⟨habs', fun n hn => h.nostale n (hnames ▸ hn), hf, fun r hr => a1 r (hsub r hr),
    fun r hr => Nat.lt_of_lt_of_le (a2 r (hsub r hr)) hlsn,
    fun r hr hop => Nat.le_trans (k1 r (hsub r hr) hop) hlk, ?_⟩
  intro x hx e he hdy
  rw [hd.1]
  rcases o2 x hx e he with h1 | h1
  · rw [hdy] at h1; cases h1
  · exact h1

/-- **Every row statement keeps the invariant**, whatever its outcome: `RowEffect` is what
`evalInsert_effect`, `evalUpdate_effect`, `evalDelete_effect` deliver. -/
theorem DbInv.row_effect {db db' : Engine.DB} {sdb : Spec.SDB} {pt sch : Levels} {tbls : List (Bytes × Levels)}
    (h : DbInv db sdb pt sch tbls) (he : RowEffect sch db tbls db') (hd : DiskSame db.store db'.store)
    (hf : MemFiled db'.store) : ∃ sdb' pt' tbls', DbInv db' sdb' pt' sch tbls' := by
  obtain ⟨s1, ptN, tblsN, stmtsM, logs, sdbN, hrun, habs1, habs', hnames, hlsn, hlk, hw⟩ := he
  exact ⟨sdbN, ptN, tblsN, h.live_run hrun habs1.cat habs'.toV hnames hlsn hlk hw hd hf⟩

/-! ### the flush, the re-opened data file, start-up recovery of a closed database -/

theorem NoStale.clean {sch : Levels} {tbls : List (Bytes × Levels)} (h : NoStale sch tbls) :
    NoStale (Mkdb.Store.clean sch) (cleanT tbls) := by
  intro n hn h1 h2
  rw [schemaOf_clean]
  apply h n ?_ h1 h2
  intro hm
  apply hn
  unfold cleanT
  rw [tbls_clean_names]
  exact hm

/-- **The flush closes a database**: it succeeds, and the flushed store with the same log is a closed
database for the same plain database (catalog description: the same trees with the dirty bits cleared). -/
theorem DbInv.flushPages {db : Engine.DB} {sdb : Spec.SDB} {pt sch : Levels} {tbls : List (Bytes × Levels)}
    (h : DbInv db sdb pt sch tbls) (order : List Nat) :
    ∃ s', Store.flushPages order db.store = .ok () s' ∧ s'.hdr = db.store.hdr ∧
      DbFlushed { store := s', wal := db.wal } sdb (Mkdb.Store.clean pt) (Mkdb.Store.clean sch) (cleanT tbls) := by
  obtain ⟨s', e, hA', hh, hdh, hf', hd⟩ := flush_ckpt h.abs h.filed h.synced order
  refine ⟨s', e, hh, ⟨⟨hA', h.nostale.clean, hf', fun r hr => (h.log r hr).clean, ?_, ?_, hd.synced⟩, ?_, hd⟩⟩
  · intro r hr
    show r.lsn < s'.hdr.nextLSN
    rw [hh]; exact h.lsn r hr
  · intro r hr hop
    show r.cell ≤ s'.hdr.lastKey
    rw [hh]; exact h.keys r hr hop
  · show s'.dhdr = s'.hdr
    rw [hh, hdh]

/-- `Engine.flush` (the session's close) -/
theorem DbInv.flush {db : Engine.DB} {sdb : Spec.SDB} {pt sch : Levels} {tbls : List (Bytes × Levels)}
    (h : DbInv db sdb pt sch tbls) (order : List Nat) :
    ∃ db', Engine.flush db order = .ok () db' ∧ db'.wal = db.wal ∧
      DbFlushed db' sdb (Mkdb.Store.clean pt) (Mkdb.Store.clean sch) (cleanT tbls) := by
  obtain ⟨s', e, _, hk⟩ := h.flushPages order
  refine ⟨{ db with store := s' }, ?_, rfl, hk⟩
  simp only [Engine.flush, Engine.liftS, e]

/-- in a closed database the catalog description is clean already -/
theorem DbFlushed.flush_again {db : Engine.DB} {sdb : Spec.SDB} {pt sch : Levels} {tbls : List (Bytes × Levels)}
    (h : DbFlushed db sdb pt sch tbls) (order : List Nat) :
    ∃ s', Store.flushPages order db.store = .ok () s' ∧ s'.hdr = db.store.hdr ∧
      DbFlushed { store := s', wal := db.wal } sdb pt sch tbls := by
  obtain ⟨e1, e2, e3⟩ := h.disk.clean_eq
  obtain ⟨s', e, hh, hk⟩ := h.inv.flushPages order
  rw [e1, e2, e3] at hk
  exact ⟨s', e, hh, hk⟩

/-- **The re-opened data file of a closed database** (what `USE` of another database and start-up
leave in the session: an empty cache over the same file) is a closed database for the same plain
database and the same catalog description. -/
theorem DbFlushed.reopen {db : Engine.DB} {sdb : Spec.SDB} {pt sch : Levels} {tbls : List (Bytes × Levels)}
    (h : DbFlushed db sdb pt sch tbls) :
    DbFlushed { db with store := Store.reopen db.store } sdb pt sch tbls := by
  obtain ⟨sdb0, habs0, hv⟩ := h.inv.abs
  have hc : Cat (Store.reopen db.store) pt sch tbls := reopen_cat habs0.cat h.disk h.dhdr db.store rfl rfl
  have hh : (Store.reopen db.store).hdr = db.store.hdr := h.dhdr
  refine ⟨⟨⟨sdb0, ⟨hc, habs0.tabs⟩, hv⟩, h.inv.nostale, (fun p hp => by cases hp), h.inv.log, ?_, ?_, ?_⟩, rfl, h.disk⟩
  · intro r hr
    show r.lsn < (Store.reopen db.store).hdr.nextLSN
    rw [hh]; exact h.inv.lsn r hr
  · intro r hr hop
    show r.cell ≤ (Store.reopen db.store).hdr.lastKey
    rw [hh]; exact h.inv.keys r hr hop
  · exact OnDisk.synced (s := Store.reopen db.store) h.disk

/-- **Start-up recovery of a closed database.**  `Engine.recover` re-opens the data file, replays the
whole log - every record of which is applied: nothing visible changes -, bumps the LSN counter and
flushes twice.  It succeeds, keeps the log, and its result is a closed database for the same plain
database and the same catalog description: same tables, same rows, and the next statement finds the
invariant it needs. -/
theorem DbFlushed.recover {db : Engine.DB} {sdb : Spec.SDB} {pt sch : Levels} {tbls : List (Bytes × Levels)}
    (h : DbFlushed db sdb pt sch tbls) (o1 o2 : List Nat) :
    ∃ db', Engine.recover db o1 o2 = .ok db' ∧ db'.wal = db.wal ∧ DbFlushed db' sdb pt sch tbls := by
  obtain ⟨sdb0, habs0, hv⟩ := h.inv.abs
  have hr0 : Cat (Store.reopen db.store) pt sch tbls := reopen_cat habs0.cat h.disk h.dhdr db.store rfl rfl
  have hh0 : (Store.reopen db.store).hdr = db.store.hdr := h.dhdr
  obtain ⟨r1, e1, _, hc1, hh1⟩ := replay_clean_hdr db.wal (Store.reopen db.store) pt sch tbls hr0
    (fun r hr => (h.inv.log r hr).applied hr0) (fun r hr => by rw [hh0]; exact Nat.le_of_lt (h.inv.lsn r hr))
    (fun r hr hop => by rw [hh0]; exact h.inv.keys r hr hop)
  have hmf1 : MemFiled r1 := by
    have := replayAll_memFiled db.wal (Store.reopen db.store) (by intro p hp; cases hp)
    rw [e1] at this; exact this
  have hd1 : r1.disk = db.store.disk := by
    have := (replayAll_disk db.wal (Store.reopen db.store)).1
    rw [e1] at this; exact this
  -- the cache right before recovery's flush: the final LSN bump
  have hB : DbInv { store := { r1 with hdr := { r1.hdr with nextLSN := r1.hdr.nextLSN + 1 } }, wal := db.wal }
      sdb pt sch tbls := by
    refine ⟨⟨sdb0, ⟨hc1.raise rfl rfl rfl (Nat.le_refl _), habs0.tabs⟩, hv⟩, h.inv.nostale, hmf1.of_mem_eq rfl,
      h.inv.log, ?_, ?_, ?_⟩
    · intro r hr
      show r.lsn < r1.hdr.nextLSN + 1
      rw [hh1, hh0]
      exact Nat.lt_succ_of_lt (h.inv.lsn r hr)
    · intro r hr hop
      show r.cell ≤ r1.hdr.lastKey
      rw [hh1, hh0]; exact h.inv.keys r hr hop
    · intro x hx e he _
      show assocGet r1.disk e.1 = some e.2.1
      rw [hd1]; exact (h.disk x hx e he).1
  obtain ⟨e1', e2', e3'⟩ := h.disk.clean_eq
  obtain ⟨s1, ef1, _, hk1⟩ := hB.flushPages o1
  rw [e1', e2', e3'] at hk1
  obtain ⟨s2, ef2, _, hk2⟩ := hk1.flush_again o2
  refine ⟨{ db with store := s2 }, ?_, rfl, hk2⟩
  unfold Engine.recover
  simp only [e1]
  simp only at ef1 ef2
  simp only [ef1, ef2]

end Mkdb.Store
