import Mkdb.Proofs.ReplayCkpt4
import Mkdb.Proofs.SpecRefineB3
/-!
Crash after a checkpoint, part 5: the checkpoint invariant `Ckpt` and the flush that establishes it.

* `flushPages_disk_all`: after a flush every page the engine saw is in the data file, provided the
  pages it saw clean were there before.
* `flush_ckpt`: `flushPages` on a store that abstracts to a plain database: the flushed store
  abstracts to the same plain database under the cleaned catalog description, and every page of that
  description is in the data file, clean.
* **`Ckpt`**: a checkpointed database - what a flush and what start-up recovery leave behind: the store
  abstracts to the plain database, every record of the (never truncated) log is applied and below the
  LSN counter, no INSERT key of the log is beyond the row-id counter, nothing is dirty, the header and every page of the catalog are in the data file.
* `ckpt_of_flushed`: the flush of a store with these properties (minus "nothing dirty") gives a `Ckpt`.
* `spec_run_ckpt`, `spec_run_keys`: what a `SpecRun` from a database with an applied log keeps true.
-/
set_option autoImplicit false
namespace Mkdb.Store
open Mkdb.Page Mkdb.Tuple Mkdb.Generated Mkdb.Tree Mkdb.Engine

/-! ### the data file after a flush -/

/-- after a flush, every page the engine saw is in the data file - if the pages it saw *clean* were -/
theorem flushPages_disk_all (order : List Nat) (s : Store) (hf : MemFiled s) :
    ∃ s', flushPages order s = .ok () s' ∧
      ∀ off n d, view s off = some (n, d) → (d = false → assocGet s.disk off = some n) →
        assocGet s'.disk off = some n := by
  refine ⟨_, flushPages_eq order s, ?_⟩
  intro off n d hv hcl
  show assocGet ((flushOrd order s).foldl flushStep s).disk off = some n
  rw [flushFold_disk _ s hf]
  split
  · cases hm : assocGet s.mem off with
    | some m =>
      unfold view at hv
      rw [hm] at hv
      simp only [Option.some.injEq, Prod.mk.injEq] at hv
      simp only [hv.1]
    | none =>
      unfold view at hv
      rw [hm] at hv
      simp only [Option.map_eq_some_iff, Prod.mk.injEq] at hv
      obtain ⟨a, ha, rfl, _⟩ := hv
      exact ha
  · rename_i hno
    cases d with
    | false => exact hcl rfl
    | true =>
      obtain ⟨m, hm, _, hd⟩ := view_dirty hv
      exact absurd (mem_flushOrd order s (off, m) (assocGet_some hm) hd) hno

/-- every clean page of the catalog description is in the data file as the engine sees it -/
def Synced (s : Store) (pt sch : Levels) (tbls : List (Bytes × Levels)) : Prop :=
  ∀ x ∈ catTrees pt sch tbls, ∀ e ∈ flatten x, e.2.2 = false → assocGet s.disk e.1 = some e.2.1

/-- every page of the catalog description is in the data file, and none is dirty -/
def OnDisk (s : Store) (pt sch : Levels) (tbls : List (Bytes × Levels)) : Prop :=
  ∀ x ∈ catTrees pt sch tbls, ∀ e ∈ flatten x, assocGet s.disk e.1 = some e.2.1 ∧ e.2.2 = false

theorem OnDisk.synced {s : Store} {pt sch : Levels} {tbls : List (Bytes × Levels)} (h : OnDisk s pt sch tbls) :
    Synced s pt sch tbls := fun x hx e he _ => (h x hx e he).1

theorem OnDisk.clean_eq {s : Store} {pt sch : Levels} {tbls : List (Bytes × Levels)} (h : OnDisk s pt sch tbls) :
    clean pt = pt ∧ clean sch = sch ∧ cleanT tbls = tbls := by
  refine ⟨clean_eq_self fun e he => (h pt Cat.pt_mem e he).2, clean_eq_self fun e he => (h sch Cat.sch_mem e he).2,
    ?_⟩
  unfold cleanT
  conv => rhs; rw [← List.map_id tbls]
  apply List.map_congr_left
  intro e he
  rw [clean_eq_self fun x hx => (h e.2 (Cat.tb_mem he) x hx).2]
  rfl

/-- **The flush** of a store that abstracts to the plain database `sdb` and whose clean pages are in
the data file: the flushed store abstracts to `sdb` under the cleaned catalog description, the header
is in the data file, and every page of the description is in the data file. -/
theorem flush_ckpt {s : Store} {pt sch : Levels} {tbls : List (Bytes × Levels)} {sdb : Spec.SDB}
    (hA : AbsV s pt sch tbls sdb) (hmf : MemFiled s) (hsy : Synced s pt sch tbls) (order : List Nat) :
    ∃ s', flushPages order s = .ok () s' ∧ AbsV s' (clean pt) (clean sch) (cleanT tbls) sdb ∧
      s'.hdr = s.hdr ∧ s'.dhdr = s.hdr ∧ MemFiled s' ∧ OnDisk s' (clean pt) (clean sch) (cleanT tbls) := by
  obtain ⟨sdb0, habs, hv⟩ := hA
  obtain ⟨s', e, hc, hh, hdh, hf', _⟩ := flushPages_cat order habs.cat hmf
  obtain ⟨s2, e2, hdisk⟩ := flushPages_disk_all order s hmf
  rw [e] at e2
  simp only [SRes.ok.injEq, true_and] at e2
  subst e2
  refine ⟨s', e, ⟨sdb0, ⟨hc, habs.tabs.clean_sch (fun n _ => schemaOf_clean sch n)⟩, hv⟩, hh, hdh, hf', ?_⟩
  intro x hx e1 he1
  unfold cleanT at hx
  rw [catTrees_clean] at hx
  obtain ⟨x0, hx0, rfl⟩ := List.mem_map.mp hx
  obtain ⟨e0, he0, rfl⟩ := mem_flatten_clean.mp he1
  refine ⟨?_, rfl⟩
  exact hdisk e0.1 e0.2.1 e0.2.2 ((habs.cat.tree x0 hx0).1 e0 he0) (fun hd => hsy x0 hx0 e0 he0 hd)

/-! ### the checkpoint invariant -/

/-- **A checkpointed database**: the state a flush, and start-up recovery, leave behind.  The store
abstracts (up to row ids) to the plain database `sdb` with the catalog description `pt`, `sch`, `tbls`;
the side conditions of the replay theorems hold (`PtSelf`, `FreshM`, `MemFiled`); the log - which is
never truncated - consists of records that are all applied (`AppliedC`) and below the LSN counter, and
no INSERT record carries a key beyond the row-id counter (`keys`: recovery raises the counter to the
key of every INSERT record of the log, skipped or not; with `keys` the replay of the old log leaves the
header alone); the header is in the data file; every page of the catalog is in the data file and
clean. -/
structure Ckpt (sch : Levels) (db : Engine.DB) (sdb : Spec.SDB) (pt : Levels) (tbls : List (Bytes × Levels)) :
    Prop where
  abs : AbsV db.store pt sch tbls sdb
  self : PtSelf pt
  fresh : FreshM db.store tbls
  filed : MemFiled db.store
  log : ∀ r ∈ db.wal, AppliedC pt sch tbls r
  lsn : ∀ r ∈ db.wal, r.lsn < db.store.hdr.nextLSN
  keys : ∀ r ∈ db.wal, r.op = c_OpInsert → r.cell ≤ db.store.hdr.lastKey
  dhdr : db.store.dhdr = db.store.hdr
  disk : OnDisk db.store pt sch tbls

/-- the records of the log of a checkpointed database are applied on its store (`Applied`, the
hypothesis of `replay_clean` / `C02_recovery_of_a_flushed_database_changes_nothing`) -/
theorem Ckpt.applied {sch : Levels} {db : Engine.DB} {sdb : Spec.SDB} {pt : Levels} {tbls : List (Bytes × Levels)}
    (h : Ckpt sch db sdb pt tbls) : ∀ r ∈ db.wal, Applied tbls db.store r := by
  obtain ⟨_, habs, _⟩ := h.abs
  exact fun r hr => (h.log r hr).applied habs.cat

/-- the flush of a store that has everything a checkpoint needs but clean pages gives a checkpoint
(for the cleaned `sys_schema`) -/
theorem ckpt_of_flushed_gen {sch : Levels} {wal : List WalRec} {s s' : Store} {sdb : Spec.SDB}
    {pt : Levels} {tbls : List (Bytes × Levels)} (hA : AbsV s pt sch tbls sdb) (hself : PtSelf pt)
    (hfr : FreshM s tbls) (hmf : MemFiled s) (hlog : ∀ r ∈ wal, AppliedC pt sch tbls r)
    (hlsn : ∀ r ∈ wal, r.lsn < s.hdr.nextLSN)
    (hkeys : ∀ r ∈ wal, r.op = c_OpInsert → r.cell ≤ s.hdr.lastKey) (hsy : Synced s pt sch tbls) {order : List Nat}
    (hfl : flushPages order s = .ok () s') :
    Ckpt (clean sch) { store := s', wal := wal } sdb (clean pt) (cleanT tbls) := by
  obtain ⟨s2, e, hA', hh, hdh, hf', hd⟩ := flush_ckpt hA hmf hsy order
  rw [hfl] at e
  simp only [SRes.ok.injEq, true_and] at e
  subst e
  exact {
    abs := hA'
    self := hself.clean
    fresh := hfr.clean (by rw [hh]; exact Nat.le_refl _) (by rw [hh]; exact Nat.le_refl _)
    filed := hf'
    log := fun r hr => (hlog r hr).clean
    lsn := fun r hr => by show r.lsn < s'.hdr.nextLSN; rw [hh]; exact hlsn r hr
    keys := fun r hr hop => by show r.cell ≤ s'.hdr.lastKey; rw [hh]; exact hkeys r hr hop
    dhdr := by show s'.dhdr = s'.hdr; rw [hh, hdh]
    disk := hd }

/-- … when `sys_schema` is clean already -/
theorem ckpt_of_flushed {sch : Levels} (hcs : clean sch = sch) {wal : List WalRec} {s s' : Store} {sdb : Spec.SDB}
    {pt : Levels} {tbls : List (Bytes × Levels)} (hA : AbsV s pt sch tbls sdb) (hself : PtSelf pt)
    (hfr : FreshM s tbls) (hmf : MemFiled s) (hlog : ∀ r ∈ wal, AppliedC pt sch tbls r)
    (hlsn : ∀ r ∈ wal, r.lsn < s.hdr.nextLSN)
    (hkeys : ∀ r ∈ wal, r.op = c_OpInsert → r.cell ≤ s.hdr.lastKey) (hsy : Synced s pt sch tbls) {order : List Nat}
    (hfl : flushPages order s = .ok () s') :
    Ckpt sch { store := s', wal := wal } sdb (clean pt) (cleanT tbls) := by
  have := ckpt_of_flushed_gen hA hself hfr hmf hlog hlsn hkeys hsy hfl
  rw [hcs] at this
  exact this

/-- flushing a checkpointed database again changes nothing of all that -/
theorem Ckpt.flush_again {sch : Levels} {db : Engine.DB} {sdb : Spec.SDB} {pt : Levels}
    {tbls : List (Bytes × Levels)} (h : Ckpt sch db sdb pt tbls) {order : List Nat} {s' : Store}
    (hfl : flushPages order db.store = .ok () s') : Ckpt sch { store := s', wal := db.wal } sdb pt tbls := by
  obtain ⟨e1, e2, e3⟩ := h.disk.clean_eq
  have := ckpt_of_flushed e2 h.abs h.self h.fresh h.filed h.log h.lsn h.keys h.disk.synced hfl
  rw [e1, e3] at this
  exact this

/-! ### a run of statements from a database with an applied log -/

/-- **What a run of statements keeps true**: the statements `stmts`, run by the engine from `db`, whose
log is applied and below the LSN counter, end in `dbN`: the log of `dbN` is the old log followed by the
records of a live run; all its records are applied for the final catalog description and below the
LSN counter; the counter is where it was or one above the LSN of a record of the run; and every clean
page of the final description is a page the run started with (`P` is any property of those). -/
theorem spec_run_ckpt (sch : Levels) {db dbN : Engine.DB} {sdb sdbN : Spec.SDB} {stmts : List EStmt}
    (run : SpecRun sch db sdb stmts dbN sdbN) (pt : Levels) (tbls : List (Bytes × Levels))
    (hA : AbsV db.store pt sch tbls sdb) (hold : ∀ r ∈ db.wal, AppliedC pt sch tbls r)
    (hlsn : ∀ r ∈ db.wal, r.lsn < db.store.hdr.nextLSN)
    (P : Nat × Node × Bool → Prop) (hP : OldOrDirty P pt sch tbls) :
    ∃ ptN tblsN stmtsM logs, LiveRunM sch db.store tbls stmtsM dbN.store tblsN logs ∧
      dbN.wal = db.wal ++ logs ∧ AbsV dbN.store ptN sch tblsN sdbN ∧
      (∀ r ∈ dbN.wal, AppliedC ptN sch tblsN r) ∧ (∀ r ∈ dbN.wal, r.lsn < dbN.store.hdr.nextLSN) ∧
      (dbN.store.hdr.nextLSN = db.store.hdr.nextLSN ∨ ∃ r ∈ logs, dbN.store.hdr.nextLSN = r.lsn + 1) ∧
      OldOrDirty P ptN sch tblsN := by
  obtain ⟨ptN, tblsN, stmtsM, logs, hrun, hw, hAN⟩ := spec_run_live sch run pt tbls hA
  obtain ⟨_, habs0, _⟩ := hA
  obtain ⟨_, habsN, _⟩ := id hAN
  obtain ⟨pt1, c1, a1, a2, a3⟩ := live_run_applied sch hrun pt db.wal habs0.cat hold hlsn
  obtain ⟨pt2, c2, o2⟩ := live_run_pages P sch hrun pt habs0.cat hP
  have e1 : pt1 = ptN := c1.pt_unique habsN.cat
  have e2 : pt2 = ptN := c2.pt_unique habsN.cat
  rw [e1] at a1
  rw [e2] at o2
  exact ⟨ptN, tblsN, stmtsM, logs, hrun, hw, hAN, by rw [hw]; exact a1, by rw [hw]; exact a2, a3, o2⟩

/-- a run of statements from a database none of whose logged INSERT keys is beyond the row-id counter
ends in such a database (`live_run_keys`) -/
theorem spec_run_keys (sch : Levels) {db dbN : Engine.DB} {sdb sdbN : Spec.SDB} {stmts : List EStmt}
    (run : SpecRun sch db sdb stmts dbN sdbN) (pt : Levels) (tbls : List (Bytes × Levels))
    (hA : AbsV db.store pt sch tbls sdb)
    (hkeys : ∀ r ∈ db.wal, r.op = c_OpInsert → r.cell ≤ db.store.hdr.lastKey) :
    ∀ r ∈ dbN.wal, r.op = c_OpInsert → r.cell ≤ dbN.store.hdr.lastKey := by
  obtain ⟨_, _, _, logs, hrun, hw, _⟩ := spec_run_live sch run pt tbls hA
  obtain ⟨_, habs0, _⟩ := hA
  rw [hw]
  exact (live_run_keys sch hrun pt db.wal habs0.cat hkeys).1

end Mkdb.Store
