import Mkdb.Proofs.Meaning3
/-!
`evaluateSelect` against `Spec.meaning` / `Spec.satisfies`, part 4: joins (C06).

* the converse of `C06_join`: whenever the nested loops succeed the relational definition
  `Spec.fromRows` is defined (`fromRows_of_nestedLoopJoin`), so the two are defined together;
* sorting two permutations of one list by comparable keys gives the same sequence of keys
  (`sorted_keys_eq_of_perm`): what `Spec.satisfies` compares under ORDER BY;
* any FROM clause, no aggregate: the executor answers exactly the meaningful queries, with a
  permutation of the meaning, sorted and cut (`from_any_iff`).
-/
namespace Mkdb.Exec.MeaningP
open Mkdb.Sql Mkdb.Tuple Mkdb.Spec Mkdb.Exec.SelectP Mkdb.Exec.JoinP

/-! ### the nested loops succeed only if every pair has a truth value -/

theorem joinMatches_ok_inv {on : Cond} {fields : List Field} {mk : Row → Row} {inner out : List Row}
    (h : joinMatches on fields mk inner = .ok out) :
    ∀ r ∈ inner, ∃ b, evaluate on fields (mk r) = .ok (.bool b) := by
  induction inner generalizing out with
  | nil => intro r hr; cases hr
  | cons r rest ih =>
    simp only [joinMatches] at h
    obtain ⟨v, hv, h⟩ := SelectP.bind_eq_ok.1 h
    cases v with
    | bool b =>
      simp only at h
      obtain ⟨tl, htl, _⟩ := SelectP.bind_eq_ok.1 h
      intro x hx
      rcases List.mem_cons.1 hx with rfl | hx
      · exact ⟨b, hv⟩
      · exact ih htl x hx
    | int i => cases h
    | str s => cases h
    | null => cases h

theorem joinOuter_ok_inv {on : Cond} {fields : List Field} {outer inner out : List Row}
    {mk : Row → Row → Row} {pad : Option (Row → Row)}
    (h : joinOuter on fields outer inner mk pad = .ok out) :
    ∀ o ∈ outer, ∀ i ∈ inner, ∃ b, evaluate on fields (mk o i) = .ok (.bool b) := by
  induction outer generalizing out with
  | nil => intro o ho; cases ho
  | cons o rest ih =>
    simp only [joinOuter] at h
    obtain ⟨ms, hms, h⟩ := SelectP.bind_eq_ok.1 h
    obtain ⟨tl, htl, _⟩ := SelectP.bind_eq_ok.1 h
    intro x hx
    rcases List.mem_cons.1 hx with rfl | hx
    · exact joinMatches_ok_inv hms
    · exact ih htl x hx

theorem evaluate_truthOf {on : Cond} {fields : List Field} {row : Row} {b : Bool}
    (h : evaluate on fields row = .ok (.bool b)) :
    evaluate on fields row = .ok (.bool (truthOf on fields row)) := by
  have : truthOf on fields row = b := by
    unfold truthOf
    rw [holds_some_iff.2 h]
    cases b <;> rfl
  rw [this]; exact h

/-! ### the relational definition is defined whenever its parts are -/

theorem option_bind_pair_some {α β γ : Type} {o : Option α} {g : α → Option (β × γ)} {c : γ}
    (ho : ∃ t, o = some t) (hg : ∀ t, ∃ y, g t = some (y, c)) : ∃ y, o.bind g = some (y, c) := by
  obtain ⟨t, rfl⟩ := ho
  exact hg t

theorem fromRows_join_defined {fetch : Bytes → Option Table} {l : TableRef} {jt : JoinType}
    {r : TableName} {on : Cond} {L R : List Row} {lf rf : List Field}
    (hL : Spec.fromRows fetch l = some (L, lf)) (hR : Spec.fieldsOf fetch r = some (R, rf))
    (hc : anyClash lf rf = false)
    (hev : ∀ a ∈ L, ∀ b ∈ R, ∃ t, evaluate on (lf ++ rf) (a ++ b) = .ok (.bool t)) :
    ∃ rowsS, Spec.fromRows fetch (.join l jt r on) = some (rowsS, lf ++ rf) := by
  unfold Spec.fromRows
  simp only [hL, hR, Option.bind_eq_bind, Option.bind_some]
  have hc' := hc
  unfold anyClash at hc'
  simp only [hc', Bool.false_eq_true, if_false]
  refine option_bind_pair_some ?_ (fun t => ⟨_, rfl⟩)
  apply mapM_some_of_forall
  rintro ⟨a, b⟩ hab
  obtain ⟨a', ha', hb'⟩ := List.mem_flatMap.1 hab
  obtain ⟨b', hb'', heq⟩ := List.mem_map.1 hb'
  cases heq
  obtain ⟨t, ht⟩ := hev a ha' b hb''
  exact ⟨t, holds_some_iff.2 ht⟩

/-- **the converse of `C06_join`**: whenever the nested loops succeed, the relational definition
of the FROM clause is defined, with the same header and, as a multiset, the same rows -/
theorem fromRows_of_nestedLoopJoin (fetch : Bytes → Option Table) (tr : TableRef)
    (rowsM : List Row) (fieldsM : List Field)
    (h : nestedLoopJoin fetch tr = .ok (rowsM, fieldsM)) :
    ∃ rowsS, Spec.fromRows fetch tr = some (rowsS, fieldsM) ∧ rowsM.Perm rowsS := by
  induction tr generalizing rowsM fieldsM with
  | table t =>
    refine ⟨rowsM, ?_, .refl _⟩
    rw [fromRows_table]
    exact fieldsOf_iff_fetchTable.2 (by simpa [nestedLoopJoin] using h)
  | join l jt r on ih =>
    have h0 := h
    have h1 := h
    simp only [nestedLoopJoin] at h1
    obtain ⟨⟨lRows, lFields⟩, hl, h1⟩ := SelectP.bind_eq_ok.1 h1
    obtain ⟨⟨rRows, rFields⟩, hr, _⟩ := SelectP.bind_eq_ok.1 h1
    obtain ⟨L, hL, hp⟩ := ih lRows lFields hl
    have hR := fieldsOf_iff_fetchTable.2 hr
    have hh : headClash lFields rFields = false := by
      cases hc : headClash lFields rFields with
      | false => rfl
      | true =>
        rw [nestedLoopJoin_join_unfold fetch l jt r on lRows rRows lFields rFields hl hr, hc] at h
        simp at h
    have hc : anyClash lFields rFields = false := by rw [← headClash_eq_anyClash hr]; exact hh
    have horig := h0
    rw [nestedLoopJoin_join_unfold fetch l jt r on lRows rRows lFields rFields hl hr,
      if_neg (by rw [hh]; exact Bool.false_ne_true)] at h
    have hfacts : fieldsM = lFields ++ rFields ∧ ∀ a ∈ lRows, ∀ b ∈ rRows, ∃ t,
        evaluate on (lFields ++ rFields) (a ++ b) = .ok (.bool t) := by
      cases jt with
      | inner =>
        dsimp only at h
        obtain ⟨rows, hrows, h⟩ := SelectP.bind_eq_ok.1 h
        simp only [SelectP.pure_eq_ok, X.ok.injEq, Prod.mk.injEq] at h
        exact ⟨h.2.symm, joinOuter_ok_inv hrows⟩
      | left =>
        dsimp only at h
        obtain ⟨rows, hrows, h⟩ := SelectP.bind_eq_ok.1 h
        simp only [SelectP.pure_eq_ok, X.ok.injEq, Prod.mk.injEq] at h
        exact ⟨h.2.symm, joinOuter_ok_inv hrows⟩
      | right =>
        dsimp only at h
        obtain ⟨rows, hrows, h⟩ := SelectP.bind_eq_ok.1 h
        simp only [SelectP.pure_eq_ok, X.ok.injEq, Prod.mk.injEq] at h
        exact ⟨h.2.symm, fun a ha b hb => joinOuter_ok_inv hrows b hb a ha⟩
    obtain ⟨rfl, hevM⟩ := hfacts
    obtain ⟨rowsS, hS⟩ := fromRows_join_defined (jt := jt) (on := on) hL hR hc
      (fun a ha b hb => hevM a (hp.mem_iff.2 ha) b hb)
    refine ⟨rowsS, hS, ?_⟩
    obtain ⟨L', lf', R', rf', hL', hR', _, _, _, rfl⟩ := fromRows_join_some' hS
    rw [hL] at hL'; cases hL'
    rw [hR] at hR'; cases hR'
    have hstep := nestedLoopJoin_join fetch l jt r on lRows rRows lFields rFields
      (truthOf on (lFields ++ rFields)) hl hr hc
      (fun a ha b hb => by obtain ⟨t, ht⟩ := hevM a ha b hb; exact evaluate_truthOf ht)
    rw [horig] at hstep
    simp only [X.ok.injEq, Prod.mk.injEq] at hstep
    rw [hstep.1]
    exact join_step_perm _ jt _ _ rRows hp

/-- the nested loops succeed exactly when the relational definition is defined -/
theorem nestedLoopJoin_ok_iff_fromRows (fetch : Bytes → Option Table) (tr : TableRef)
    (fields : List Field) :
    (∃ rowsM, nestedLoopJoin fetch tr = .ok (rowsM, fields)) ↔
      (∃ rowsS, Spec.fromRows fetch tr = some (rowsS, fields)) := by
  constructor
  · rintro ⟨rowsM, h⟩
    obtain ⟨rowsS, hS, _⟩ := fromRows_of_nestedLoopJoin fetch tr rowsM fields h
    exact ⟨rowsS, hS⟩
  · rintro ⟨rowsS, h⟩
    obtain ⟨rowsM, fieldsM, hM, rfl, _⟩ := nestedLoopJoin_perm_fromRows fetch tr rowsS fields h
    exact ⟨rowsM, hM⟩

/-! ### sorting permutations of one list gives one sequence of keys -/

/-- the lexicographic order of `rowLess`, on the vectors of key values -/
def vecLess : List Bool → List Val → List Val → Bool
  | d :: ds, x :: xs, y :: ys => if x = y then vecLess ds xs ys else klt d x y
  | _, _, _ => false

theorem keyProj_cons (i : Nat) (d : Bool) (rest : List (Nat × Bool)) (r : Row) :
    keyProj ((i, d) :: rest) r = (r[i]?).getD .null :: keyProj rest r := rfl

/-- `rowLess` looks at the rows through their key values only -/
theorem rowLess_eq_vecLess (keys : List (Nat × Bool)) (a b : Row) :
    rowLess keys a b = vecLess (keys.map (·.2)) (keyProj keys a) (keyProj keys b) := by
  induction keys with
  | nil => rfl
  | cons k rest ih =>
    obtain ⟨i, d⟩ := k
    rw [rowLess_cons, keyProj_cons, keyProj_cons, List.map_cons]
    simp only [vecLess]
    rw [ih]

/-- two rows neither of which sorts before the other carry the same key values, when these are
comparable -/
theorem keyProj_eq_of_incomparable {keys : List (Nat × Bool)} {a b : Row}
    (hc : KeyComparable keys a b) (h1 : rowLess keys a b = false) (h2 : rowLess keys b a = false) :
    keyProj keys a = keyProj keys b := by
  induction keys with
  | nil => rfl
  | cons k rest ih =>
    obtain ⟨i, d⟩ := k
    have c := hc (i, d) List.mem_cons_self
    simp only [] at c
    rw [rowLess_cons] at h1 h2
    rw [keyProj_cons, keyProj_cons]
    generalize (a[i]?).getD .null = x at *
    generalize (b[i]?).getD .null = y at *
    have hxy : x = y := by
      apply Classical.byContradiction; intro hne
      rw [if_neg hne] at h1
      rw [if_neg (fun e => hne e.symm)] at h2
      cases klt_total (d := d) c hne with
      | inl h => rw [h] at h1; cases h1
      | inr h => rw [h] at h2; cases h2
    subst hxy
    simp only [if_true] at h1 h2
    rw [ih (fun k hk => hc k (List.mem_cons_of_mem _ hk)) h1 h2]

theorem KeyComparable.symm {keys : List (Nat × Bool)} {a b : Row} (h : KeyComparable keys a b) :
    KeyComparable keys b a := fun k hk => (h k hk).symm

/-- **sorting is determined up to ties**: two permutations of one list of rows with comparable
key columns, sorted, show the same sequence of key values -/
theorem sorted_keys_eq_of_perm {keys : List (Nat × Bool)} {got want : List Row}
    (hp : got.Perm want) (hc : ∀ a ∈ want, ∀ b ∈ want, KeyComparable keys a b) :
    (sortRows keys got).map (keyProj keys) = (sortRows keys want).map (keyProj keys) := by
  have hcg : ∀ a ∈ got, ∀ b ∈ got, KeyComparable keys a b :=
    fun a ha b hb => hc a (hp.mem_iff.1 ha) b (hp.mem_iff.1 hb)
  have hA := sortRows_pairwise keys got hcg
  have hB := sortRows_pairwise keys want hc
  have hAB : (sortRows keys got).Perm (sortRows keys want) :=
    ((sortRows_perm keys got).trans hp).trans (sortRows_perm keys want).symm
  let le : List Val → List Val → Prop := fun ka kb => vecLess (keys.map (·.2)) kb ka = false
  have hA' : ((sortRows keys got).map (keyProj keys)).Pairwise le := by
    rw [List.pairwise_map]
    exact hA.imp (fun {a b} h => by show vecLess _ _ _ = false; rw [← rowLess_eq_vecLess]; exact h)
  have hB' : ((sortRows keys want).map (keyProj keys)).Pairwise le := by
    rw [List.pairwise_map]
    exact hB.imp (fun {a b} h => by show vecLess _ _ _ = false; rw [← rowLess_eq_vecLess]; exact h)
  refine List.Perm.eq_of_pairwise (le := le) ?_ hA' hB' (hAB.map _)
  intro ka kb hka hkb h1 h2
  obtain ⟨a, ha, rfl⟩ := List.mem_map.1 hka
  obtain ⟨b, hb, rfl⟩ := List.mem_map.1 hkb
  have ha' : a ∈ want := hp.mem_iff.1 ((sortRows_perm keys got).mem_iff.1 ha)
  have hb' : b ∈ want := (sortRows_perm keys want).mem_iff.1 hb
  apply keyProj_eq_of_incomparable (hc a ha' b hb')
  · rw [rowLess_eq_vecLess]; exact h2
  · rw [rowLess_eq_vecLess]; exact h1

/-! ### the select list over a permutation of the rows -/

theorem specTail_plain_perm {q : Select} {fields : List Field} {src src' p : List Row}
    (hagg : hasAggr q.list = false) (hgb : q.groupBy = [])
    (hp : src'.Perm src) (h : specTail q fields src = some p) :
    ∃ p', specTail q fields src' = some p' ∧ p'.Perm p := by
  rw [specTail_plain hagg hgb] at h
  cases hs : isStar q.list with
  | true =>
    simp only [hs, if_true] at h
    subst h
    exact ⟨src', (specTail_plain hagg hgb).2 (by simp only [hs, if_true]), hp⟩
  | false =>
    simp only [hs, Bool.false_eq_true, if_false] at h
    obtain ⟨p', hp', hperm⟩ := mapM_perm hp h.2
    exact ⟨p', (specTail_plain hagg hgb).2 (by
      simp only [hs, Bool.false_eq_true, if_false]; exact ⟨h.1, hp'⟩), hperm⟩

/-! ### any FROM clause, no aggregate -/

/-- **any FROM clause, no aggregate: what the executor answers is the meaning**, up to the order
of the rows the nested loops produce: a permutation `got` of the meaning, sorted and cut -/
theorem from_any_result {fetch : Bytes → Option Table} {q : Select} {tr : TableRef}
    (hfrom : q.from_ = some tr) (hagg : hasAggr q.list = false) (hgb : q.groupBy = [])
    (hw : whereIsBoolean q = true) {rows : List Row} {hdr : List Field}
    (h : evaluateSelect fetch q = .ok (rows, hdr)) :
    ∃ want got keys, Spec.meaning fetch q = some want ∧
      projectColumns q.list (judgeFields fetch q) [] = .ok ([], hdr) ∧
      Spec.sortKeys q hdr = some keys ∧ got.Perm want ∧
      (∀ a ∈ want, ∀ b ∈ want, KeyComparable keys a b) ∧
      rows = cut q.lim (sortRows keys got) := by
  obtain ⟨src, fields, filtered, projected, agg, keys, hj, hwh, hproj, hag, hkeys, hcomp, rfl, _⟩ :=
    (evaluateSelect_iff hfrom).1 h
  rw [aggregateRows_noAggr _ hagg hgb] at hag
  cases hag
  obtain ⟨srcS, hfr, hpsrc⟩ := fromRows_of_nestedLoopJoin fetch tr src fields hj
  have hsw := whereX_ok_spec (by unfold whereIsBoolean at hw; exact hw) hwh
  obtain ⟨filteredS, hswS, hpf⟩ := specWhere_perm hpsrc.symm hsw
  have hst := (projectColumns_iff_specTail (NoPanicP.projectColumns_ok_ne_nil hproj) hagg hgb).1 ⟨hdr, hproj⟩
  obtain ⟨want, hstS, hpw⟩ := specTail_plain_perm hagg hgb hpf hst
  refine ⟨want, projected, keys, ?_, ?_, resolveSortKeys_iff_spec.1 hkeys, hpw.symm, ?_, rfl⟩
  · rw [meaning_of hfrom hfr, hswS]; exact hstS
  · rw [judgeFields_of hfrom hfr]; exact projectColumns_header hproj
  · exact fun a ha b hb => hcomp a (hpw.mem_iff.1 ha) b (hpw.mem_iff.1 hb)

/-- **any FROM clause, no aggregate: a meaningful query is answered**, with the judge's header and
a permutation of the meaning, sorted and cut -/
theorem from_any_answered {fetch : Bytes → Option Table} {q : Select} {tr : TableRef}
    (hfrom : q.from_ = some tr) (hagg : hasAggr q.list = false) (hgb : q.groupBy = [])
    (hne : q.list ≠ []) (hb : Spec.boundsOK q.lim = true)
    {want : List Row} {keys : List (Nat × Bool)}
    (hm : Spec.meaning fetch q = some want)
    (hk : Spec.sortKeys q (judgeHeader fetch q) = some keys)
    (hcomp : ∀ a ∈ want, ∀ b ∈ want, KeyComparable keys a b) :
    ∃ got, got.Perm want ∧
      evaluateSelect fetch q = .ok (cut q.lim (sortRows keys got), judgeHeader fetch q) := by
  obtain ⟨tr', srcS, fields, hf, hfr⟩ := meaning_some_from hm
  rw [hfrom] at hf
  cases hf
  rw [meaning_of hfrom hfr] at hm
  obtain ⟨filteredS, hswS, hstS⟩ := option_bind_some.1 hm
  obtain ⟨src, fieldsM, hj, rfl, hpsrc⟩ := nestedLoopJoin_perm_fromRows fetch tr srcS fields hfr
  obtain ⟨filtered, hsw, hpf⟩ := specWhere_perm hpsrc hswS
  obtain ⟨got, hst, hpg⟩ := specTail_plain_perm hagg hgb hpf hstS
  obtain ⟨hdr', hproj⟩ := (projectColumns_iff_specTail hne hagg hgb).2 hst
  have hh : projectColumns q.list (judgeFields fetch q) [] = .ok ([], hdr') := by
    rw [judgeFields_of hfrom hfr]; exact projectColumns_header hproj
  rw [judgeHeader_of hh] at hk ⊢
  refine ⟨got, hpg, ?_⟩
  rw [evaluateSelect_iff hfrom]
  exact ⟨src, fieldsM, filtered, got, got, keys, hj, specWhere_whereX hsw, hproj,
    aggregateRows_noAggr _ hagg hgb, resolveSortKeys_iff_spec.2 hk,
    fun a ha b hb' => hcomp a (hpg.mem_iff.1 ha) b (hpg.mem_iff.1 hb'), rfl, hb⟩

/-- `Spec.satisfies` for a permutation of the meaning, sorted and cut, when the comparison is by
multiset (anything but one table without aggregates) -/
theorem satisfies_perm {q : Select} {hdr : List Field} {keys : List (Nat × Bool)}
    {want got : List Row} (hm : comparedExactly q = false)
    (hk : Spec.sortKeys q hdr = some keys) (hp : got.Perm want)
    (hcomp : ∀ a ∈ want, ∀ b ∈ want, KeyComparable keys a b) :
    satisfies q hdr want (cut q.lim (sortRows keys got)) = true := by
  by_cases hob : q.orderBy = []
  · rw [keys_nil_of_no_order_by hob hk, sortRows_stable_nokeys]
    exact satisfies_multiset hdr hob hm hp
  · exact satisfies_sorted hob hk hp (sorted_keys_eq_of_perm hp hcomp)

theorem comparedExactly_join {q : Select} {l : TableRef} {jt : JoinType} {r : TableName} {on : Cond}
    (hfrom : q.from_ = some (.join l jt r on)) : comparedExactly q = false := by
  unfold comparedExactly; rw [hfrom]; rfl

end Mkdb.Exec.MeaningP
