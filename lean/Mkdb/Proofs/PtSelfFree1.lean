import Mkdb.Proofs.SessionInv5
/-!
The page table's row about itself, part 1 (W10): **`PtSelf` and `FreshM` are invariants of every
database a history reaches** - CREATE TABLE included.

`CREATE DATABASE` writes ONE row about the page table into the page table: `(sys_pages, 4096)`, the
first page of the page table.  Nothing ever rewrites that row (the engine finds the page table through
the header, `hdr.ptRoot`).  While the page table is a single leaf the row names its root.  With the
seventh user table that leaf splits: the old root stays the leftmost LEAF of the page table, a new root
is allocated, the header follows - and the self-row is stale.

Until W10 the side condition of the crash-replay theorems, `PtSelf`, read "the self-row names the root
of the page table", which is false from then on.  What the replay needs (`entry_of_root`,
ReplayInsert2: when a replayed INSERT moves the root of a table, `repointPageTable` rewrites the FIRST
row of the page table whose offset is the old root - that must be the table's row) is only that the
self-row does not name the root of a USER TABLE.  `PtSelf` now says "the self-row names a page of the
page table"; since no page belongs to two trees (`Cat.disj`) that is enough, and since pages never leave
a tree it is kept by everything:

* `PtSelfRoot`, `PtSelf.of_root`: the old reading implies the new one.
* `insertAppend_offs_old`: every page of a tree is a page of the tree after an insert.
* `PtSelf.createTable`: the page table after the body of CREATE TABLE (one new row, then re-pointings of
  the `sys_schema` row).
* `FreshM.createTable`: `FreshM` after the body of CREATE TABLE (the new table's only page carries LSN
  0, and CREATE TABLE consumes at least one LSN).
* `Cat.tbls_sub`, `FreshM.sub`: two catalog descriptions of one store list the same tables.
* **`Ckpt.createTable_ok`**: an accepted CREATE TABLE on a checkpointed database (`Ckpt`, with
  `NoStale`) leaves a checkpointed database for the plain database with the new empty table - so
  `Ckpt`, with its side conditions `PtSelf` and `FreshM`, holds after CREATE DATABASE (`ckpt_newDB`), is
  kept by every round of row statements, flushes, crashes and recoveries (`rounds_ckpt`) and by CREATE
  TABLE.
-/
set_option autoImplicit false
namespace Mkdb.Store
open Mkdb.Page Mkdb.Tuple Mkdb.Generated Mkdb.Tree Mkdb.Engine

/-! ### the old reading -/

/-- the reading of `PtSelf` before W10: the self-row names the ROOT of the page table (true only while
the page table is a single leaf) -/
def PtSelfRoot (pt : Levels) : Prop := ∀ off, (sysPages, off) ∈ ptEntries pt → off = rootOff pt

theorem PtSelf.of_root {pt : Levels} {nf : Nat} (hI : Inv pt nf) (h : PtSelfRoot pt) : PtSelf pt := by
  intro off hm
  rw [h off hm]
  exact rootOff_mem_offs pt nf hI

/-! ### pages never leave a tree -/

/-- every page of a tree is a page of the tree after an insert -/
theorem insertAppend_offs_old {t t' : Levels} {k lsn nf nf' : Nat} {v : Bytes} (hI : Inv t nf)
    (h : insertAppend t k lsn v nf = .ok (t', nf')) : ∀ o ∈ offs t, o ∈ offs t' := by
  intro o ho
  obtain ⟨e, he, rfl⟩ := List.mem_map.mp ho
  obtain ⟨e', he', hk, _⟩ := insertAppend_page_kept t t' k lsn nf nf' v hI h e he
  exact List.mem_map.mpr ⟨e', he', hk⟩

/-! ### `PtSelf` through the body of CREATE TABLE -/

/-- the page table after the body of CREATE TABLE: `pt1` is `pt` with the row of the new table,
`pt'` is `pt1` after the re-pointings of the `sys_schema` row (`createTable_cat_core`) -/
theorem PtSelf.createTable {pt pt1 pt' : Levels} {nf nf1 k lsn : Nat} {v : Bytes} {name : Bytes} {off r : Nat}
    (h : PtSelf pt) (hI : Inv pt nf) (hins : insertAppend pt k lsn v nf = .ok (pt1, nf1))
    (hsame : PtSame pt1 pt') (hn : name ≠ sysPages)
    (hent : ptEntries pt' = (ptEntries pt ++ [(name, off)]).map (Store.repoint sysSchema r)) : PtSelf pt' := by
  intro o hm
  rw [hent] at hm
  obtain ⟨e, he, hre⟩ := List.mem_map.mp hm
  unfold Store.repoint at hre
  split at hre
  · simp only [Prod.mk.injEq] at hre
    rw [sysPages_eq, sysSchema_eq] at hre
    exact absurd hre.1 (by decide)
  · subst hre
    rcases List.mem_append.mp he with he | he
    · rw [hsame.1]
      exact insertAppend_offs_old hI hins o (h o he)
    · simp only [List.mem_singleton, Prod.mk.injEq] at he
      exact absurd he.1.symm hn

/-- the self-row survives the body of CREATE TABLE unchanged -/
theorem ptEntries_sys_kept {pt pt' : Levels} {name : Bytes} {off r o : Nat}
    (hent : ptEntries pt' = (ptEntries pt ++ [(name, off)]).map (repoint sysSchema r))
    (hm : (sysPages, o) ∈ ptEntries pt) : (sysPages, o) ∈ ptEntries pt' := by
  rw [hent]
  refine List.mem_map.mpr ⟨(sysPages, o), List.mem_append_left _ hm, ?_⟩
  unfold Store.repoint
  rw [if_neg]
  simp only
  rw [sysPages_eq, sysSchema_eq]
  decide

/-! ### two descriptions of one store -/

/-- two catalog descriptions of one store list the same user tables with the same trees -/
theorem Cat.tbls_sub {s : Store} {pt pt2 sch sch2 : Levels} {tbls tbls2 : List (Bytes × Levels)}
    (h : Cat s pt sch tbls) (h2 : Cat s pt2 sch2 tbls2) : ∀ e ∈ tbls, e ∈ tbls2 := by
  intro e he
  have hpt : pt = pt2 := h.pt_unique h2
  subst hpt
  have hn : e.1 ∈ tbls.map (·.1) := List.mem_map.mpr ⟨e, he, rfl⟩
  rcases h2.only _ (h.etb e he) with h1 | h1 | h1
  · simp only at h1
    exact absurd (h1 ▸ hn) h.tsys.1
  · simp only at h1
    exact absurd (h1 ▸ hn) h.tsys.2
  · simp only at h1
    obtain ⟨e2, he2, hen⟩ := List.mem_map.mp h1
    have ht : e.2 = e2.2 := h.tree_unique h2 (n := e.1) (t := e.2) (t2 := e2.2) he (by rw [← hen]; exact he2)
    have : e = e2 := Prod.ext hen.symm ht
    rw [this]
    exact he2

theorem FreshM.sub {s : Store} {tbls tbls2 : List (Bytes × Levels)} (hf : FreshM s tbls)
    (hsub : ∀ e ∈ tbls2, e ∈ tbls) : FreshM s tbls2 :=
  ⟨fun e he => hf.lsn e (hsub e he), hf.nf, fun e he => hf.pos e (hsub e he)⟩

/-! ### `FreshM` through the body of CREATE TABLE -/

/-- after the body of CREATE TABLE: the old tables are as old as before, the new table's only page
carries LSN 0 and lies at the old allocation frontier -/
theorem FreshM.createTable {s s' : Store} {tbls : List (Bytes × Levels)} (hf : FreshM s tbls) (name : Bytes)
    (hlsn : s.hdr.nextLSN < s'.hdr.nextLSN) (hnf : s.hdr.nextFree ≤ s'.hdr.nextFree) :
    FreshM s' (tbls ++ [(name, emptyTree s.hdr.nextFree)]) := by
  refine ⟨?_, Nat.lt_of_lt_of_le hf.nf hnf, ?_⟩
  · intro e he x hx
    rcases List.mem_append.mp he with he | he
    · exact Nat.lt_trans (hf.lsn e he x hx) hlsn
    · simp only [List.mem_singleton] at he
      subst he
      simp only [flatten, emptyTree, List.map_cons, List.map_nil, List.flatMap_nil, List.append_nil,
        List.mem_singleton] at hx
      subst hx
      show 0 < s'.hdr.nextLSN
      omega
  · intro e he o ho
    rcases List.mem_append.mp he with he | he
    · exact hf.pos e he o ho
    · simp only [List.mem_singleton] at he
      subst he
      simp only [offs, flatten, emptyTree, List.map_cons, List.map_nil, List.flatMap_nil, List.append_nil,
        List.mem_singleton] at ho
      subst ho
      exact hf.nf

/-! ### CREATE TABLE keeps the checkpoint invariant -/

/-- a closed database (SessionInv3) that meets the two side conditions of the replay theorems is a
checkpointed database -/
theorem DbFlushed.ckpt {db : Engine.DB} {sdb : Spec.SDB} {pt sch : Levels} {tbls : List (Bytes × Levels)}
    (h : DbFlushed db sdb pt sch tbls) (hself : PtSelf pt) (hfr : FreshM db.store tbls) :
    Ckpt sch db sdb pt tbls :=
  ⟨h.inv.abs, hself, hfr, h.inv.filed, h.inv.log, h.inv.lsn, h.inv.keys, h.dhdr, h.disk⟩

/-- **An accepted CREATE TABLE keeps the checkpoint invariant.**  From a checkpointed database (`Ckpt`:
what CREATE DATABASE, every flush and every recovery leave) whose `sys_schema` has no stale rows, a
CREATE TABLE the plain model accepts (name fresh, per-column and catalog-row checks passed, room)
succeeds, writes no log record, and leaves a checkpointed database for the plain database with the new
empty table - in particular the two side conditions of the crash-replay theorems, `PtSelf` and `FreshM`,
hold again, whether or not this CREATE TABLE split the page table.  Also returned, for histories of
several CREATE TABLEs: the new table list is the old one with one single-leaf tree more (up to `clean`);
the page table has one cell more, `sys_schema` one per column; the self-row is where it was; the
allocation frontier moved by a bounded amount. -/
theorem Ckpt.createTable_ok {db : Engine.DB} {sdb : Spec.SDB} {pt sch : Levels} {tbls : List (Bytes × Levels)}
    (h : Ckpt sch db sdb pt tbls) (hns : NoStale sch tbls) (name : Bytes) (cols : List Sql.ColDef)
    (order : List Nat)
    (hfind : Spec.findTable sdb name = none) (hn1 : name ≠ sysPages) (hn2 : name ≠ sysSchema)
    (hfld : checkFieldsFrom [] (cols.map Engine.colTypeToField) = none)
    (hchk : checkCatalogRows (cols.map Engine.colTypeToField) name = none)
    (hpd : pt.inner.length + 3 ≤ treeFuel) (hpl : pt.leaves.length + 1 ≤ scanFuel)
    (hsd : sch.inner.length + cols.length + 2 ≤ treeFuel) (hsl : sch.leaves.length + cols.length ≤ scanFuel)
    (hbig : db.store.hdr.nextFree + 262144 * cols.length + 262144 ≤ 9223372036854775807) :
    ∃ db' pt' sch' tbls', Engine.evalCreateTable db name cols order true = .ok () db' ∧ db'.wal = db.wal ∧
      Ckpt sch' db' (sdb ++ [⟨name, cols.map Spec.colField, []⟩]) pt' tbls' ∧ NoStale sch' tbls' ∧
      (∀ e ∈ tbls', e ∈ cleanT (tbls ++ [(name, emptyTree db.store.hdr.nextFree)])) ∧
      (cells pt').length = (cells pt).length + 1 ∧ (cells sch').length = (cells sch).length + cols.length ∧
      (∀ o, (sysPages, o) ∈ ptEntries pt → (sysPages, o) ∈ ptEntries pt') ∧
      db'.store.hdr.nextFree ≤ db.store.hdr.nextFree + 262144 * cols.length + 262144 := by
  have hinv : DbInv db sdb pt sch tbls := (h.dbFlushed hns).inv
  obtain ⟨db', pt', sch', tbls', heval, hw, hk⟩ := hinv.createTable_ok name cols order hfind hn1 hn2 hfld hchk
    hpd hpl hsd hsl hbig
  obtain ⟨sdb0, habs0, hv⟩ := h.abs
  have hfind0 : Spec.findTable sdb0 name = none := (findTable_none_congr hv name).mpr hfind
  have hn3 : name ∉ tbls.map (·.1) := findTable_none_notin habs0.tabs habs0.cat.tnames hfind0
  have hlen : (cols.map Engine.colTypeToField).length = cols.length := List.length_map _
  -- the body, once more, with what it does to the page table
  obtain ⟨sN, pt1, nf1, ptN, schN, hrun, hcN, hins, hsame, _, hent, hcells, _, _, _, ⟨m, _, hlsn⟩, hnf1, hnfN⟩ :=
    createTable_cat_core habs0.cat (cols.map Engine.colTypeToField) name order hn1 hn2 hn3 hfld hchk hpd hpl
      (by rw [hlen]; exact hsd) (by rw [hlen]; exact hsl) (by rw [hlen]; exact hbig)
  rw [hlen] at hlsn hnfN
  obtain ⟨_, hIpt, _, _, _⟩ := habs0.cat.tree pt Cat.pt_mem
  have hIpt' : Inv pt (db.store.hdr.nextFree + c_pageSize) := Inv_mono pt _ _ hIpt (Nat.le_add_right _ _)
  have hle1 : db.store.hdr.nextFree + c_pageSize ≤ nf1 := insertAppend_nextFree pt pt1 _ _ _ nf1 _ hins
  have hselfN : PtSelf ptN := h.self.createTable hIpt' hins hsame hn1 hent
  have hfrN : FreshM sN (tbls ++ [(name, emptyTree db.store.hdr.nextFree)]) :=
    h.fresh.createTable name (by omega) (by omega)
  -- the flush
  have erun : createTable (cols.map Engine.colTypeToField) name order false db.store = .ok () sN := hrun false
  have hmfN : MemFiled sN := createTable_memFiled h.filed erun
  obtain ⟨s', ef, hc', hh', _, _, _⟩ := flushPages_cat order hcN hmfN
  have e_t : createTable (cols.map Engine.colTypeToField) name order true db.store = .ok () s' := by
    rw [hrun true]; exact ef
  have hdb' : db' = { db with store := s' } := by
    simp only [Engine.evalCreateTable, Engine.liftS, e_t, Engine.Res.ok.injEq, true_and] at heval
    exact heval.symm
  have hst : db'.store = s' := by rw [hdb']
  -- the description the session theorem returns is the cleaned one
  obtain ⟨sdb1, habs1, _⟩ := hk.inv.abs
  have hc1 : Cat s' pt' sch' tbls' := hst ▸ habs1.cat
  have ept : pt' = clean ptN := hc1.pt_unique hc'
  have esch : sch' = clean schN := hc1.sch_unique hc'
  have hsub : ∀ e ∈ tbls', e ∈ cleanT (tbls ++ [(name, emptyTree db.store.hdr.nextFree)]) := hc1.tbls_sub hc'
  have hself' : PtSelf pt' := ept ▸ hselfN.clean
  have hfr' : FreshM db'.store tbls' := by
    rw [hst]
    exact (hfrN.clean (by rw [hh']; exact Nat.le_refl _) (by rw [hh']; exact Nat.le_refl _)).sub hsub
  refine ⟨db', pt', sch', tbls', heval, hw, hk.ckpt hself' hfr', hk.inv.nostale, hsub, ?_, ?_, ?_, ?_⟩
  · have hk1 : (cells ptN).length = (cells pt1).length := by
      have := congrArg List.length hsame.2.2.2.2
      simp only [Tree.keys, List.length_map] at this
      exact this
    rw [ept, cells_clean, hk1, cells_insertAppend pt pt1 _ _ _ nf1 _ hins, List.length_append]
    rfl
  · rw [esch, cells_clean, hcells, List.length_append]
    congr 1
    have : ∀ (fs : List FieldDef) (k : Nat), (schemaCells name fs k).length = fs.length := by
      intro fs
      induction fs with
      | nil => intro k; rfl
      | cons fd rest ih => intro k; simp only [schemaCells, List.length_cons, ih]
    rw [this, hlen]
  · intro o ho
    rw [ept, ptEntries_clean]
    exact ptEntries_sys_kept hent ho
  · rw [hst, hh']
    exact hnfN

end Mkdb.Store
