import Mkdb.Proofs.Evict3
/-!
C16 on the heap model, part 4: the B-tree insert of the page heap does not see the size of the cache
(`Sim.insertLeaf`, `Sim.insertInternal`, `Sim.insertKeyHeap`), nor do the cross-check against the levels
model (`Sim.insertKey`: `ghostAgrees` reads the store through `view` and the header only) and the
counters (`Sim.btInsert`).  The proofs follow `KeepsFiled.*` of CreateFiled1 step by step.
-/
set_option autoImplicit false
namespace Mkdb.Store
open Mkdb.Page Mkdb.Tuple Mkdb.Generated Mkdb.Tree Mkdb.Engine

theorem Sim.leafSplitUp (parent : Option Nat) (curOff newOff newKey lsn root : Nat) :
    Sim (leafSplitUp parent curOff newOff newKey lsn root) := by
  unfold Store.leafSplitUp
  cases parent with
  | none =>
    exact (Sim.appendNode _ _).bind fun _ => (Sim.markDirty _ _).bind fun _ =>
      (Sim.markDirty _ _).bind fun _ => (Sim.markDirty _ _).bind fun _ => Sim.pure _
  | some pOff =>
    refine (Sim.fetch _).bind fun p => ?_
    cases p with
    | leaf l => exact Sim.panicS _
    | internal pn =>
      simp only
      cases pn.cells.getLast? with
      | none => exact Sim.panicS _
      | some last =>
        simp only
        exact Sim.ite ((Sim.putNode _ _).bind fun _ => (Sim.markDirty _ _).bind fun _ =>
          (Sim.markDirty _ _).bind fun _ => (Sim.markDirty _ _).bind fun _ => Sim.pure _)
          (Sim.unmodelledS _)

theorem Sim.leafSplit (parent : Option Nat) (cur1 : Leaf) (lsn root : Nat) :
    Sim (leafSplit parent cur1 lsn root) := by
  unfold Store.leafSplit
  exact (Sim.appendNode _ _).bind fun _ => (Sim.putNode _ _).bind fun _ =>
    (Sim.putNode _ _).bind fun _ => Sim.leafSplitUp _ _ _ _ _ _

theorem Sim.insertLeaf (parent : Option Nat) (cur : Leaf) (key lsn : Nat) (value : Bytes) (root : Nat) :
    Sim (insertLeaf parent cur key lsn value root) := by
  rw [insertLeaf_eq]
  exact Sim.ite (Sim.throw _) (Sim.ite (Sim.throw _)
    (Sim.ite (Sim.unmodelledS _) (Sim.ite (Sim.unmodelledS _)
    ((Sim.putNode _ _).bind fun _ => Sim.ite (Sim.pure _) (Sim.leafSplit _ _ _ _)))))

theorem Sim.intSplitUp (parent : Option Nat) (curOff newOff midKey lsn root1 : Nat) :
    Sim (intSplitUp parent curOff newOff midKey lsn root1) := by
  unfold Store.intSplitUp
  cases parent with
  | none =>
    exact (Sim.appendNode _ _).bind fun _ => (Sim.markDirty _ _).bind fun _ =>
      (Sim.markDirty _ _).bind fun _ => Sim.pure _
  | some pOff =>
    refine (Sim.fetch _).bind fun p => ?_
    cases p with
    | leaf l => exact Sim.panicS _
    | internal pn =>
      exact (Sim.putNode _ _).bind fun _ => (Sim.markDirty _ _).bind fun _ =>
        (Sim.markDirty _ _).bind fun _ => Sim.pure _

theorem Sim.afterChild (parent : Option Nat) (curOff lsn root1 : Nat) :
    Sim (afterChild parent curOff lsn root1) := by
  unfold Store.afterChild
  refine (Sim.fetch _).bind fun me => ?_
  cases me with
  | leaf l => exact Sim.panicS _
  | internal c1 =>
    exact Sim.ite (Sim.pure _) ((Sim.appendNode _ _).bind fun _ =>
      (Sim.putNode _ _).bind fun _ => Sim.intSplitUp _ _ _ _ _ _)

theorem Sim.insertInternal : ∀ (fuel : Nat) (parent : Option Nat) (cur : Internal) (key lsn : Nat)
    (value : Bytes) (root : Nat), Sim (insertInternal fuel parent cur key lsn value root)
  | 0, _, _, _, _, _, _ => Sim.outOfFuel
  | fuel+1, parent, cur, key, lsn, value, root => by
    rw [insertInternal_eq]
    refine Sim.ite (Sim.throw _) ((Sim.fetch _).bind fun child => ?_)
    cases child with
    | leaf l => exact (Sim.insertLeaf _ _ _ _ _ _).bind fun _ => Sim.afterChild _ _ _ _
    | internal i =>
      exact (Sim.insertInternal fuel _ _ _ _ _ _).bind fun _ => Sim.afterChild _ _ _ _

theorem Sim.insertKeyHeap (bt : BT) (key lsn : Nat) (value : Bytes) :
    Sim (Store.insertKeyHeap bt key lsn value) := by
  have hkh : Store.insertKeyHeap bt key lsn value =
      (Store.fetch bt.root >>= fun pg =>
        match pg with
        | .leaf l => Store.insertLeaf none l key lsn value bt.root >>= fun r => Pure.pure (⟨r⟩ : BT)
        | .internal i => Store.insertInternal treeFuel none i key lsn value bt.root >>= fun r => Pure.pure (⟨r⟩ : BT)) := rfl
  rw [hkh]
  refine (Sim.fetch _).bind fun pg => ?_
  cases pg with
  | leaf l => exact (Sim.insertLeaf _ _ _ _ _ _).bind fun _ => Sim.pure _
  | internal i => exact (Sim.insertInternal _ _ _ _ _ _ _).bind fun _ => Sim.pure _

/-! ### the cross-check against the levels model reads `view` and the header only -/

theorem ghostAgrees_ok {s1 s2 t1 t2 : Store} (h : CacheEq s1 s2) (ht : CacheEq t1 t2) (bt : BT) (key lsn : Nat)
    (value : Bytes) (a : BT) :
    ghostAgrees s2 bt key lsn value (.ok a t2) = ghostAgrees s1 bt key lsn value (.ok a t1) := by
  unfold ghostAgrees
  rw [h.view_fun, h.hdr]
  cases Tree.ofHeap (Store.view s1) 64 bt.root with
  | none => rfl
  | some lv =>
    simp only
    cases Tree.insertAppend lv key lsn value s1.hdr.nextFree with
    | ok r =>
      simp only
      rw [ht.view_fun, ht.hdr]
    | error x => cases x <;> rfl

theorem ghostAgrees_err {s1 s2 t1 t2 : Store} (h : CacheEq s1 s2) (bt : BT) (key lsn : Nat)
    (value : Bytes) (e : SErr) :
    ghostAgrees s2 bt key lsn value (.err e t2) = ghostAgrees s1 bt key lsn value (.err e t1) := by
  unfold ghostAgrees
  rw [h.view_fun, h.hdr]
  cases Tree.ofHeap (Store.view s1) 64 bt.root with
  | none => rfl
  | some lv =>
    simp only
    cases Tree.insertAppend lv key lsn value s1.hdr.nextFree with
    | ok r => rfl
    | error x => cases x <;> cases e <;> rfl

theorem Sim.insertKey (bt : BT) (key lsn : Nat) (value : Bytes) :
    Sim (Store.insertKey bt key lsn value) := by
  intro s1 s2 h
  have h0 := Sim.insertKeyHeap bt key lsn value s1 s2 h
  unfold Store.insertKey
  simp only
  cases e2 : Store.insertKeyHeap bt key lsn value s2 with
  | ok a t2 =>
    rw [e2] at h0
    obtain ⟨t1, e1, ht⟩ := h0
    rw [e1, ghostAgrees_ok h ht]
    by_cases hg : ghostAgrees s1 bt key lsn value (.ok a t1) = true
    · rw [if_pos hg, if_pos hg]; exact SRel.ok ht
    · rw [if_neg hg, if_neg hg]
      exact SRel.ok (ht.with_ghost _ _ (by rw [ht.ghost]))
  | err x t2 =>
    rw [e2] at h0
    obtain ⟨t1, e1, ht⟩ := h0
    rw [e1, ghostAgrees_err (t1 := t1) (t2 := t2) h]
    by_cases hg : ghostAgrees s1 bt key lsn value (.err x t1) = true
    · rw [if_pos hg, if_pos hg]; exact SRel.err ht
    · rw [if_neg hg, if_neg hg]
      exact SRel.err (ht.with_ghost _ _ (by rw [ht.ghost]))
  | panic p =>
    by_cases hg : ghostAgrees s2 bt key lsn value (.panic p) = true
    · rw [if_pos hg]; trivial
    · rw [if_neg hg]; trivial
  | unmodelled w =>
    rw [e2] at h0
    have h0' : Store.insertKeyHeap bt key lsn value s1 = .unmodelled w := h0
    rw [h0']
    by_cases hg2 : ghostAgrees s2 bt key lsn value (.unmodelled w) = true <;>
      by_cases hg1 : ghostAgrees s1 bt key lsn value (.unmodelled w) = true <;>
      simp only [hg1, hg2, if_true] <;> rfl
  | fuel =>
    rw [e2] at h0
    have h0' : Store.insertKeyHeap bt key lsn value s1 = .fuel := h0
    rw [h0']
    by_cases hg2 : ghostAgrees s2 bt key lsn value .fuel = true <;>
      by_cases hg1 : ghostAgrees s1 bt key lsn value .fuel = true <;>
      simp only [hg1, hg2, if_true] <;> rfl

theorem Sim.btInsert (bt : BT) (value : Bytes) : Sim (Store.btInsert bt value) := by
  intro s1 s2 h
  have h0 := Sim.insertKey bt (s1.hdr.lastKey + 1) s1.hdr.nextLSN value s1 s2 h
  unfold Store.btInsert
  simp only
  rw [h.hdr]
  cases e2 : Store.insertKey bt (s1.hdr.lastKey + 1) s1.hdr.nextLSN value s2 with
  | ok a t2 =>
    rw [e2] at h0
    obtain ⟨t1, e1, ht⟩ := h0
    rw [e1]
    exact SRel.ok (ht.with_hdr _ _ (by rw [ht.hdr]))
  | err x t2 =>
    rw [e2] at h0
    obtain ⟨t1, e1, ht⟩ := h0
    rw [e1]
    exact SRel.err (ht.with_hdr _ _ (by rw [ht.hdr]))
  | panic p => trivial
  | unmodelled w =>
    rw [e2] at h0
    have h0' : Store.insertKey bt (s1.hdr.lastKey + 1) s1.hdr.nextLSN value s1 = .unmodelled w := h0
    rw [h0']; rfl
  | fuel =>
    rw [e2] at h0
    have h0' : Store.insertKey bt (s1.hdr.lastKey + 1) s1.hdr.nextLSN value s1 = .fuel := h0
    rw [h0']; rfl

end Mkdb.Store
