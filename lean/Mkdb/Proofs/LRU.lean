import Mkdb.Model.LRU
/-! Helper lemmas for the LRU model (C15). -/
namespace Mkdb.LRU

def keys (items : List Entry) : List Nat := items.map (·.key)

theorem evict_none_iff {l : List Entry} : evict l = none ↔ ∀ e ∈ l, e.dirty = true := by
  induction l with
  | nil => simp [evict]
  | cons a t ih =>
    simp only [evict, List.mem_cons, forall_eq_or_imp]
    cases ht : evict t with
    | some t' =>
      simp only [reduceCtorEq, false_iff, not_and]
      intro _ hall
      have := ih.mpr hall
      rw [ht] at this; cases this
    | none =>
      have hall := ih.mp ht
      cases hd : a.dirty with
      | false => simp
      | true => simpa using hall

/-- `evict` removes exactly one clean entry, below which everything is dirty. -/
theorem evict_some {l l' : List Entry} (h : evict l = some l') :
    ∃ pre v post, l = pre ++ v :: post ∧ l' = pre ++ post ∧ v.dirty = false ∧
      ∀ e ∈ post, e.dirty = true := by
  induction l generalizing l' with
  | nil => simp [evict] at h
  | cons e rest ih =>
    simp only [evict] at h
    cases hr : evict rest with
    | some rest' =>
      rw [hr] at h
      obtain ⟨pre, v, post, h1, h2, h3, h4⟩ := ih hr
      cases h
      exact ⟨e :: pre, v, post, by simp [h1], by simp [h2], h3, h4⟩
    | none =>
      rw [hr] at h
      cases hd : e.dirty with
      | true => simp [hd] at h
      | false =>
        simp only [hd, Bool.false_eq_true, ↓reduceIte, Option.some.injEq] at h
        subst h
        exact ⟨[], e, rest, by simp, by simp, hd, evict_none_iff.mp hr⟩

theorem victim_none_of_evict_none {l : List Entry} (h : evict l = none) : victim l = none := by
  induction l with
  | nil => rfl
  | cons a t ih =>
    have hall := evict_none_iff.mp h
    have ht : evict t = none := evict_none_iff.mpr (fun e he => hall e (List.mem_cons_of_mem _ he))
    simp [victim, ih ht, hall a List.mem_cons_self]

theorem victim_eq {l l' : List Entry} (h : evict l = some l') :
    ∃ v, victim l = some v := by
  induction l generalizing l' with
  | nil => simp [evict] at h
  | cons e rest ih =>
    simp only [evict] at h
    simp only [victim]
    cases hr : evict rest with
    | some rest' =>
      obtain ⟨v, hv⟩ := ih hr
      exact ⟨v, by simp [hv]⟩
    | none =>
      rw [hr] at h
      cases hd : e.dirty with
      | true => simp [hd] at h
      | false => exact ⟨e, by simp [victim_none_of_evict_none hr]⟩

theorem evict_length {l l' : List Entry} (h : evict l = some l') : l'.length + 1 = l.length := by
  obtain ⟨pre, v, post, h1, h2, _, _⟩ := evict_some h
  subst h1; subst h2; simp; omega

theorem evict_sublist {l l' : List Entry} (h : evict l = some l') : l'.Sublist l := by
  obtain ⟨pre, v, post, h1, h2, _, _⟩ := evict_some h
  subst h1; subst h2
  exact List.Sublist.append_left (List.sublist_cons_self v post) pre

theorem remove_sublist (l : List Entry) (k : Nat) : (remove l k).Sublist l :=
  List.filter_sublist

theorem keys_remove_not_mem (l : List Entry) (k : Nat) : k ∉ keys (remove l k) := by
  simp only [keys, remove, List.mem_map, List.mem_filter]
  rintro ⟨e, ⟨_, he⟩, rfl⟩
  simp at he

theorem find?_some_mem {l : List Entry} {k : Nat} {e : Entry} (h : find? l k = some e) :
    e ∈ l ∧ e.key = k := by
  unfold find? at h
  have := List.find?_some h
  exact ⟨List.mem_of_find?_eq_some h, by simpa using this⟩

theorem find?_none_not_mem {l : List Entry} {k : Nat} (h : find? l k = none) : k ∉ keys l := by
  unfold find? at h
  simp only [keys, List.mem_map]
  rintro ⟨e, he, rfl⟩
  have := List.find?_eq_none.mp h e he
  simp at this

theorem remove_length_lt {l : List Entry} {k : Nat} {e : Entry} (h : find? l k = some e) :
    (remove l k).length + 1 ≤ l.length := by
  obtain ⟨hm, hk⟩ := find?_some_mem h
  have hle := List.length_filter_le (fun e : Entry => !(e.key == k)) l
  have hne : (List.filter (fun e : Entry => !(e.key == k)) l).length ≠ l.length := by
    intro heq
    have := List.length_filter_eq_length_iff.mp heq e hm
    simp [hk] at this
  simp only [remove]
  omega

theorem find?_remove_ne (l : List Entry) {k k' : Nat} (h : k ≠ k') :
    find? (remove l k') k = find? l k := by
  simp only [find?, remove, List.find?_filter]
  congr 1
  funext a
  by_cases hak : a.key = k
  · have : ¬ a.key = k' := fun h' => h (hak.symm.trans h')
    simp [hak, h]
  · simp [hak]

theorem find?_flip (l : List Entry) (k k' : Nat) (d : Bool) :
    (find? (l.map (fun e => if e.key == k' then { e with dirty := d } else e)) k).map (·.id)
      = (find? l k).map (·.id) := by
  induction l with
  | nil => rfl
  | cons a t ih =>
    simp only [List.map_cons, find?, List.find?_cons]
    by_cases hak' : a.key = k'
    · simp only [hak', beq_self_eq_true, ↓reduceIte]
      by_cases hk : k' = k
      · simp [hk]
      · have : (k' == k) = false := by simpa using hk
        simp only [this]
        simpa [find?] using ih
    · have hne : (a.key == k') = false := by simpa using hak'
      simp only [hne, Bool.false_eq_true, ↓reduceIte]
      by_cases hk : a.key = k
      · simp [hk]
      · have : (a.key == k) = false := by simpa using hk
        simp only [this]
        simpa [find?] using ih

theorem keys_flip (l : List Entry) (k' : Nat) (d : Bool) :
    keys (l.map (fun e => if e.key == k' then { e with dirty := d } else e)) = keys l := by
  simp only [keys, List.map_map]
  apply List.map_congr_left
  intro e _
  simp only [Function.comp]
  split <;> rfl

/-- Capacity bound and one entry per key. -/
def Inv (c : Cache) : Prop := c.items.length ≤ c.cap ∧ (keys c.items).Nodup

theorem step_cap (c : Cache) (op : Op) : (step c op).1.cap = c.cap := by
  cases op with
  | set k id d =>
    simp only [step, Cache.set]
    split <;> try rfl
    split
    · split <;> rfl
    · rfl
  | get k =>
    simp only [step, Cache.get]
    split <;> rename_i h <;> split at h <;> cases h <;> rfl
  | flip k d => rfl

theorem step_inv (c : Cache) (op : Op) (h : Inv c) : Inv (step c op).1 := by
  obtain ⟨hlen, hnd⟩ := h
  cases op with
  | set k id d =>
    simp only [step, Cache.set]
    cases hf : find? c.items k with
    | some e =>
      refine ⟨?_, ?_⟩
      · have := remove_length_lt hf
        simp only [List.length_cons]; omega
      · simp only [keys, List.map_cons, List.nodup_cons]
        exact ⟨keys_remove_not_mem c.items k, (List.Sublist.map _ (remove_sublist c.items k)).nodup hnd⟩
    | none =>
      have hk : k ∉ keys c.items := find?_none_not_mem hf
      by_cases hfull : c.items.length = c.cap
      · simp only [hfull, beq_self_eq_true, ↓reduceIte]
        cases he : evict c.items with
        | none => exact ⟨hlen, hnd⟩
        | some items' =>
          have hl := evict_length he
          have hs := evict_sublist he
          refine ⟨by simp only [List.length_cons]; omega, ?_⟩
          simp only [keys, List.map_cons, List.nodup_cons]
          refine ⟨fun hm => hk ((List.Sublist.map _ hs).subset hm), (List.Sublist.map _ hs).nodup hnd⟩
      · have : (c.items.length == c.cap) = false := by simpa using hfull
        simp only [this, Bool.false_eq_true, ↓reduceIte]
        refine ⟨by simp only [List.length_cons]; omega, ?_⟩
        simp only [keys, List.map_cons, List.nodup_cons]
        exact ⟨hk, hnd⟩
  | get k =>
    simp only [step, Cache.get]
    cases hf : find? c.items k with
    | some e =>
      obtain ⟨_, hek⟩ := find?_some_mem hf
      refine ⟨?_, ?_⟩
      · have := remove_length_lt hf
        simp only [List.length_cons]; omega
      · simp only [keys, List.map_cons, List.nodup_cons, hek]
        exact ⟨keys_remove_not_mem c.items k, (List.Sublist.map _ (remove_sublist c.items k)).nodup hnd⟩
    | none => exact ⟨hlen, hnd⟩
  | flip k d =>
    simp only [step, Cache.flip]
    exact ⟨by simpa using hlen, by rw [keys_flip]; exact hnd⟩

theorem run_inv (c : Cache) (ops : List Op) (h : Inv c) : Inv (run c ops) := by
  induction ops generalizing c with
  | nil => exact h
  | cons op ops ih => exact ih _ (step_inv c op h)

theorem eq_of_key_eq {l : List Entry} (hnd : (keys l).Nodup) {a b : Entry}
    (ha : a ∈ l) (hb : b ∈ l) (hk : a.key = b.key) : a = b := by
  induction l with
  | nil => cases ha
  | cons x t ih =>
    simp only [keys, List.map_cons, List.nodup_cons, List.mem_map, not_exists, not_and] at hnd
    rcases List.mem_cons.mp ha with rfl | ha' <;> rcases List.mem_cons.mp hb with rfl | hb'
    · rfl
    · exact absurd hk.symm (hnd.1 b hb')
    · exact absurd hk (hnd.1 a ha')
    · exact ih (by simpa [keys] using hnd.2) ha' hb'

theorem run_cap (c : Cache) (ops : List Op) : (run c ops).cap = c.cap := by
  induction ops generalizing c with
  | nil => rfl
  | cons op ops ih =>
    show (run (step c op).1 ops).cap = c.cap
    rw [ih, step_cap]

theorem find?_step_other (c : Cache) (k : Nat) (op : Op)
    (hop : ∀ id d, op ≠ .set k id d) (hnd : (keys c.items).Nodup) :
    find? (step c op).1.items k = none ∨
      (find? (step c op).1.items k).map (·.id) = (find? c.items k).map (·.id) := by
  cases op with
  | set k' id d =>
    have hne : k ≠ k' := by
      intro h; subst h; exact hop id d rfl
    simp only [step, Cache.set]
    cases hf : find? c.items k' with
    | some e =>
      right
      have : (k' == k) = false := by simpa using (Ne.symm hne)
      simp only [find?, List.find?_cons, this]
      have := find?_remove_ne c.items hne
      simp only [find?] at this
      rw [this]
    | none =>
      by_cases hfull : c.items.length = c.cap
      · simp only [hfull, beq_self_eq_true, ↓reduceIte]
        cases he : evict c.items with
        | none => right; rfl
        | some items' =>
          obtain ⟨pre, v, post, h1, h2, _, _⟩ := evict_some he
          have hk' : (k' == k) = false := by simpa using (Ne.symm hne)
          simp only [find?, List.find?_cons, hk']
          -- either the victim was k's entry (now absent or shadowed) or untouched
          rw [h1, h2]
          simp only [List.find?_append, List.find?_cons]
          cases hp : List.find? (fun e => e.key == k) pre with
          | some e => right; simp
          | none =>
            simp only [Option.none_or]
            by_cases hv : v.key = k
            · simp only [hv, beq_self_eq_true]
              cases hq : List.find? (fun e => e.key == k) post with
              | none => left; rfl
              | some e' =>
                exfalso
                have hm := List.mem_of_find?_eq_some hq
                have hk2 : e'.key = k := by simpa using List.find?_some hq
                rw [h1] at hnd
                simp only [keys, List.map_append, List.map_cons] at hnd
                have h3 := (List.nodup_append.mp hnd).2.1
                have h4 := (List.nodup_cons.mp h3).1
                apply h4
                simp only [List.mem_map]
                exact ⟨e', hm, by rw [hk2, hv]⟩
            · have : (v.key == k) = false := by simpa using hv
              right; simp [this]
      · have : (c.items.length == c.cap) = false := by simpa using hfull
        simp only [this, Bool.false_eq_true, ↓reduceIte]
        right
        have hk' : (k' == k) = false := by simpa using (Ne.symm hne)
        simp only [find?, List.find?_cons, hk']
  | get k' =>
    simp only [step, Cache.get]
    cases hf : find? c.items k' with
    | none => right; rfl
    | some e =>
      obtain ⟨_, hek⟩ := find?_some_mem hf
      by_cases hkk : k = k'
      · subst hkk
        right
        simp only [find?, List.find?_cons, hek, beq_self_eq_true]
        simp only [find?] at hf
        simp [hf]
      · right
        have : (e.key == k) = false := by rw [hek]; simpa using (Ne.symm hkk)
        simp only [find?, List.find?_cons, this]
        have := find?_remove_ne c.items hkk
        simp only [find?] at this
        rw [this]
  | flip k' d =>
    right
    simp only [step, Cache.flip]
    exact find?_flip c.items k k' d

end Mkdb.LRU
