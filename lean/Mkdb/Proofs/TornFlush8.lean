import Mkdb.Proofs.TornFlush7
import Mkdb.Proofs.TornFlushLK
/-!
Torn flush without page allocation, part 8: **the replay of the whole (never truncated) log on a data
file of mixed page versions** - the general theorem, about `replayAll` itself.

The catalog invariant bounds every key by the row-id counter, and on a torn image the pages are ahead
of the header: the invariant is false of the store recovery starts from.  But `replayAll` commutes with
raising the row-id counter (`TornFlushLK`): the proof runs on the store with the counter raised to its
final value and is carried back at the end.

* `Hist.appliedC_img`: a record that is applied for the catalog description of the start of the history
  is applied for every mixture of later page versions.
* **`torn_image_replay`**: `r0` is a freshly opened store whose data file holds the frozen catalog and,
  at each leaf offset `o`, the page as of moment `k o` of the history (`OnDisk … (fillT (img c k) D0)`).
  The replay of `old ++ logs` - `old` applied at the start of the history, `logs` the records of the
  history - ends without error in a store that holds the catalog with the live pages of the END of the
  history; a page it shows clean is the page of the data file.
-/
set_option autoImplicit false
namespace Mkdb.Store
open Mkdb.Page Mkdb.Tuple Mkdb.Generated Mkdb.Tree Mkdb.Engine

theorem raiseKey_of_le {s : Store} {K : Nat} (h : K ≤ s.hdr.lastKey) : raiseKey s K = s := by
  unfold raiseKey
  rw [Nat.max_eq_left h]

/-- a freshly opened store shows what its data file holds, clean -/
theorem holds_of_disk {r : Store} (hmem : r.mem = []) {x : Levels}
    (hd : ∀ e ∈ flatten x, assocGet r.disk e.1 = some e.2.1 ∧ e.2.2 = false) : Holds r x := by
  intro e he
  obtain ⟨h1, h2⟩ := hd e he
  unfold view
  rw [hmem]
  simp only [assocGet, List.find?_nil, Option.map_none]
  show (assocGet r.disk e.1).map (fun n => (n, false)) = _
  rw [h1, h2]
  rfl

section
variable {pt sch : Levels} {D0 : List (Bytes × Levels)} {nf K : Nat} {log : List WalRec} {c : Nat → Pages}

/-- **A record applied at the start of the history is applied for every mixture of later versions.** -/
theorem Hist.appliedC_img (H : Hist pt sch D0 nf K log c) (k : Nat → Nat) (hk : ∀ o, k o ≤ log.length) {r : WalRec}
    (ha : AppliedC pt sch (fillT (c 0) D0) r) : AppliedC pt sch (fillT (img c k) D0) r := by
  rcases ha with ⟨x, hx, e, he, hp, hl⟩ | ⟨hop, tb, tr, hm, hpg, hkey⟩
  · left
    rcases mem_catTrees.mp hx with rfl | rfl | ⟨e1, he1, rfl⟩
    · exact ⟨x, Cat.pt_mem, e, he, hp, hl⟩
    · exact ⟨x, Cat.sch_mem, e, he, hp, hl⟩
    · obtain ⟨e0, he0, rfl⟩ := mem_fillT_inv he1
      refine ⟨fill (img c k) e0.2, Cat.tb_mem (mem_fillT he0), ?_⟩
      rcases mem_flatten.mp he with ⟨p, hp', rfl⟩ | ⟨lvl, hlv, p, hp', rfl⟩
      · obtain ⟨o, ho, rfl⟩ := mem_fill_leaves hp'
        have h0 := H.step_off (Nat.zero_le _) he0 ho
        have h1 := H.step_off (hk o) he0 ho
        refine ⟨(o, Node.leaf (c (k o) o).1, false), ?_, ?_, ?_⟩
        · rw [mem_flatten]
          exact .inl ⟨img c k o, fill_leaf_mem ho, by show _ = ((c (k o) o).1.off, _, _); rw [h1]; rfl⟩
        · simp only at hp ⊢
          rw [← hp, h0]
        · have := (H.ev (Nat.zero_le (k o)) (hk o) o).lsn
          simp only [nodeLSN] at hl ⊢
          omega
      · refine ⟨(p.1.off, Node.internal p.1, p.2), ?_, hp, hl⟩
        rw [mem_flatten]
        exact .inr ⟨lvl, hlv, p, hp', rfl⟩
  · right
    obtain ⟨e0, he0, heq⟩ := mem_fillT_inv hm
    simp only [Prod.mk.injEq] at heq
    obtain ⟨rfl, rfl⟩ := heq
    refine ⟨hop, e0.1, fill (img c k) e0.2, mem_fillT he0, ?_, ?_⟩
    · rw [hpg, rootOff_fill (H.filed 0 (Nat.zero_le _) _ he0), rootOff_fill (H.img_filed k hk _ he0)]
    · obtain ⟨x, hx, hxk⟩ := List.mem_map.mp hkey
      obtain ⟨q, hq, hxq⟩ := List.mem_flatMap.mp hx
      obtain ⟨o, ho, rfl⟩ := mem_fill_leaves hq
      have h1 : r.cell ∈ keysOf (c 0 o) := List.mem_map.mpr ⟨x, hxq, hxk⟩
      have h2 := (H.ev (Nat.zero_le (k o)) (hk o) o).keys _ h1
      exact keys_of_leaf_mem (p := img c k o) (fill_leaf_mem ho) h2

/-- **The replay of the whole log on a data file of mixed page versions.** -/
theorem torn_image_replay (H : Hist pt sch D0 nf K log c) (hself : PtSelf pt) (k : Nat → Nat)
    (hk : ∀ o, k o ≤ log.length) (old : List WalRec) (hold : ∀ r ∈ old, AppliedC pt sch (fillT (c 0) D0) r)
    (r0 : Store) (hmem : r0.mem = []) (hdisk : OnDisk r0 pt sch (fillT (img c k) D0))
    (hnf : r0.hdr.nextFree = nf) (hpr : rootOff pt = r0.hdr.ptRoot)
    (hK : K ≤ r0.hdr.lastKey ∨ ∃ r ∈ old ++ log, r.op = c_OpInsert ∧ r.cell = K) :
    ∃ (rN : Store) (ρ : Nat → Bool), replayAll (old ++ log) r0 = (rN, none, false) ∧
      Cat rN pt sch (fillT (fun o => ((c log.length o).1, ρ o)) D0) ∧ rN.hdr.nextFree = nf ∧
      (∀ o, ρ o = false → (c log.length o).1 = (c (k o) o).1) ∧
      rN.disk = r0.disk ∧ rN.dhdr = r0.dhdr ∧ MemFiled rN ∧
      (∀ r ∈ old ++ log, r.lsn ≤ rN.hdr.nextLSN) ∧
      (∀ r ∈ old ++ log, r.op = c_OpInsert → r.cell ≤ rN.hdr.lastKey) ∧ r0.hdr.lastKey ≤ rN.hdr.lastKey ∧
      r0.hdr.nextLSN ≤ rN.hdr.nextLSN := by
  -- the store with the row-id counter raised
  have hH : ∀ x ∈ catTrees pt sch (fillT (img c k) D0), Holds (raiseKey r0 K) x := fun x hx =>
    holds_of_disk (r := raiseKey r0 K) hmem (fun e he => hdisk x hx e he)
  have hcat0 : Cat (raiseKey r0 K) pt sch (fillT (img c k) D0) :=
    cat_of_image H k hk (raiseKey r0 K) (hH pt Cat.pt_mem) (hH sch Cat.sch_mem)
      (fun e he => hH _ (Cat.tb_mem (mem_fillT he))) hnf hpr (Nat.le_max_right _ _)
  -- the old records change nothing
  obtain ⟨r1, e1, _, hc1, hh1⟩ := replay_clean_gen old (raiseKey r0 K) pt sch _ hcat0
    (fun r hr => (H.appliedC_img k hk (hold r hr)).applied hcat0)
  -- the records of the history
  obtain ⟨rN', ρ, eN, hcN, hnN, _, hcl⟩ := torn_replay H hself k hk r1 (by rw [mixAt_zero]; exact hc1)
    (by rw [hh1]; exact hnf) log.length (Nat.le_refl _)
  rw [List.take_length] at eN
  rw [mixAt_end hk] at hcN
  have eall' : replayAll (old ++ log) (raiseKey r0 K) = (rN', none, false) := by
    rw [replayAll_append e1]; exact eN
  -- back to the store recovery really starts from
  have hrk := replayAll_raiseKey (old ++ log) r0 K
  rw [eall'] at hrk
  have eall : replayAll (old ++ log) r0 = ((replayAll (old ++ log) r0).1, none, false) := by
    have h2 := congrArg Prod.snd hrk
    simp only at h2
    rw [h2]
  have hrN : rN' = raiseKey (replayAll (old ++ log) r0).1 K := congrArg Prod.fst hrk
  obtain ⟨hkeys, hmono⟩ := replayAll_counter (old ++ log) r0 _ eall
  have hKle : K ≤ (replayAll (old ++ log) r0).1.hdr.lastKey := by
    rcases hK with h | ⟨r, hr, hop, hcell⟩
    · exact Nat.le_trans h hmono
    · rw [← hcell]; exact hkeys r hr hop
  rw [raiseKey_of_le hKle] at hrN
  subst hrN
  have hmf : MemFiled (replayAll (old ++ log) r0).1 :=
    replayAll_memFiled (old ++ log) r0 (by intro p hp; rw [hmem] at hp; cases hp)
  obtain ⟨hd1, hd2, hd3⟩ := replayAll_disk (old ++ log) r0
  exact ⟨_, ρ, eall, hcN, hnN, fun o ho => hcl o ho (hk o), hd1, hd2, hmf, replayAll_lsn _ _ _ eall, hkeys, hmono,
    hd3⟩

end

end Mkdb.Store
