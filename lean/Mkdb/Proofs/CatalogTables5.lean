import Mkdb.Proofs.CatalogTables2
import Mkdb.Proofs.SessionInv8
import Mkdb.Proofs.SpecHistory
import Mkdb.Proofs.TypedTables7
/-!
C18, the two catalog tables, part 5 (W15): **histories of statements from `CREATE DATABASE`** (the setting
of `from_create_database_history`: the relation `Rel`, each statement accepted by the plain model with room
or refused before a change - `HistOK`).

* `Rel.accepted_self`: an accepted statement keeps `SelfOK`.
* `runHist_self`: `runHist_refines_spec` with `CatSelf` carried along.
* `history_select_never_panics_any`: after any such history a SELECT over ANY tables never panics.
-/
set_option autoImplicit false
namespace Mkdb.Store
open Mkdb.Page Mkdb.Tuple Mkdb.Generated Mkdb.Tree Mkdb.Engine Mkdb.Exec Mkdb.Exec.TypedP Mkdb.Sql

/-- the database a live run ends in -/
theorem live_run_selfOK {sch : Levels} {db db' : Engine.DB} {pt : Levels} {tbls tblsN : List (Bytes × Levels)}
    {stmts : List RStmt} {logs : List WalRec} (hc : Cat db.store pt sch tbls) (hs : CatSelf pt sch)
    (hrun : LiveRunM sch db.store tbls stmts db'.store tblsN logs) : SelfOK db' := by
  obtain ⟨ptN, hcN, hself⟩ := live_run_self sch hrun pt hc hs.self
  exact SelfOK.of_cat hcN ⟨hself, hs.schP, hs.schS⟩

/-- **A statement the plain model accepts keeps `SelfOK`** (hypotheses of `evalStmt_refines_spec`). -/
theorem Rel.accepted_self {db : Engine.DB} {sdb : Spec.SDB} {pt sch : Levels} {tbls : List (Bytes × Levels)}
    (h : Rel db pt sch tbls sdb) (hs : CatSelf pt sch) (order : List Nat) (st : Sql.Stmt)
    (hroom : StmtRoom db pt sch tbls st) (sdb' : Spec.SDB) (hspec : Spec.specStmt sdb st = some sdb') :
    ∀ db1, evalStmt db order st = .ok () db1 → SelfOK db1 := by
  obtain ⟨habsV, _, hmf⟩ := h
  obtain ⟨sdb0, habs0, hv⟩ := habsV
  intro db1 e1
  have hsame : evalStmt db order st = .ok () db → SelfOK db1 := by
    intro e
    rw [e] at e1
    cases e1
    exact SelfOK.of_cat habs0.cat hs
  cases st with
  | insert t cols rows =>
    obtain ⟨hvalid, hrun⟩ := hroom
    simp only [Spec.specStmt] at hspec
    rw [litRows_eq] at hspec
    obtain ⟨sdb0', hspec0, hv'⟩ := specInsert_congr hv t cols _ hspec
    obtain ⟨st0, hfind0⟩ : ∃ st, Spec.findTable sdb0 t = some st := by
      unfold Spec.specInsert at hspec0
      cases hf : Spec.findTable sdb0 t with
      | none => rw [hf] at hspec0; cases hspec0
      | some st => exact ⟨st, rfl⟩
    obtain ⟨tr, htr⟩ := habs0.tabs.find_some hfind0
    obtain ⟨schema, hsch, _, _⟩ := habs0.tabs.find habs0.cat.tnames htr
    obtain ⟨db', ptF, t', logs, sdb'', e, hw, hlive, habs', hvv⟩ := evalInsert_live db pt sch tbls sdb0 sdb0' habs0
      t tr htr schema hsch cols _ (litRows_valid rows hvalid) hspec0 (hrun tr schema htr hsch)
    have e' : evalStmt db order (.insert t cols rows) = .ok () db' := by simp only [evalStmt, e, voidRes]
    rw [e'] at e1
    cases e1
    exact live_run_selfOK habs0.cat hs hlive
  | update t sets w =>
    obtain ⟨sdb0', hspec0, hv'⟩ := specUpdate_congr hv t sets w hspec
    obtain ⟨db', t', logs, stmts, e, hw, hlive, habs'⟩ := evalUpdate_live db pt sch tbls sdb0 sdb0' habs0 t sets w
      hroom.1 hroom.2 hspec0
    have e' : evalStmt db order (.update t sets w) = .ok () db' := e
    rw [e'] at e1
    cases e1
    exact live_run_selfOK habs0.cat hs hlive
  | delete t w =>
    obtain ⟨sdb0', hspec0, hv'⟩ := specDelete_congr hv t w hspec
    obtain ⟨n, db', t', logs, stmts, e, hw, hlive, habs'⟩ := evalDelete_live db pt sch tbls sdb0 sdb0' habs0 t w hspec0
    have e' : evalStmt db order (.delete t w) = .ok () db' := by simp only [evalStmt, e, voidRes]
    rw [e'] at e1
    cases e1
    exact live_run_selfOK habs0.cat hs hlive
  | createTable n cols =>
    obtain ⟨hlo, hchk, hpd, hpl, hsd, hsl, hbig⟩ := hroom
    obtain ⟨hfind, hn1, hn2, hhi, hndc, rfl⟩ := specCreate_some hspec
    exact createTable_ok_self_abs ⟨sdb0, habs0, hv⟩ hmf hs n cols order hfind hn1 hn2
      (colFields_ok cols hhi hlo hndc) hchk hpd hpl hsd hsl hbig db1 (.inl e1)
  | createDatabase n => exact hsame rfl
  | select s => exact hsame rfl
  | use d => exact hsame rfl
  | showDatabases => exact hsame rfl

/-- **Every history** (`runHist_refines_spec`) **keeps `CatSelf`**: from related states whose catalog
describes itself, through any list of statements each of which the plain model accepts (with room) or
refuses before a change, the engine model ends related to the plain database the history implies, under a
catalog description that satisfies `CatSelf`. -/
theorem runHist_self (order : List Nat) (sts : List Sql.Stmt) :
    ∀ (db : Engine.DB) (pt sch : Levels) (tbls : List (Bytes × Levels)) (sdb : Spec.SDB),
      Rel db pt sch tbls sdb → CatSelf pt sch → HistOK order sts db sdb →
      ∃ db' pt' sch' tbls', runHist order db sts = some db' ∧ Rel db' pt' sch' tbls' (specHist sdb sts) ∧
        CatSelf pt' sch' := by
  induction sts with
  | nil => intro db pt sch tbls sdb h hs _; exact ⟨db, pt, sch, tbls, rfl, h, hs⟩
  | cons st rest ih =>
    intro db pt sch tbls sdb h hs hok
    obtain ⟨hroom, hbad, hnext⟩ := hok
    cases hsp : Spec.specStmt sdb st with
    | none =>
      obtain ⟨_, e, db', he, _, hrel'⟩ := evalStmt_refused_spec db order pt sch tbls sdb h st (hbad hsp pt sch tbls h)
      have hn := hnext db' (Or.inr ⟨e, he⟩)
      rw [hsp] at hn
      obtain ⟨db2, pt2, sch2, tbls2, hr, hrel2, hs2⟩ := ih db' pt sch tbls sdb hrel' hs hn
      refine ⟨db2, pt2, sch2, tbls2, ?_, ?_, hs2⟩
      · simp only [runHist, he]; exact hr
      · simp only [specHist, hsp]; exact hrel2
    | some sdb' =>
      obtain ⟨db', pt', sch', tbls', he, hrel'⟩ := evalStmt_refines_spec db order pt sch tbls sdb sdb' h st
        (hroom (by rw [hsp]; rfl) pt sch tbls h) hsp
      have hself' : SelfOK db' := h.accepted_self hs order st (hroom (by rw [hsp]; rfl) pt sch tbls h) sdb' hsp db' he
      have hs' : CatSelf pt' sch' := by
        obtain ⟨_, habs', _⟩ := hrel'.1
        exact hself' pt' sch' tbls' habs'.cat
      have hn := hnext db' (Or.inl he)
      rw [hsp] at hn
      obtain ⟨db2, pt2, sch2, tbls2, hr, hrel2, hs2⟩ := ih db' pt' sch' tbls' sdb' hrel' hs' hn
      refine ⟨db2, pt2, sch2, tbls2, ?_, ?_, hs2⟩
      · simp only [runHist, he]; exact hr
      · simp only [specHist, hsp]; exact hrel2

/-- **After any history of statements from `CREATE DATABASE`** (each accepted with room or refused before a
change: `HistOK`), a SELECT of a parser-produced shape over ANY tables never panics. -/
theorem history_select_never_panics_any (sts : List Sql.Stmt) (hok : HistOK [] sts newDB []) :
    ∃ db', runHist [] newDB sts = some db' ∧ ∀ q : Select,
      (Exec.NoPanicP.ParsedShape q) →
      (∀ n ∈ selectNames q, FetchTotal db' n) ∧ ∀ s, evaluateSelect (fetchOf db') q ≠ .panic s := by
  obtain ⟨db', pt', sch', tbls', hrun, hrel, hs⟩ := runHist_self [] sts newDB ptNew schNew [] [] rel_newDB catSelf_new hok
  refine ⟨db', hrun, fun q hq => ?_⟩
  obtain ⟨h1, h2, _⟩ := select_never_panics_self hrel.1 hs q hq
  exact ⟨h1, h2⟩

end Mkdb.Store
