import Mkdb.Proofs.Unchanged1
import Mkdb.Proofs.Forest
/-!
Refinement of the heap insert by the levels insert, part 1: the primitives of the page store
(`fetch`, `putNode`, `markDirty`, `appendNode`) described on the *abstraction* of a store:
what the engine sees at every offset (`view`), the allocation frontier, and which pages are
resident in the cache.
-/
set_option autoImplicit false
namespace Mkdb.Store
open Mkdb.Page Mkdb.Generated

/-! ### association lists -/

theorem assocGet_cons {β} (p : Nat × β) (ps : List (Nat × β)) (k : Nat) :
    assocGet (p :: ps) k = if p.1 = k then some p.2 else assocGet ps k := by
  unfold assocGet
  rw [List.find?_cons]
  by_cases h : p.1 = k
  · simp [h]
  · have : (p.1 == k) = false := by simpa using h
    simp [this, h]

theorem assocGet_map_set {β} (l : List (Nat × β)) (k k' : Nat) (v : β) :
    assocGet (l.map (fun p => if p.1 == k then (k, v) else p)) k' =
      if k' = k then ((assocGet l k).map fun _ => v) else assocGet l k' := by
  induction l with
  | nil => simp [assocGet]
  | cons p ps ih =>
    rw [List.map_cons, assocGet_cons, assocGet_cons, assocGet_cons, ih]
    by_cases hp : p.1 = k
    · by_cases hk : k' = k
      · simp [hp, hk]
      · have : ¬ k = k' := fun h => hk h.symm
        simp [hp, hk, this]
    · have hpk : (p.1 == k) = false := by simpa using hp
      by_cases hk : k' = k
      · have : ¬ p.1 = k' := by omega
        simp [hp, hk, hpk]
      · simp [hk, hpk]

theorem assocGet_assocSet {β} (l : List (Nat × β)) (k k' : Nat) (v : β) :
    assocGet (assocSet l k v) k' = if k' = k then some v else assocGet l k' := by
  unfold assocSet
  split
  · rename_i hany
    rw [assocGet_map_set]
    by_cases hk : k' = k
    · simp only [hk, if_true]
      cases hf : assocGet l k with
      | none => rw [any_false_of_assocGet_none hf] at hany; cases hany
      | some x => rfl
    · simp [hk]
  · rename_i hany
    have hnone : assocGet l k = none := by
      unfold assocGet
      rw [Option.map_eq_none_iff, List.find?_eq_none]
      intro p hp
      intro hpk
      exact hany (List.any_eq_true.mpr ⟨p, hp, hpk⟩)
    rw [assocGet_append_single]
    by_cases hk : k' = k
    · subst hk
      simp [hnone]
    · have : ¬ k = k' := fun h => hk h.symm
      simp only [this, hk, if_false]
      cases assocGet l k' <;> rfl
/-! ### the abstraction of a store -/

/-- function update -/
def upd (v : Nat → Option (Node × Bool)) (off : Nat) (x : Node × Bool) : Nat → Option (Node × Bool) :=
  fun o => if o = off then some x else v o

theorem upd_same (v) (off : Nat) (x : Node × Bool) : upd v off x off = some x := by simp [upd]
theorem upd_other (v) (off o : Nat) (x : Node × Bool) (h : o ≠ off) : upd v off x o = v o := by
  simp [upd, h]

/-- resident in the cache -/
def Res (s : Store) (o : Nat) : Prop := (assocGet s.mem o).isSome = true

theorem view_set (s : Store) (mem' : List (Nat × MNode)) (hdr' : Header) (k : Nat) (m : MNode)
    (hm : mem' = assocSet s.mem k m) :
    view { s with mem := mem', hdr := hdr' } = upd (view s) k (m.node, m.dirty) := by
  funext o
  subst hm
  simp only [view, upd, assocGet_assocSet]
  by_cases ho : o = k
  · simp [ho]
  · simp [ho]

theorem res_set (s : Store) (mem' : List (Nat × MNode)) (hdr' : Header) (k : Nat) (m : MNode)
    (hm : mem' = assocSet s.mem k m) :
    Res { s with mem := mem', hdr := hdr' } = fun o => Res s o ∨ o = k := by
  funext o
  subst hm
  simp only [Res, assocGet_assocSet]
  by_cases ho : o = k
  · simp [ho]
  · simp [ho]

/-- `fetch` of a page that is seen under the offset it carries: the node comes back, nothing
visible changes, the page is resident afterwards -/
theorem fetch_spec (s : Store) (off : Nat) (n : Node) (d : Bool)
    (h : view s off = some (n, d)) (hoff : nodeOff n = off) :
    ∃ s', fetch off s = .ok n s' ∧ view s' = view s ∧ s'.hdr.nextFree = s.hdr.nextFree ∧
      Res s' = fun o => Res s o ∨ o = off := by
  unfold fetch
  unfold view at h
  cases hm : assocGet s.mem off with
  | some m =>
    rw [hm] at h
    simp only [Option.some.injEq, Prod.mk.injEq] at h
    refine ⟨s, by simp only [h.1], rfl, rfl, ?_⟩
    funext o
    by_cases ho : o = off
    · subst ho; simp [Res, hm]
    · simp [ho]
  | none =>
    rw [hm] at h
    simp only [Option.map_eq_some_iff, Prod.mk.injEq] at h
    obtain ⟨n', hn', rfl, rfl⟩ := h
    subst hoff
    simp only [hn', Option.getD_some]
    refine ⟨_, rfl, ?_, rfl, res_set s _ s.hdr (nodeOff n') ⟨n', false⟩ rfl⟩
    rw [view_set s _ s.hdr (nodeOff n') ⟨n', false⟩ rfl]
    funext o
    by_cases ho : o = nodeOff n'
    · subst ho
      simp [upd, view, hm, hn']
    · simp [upd, ho]

/-- `putNode n (some d)` -/
theorem putNode_some_spec (s : Store) (n : Node) (d : Bool) :
    ∃ s', putNode n (some d) s = .ok () s' ∧ view s' = upd (view s) (nodeOff n) (n, d) ∧
      s'.hdr.nextFree = s.hdr.nextFree ∧ Res s' = fun o => Res s o ∨ o = nodeOff n :=
  ⟨_, rfl, view_set s _ s.hdr (nodeOff n) ⟨n, d⟩ rfl, rfl, res_set s _ s.hdr (nodeOff n) ⟨n, d⟩ rfl⟩

/-- `putNode n` keeping the dirty bit the page is seen with -/
theorem putNode_none_spec (s : Store) (n n0 : Node) (d0 : Bool)
    (h : view s (nodeOff n) = some (n0, d0)) :
    ∃ s', putNode n none s = .ok () s' ∧ view s' = upd (view s) (nodeOff n) (n, d0) ∧
      s'.hdr.nextFree = s.hdr.nextFree ∧ Res s' = fun o => Res s o ∨ o = nodeOff n := by
  have hd : ((assocGet s.mem (nodeOff n)).map (·.dirty)).getD false = d0 := by
    unfold view at h
    cases hm : assocGet s.mem (nodeOff n) with
    | some m => rw [hm] at h; simp at h; simp [h.2]
    | none =>
      rw [hm] at h
      simp only [Option.map_eq_some_iff, Prod.mk.injEq] at h
      obtain ⟨_, _, _, rfl⟩ := h
      rfl
  refine ⟨_, rfl, ?_, rfl, res_set s _ s.hdr (nodeOff n) _ rfl⟩
  rw [view_set s _ s.hdr (nodeOff n) _ rfl, hd]

/-- `markDirty` on a resident page -/
theorem markDirty_spec (s : Store) (off lsn : Nat) (n : Node) (d : Bool)
    (hres : Res s off) (h : view s off = some (n, d)) :
    ∃ s', markDirty off lsn s = .ok () s' ∧ view s' = upd (view s) off (setLSN n lsn, true) ∧
      s'.hdr.nextFree = s.hdr.nextFree ∧ Res s' = Res s := by
  unfold markDirty
  unfold Res at hres
  unfold view at h
  cases hm : assocGet s.mem off with
  | none => rw [hm] at hres; simp at hres
  | some m =>
    rw [hm] at h
    simp only [Option.some.injEq, Prod.mk.injEq] at h
    refine ⟨_, rfl, ?_, rfl, ?_⟩
    · rw [view_set s _ s.hdr off _ rfl, h.1]
    · rw [res_set s _ s.hdr off _ rfl]
      funext o
      by_cases ho : o = off
      · subst ho; simp [Res, hm]
      · simp [ho]

/-- `appendNode` -/
theorem appendNode_spec (s : Store) (n : Node) (d : Bool) :
    ∃ s', appendNode n d s = .ok s.hdr.nextFree s' ∧
      view s' = upd (view s) s.hdr.nextFree (setOff n s.hdr.nextFree, d) ∧
      s'.hdr.nextFree = s.hdr.nextFree + c_pageSize ∧ Res s' = fun o => Res s o ∨ o = s.hdr.nextFree :=
  ⟨_, rfl, view_set s _ _ s.hdr.nextFree ⟨setOff n s.hdr.nextFree, d⟩ rfl, rfl,
    res_set s _ _ s.hdr.nextFree ⟨setOff n s.hdr.nextFree, d⟩ rfl⟩

end Mkdb.Store
