import Mkdb.Proofs.SessionInv5
/-!
Session invariant, part 8: **accepted statements, and what a reader then sees** (for C08).

* `DbInv.accepted`: a statement the plain model accepts (with the room a Go program has, `StmtRoom`)
  succeeds on a database that satisfies the invariant, and the invariant holds again FOR THE PLAIN
  MODEL'S RESULT (`C01_every_statement_refines_plain_model` for `DbInv` instead of `Rel`).
* `DbInv.refused`: a statement refused before a change (`StmtRefusal`) keeps the invariant for THE SAME
  plain database and the same catalog trees.
* `Reads db t cols vals`, `DbInv.reads`: what `RelationService.Fetch` - the source of every SELECT -
  returns for a table of the plain database: its declared columns and exactly its rows, in order.
* `specInsert_table`: the table of the plain database after an accepted INSERT.
-/
set_option autoImplicit false
namespace Mkdb.Store
open Mkdb.Page Mkdb.Tuple Mkdb.Generated Mkdb.Tree Mkdb.Engine

/-- **An accepted statement keeps the invariant, for the plain model's result.** -/
theorem DbInv.accepted {db : Engine.DB} {sdb : Spec.SDB} {pt sch : Levels} {tbls : List (Bytes × Levels)}
    (h : DbInv db sdb pt sch tbls) (order : List Nat) (st : Sql.Stmt) (hroom : StmtRoom db pt sch tbls st)
    (sdb' : Spec.SDB) (hspec : Spec.specStmt sdb st = some sdb') :
    ∃ db' pt' sch' tbls', evalStmt db order st = .ok () db' ∧ DbInv db' sdb' pt' sch' tbls' := by
  obtain ⟨sdb0, habs0, hv⟩ := h.abs
  have hsame : Spec.specStmt sdb st = some sdb → evalStmt db order st = .ok () db →
      ∃ db' pt' sch' tbls', evalStmt db order st = .ok () db' ∧ DbInv db' sdb pt' sch' tbls' :=
    fun _ e => ⟨db, pt, sch, tbls, e, h⟩
  cases st with
  | insert t cols rows =>
    obtain ⟨hvalid, hrun⟩ := hroom
    simp only [Spec.specStmt] at hspec
    rw [litRows_eq] at hspec
    obtain ⟨sdb0', hspec0, hv'⟩ := specInsert_congr hv t cols _ hspec
    obtain ⟨st0, hfind0⟩ : ∃ st, Spec.findTable sdb0 t = some st := by
      unfold Spec.specInsert at hspec0
      cases hf : Spec.findTable sdb0 t with
      | none => rw [hf] at hspec0; cases hspec0
      | some st => exact ⟨st, rfl⟩
    obtain ⟨tr, htr⟩ := habs0.tabs.find_some hfind0
    obtain ⟨schema, hsch, _, _⟩ := habs0.tabs.find habs0.cat.tnames htr
    obtain ⟨db', ptF, t', logs, sdb'', e, hw, hlive, habs', hvv⟩ := evalInsert_live db pt sch tbls sdb0 sdb0' habs0
      t tr htr schema hsch cols _ (litRows_valid rows hvalid) hspec0 (hrun tr schema htr hsch)
    refine ⟨db', ptF, sch, setTable tbls t t', by simp only [evalStmt, e, voidRes], ?_⟩
    exact h.live_run hlive habs'.cat ⟨sdb'', habs', hvv.trans hv'⟩ (setTable_names tbls t t') (Nat.le_refl _)
      (Nat.le_refl _) (.inl hw) (evalInsert_disk e) ((evalInsert_filed db t cols _ h.filed).ok e)
  | update t sets w =>
    obtain ⟨sdb0', hspec0, hv'⟩ := specUpdate_congr hv t sets w hspec
    obtain ⟨db', t', logs, stmts, e, hw, hlive, habs'⟩ := evalUpdate_live db pt sch tbls sdb0 sdb0' habs0 t sets w
      hroom.1 hroom.2 hspec0
    refine ⟨db', pt, sch, setTable tbls t t', e, ?_⟩
    exact h.live_run hlive habs'.cat ⟨sdb0', habs', hv'⟩ (setTable_names tbls t t') (Nat.le_refl _)
      (Nat.le_refl _) (.inl hw) (evalUpdate_disk e) ((evalUpdate_filed db t sets w h.filed).ok e)
  | delete t w =>
    obtain ⟨sdb0', hspec0, hv'⟩ := specDelete_congr hv t w hspec
    obtain ⟨n, db', t', logs, stmts, e, hw, hlive, habs'⟩ := evalDelete_live db pt sch tbls sdb0 sdb0' habs0 t w hspec0
    refine ⟨db', pt, sch, setTable tbls t t', by simp only [evalStmt, e, voidRes], ?_⟩
    exact h.live_run hlive habs'.cat ⟨sdb0', habs', hv'⟩ (setTable_names tbls t t') (Nat.le_refl _)
      (Nat.le_refl _) (.inl hw) (evalDelete_disk e) ((evalDelete_filed db t w h.filed).ok e)
  | createTable n cols =>
    obtain ⟨hlo, hchk, hpd, hpl, hsd, hsl, hbig⟩ := hroom
    obtain ⟨hfind, hn1, hn2, hhi, hndc, rfl⟩ := specCreate_some hspec
    obtain ⟨db', pt', sch', tbls', e, _, hk⟩ := h.createTable_ok n cols order hfind hn1 hn2
      (colFields_ok cols hhi hlo hndc) hchk hpd hpl hsd hsl hbig
    exact ⟨db', pt', sch', tbls', e, hk.inv⟩
  | createDatabase n =>
    simp only [Spec.specStmt, Option.some.injEq] at hspec
    subst hspec; exact hsame rfl rfl
  | select s =>
    simp only [Spec.specStmt, Option.some.injEq] at hspec
    subst hspec; exact hsame rfl rfl
  | use d =>
    simp only [Spec.specStmt, Option.some.injEq] at hspec
    subst hspec; exact hsame rfl rfl
  | showDatabases =>
    simp only [Spec.specStmt, Option.some.injEq] at hspec
    subst hspec; exact hsame rfl rfl

/-- the statement evaluators on any outcome: the data file is not written -/
theorem evalStmt_resDisk (db : Engine.DB) (order : List Nat) (st : Sql.Stmt)
    (hnc : ∀ n c, st ≠ .createTable n c) : ResDisk db.store (evalStmt db order st) := by
  cases st with
  | insert t cols rows =>
    have := evalInsert_go_disk db t cols db.store (rows.map fun r => r.map Engine.litToVal) db.store [] 0
      (DiskSame.refl _)
    simp only [evalStmt]
    unfold Engine.evalInsert
    cases hr : Engine.evalInsert.go db t cols db.store [] 0 (rows.map fun r => r.map Engine.litToVal) <;>
      rw [hr] at this <;> exact this
  | update t sets w => exact evalUpdate_resDisk db t sets w
  | delete t w =>
    have := evalDelete_resDisk db t w
    simp only [evalStmt]
    cases hr : Engine.evalDelete db t w <;> rw [hr] at this <;> exact this
  | createTable n c => exact absurd rfl (hnc n c)
  | createDatabase n => exact DiskSame.refl _
  | select s => exact DiskSame.refl _
  | use d => exact DiskSame.refl _
  | showDatabases => exact DiskSame.refl _

/-- an INSERT refused at its first row does not move the row-id counter back -/
theorem evalInsert_refused_key (db : Engine.DB) (pt sch : Levels) (tbls : List (Bytes × Levels))
    (sdb : Spec.SDB) (h : AbsV db.store pt sch tbls sdb) (table : Bytes) (cols : List Bytes)
    (r : List Val) (rest : List (List Val))
    (hbad : (Spec.findTable sdb table = none ∧ table ≠ sysPages ∧ table ≠ sysSchema) ∨
      ∃ st, Spec.findTable sdb table = some st ∧
        (Spec.rowOf st cols r = none ∨ Spec.namesOK st (cols.map Spec.nameStr) = false)) :
    ∃ e db', Engine.evalInsert db table cols (r :: rest) = .err (.store e) db' ∧
      db.store.hdr.lastKey ≤ db'.store.hdr.lastKey := by
  obtain ⟨sdb0, habs, hv⟩ := h
  have hbad0 : (Spec.findTable sdb0 table = none ∧ table ≠ sysPages ∧ table ≠ sysSchema) ∨
      ∃ st, Spec.findTable sdb0 table = some st ∧
        (Spec.rowOf st cols r = none ∨ Spec.namesOK st (cols.map Spec.nameStr) = false) := by
    rcases hbad with ⟨hn, h1, h2⟩ | ⟨st, hf, hr⟩
    · exact .inl ⟨(findTable_none_congr hv table).mpr hn, h1, h2⟩
    · right
      obtain ⟨st0, hf0, htv⟩ := findTable_congr_some hv hf
      refine ⟨st0, hf0, ?_⟩
      rcases hr with hr | hr
      · exact .inl (by rw [rowOf_congr (tv_cols htv)]; exact hr)
      · exact .inr (by rw [namesOK_congr (tv_cols htv)]; exact hr)
  rcases hbad0 with ⟨hnone, h1, h2⟩ | ⟨st, hfind, hrow⟩
  · have hn : table ∉ tbls.map (·.1) := findTable_none_notin habs.tabs habs.cat.tnames hnone
    obtain ⟨s', e, hs, _⟩ := insert_unknown_table db.store pt sch tbls habs.cat table (cols.map Engine.bytesToName) r
      h1 h2 hn
    exact ⟨.tableNotExist, { db with store := s' }, evalInsert_go_err db table cols r rest db.store s' [] 0 _ e,
      by show db.store.hdr.lastKey ≤ s'.hdr.lastKey; rw [hs.2]; exact Nat.le_refl _⟩
  · obtain ⟨t, ht⟩ := habs.tabs.find_some hfind
    obtain ⟨schema, hsch, _, hf⟩ := habs.tabs.find habs.cat.tnames ht
    rw [hfind] at hf
    simp only [Option.some.injEq] at hf
    subst hf
    rcases hrow with hrow | hnames
    · obtain ⟨e, s', he, _, _, _, _, hlk⟩ := insert_refused_abs habs table t ht schema hsch cols r hrow
      exact ⟨e, { db with store := s' }, evalInsert_go_err db table cols r rest db.store s' [] 0 _ he, hlk⟩
    · obtain ⟨e, s', he, _, _, hs⟩ := insert_badNames_abs habs table t ht schema hsch cols r hnames
      exact ⟨e, { db with store := s' }, evalInsert_go_err db table cols r rest db.store s' [] 0 _ he,
        by show db.store.hdr.lastKey ≤ s'.hdr.lastKey; rw [hs.2]; exact Nat.le_refl _⟩

/-- **A statement refused before a change keeps the invariant, for the same plain database.** -/
theorem DbInv.refused {db : Engine.DB} {sdb : Spec.SDB} {pt sch : Levels} {tbls : List (Bytes × Levels)}
    (h : DbInv db sdb pt sch tbls) (order : List Nat) (st : Sql.Stmt) (hbad : StmtRefusal sdb pt st) :
    Spec.specStmt sdb st = none ∧
    ∃ e db', evalStmt db order st = .err e db' ∧ db'.wal = db.wal ∧ DbInv db' sdb pt sch tbls := by
  obtain ⟨hnone, e, db', he, hw, hrel⟩ := evalStmt_refused_spec db order pt sch tbls sdb h.rel st hbad
  refine ⟨hnone, e, db', he, hw, ?_⟩
  -- the data file is not written, the row-id counter does not go back
  have hfacts : DiskSame db.store db'.store ∧ db.store.hdr.lastKey ≤ db'.store.hdr.lastKey := by
    cases hbad with
    | create n cols hc =>
      obtain ⟨_, e2, db2, he2, _, _, hs, _⟩ := evalCreateTable_refused_specV db pt sch tbls sdb h.abs n cols order true hc
      have he' : Engine.evalCreateTable db n cols order true = .err e db' := he
      rw [he2] at he'
      simp only [Engine.Res.err.injEq] at he'
      obtain ⟨_, rfl⟩ := he'
      refine ⟨?_, by rw [hs.2]; exact Nat.le_refl _⟩
      simp only [Engine.evalCreateTable, Engine.liftS] at he2
      cases e3 : createTable (cols.map Engine.colTypeToField) n order true db.store with
      | err x s' =>
        rw [e3] at he2
        simp only [Engine.Res.err.injEq] at he2
        rw [← he2.2]
        exact createTable_err_disk e3
      | ok a s' => rw [e3] at he2; cases he2
      | panic p => rw [e3] at he2; cases he2
      | unmodelled w => rw [e3] at he2; cases he2
      | fuel => rw [e3] at he2; cases he2
    | insert t cols r rest hc =>
      have hd := evalStmt_resDisk db order (.insert t cols (r :: rest)) (fun _ _ hx => by cases hx)
      rw [he] at hd
      obtain ⟨e2, db2, he2, hlk⟩ := evalInsert_refused_key db pt sch tbls sdb h.abs t cols
        (r.map Engine.litToVal) (rest.map fun r => r.map Engine.litToVal) hc
      have he' : voidRes (Engine.evalInsert db t cols ((r :: rest).map fun r => r.map Engine.litToVal)) = .err e db' := he
      rw [List.map_cons, he2] at he'
      simp only [voidRes, Engine.Res.err.injEq] at he'
      obtain ⟨_, rfl⟩ := he'
      exact ⟨hd, hlk⟩
    | update t sets w hc =>
      have hd := evalStmt_resDisk db order (.update t sets w) (fun _ _ hx => by cases hx)
      rw [he] at hd
      obtain ⟨_, e2, db2, he2, _, _, hs, _⟩ := evalUpdate_refused_specV db pt sch tbls sdb h.abs t sets w hc
      have he' : Engine.evalUpdate db t sets w = .err e db' := he
      rw [he2] at he'
      simp only [Engine.Res.err.injEq] at he'
      obtain ⟨_, rfl⟩ := he'
      exact ⟨hd, by rw [hs.2]; exact Nat.le_refl _⟩
    | delete t w hsys hn =>
      have hd := evalStmt_resDisk db order (.delete t w) (fun _ _ hx => by cases hx)
      rw [he] at hd
      obtain ⟨e2, db2, he2, _, _, _, _, hs, _⟩ := evalDelete_refused_specV db pt sch tbls sdb h.abs t w hsys hn
      have he' : voidRes (Engine.evalDelete db t w) = .err e db' := he
      rw [he2] at he'
      simp only [voidRes, Engine.Res.err.injEq] at he'
      obtain ⟨_, rfl⟩ := he'
      exact ⟨hd, by rw [hs.2]; exact Nat.le_refl _⟩
  obtain ⟨hdisk, hlk⟩ := hfacts
  obtain ⟨habs', _, hmf'⟩ := hrel
  refine ⟨habs', h.nostale, hmf', by rw [hw]; exact h.log, ?_, ?_, ?_⟩
  · intro r hr
    rw [hw] at hr
    exact Nat.lt_of_lt_of_le (h.lsn r hr) hdisk.2.2
  · intro r hr hop
    rw [hw] at hr
    exact Nat.le_trans (h.keys r hr hop) hlk
  · intro x hx e he hdy
    rw [hdisk.1]; exact h.synced x hx e he hdy

/-! ### what a reader sees -/

/-- `RelationService.Fetch` of the table - what every SELECT reads - returns the columns `cols` and
rows holding exactly the values `vals`, in order -/
def Reads (db : Engine.DB) (t : Bytes) (cols : List FieldDef) (vals : List (List Val)) : Prop :=
  ∃ rows s', fetchTable t db.store = .ok (rows, cols) s' ∧ rows.map (·.2) = vals

/-- **A reader sees the plain database**: whenever the store abstracts to the plain database, `Fetch` of a
table of the plain database returns its declared columns and exactly its rows, value for value, in order. -/
theorem AbsV.reads {db : Engine.DB} {sdb : Spec.SDB} {pt sch : Levels} {tbls : List (Bytes × Levels)}
    (h : AbsV db.store pt sch tbls sdb) {t : Bytes} {tb : Spec.STable} (hfind : Spec.findTable sdb t = some tb) :
    Reads db t tb.cols (tb.rows.map (·.vals)) := by
  obtain ⟨sdb0, habs0, hv⟩ := h
  obtain ⟨tb0, hf0, htv⟩ := findTable_congr_some hv hfind
  obtain ⟨tr, htr⟩ := habs0.tabs.find_some hf0
  obtain ⟨schema, hsch, hdec, hf⟩ := habs0.tabs.find habs0.cat.tnames htr
  rw [hf0] at hf
  simp only [Option.some.injEq] at hf
  subst hf
  obtain ⟨s', e, _, _⟩ := fetchTable_cat habs0.cat t tr htr schema hsch hdec
  have hc : tb.cols = schema := (tv_cols htv).symm
  have hr : tb.rows.map (·.vals) = (rowsOf schema (live tr)).map (·.2) := by
    rw [← tv_rows htv]
    simp only [absTable, List.map_map]
    rfl
  rw [hc, hr]
  exact ⟨_, s', e, rfl⟩

theorem DbInv.reads {db : Engine.DB} {sdb : Spec.SDB} {pt sch : Levels} {tbls : List (Bytes × Levels)}
    (h : DbInv db sdb pt sch tbls) {t : Bytes} {tb : Spec.STable} (hfind : Spec.findTable sdb t = some tb) :
    Reads db t tb.cols (tb.rows.map (·.vals)) := h.abs.reads hfind

/-- the table of the plain database after an accepted INSERT: the old rows, then one new row per VALUES
row, in order -/
theorem specInsert_table {sdb sdb' : Spec.SDB} {t : Bytes} {cols : List Bytes} {rows : List (List Val)}
    (h : Spec.specInsert sdb t cols rows = some sdb') :
    ∃ tb newRows, Spec.findTable sdb t = some tb ∧ rows.mapM (Spec.rowOf tb cols) = some newRows ∧
      Spec.findTable sdb' t = some { tb with rows := tb.rows ++ newRows.map fun v => ⟨none, v⟩ } := by
  unfold Spec.specInsert at h
  cases hf : Spec.findTable sdb t with
  | none => rw [hf] at h; cases h
  | some tb =>
    rw [hf] at h
    simp only [Option.bind_eq_bind, Option.bind_some] at h
    split at h
    · cases h
    cases hm : rows.mapM (Spec.rowOf tb cols) with
    | none => rw [hm] at h; cases h
    | some newRows =>
      rw [hm] at h
      simp only [Option.bind_some, Option.pure_def, Option.some.injEq] at h
      refine ⟨tb, newRows, rfl, hm, ?_⟩
      rw [← h]
      unfold Spec.findTable at hf ⊢
      have hname := List.find?_some hf
      simp only [beq_iff_eq] at hname
      rw [List.find?_map]
      have : ((fun x : Spec.STable => x.name == t) ∘ fun x : Spec.STable =>
          if (x.name == t) = true then { x with rows := x.rows ++ newRows.map fun v => (⟨none, v⟩ : Spec.SRow) } else x) =
          fun x : Spec.STable => x.name == t := by
        funext x
        simp only [Function.comp]
        split <;> rfl
      rw [this, hf]
      simp [hname]

end Mkdb.Store
