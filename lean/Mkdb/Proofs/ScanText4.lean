import Mkdb.Proofs.ScanText3
/-!
# The scanner on text in standard form, part 4: the token loop over a whole text

`scanAll_piece`: one step of the loop.  `renderItems`: gap, piece, gap, piece, ..., trailing gap.
`scanSQL_items`: the text scans to exactly the tokens of its pieces.
-/
namespace Mkdb.Scan
open Mkdb.Generated

/-- One step of the token loop: when the scanner stands (after a gap) at a well-formed piece that can end
where it ends, `scanAll` appends the piece's token and goes on behind the piece. -/
theorem scanAll_piece (p : Piece) (hok : p.ok = true) (X : Input) (hX : HeadP p.stop X = true)
    (F k : Nat) (l : Input) (hl : scanTok (F + 1) l = scanTok (k + 1) (p.runes ++ X)) (acc : List Token) :
    scanAll (F + 1) l acc = scanAll F X (p.tok :: acc) := by
  cases p with
  | word rs =>
    cases rs with
    | nil => simp [Piece.ok] at hok
    | cons r w =>
      simp only [Piece.ok, Bool.and_eq_true, Bool.not_eq_true', List.all_eq_true] at hok
      obtain ⟨⟨⟨h1, h2⟩, h3⟩, _⟩ := hok
      rw [scanAll, hl, Piece.runes, scanTok_word k r w X h1 h2 hX h3]
      rfl
  | int ds =>
    cases ds with
    | nil => simp [Piece.ok] at hok
    | cons d ds =>
      simp only [Piece.ok, Bool.and_eq_true, List.all_eq_true] at hok
      rw [scanAll, hl, Piece.runes, scanTok_int k d ds X hok.1 hok.2 hX]
      simp only [Piece.tok, textOf_ascii]
  | str body =>
    have hb : strBodyOK body = true := hok
    rw [scanAll, hl, Piece.runes, scanTok_str k body X hb]
    have hkw : keywordOf (upperCodes (asciiRune 39 :: body ++ [asciiRune 39])) = none :=
      keywordOf_none_of_head 39 _ (by decide)
    simp only [strBodyOK, Bool.and_eq_true, beq_iff_eq] at hb
    have hstrip : stripQuotes (textOf (asciiRune 39 :: body ++ [asciiRune 39])) = some (textOf body) := by
      have : textOf (asciiRune 39 :: body ++ [asciiRune 39]) = 39 :: textOf body ++ [39] := by
        rw [List.cons_append, textOf_cons, textOf_append]; rfl
      rw [this]; exact stripQuotes_quoted _ hb.2
    simp only [hkw, hstrip, beq_self_eq_true, ↓reduceIte]
    rfl
  | punct c =>
    have hc : c ∈ punctCodes := by simpa [Piece.ok] using hok
    obtain ⟨-, -, -, -, hkw, hop, hks⟩ := punct_facts c hc
    rw [scanAll, hl]
    simp only [Piece.runes, List.cons_append, List.nil_append]
    rw [scanTok_punct k c X hc hX]
    have hup : upperCodes [asciiRune c] = [asciiUpper c] := rfl
    simp only [hup, hkw, hop]
    cases X with
    | nil => simp only [Bool.and_false, Bool.false_eq_true, ↓reduceIte]; rfl
    | cons x X =>
      have hnext : ((c == 33 || c == 60 || c == 62) && x.code == 61) = false := by
        simp only [HeadP, Piece.stop] at hX
        by_cases h3 : (c == 33 || c == 60 || c == 62) = true
        · have h46 : (c == 46) = false := by
            simp only [Bool.or_eq_true, beq_iff_eq] at h3
            simp only [beq_eq_false_iff_ne]; omega
          simp only [h46, h3, Bool.false_eq_true, ↓reduceIte, Bool.not_eq_true'] at hX
          simp only [hX, Bool.and_false]
        · simp only [Bool.not_eq_true] at h3
          simp only [h3, Bool.false_and]
      simp only [hnext, Bool.false_eq_true, ↓reduceIte]; rfl
  | op2 c =>
    have hc3 : (c == 33 || c == 60 || c == 62) = true := hok
    have hc : c ∈ punctCodes := by
      simp only [Bool.or_eq_true, beq_iff_eq] at hc3
      rcases hc3 with (h | h) | h <;> subst h <;> decide
    obtain ⟨-, -, -, -, hkw, hop, hks⟩ := punct_facts c hc
    rw [scanAll, hl]
    simp only [Piece.runes, List.cons_append, List.nil_append]
    have hf : isWs c = false ∧ isIdentRune (asciiRune c) true = false ∧ isDecimal c = false ∧
        (c ≠ 34 ∧ c ≠ 39 ∧ c ≠ 46 ∧ c ≠ 47 ∧ c ≠ 96) := by
      simp only [Bool.or_eq_true, beq_iff_eq] at hc3
      rcases hc3 with (h | h) | h <;> subst h <;> decide
    rw [scanTok_char k c _ hf.1 hf.2.1 hf.2.2.1 hf.2.2.2]
    have hup : upperCodes [asciiRune c] = [asciiUpper c] := rfl
    have heq : scanTok (F + 1) (asciiRune 61 :: X) = some (.char 61, [asciiRune 61], X) :=
      scanTok_char F 61 X (by decide) (by decide) (by decide) (by decide)
    simp only [hup, hkw, hop, hc3, asciiRune_code, beq_self_eq_true, Bool.and_self, ↓reduceIte, heq]
    have hty : (if (punctTy c == t_BANG) = true then t_NEQ else if (punctTy c == t_GT) = true then t_GTE else t_LTE) =
        (if c == 33 then t_NEQ else if c == 62 then t_GTE else t_LTE) := by
      simp only [Bool.or_eq_true, beq_iff_eq] at hc3
      rcases hc3 with (h | h) | h <;> subst h <;> decide
    rw [hty]; rfl
/-- The text: gap, piece, gap, piece, ..., trailing gap. -/
def renderItems : List (Gap × Piece) → Gap → Input
  | [], tail => Gap.runes tail
  | (g, p) :: rest, tail => Gap.runes g ++ (p.runes ++ renderItems rest tail)

/-- Every gap and piece is well formed and every piece can end where it ends: the rune behind it
(the first rune of the following gap, or of the next piece when the gap is empty) satisfies `Piece.stop`. -/
def ItemsOK : List (Gap × Piece) → Gap → Bool
  | [], tail => Gap.ok tail
  | (g, p) :: rest, tail =>
    Gap.ok g && p.ok && HeadP p.stop (renderItems rest tail) && ItemsOK rest tail

/-- fuel the token loop needs: one per token, one per comment, one for the end -/
def itemsFuel : List (Gap × Piece) → Gap → Nat
  | [], tail => Gap.cost tail + 1
  | (g, _) :: rest, tail => Gap.cost g + 1 + itemsFuel rest tail

theorem scanTok_nil (f : Nat) : scanTok (f + 1) [] = some (.eof, [], []) := by
  simp only [scanTok, skipWs]

theorem scanAll_items : ∀ (items : List (Gap × Piece)) (tail : Gap), ItemsOK items tail = true →
    ∀ (F : Nat) (acc : List Token), itemsFuel items tail ≤ F →
      scanAll F (renderItems items tail) acc = .ok (acc.reverse ++ items.map (·.2.tok)) := by
  intro items
  induction items with
  | nil =>
    intro tail hok F acc hF
    simp only [itemsFuel] at hF
    obtain ⟨k, rfl⟩ : ∃ k, F = Gap.cost tail + k + 1 := ⟨F - Gap.cost tail - 1, by omega⟩
    have h := scanTok_gap tail hok [] k
    rw [List.append_nil, scanTok_nil] at h
    rw [renderItems, scanAll, h]
    simp
  | cons it rest ih =>
    intro tail hok F acc hF
    obtain ⟨g, p⟩ := it
    simp only [ItemsOK, Bool.and_eq_true] at hok
    obtain ⟨⟨⟨hg, hp⟩, hstop⟩, hrest⟩ := hok
    simp only [itemsFuel] at hF
    obtain ⟨F', rfl⟩ : ∃ F', F = F' + 1 := ⟨F - 1, by omega⟩
    obtain ⟨k, hk⟩ : ∃ k, F' = Gap.cost g + k := ⟨F' - Gap.cost g, by omega⟩
    have hgap := scanTok_gap g hg (p.runes ++ renderItems rest tail) k
    rw [← hk] at hgap
    rw [renderItems, scanAll_piece p hp _ hstop F' k _ hgap acc, ih tail hrest F' _ (by omega)]
    simp

/-! ## From `scanAll` to `scanSQL`: the byte order mark and the initial fuel -/

theorem dropBOM_of_head (l : Input) (h : HeadP (fun r => !(r.code == 0xFEFF)) l = true) : dropBOM l = l := by
  cases l with
  | nil => rfl
  | cons r l =>
    simp only [HeadP, Bool.not_eq_true'] at h
    simp only [dropBOM, h, Bool.false_eq_true, ↓reduceIte]

/-- a well-formed gap starts with a whitespace rune or `/` -/
theorem Gap.head (g : Gap) (hg : Gap.ok g = true) (hne : g ≠ []) :
    ∃ c X, Gap.runes g = asciiRune c :: X ∧ c ∈ [9, 10, 11, 12, 13, 32, 47] := by
  cases g with
  | nil => exact absurd rfl hne
  | cons e g =>
    simp only [Gap.ok, List.all_cons, Bool.and_eq_true] at hg
    rw [Gap.runes_cons]
    cases e with
    | ws c =>
      refine ⟨c, Gap.runes g, rfl, ?_⟩
      have : isWs c = true := hg.1
      simp only [isWs, Bool.or_eq_true, beq_iff_eq] at this
      simp only [List.mem_cons, List.not_mem_nil, or_false]
      omega
    | block body => exact ⟨47, _, rfl, by decide⟩
    | line body => exact ⟨47, _, rfl, by decide⟩

/-- every piece may end before a whitespace rune or a `/` -/
theorem Piece.stop_gapHead (p : Piece) (c : Nat) (hc : c ∈ [9, 10, 11, 12, 13, 32, 47]) :
    p.stop (asciiRune c) = true := by
  have h1 : isIdentRune (asciiRune c) false = false ∧ isDecimal c = false ∧ (c == 95) = false ∧
      notFloatCont (asciiRune c) = true ∧ notBasePrefix (asciiRune c) = true ∧ (c == 61) = false := by
    simp only [List.mem_cons, List.not_mem_nil, or_false] at hc
    rcases hc with h | h | h | h | h | h | h <;> subst h <;> decide
  obtain ⟨a1, a2, a3, a4, a5, a6⟩ := h1
  cases p with
  | word rs => simp only [Piece.stop, a1, Bool.not_false]
  | int ds => simp only [Piece.stop, asciiRune_code, a2, a3, a4, a5, Bool.or_self, Bool.not_false, Bool.or_true, Bool.and_self]
  | str body => rfl
  | punct c' =>
    simp only [Piece.stop, asciiRune_code, a2, a6, Bool.not_false]
    split
    · rfl
    · split <;> rfl
  | op2 c' => rfl

/-- a piece may end before any non-empty well-formed gap, and at the end of the text -/
theorem Piece.stop_gap (p : Piece) (g : Gap) (hg : Gap.ok g = true) (hne : g ≠ []) (X : Input) :
    HeadP p.stop (Gap.runes g ++ X) = true := by
  obtain ⟨c, Y, hY, hc⟩ := Gap.head g hg hne
  rw [hY, List.cons_append, HeadP_cons]
  exact Piece.stop_gapHead p c hc

theorem Piece.runes_head (p : Piece) (hp : p.ok = true) :
    ∃ r X, p.runes = r :: X ∧ (r.code == 0xFEFF) = false := by
  cases p with
  | word rs =>
    cases rs with
    | nil => simp [Piece.ok] at hp
    | cons r w =>
      simp only [Piece.ok, Bool.and_eq_true, Bool.not_eq_true'] at hp
      exact ⟨r, w, rfl, hp.2⟩
  | int ds =>
    cases ds with
    | nil => simp [Piece.ok] at hp
    | cons d ds =>
      simp only [Piece.ok, Bool.and_eq_true] at hp
      refine ⟨asciiRune d, ds.map asciiRune, rfl, ?_⟩
      have := hp.1
      simp only [isDecimal, Bool.and_eq_true, decide_eq_true_eq] at this
      simp only [asciiRune_code, beq_eq_false_iff_ne]; omega
  | str body => exact ⟨asciiRune 39, _, rfl, by decide⟩
  | punct c =>
    refine ⟨asciiRune c, [], rfl, ?_⟩
    have hc : c ∈ punctCodes := by simpa [Piece.ok] using hp
    have : ∀ c ∈ punctCodes, (c == 0xFEFF) = false := by decide
    exact this c hc
  | op2 c =>
    refine ⟨asciiRune c, [asciiRune 61], rfl, ?_⟩
    have hc3 : (c == 33 || c == 60 || c == 62) = true := hp
    simp only [Bool.or_eq_true, beq_iff_eq] at hc3
    simp only [asciiRune_code, beq_eq_false_iff_ne]; omega

theorem renderItems_head (items : List (Gap × Piece)) (tail : Gap) (hok : ItemsOK items tail = true) :
    HeadP (fun r => !(r.code == 0xFEFF)) (renderItems items tail) = true := by
  have hgap : ∀ (g : Gap) (X : Input), Gap.ok g = true → g ≠ [] →
      HeadP (fun r => !(r.code == 0xFEFF)) (Gap.runes g ++ X) = true := by
    intro g X hg hne
    obtain ⟨c, Y, hY, hc⟩ := Gap.head g hg hne
    rw [hY, List.cons_append, HeadP_cons]
    simp only [List.mem_cons, List.not_mem_nil, or_false] at hc
    rcases hc with h | h | h | h | h | h | h <;> subst h <;> decide
  cases items with
  | nil =>
    simp only [ItemsOK] at hok
    by_cases hne : tail = []
    · subst hne; rfl
    · have := hgap tail [] hok hne
      rwa [List.append_nil] at this
  | cons it rest =>
    obtain ⟨g, p⟩ := it
    simp only [ItemsOK, Bool.and_eq_true] at hok
    obtain ⟨⟨⟨hg, hp⟩, _⟩, _⟩ := hok
    rw [renderItems]
    by_cases hne : g = []
    · subst hne
      obtain ⟨r, X, hr, hcode⟩ := Piece.runes_head p hp
      simp only [Gap.runes, List.flatMap_nil, List.nil_append, hr, List.cons_append, HeadP_cons, hcode, Bool.not_false]
    · exact hgap g _ hg hne

theorem Gap.cost_le (g : Gap) : Gap.cost g ≤ (Gap.runes g).length := by
  induction g with
  | nil => simp [Gap.cost]
  | cons e g ih =>
    rw [Gap.runes_cons, List.length_append]
    have : Gap.cost (e :: g) = e.cost + Gap.cost g := by simp [Gap.cost]
    rw [this]
    have : e.cost ≤ e.runes.length := by
      cases e <;> simp [GapEl.cost, GapEl.runes]
    omega

theorem itemsFuel_le (items : List (Gap × Piece)) (tail : Gap) (hok : ItemsOK items tail = true) :
    itemsFuel items tail ≤ (renderItems items tail).length + 1 := by
  induction items with
  | nil => simp only [itemsFuel, renderItems]; have := Gap.cost_le tail; omega
  | cons it rest ih =>
    obtain ⟨g, p⟩ := it
    simp only [ItemsOK, Bool.and_eq_true] at hok
    obtain ⟨⟨⟨_, hp⟩, _⟩, hrest⟩ := hok
    obtain ⟨r, X, hr, _⟩ := Piece.runes_head p hp
    have := ih hrest
    have := Gap.cost_le g
    simp only [itemsFuel, renderItems, List.length_append, hr, List.length_cons]
    omega

/-- **The scanner on standard-form text.**  A text made of well-formed gaps and pieces in which every
piece can end where it ends scans - with the fuel `scanSQL` starts with - to exactly the tokens of its
pieces, in order, and nothing else. -/
theorem scanSQL_items (items : List (Gap × Piece)) (tail : Gap) (hok : ItemsOK items tail = true) :
    scanSQL (renderItems items tail) = .ok (items.map (·.2.tok)) := by
  unfold scanSQL
  rw [dropBOM_of_head _ (renderItems_head items tail hok),
    scanAll_items items tail hok _ [] (by have := itemsFuel_le items tail hok; omega)]
  rfl

end Mkdb.Scan
