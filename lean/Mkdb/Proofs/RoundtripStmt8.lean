import Mkdb.Proofs.RoundtripStmt7
/-!
Token-level round trip (C10), part 8: the converse for `Select` (a SELECT without FROM has no
other clause), for the other statements and for `Parser.Parse`.
-/
namespace Mkdb.Sql
open Mkdb.Scan Mkdb.Generated

theorem sortSpecList_short {f : Nat} {ts : List Token} {ob : List SortSpec} {r : List Token}
    (hl : ts.length ≤ 1) (h : sortSpecList f ts = .ok ob r) : ob = [] ∧ r = ts := by
  simp only [sortSpecList_eq, bind_apply] at h
  rsplit h
  rename_i o mid hm
  rcases matchTy_inv hm with ⟨rfl, rfl, _⟩ | ⟨t, rfl, rfl, _⟩
  · simp only [pure_apply] at h; cases h; exact ⟨rfl, rfl⟩
  · have : mid = [] := by
      cases mid with
      | nil => rfl
      | cons a b => simp at hl
    subst this
    simp only [requireMatch, bind_apply, matchTy] at h
    cases h

theorem limitOffsetClause_short {f : Nat} {ts : List Token} {lc : LimitOffset} {r : List Token}
    (hl : ts.length ≤ 1) (h : limitOffsetClause f ts = .ok lc r) :
    lc.limitActive = false ∧ lc.offsetActive = false := by
  cases f with
  | zero => simp only [limitOffsetClause, limitLoop, bind_apply] at h; cases h
  | succ f =>
    simp only [limitOffsetClause, limitLoop, bind_apply] at h
    rsplit h
    rename_i lc' mid hloop
    rsplit hloop
    rename_i o mid2 hm
    rcases matchTy_inv hm with ⟨rfl, rfl, _⟩ | ⟨t, rfl, rfl, hc⟩
    · simp only [pure_apply] at hloop
      cases hloop
      simp (config := {decide := true}) only [↓reduceIte, pure_apply] at h
      cases h; exact ⟨rfl, rfl⟩
    · have : mid2 = [] := by
        cases mid2 with
        | nil => rfl
        | cons a b => simp at hl
      subst this
      have hr : requireInt [] = .err .unexpected := rfl
      simp only [List.contains_cons, List.contains_nil, Bool.or_false, Bool.or_eq_true, beq_iff_eq] at hc
      rcases hc with hc | hc
      · simp (config := {decide := true}) only [hc, ↓reduceIte, bind_apply, hr] at hloop
        cases hloop
      · simp (config := {decide := true}) only [hc, ↓reduceIte, bind_apply, hr] at hloop
        cases hloop

theorem hasNext_inv {ts : List Token} {b : Bool} {r : List Token} (h : hasNext ts = .ok b r) :
    r = ts ∧ b = decide (ts.length > 1) := by
  simp only [hasNext] at h; cases h; exact ⟨rfl, rfl⟩

theorem groupByValid_of_ok {sl : List DerivedCol} {gb : List ColRef} (h : validateGroupBy sl gb = .ok ()) :
    groupByValid sl gb = true := by
  simp only [groupByValid, h]

/-- **what `Select` returns is well formed** -/
theorem parseSelect_inv {f : Nat} {ts : List Token} {s : Select} {rest : List Token}
    (h : parseSelect f ts = .ok s rest) : wfSelect int64Lit s = true := by
  simp only [parseSelect, bind_apply] at h
  rsplit h
  rename_i sl mid hsl
  have h1 := selectList_inv hsl
  rsplit h
  rename_i fr mid2 hfr
  have h2 := Ret.fromClause f _ _ _ hfr
  cases fr with
  | none =>
    simp only [bind_apply] at h
    rsplit h
    rename_i b mid3 hn
    obtain ⟨rfl, rfl⟩ := hasNext_inv hn
    split at h
    · simp only [bind_apply] at h
      rsplit h
    · rename_i hlen
      simp only [gt_iff_lt, decide_eq_true_eq, Nat.not_lt] at hlen
      cases hv : validateGroupBy sl [] with
      | error e => simp only [hv] at h; cases h
      | ok u =>
        cases u
        simp only [hv, bind_apply] at h
        rsplit h
        rename_i ob mid4 hob
        obtain ⟨rfl, rfl⟩ := sortSpecList_short hlen hob
        rsplit h
        rename_i lc mid5 hlc
        have h3 := Ret.limitOffsetClause f _ _ _ hlc
        obtain ⟨h4, h5⟩ := limitOffsetClause_short hlen hlc
        simp only [pure_apply] at h
        cases h
        simp only [wfSelect, h1, groupByValid_of_ok hv, h3, h4, h5, Option.isNone_none, List.isEmpty_nil,
          Bool.not_false, Bool.and_self]
  | some tr =>
    simp only [bind_apply] at h
    rsplit h
    rename_i w mid3 hw
    have h3 := Ret.whereClause f _ _ _ hw
    rsplit h
    rename_i gb mid4 hgb
    cases hv : validateGroupBy sl gb with
    | error e => simp only [hv] at h; cases h
    | ok u =>
      cases u
      simp only [hv, bind_apply] at h
      rsplit h
      rename_i ob mid5 hob
      rsplit h
      rename_i lc mid6 hlc
      have h4 := Ret.limitOffsetClause f _ _ _ hlc
      simp only [pure_apply] at h
      cases h
      have h5 := h2 tr rfl
      simp only [wfTR] at h5
      simp only [wfSelect, h1, groupByValid_of_ok hv, h4, h5, h3, Bool.and_self]

/-- every element a `guardedLoop` returns is one its body returned -/
theorem Ret.guardedLoop {α} (Q : α → Prop) (tys : List Int) (body : Token → P (α × Bool))
    (hb : ∀ t, Ret (body t) (fun x => Q x.1)) (f : Nat) :
    Ret (Sql.guardedLoop f tys body) (fun xs => ∀ x ∈ xs, Q x) := by
  induction f with
  | zero => intro ts a r h; cases h
  | succ f ih =>
    unfold Sql.guardedLoop
    with_reducible apply Ret.bind (Ret.any _); intro o _
    split
    · exact Ret.pure (fun x hx => by cases hx)
    · rename_i t
      with_reducible apply Ret.bind (hb t); intro x hx
      obtain ⟨a, cont⟩ := x
      simp only
      split
      · with_reducible apply Ret.bind ih; intro tl htl
        apply Ret.pure
        intro y hy
        simp only [List.mem_cons] at hy
        rcases hy with rfl | hy
        · exact hx
        · exact htl y hy
      · apply Ret.pure
        intro y hy
        simp only [List.mem_singleton] at hy
        subst hy; exact hx

theorem Ret.colDefBody (t : Token) : Ret (colDefBody t) (fun x => wfColType int64Lit x.1.ty = true) := by
  unfold Sql.colDefBody
  with_reducible apply Ret.bind (Ret.any _); intro cur _
  with_reducible apply Ret.bind (Ret.any _); intro _ _
  with_reducible apply Ret.bind (Q1 := fun ty => wfColType int64Lit ty = true)
  · split
    · exact Ret.pure rfl
    · split
      · exact Ret.pure rfl
      · split
        · with_reducible apply Ret.bind (Ret.any _); intro _ _
          with_reducible apply Ret.bind Ret.requireInt; intro n hn
          with_reducible apply Ret.bind (Ret.any _); intro _ _
          exact Ret.pure hn
        · split
          · exact Ret.pure rfl
          · exact Ret.fail
  · intro ty hty
    with_reducible apply Ret.bind (Ret.any _); intro _ _
    exact Ret.pure hty

theorem Ret.valBody (t : Token) : Ret (valBody t) (fun x => int64Lit x.1 = true) := by
  unfold Sql.valBody
  split
  · exact Ret.fail
  · rename_i hv
    with_reducible apply Ret.bind (Ret.any _); intro _ _
    exact Ret.pure (tokenVal_range hv)

theorem Ret.rowBody (f : Nat) (t : Token) : Ret (rowBody f t) (fun x => x.1.all int64Lit = true) := by
  unfold Sql.rowBody
  with_reducible apply Ret.bind (Ret.guardedLoop (fun l => int64Lit l = true) literalTys Sql.valBody Ret.valBody f)
  intro vals hv
  with_reducible apply Ret.bind (Ret.any _); intro _ _
  with_reducible apply Ret.bind (Ret.any _); intro _ _
  exact Ret.pure (List.all_eq_true.mpr hv)

theorem Ret.setBody (t : Token) : Ret (setBody t) (fun x => wfV int64Lit x.1.2 = true) := by
  unfold Sql.setBody
  with_reducible apply Ret.bind (Ret.any _); intro _ _
  with_reducible apply Ret.bind Ret.valueExpression; intro v hv
  with_reducible apply Ret.bind (Ret.any _); intro _ _
  exact Ret.pure hv

/-- **what `parseStatement` returns is well formed** (relative to the int64 literals) -/
theorem parseStmt_inv {f : Nat} {ts : List Token} {s : Stmt} {rest : List Token}
    (h : parseStmt f ts = .ok s rest) : wfStmt int64Lit s = true := by
  have hr : Ret (parseStmt f) (fun s => wfStmt int64Lit s = true) := by
    unfold parseStmt
    with_reducible apply Ret.bind (Ret.any _); intro cur _
    with_reducible apply Ret.bind (Ret.any _); intro _ _
    split
    · unfold parseCreate
      with_reducible apply Ret.bind (Ret.any _); intro cur _
      with_reducible apply Ret.bind (Ret.any _); intro _ _
      split
      · with_reducible apply Ret.bind (Ret.any _); intro _ _
        exact Ret.pure rfl
      · split
        · with_reducible apply Ret.bind (Ret.any _); intro _ _
          rw [tableElements_eq]
          with_reducible apply Ret.bind (Q1 := fun cols => ∀ c ∈ cols, wfColType int64Lit c.ty = true)
          · with_reducible apply Ret.bind (Ret.any _); intro _ _
            with_reducible apply Ret.bind (Ret.guardedLoop (fun c => wfColType int64Lit c.ty = true) [t_IDENT]
              colDefBody Ret.colDefBody f)
            intro cols hc
            with_reducible apply Ret.bind (Ret.any _); intro _ _
            exact Ret.pure hc
          · intro cols hc
            exact Ret.pure (List.all_eq_true.mpr hc)
        · exact Ret.fail
    · split
      · have hps : Ret (parseSelect f) (fun s => wfSelect int64Lit s = true) := fun _ _ _ h => parseSelect_inv h
        with_reducible apply Ret.bind hps
        intro sel hs
        exact Ret.pure hs
      · split
        · rw [parseInsert_eq]
          with_reducible apply Ret.bind (Ret.any _); intro _ _
          with_reducible apply Ret.bind (Ret.any _); intro _ _
          with_reducible apply Ret.bind (Ret.any _); intro _ _
          with_reducible apply Ret.bind (Ret.any _); intro _ _
          with_reducible apply Ret.bind (Ret.guardedLoop (fun r => r.all int64Lit = true) [t_LPAREN] (rowBody f)
            (Ret.rowBody f) f)
          intro rows hrows
          exact Ret.pure (List.all_eq_true.mpr hrows)
        · split
          · rw [parseUpdate_eq]
            with_reducible apply Ret.bind (Ret.any _); intro _ _
            with_reducible apply Ret.bind (Ret.any _); intro _ _
            with_reducible apply Ret.bind (Ret.guardedLoop (fun a => wfV int64Lit a.2 = true) [t_IDENT] setBody
              Ret.setBody f)
            intro sets hsets
            with_reducible apply Ret.bind (Ret.whereClause f); intro w hw
            apply Ret.pure
            simp only [wfStmt, List.all_eq_true.mpr hsets, hw, Bool.and_self]
          · split
            · with_reducible apply Ret.bind (Ret.any _); intro _ _
              exact Ret.pure rfl
            · split
              · unfold parseDelete
                with_reducible apply Ret.bind (Ret.any _); intro _ _
                with_reducible apply Ret.bind (Ret.any _); intro _ _
                with_reducible apply Ret.bind (Ret.whereClause f); intro w hw
                exact Ret.pure hw
              · split
                · unfold parseShow
                  with_reducible apply Ret.bind (Ret.any _); intro _ _
                  with_reducible apply Ret.bind (Ret.any _); intro _ _
                  split
                  · exact Ret.pure rfl
                  · split
                    · exact Ret.pure rfl
                    · exact Ret.fail
                · exact Ret.fail
  exact hr _ _ _ h

/-- **the range of `Parser.Parse` is well formed**: whatever tokens are accepted, the statement
returned satisfies `wfStmt` relative to the literals a token can carry (`int64Lit`). -/
theorem parseTokens_wf {ts : List Token} {s : Stmt} (h : parseTokens ts = .ok s) : wfStmt int64Lit s = true := by
  unfold parseTokens at h
  cases hp : parseStmt (ts.length + 2) ts with
  | ok a rest =>
    rw [hp] at h
    simp only at h
    split at h
    · cases h; exact parseStmt_inv hp
    · cases h
  | err e => rw [hp] at h; cases h
  | panic p => rw [hp] at h; cases h
  | fuel => rw [hp] at h; cases h

/-! ## The well-formed statements are exactly the range of the parser -/

/-- literal tokens for every int64: a minus sign before the digits of a negative integer
(`strconv.Atoi` reads it; the scanner never writes one) -/
def intLitTok : Lit → Token
  | .int i => ⟨t_INT, if i < 0 then 45 :: natDigits i.natAbs else natDigits i.toNat⟩
  | .str b => ⟨t_STR, b⟩
  | .bool true => ⟨t_TRUE, []⟩
  | .bool false => ⟨t_FALSE, []⟩

theorem atoi_neg_natDigits (n : Nat) (h : n ≤ 9223372036854775808) :
    atoi (45 :: natDigits n) = some (-(n : Int)) := by
  have hv : digitsVal (natDigits n) 0 = some n := natDigitsF_val n n (Nat.le_refl n)
  have hne : natDigits n ≠ [] := natDigitsF_ne_nil n n
  unfold atoi
  split
  rename_i heq
  split at heq
  · rename_i h1; cases h1
  · rename_i h1
    cases h1
    cases heq
    have he : (natDigits n).isEmpty = false := by
      cases hd : natDigits n with
      | nil => exact absurd hd hne
      | cons a b => rfl
    simp only [he, Bool.false_eq_true, ↓reduceIte, hv]
    rw [if_neg (by omega)]
  · rename_i h1 h2
    exact absurd rfl (h2 _)

theorem intLitTok_good (l : Lit) (h : int64Lit l = true) : GoodLit intLitTok l := by
  cases l with
  | int i =>
    simp only [int64Lit, Bool.and_eq_true, decide_eq_true_eq] at h
    refine ⟨rfl, ?_⟩
    by_cases hneg : i < 0
    · have ha := atoi_neg_natDigits i.natAbs (by omega)
      have hi : -((i.natAbs : Nat) : Int) = i := by omega
      rw [hi] at ha
      simp (config := {decide := true}) only [intLitTok, hneg, tokenVal, ha, ↓reduceIte]
    · have ha := atoi_natDigits i.toNat (by omega)
      have hi : ((i.toNat : Nat) : Int) = i := by omega
      rw [hi] at ha
      simp (config := {decide := true}) only [intLitTok, hneg, tokenVal, ha, ↓reduceIte]
  | str b => exact ⟨rfl, rfl⟩
  | bool b => cases b <;> exact ⟨rfl, rfl⟩

/-- **`wfStmt` is exact**: a statement is well formed (relative to the literals a token can carry)
if and only if `Parser.Parse` returns it for some token list. -/
theorem wfStmt_iff_parseable (s : Stmt) : wfStmt int64Lit s = true ↔ ∃ ts, parseTokens ts = .ok s := by
  constructor
  · intro hw
    refine ⟨renderStmt { lit := intLitTok } s ++ closing { lit := intLitTok } 0 false, ?_⟩
    exact parseTokens_render { lit := intLitTok } int64Lit intLitTok_good s hw 0 false (by
      simp only [closingOK, Bool.toNat_false, Nat.add_zero, Nat.zero_le, decide_true, Bool.or_true])
  · rintro ⟨ts, h⟩
    exact parseTokens_wf h

/-! ### Concrete rich statements and options (used by the non-vacuity examples of `Props/C10.lean`) -/

/-- `SELECT t.a AS x, count(*) c, u.b, avg(v.k) FROM t tt JOIN u ON t.a = u.a AND u.b > 3
LEFT JOIN v vv ON v.k = t.a OR v.k <= 1 WHERE t.a < 10 AND u.b != 'x' OR a = TRUE AND b
GROUP BY t.a, u.b ORDER BY t.a DESC, u.b LIMIT 10 OFFSET 2` -/
def c10ExSelect : Stmt := .select {
  list := [⟨.expr (.val (.col ⟨[116], [97]⟩)), [120]⟩, ⟨.count none, [99]⟩, ⟨.expr (.val (.col ⟨[117], [98]⟩)), []⟩,
           ⟨.avg ⟨[118], [107]⟩, []⟩],
  from_ := some (.join (.join (.table ⟨[116], some [116, 116]⟩) .inner ⟨[117], none⟩
              (.and ⟨.col ⟨[116], [97]⟩, t_EQ, .col ⟨[117], [97]⟩⟩ (.pred ⟨.col ⟨[117], [98]⟩, t_GT, .lit (.int 3)⟩)))
            .left ⟨[118], some [118, 118]⟩
              (.or (.pred ⟨.col ⟨[118], [107]⟩, t_EQ, .col ⟨[116], [97]⟩⟩)
                   (.pred ⟨.col ⟨[118], [107]⟩, t_LTE, .lit (.int 1)⟩))),
  where_ := some (.or (.and ⟨.col ⟨[116], [97]⟩, t_LT, .lit (.int 10)⟩ (.pred ⟨.col ⟨[117], [98]⟩, t_NEQ, .lit (.str [120])⟩))
              (.and ⟨.col ⟨[], [97]⟩, t_EQ, .lit (.bool true)⟩ (.val (.col ⟨[], [98]⟩)))),
  groupBy := [⟨[116], [97]⟩, ⟨[117], [98]⟩],
  orderBy := [⟨⟨[116], [97]⟩, true⟩, ⟨⟨[117], [98]⟩, false⟩],
  lim := { limitActive := true, offsetActive := true, limit := 10, offset := 2 } }

/-- `INSERT INTO t (a, b) VALUES (1, 'x', TRUE), (2, 'y', FALSE), ()` -/
def c10ExInsert : Stmt :=
  .insert [116] [[97], [98]] [[.int 1, .str [120], .bool true], [.int 2, .str [121], .bool false], []]

/-- `CREATE TABLE t (a INT, b BIGINT, c VARCHAR(255), d BOOLEAN)` -/
def c10ExCreate : Stmt :=
  .createTable [116] [⟨[97], .int⟩, ⟨[98], .bigint⟩, ⟨[99], .varchar 255⟩, ⟨[100], .boolean⟩]

/-- `UPDATE t SET a = 1, b = u.c WHERE a = 2 OR b` -/
def c10ExUpdate : Stmt :=
  .update [116] [([97], .lit (.int 1)), ([98], .col ⟨[117], [99]⟩)]
    (some (.or (.pred ⟨.col ⟨[], [97]⟩, t_EQ, .lit (.int 2)⟩) (.val (.col ⟨[], [98]⟩))))

/-- options that take every non-default spelling: lower-case-ish keyword texts, no AS, INNER
written, ASC written, no commas in GROUP BY, OFFSET before LIMIT, `SHOW dataBASES` -/
def c10ExOpts : ROpts :=
  { kw := fun x => [UInt8.ofNat x.toNat], asKw := fun i => i % 2 == 1, innerKw := fun _ => true, ascKw := fun _ => true,
    gbComma := fun _ => false, emptyGroupBy := true, limitFirst := false, emptyColParens := true,
    showIdent := some [100, 97, 116, 97, 66, 65, 83, 69, 83] }

end Mkdb.Sql
