import Mkdb.Proofs.CrashPrefix4
import Mkdb.Proofs.SpecRefineB5
/-!
Crash while a statement appends its records to the log, part 5: **UPDATE of the engine.**

Every row of an UPDATE logs exactly one record, so every cut is a row boundary: the first `k` records
replayed give the table with the first `k` selected rows rewritten (`rewriteFirst` of `SpecRefineB5`).

* `evalUpdate_go_append`: the loop over `A ++ B` is the loop over `A`, then the loop over `B`.
* `evalUpdate_cut`: the statement.
-/
set_option autoImplicit false
namespace Mkdb.Store
open Mkdb.Page Mkdb.Tuple Mkdb.Generated Mkdb.Tree

/-- the loop of `evalUpdate` through `A`, whatever follows -/
theorem evalUpdate_go_append (db : Engine.DB) (table : Bytes) (cols : List String) (src : List Val) :
    ∀ (A : List (Nat × List Val)) (s : Store) (batch : List WalRec) (sJ : Store) (w : List WalRec),
      Engine.evalUpdate.go db table cols src s batch A = .ok () { store := sJ, wal := w } →
      ∃ lJ, w = db.wal ++ (batch ++ lJ) ∧ ∀ B, Engine.evalUpdate.go db table cols src s batch (A ++ B) =
        Engine.evalUpdate.go db table cols src sJ (batch ++ lJ) B
  | [], s, batch, sJ, w, h => by
    simp only [Engine.evalUpdate.go, Engine.Res.ok.injEq, Engine.DB.mk.injEq, true_and] at h
    obtain ⟨rfl, rfl⟩ := h
    exact ⟨[], by rw [List.append_nil], fun B => by rw [List.nil_append, List.append_nil]⟩
  | r :: A, s, batch, sJ, w, h => by
    simp only [Engine.evalUpdate.go] at h
    cases hmd : update table r.1 cols src s with
    | ok logs s1 =>
      rw [hmd] at h
      obtain ⟨lJ, hw, hB⟩ := evalUpdate_go_append db table cols src A s1 (batch ++ logs) sJ w h
      refine ⟨logs ++ lJ, by rw [hw, List.append_assoc], fun B => ?_⟩
      simp only [List.cons_append, Engine.evalUpdate.go, hmd]
      rw [hB B, List.append_assoc]
    | err e s1 => rw [hmd] at h; cases h
    | panic p => rw [hmd] at h; cases h
    | unmodelled u => rw [hmd] at h; cases h
    | fuel => rw [hmd] at h; cases h

/-- **UPDATE of the engine, its log cut anywhere and replayed.**  As `evalDelete_cut`: the engine logs
one record per selected row, and for EVERY `k`, with `j = min k logs.length`, replaying the first `k`
records on `r` ends without error in a store `rK` which - like the store `sK` of the engine's loop
after the first `j` selected rows, reached by a live run of `j` row statements with log `logs.take k` -
abstracts to `sdb` with the first `j` selected rows of the table rewritten, no other row touched.
(`hsetAll`: the SET columns pass the statement's check - what `evalUpdate_ok_set` reads off a run of
the engine that succeeded.) -/
theorem evalUpdate_cut (db : Engine.DB) (r : Store) (pt sch : Levels) (tbls : List (Bytes × Levels))
    (sdb sdb' : Spec.SDB) (h : Abs db.store pt sch tbls sdb) (hr : Cat r pt sch tbls) (hself : PtSelf pt)
    (hf : FreshM db.store tbls) (e1 : r.hdr.nextFree = db.store.hdr.nextFree)
    (e2 : r.hdr.lastKey = db.store.hdr.lastKey) (e3 : r.hdr.nextLSN ≤ db.store.hdr.nextLSN)
    (table : Bytes) (sets : List (Bytes × Sql.VExpr)) (w : Option Sql.Cond)
    (hvalid : ∀ p ∈ sets, ∀ l, p.2 = .lit l → ValidVal (Engine.litToVal l))
    (hsetAll : ∀ schema, schemaOf sch table = some schema →
      Engine.checkSetColumns (schema.map fun fd => (⟨[], fd.name.toUTF8.toList⟩ : Exec.Field)) []
        (sets.map (·.1)) = none)
    (hspec : Spec.specUpdate sdb table sets w = some sdb') :
    ∃ dbC logs st sel, Engine.evalUpdate db table sets w = .ok () dbC ∧ dbC.wal = db.wal ++ logs ∧
      Spec.findTable sdb table = some st ∧ Spec.selects st w = some sel ∧
      logs.length = (sel.filter id).length ∧
      ∀ k, ∃ sK ptK tK rK stmts,
        LiveRunM sch db.store tbls stmts sK (setTable tbls table tK) (logs.take k) ∧
        stmts.length = min k logs.length ∧
        Engine.replayAll (logs.take k) r = (rK, none, false) ∧
        Abs sK ptK sch (setTable tbls table tK)
          (sdb.map (updRows table fun rs => rewriteFirst st.cols sets (min k logs.length) (rs.zip sel))) ∧
        Abs rK ptK sch (setTable tbls table tK)
          (sdb.map (updRows table fun rs => rewriteFirst st.cols sets (min k logs.length) (rs.zip sel))) ∧
        (∀ x ∈ catTrees ptK sch (setTable tbls table tK), ∀ o ∈ offs x, view rK o = view sK o) ∧
        rK.hdr.nextFree = sK.hdr.nextFree ∧ rK.hdr.lastKey = sK.hdr.lastKey ∧
        rK.hdr.nextLSN ≤ sK.hdr.nextLSN ∧
        sK.hdr.nextFree = db.store.hdr.nextFree ∧ sK.hdr.lastKey = db.store.hdr.lastKey := by
  rw [specUpdate_eq] at hspec
  cases hfind : Spec.findTable sdb table with
  | none => rw [hfind] at hspec; cases hspec
  | some st =>
    rw [hfind] at hspec
    simp only [Option.bind_some] at hspec
    split at hspec
    · cases hspec
    · rename_i hany
      have hnocol : ∀ p ∈ sets, ∀ c, p.2 ≠ .col c := by
        intro p hp c hpc
        apply hany
        rw [List.any_eq_true]
        exact ⟨p, hp, by simp only [hpc]⟩
      split at hspec
      · cases hspec
      cases hsel : Spec.selects st w with
      | none => rw [hsel] at hspec; cases hspec
      | some sel =>
        rw [hsel] at hspec
        simp only [Option.bind_some] at hspec
        cases hrows : (st.rows.zip sel).mapM (specUpdRow st.cols sets) with
        | none => rw [hrows] at hspec; cases hspec
        | some rows' =>
          obtain ⟨t, ht⟩ := h.tabs.find_some hfind
          obtain ⟨schema, hsch, hdec, hfd⟩ := h.tabs.find h.cat.tnames ht
          rw [hfind] at hfd
          simp only [Option.some.injEq] at hfd
          subst hfd
          have hset := hsetAll schema hsch
          have hcc : checkColumns schema (sets.map fun p => Engine.bytesToName p.1) = none := by
            have := checkSetColumns_none_checkColumns schema _ hset
            rwa [List.map_map] at this
          obtain ⟨s1, efetch, hs1, hc1⟩ := fetchTable_cat h.cat table t ht schema hsch hdec
          obtain ⟨efilter, hsl⟩ := filterIds_selects table schema (rowsOf schema (live t)) w sel hsel
          obtain ⟨_, hIt, _, _, _⟩ := h.cat.tree t (Cat.tb_mem ht)
          have hkn := live_keys_nodup hIt.asc
          have hnd : ((rowsOf schema (live t)).map (·.1)).Nodup := by
            rw [rowsOf_keys schema (live t) hdec]; exact hkn
          have hnd' : ((selRows (rowsOf schema (live t)) sel).map (·.1)).Nodup :=
            hnd.sublist ((selRows_sublist _ sel).map _)
          have hlen : sel.length = (live t).length := by
            rw [hsl, ← List.length_map (f := fun r : Nat × List Val => r.1), rowsOf_keys schema (live t) hdec,
              List.length_map]
          have hKp : ∀ p ∈ (live t).zip sel,
              (p.1.key ∈ (selRows (rowsOf schema (live t)) sel).map (·.1) ↔ p.2 = true) := by
            intro p hp
            obtain ⟨q, hq, h1, h2⟩ := zip_rowsOf_mem schema (live t) sel hdec p hp
            rw [← h1, ← h2]
            exact selRows_mem_iff _ sel hnd q hq
          obtain ⟨hcan, _, _⟩ := update_rows_agree schema sets (setMap_valid sets hvalid)
            ((selRows (rowsOf schema (live t)) sel).map (·.1)) (live t) sel rows' hdec hlen hKp hrows
          have hmemsel : ∀ q ∈ selRows (rowsOf schema (live t)) sel, ∃ c ∈ live t, c.key = q.1 ∧ ∃ m buf,
              decodeTuple schema c.val [] = .ok m ∧ encodeTuple schema (setMap sets ++ m) = .ok buf ∧
              buf.length ≤ c_maxValueSize := fun q hq => by
            obtain ⟨c, hc, hck⟩ := mem_rowsOf ((selRows_sublist _ sel).subset hq)
            exact ⟨c, hc, hck, hcan c hc (hck ▸ List.mem_map.mpr ⟨q, hq, rfl⟩)⟩
          -- the whole statement
          obtain ⟨sC, tC, logs, ego, _, _, _, hlenC, _, _⟩ := evalUpdate_go_live db table pt sch schema hsch sets hcc
            (selRows (rowsOf schema (live t)) sel) s1 tbls t [] hc1 ht hnd' hmemsel
          have hf1 : FreshM s1 tbls :=
            hf.of_hdr (by rw [hs1.2]; exact Nat.le_refl _) (by rw [hs1.2]; exact Nat.le_refl _)
          have hstart : Engine.evalUpdate db table sets w = Engine.evalUpdate.go db table
              (sets.map fun p => Engine.bytesToName p.1)
              (sets.map fun p => match p.2 with | .lit l => Engine.litToVal l | .col _ => Val.null) s1 []
              (selRows (rowsOf schema (live t)) sel) := by
            rw [evalUpdate_nocol db table sets w hnocol]
            simp only [Engine.fetchForExec, Engine.liftS, efetch, hset, efilter]
            rfl
          refine ⟨{ store := sC, wal := db.wal ++ ([] ++ logs) }, logs, _, sel, hstart.trans ego, by simp, rfl,
            hsel, by rw [hlenC, selRows_length _ _ hsl], ?_⟩
          intro k
          have hsplit := List.take_append_drop (min k logs.length) (selRows (rowsOf schema (live t)) sel)
          have hjlen : ((selRows (rowsOf schema (live t)) sel).take (min k logs.length)).length =
              min k logs.length := by
            rw [List.length_take, ← hlenC]; omega
          obtain ⟨sK, tK, logsJ, egoJ, hrunJ, hcJ, hlJ, hlenJ, hlkJ, hnfJ⟩ := evalUpdate_go_live db table pt sch schema
            hsch sets hcc ((selRows (rowsOf schema (live t)) sel).take (min k logs.length)) s1 tbls t [] hc1 ht
            (hnd'.sublist ((List.take_sublist _ _).map _))
            (fun q hq => hmemsel q ((List.take_sublist _ _).subset hq))
          rw [hjlen] at hlenJ
          obtain ⟨lJ, hwJ, hB⟩ := evalUpdate_go_append db table _ _ _ s1 [] sK _ egoJ
          have hlJeq : lJ = logsJ := by
            have := List.append_cancel_left hwJ
            simp only [List.nil_append] at this
            exact this.symm
          subst hlJeq
          have hrest := hB ((selRows (rowsOf schema (live t)) sel).drop (min k logs.length))
          rw [hsplit, ego] at hrest
          obtain ⟨l2, hw2, _⟩ := evalUpdate_go_append db table _ _ _ sK ([] ++ lJ) sC _ hrest.symm
          have hlogs : logs = lJ ++ l2 := by
            have := List.append_cancel_left hw2
            simp only [List.nil_append] at this
            exact this
          have htake : logs.take k = lJ := by
            have h1 : logs.take k = logs.take (min k logs.length) := by
              rw [List.take_eq_take_iff]; omega
            rw [h1, hlogs]
            exact List.take_left' (by rw [hlenJ, ← hlogs])
          obtain ⟨ptK, rK, hre, c1, c2, _, _, a1, a2, a3⟩ := replay_history_mixed_gen sch hrunJ pt r hc1 hr hself
            hf1 (by rw [hs1.2]; exact e1) (by rw [hs1.2]; exact e2) (by rw [hs1.2]; exact e3)
          -- the abstraction: the first `j` selected rows rewritten
          obtain ⟨hd', hrw⟩ := rows_rewriteFirst schema sets (setMap_valid sets hvalid) (live t) sel
            (min k logs.length) hdec hlen hkn (by
              intro q hq
              have hq' := (List.take_sublist _ _).subset hq
              obtain ⟨c, hc, hck, m, hm, hr2⟩ := mem_rowsOf_cell ((selRows_sublist _ sel).subset hq')
              obtain ⟨m', buf, hm', henc, hsz⟩ := hcan c hc (hck ▸ List.mem_map.mpr ⟨q, hq', rfl⟩)
              rw [hm] at hm'
              simp only [Except.ok.injEq] at hm'
              subst hm'
              rw [hr2]
              have := (specAssign_some_iff schema sets m _).mpr ⟨buf, henc, hsz, rfl⟩
              rw [this]
              exact Option.some_ne_none _)
          rw [← hlJ] at hd' hrw
          have htabs := h.tabs.setTable h.cat.tnames ht schema hsch tK hd'
            (fun rs => rewriteFirst schema sets (min k logs.length) (rs.zip sel))
            (by simp only [absTable]; exact hrw)
          refine ⟨sK, ptK, tK, rK,
            updStmts table sets ((selRows (rowsOf schema (live t)) sel).take (min k logs.length)),
            ?_, ?_, by rw [htake]; exact hre, ⟨c1, htabs⟩, ⟨c2, htabs⟩, c1.same_pages c2, a1,
            a2, a3, by rw [hnfJ, hs1.2], by rw [hlkJ, hs1.2]⟩
          · rw [htake]; exact .same hs1 hrunJ
          · simp only [updStmts, List.length_map]; exact hjlen

end Mkdb.Store
