import Mkdb.Proofs.ReplayCkpt1
/-!
Crash after a checkpoint, part 2: what a statement does to the LSNs of the pages of a tree (levels
model only, no store).

* `PageLsn x page lsn`: the tree `x` has a page at offset `page` whose LSN is at least `lsn`.
* `insertAppend_page_kept`, `updLeaves_page_kept`: every page of the tree before a statement is, after
  it, the same page object or a page stamped with the statement's LSN and marked dirty.
* `PageLsn.ins`, `PageLsn.upd`: `PageLsn` survives later statements (with larger LSNs).
* `updLeaves_stamps`: the leaf holding the key carries the statement's LSN afterwards.
* `insertAppend_old_root`: **when an insert moves the root, the old root page carries the insert's
  LSN** (the leaf that split, or the internal node whose split made the tree grow).
-/
set_option autoImplicit false
namespace Mkdb.Store
open Mkdb.Page Mkdb.Tuple Mkdb.Generated Mkdb.Tree Mkdb.Engine

/-! ### the pages of a tree -/

theorem mem_flatten {t : Levels} {e : Nat × Node × Bool} :
    e ∈ flatten t ↔ (∃ p ∈ t.leaves, e = (p.1.off, Node.leaf p.1, p.2)) ∨
      (∃ lvl ∈ t.inner, ∃ p ∈ lvl, e = (p.1.off, Node.internal p.1, p.2)) := by
  unfold flatten
  rw [List.mem_append, List.mem_map, List.mem_flatMap]
  constructor
  · rintro (⟨p, hp, rfl⟩ | ⟨lvl, hl, he⟩)
    · exact .inl ⟨p, hp, rfl⟩
    · obtain ⟨p, hp, rfl⟩ := List.mem_map.mp he
      exact .inr ⟨lvl, hl, p, hp, rfl⟩
  · rintro (⟨p, hp, rfl⟩ | ⟨lvl, hl, p, hp, rfl⟩)
    · exact .inl ⟨p, hp, rfl⟩
    · exact .inr ⟨lvl, hl, List.mem_map.mpr ⟨p, hp, rfl⟩⟩

/-- a page of a tree carries the offset it is filed under -/
theorem flatten_nodeOff {t : Levels} {e : Nat × Node × Bool} (he : e ∈ flatten t) : nodeOff e.2.1 = e.1 := by
  rcases mem_flatten.mp he with ⟨p, _, rfl⟩ | ⟨lvl, _, p, _, rfl⟩ <;> rfl

/-- the tree has a page at offset `page` whose LSN is at least `lsn` -/
def PageLsn (x : Levels) (page lsn : Nat) : Prop := ∃ e ∈ flatten x, e.1 = page ∧ lsn ≤ nodeLSN e.2.1

/-- "the same page object, or stamped with `lsn` and dirty" -/
def KeptOr (lsn : Nat) (e e' : Nat × Node × Bool) : Prop :=
  e'.1 = e.1 ∧ (e' = e ∨ (nodeLSN e'.2.1 = lsn ∧ e'.2.2 = true))

/-! ### `bubble` -/

/-- every internal node is, after a split was propagated, itself or a node at its offset that is
stamped and dirty -/
theorem bubble_page_kept (lsn : Nat) : ∀ (lvls : List (List (Internal × Bool))) (sep l nc nf : Nat),
    (∀ lvl ∈ lvls, lvl ≠ []) →
    ∀ lvl ∈ lvls, ∀ p ∈ lvl, ∃ lvl' ∈ (bubble lsn lvls sep l nc nf).1, ∃ p' ∈ lvl',
      p'.1.off = p.1.off ∧ (p' = p ∨ (p'.1.lsn = lsn ∧ p'.2 = true))
  | [], _, _, _, _, _ => by intro lvl h; cases h
  | lvl0 :: rest, sep, l, nc, nf, hne => by
    rcases eq_nil_or_snoc lvl0 with rfl | ⟨pre, ⟨p0, d0⟩, rfl⟩
    · exact absurd rfl (hne [] List.mem_cons_self)
    · rw [bubble_cons_snoc]
      intro lvl hl p hp
      split
      · rcases List.mem_cons.mp hl with rfl | hl
        · rcases List.mem_append.mp hp with hp | hp
          · exact ⟨_, List.mem_cons_self, p, List.mem_append_left _ hp, rfl, .inl rfl⟩
          · simp only [List.mem_singleton] at hp
            subst hp
            exact ⟨_, List.mem_cons_self, (intApp p0 sep nc lsn, true), List.mem_append_right _ (by simp), rfl,
              .inr ⟨rfl, rfl⟩⟩
        · exact ⟨lvl, List.mem_cons_of_mem _ hl, p, hp, rfl, .inl rfl⟩
      · rcases List.mem_cons.mp hl with rfl | hl
        · rcases List.mem_append.mp hp with hp | hp
          · exact ⟨_, List.mem_cons_self, p, List.mem_append_left _ hp, rfl, .inl rfl⟩
          · simp only [List.mem_singleton] at hp
            subst hp
            exact ⟨_, List.mem_cons_self, (intL (intApp p0 sep nc lsn), true),
              List.mem_append_right _ (by simp), rfl, .inr ⟨rfl, rfl⟩⟩
        · obtain ⟨lvl', hl', p', hp', h1, h2⟩ := bubble_page_kept lsn rest (midCell (intApp p0 sep nc lsn)).key
            p0.off nf (nf + c_pageSize) (fun x hx => hne x (List.mem_cons_of_mem _ hx)) lvl hl p hp
          exact ⟨lvl', List.mem_cons_of_mem _ hl', p', hp', h1, h2⟩

/-- every page of the tree before an insert is, in the tree after it, the same page object or a page
at the same offset stamped with the insert's LSN and dirty -/
theorem insertAppend_page_kept (t t' : Levels) (k lsn nf nf' : Nat) (v : Bytes) (hI : Inv t nf)
    (h : insertAppend t k lsn v nf = .ok (t', nf')) :
    ∀ e ∈ flatten t, ∃ e' ∈ flatten t', KeptOr lsn e e' := by
  obtain ⟨pre, last, d, hpre, _, _, hcase⟩ := insertAppend_inv_cases h
  have hne : ∀ lvl ∈ t.inner, lvl ≠ [] := (levelsWF_of_inv hI).1
  intro e he
  rcases mem_flatten.mp he with ⟨p, hp, rfl⟩ | ⟨lvl, hl, p, hp, rfl⟩
  · -- a leaf
    rw [hpre] at hp
    rcases List.mem_append.mp hp with hp | hp
    · refine ⟨_, mem_flatten.mpr (.inl ⟨p, ?_, rfl⟩), rfl, .inl rfl⟩
      rcases hcase with ⟨_, rfl, _⟩ | ⟨_, rfl, _⟩ <;> exact List.mem_append_left _ hp
    · simp only [List.mem_singleton] at hp
      subst hp
      rcases hcase with ⟨_, rfl, _⟩ | ⟨_, rfl, _⟩
      · exact ⟨_, mem_flatten.mpr (.inl ⟨(leafApp last k lsn v, true), List.mem_append_right _ (by simp), rfl⟩),
          rfl, .inr ⟨rfl, rfl⟩⟩
      · exact ⟨_, mem_flatten.mpr (.inl ⟨(leafL (leafApp last k lsn v) nf, true),
          List.mem_append_right _ (by simp), rfl⟩), rfl, .inr ⟨rfl, rfl⟩⟩
  · -- an internal node
    rcases hcase with ⟨_, rfl, _⟩ | ⟨_, rfl, _⟩
    · exact ⟨_, mem_flatten.mpr (.inr ⟨lvl, hl, p, hp, rfl⟩), rfl, .inl rfl⟩
    · obtain ⟨lvl', hl', p', hp', h1, h2⟩ := bubble_page_kept lsn t.inner
        (((leafR (leafApp last k lsn v) lsn nf).cells.head?.map (·.key)).getD 0) last.off nf (nf + c_pageSize)
        hne lvl hl p hp
      refine ⟨_, mem_flatten.mpr (.inr ⟨lvl', hl', p', hp', rfl⟩), h1, ?_⟩
      rcases h2 with rfl | ⟨a, b⟩
      · exact .inl rfl
      · exact .inr ⟨a, b⟩

/-- the same about a cell change -/
theorem updLeaves_page_kept (f : LeafCell → LeafCell) (key lsn : Nat) (t : Levels) :
    ∀ e ∈ flatten t, ∃ e' ∈ flatten (updLeaves f key lsn t), KeptOr lsn e e' := by
  intro e he
  rcases mem_flatten.mp he with ⟨p, hp, rfl⟩ | ⟨lvl, hl, p, hp, rfl⟩
  · refine ⟨_, mem_flatten.mpr (.inl ⟨updLeaf f key lsn p, List.mem_map.mpr ⟨p, hp, rfl⟩, rfl⟩),
      updLeaf_off f key lsn p, ?_⟩
    unfold updLeaf
    split
    · exact .inr ⟨rfl, rfl⟩
    · exact .inl rfl
  · exact ⟨_, mem_flatten.mpr (.inr ⟨lvl, hl, p, hp, rfl⟩), rfl, .inl rfl⟩

theorem PageLsn.of_kept {x x' : Levels} {page lsn L : Nat} (h : PageLsn x page lsn) (hL : lsn ≤ L)
    (hk : ∀ e ∈ flatten x, ∃ e' ∈ flatten x', KeptOr L e e') : PageLsn x' page lsn := by
  obtain ⟨e, he, hp, hl⟩ := h
  obtain ⟨e', he', ho, hc⟩ := hk e he
  refine ⟨e', he', by rw [ho, hp], ?_⟩
  rcases hc with rfl | ⟨h1, _⟩
  · exact hl
  · omega

/-- a page that carries an LSN at least `lsn` still does after a later insert -/
theorem PageLsn.ins {t t' : Levels} {page lsn k L nf nf' : Nat} {v : Bytes} (h : PageLsn t page lsn)
    (hL : lsn ≤ L) (hI : Inv t nf) (hins : insertAppend t k L v nf = .ok (t', nf')) : PageLsn t' page lsn :=
  h.of_kept hL (insertAppend_page_kept t t' k L nf nf' v hI hins)

/-- … and after a later cell change -/
theorem PageLsn.upd {t : Levels} {page lsn L : Nat} (h : PageLsn t page lsn) (hL : lsn ≤ L)
    (f : LeafCell → LeafCell) (key : Nat) : PageLsn (updLeaves f key L t) page lsn :=
  h.of_kept hL (updLeaves_page_kept f key L t)

/-- the leaf that holds the key carries the LSN of the cell change -/
theorem updLeaves_stamps (f : LeafCell → LeafCell) (key lsn : Nat) (t : Levels) (l : Leaf) (d : Bool)
    (hm : (l, d) ∈ t.leaves) (hany : l.cells.any (fun c => c.key == key) = true) :
    PageLsn (updLeaves f key lsn t) l.off lsn := by
  refine ⟨_, mem_flatten.mpr (.inl ⟨updLeaf f key lsn (l, d), List.mem_map.mpr ⟨(l, d), hm, rfl⟩, rfl⟩),
    updLeaf_off f key lsn (l, d), ?_⟩
  unfold updLeaf
  simp only [hany, if_true]
  exact Nat.le_refl _

/-! ### the old root after a root move -/

/-- the offset of the first node of the top level (`dflt` when there is no level) -/
def topOff (lvls : List (List (Internal × Bool))) (dflt : Nat) : Nat :=
  match lvls.getLast? with
  | some lvl => (lvl.head?.map (·.1.off)).getD 0
  | none => dflt

theorem rootOff_eq_topOff (t : Levels) : rootOff t = topOff t.inner ((t.leaves.head?.map (·.1.off)).getD 0) := by
  unfold rootOff topOff
  cases t.inner.getLast? <;> rfl

theorem topOff_cons_ne (X : List (Internal × Bool)) (B : List (List (Internal × Bool))) (d d' : Nat)
    (h : B ≠ []) : topOff (X :: B) d = topOff B d' := by
  cases B with
  | nil => exact absurd rfl h
  | cons b bs =>
    unfold topOff
    rw [List.getLast?_cons_cons]
    cases hb : (b :: bs).getLast? with
    | none => simp at hb
    | some x => rfl

/-- after a split was propagated: the top of the levels is where it was, or the old top node was
split and its left half - at the old offset - carries the LSN -/
theorem bubble_old_top (lsn : Nat) : ∀ (lvls : List (List (Internal × Bool))) (sep l nc nf : Nat),
    LevelsWF lvls → lvls ≠ [] →
    ∀ d d', topOff (bubble lsn lvls sep l nc nf).1 d' = topOff lvls d ∨
      ∃ lvl' ∈ (bubble lsn lvls sep l nc nf).1, ∃ p' ∈ lvl', p'.1.off = topOff lvls d ∧ p'.1.lsn = lsn
  | [], _, _, _, _, _, hne => absurd rfl hne
  | lvl :: rest, sep, l, nc, nf, hwf, _ => by
    have hne : lvl ≠ [] := hwf.1 lvl List.mem_cons_self
    obtain ⟨pre, ⟨p, dp⟩, rfl⟩ : ∃ pre x, lvl = pre ++ [x] := by
      rcases eq_nil_or_snoc lvl with h | h
      · exact absurd h hne
      · exact h
    rw [bubble_cons_snoc]
    intro d d'
    cases rest with
    | nil =>
      have hlen := hwf.2 (pre ++ [(p, dp)]) (by simp)
      have hpre : pre = [] := by
        simp only [List.length_append, List.length_cons, List.length_nil] at hlen
        exact List.eq_nil_of_length_eq_zero (by omega)
      subst hpre
      split
      · left
        simp [topOff, intApp]
      · right
        refine ⟨_, List.mem_cons_self, (intL (intApp p sep nc lsn), true), by simp, ?_, rfl⟩
        simp [topOff, intL, intApp]
    | cons r rs =>
      split
      · left
        exact (topOff_cons_ne _ (r :: rs) d' d (by simp)).trans (topOff_cons_ne _ (r :: rs) d d (by simp)).symm
      · obtain ⟨hB, _⟩ := bubble_top lsn (r :: rs) (midCell (intApp p sep nc lsn)).key p.off nf (nf + c_pageSize)
          hwf.tail
        simp only
        rw [topOff_cons_ne _ _ d' d' hB, topOff_cons_ne _ (r :: rs) d d (by simp)]
        rcases bubble_old_top lsn (r :: rs) (midCell (intApp p sep nc lsn)).key p.off nf (nf + c_pageSize)
          hwf.tail (by simp) d d' with h | ⟨lvl', hl', p', hp', h1, h2⟩
        · exact .inl h
        · exact .inr ⟨lvl', List.mem_cons_of_mem _ hl', p', hp', h1, h2⟩

/-- **The old root after an insert**: the root stays where it was, or the page at the old root offset
carries the insert's LSN. -/
theorem insertAppend_old_root (t t' : Levels) (k lsn nf nf' : Nat) (v : Bytes) (hI : Inv t nf)
    (h : insertAppend t k lsn v nf = .ok (t', nf')) :
    rootOff t' = rootOff t ∨ PageLsn t' (rootOff t) lsn := by
  obtain ⟨pre, last, d, hpre, _, _, hcase⟩ := insertAppend_inv_cases h
  rcases hcase with ⟨_, rfl, _⟩ | ⟨_, rfl, _⟩
  · left
    rw [rootOff_eq_topOff, rootOff_eq_topOff]
    simp only [hpre]
    congr 1
    cases pre <;> rfl
  · rcases eq_nil_or_snoc t.inner with hin | ⟨lo, top, hin⟩
    · -- the root is the only leaf
      right
      have hl := hI.link
      unfold LinkOK at hl
      rw [hin, hpre] at hl
      simp only [linked, List.length_map, List.length_append, List.length_cons, List.length_nil] at hl
      have hp : pre = [] := List.eq_nil_of_length_eq_zero (by omega)
      subst hp
      have hr : rootOff t = last.off := by simp [rootOff, hin, hpre]
      refine ⟨_, mem_flatten.mpr (.inl ⟨(leafL (leafApp last k lsn v) nf, true), by simp, rfl⟩), ?_, ?_⟩
      · rw [hr]; rfl
      · exact Nat.le_refl _
    · have hne : t.inner ≠ [] := by rw [hin]; simp
      rw [rootOff_eq_topOff, rootOff_eq_topOff t]
      rcases bubble_old_top lsn t.inner
        (((leafR (leafApp last k lsn v) lsn nf).cells.head?.map (·.key)).getD 0) last.off nf (nf + c_pageSize)
        (levelsWF_of_inv hI) hne ((t.leaves.head?.map (·.1.off)).getD 0)
        (((pre ++ [(leafL (leafApp last k lsn v) nf, true), (leafR (leafApp last k lsn v) lsn nf, true)]).head?.map
          (·.1.off)).getD 0) with h1 | ⟨lvl', hl', p', hp', h1, h2⟩
      · exact .inl h1
      · right
        exact ⟨_, mem_flatten.mpr (.inr ⟨lvl', hl', p', hp', rfl⟩), h1, by show lsn ≤ p'.1.lsn; omega⟩

end Mkdb.Store
