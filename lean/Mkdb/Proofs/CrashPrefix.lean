import Mkdb.Proofs.CrashPrefix9
/-!
# C03, the storage / engine half: a crash while a statement appends its records to the log

Scenario: no page of the statement reached the data file (the crash happens during the log append
of the statement, before the flusher can run); recovery replays the surviving records - a prefix
`logs.take k` of what the statement handed to the log writer (`C03_cut_is_prefix`) - on the store
the acknowledged history started from.

* `CrashPrefix1`: `replay_insert_logs_cut` - the log of one `Store.insert` (one record, or two when
  the root moved), and its first record alone.
* `CrashPrefix2` (Goal 1, storage level): `LiveRunM.split` / `LiveRunM.take` (prefix-closure of live
  runs), `PtRestamp`, `CutAt`, `replay_prefix_gen`, **`replay_prefix`** (every cut `k` of the log of a
  live run replays to the live state after some prefix `stmts.take j` of the row statements: at a row
  boundary page for page on all catalog trees; between the INSERT record and the catalog record of a
  root-moving insert, page for page on `sys_schema` and all user tables, the page table up to one LSN
  stamp), `replay_prefix_boundary` (every `j` is reached).
* `CrashPrefix3` (INSERT): `mapM_take`, `insRunOK_take`, `specInsert_take`, `InsNoMove`, `InsCut`,
  `evalInsert_go_cut`, **`evalInsert_cut`**.
* `CrashPrefix4` (DELETE): `evalDelete_go_append`, `deleteFirst`, `rows_deleteFirst`,
  **`evalDelete_cut`**.
* `CrashPrefix5` (UPDATE): `evalUpdate_go_append`, **`evalUpdate_cut`** (with `rewriteFirst` of
  `SpecRefineB5`).
* `CrashPrefix6` (Goal 2, after a history of acknowledged statements): `spec_run_replayed`,
  **`insert_crash_prefix`**, **`delete_crash_prefix`**, **`update_crash_prefix`**.
* `CrashPrefix7` (Goal 3, non-vacuity): `noMoveA`, **`crash_prefix_example`** (two-row INSERT on `dbA`
  cut after its first record: exactly the first row), `replay_prefix_st0`.
* `CrashPrefix8`: the states are those `Spec.rowPrefixStates` lists (`delete_state_in_rowPrefixStates`,
  `update_state_in_rowPrefixStates`, `insert_state_in_rowPrefixStates`), other tables untouched
  (`findTable_updRows_other`).
* `CrashPrefix9`: **`insert_crash_rowPrefixState`**, **`delete_crash_rowPrefixState`**,
  **`update_crash_rowPrefixState`**.
-/
