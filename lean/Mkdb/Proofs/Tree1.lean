import Mkdb.Spec.TreeInv
/-!
Proofs about the levels model of the B+ tree, part 1: inversion of `insertAppend`, the scan-order
view (`cells_insertAppend`), and the invariant of the empty tree.
-/
namespace Mkdb.Tree
open Mkdb.Page Mkdb.Generated

theorem setLast_append {α} (pre : List α) (a b : α) : setLast (pre ++ [a]) b = pre ++ [b] := by
  simp [setLast]

/-- the leaf after appending the new cell -/
def leafApp (last : Leaf) (k lsn : Nat) (v : Bytes) : Leaf :=
  { last with cells := last.cells ++ [⟨k, false, v⟩], lsn := lsn }

/-- left half of a leaf split -/
def leafL (l1 : Leaf) (newOff : Nat) : Leaf :=
  { l1 with cells := l1.cells.take (l1.cells.length / 2), hasR := true, rSib := newOff }

/-- right half of a leaf split -/
def leafR (l1 : Leaf) (lsn newOff : Nat) : Leaf :=
  ⟨newOff, lsn, true, false, l1.off, 0, l1.cells.drop (l1.cells.length / 2)⟩

/-- Inversion of a successful `insertAppend`. -/
theorem insertAppend_inv_cases {t t' : Levels} {k lsn nf nf' : Nat} {v : Bytes}
    (h : insertAppend t k lsn v nf = .ok (t', nf')) :
    ∃ pre last d, t.leaves = pre ++ [(last, d)] ∧
      (∀ c, last.cells.getLast? = some c → c.key < k) ∧
      v.length ≤ c_maxValueSize ∧
      (((leafApp last k lsn v).cells.length < c_maxLeafNodeCells ∧
          t' = { t with leaves := pre ++ [(leafApp last k lsn v, true)] } ∧ nf' = nf) ∨
       (¬ (leafApp last k lsn v).cells.length < c_maxLeafNodeCells ∧
          t' = { leaves := pre ++ [(leafL (leafApp last k lsn v) nf, true),
                                    (leafR (leafApp last k lsn v) lsn nf, true)],
                 inner := (bubble lsn t.inner
                    (((leafR (leafApp last k lsn v) lsn nf).cells.head?.map (·.key)).getD 0)
                    last.off nf (nf + c_pageSize)).1 } ∧
          nf' = (bubble lsn t.inner
                    (((leafR (leafApp last k lsn v) lsn nf).cells.head?.map (·.key)).getD 0)
                    last.off nf (nf + c_pageSize)).2)) := by
  unfold insertAppend at h
  split at h
  · cases h
  · rename_i last d hlast
    obtain ⟨pre, hpre⟩ := List.getLast?_eq_some_iff.mp hlast
    refine ⟨pre, last, d, hpre, ?_⟩
    split at h
    · cases h
    split at h
    · cases h
    split at h
    · cases h
    rename_i _ hv happ
    refine ⟨?_, by omega, ?_⟩
    · intro c hc
      rw [hc] at happ
      cases hcells : last.cells with
      | nil => simp [hcells] at hc
      | cons a as =>
        simp [hcells] at happ
        omega
    · dsimp only at h
      split at h
      · rename_i hlt
        left
        refine ⟨hlt, ?_⟩
        simp only [Except.ok.injEq, Prod.mk.injEq] at h
        rw [hpre, setLast_append] at h
        exact ⟨h.1.symm, h.2.symm⟩
      · rename_i hlt
        right
        refine ⟨hlt, ?_⟩
        simp only [Except.ok.injEq, Prod.mk.injEq] at h
        rw [hpre, setLast_append, List.append_assoc] at h
        exact ⟨h.1.symm, h.2.symm⟩

theorem cells_append_leaf (pre : List (Leaf × Bool)) (inner) (xs : List (Leaf × Bool)) :
    cells { leaves := pre ++ xs, inner := inner } =
      cells { leaves := pre, inner := inner } ++ xs.flatMap (·.1.cells) := by
  simp [cells, List.flatMap_append]

theorem cells_insertAppend (t t' : Levels) (k lsn nf nf' : Nat) (v : Bytes)
    (h : insertAppend t k lsn v nf = .ok (t', nf')) :
    cells t' = cells t ++ [⟨k, false, v⟩] := by
  obtain ⟨pre, last, d, hpre, _, _, hcase⟩ := insertAppend_inv_cases h
  have ht : cells t = pre.flatMap (·.1.cells) ++ last.cells := by
    simp [cells, hpre, List.flatMap_append]
  rw [ht]
  rcases hcase with ⟨_, rfl, _⟩ | ⟨_, rfl, _⟩
  · simp [cells, List.flatMap_append, leafApp]
  · simp only [cells, List.flatMap_append, leafL, leafR, List.flatMap_cons, List.flatMap_nil,
      List.append_nil, List.take_append_drop, leafApp, List.append_assoc]

/-! ### `bubble`, one step at a time -/

theorem eq_nil_or_snoc {α} (l : List α) : l = [] ∨ ∃ pre a, l = pre ++ [a] := by
  rcases List.eq_nil_or_concat l with h | ⟨pre, a, h⟩
  · exact .inl h
  · exact .inr ⟨pre, a, by simpa using h⟩

/-- the parent after `appendInternalCell(sep, parent.right); parent.right = newChild` -/
def intApp (p : Internal) (sep newChild lsn : Nat) : Internal :=
  { p with cells := p.cells ++ [⟨sep, p.right⟩], right := newChild, lsn := lsn }

def midCell (p1 : Internal) : ICell := (p1.cells[p1.cells.length / 2]?).getD ⟨0, 0⟩

/-- left half of an internal split -/
def intL (p1 : Internal) : Internal :=
  { p1 with cells := p1.cells.take (p1.cells.length / 2), right := (midCell p1).child }

/-- right half of an internal split -/
def intR (p1 : Internal) (lsn newOff : Nat) : Internal :=
  ⟨newOff, lsn, p1.right, p1.cells.drop (p1.cells.length / 2 + 1)⟩

theorem bubble_nil (lsn sep l nc nf : Nat) :
    bubble lsn [] sep l nc nf = ([[(⟨nf, lsn, nc, [⟨sep, l⟩]⟩, true)]], nf + c_pageSize) := by
  simp [bubble]

theorem bubble_cons_nil (lsn : Nat) (rest) (sep l nc nf : Nat) :
    bubble lsn ([] :: rest) sep l nc nf = ([], nf) := by
  simp [bubble]

theorem bubble_cons_snoc (lsn : Nat) (pre : List (Internal × Bool)) (p : Internal) (d : Bool) (rest)
    (sep l nc nf : Nat) :
    bubble lsn ((pre ++ [(p, d)]) :: rest) sep l nc nf =
      if (intApp p sep nc lsn).cells.length < c_maxInternalNodeCells then
        ((pre ++ [(intApp p sep nc lsn, true)]) :: rest, nf)
      else
        ((pre ++ [(intL (intApp p sep nc lsn), true), (intR (intApp p sep nc lsn) lsn nf, true)]) ::
          (bubble lsn rest (midCell (intApp p sep nc lsn)).key p.off nf (nf + c_pageSize)).1,
         (bubble lsn rest (midCell (intApp p sep nc lsn)).key p.off nf (nf + c_pageSize)).2) := by
  rw [bubble]
  simp only [List.getLast?_concat, setLast_append]
  split
  · rename_i h
    rw [if_pos (by exact h)]
    rfl
  · rename_i h
    rw [if_neg (by exact h), List.append_assoc]
    rfl

/-! ### the empty tree -/

theorem emptyTree_inv (off nf : Nat) (h : off < nf) : Inv (emptyTree off) nf := by
  refine ⟨?_, ?_, ?_, ?_, ?_, ?_, ?_⟩
  · refine ⟨?_, ?_⟩
    · intro p hp
      simp only [emptyTree, List.mem_singleton] at hp
      subst hp
      simp [c_maxLeafNodeCells]
    · intro lvl hlvl
      simp [emptyTree] at hlvl
  · simp [KeysAsc, keys, cells, emptyTree]
  · intro h2
    simp [emptyTree] at h2
  · simp [ChainOK, chainFrom, emptyTree]
  · simp [LinkOK, linked, emptyTree]
  · simp [SepsOK, sepsAll, emptyTree]
  · simp [OffsOK, offs, flatten, emptyTree, h]

end Mkdb.Tree
