import Mkdb.Proofs.CreateCat1
/-!
CREATE TABLE at the statement level, part 2: the catalog invariant after an insert into
`sys_schema` (`Cat.rebuildSch`) and after the page table got the row of a new table whose root
page was just allocated (`Cat.addTable`).
-/
set_option autoImplicit false
namespace Mkdb.Store
open Mkdb.Page Mkdb.Tuple Mkdb.Generated Mkdb.Tree

/-- **The catalog invariant is re-established after an insert into `sys_schema`**: in a store that
holds the new tree `sch'` and the page table `ptF` (the old one, or with one row rewritten), whose
entries are the old ones with `sys_schema` re-pointed to the root of `sch'`, and which shows every
page outside `sch'` and the page table as before. -/
theorem Cat.rebuildSch {s s' : Store} {pt sch : Levels} {tbls : List (Bytes × Levels)} (h : Cat s pt sch tbls)
    {key lsn nf' : Nat} {buf : Bytes} {sch' : Levels}
    (hins : insertAppend sch key lsn buf s.hdr.nextFree = .ok (sch', nf')) (hkey : key = s.hdr.lastKey + 1)
    (ptF : Levels) (hF : PtLike pt ptF)
    (hent : ptEntries ptF = (ptEntries pt).map (repoint sysSchema (rootOff sch')))
    (hdecF : ∀ c ∈ live ptF, ptEntry c ≠ none)
    (hnf : s'.hdr.nextFree = nf') (hlk : s'.hdr.lastKey = s.hdr.lastKey + 1)
    (hpr : s'.hdr.ptRoot = s.hdr.ptRoot) (hHt : Holds s' sch') (hHp : Holds s' ptF)
    (hframe : ∀ off, off ∉ offs sch' → off ∉ offs pt → view s' off = view s off)
    (hd' : sch'.inner.length + 2 ≤ treeFuel) (hl' : sch'.leaves.length ≤ scanFuel) :
    Cat s' ptF sch' tbls := by
  obtain ⟨d1, d2, d3, d4⟩ := h.disj_parts
  obtain ⟨f1, f2, f3, f4, f5, f6⟩ := hF.facts
  obtain ⟨hHpt, hIpt, hdpt, hlpt, hkpt⟩ := h.tree pt Cat.pt_mem
  obtain ⟨hHsch, hIsch, hdsch, hlsch, hksch⟩ := h.tree sch Cat.sch_mem
  have hle : s.hdr.nextFree ≤ nf' := insertAppend_nextFree sch sch' key lsn _ nf' buf hins
  have hInv' : Inv sch' nf' := insertAppend_inv sch sch' key lsn _ nf' buf hIsch hins
  have hnew := insertAppend_offs_new sch sch' key lsn _ nf' buf hins
  have K : ∀ u, Inv u s.hdr.nextFree → (∀ o ∈ offs u, o ∉ offs sch) → ∀ o ∈ offs sch', o ∉ offs u := by
    intro u hu hdis o ho hou
    rcases hnew o ho with h1 | h1
    · exact hdis o hou h1
    · have := hu.offs.2 o hou; omega
  have hother : ∀ u, Holds s u → Inv u s.hdr.nextFree → (∀ o ∈ offs u, o ∉ offs sch) →
      (∀ o ∈ offs u, o ∉ offs pt) → Holds s' u := by
    intro u hHu hIu h1 h2 x hx
    have hxo : x.1 ∈ offs u := List.mem_map.mpr ⟨x, hx, rfl⟩
    rw [hframe x.1 (fun hm => K u hIu h1 x.1 hm hxo) (h2 x.1 hxo)]
    exact hHu x hx
  have hkeys' : ∀ a ∈ keys sch', a ≤ s.hdr.lastKey + 1 := by
    intro a ha
    unfold keys at ha
    rw [cells_insertAppend sch sch' key lsn _ nf' buf hins, List.map_append, List.mem_append] at ha
    rcases ha with ha | ha
    · exact Nat.le_succ_of_le (hksch a ha)
    · simp only [List.map_cons, List.map_nil, List.mem_singleton] at ha
      omega
  have hsysne : ∀ e ∈ tbls, e.1 ≠ sysSchema := fun e he heq =>
    h.tsys.2 (heq ▸ List.mem_map.mpr ⟨e, he, rfl⟩)
  refine ⟨?_, ?_, ?_, hdecF, ?_, ?_, ?_, ?_, h.tnames, h.tsys, h.tlen⟩
  · -- tree
    intro x hx
    simp only [catTrees, List.mem_cons, List.mem_map] at hx
    rw [hnf, hlk]
    rcases hx with rfl | rfl | ⟨e, he, rfl⟩
    · exact ⟨hHp, f6 _ (Inv_mono pt _ _ hIpt hle), by omega, by omega,
        fun a ha => Nat.le_succ_of_le (hkpt a (f5 ▸ ha))⟩
    · exact ⟨hHt, hInv', hd', hl', hkeys'⟩
    · obtain ⟨hHe, hIe, hde, hle', hke⟩ := h.tree e.2 (Cat.tb_mem he)
      exact ⟨hother e.2 hHe hIe (fun o ho hs => d3 e he o hs ho) (fun o ho hp => d2 e he o hp ho),
        Inv_mono _ _ _ hIe hle, hde, hle', fun a ha => Nat.le_succ_of_le (hke a ha)⟩
  · -- disj
    simp only [catTrees, List.map_cons, List.map_map]
    refine List.pairwise_cons.mpr ⟨?_, List.pairwise_cons.mpr ⟨?_, ?_⟩⟩
    · intro a ha
      rw [f1]
      rcases List.mem_cons.mp ha with rfl | ha
      · exact fun o ho hs => K pt hIpt d1 o hs ho
      · obtain ⟨e, he, rfl⟩ := List.mem_map.mp ha
        exact d2 e he
    · intro a ha
      obtain ⟨e, he, rfl⟩ := List.mem_map.mp ha
      simp only [Function.comp]
      exact K e.2 (h.tree e.2 (Cat.tb_mem he)).2.1 (fun o ho hs => d3 e he o hs ho)
    · rw [List.pairwise_map]
      exact d4
  · rw [f2, hpr]; exact h.root
  · -- names
    rw [hent, List.map_map]
    have : ((fun e : Bytes × Nat => e.1) ∘ repoint sysSchema (rootOff sch')) = fun e => e.1 :=
      funext (repoint_fst sysSchema (rootOff sch'))
    rw [this]
    exact h.names
  · -- esch
    rw [hent]
    refine List.mem_map.mpr ⟨_, h.esch, ?_⟩
    unfold repoint
    simp
  · -- etb
    intro e he
    rw [hent]
    refine List.mem_map.mpr ⟨_, h.etb e he, ?_⟩
    unfold repoint
    rw [if_neg (hsysne e he)]
  · -- only
    intro e he
    rw [hent] at he
    obtain ⟨e0, he0, rfl⟩ := List.mem_map.mp he
    rw [repoint_fst]
    exact h.only e0 he0

theorem offs_emptyTree (off : Nat) : offs (emptyTree off) = [off] := rfl
theorem rootOff_emptyTree (off : Nat) : rootOff (emptyTree off) = off := rfl
theorem keys_emptyTree (off : Nat) : keys (emptyTree off) = [] := rfl

/-- **The catalog invariant after a table was added**: the page at the old allocation frontier is
the (empty) root of the new table, and the page table got the row `(name, that offset)`. -/
theorem Cat.addTable {s s' : Store} {pt sch : Levels} {tbls : List (Bytes × Levels)} (h : Cat s pt sch tbls)
    {name : Bytes} {key lsn nf1 : Nat} {pt1 : Levels}
    (hn1 : name ≠ sysPages) (hn2 : name ≠ sysSchema) (hn3 : name ∉ tbls.map (·.1))
    (hnl : name.length + 14 ≤ c_maxValueSize)
    (hins : insertAppend pt key lsn (ptRow name s.hdr.nextFree) (s.hdr.nextFree + c_pageSize) = .ok (pt1, nf1))
    (hkey : key = s.hdr.lastKey + 1)
    (hbig : (s.hdr.nextFree : Int) ≤ 9223372036854775807)
    (hnf : s'.hdr.nextFree = nf1) (hlk : s'.hdr.lastKey = s.hdr.lastKey + 1) (hpr : s'.hdr.ptRoot = rootOff pt1)
    (hHp : Holds s' pt1) (hHt : Holds s' (emptyTree s.hdr.nextFree))
    (hframe : ∀ o, o ∉ offs pt1 → o ≠ s.hdr.nextFree → view s' o = view s o)
    (hd' : pt1.inner.length + 2 ≤ treeFuel) (hl' : pt1.leaves.length ≤ scanFuel) :
    Cat s' pt1 sch (tbls ++ [(name, emptyTree s.hdr.nextFree)]) ∧
      ptEntries pt1 = ptEntries pt ++ [(name, s.hdr.nextFree)] := by
  obtain ⟨d1, d2, d3, d4⟩ := h.disj_parts
  obtain ⟨hHpt, hIpt, hdpt, hlpt, hkpt⟩ := h.tree pt Cat.pt_mem
  obtain ⟨hHsch, hIsch, hdsch, hlsch, hksch⟩ := h.tree sch Cat.sch_mem
  have hps : 0 < c_pageSize := by decide
  have hIpt0 : Inv pt (s.hdr.nextFree + c_pageSize) := Inv_mono pt _ _ hIpt (by omega)
  have hle : s.hdr.nextFree + c_pageSize ≤ nf1 := insertAppend_nextFree pt pt1 key lsn _ nf1 _ hins
  have hInv1 : Inv pt1 nf1 := insertAppend_inv pt pt1 key lsn _ nf1 _ hIpt0 hins
  have hnew := insertAppend_offs_new pt pt1 key lsn _ nf1 _ hins
  -- an old page is not a page of the new page table unless it was one of the old, nor the new root
  have hold : ∀ o, o < s.hdr.nextFree → o ∉ offs pt → o ∉ offs pt1 ∧ o ≠ s.hdr.nextFree := by
    intro o ho hnp
    refine ⟨fun hm => ?_, by omega⟩
    rcases hnew o hm with h1 | h1
    · exact hnp h1
    · omega
  have hoffnew : s.hdr.nextFree ∉ offs pt1 := by
    intro hm
    rcases hnew _ hm with h1 | h1
    · have := hIpt.offs.2 _ h1; omega
    · omega
  have hother : ∀ u, Holds s u → Inv u s.hdr.nextFree → (∀ o ∈ offs u, o ∉ offs pt) → Holds s' u := by
    intro u hHu hIu h2 x hx
    have hxo : x.1 ∈ offs u := List.mem_map.mpr ⟨x, hx, rfl⟩
    obtain ⟨a, b⟩ := hold x.1 (hIu.offs.2 _ hxo) (h2 _ hxo)
    rw [hframe x.1 a b]
    exact hHu x hx
  have hlive : live pt1 = live pt ++ [⟨key, false, ptRow name s.hdr.nextFree⟩] :=
    insert_live pt pt1 key lsn _ nf1 _ hins
  have hrow : ptEntry ⟨key, false, ptRow name s.hdr.nextFree⟩ = some (name, s.hdr.nextFree) :=
    ptEntry_ptRow key false name _ (by have : c_maxValueSize = 400 := rfl; omega) hbig
  have hent : ptEntries pt1 = ptEntries pt ++ [(name, s.hdr.nextFree)] := by
    unfold ptEntries
    rw [hlive, List.filterMap_append, List.filterMap_cons, hrow, List.filterMap_nil]
  have hname_new : name ∉ (ptEntries pt).map (·.1) := by
    intro hm
    obtain ⟨e, he, hen⟩ := List.mem_map.mp hm
    rcases h.only e he with h' | h' | h'
    · exact hn1 (hen ▸ h')
    · exact hn2 (hen ▸ h')
    · exact hn3 (hen ▸ h')
  refine ⟨⟨?_, ?_, hpr.symm, ?_, ?_, ?_, ?_, ?_, ?_, ?_, ?_⟩, hent⟩
  · -- tree
    intro x hx
    simp only [catTrees, List.mem_cons, List.mem_map, List.mem_append, List.not_mem_nil, or_false] at hx
    rw [hnf, hlk]
    rcases hx with hx | hx | ⟨e, he | rfl, rfl⟩
    · rw [hx]
      refine ⟨hHp, hInv1, hd', hl', ?_⟩
      intro a ha
      unfold keys at ha
      rw [cells_insertAppend pt pt1 key lsn _ nf1 _ hins, List.map_append, List.mem_append] at ha
      rcases ha with ha | ha
      · exact Nat.le_succ_of_le (hkpt a ha)
      · simp only [List.map_cons, List.map_nil, List.mem_singleton] at ha
        omega
    · rw [hx]
      exact ⟨hother sch hHsch hIsch (fun o ho hp => d1 o hp ho), Inv_mono sch _ _ hIsch (by omega), hdsch, hlsch,
        fun a ha => Nat.le_succ_of_le (hksch a ha)⟩
    · obtain ⟨hHe, hIe, hde, hle', hke⟩ := h.tree e.2 (Cat.tb_mem he)
      exact ⟨hother e.2 hHe hIe (fun o ho hp => d2 e he o hp ho), Inv_mono _ _ _ hIe (by omega), hde, hle',
        fun a ha => Nat.le_succ_of_le (hke a ha)⟩
    · refine ⟨hHt, emptyTree_inv _ _ (by omega), (by show 0 + 2 ≤ treeFuel; decide),
        (by show 1 ≤ scanFuel; decide), ?_⟩
      intro a ha
      rw [keys_emptyTree] at ha
      cases ha
  · -- disj
    simp only [catTrees, List.map_cons, List.map_append, List.map_nil]
    refine List.pairwise_cons.mpr ⟨?_, List.pairwise_cons.mpr ⟨?_, ?_⟩⟩
    · intro a ha o ho hoa
      have hcase : o ∈ offs pt ∨ s.hdr.nextFree + c_pageSize ≤ o := by
        rcases hnew o ho with h1 | h1
        · exact .inl h1
        · exact .inr h1.1
      rcases List.mem_cons.mp ha with rfl | ha
      · rcases hcase with h1 | h1
        · exact d1 o h1 hoa
        · have := hIsch.offs.2 o hoa; omega
      · rcases List.mem_append.mp ha with ha | ha
        · obtain ⟨t, ht, rfl⟩ := List.mem_map.mp ha
          obtain ⟨e, he, rfl⟩ := List.mem_map.mp ht
          rcases hcase with h1 | h1
          · exact d2 e he o h1 hoa
          · have := (h.tree e.2 (Cat.tb_mem he)).2.1.offs.2 o hoa; omega
        · simp only [List.mem_singleton] at ha
          subst ha
          rw [offs_emptyTree, List.mem_singleton] at hoa
          subst hoa
          exact hoffnew ho
    · intro a ha o ho hoa
      rcases List.mem_append.mp ha with ha | ha
      · obtain ⟨t, ht, rfl⟩ := List.mem_map.mp ha
        obtain ⟨e, he, rfl⟩ := List.mem_map.mp ht
        exact d3 e he o ho hoa
      · simp only [List.mem_singleton] at ha
        subst ha
        rw [offs_emptyTree, List.mem_singleton] at hoa
        have := hIsch.offs.2 o ho; omega
    · refine List.pairwise_append.mpr ⟨?_, List.pairwise_singleton _ _, ?_⟩
      · rw [List.pairwise_map, List.pairwise_map]
        exact d4
      · intro a ha b hb o ho hob
        obtain ⟨t, ht, rfl⟩ := List.mem_map.mp ha
        obtain ⟨e, he, rfl⟩ := List.mem_map.mp ht
        simp only [List.mem_singleton] at hb
        subst hb
        rw [offs_emptyTree, List.mem_singleton] at hob
        have := (h.tree e.2 (Cat.tb_mem he)).2.1.offs.2 o ho; omega
  · -- dec
    intro c hc
    rw [hlive, List.mem_append, List.mem_singleton] at hc
    rcases hc with hc | rfl
    · exact h.dec c hc
    · rw [hrow]; simp
  · -- names
    rw [hent, List.map_append, List.map_cons, List.map_nil]
    refine List.nodup_append.mpr ⟨h.names, List.pairwise_singleton _ _, ?_⟩
    intro a ha b hb
    simp only [List.mem_singleton] at hb
    subst hb
    intro hab
    exact hname_new (hab ▸ ha)
  · rw [hent]; exact List.mem_append_left _ h.esch
  · -- etb
    intro e he
    rw [hent]
    rcases List.mem_append.mp he with he | he
    · exact List.mem_append_left _ (h.etb e he)
    · simp only [List.mem_singleton] at he
      subst he
      exact List.mem_append_right _ (List.mem_singleton.mpr rfl)
  · -- only
    intro e he
    rw [hent] at he
    rw [List.map_append]
    rcases List.mem_append.mp he with he | he
    · rcases h.only e he with h' | h' | h'
      · exact .inl h'
      · exact .inr (.inl h')
      · exact .inr (.inr (List.mem_append_left _ h'))
    · simp only [List.mem_singleton] at he
      subst he
      exact .inr (.inr (List.mem_append_right _ (List.mem_singleton.mpr rfl)))
  · -- tnames
    rw [List.map_append, List.map_cons, List.map_nil]
    refine List.nodup_append.mpr ⟨h.tnames, List.pairwise_singleton _ _, ?_⟩
    intro a ha b hb
    simp only [List.mem_singleton] at hb
    subst hb
    intro hab
    exact hn3 (hab ▸ ha)
  · -- tsys
    rw [List.map_append, List.map_cons, List.map_nil]
    refine ⟨?_, ?_⟩
    · intro hm
      rcases List.mem_append.mp hm with hm | hm
      · exact h.tsys.1 hm
      · exact hn1 (List.mem_singleton.mp hm).symm
    · intro hm
      rcases List.mem_append.mp hm with hm | hm
      · exact h.tsys.2 hm
      · exact hn2 (List.mem_singleton.mp hm).symm
  · -- tlen
    intro e he
    rcases List.mem_append.mp he with he | he
    · exact h.tlen e he
    · simp only [List.mem_singleton] at he
      subst he
      exact hnl

end Mkdb.Store
