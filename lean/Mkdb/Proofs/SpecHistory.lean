import Mkdb.Proofs.SpecRefineB
/-!
# Histories of statements: the engine model follows the plain model through any history

`specHist` is what the judge of the correspondence runs does with a history: a statement the plain
model refuses leaves the plain database as it was.  `runHist` runs the history on the engine model,
going on after an error value with the database the error left.  `HistOK` collects the side
conditions statement by statement: an accepted statement has `StmtRoom`, a refused one is refused
before any change (`StmtRefusal`; the refusal at a later row of a multi-row INSERT / UPDATE is the
known finding of C14 and is NOT among them).
-/
set_option autoImplicit false
namespace Mkdb.Store
open Mkdb.Page Mkdb.Tuple Mkdb.Generated Mkdb.Tree

def specHist (sdb : Spec.SDB) : List Sql.Stmt → Spec.SDB
  | [] => sdb
  | st :: rest => specHist ((Spec.specStmt sdb st).getD sdb) rest

def runHist (order : List Nat) (db : Engine.DB) : List Sql.Stmt → Option Engine.DB
  | [] => some db
  | st :: rest =>
    match evalStmt db order st with
    | .ok _ db' => runHist order db' rest
    | .err _ db' => runHist order db' rest
    | _ => none

def HistOK (order : List Nat) : List Sql.Stmt → Engine.DB → Spec.SDB → Prop
  | [], _, _ => True
  | st :: rest, db, sdb =>
    ((Spec.specStmt sdb st).isSome → ∀ pt sch tbls, Rel db pt sch tbls sdb → StmtRoom db pt sch tbls st) ∧
    (Spec.specStmt sdb st = none → ∀ pt sch tbls, Rel db pt sch tbls sdb → StmtRefusal sdb pt st) ∧
    ∀ db', (evalStmt db order st = .ok () db' ∨ ∃ e, evalStmt db order st = .err e db') →
      HistOK order rest db' ((Spec.specStmt sdb st).getD sdb)

/-- **Every history.**  From related states, through any list of statements each of which the plain
model accepts (with room) or refuses before a change, the engine model never crashes and ends related
to the plain database the history implies; the log grows only by accepted statements. -/
theorem runHist_refines_spec (order : List Nat) (sts : List Sql.Stmt) :
    ∀ (db : Engine.DB) (pt sch : Levels) (tbls : List (Bytes × Levels)) (sdb : Spec.SDB),
      Rel db pt sch tbls sdb → HistOK order sts db sdb →
      ∃ db' pt' sch' tbls', runHist order db sts = some db' ∧ Rel db' pt' sch' tbls' (specHist sdb sts) := by
  induction sts with
  | nil => intro db pt sch tbls sdb h _; exact ⟨db, pt, sch, tbls, rfl, h⟩
  | cons st rest ih =>
    intro db pt sch tbls sdb h hok
    obtain ⟨hroom, hbad, hnext⟩ := hok
    cases hs : Spec.specStmt sdb st with
    | none =>
      obtain ⟨_, e, db', he, _, hrel'⟩ := evalStmt_refused_spec db order pt sch tbls sdb h st (hbad hs pt sch tbls h)
      have hn := hnext db' (Or.inr ⟨e, he⟩)
      rw [hs] at hn
      obtain ⟨db2, pt2, sch2, tbls2, hr, hrel2⟩ := ih db' pt sch tbls sdb hrel' hn
      refine ⟨db2, pt2, sch2, tbls2, ?_, ?_⟩
      · simp only [runHist, he]; exact hr
      · simp only [specHist, hs]; exact hrel2
    | some sdb' =>
      obtain ⟨db', pt', sch', tbls', he, hrel'⟩ := evalStmt_refines_spec db order pt sch tbls sdb sdb' h st
        (hroom (by rw [hs]; rfl) pt sch tbls h) hs
      have hn := hnext db' (Or.inl he)
      rw [hs] at hn
      obtain ⟨db2, pt2, sch2, tbls2, hr, hrel2⟩ := ih db' pt' sch' tbls' sdb' hrel' hn
      refine ⟨db2, pt2, sch2, tbls2, ?_, ?_⟩
      · simp only [runHist, he]; exact hr
      · simp only [specHist, hs]; exact hrel2

/-- what a reader sees at the end: every table of the plain database is in the store with its declared
columns and its rows in order (unfolding `Rel`/`AbsV` for one table is `AbsV`'s own content) -/
theorem runHist_never_crashes (order : List Nat) (sts : List Sql.Stmt)
    (db : Engine.DB) (pt sch : Levels) (tbls : List (Bytes × Levels)) (sdb : Spec.SDB)
    (h : Rel db pt sch tbls sdb) (hok : HistOK order sts db sdb) : (runHist order db sts).isSome := by
  obtain ⟨db', _, _, _, hr, _⟩ := runHist_refines_spec order sts db pt sch tbls sdb h hok
  rw [hr]; rfl

/-- a history of DELETE statements on user-table names always meets the side conditions: whatever
its WHERE clauses, each DELETE is accepted by the plain model or refused before a change -/
theorem histOK_deletes (order : List Nat) (sts : List Sql.Stmt)
    (h : ∀ st ∈ sts, ∃ t w, st = .delete t w ∧ t ≠ sysPages ∧ t ≠ sysSchema) :
    ∀ (db : Engine.DB) (sdb : Spec.SDB), HistOK order sts db sdb := by
  induction sts with
  | nil => intro _ _; trivial
  | cons st rest ih =>
    intro db sdb
    obtain ⟨t, w, rfl, h1, h2⟩ := h _ (List.mem_cons_self ..)
    refine ⟨fun _ _ _ _ _ => trivial, fun hs pt sch tbls _ => .delete t w (fun _ => ⟨h1, h2⟩) hs, fun db' _ => ?_⟩
    exact ih (fun st hst => h st (List.mem_cons_of_mem _ hst)) _ _

/-! ### non-vacuity: `CREATE TABLE t …` (refused: exists), `DELETE FROM t`, `DELETE FROM t WHERE b = 1` -/

theorem tname_ne_sys : tname ≠ sysPages ∧ tname ≠ sysSchema := by
  rw [sysPages_eq, sysSchema_eq]; decide

theorem hist_example :
    ∃ db' pt' sch' tbls',
      runHist [] dbA [.createTable tname bcols, .delete tname none, .delete tname (some condB)] = some db' ∧
      Rel db' pt' sch' tbls'
        (specHist sdbA0 [.createTable tname bcols, .delete tname none, .delete tname (some condB)]) := by
  apply runHist_refines_spec [] _ dbA pt0 sch1 [(tname, t0)] sdbA0 rel1
  have hnone := create_refused_example.1
  refine ⟨fun hsome => ?_, fun _ pt _ _ _ => .create tname bcols (.exists_ rfl), fun db' _ => ?_⟩
  · rw [hnone] at hsome; cases hsome
  · rw [hnone]
    apply histOK_deletes
    intro st hst
    simp only [List.mem_cons, List.mem_nil_iff, or_false] at hst
    rcases hst with rfl | rfl
    · exact ⟨tname, none, rfl, tname_ne_sys⟩
    · exact ⟨tname, some condB, rfl, tname_ne_sys⟩

end Mkdb.Store
