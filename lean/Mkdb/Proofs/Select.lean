import Mkdb.Model.Exec
import Mkdb.Spec.Query
/-!
Proofs about the SELECT executor model (`Mkdb.Exec`):

* `sortRows` returns a permutation (`sortRows_perm`) that is sorted (`sortRows_sorted`,
  `sortRows_pairwise`), provided the comparator is well behaved; the comparator `rowLess keys`
  is a strict weak order on rows whose key columns are pairwise `Comparable`
  (`rowLess_strict_weak`), which is exactly what `sortColumns` checks before sorting
  (`sortColumns_ok`).
* `filterRows` is `List.filter` when every evaluation succeeds (`filterRows_ok`).
* a single-table SELECT without aggregates is filter → project → sort → offset → limit
  (`select_single_table`, `limit_offset_spec`).
-/
namespace Mkdb.Exec.SelectP
open Mkdb.Sql Mkdb.Tuple

/-! ### The result monad -/

@[simp] theorem bind_ok {α β} (a : α) (f : α → X β) : (X.ok a >>= f) = f a := rfl
@[simp] theorem bind_err {α β} (e : EErr) (f : α → X β) : (X.err e >>= f) = .err e := rfl
@[simp] theorem bind_panic {α β} (s : String) (f : α → X β) : (X.panic s >>= f) = .panic s := rfl
@[simp] theorem pure_eq_ok {α} (a : α) : (pure a : X α) = .ok a := rfl

theorem bind_eq_ok {α β} {m : X α} {f : α → X β} {b : β} :
    (m >>= f) = .ok b ↔ ∃ a, m = .ok a ∧ f a = .ok b := by
  cases m with
  | ok a => simp
  | err e => simp
  | panic s => simp

/-! ### Order on values -/

/-- The typing condition under which `cmpVal` is defined: NULL against anything, or two
values of the same type. -/
def Comparable (a b : Val) : Prop :=
  match a, b with
  | .null, _ => True
  | _, .null => True
  | .int _, .int _ => True
  | .str _, .str _ => True
  | .bool _, .bool _ => True
  | _, _ => False

instance (a b : Val) : Decidable (Comparable a b) := by
  unfold Comparable; split <;> infer_instance

theorem Comparable.symm {a b : Val} (h : Comparable a b) : Comparable b a := by
  cases a <;> cases b <;> simp_all [Comparable]

theorem Comparable.refl (a : Val) : Comparable a a := by
  cases a <;> simp [Comparable]

/-- `cmpVal` panics exactly on non-comparable pairs. -/
theorem cmpVal_panic_iff (a b : Val) : (∃ s, cmpVal a b = .panic s) ↔ ¬ Comparable a b := by
  cases a <;> cases b <;> simp [cmpVal, Comparable] <;> split <;> simp

theorem strLt_irrefl (a : Bytes) : strLt a a = false := by
  simp [strLt, List.lt_irrefl]

theorem strLt_trans {a b c : Bytes} (h₁ : strLt a b = true) (h₂ : strLt b c = true) :
    strLt a c = true := by
  simp only [strLt, decide_eq_true_eq] at *
  exact List.lt_trans h₁ h₂

theorem strLt_asymm {a b : Bytes} (h₁ : strLt a b = true) : strLt b a = false := by
  simp only [strLt, decide_eq_true_eq, decide_eq_false_iff_not] at *
  exact List.lt_asymm h₁

theorem map_toNat_inj {a b : Bytes} (h : a.map (·.toNat) = b.map (·.toNat)) : a = b := by
  induction a generalizing b with
  | nil => cases b <;> simp_all
  | cons x xs ih =>
    cases b with
    | nil => simp at h
    | cons y ys =>
      simp only [List.map_cons, List.cons.injEq] at h
      rw [UInt8.toNat_inj.1 h.1, ih h.2]

theorem strLt_total {a b : Bytes} (h₁ : strLt a b = false) (h₂ : strLt b a = false) : a = b := by
  simp only [strLt, decide_eq_false_iff_not] at *
  exact map_toNat_inj (List.le_antisymm h₂ h₁)

/-- strict "sorts before" on values (NULL first, then the order of the type); `false` on
values of different types. -/
def vlt (a b : Val) : Bool :=
  match a, b with
  | .null, .null => false
  | .null, _ => true
  | .int x, .int y => decide (x < y)
  | .str x, .str y => strLt x y
  | .bool x, .bool y => !x && y
  | _, _ => false

/-- closed form of `cmpVal` -/
theorem cmpVal_eq (a b : Val) :
    cmpVal a b = if a = b then .ok .eq else if vlt a b then .ok .lt else if vlt b a then .ok .gt
      else .panic "sortColumns: mixed types" := by
  cases a <;> cases b <;> simp [cmpVal, vlt]
  case int.int x y =>
    by_cases h1 : x = y
    · simp [h1]
    · by_cases h2 : x < y
      · simp [h1, h2]
      · have h3 : y < x := by omega
        simp [h1, h2, h3]
  case str.str x y =>
    by_cases h1 : x = y
    · simp [h1]
    · by_cases h2 : strLt x y = true
      · simp [h1, h2]
      · by_cases h3 : strLt y x = true
        · simp [h1, h2, h3]
        · exact absurd (strLt_total (by simpa using h2) (by simpa using h3)) h1
  case bool.bool x y => cases x <;> cases y <;> simp

theorem vlt_irrefl (a : Val) : vlt a a = false := by
  cases a <;> simp [vlt, strLt_irrefl]

theorem vlt_trans {a b c : Val} (h₁ : vlt a b = true) (h₂ : vlt b c = true) : vlt a c = true := by
  cases a <;> cases b <;> cases c <;> simp_all [vlt]
  case int.int.int => omega
  case str.str.str => exact strLt_trans h₁ h₂

theorem vlt_asymm {a b : Val} (h : vlt a b = true) : vlt b a = false := by
  cases hb : vlt b a
  · rfl
  · have := vlt_trans h hb; rw [vlt_irrefl] at this; cases this

theorem vlt_total {a b : Val} (hc : Comparable a b) (hne : a ≠ b) :
    vlt a b = true ∨ vlt b a = true := by
  cases a <;> cases b <;> simp_all [vlt, Comparable]
  case int.int => omega
  case str.str x y =>
    cases h2 : strLt x y
    · cases h3 : strLt y x
      · exact absurd (strLt_total h2 h3) hne
      · simp
    · simp
  case bool.bool x y => cases x <;> cases y <;> simp_all

/-- one sort key: `x` strictly before `y` (ascending, or descending when `desc`). -/
def klt (desc : Bool) (x y : Val) : Bool := if desc then vlt y x else vlt x y

theorem klt_irrefl (d : Bool) (x : Val) : klt d x x = false := by
  simp [klt, vlt_irrefl]

theorem klt_trans {d : Bool} {x y z : Val} (h₁ : klt d x y = true) (h₂ : klt d y z = true) :
    klt d x z = true := by
  cases d <;> simp only [klt, if_true, if_false, Bool.false_eq_true] at *
  · exact vlt_trans h₁ h₂
  · exact vlt_trans h₂ h₁

theorem klt_asymm {d : Bool} {x y : Val} (h : klt d x y = true) : klt d y x = false := by
  cases d <;> simp only [klt, if_true, if_false, Bool.false_eq_true] at * <;> exact vlt_asymm h

theorem klt_total {d : Bool} {x y : Val} (hc : Comparable x y) (hne : x ≠ y) :
    klt d x y = true ∨ klt d y x = true := by
  cases d <;> simp only [klt, if_true, if_false, Bool.false_eq_true]
  · exact vlt_total hc hne
  · exact (vlt_total hc hne).symm

/-- the per-key decision of `rowLess` on two different values is `klt`. -/
theorem cmpVal_klt (d : Bool) {x y : Val} (hne : x ≠ y) :
    (match cmpVal x y with
      | .ok .lt => !d
      | .ok .gt => d
      | _ => false) = klt d x y := by
  rw [cmpVal_eq, if_neg hne]
  cases h1 : vlt x y
  · cases h2 : vlt y x <;> cases d <;> simp [klt, h1, h2]
  · have h2 := vlt_asymm h1
    cases d <;> simp [klt, h1, h2]

/-- `rowLess` is the lexicographic order of the keys. -/
theorem rowLess_cons (i : Nat) (d : Bool) (rest : List (Nat × Bool)) (a b : Row) :
    rowLess ((i, d) :: rest) a b =
      if (a[i]?).getD .null = (b[i]?).getD .null then rowLess rest a b
      else klt d ((a[i]?).getD .null) ((b[i]?).getD .null) := by
  simp only [rowLess, beq_iff_eq]
  split
  · rfl
  · rename_i hne
    exact cmpVal_klt d hne

/-- key columns of the two rows hold comparable values -/
def KeyComparable (keys : List (Nat × Bool)) (a b : Row) : Prop :=
  ∀ k ∈ keys, Comparable ((a[k.1]?).getD .null) ((b[k.1]?).getD .null)

theorem rowLess_irrefl (keys : List (Nat × Bool)) (a : Row) : rowLess keys a a = false := by
  induction keys with
  | nil => rfl
  | cons k rest ih => obtain ⟨i, d⟩ := k; rw [rowLess_cons]; simp [ih]

/-- asymmetry holds for all rows (an undefined comparison counts as "not less"). -/
theorem rowLess_asymm {keys : List (Nat × Bool)} {a b : Row} (h : rowLess keys a b = true) :
    rowLess keys b a = false := by
  induction keys with
  | nil => rfl
  | cons k rest ih =>
    obtain ⟨i, d⟩ := k
    rw [rowLess_cons] at h ⊢
    split at h
    · rename_i he; rw [if_pos he.symm]; exact ih h
    · rename_i hne; rw [if_neg (fun e => hne e.symm)]; exact klt_asymm h

/-- transitivity holds for all rows. -/
theorem rowLess_trans {keys : List (Nat × Bool)} {a b c : Row}
    (h₁ : rowLess keys a b = true) (h₂ : rowLess keys b c = true) : rowLess keys a c = true := by
  induction keys with
  | nil => cases h₁
  | cons k rest ih =>
    obtain ⟨i, d⟩ := k
    rw [rowLess_cons] at h₁ h₂ ⊢
    generalize (a[i]?).getD .null = x at *
    generalize (b[i]?).getD .null = y at *
    generalize (c[i]?).getD .null = z at *
    by_cases hxy : x = y
    · subst hxy
      rw [if_pos rfl] at h₁
      by_cases hxz : x = z
      · subst hxz; rw [if_pos rfl] at h₂ ⊢; exact ih h₁ h₂
      · rw [if_neg hxz] at h₂ ⊢; exact h₂
    · rw [if_neg hxy] at h₁
      by_cases hyz : y = z
      · subst hyz; rw [if_neg hxy]; exact h₁
      · rw [if_neg hyz] at h₂
        have h₃ := klt_trans h₁ h₂
        have hxz : x ≠ z := by
          intro e; subst e; rw [klt_irrefl] at h₃; cases h₃
        rw [if_neg hxz]; exact h₃

/-- on comparable rows, two rows neither of which is before the other agree on every key:
incomparability is transitive. -/
theorem rowLess_incomp_trans {keys : List (Nat × Bool)} {a b c : Row}
    (hab : KeyComparable keys a b) (hbc : KeyComparable keys b c)
    (h₁ : rowLess keys a b = false) (h₁' : rowLess keys b a = false)
    (h₂ : rowLess keys b c = false) (h₂' : rowLess keys c b = false) :
    rowLess keys a c = false ∧ rowLess keys c a = false := by
  induction keys with
  | nil => exact ⟨rfl, rfl⟩
  | cons k rest ih =>
    obtain ⟨i, d⟩ := k
    have cab := hab (i, d) (List.mem_cons_self ..)
    have cbc := hbc (i, d) (List.mem_cons_self ..)
    simp only [] at cab cbc
    rw [rowLess_cons] at h₁ h₁' h₂ h₂' ⊢
    rw [rowLess_cons]
    generalize (a[i]?).getD .null = x at *
    generalize (b[i]?).getD .null = y at *
    generalize (c[i]?).getD .null = z at *
    have hxy : x = y := by
      apply Classical.byContradiction; intro hne
      rw [if_neg hne] at h₁
      rw [if_neg (fun e => hne e.symm)] at h₁'
      cases klt_total (d := d) cab hne with
      | inl h => rw [h] at h₁; cases h₁
      | inr h => rw [h] at h₁'; cases h₁'
    have hyz : y = z := by
      apply Classical.byContradiction; intro hne
      rw [if_neg hne] at h₂
      rw [if_neg (fun e => hne e.symm)] at h₂'
      cases klt_total (d := d) cbc hne with
      | inl h => rw [h] at h₂; cases h₂
      | inr h => rw [h] at h₂'; cases h₂'
    subst hxy; subst hyz
    simp only [eq_self, if_true] at h₁ h₁' h₂ h₂' ⊢
    exact ih (fun k hk => hab k (List.mem_cons_of_mem _ hk))
      (fun k hk => hbc k (List.mem_cons_of_mem _ hk)) h₁ h₁' h₂ h₂'

/-- A Boolean relation is a strict weak order on the elements of `S`: irreflexive,
asymmetric, transitive, and incomparability is transitive. -/
structure StrictWeakOn (lt : Row → Row → Bool) (S : List Row) : Prop where
  irrefl : ∀ a ∈ S, lt a a = false
  asymm : ∀ a ∈ S, ∀ b ∈ S, lt a b = true → lt b a = false
  trans : ∀ a ∈ S, ∀ b ∈ S, ∀ c ∈ S, lt a b = true → lt b c = true → lt a c = true
  incomp_trans : ∀ a ∈ S, ∀ b ∈ S, ∀ c ∈ S,
    (lt a b = false ∧ lt b a = false) → (lt b c = false ∧ lt c b = false) →
    (lt a c = false ∧ lt c a = false)

/-- **The comparator of ORDER BY is a strict weak order** on any collection of rows whose key
columns are pairwise comparable (covers `.int`, `.str`, `.bool` and `.null` values). -/
theorem rowLess_strict_weak (keys : List (Nat × Bool)) (S : List Row)
    (hS : ∀ a ∈ S, ∀ b ∈ S, KeyComparable keys a b) : StrictWeakOn (rowLess keys) S where
  irrefl a _ := rowLess_irrefl keys a
  asymm _ _ _ _ h := rowLess_asymm h
  trans _ _ _ _ _ _ h₁ h₂ := rowLess_trans h₁ h₂
  incomp_trans a ha b hb c hc h₁ h₂ :=
    rowLess_incomp_trans (hS a ha b hb) (hS b hb c hc) h₁.1 h₁.2 h₂.1 h₂.2

/-- a strict weak order is negatively transitive: "not after" (`≤`) is transitive. -/
theorem StrictWeakOn.neg_trans {lt : Row → Row → Bool} {S : List Row} (h : StrictWeakOn lt S)
    {a b c : Row} (ha : a ∈ S) (hb : b ∈ S) (hc : c ∈ S)
    (hba : lt b a = false) (hcb : lt c b = false) : lt c a = false := by
  cases hca : lt c a with
  | false => rfl
  | true =>
    exfalso
    cases hab : lt a b with
    | true =>
      have := h.trans c hc a ha b hb hca hab
      rw [hcb] at this; cases this
    | false =>
      cases hbc : lt b c with
      | true =>
        have := h.trans b hb c hc a ha hbc hca
        rw [hba] at this; cases this
      | false =>
        have := (h.incomp_trans a ha b hb c hc ⟨hab, hba⟩ ⟨hbc, hcb⟩).2
        rw [hca] at this; cases this

/-! ### Sorting -/

theorem insertSorted_perm (keys : List (Nat × Bool)) (r : Row) (l : List Row) :
    (insertSorted keys r l).Perm (r :: l) := by
  induction l with
  | nil => exact List.Perm.refl _
  | cons x rest ih =>
    simp only [insertSorted]
    split
    · exact ((List.perm_cons x).2 ih).trans (List.Perm.swap r x rest)
    · exact List.Perm.refl _

theorem sortRows_cons (keys : List (Nat × Bool)) (r : Row) (rows : List Row) :
    sortRows keys (r :: rows) = insertSorted keys r (sortRows keys rows) := rfl

/-- **ORDER BY returns a permutation of its input.** -/
theorem sortRows_perm (keys : List (Nat × Bool)) (rows : List Row) :
    (sortRows keys rows).Perm rows := by
  induction rows with
  | nil => exact List.Perm.refl _
  | cons r rest ih =>
    rw [sortRows_cons]
    exact (insertSorted_perm keys r _).trans ((List.perm_cons r).2 ih)

theorem sortedBy_cons (keys : List (Nat × Bool)) (a : Row) (l : List Row) :
    Spec.sortedBy keys (a :: l) = true ↔
      (∀ b, l.head? = some b → rowLess keys b a = false) ∧ Spec.sortedBy keys l = true := by
  cases l with
  | nil => simp [Spec.sortedBy]
  | cons b rest => simp [Spec.sortedBy]

theorem insertSorted_head (keys : List (Nat × Bool)) (r : Row) (l : List Row) :
    (insertSorted keys r l).head? = some r ∨
      (insertSorted keys r l).head? = l.head? ∧ ∃ x, l.head? = some x ∧ rowLess keys x r = true := by
  cases l with
  | nil => left; rfl
  | cons x rest =>
    simp only [insertSorted]
    split
    · rename_i h; right; exact ⟨rfl, x, rfl, h⟩
    · left; rfl

theorem insertSorted_sorted (keys : List (Nat × Bool)) (r : Row) (l : List Row)
    (hasym : ∀ x ∈ l, rowLess keys x r = true → rowLess keys r x = false)
    (hl : Spec.sortedBy keys l = true) : Spec.sortedBy keys (insertSorted keys r l) = true := by
  induction l with
  | nil => rfl
  | cons x rest ih =>
    simp only [insertSorted]
    split
    · rename_i hxr
      rw [sortedBy_cons] at hl ⊢
      refine ⟨?_, ih (fun y hy => hasym y (List.mem_cons_of_mem _ hy)) hl.2⟩
      intro b hb
      cases insertSorted_head keys r rest with
      | inl h => rw [h] at hb; cases hb; exact hasym x (List.mem_cons_self ..) hxr
      | inr h => rw [h.1] at hb; exact hl.1 b hb
    · rename_i hxr
      rw [sortedBy_cons]
      refine ⟨?_, hl⟩
      intro b hb
      cases hb
      simpa using hxr

/-- Sortedness under the hypothesis actually needed for the adjacent-pair notion `sortedBy`:
asymmetry of the comparator on the rows being sorted. -/
theorem sortRows_sorted_of_asymm (keys : List (Nat × Bool)) (rows : List Row)
    (hasym : ∀ a ∈ rows, ∀ b ∈ rows, rowLess keys a b = true → rowLess keys b a = false) :
    Spec.sortedBy keys (sortRows keys rows) = true := by
  induction rows with
  | nil => rfl
  | cons r rest ih =>
    rw [sortRows_cons]
    apply insertSorted_sorted
    · intro x hx
      have hx' : x ∈ rest := (sortRows_perm keys rest).mem_iff.1 hx
      exact hasym x (List.mem_cons_of_mem _ hx') r (List.mem_cons_self ..)
    · exact ih (fun a ha b hb => hasym a (List.mem_cons_of_mem _ ha) b (List.mem_cons_of_mem _ hb))

/-- **The output of ORDER BY is sorted** (no adjacent pair is out of order).  `rowLess keys` is
asymmetric on all rows (`rowLess_asymm`), so no typing hypothesis is needed for this
adjacent-pair notion; see `sortRows_pairwise` for the global one. -/
theorem sortRows_sorted (keys : List (Nat × Bool)) (rows : List Row) :
    Spec.sortedBy keys (sortRows keys rows) = true :=
  sortRows_sorted_of_asymm keys rows (fun _ _ _ _ h => rowLess_asymm h)

theorem insertSorted_pairwise {keys : List (Nat × Bool)} {S : List Row}
    (hsw : StrictWeakOn (rowLess keys) S) (r : Row) (l : List Row) (hr : r ∈ S)
    (hS : ∀ x ∈ l, x ∈ S)
    (hl : l.Pairwise (fun a b => rowLess keys b a = false)) :
    (insertSorted keys r l).Pairwise (fun a b => rowLess keys b a = false) := by
  induction l with
  | nil => simp [insertSorted]
  | cons x rest ih =>
    have hx : x ∈ S := hS x (List.mem_cons_self ..)
    have hrest : ∀ y ∈ rest, y ∈ S := fun y hy => hS y (List.mem_cons_of_mem _ hy)
    rw [List.pairwise_cons] at hl
    simp only [insertSorted]
    split
    · rename_i hxr
      rw [List.pairwise_cons]
      refine ⟨?_, ih hrest hl.2⟩
      intro y hy
      have hy' : y ∈ r :: rest := (insertSorted_perm keys r rest).mem_iff.1 hy
      cases List.mem_cons.1 hy' with
      | inl e => subst e; exact hsw.asymm x hx y hr hxr
      | inr h => exact hl.1 y h
    · rename_i hxr
      have hxr' : rowLess keys x r = false := by simpa using hxr
      rw [List.pairwise_cons]
      refine ⟨?_, List.pairwise_cons.2 hl⟩
      intro y hy
      cases List.mem_cons.1 hy with
      | inl e => subst e; exact hxr'
      | inr h => exact hsw.neg_trans hr hx (hrest y h) hxr' (hl.1 y h)

/-- **Global sortedness**: when the comparator is a strict weak order on the rows (e.g. their
key columns are pairwise `Comparable`), no row of the output is strictly before an earlier
one. -/
theorem sortRows_pairwise_of_strictWeak (keys : List (Nat × Bool)) (rows : List Row)
    (hsw : StrictWeakOn (rowLess keys) rows) :
    (sortRows keys rows).Pairwise (fun a b => rowLess keys b a = false) := by
  suffices h : ∀ l : List Row, (∀ x ∈ l, x ∈ rows) →
      (sortRows keys l).Pairwise (fun a b => rowLess keys b a = false) from h rows (fun _ h => h)
  intro l
  induction l with
  | nil => intro _; exact List.Pairwise.nil
  | cons r rest ih =>
    intro hl
    rw [sortRows_cons]
    apply insertSorted_pairwise hsw r _ (hl r (List.mem_cons_self ..))
    · intro x hx
      exact hl x (List.mem_cons_of_mem _ ((sortRows_perm keys rest).mem_iff.1 hx))
    · exact ih (fun x hx => hl x (List.mem_cons_of_mem _ hx))

theorem sortRows_pairwise (keys : List (Nat × Bool)) (rows : List Row)
    (hc : ∀ a ∈ rows, ∀ b ∈ rows, KeyComparable keys a b) :
    (sortRows keys rows).Pairwise (fun a b => rowLess keys b a = false) :=
  sortRows_pairwise_of_strictWeak keys rows (rowLess_strict_weak keys rows hc)

/-- **No ORDER BY keeps the order.** -/
theorem sortRows_stable_nokeys (rows : List Row) : sortRows [] rows = rows := by
  induction rows with
  | nil => rfl
  | cons r rest ih =>
    rw [sortRows_cons, ih]
    cases rest <;> simp [insertSorted, rowLess]

/-! ### `sortColumns` -/

/-- the key-resolution step of `sortColumns` -/
def resolveSortKeys (ob : List SortSpec) (hdr : List Field) : X (List (Nat × Bool)) :=
  mapX (fun (s : SortSpec) => match findColumn s.key hdr with
    | .ok i => X.ok (i, s.desc)
    | .err .fieldNotFound => .err .sortFieldNotFound
    | .err e => .err e
    | .panic p => .panic p) ob

/-- **`sortColumns` succeeds only after checking the typing condition**, and then returns
`sortRows` on the resolved keys. -/
theorem sortColumns_ok {ob : List SortSpec} {hdr : List Field} {rows out : List Row}
    (h : sortColumns ob hdr rows = .ok out) :
    ∃ keys, resolveSortKeys ob hdr = .ok keys ∧
      (∀ a ∈ rows, ∀ b ∈ rows, KeyComparable keys a b) ∧ out = sortRows keys rows := by
  unfold sortColumns at h
  rw [bind_eq_ok] at h
  obtain ⟨keys, hk, h⟩ := h
  refine ⟨keys, hk, ?_⟩
  dsimp only at h
  split at h
  · cases h
  · rename_i hbad
    simp only [pure_eq_ok, X.ok.injEq] at h
    refine ⟨?_, h.symm⟩
    intro a ha b hb k hk
    simp only [Bool.not_eq_true, List.any_eq_false] at hbad
    have hb' := hbad a ha b hb k hk
    apply Classical.byContradiction
    intro hn
    obtain ⟨s, hs⟩ := (cmpVal_panic_iff _ _).2 hn
    simp [hs] at hb'

/-- hence the result of a successful `sortColumns` is a globally sorted permutation. -/
theorem sortColumns_sorted_perm {ob : List SortSpec} {hdr : List Field} {rows out : List Row}
    (h : sortColumns ob hdr rows = .ok out) :
    ∃ keys, resolveSortKeys ob hdr = .ok keys ∧ out.Perm rows ∧
      Spec.sortedBy keys out = true ∧ out.Pairwise (fun a b => rowLess keys b a = false) := by
  obtain ⟨keys, hk, hc, rfl⟩ := sortColumns_ok h
  exact ⟨keys, hk, sortRows_perm _ _, sortRows_sorted _ _, sortRows_pairwise _ _ hc⟩

/-! ### WHERE -/

/-- the rows WHERE keeps: the condition evaluates to `TRUE` -/
def keeps (c : Cond) (fields : List Field) (r : Row) : Bool :=
  match evaluate c fields r with
  | .ok (.bool true) => true
  | _ => false

theorem keeps_eq_holds (c : Cond) (fields : List Field) (r : Row) :
    keeps c fields r = (Spec.holds c fields r == some true) := by
  unfold keeps Spec.holds
  cases evaluate c fields r with
  | ok v => cases v with
    | bool b => cases b <;> rfl
    | _ => rfl
  | err e => rfl
  | panic s => rfl

theorem filterRows_cons_ok {c : Cond} {fields : List Field} {r : Row} {rest out : List Row}
    (h : filterRows c fields (r :: rest) = .ok out) :
    ∃ v tl, evaluate c fields r = .ok v ∧ filterRows c fields rest = .ok tl ∧
      out = if v = .bool true then r :: tl else tl := by
  simp only [filterRows] at h
  rw [bind_eq_ok] at h
  obtain ⟨v, hv, h⟩ := h
  rw [bind_eq_ok] at h
  obtain ⟨tl, htl, h⟩ := h
  simp only [pure_eq_ok, X.ok.injEq, beq_iff_eq] at h
  exact ⟨v, tl, hv, htl, h.symm⟩

/-- **WHERE is a filter**: a successful `filterRows` evaluated the condition successfully on
every row and returns, in order, exactly the rows on which it is `TRUE`. -/
theorem filterRows_ok {c : Cond} {fields : List Field} {rows out : List Row}
    (h : filterRows c fields rows = .ok out) :
    (∀ r ∈ rows, ∃ v, evaluate c fields r = .ok v) ∧ out = rows.filter (keeps c fields) := by
  induction rows generalizing out with
  | nil =>
    simp only [filterRows, X.ok.injEq] at h
    subst h
    exact ⟨fun _ hr => (nomatch hr), rfl⟩
  | cons r rest ih =>
    obtain ⟨v, tl, hv, htl, hout⟩ := filterRows_cons_ok h
    obtain ⟨hall, htl'⟩ := ih htl
    constructor
    · intro x hx
      cases List.mem_cons.1 hx with
      | inl e => subst e; exact ⟨v, hv⟩
      | inr hx => exact hall x hx
    · subst hout htl'
      simp only [List.filter_cons, keeps, hv]
      by_cases hvt : v = .bool true
      · subst hvt; simp
      · rw [if_neg hvt]
        split
        · rename_i heq; exact absurd (X.ok.inj heq) hvt
        · rfl

/-- conversely, when every evaluation succeeds `filterRows` succeeds. -/
theorem filterRows_of_ok {c : Cond} {fields : List Field} {rows : List Row}
    (hall : ∀ r ∈ rows, ∃ v, evaluate c fields r = .ok v) :
    filterRows c fields rows = .ok (rows.filter (keeps c fields)) := by
  induction rows with
  | nil => rfl
  | cons r rest ih =>
    obtain ⟨v, hv⟩ := hall r (List.mem_cons_self ..)
    have ih' := ih (fun x hx => hall x (List.mem_cons_of_mem _ hx))
    simp only [filterRows, hv, ih', bind_ok, pure_eq_ok, List.filter_cons, keeps, beq_iff_eq]
    by_cases hvt : v = .bool true
    · subst hvt; simp
    · rw [if_neg hvt]
      split
      · rename_i heq; exact absurd (X.ok.inj heq) hvt
      · rfl

/-! ### The pipeline -/

/-- without an aggregate in the select list AND without GROUP BY the projected rows pass through
(`SELECT a FROM t GROUP BY a` does group: see `Mkdb/Proofs/GroupNoAgg.lean`) -/
theorem aggregateRows_noAggr {sl : List DerivedCol} {gb : List ColRef} (rows : List Row)
    (h : hasAggr sl = false) (hgb : gb = []) : aggregateRows sl gb rows = .ok rows := by
  simp [aggregateRows, h, hgb]

/-- OFFSET then LIMIT -/
def cut (lim : LimitOffset) (l : List Row) : List Row :=
  let l := if lim.offsetActive then l.drop lim.offset.toNat else l
  if lim.limitActive then l.take lim.limit.toNat else l

set_option linter.unusedSimpArgs false in
/-- `cutRows` answers exactly when no written bound is negative, and then with `cut` -/
theorem cutRows_ok_iff {lim : LimitOffset} {rows out : List Row} :
    cutRows lim rows = .ok out ↔ Spec.boundsOK lim = true ∧ out = cut lim rows := by
  have e : ∀ a b : List Row, (X.ok a = X.ok b) = (b = a) := fun a b => by
    simp only [X.ok.injEq]; exact propext eq_comm
  unfold cutRows Spec.boundsOK cut
  simp only [← Int.not_lt]
  by_cases ho : lim.offset < 0 <;> by_cases hl : lim.limit < 0 <;>
  cases lim.offsetActive <;> cases lim.limitActive <;>
    simp only [ho, hl, e, Bool.false_and, Bool.true_and, Bool.not_false, Bool.not_true, Bool.false_or,
      Bool.true_or, Bool.and_self, Bool.false_eq_true, if_false, if_true, decide_eq_true_eq, true_and,
      decide_true, decide_false, Bool.and_true, Bool.and_false, false_and, reduceCtorEq,
      not_true_eq_false, not_false_eq_true]

theorem cutRows_of_boundsOK {lim : LimitOffset} (h : Spec.boundsOK lim = true) (rows : List Row) :
    cutRows lim rows = .ok (cut lim rows) := cutRows_ok_iff.2 ⟨h, rfl⟩

/-- the field list of a plain table: its columns, qualified by the alias if there is one -/
def tableFields (t : TableName) (tbl : Table) : List Field :=
  tbl.cols.map fun c => ⟨(match t.alias with | some a => a | none => t.name), c⟩

/-- everything `evaluateSelect` does after WHERE -/
def selectTail (q : Select) (fields : List Field) (filtered : List Row) :
    X (List Row × List Field) := do
  let (rows, hdr) ← projectColumns q.list fields filtered
  let rows ← aggregateRows q.list q.groupBy rows
  let rows ← sortColumns q.orderBy (sortFields q.list hdr) rows
  let rows ← cutRows q.lim rows
  pure (rows, hdr)

theorem evaluateSelect_from (fetch : Bytes → Option Table) (q : Select) (tr : TableRef)
    (h : q.from_ = some tr) :
    evaluateSelect fetch q = (do
      let (rows, fields) ← nestedLoopJoin fetch tr
      let rows ← (match q.where_ with
        | some c => filterRows c fields rows
        | none => pure rows)
      selectTail q fields rows) := by
  unfold evaluateSelect selectTail
  rw [h]
  cases q.where_ <;> rfl

theorem selectTail_ok {q : Select} {fields : List Field} {filtered rows : List Row}
    {hdr : List Field} (hagg : hasAggr q.list = false) (hgb : q.groupBy = [])
    (h : selectTail q fields filtered = .ok (rows, hdr)) :
    ∃ projected keys,
      projectColumns q.list fields filtered = .ok (projected, hdr) ∧
      resolveSortKeys q.orderBy (sortFields q.list hdr) = .ok keys ∧
      (∀ a ∈ projected, ∀ b ∈ projected, KeyComparable keys a b) ∧
      rows = cut q.lim (sortRows keys projected) := by
  unfold selectTail at h
  rw [bind_eq_ok] at h
  obtain ⟨⟨projected, hdr'⟩, hproj, h⟩ := h
  simp only [aggregateRows_noAggr _ hagg hgb, bind_ok] at h
  rw [bind_eq_ok] at h
  obtain ⟨sorted, hsort, h⟩ := h
  rw [bind_eq_ok] at h
  obtain ⟨cutted, hcut, h⟩ := h
  simp only [pure_eq_ok, X.ok.injEq, Prod.mk.injEq] at h
  obtain ⟨hrows, hhdr⟩ := h
  subst hhdr
  obtain ⟨keys, hkeys, hcomp, hsorted⟩ := sortColumns_ok hsort
  refine ⟨projected, keys, hproj, hkeys, hcomp, ?_⟩
  rw [← hrows, (cutRows_ok_iff.1 hcut).2, hsorted]

/-- **A single-table SELECT without aggregates and without GROUP BY is
filter → project → sort → offset → limit**, in that order and nothing else. -/
theorem select_single_table {fetch : Bytes → Option Table} {q : Select} {t : TableName}
    {rows : List Row} {hdr : List Field}
    (hfrom : q.from_ = some (.table t)) (hagg : hasAggr q.list = false) (hgb : q.groupBy = [])
    (h : evaluateSelect fetch q = .ok (rows, hdr)) :
    ∃ tbl src fields filtered projected keys,
      fetch t.name = some tbl ∧ src = tbl.rows ∧ fields = tableFields t tbl ∧
      (match q.where_ with
        | some c => (∀ r ∈ src, ∃ v, evaluate c fields r = .ok v) ∧
                    filtered = src.filter (keeps c fields)
        | none => filtered = src) ∧
      projectColumns q.list fields filtered = .ok (projected, hdr) ∧
      resolveSortKeys q.orderBy (sortFields q.list hdr) = .ok keys ∧
      (∀ a ∈ projected, ∀ b ∈ projected, KeyComparable keys a b) ∧
      rows = cut q.lim (sortRows keys projected) := by
  rw [evaluateSelect_from fetch q _ hfrom] at h
  simp only [nestedLoopJoin] at h
  rw [bind_eq_ok] at h
  obtain ⟨⟨src, fields⟩, hfetch, h⟩ := h
  simp only [] at h
  rw [bind_eq_ok] at h
  obtain ⟨filtered, hfilt, h⟩ := h
  obtain ⟨projected, keys, hproj, hkeys, hcomp, hrows⟩ := selectTail_ok hagg hgb h
  unfold fetchTable at hfetch
  split at hfetch
  · cases hfetch
  · rename_i tbl htbl
    simp only [X.ok.injEq, Prod.mk.injEq] at hfetch
    obtain ⟨hsrc, hfields⟩ := hfetch
    refine ⟨tbl, src, fields, filtered, projected, keys, htbl, hsrc.symm, hfields.symm, ?_,
      hproj, hkeys, hcomp, hrows⟩
    cases hw : q.where_ with
    | none => simp only [hw, pure_eq_ok, X.ok.injEq] at hfilt ⊢; exact hfilt.symm
    | some c => simp only [hw] at hfilt ⊢; exact filterRows_ok hfilt

/-! ### OFFSET / LIMIT, sort keys and sortedness of the final result -/

/-- `cut` is `take lim (drop off l)` with the conventions of `Spec.satisfies`. -/
theorem cut_eq (lim : LimitOffset) (l : List Row) :
    cut lim l =
      (let off := if lim.offsetActive then lim.offset.toNat else 0
       let d := l.drop off
       if lim.limitActive then d.take lim.limit.toNat else d) := by
  unfold cut
  cases lim.offsetActive <;> simp

theorem mapX_cons_ok {α β} {f : α → X β} {a : α} {l : List α} {r : List β}
    (h : mapX f (a :: l) = .ok r) : ∃ b bs, f a = .ok b ∧ mapX f l = .ok bs ∧ r = b :: bs := by
  simp only [mapX] at h
  rw [bind_eq_ok] at h
  obtain ⟨b, hb, h⟩ := h
  rw [bind_eq_ok] at h
  obtain ⟨bs, hbs, h⟩ := h
  simp only [pure_eq_ok, X.ok.injEq] at h
  exact ⟨b, bs, hb, hbs, h.symm⟩

theorem mapX_ok_mapM {α β} {f : α → X β} {g : α → Option β}
    (hfg : ∀ a b, f a = .ok b → g a = some b) {l : List α} {r : List β}
    (h : mapX f l = .ok r) : l.mapM g = some r := by
  induction l generalizing r with
  | nil => simp only [mapX, X.ok.injEq] at h; subst h; rfl
  | cons a l ih =>
    obtain ⟨b, bs, hb, hbs, rfl⟩ := mapX_cons_ok h
    rw [List.mapM_cons, hfg a b hb, ih hbs]
    rfl

/-- the executor resolves the ORDER BY keys as the specification does -/
theorem resolveSortKeys_spec {q : Select} {hdr : List Field} {keys : List (Nat × Bool)}
    (h : resolveSortKeys q.orderBy (sortFields q.list hdr) = .ok keys) :
    Spec.sortKeys q hdr = some keys := by
  unfold resolveSortKeys at h
  unfold Spec.sortKeys
  refine mapX_ok_mapM ?_ h
  intro s b hs
  cases hfc : findColumn s.key (sortFields q.list hdr) with
  | ok i => simp only [hfc, X.ok.injEq] at hs ⊢; rw [hs]
  | err e => simp only [hfc] at hs; cases e <;> cases hs
  | panic p => simp only [hfc] at hs; cases hs

theorem sortedBy_drop (keys : List (Nat × Bool)) (n : Nat) (l : List Row)
    (h : Spec.sortedBy keys l = true) : Spec.sortedBy keys (l.drop n) = true := by
  induction n generalizing l with
  | zero => simpa using h
  | succ n ih =>
    cases l with
    | nil => rfl
    | cons a l => rw [List.drop_succ_cons]; exact ih l ((sortedBy_cons keys a l).1 h).2

theorem sortedBy_take (keys : List (Nat × Bool)) (n : Nat) (l : List Row)
    (h : Spec.sortedBy keys l = true) : Spec.sortedBy keys (l.take n) = true := by
  induction l generalizing n with
  | nil => simp [Spec.sortedBy]
  | cons a l ih =>
    cases n with
    | zero => rfl
    | succ n =>
      rw [List.take_succ_cons, sortedBy_cons]
      obtain ⟨h1, h2⟩ := (sortedBy_cons keys a l).1 h
      refine ⟨?_, ih n h2⟩
      intro b hb
      apply h1
      cases n with
      | zero => simp at hb
      | succ n => cases l with
        | nil => simp at hb
        | cons c l => simpa using hb

theorem sortedBy_cut (keys : List (Nat × Bool)) (lim : LimitOffset) (l : List Row)
    (h : Spec.sortedBy keys l = true) : Spec.sortedBy keys (cut lim l) = true := by
  unfold cut
  dsimp only
  split <;> split <;> first
    | exact sortedBy_take _ _ _ (sortedBy_drop _ _ _ h)
    | exact sortedBy_take _ _ _ h
    | exact sortedBy_drop _ _ _ h
    | exact h

/-- **OFFSET/LIMIT**: the final rows are `take lim (drop off s)` where `s` is the sorted
permutation of the projected rows (`off = 0` without OFFSET, no `take` without LIMIT; negative
values count as `0` via `Int.toNat`); in particular the final rows are themselves sorted. -/
theorem limit_offset_spec {fetch : Bytes → Option Table} {q : Select} {t : TableName}
    {rows : List Row} {hdr : List Field}
    (hfrom : q.from_ = some (.table t)) (hagg : hasAggr q.list = false) (hgb : q.groupBy = [])
    (h : evaluateSelect fetch q = .ok (rows, hdr)) :
    ∃ keys fields filtered projected sorted,
      projectColumns q.list fields filtered = .ok (projected, hdr) ∧
      Spec.sortKeys q hdr = some keys ∧
      sorted = sortRows keys projected ∧ sorted.Perm projected ∧
      Spec.sortedBy keys sorted = true ∧
      sorted.Pairwise (fun a b => rowLess keys b a = false) ∧
      rows = (let off := if q.lim.offsetActive then q.lim.offset.toNat else 0
              let d := sorted.drop off
              if q.lim.limitActive then d.take q.lim.limit.toNat else d) ∧
      Spec.sortedBy keys rows = true := by
  obtain ⟨tbl, src, fields, filtered, projected, keys, _, _, _, _, hproj, hkeys, hcomp, hrows⟩ :=
    select_single_table hfrom hagg hgb h
  refine ⟨keys, fields, filtered, projected, _, hproj, resolveSortKeys_spec hkeys, rfl,
    sortRows_perm _ _, sortRows_sorted _ _, sortRows_pairwise _ _ hcomp, ?_, ?_⟩
  · rw [hrows, cut_eq]
  · rw [hrows]; exact sortedBy_cut _ _ _ (sortRows_sorted _ _)

/-! ### Concrete instances (the hypotheses are satisfiable on non-trivial inputs) -/
section Examples

instance (keys : List (Nat × Bool)) (a b : Row) : Decidable (KeyComparable keys a b) := by
  unfold KeyComparable; infer_instance

/-- columns: `a` (int, with a NULL), `b` (string) -/
def exRows : List Row :=
  [[.int 3, .str [98]], [.null, .str [97]], [.int 1, .str [97, 98]], [.int 3, .str [97]],
   [.int (-2), .str []]]

/-- `ORDER BY a ASC, b DESC` -/
def exKeys : List (Nat × Bool) := [(0, false), (1, true)]

-- hypothesis of `rowLess_strict_weak` / `sortRows_pairwise`
example : ∀ a ∈ exRows, ∀ b ∈ exRows, KeyComparable exKeys a b := by decide

-- `sortRows_perm`, `sortRows_sorted` on this input: NULL first, ties on `a` broken by `b` descending
example : sortRows exKeys exRows =
    [[.null, .str [97]], [.int (-2), .str []], [.int 1, .str [97, 98]], [.int 3, .str [98]],
     [.int 3, .str [97]]] := by decide
example : Spec.sortedBy exKeys (sortRows exKeys exRows) = true := by decide
example : sortRows [] exRows = exRows := sortRows_stable_nokeys exRows

-- the typing hypothesis of `rowLess_strict_weak` cannot be dropped: with mixed types
-- incomparability is not transitive (`1 ~ 'a'`, `'a' ~ 2`, but `1 < 2`)
example :
    rowLess [(0, false)] [.int 1] [.str [97]] = false ∧ rowLess [(0, false)] [.str [97]] [.int 1] = false ∧
    rowLess [(0, false)] [.str [97]] [.int 2] = false ∧ rowLess [(0, false)] [.int 2] [.str [97]] = false ∧
    rowLess [(0, false)] [.int 1] [.int 2] = true := by decide

/-- table `t(a, b)` -/
def exFetch (n : Bytes) : Option Table :=
  if n = [116] then some ⟨[[97], [98]], exRows⟩ else none

/-- `a > 0` -/
def exCond : Cond := .pred ⟨.col ⟨[], [97]⟩, Generated.t_GT, .lit (.int 0)⟩

def exFields : List Field := [⟨[116], [97]⟩, ⟨[116], [98]⟩]

-- `filterRows_ok`: every evaluation succeeds; on the NULL row `>` is false (it was an error until
-- the repair of the ordering comparisons on NULL), so that row is not selected
example : filterRows exCond exFields exRows =
    .ok [[.int 3, .str [98]], [.int 1, .str [97, 98]], [.int 3, .str [97]]] := rfl
example : filterRows exCond exFields [[.int 3, .str [98]], [.int (-2), .str []], [.int 1, .str [97, 98]]]
    = .ok [[.int 3, .str [98]], [.int 1, .str [97, 98]]] := rfl
example : ∀ r ∈ ([[.int 3, .str [98]], [.int (-2), .str []]] : List Row),
    ∃ v, evaluate exCond exFields r = .ok v := by
  intro r hr
  simp only [List.mem_cons, List.not_mem_nil, or_false] at hr
  rcases hr with rfl | rfl
  · exact ⟨.bool true, rfl⟩
  · exact ⟨.bool false, rfl⟩

/-- `SELECT b, a FROM t WHERE a = 3 OR b = 'ab' ORDER BY b LIMIT 2 OFFSET 1` -/
def exQuery : Select :=
  { list := [⟨.expr (.val (.col ⟨[], [98]⟩)), []⟩, ⟨.expr (.val (.col ⟨[], [97]⟩)), []⟩]
    from_ := some (.table ⟨[116], none⟩)
    where_ := some (.or (.pred ⟨.col ⟨[], [97]⟩, Generated.t_EQ, .lit (.int 3)⟩)
                        (.pred ⟨.col ⟨[], [98]⟩, Generated.t_EQ, .lit (.str [97, 98])⟩))
    orderBy := [⟨⟨[], [98]⟩, false⟩]
    lim := { limitActive := true, offsetActive := true, limit := 2, offset := 1 } }

-- hypotheses of `select_single_table` / `limit_offset_spec`
example : exQuery.from_ = some (.table ⟨[116], none⟩) := rfl
example : hasAggr exQuery.list = false := rfl
example : exQuery.groupBy = [] := rfl
example : evaluateSelect exFetch exQuery =
    .ok ([[.str [97, 98], .int 1], [.str [98], .int 3]], [⟨[116], [98]⟩, ⟨[116], [97]⟩]) := rfl

end Examples

end Mkdb.Exec.SelectP
