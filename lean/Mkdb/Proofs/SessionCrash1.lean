import Mkdb.Proofs.SessionInv9
import Mkdb.Proofs.PtSelfFree2
import Mkdb.Proofs.CrashBytes3
/-!
Sessions and crashes, part 1: **the crash invariant of one database of a session, and
`Session.crashRestart`**.

The session invariant `SessAbs` (SessionInv6) is too weak for a crash: `DbInv` says that the CACHE of the
selected database shows the plain database `w name`, not that its LOG redoes it from the data file - and
it does not: after an INSERT refused at a later row the rows before the refused one are in the cache,
visible, and in no log record (`crash_loses_unlogged_rows` in SessionCrash3).

* `CkptNS db sdb`: the database is checkpointed (`Ckpt`, ReplayCkpt7: everything on disk, the whole log
  applied, `PtSelf`, `FreshM`) for the plain database `sdb`, without stale `sys_schema` rows.
* `DbCrash db sdb`: the database is reached from a checkpointed one by row statements the plain model
  accepts (`SpecRun`) - what the C02 theorems about a crash between statements need.
* `DbCrash.recover`: start-up recovery of such a database WITHOUT a flush before it succeeds and gives a
  checkpointed database for the same plain database (`Ckpt.recover_round_full`); so does the flush.
* `SessCrash s w`: `SessAbs s w`, and every database satisfies `DbCrash` for `w name`.
* `crashRestart_sessCrash`: **a crash between two statements loses nothing.**
-/
set_option autoImplicit false
namespace Mkdb.Store
open Mkdb.Page Mkdb.Tuple Mkdb.Generated Mkdb.Tree Mkdb.Engine

/-- checkpointed, without stale `sys_schema` rows -/
def CkptNS (db : Engine.DB) (sdb : Spec.SDB) : Prop :=
  ∃ sch pt tbls, Ckpt sch db sdb pt tbls ∧ NoStale sch tbls

/-- **The crash invariant of a database in use**: reached from a checkpoint by accepted row statements. -/
def DbCrash (db : Engine.DB) (sdb : Spec.SDB) : Prop :=
  ∃ sch db0 sdb0 pt0 tbls0 stmts, Ckpt sch db0 sdb0 pt0 tbls0 ∧ NoStale sch tbls0 ∧
    SpecRun sch db0 sdb0 stmts db sdb

theorem CkptNS.dbCrash {db : Engine.DB} {sdb : Spec.SDB} (h : CkptNS db sdb) : DbCrash db sdb := by
  obtain ⟨sch, pt, tbls, hk, hns⟩ := h
  exact ⟨sch, db, sdb, pt, tbls, [], hk, hns, .nil db sdb⟩

theorem CkptNS.dbFlushed {db : Engine.DB} {sdb : Spec.SDB} (h : CkptNS db sdb) :
    ∃ pt sch tbls, DbFlushed db sdb pt sch tbls := by
  obtain ⟨sch, pt, tbls, hk, hns⟩ := h
  exact ⟨pt, sch, tbls, hk.dbFlushed hns⟩

/-- the re-opened data file of a checkpointed database is checkpointed -/
theorem Ckpt.reopen {sch : Levels} {db : Engine.DB} {sdb : Spec.SDB} {pt : Levels} {tbls : List (Bytes × Levels)}
    (h : Ckpt sch db sdb pt tbls) : Ckpt sch { db with store := Store.reopen db.store } sdb pt tbls := by
  obtain ⟨sdb0, habs0, hv⟩ := h.abs
  have hc : Cat (Store.reopen db.store) pt sch tbls := reopen_cat habs0.cat h.disk h.dhdr db.store rfl rfl
  have hh : (Store.reopen db.store).hdr = db.store.hdr := h.dhdr
  refine ⟨⟨sdb0, ⟨hc, habs0.tabs⟩, hv⟩, h.self, ?_, (fun _ hp => by cases hp), h.log, ?_, ?_, rfl, h.disk⟩
  · exact h.fresh.of_hdr (by rw [hh]; exact Nat.le_refl _) (by rw [hh]; exact Nat.le_refl _)
  · intro r hr
    show r.lsn < (Store.reopen db.store).hdr.nextLSN
    rw [hh]; exact h.lsn r hr
  · intro r hr hop
    show r.cell ≤ (Store.reopen db.store).hdr.lastKey
    rw [hh]; exact h.keys r hr hop

theorem CkptNS.reopen {db : Engine.DB} {sdb : Spec.SDB} (h : CkptNS db sdb) :
    CkptNS { db with store := Store.reopen db.store } sdb := by
  obtain ⟨sch, pt, tbls, hk, hns⟩ := h
  exact ⟨sch, pt, tbls, hk.reopen, hns⟩

/-- start-up recovery re-opens the data file itself: dropping the cache first changes nothing -/
theorem recover_reopen (db : Engine.DB) (o1 o2 : List Nat) :
    Engine.recover { db with store := Store.reopen db.store } o1 o2 = Engine.recover db o1 o2 := rfl

/-- **Crash and recovery of a database of a session**: no flush, the cache is lost; start-up recovery
succeeds, keeps the log, and gives a checkpointed database for the plain database of all acknowledged
statements. -/
theorem DbCrash.recover {db : Engine.DB} {sdb : Spec.SDB} (h : DbCrash db sdb) (o1 o2 : List Nat) :
    ∃ db', Engine.recover db o1 o2 = .ok db' ∧ db'.wal = db.wal ∧ CkptNS db' sdb := by
  obtain ⟨sch, db0, sdb0, pt0, tbls0, stmts, hk, hns, run⟩ := h
  obtain ⟨_, hcs, _⟩ := hk.disk.clean_eq
  obtain ⟨db', ptL, tblsL, e, hw, hAL, hk', _⟩ := hk.recover_round_full run o1 o2
  refine ⟨db', e, hw, sch, _, _, hk', ?_⟩
  have := (specRun_noStale run hk.abs hns hAL).clean
  rw [hcs] at this
  exact this

/-- the flush (the session's close) of such a database -/
theorem DbCrash.flush {db : Engine.DB} {sdb : Spec.SDB} (h : DbCrash db sdb) (order : List Nat) :
    ∃ db', Engine.flush db order = .ok () db' ∧ db'.wal = db.wal ∧ CkptNS db' sdb := by
  obtain ⟨sch, db0, sdb0, pt0, tbls0, stmts, hk, hns, run⟩ := h
  obtain ⟨_, hcs, _⟩ := hk.disk.clean_eq
  obtain ⟨db', ptL, tblsL, e, hw, hAL, hk', _⟩ := hk.flush_round_full run order
  refine ⟨db', e, hw, sch, _, _, hk', ?_⟩
  have := (specRun_noStale run hk.abs hns hAL).clean
  rw [hcs] at this
  exact this

/-- one more accepted row statement -/
theorem DbCrash.step {db db' : Engine.DB} {sdb sdb' : Spec.SDB} (h : DbCrash db sdb)
    (hstep : ∀ sch, ∃ st, SpecRun sch db sdb [st] db' sdb') : DbCrash db' sdb' := by
  obtain ⟨sch, db0, sdb0, pt0, tbls0, stmts, hk, hns, run⟩ := h
  obtain ⟨st, h1⟩ := hstep sch
  exact ⟨sch, db0, sdb0, pt0, tbls0, stmts ++ [st], hk, hns, run.append h1⟩

end Mkdb.Store

namespace Mkdb.Session
open Mkdb.Engine Mkdb.Store Mkdb.Sql Mkdb.Tree

/-- **The crash invariant of a session**: it abstracts to the plain databases `w`, and every database
is reached from a checkpoint by accepted row statements (the others than the selected one ARE
checkpointed: `SessAbs` says they are closed). -/
structure SessCrash (s : Sess) (w : String → Spec.SDB) : Prop where
  abs : SessAbs s w
  crash : ∀ p ∈ s.dbs, DbCrash p.2 (w p.1)

/-- the invariant implies the old one -/
theorem SessCrash.inv {s : Sess} {w : String → Spec.SDB} (h : SessCrash s w) : SessInv s := ⟨w, h.abs⟩

theorem sessCrash_empty (w : String → Spec.SDB) : SessCrash {} w :=
  ⟨sessAbs_empty w, fun _ hp => absurd hp List.not_mem_nil⟩

/-- a session without a selection all of whose databases are checkpointed -/
theorem sessCrash_of_ckpt {l : List (String × DB)} {w : String → Spec.SDB} (hnd : (l.map (·.1)).Nodup)
    (h : ∀ p ∈ l, CkptNS p.2 (w p.1)) : SessCrash { dbs := l, cur := none } w := by
  refine ⟨⟨?_, (fun _ hc => by cases hc), hnd⟩, fun p hp => (h p hp).dbCrash⟩
  intro p hp
  obtain ⟨pt, sch, tbls, hk⟩ := (h p hp).dbFlushed
  exact ⟨pt, sch, tbls, hk.inv, fun _ => hk⟩

/-- start-up recovery of every database: what is needed of each -/
def Recoverable (db : DB) (sdb : Spec.SDB) : Prop :=
  ∃ db', Engine.recover db [] [] = .ok db' ∧ CkptNS { db' with store := reopen db'.store } sdb

theorem _root_.Mkdb.Store.DbCrash.recoverable {db : DB} {sdb : Spec.SDB} (h : DbCrash db sdb) : Recoverable db sdb := by
  obtain ⟨db', e, _, hk⟩ := h.recover [] []
  exact ⟨db', e, hk.reopen⟩

/-- the same after the cache is dropped -/
theorem _root_.Mkdb.Store.DbCrash.recoverable_dropped {db : DB} {sdb : Spec.SDB} (h : DbCrash db sdb) :
    Recoverable { db with store := reopen db.store } sdb := by
  obtain ⟨db', e, hk⟩ := h.recoverable
  exact ⟨db', by rw [recover_reopen]; exact e, hk⟩

/-- **Start-up recovery of every database**: none fails, the names are the same, each comes back
checkpointed for the same plain database. -/
theorem recoverEvery_ok (w : String → Spec.SDB) : ∀ (l : List (String × DB)),
    (∀ p ∈ l, Recoverable p.2 (w p.1)) →
    ∃ l', recoverEvery l = some l' ∧ l'.map (·.1) = l.map (·.1) ∧ ∀ p ∈ l', CkptNS p.2 (w p.1)
  | [], _ => ⟨[], rfl, rfl, fun _ h => by cases h⟩
  | (n, db) :: rest, h => by
    obtain ⟨db', e, hk⟩ := h (n, db) List.mem_cons_self
    obtain ⟨l', e2, hn, hl⟩ := recoverEvery_ok w rest (fun p hp => h p (List.mem_cons_of_mem _ hp))
    refine ⟨(n, { db' with store := reopen db'.store }) :: l', ?_, ?_, ?_⟩
    · simp only at e
      simp only [recoverEvery, e, e2, Option.map_some]
    · simp only [List.map_cons, hn]
    · intro p hp
      rcases List.mem_cons.mp hp with rfl | hp
      · exact hk
      · exact hl p hp

/-- the loop of `restart` is `recoverEvery` -/
theorem restart_go_eq : ∀ (l : List (String × DB)), restart.go l = recoverEvery l
  | [] => rfl
  | (n, db) :: rest => by
    simp only [restart.go, recoverEvery, restart_go_eq rest]

/-- the session with the cache of the selected database dropped (the first step of `crashRestart`) -/
def dropCur (s : Sess) : Sess :=
  match s.cur with
  | some c => (match getDB s c with
    | some db => setDB s c { db with store := reopen db.store }
    | none => s)
  | none => s

theorem crashRestart_eq (s : Sess) :
    crashRestart s = (recoverEvery (dropCur s).dbs).map fun dbs => { dbs := dbs, cur := none } := rfl

/-- dropping the cache: same names, every database can be recovered to its plain database -/
theorem dropCur_recoverable {s : Sess} {w : String → Spec.SDB} (h : SessCrash s w) :
    names (dropCur s) = names s ∧ ∀ p ∈ (dropCur s).dbs, Recoverable p.2 (w p.1) := by
  unfold dropCur
  cases hc : s.cur with
  | none => exact ⟨rfl, fun p hp => (h.crash p hp).recoverable⟩
  | some c =>
    cases hg : getDB s c with
    | none => simp only [hg]; exact ⟨trivial, fun p hp => (h.crash p hp).recoverable⟩
    | some db =>
      simp only [hg]
      refine ⟨by rw [names_setDB, hg]; rfl, fun p hp => ?_⟩
      rcases mem_setDB hp with rfl | ⟨hp', _⟩
      · exact (h.crash (c, db) (getDB_mem hg)).recoverable_dropped
      · exact (h.crash p hp').recoverable

/-- **A crash between two statements loses nothing.**  For a session that satisfies the crash invariant,
`crashRestart` - the cache of the selected database is dropped without a flush, start-up recovery of
every database, re-open - succeeds: no recovery fails; the session after it has the same names, no
selection, satisfies the crash invariant again, and abstracts to THE SAME plain databases `w`. -/
theorem crashRestart_sessCrash {s : Sess} {w : String → Spec.SDB} (h : SessCrash s w) :
    ∃ s', crashRestart s = some s' ∧ SessCrash s' w ∧ names s' = names s ∧ s'.cur = none ∧
      ∀ p ∈ s'.dbs, CkptNS p.2 (w p.1) := by
  obtain ⟨hnames, hall⟩ := dropCur_recoverable h
  obtain ⟨l', e, hn, hl⟩ := recoverEvery_ok w (dropCur s).dbs hall
  have hn' : l'.map (·.1) = names s := by rw [hn]; exact hnames
  refine ⟨{ dbs := l', cur := none }, by rw [crashRestart_eq, e]; rfl, ?_, hn', rfl, hl⟩
  exact sessCrash_of_ckpt (by rw [hn']; exact h.abs.nodup) hl

/-- **`restart` keeps the crash invariant** (and the plain databases: `restart_sessAbs`). -/
theorem restart_sessCrash {s : Sess} {w : String → Spec.SDB} (h : SessCrash s w) :
    ∃ s', restart s = some s' ∧ SessCrash s' w ∧ names s' = names s ∧ s'.cur = none ∧
      ∀ p ∈ s'.dbs, CkptNS p.2 (w p.1) := by
  have hcl : names (closeCur s) = names s ∧ ∀ p ∈ (closeCur s).dbs, Recoverable p.2 (w p.1) := by
    unfold closeCur
    cases hc : s.cur with
    | none => exact ⟨rfl, fun p hp => (h.crash p hp).recoverable⟩
    | some c =>
      cases hg : getDB s c with
      | none => simp only [hg]; exact ⟨trivial, fun p hp => (h.crash p hp).recoverable⟩
      | some db =>
        obtain ⟨db1, e, _, hk⟩ := (h.crash (c, db) (getDB_mem hg)).flush []
        simp only at e hk
        simp only [hg, e]
        refine ⟨by rw [names_setDB, hg]; rfl, fun p hp => ?_⟩
        rcases mem_setDB hp with rfl | ⟨hp', _⟩
        · exact hk.dbCrash.recoverable
        · exact (h.crash p hp').recoverable
  obtain ⟨hnames, hall⟩ := hcl
  obtain ⟨l', e, hn, hl⟩ := recoverEvery_ok w (closeCur s).dbs hall
  have hn' : l'.map (·.1) = names s := by rw [hn]; exact hnames
  refine ⟨{ dbs := l', cur := none }, by rw [restart_eq, restart_go_eq, e]; rfl, ?_, hn', rfl, hl⟩
  exact sessCrash_of_ckpt (by rw [hn']; exact h.abs.nodup) hl

end Mkdb.Session
