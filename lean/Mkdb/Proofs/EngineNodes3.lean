import Mkdb.Proofs.EngineNodes2
import Mkdb.Proofs.FlushReload2
/-!
The nodes the engine can produce are nodes the page codec round-trips, part 3: histories **with flushes
and reloads** on the page heap (`FROp` / `runF` / `heapRunF` of `FlushReload2`).

* `HOp.toT`, `applyH_eq_applyOp`: the operations of `RefineHistory` are those of `Props/C11`.
* `FROpInRange`: `OpInRange` for the tree operations; nothing for a flush or a reload.
* `clean_fields`, `runF_fields`, `runF_wf`: the field-range invariant through such histories; every page
  of the final tree satisfies `Page.WF`.
-/
set_option autoImplicit false
namespace Mkdb.Store
open Mkdb.Page Mkdb.Tuple Mkdb.Generated Mkdb.Tree

/-- the same operation in the vocabulary of `Mkdb/Props/C11.lean` -/
def HOp.toT : HOp → TOp
  | .ins k lsn v => .ins k lsn v
  | .upd k lsn v => .upd k lsn v
  | .del k lsn => .del k lsn

theorem applyH_eq_applyOp (st : Levels × Nat) (o : HOp) : applyH st o = applyOp st o.toT := by
  cases o <;> rfl

/-- key, LSN and value size of a step are in range (`Tree.OpInRange`); a flush and a reload carry none -/
def FROpInRange : FROp → Prop
  | .op o => OpInRange o.toT
  | .flush _ => True
  | .reload => True

instance decFROpInRange : (op : FROp) → Decidable (FROpInRange op)
  | .op o => decOpInRange o.toT
  | .flush _ => isTrue trivial
  | .reload => isTrue trivial

theorem clean_fields {P L K : Nat} {t : Levels} (h : FieldsOK P L K t) : FieldsOK P L K (clean t) := by
  refine ⟨?_, ?_⟩
  · intro p hp
    rw [clean_leaves] at hp
    obtain ⟨q, hq, rfl⟩ := List.mem_map.mp hp
    exact h.leaves q hq
  · intro lvl hl p hp
    rw [clean_inner] at hl
    obtain ⟨lvl0, hl0, rfl⟩ := List.mem_map.mp hl
    obtain ⟨q, hq, rfl⟩ := List.mem_map.mp hp
    exact h.inner lvl0 hl0 q hq

theorem applyF_nf_mono (st : Levels × Nat) (op : FROp) : st.2 ≤ (applyF st op).2 := by
  cases op with
  | op o => simp only [applyF, applyH_eq_applyOp]; exact applyOp_nf_mono st o.toT
  | flush _ => exact Nat.le_refl _
  | reload => exact Nat.le_refl _

theorem runF_nf_mono (ops : List FROp) : ∀ (st : Levels × Nat), st.2 ≤ (runF st ops).2 := by
  induction ops with
  | nil => intro st; exact Nat.le_refl _
  | cons op rest ih => intro st; exact Nat.le_trans (applyF_nf_mono st op) (ih (applyF st op))

theorem applyF_fields {P : Nat} (st : Levels × Nat) (op : FROp) (hop : FROpInRange op)
    (hnf : (applyF st op).2 ≤ P) (h : FieldsOK P (2 ^ 64) (2 ^ 32) st.1) :
    FieldsOK P (2 ^ 64) (2 ^ 32) (applyF st op).1 := by
  cases op with
  | op o =>
    simp only [applyF, applyH_eq_applyOp] at hnf ⊢
    exact applyOp_fields st o.toT hop hnf h
  | flush _ => exact clean_fields h
  | reload => exact clean_fields h

theorem runF_fields {P : Nat} (ops : List FROp) : ∀ (st : Levels × Nat), (∀ op ∈ ops, FROpInRange op) →
    (runF st ops).2 ≤ P → FieldsOK P (2 ^ 64) (2 ^ 32) st.1 → FieldsOK P (2 ^ 64) (2 ^ 32) (runF st ops).1 := by
  induction ops with
  | nil => intro st _ _ h; exact h
  | cons op rest ih =>
    intro st hops hnf h
    have hmono := runF_nf_mono rest (applyF st op)
    exact ih (applyF st op) (fun o ho => hops o (List.mem_cons_of_mem _ ho)) hnf
      (applyF_fields st op (hops op List.mem_cons_self) (Nat.le_trans hmono hnf) h)

/-- **Every page after a history with flushes and reloads is well formed for the page codec.** -/
theorem runF_wf (t : Levels) (nf : Nat) (hinv : Inv t nf) (hf : FieldsOK (2 ^ 64) (2 ^ 64) (2 ^ 32) t)
    (ops : List FROp) (hops : ∀ op ∈ ops, FROpInRange op) (hnf : (runF (t, nf) ops).2 ≤ 2 ^ 64) :
    ∀ e ∈ flatten (runF (t, nf) ops).1, WF e.2.1 :=
  (runF_fields ops (t, nf) hops hnf hf).wf (runF_inv ops (t, nf) hinv).cap

end Mkdb.Store
