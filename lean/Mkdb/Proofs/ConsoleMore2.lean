import Mkdb.Proofs.ConsoleMore1
/-!
Console model, `sessionFrom` read one key at a time, and bracketed paste at the byte level: the stream
`ESC[200~` text `ESC[201~` gives the submissions of the text typed, and what follows is read outside paste
mode from the state the typed text would have left.
-/
namespace Mkdb.Console

/-- the submission of one key, as a list -/
def subs (o : Option (List (List Nat))) : List (List (List Nat)) :=
  match o with
  | some s => [s]
  | none => []

theorem contin_keyLoop_back (F f : Nat) (t : Term) (lip : Bool) (bytes : List Nat) (h : bytes.length < F)
    (h' : bytes.length < f) : contin (keyLoop f t lip bytes) = sessionFrom F t bytes :=
  (sess_keyLoop F f t lip bytes h h').symm

/-- one key outside paste mode that `readLine` does not take for itself -/
theorem sess_key (F F' : Nat) (t : Term) (bytes after : List Nat) (key : Nat)
    (hpa : t.pasteActive = false) (hb : bytesToKey bytes false = some (key, after))
    (h1 : (key == keyCtrlD && t.line.isEmpty) = false) (h2 : key ≠ keyCtrlC) (h3 : key ≠ keyPasteStart)
    (hF : bytes.length < F) (hF' : after.length < F') :
    sessionFrom F t bytes = subs (step t key).2 ++ sessionFrom F' (step t key).1 after := by
  have hl := bytesToKey_shorter hb
  rw [sess_keyLoop F (bytes.length + 1) t false bytes hF (Nat.lt_succ_self _)]
  unfold keyLoop
  have e2 : (key == keyCtrlC) = false := by simpa using h2
  have e3 : (key == keyPasteStart) = false := by simpa using h3
  rw [hpa, hb]
  simp only [Bool.not_false, if_true, h1, e2, e3, Bool.false_eq_true, if_false]
  cases hs : step t key with
  | mk t' o =>
    cases o with
    | some s =>
      simp only [contin, Outcome.stmts, subs, List.cons_append, List.nil_append]
      exact congrArg _ (sessionFrom_fuel _ _ t' after (Nat.lt_succ_self _) hF')
    | none =>
      simp only [subs, List.nil_append]
      exact contin_keyLoop_back F' _ t' false after hF' hl

/-- one key in paste mode that is not the end of the paste -/
theorem sess_key_paste (F F' : Nat) (t : Term) (bytes after : List Nat) (key : Nat)
    (hpa : t.pasteActive = true) (hb : bytesToKey bytes true = some (key, after))
    (h1 : key ≠ keyPasteEnd) (hF : bytes.length < F) (hF' : after.length < F') :
    sessionFrom F t bytes = subs (step t key).2 ++ sessionFrom F' (step t key).1 after := by
  have hl := bytesToKey_shorter hb
  rw [sess_keyLoop F (bytes.length + 1) t false bytes hF (Nat.lt_succ_self _)]
  unfold keyLoop
  have e1 : (key == keyPasteEnd) = false := by simpa using h1
  rw [hpa, hb]
  simp only [Bool.not_true, e1, Bool.false_eq_true, if_false]
  cases hs : step t key with
  | mk t' o =>
    cases o with
    | some s =>
      simp only [contin, Outcome.stmts, subs, List.cons_append, List.nil_append]
      exact congrArg _ (sessionFrom_fuel _ _ t' after (Nat.lt_succ_self _) hF')
    | none =>
      simp only [subs, List.nil_append]
      exact contin_keyLoop_back F' _ t' false after hF' hl

theorem bytesToKey_pasteStart (r : List Nat) : bytesToKey (pasteStartSeq ++ r) false = some (keyPasteStart, r) := by
  simp [pasteStartSeq, bytesToKey, ctrlKey, csiKey, keyEscape]

theorem bytesToKey_pasteEnd (r : List Nat) : bytesToKey (pasteEndSeq ++ r) true = some (keyPasteEnd, r) := by
  simp [pasteEndSeq, bytesToKey, keyEscape]

/-- `ESC[200~` outside paste mode switches paste mode on -/
theorem sess_pasteStart (F F' : Nat) (t : Term) (r : List Nat) (hpa : t.pasteActive = false)
    (hF : (pasteStartSeq ++ r).length < F) (hF' : r.length < F') :
    sessionFrom F t (pasteStartSeq ++ r) = sessionFrom F' { t with pasteActive := true } r := by
  have hb := bytesToKey_pasteStart r
  have hl := bytesToKey_shorter hb
  rw [sess_keyLoop F ((pasteStartSeq ++ r).length + 1) t false _ hF (Nat.lt_succ_self _)]
  unfold keyLoop
  rw [hpa, hb]
  have e1 : (keyPasteStart == keyCtrlD) = false := by decide
  have e2 : (keyPasteStart == keyCtrlC) = false := by decide
  simp only [Bool.not_false, if_true, e1, e2, Bool.false_and, Bool.false_eq_true, if_false, beq_self_eq_true]
  exact contin_keyLoop_back F' _ _ _ r hF' hl

/-- `ESC[201~` in paste mode switches paste mode off -/
theorem sess_pasteEnd (F F' : Nat) (t : Term) (r : List Nat) (hpa : t.pasteActive = true)
    (hF : (pasteEndSeq ++ r).length < F) (hF' : r.length < F') :
    sessionFrom F t (pasteEndSeq ++ r) = sessionFrom F' { t with pasteActive := false } r := by
  have hb := bytesToKey_pasteEnd r
  have hl := bytesToKey_shorter hb
  rw [sess_keyLoop F ((pasteEndSeq ++ r).length + 1) t false _ hF (Nat.lt_succ_self _)]
  unfold keyLoop
  rw [hpa, hb]
  simp only [Bool.not_true, Bool.false_eq_true, if_false, beq_self_eq_true, if_true]
  exact contin_keyLoop_back F' _ _ _ r hF' hl

/-! ## a pasted text -/

theorem run_cons_subs (t : Term) (k : Nat) (ks : List Nat) :
    run t (k :: ks) = subs (step t k).2 ++ run (step t k).1 ks := by
  cases h : step t k with
  | mk t' o =>
    cases o with
    | none => rw [run_cons_none _ h]; rfl
    | some s => rw [run_cons_some _ h]; rfl

theorem typedKey_ne_pasteEnd {k : Nat} (h : TypedKey k) : k ≠ keyPasteEnd := by
  have : k = 13 ∨ 32 ≤ k ∧ ¬ (0xd800 ≤ k ∧ k ≤ 0xdbff) := by
    rcases h.1 with h | ⟨h, _⟩
    · exact Or.inl h
    · simp only [isPrintable, Bool.and_eq_true, decide_eq_true_eq, Bool.not_eq_true',
        Bool.and_eq_false_iff, decide_eq_false_iff_not, bne_iff_ne] at h
      exact Or.inr (by omega)
  simp only [keyPasteEnd]
  omega

theorem final_setPaste (b : Bool) : ∀ (keys : List Nat) (t : Term),
    (∀ k ∈ keys, k = 13 ∨ (isPrintable k = true ∧ k ≠ 13)) → final (setPaste b t) keys = setPaste b (final t keys)
  | [], _, _ => rfl
  | k :: ks, t, hv => by
    rw [final_cons, final_cons, step_setPaste b t (hv k List.mem_cons_self)]
    exact final_setPaste b ks _ (fun x hx => hv x (List.mem_cons_of_mem _ hx))

/-- the text of a paste, read in paste mode up to and with `ESC[201~`: the submissions of the keys, then the
rest is read outside paste mode -/
theorem sess_pasted_text : ∀ (keys : List Nat) (F F' : Nat) (t : Term) (rest : List Nat),
    t.pasteActive = true → (∀ k ∈ keys, TypedKey k) →
    (encodeKeys keys ++ (pasteEndSeq ++ rest)).length < F → rest.length < F' →
    sessionFrom F t (encodeKeys keys ++ (pasteEndSeq ++ rest)) =
      run t keys ++ sessionFrom F' { final t keys with pasteActive := false } rest
  | [], F, F', t, rest, hpa, _, hF, hF' => by
    simp only [encodeKeys, List.flatMap_nil, List.nil_append, run, final, List.foldl_nil] at hF ⊢
    exact sess_pasteEnd F F' t rest hpa hF hF'
  | k :: ks, F, F', t, rest, hpa, hv, hF, hF' => by
    have hk := hv k List.mem_cons_self
    have hk' : k = 13 ∨ isPrintable k = true := hk.1.elim Or.inl (fun h => Or.inr h.1)
    have henc : encodeKeys (k :: ks) ++ (pasteEndSeq ++ rest) =
        encodeRune k ++ (encodeKeys ks ++ (pasteEndSeq ++ rest)) := by
      simp [encodeKeys]
    rw [henc] at hF ⊢
    have hb := bytesToKey_encode hk' hk.2 (encodeKeys ks ++ (pasteEndSeq ++ rest)) true
    have hl := bytesToKey_shorter hb
    rw [sess_key_paste F F t _ _ k hpa hb (typedKey_ne_pasteEnd hk) hF (by omega), run_cons_subs, final_cons,
      List.append_assoc]
    exact congrArg _ (sess_pasted_text ks F F' (step t k).1 rest (by rw [step_paste_same]; exact hpa)
      (fun x hx => hv x (List.mem_cons_of_mem _ hx)) (by omega) hF')

/-- **A paste at the byte level**: outside paste mode, `ESC[200~`, the UTF-8 text of printable keys and Enters,
`ESC[201~`: the submissions are those of the text typed, and what follows is read (outside paste mode) from
the state the typed text leaves -/
theorem sess_paste (keys : List Nat) (F F' : Nat) (t : Term) (rest : List Nat)
    (hpa : t.pasteActive = false) (hv : ∀ k ∈ keys, TypedKey k)
    (hF : (pasteStartSeq ++ (encodeKeys keys ++ (pasteEndSeq ++ rest))).length < F) (hF' : rest.length < F') :
    sessionFrom F t (pasteStartSeq ++ (encodeKeys keys ++ (pasteEndSeq ++ rest))) =
      run t keys ++ sessionFrom F' (final t keys) rest := by
  have hv' : ∀ k ∈ keys, k = 13 ∨ (isPrintable k = true ∧ k ≠ 13) := fun k hk => (hv k hk).1
  have hlen : (pasteStartSeq ++ (encodeKeys keys ++ (pasteEndSeq ++ rest))).length =
      6 + (encodeKeys keys ++ (pasteEndSeq ++ rest)).length := by
    rw [List.length_append]; rfl
  rw [sess_pasteStart F F t _ hpa hF (by omega)]
  have h := sess_pasted_text keys F F' (setPaste true t) rest rfl hv (by omega) hF'
  have e : ({ final (setPaste true t) keys with pasteActive := false } : Term) = final t keys := by
    rw [final_setPaste true keys t hv']
    have hp := final_valid_paste keys t hv'
    rw [hpa] at hp
    generalize final t keys = x at hp
    cases x
    simp only at hp
    subst hp
    rfl
  rw [e, run_setPaste true keys t hv'] at h
  exact h

/-- typed text followed by ANY bytes: the submissions of the keys, then the rest is read from the state the
keys leave -/
theorem sess_typed : ∀ (keys : List Nat) (F F' : Nat) (t : Term) (rest : List Nat),
    t.pasteActive = false → (∀ k ∈ keys, TypedKey k) →
    (encodeKeys keys ++ rest).length < F → rest.length < F' →
    sessionFrom F t (encodeKeys keys ++ rest) = run t keys ++ sessionFrom F' (final t keys) rest
  | [], F, F', t, rest, _, _, hF, hF' => by
    simp only [encodeKeys, List.flatMap_nil, List.nil_append, run, final, List.foldl_nil] at hF ⊢
    exact sessionFrom_fuel F F' t rest hF hF'
  | k :: ks, F, F', t, rest, hpa, hv, hF, hF' => by
    have hk := hv k List.mem_cons_self
    have hk' : k = 13 ∨ isPrintable k = true := hk.1.elim Or.inl (fun h => Or.inr h.1)
    obtain ⟨h1, h2, h3⟩ := typedKey_facts hk
    have henc : encodeKeys (k :: ks) ++ rest = encodeRune k ++ (encodeKeys ks ++ rest) := by
      simp [encodeKeys]
    rw [henc] at hF ⊢
    have hb := bytesToKey_encode hk' hk.2 (encodeKeys ks ++ rest) false
    have hl := bytesToKey_shorter hb
    have e1 : (k == keyCtrlD && t.line.isEmpty) = false := by
      have : (k == keyCtrlD) = false := by simpa using h1
      rw [this]; rfl
    rw [sess_key F F t _ _ k hpa hb e1 h2 h3 hF (by omega), run_cons_subs, final_cons, List.append_assoc]
    exact congrArg _ (sess_typed ks F F' (step t k).1 rest (by rw [step_paste_same]; exact hpa)
      (fun x hx => hv x (List.mem_cons_of_mem _ hx)) (by omega) hF')

theorem sessionFrom_nil (F : Nat) (t : Term) : sessionFrom F t [] = [] := by
  cases F with
  | zero => rfl
  | succ F => simp [sessionFrom, readLine, keyLoop, bytesToKey]

end Mkdb.Console
