import Mkdb.Proofs.Tree
/-!
Several trees in one file: new pages come only from the shared allocation frontier, so a step on
one tree leaves every other tree untouched and never makes two trees share a page.  Also the round
trip between the levels representation and the page heap (`ofHeap_flatten`).
-/
namespace Mkdb.Tree
open Mkdb.Page Mkdb.Generated

/-! ### where the pages of the new tree come from -/

theorem insertAppend_offs_new (t t' : Levels) (k lsn nf nf' : Nat) (v : Bytes)
    (h : insertAppend t k lsn v nf = .ok (t', nf')) :
    ∀ o ∈ offs t', o ∈ offs t ∨ (nf ≤ o ∧ o < nf') := by
  have hps : 0 < c_pageSize := by decide
  obtain ⟨pre, last, d, hpre, _, _, hcase⟩ := insertAppend_inv_cases h
  intro o ho
  rw [offs_eq] at ho ⊢
  rcases hcase with ⟨_, rfl, rfl⟩ | ⟨_, rfl, rfl⟩
  · have : (pre ++ [(leafApp last k lsn v, true)]).map (·.1.off) = t.leaves.map (·.1.off) := by
      simp [hpre, leafApp]
    simp only [this] at ho
    exact .inl ho
  · obtain ⟨b1, b2, _⟩ := bubble_offs hps lsn t.inner
      (((leafR (leafApp last k lsn v) lsn nf).cells.head?.map (·.key)).getD 0)
      last.off nf (nf + c_pageSize)
    have hl : (pre ++ [(leafL (leafApp last k lsn v) nf, true),
          (leafR (leafApp last k lsn v) lsn nf, true)]).map (·.1.off) =
        t.leaves.map (·.1.off) ++ [nf] := by
      simp [hpre, leafApp, leafL, leafR]
    simp only [hl] at ho
    rcases List.mem_append.mp ho with ho | ho
    · rcases List.mem_append.mp ho with ho | ho
      · exact .inl (List.mem_append_left _ ho)
      · simp only [List.mem_singleton] at ho
        exact .inr ⟨by omega, by omega⟩
    · rcases b2 o ho with hm | hm
      · exact .inl (List.mem_append_right _ hm)
      · exact .inr ⟨by omega, hm.2⟩

theorem Inv_mono (t : Levels) (nf nf' : Nat) (h : Inv t nf) (hle : nf ≤ nf') : Inv t nf' :=
  { h with offs := ⟨h.offs.1, fun o ho => Nat.lt_of_lt_of_le (h.offs.2 o ho) hle⟩ }

theorem offs_updLeaves (f : LeafCell → LeafCell) (key lsn : Nat) (t : Levels) :
    offs (updLeaves f key lsn t) = offs t := by
  have hoffs : (updLeaves f key lsn t).leaves.map (·.1.off) = t.leaves.map (·.1.off) := by
    simp [updLeaves, updLeaf_off]
  rw [offs_eq, hoffs, offs_eq]
  rfl

theorem offs_setVal (t : Levels) (key lsn : Nat) (v : Bytes) : offs (setVal t key lsn v) = offs t := by
  rw [setVal_eq]; exact offs_updLeaves _ key lsn t

theorem offs_setDeleted (t : Levels) (key lsn : Nat) : offs (setDeleted t key lsn) = offs t := by
  rw [setDeleted_eq]; exact offs_updLeaves _ key lsn t

/-! ### a forest of trees over one allocation frontier -/

structure Forest where
  trees : List Levels
  nextFree : Nat

inductive FOp where
  | ins (i key lsn : Nat) (v : Bytes)     -- insert into tree i
  | upd (i key lsn : Nat) (v : Bytes)
  | del (i key lsn : Nat)

/-- the tree an operation works on -/
def target : FOp → Nat
  | .ins i _ _ _ => i
  | .upd i _ _ _ => i
  | .del i _ _ => i

def Forest.step (f : Forest) : FOp → Forest
  | .ins i key lsn v => match f.trees[i]? with
      | none => f
      | some t => match insertAppend t key lsn v f.nextFree with
        | .ok (t', nf') => { trees := f.trees.set i t', nextFree := nf' }
        | .error _ => f            -- a refused insert changes nothing
  | .upd i key lsn v => match f.trees[i]? with
      | none => f
      | some t => { f with trees := f.trees.set i (setVal t key lsn v) }
  | .del i key lsn => match f.trees[i]? with
      | none => f
      | some t => { f with trees := f.trees.set i (setDeleted t key lsn) }

def Forest.run (f : Forest) (ops : List FOp) : Forest := ops.foldl Forest.step f

/-- every tree is well formed below the shared frontier, and no page belongs to two trees -/
def Forest.Inv (f : Forest) : Prop :=
  (∀ t ∈ f.trees, Mkdb.Tree.Inv t f.nextFree) ∧
  (f.trees.map offs).Pairwise (fun a b => ∀ o ∈ a, o ∉ b)

/-- replacing one element of a pairwise-`R` list (R symmetric) by something `R`-related to all others -/
theorem pairwise_set {α} (R : α → α → Prop) (hsym : ∀ a b, R a b → R b a) (l : List α) (i : Nat) (x : α)
    (hp : l.Pairwise R) (hx : ∀ j (hj : j < l.length), j ≠ i → R x l[j]) : (l.set i x).Pairwise R := by
  rw [List.pairwise_iff_getElem] at hp ⊢
  intro a b ha hb hab
  rw [List.length_set] at ha hb
  rw [List.getElem_set, List.getElem_set]
  by_cases h1 : i = a
  · have h2 : ¬ i = b := by omega
    rw [if_pos h1, if_neg h2]
    exact hx b hb (by omega)
  · rw [if_neg h1]
    by_cases h2 : i = b
    · rw [if_pos h2]
      exact hsym _ _ (hx a ha (by omega))
    · rw [if_neg h2]
      exact hp a b ha hb hab

theorem rel_of_pairwise_ne {α} (R : α → α → Prop) (hsym : ∀ a b, R a b → R b a) (l : List α)
    (hp : l.Pairwise R) (a b : Nat) (ha : a < l.length) (hb : b < l.length) (hab : a ≠ b) : R l[a] l[b] := by
  rw [List.pairwise_iff_getElem] at hp
  rcases Nat.lt_or_gt_of_ne hab with h | h
  · exact hp a b ha hb h
  · exact hsym _ _ (hp b a hb ha h)

theorem disj_symm (a b : List Nat) (h : ∀ o ∈ a, o ∉ b) : ∀ o ∈ b, o ∉ a :=
  fun o hb ha => h o ha hb

/-- the common part of the three cases: tree `i` is replaced by a well-formed tree whose pages are
old pages of tree `i` or lie at/after the old frontier -/
theorem Forest.set_inv (f : Forest) (i : Nat) (t t' : Levels) (nf' : Nat) (hf : f.Inv)
    (ht : f.trees[i]? = some t) (hle : f.nextFree ≤ nf') (hinv : Mkdb.Tree.Inv t' nf')
    (hnew : ∀ o ∈ offs t', o ∈ offs t ∨ f.nextFree ≤ o) :
    Forest.Inv { trees := f.trees.set i t', nextFree := nf' } := by
  obtain ⟨hall, hdis⟩ := hf
  obtain ⟨hi, hti⟩ := List.getElem?_eq_some_iff.mp ht
  refine ⟨?_, ?_⟩
  · intro s hs
    rcases List.mem_or_eq_of_mem_set hs with hs | rfl
    · exact Inv_mono s _ _ (hall s hs) hle
    · exact hinv
  · show ((f.trees.set i t').map offs).Pairwise _
    rw [List.map_set]
    apply pairwise_set _ disj_symm _ _ _ hdis
    intro j hj hji o ho
    rw [List.length_map] at hj
    rw [List.getElem_map]
    rcases hnew o ho with hold | hge
    · have := rel_of_pairwise_ne _ disj_symm _ hdis i j (by simpa using hi) (by simpa using hj)
        (by omega)
      simp only [List.getElem_map, hti] at this
      exact this o hold
    · intro hmem
      have := (hall f.trees[j] (List.getElem_mem hj)).offs.2 o hmem
      omega

theorem Forest.step_inv (f : Forest) (op : FOp) (hf : f.Inv) : (f.step op).Inv := by
  cases op with
  | ins i key lsn v =>
    simp only [Forest.step]
    split
    · exact hf
    · rename_i t ht
      split
      · rename_i t' nf' hins
        have htm : t ∈ f.trees := List.mem_of_getElem? ht
        exact Forest.set_inv f i t t' nf' hf ht
          (insertAppend_nextFree t t' key lsn _ nf' v hins)
          (insertAppend_inv t t' key lsn _ nf' v (hf.1 t htm) hins)
          (fun o ho => (insertAppend_offs_new t t' key lsn _ nf' v hins o ho).imp id And.left)
      · exact hf
  | upd i key lsn v =>
    simp only [Forest.step]
    split
    · exact hf
    · rename_i t ht
      have htm : t ∈ f.trees := List.mem_of_getElem? ht
      exact Forest.set_inv f i t _ f.nextFree hf ht (Nat.le_refl _)
        (setVal_inv t key lsn _ v (hf.1 t htm))
        (fun o ho => .inl (by rwa [offs_setVal] at ho))
  | del i key lsn =>
    simp only [Forest.step]
    split
    · exact hf
    · rename_i t ht
      have htm : t ∈ f.trees := List.mem_of_getElem? ht
      exact Forest.set_inv f i t _ f.nextFree hf ht (Nat.le_refl _)
        (setDeleted_inv t key lsn _ (hf.1 t htm))
        (fun o ho => .inl (by rwa [offs_setDeleted] at ho))

theorem Forest.run_inv (f : Forest) (ops : List FOp) (hf : f.Inv) : (f.run ops).Inv := by
  induction ops generalizing f with
  | nil => exact hf
  | cons op ops ih => exact ih (f.step op) (Forest.step_inv f op hf)

/-- frame: a step changes no tree but its target -/
theorem Forest.step_other (f : Forest) (op : FOp) :
    ∀ j, j ≠ target op → (f.step op).trees[j]? = f.trees[j]? := by
  intro j hj
  cases op with
  | ins i key lsn v =>
    simp only [target] at hj
    simp only [Forest.step]
    split
    · rfl
    · split
      · exact List.getElem?_set_ne (by omega)
      · rfl
  | upd i key lsn v =>
    simp only [target] at hj
    simp only [Forest.step]
    split
    · rfl
    · exact List.getElem?_set_ne (by omega)
  | del i key lsn =>
    simp only [target] at hj
    simp only [Forest.step]
    split
    · rfl
    · exact List.getElem?_set_ne (by omega)

theorem Forest.step_trees_length (f : Forest) (op : FOp) : (f.step op).trees.length = f.trees.length := by
  cases op <;> simp only [Forest.step] <;> repeat (first | rfl | simp only [List.length_set] | split)

theorem Forest.run_trees_length (f : Forest) (ops : List FOp) : (f.run ops).trees.length = f.trees.length := by
  induction ops generalizing f with
  | nil => rfl
  | cons op ops ih => exact (ih (f.step op)).trans (Forest.step_trees_length f op)

/-- the frontier never moves backwards -/
theorem Forest.step_nextFree (f : Forest) (op : FOp) : f.nextFree ≤ (f.step op).nextFree := by
  cases op with
  | ins i key lsn v =>
    simp only [Forest.step]
    split
    · exact Nat.le_refl _
    · split
      · rename_i hins
        exact insertAppend_nextFree _ _ _ _ _ _ _ hins
      · exact Nat.le_refl _
  | upd i key lsn v => simp only [Forest.step]; split <;> exact Nat.le_refl _
  | del i key lsn => simp only [Forest.step]; split <;> exact Nat.le_refl _

/-- what a scan of the target tree sees after a step -/
def cellsAfter (nf : Nat) (t : Levels) : FOp → List LeafCell
  | .ins _ key lsn v =>
    match insertAppend t key lsn v nf with
    | .ok _ => cells t ++ [⟨key, false, v⟩]
    | .error _ => cells t
  | .upd _ key _ v => (cells t).map (fun c => if c.key == key then { c with val := v } else c)
  | .del _ key _ => (cells t).map (fun c => if c.key == key then { c with deleted := true } else c)

theorem Forest.step_cells (f : Forest) (op : FOp) (t : Levels) (ht : f.trees[target op]? = some t) :
    ∃ t', (f.step op).trees[target op]? = some t' ∧ cells t' = cellsAfter f.nextFree t op := by
  obtain ⟨hi, _⟩ := List.getElem?_eq_some_iff.mp ht
  cases op with
  | ins i key lsn v =>
    simp only [target] at ht hi ⊢
    simp only [Forest.step, ht, cellsAfter]
    cases hins : insertAppend t key lsn v f.nextFree with
    | error e => exact ⟨t, ht, rfl⟩
    | ok r =>
      obtain ⟨t', nf'⟩ := r
      exact ⟨t', List.getElem?_set_self hi, cells_insertAppend t t' key lsn _ nf' v hins⟩
  | upd i key lsn v =>
    simp only [target] at ht hi ⊢
    simp only [Forest.step, ht, cellsAfter]
    exact ⟨_, List.getElem?_set_self hi, cells_setVal t key lsn v⟩
  | del i key lsn =>
    simp only [target] at ht hi ⊢
    simp only [Forest.step, ht, cellsAfter]
    exact ⟨_, List.getElem?_set_self hi, cells_setDeleted t key lsn⟩

/-- "no row leaks into another table": the cells of every non-target tree are unchanged -/
theorem Forest.step_cells_other (f : Forest) (op : FOp) (j : Nat) (hj : j ≠ target op) :
    (f.step op).trees[j]?.map cells = f.trees[j]?.map cells := by
  rw [Forest.step_other f op j hj]

/-! ### the levels representation and the page heap -/

/-- the page heap of a tree as a lookup function -/
def heapOf (t : Levels) : Nat → Option (Node × Bool) :=
  fun off => ((flatten t).find? (·.1 == off)).map (·.2)

theorem heapOf_mem (t : Levels) (hnd : (offs t).Nodup) (e : Nat × Node × Bool) (he : e ∈ flatten t) :
    heapOf t e.1 = some e.2 := by
  obtain ⟨a, ha, rfl⟩ := List.mem_iff_getElem.mp he
  unfold heapOf
  have := Lookup.find_by_key (fun e : Nat × Node × Bool => e.1) (flatten t) hnd a ha
  rw [this]
  rfl

theorem heapOf_leaf (t : Levels) (hnd : (offs t).Nodup) (p : Leaf × Bool) (hp : p ∈ t.leaves) :
    heapOf t p.1.off = some (Node.leaf p.1, p.2) :=
  heapOf_mem t hnd (p.1.off, Node.leaf p.1, p.2)
    (List.mem_append_left _ (List.mem_map.mpr ⟨p, hp, rfl⟩))

theorem heapOf_internal (t : Levels) (hnd : (offs t).Nodup) (lvl : List (Internal × Bool))
    (hl : lvl ∈ t.inner) (p : Internal × Bool) (hp : p ∈ lvl) :
    heapOf t p.1.off = some (Node.internal p.1, p.2) :=
  heapOf_mem t hnd (p.1.off, Node.internal p.1, p.2)
    (List.mem_append_right _ (List.mem_flatMap.mpr ⟨lvl, hl, List.mem_map.mpr ⟨p, hp, rfl⟩⟩))

theorem mapM_some {α β γ : Type} (get : β → Option γ) (g : α → β) (h : α → γ) (xs : List α)
    (H : ∀ x ∈ xs, get (g x) = some (h x)) : (xs.map g).mapM get = some (xs.map h) := by
  induction xs with
  | nil => rfl
  | cons x xs ih =>
    rw [List.map_cons, List.mapM_cons, H x (by simp), ih (fun y hy => H y (by simp [hy]))]
    rfl

/-- the offsets of the topmost row of a stack of levels over a bottom row -/
def topRow : List Nat → List (List (Internal × Bool)) → List Nat
  | below, [] => below
  | _, lvl :: rest => topRow (lvl.map (·.1.off)) rest

theorem topRow_snoc (lo : List (List (Internal × Bool))) (lvl : List (Internal × Bool)) :
    ∀ below, topRow below (lo ++ [lvl]) = lvl.map (·.1.off) := by
  induction lo with
  | nil => intro below; rfl
  | cons l lo ih => intro below; exact ih _

theorem linked_mid (lo : List (List (Internal × Bool))) (lvl : List (Internal × Bool)) (hi) :
    ∀ below, linked below (lo ++ lvl :: hi) → childOffs lvl = topRow below lo := by
  induction lo with
  | nil => intro below h; exact h.1
  | cons l lo ih => intro below h; exact ih _ h.2

theorem linked_topRow_len (lvls : List (List (Internal × Bool))) :
    ∀ below, linked below lvls → (topRow below lvls).length = 1 := by
  induction lvls with
  | nil => intro below h; exact h
  | cons l lvls ih => intro below h; exact ih _ h.2

theorem rootOf_topRow (lvls : List (List (Internal × Bool))) :
    ∀ below, Lookup.rootOf below lvls = (topRow below lvls).head?.getD 0 := by
  induction lvls with
  | nil => intro below; rfl
  | cons l lvls ih => intro below; exact ih _

theorem linked_below_ne (lvls : List (List (Internal × Bool))) :
    ∀ below, linked below lvls → below ≠ [] := by
  induction lvls with
  | nil =>
    intro below h hb
    subst hb
    simp [linked] at h
  | cons l lvls ih =>
    intro below h hb
    have := ih _ h.2
    cases l with
    | nil => exact this rfl
    | cons p ps =>
      have hc := h.1
      rw [childOffs_cons, hb] at hc
      simp at hc

theorem linked_levels_ne (lvls : List (List (Internal × Bool))) :
    ∀ below, linked below lvls → ∀ lvl ∈ lvls, lvl ≠ [] := by
  induction lvls with
  | nil => intro below _ lvl hl; cases hl
  | cons l lvls ih =>
    intro below h lvl hl
    rcases List.mem_cons.mp hl with rfl | hl
    · intro h0
      exact linked_below_ne lvls _ h.2 (by rw [h0]; rfl)
    · exact ih _ h.2 lvl hl

theorem singleton_head (l : List Nat) (h : l.length = 1) : [l.head?.getD 0] = l := by
  match l, h with
  | [x], _ => rfl

theorem go_flatten (t : Levels) (hnd : (offs t).Nodup) (hlink : LinkOK t) :
    ∀ (rlo : List (List (Internal × Bool))) (hi : List (List (Internal × Bool))) (extra : Nat),
      t.inner = rlo.reverse ++ hi →
      ofHeap.go (heapOf t) (rlo.length + 1 + extra) (topRow (t.leaves.map (·.1.off)) rlo.reverse) hi
        = some t := by
  intro rlo
  induction rlo with
  | nil =>
    intro hi extra hin
    have hf : ([] : List (List (Internal × Bool))).length + 1 + extra = extra.succ := by
      simp only [List.length_nil]; omega
    rw [hf, ofHeap.go.eq_2]
    simp only [List.reverse_nil, topRow]
    rw [mapM_some (heapOf t) (fun p : Leaf × Bool => p.1.off) (fun p => (Node.leaf p.1, p.2)) t.leaves
      (fun p hp => heapOf_leaf t hnd p hp)]
    simp only [List.reverse_nil, List.nil_append] at hin
    cases t with
    | mk leaves inner =>
      simp only at hin
      subst hin
      simp [List.filterMap_map, Function.comp_def]
  | cons lvl rest ih =>
    intro hi extra hin
    have hf : (lvl :: rest).length + 1 + extra = (rest.length + 1 + extra).succ := by
      simp only [List.length_cons]; omega
    rw [List.reverse_cons, List.append_assoc, List.singleton_append] at hin
    have hmem : lvl ∈ t.inner := by rw [hin]; simp
    have hne : lvl ≠ [] := linked_levels_ne _ _ hlink lvl hmem
    have hchild : childOffs lvl = topRow (t.leaves.map (·.1.off)) rest.reverse := by
      apply linked_mid rest.reverse lvl hi
      rw [← hin]; exact hlink
    rw [hf, ofHeap.go.eq_2, List.reverse_cons, topRow_snoc]
    rw [mapM_some (heapOf t) (fun p : Internal × Bool => p.1.off) (fun p => (Node.internal p.1, p.2)) lvl
      (fun p hp => heapOf_internal t hnd lvl hmem p hp)]
    dsimp only
    rw [if_neg (by cases lvl with
          | nil => exact absurd rfl hne
          | cons p ps => simp), if_pos (by simp)]
    have := ih (lvl :: hi) extra hin
    rw [← hchild] at this
    have h3 : ∀ g : Node × Bool → Option (Internal × Bool),
        (∀ p : Internal × Bool, g (Node.internal p.1, p.2) = some p) →
        (lvl.map (fun p : Internal × Bool => (Node.internal p.1, p.2))).filterMap g = lvl := by
      intro g hg
      rw [List.filterMap_map]
      have : (g ∘ fun p : Internal × Bool => (Node.internal p.1, p.2)) = some := funext hg
      rw [this, List.filterMap_some]
    rw [h3 _ (fun p => rfl)]
    exact this

theorem ofHeap_flatten (t : Levels) (nf : Nat) (h : Inv t nf) :
    ofHeap (heapOf t) (t.inner.length + 2) (rootOff t) = some t := by
  have hlink : linked (t.leaves.map (·.1.off)) t.inner := h.link
  have hroot : [rootOff t] = topRow (t.leaves.map (·.1.off)) t.inner := by
    rw [Lookup.rootOff_eq, rootOf_topRow]
    exact singleton_head _ (linked_topRow_len _ _ hlink)
  show ofHeap (heapOf t) (t.inner.length + 1).succ (rootOff t) = some t
  rw [ofHeap.eq_2, hroot]
  have := go_flatten t h.offs.1 h.link t.inner.reverse [] 0 (by simp)
  simpa using this

/-- more fuel does no harm -/
theorem ofHeap_flatten_fuel (t : Levels) (nf : Nat) (h : Inv t nf) (extra : Nat) :
    ofHeap (heapOf t) (t.inner.length + 2 + extra) (rootOff t) = some t := by
  have hlink : linked (t.leaves.map (·.1.off)) t.inner := h.link
  have hroot : [rootOff t] = topRow (t.leaves.map (·.1.off)) t.inner := by
    rw [Lookup.rootOff_eq, rootOf_topRow]
    exact singleton_head _ (linked_topRow_len _ _ hlink)
  have hf : t.inner.length + 2 + extra = (t.inner.length + 1 + extra).succ := by omega
  rw [hf, ofHeap.eq_2, hroot]
  have := go_flatten t h.offs.1 h.link t.inner.reverse [] extra (by simp)
  simpa using this

/-! ### sanity checks by evaluation -/

example : ofHeap (heapOf sampleTree) 3 (rootOff sampleTree) = some sampleTree := by decide

/-- two tables in one file: 12 inserts into table 0 (forcing a split) interleaved with work on
table 1 leave table 1 with exactly its own rows -/
example :
    let f0 : Forest := { trees := [emptyTree 4096, emptyTree 8192], nextFree := 12288 }
    let ops := (List.range' 1 12).flatMap fun k => [FOp.ins 0 k 0 [], FOp.ins 1 (100 + k) 0 [], FOp.del 1 (100 + k) 0]
    ((f0.run ops).trees.map fun t => (live t).map (·.key)) = [List.range' 1 12, []] := by decide

end Mkdb.Tree
