import Mkdb.Proofs.ConsoleHist1
import Mkdb.Proofs.ConsoleEditBytes
/-!
Console model, the history: every statement the splitter returns is well formed (and splits into itself
again), what `addHistory` stores, what the key Up does, and: Up k times, Enter hands over the k-th most
recent statement again.
-/
namespace Mkdb.Console

/-! ## every statement the splitter returns is well formed -/

theorem qstep_end_top {q : Q} {r : Nat} (h : (qstep q r).2 = true) : q = .top := by
  cases q with
  | top => rfl
  | esc q0 => simp [qstep] at h
  | inq q0 =>
    simp only [qstep] at h
    split at h
    · simp at h
    · split at h <;> simp at h

theorem qrun_append (q : Q) (a b : List Nat) : qrun q (a ++ b) = qrun (qrun q a) b := by
  unfold qrun; rw [List.foldl_append]

theorem noEnd_append_hist : ∀ (a : List Nat) (q : Q) (b : List Nat),
    noEnd q (a ++ b) = (noEnd q a && noEnd (qrun q a) b)
  | [], q, b => by simp [noEnd, qrun]
  | r :: a, q, b => by
    simp only [List.cons_append, noEnd, qrun_cons, noEnd_append_hist a, Bool.and_assoc]

/-- the blanks before a statement body are dropped, the rest is a well-formed statement -/
theorem trimLeft_stmt : ∀ body : List Nat, noEnd .top body = true → qrun .top body = .top →
    WFStmt (trimLeft (body ++ [59]))
  | [], _, _ => ⟨[], rfl, rfl, rfl, by
      intro c hc
      have : c = 59 := by simpa [trimLeft, isSpace] using hc.symm
      subst this; decide⟩
  | c :: b, h1, h2 => by
    by_cases hc : isSpace c = true
    · have hq := qstep_top_space hc
      simp only [noEnd, hq, Bool.not_false, Bool.true_and] at h1
      rw [qrun_cons, hq] at h2
      simp only [List.cons_append, trimLeft, hc, if_true]
      exact trimLeft_stmt b h1 h2
    · have hc' : isSpace c = false := by simpa using hc
      have e : trimLeft (c :: b ++ [59]) = c :: b ++ [59] := by
        simp [trimLeft, hc']
      rw [e]
      refine ⟨c :: b, rfl, h1, h2, ?_⟩
      intro x hx
      simp only [List.cons_append, List.head?_cons, Option.some.injEq] at hx
      subst hx; exact hc'

theorem trim_stmt {body : List Nat} (h1 : noEnd .top body = true) (h2 : qrun .top body = .top) :
    WFStmt (trim (body ++ [59])) := by
  have hs := trimLeft_stmt body h1 h2
  have e : trim (body ++ [59]) = trimLeft (body ++ [59]) := by
    have h := trim_blank_stmt Blank.nil hs
    rw [List.nil_append] at h
    obtain ⟨_, _, _, _, hhead⟩ := hs
    unfold trim at h ⊢
    rw [trimLeft_of_head hhead] at h
    exact h
  rw [e]; exact hs

/-- invariant of the scan: the current piece was scanned from top level with no statement end, and
all statements found are well formed -/
def SplitOK (s : S) : Prop :=
  noEnd .top s.piece.reverse = true ∧ qrun .top s.piece.reverse = s.q ∧ ∀ d ∈ s.done, WFStmt d

theorem splitOK_feed (s : S) (r : Nat) (h : SplitOK s) : SplitOK (feed s r) := by
  obtain ⟨h1, h2, h3⟩ := h
  rw [feed_eq]
  cases he : (qstep s.q r).2 with
  | true =>
    have hq := qstep_end_top he
    obtain ⟨hq', hr⟩ := qstep_end he
    subst hr
    refine ⟨rfl, by rw [hq']; rfl, ?_⟩
    intro d hd
    rcases List.mem_cons.mp hd with e | hd
    · rw [e, List.reverse_cons]
      exact trim_stmt h1 (by rw [h2, hq])
    · exact h3 d hd
  | false =>
    refine ⟨?_, ?_, h3⟩
    · show noEnd .top (r :: s.piece).reverse = true
      rw [List.reverse_cons, noEnd_append_hist, h1, h2]
      simp [noEnd, he]
    · show qrun .top (r :: s.piece).reverse = (qstep s.q r).1
      rw [List.reverse_cons, qrun_append, h2]
      rfl

/-- every statement `splitStatements` returns is well formed: it ends with its only top-level ';',
its quotes are balanced, it does not begin with a blank -/
theorem split_outputs_wf (l : List Nat) : ∀ s ∈ (splitStatements l).1, WFStmt s := by
  have h := foldl_feed_inv SplitOK splitOK_feed l {} ⟨rfl, rfl, fun d hd => by cases hd⟩
  intro s hs
  exact h.2.2 s (List.mem_reverse.mp hs)

theorem mem_trimLeft {c : Nat} : ∀ {l : List Nat}, c ∈ trimLeft l → c ∈ l
  | [], h => h
  | x :: l, h => by
    simp only [trimLeft] at h
    split at h
    · exact List.mem_cons_of_mem _ (mem_trimLeft h)
    · exact h

theorem mem_trim {c : Nat} {l : List Nat} (h : c ∈ trim l) : c ∈ l := by
  unfold trim at h
  exact mem_trimLeft (List.mem_reverse.mp (mem_trimLeft (List.mem_reverse.mp h)))

/-- what holds of every rune scanned holds of every rune of the pieces and statements -/
theorem foldl_feed_all (Pc : Nat → Prop) : ∀ (l : List Nat) (s : S),
    (∀ c ∈ s.piece, Pc c) → (∀ d ∈ s.done, ∀ c ∈ d, Pc c) → (∀ r ∈ l, Pc r) →
    (∀ c ∈ (l.foldl feed s).piece, Pc c) ∧ ∀ d ∈ (l.foldl feed s).done, ∀ c ∈ d, Pc c
  | [], _, hp, hd, _ => ⟨hp, hd⟩
  | r :: l, s, hp, hd, hl => by
    have hr := hl r List.mem_cons_self
    have hpr : ∀ c ∈ r :: s.piece, Pc c := by
      intro c hc
      rcases List.mem_cons.mp hc with e | hc
      · rw [e]; exact hr
      · exact hp c hc
    rw [List.foldl_cons]
    apply foldl_feed_all Pc l (feed s r) _ _ (fun x hx => hl x (List.mem_cons_of_mem _ hx))
    · rw [feed_eq]
      split
      · intro c hc; cases hc
      · exact hpr
    · rw [feed_eq]
      split
      · intro d hd' c hc
        rcases List.mem_cons.mp hd' with e | hd'
        · rw [e] at hc
          exact hpr c (List.mem_reverse.mp (mem_trim hc))
        · exact hd d hd' c hc
      · exact hd

theorem split_outputs_all (Pc : Nat → Prop) (l : List Nat) (hl : ∀ r ∈ l, Pc r) :
    ∀ s ∈ (splitStatements l).1, ∀ c ∈ s, Pc c := by
  have h := foldl_feed_all Pc l {} (fun c hc => by cases hc) (fun d hd => by cases hd) hl
  intro s hs
  exact h.2 s (List.mem_reverse.mp hs)

/-- a well-formed statement alone in the buffer splits into itself, nothing left -/
theorem split_single {e : List Nat} (h : WFStmt e) : splitStatements e = ([e], []) := by
  have := split_wf [] [(e, [])] Blank.nil (by
    intro p hp
    simp only [List.mem_singleton] at hp
    subst hp
    exact ⟨h, Blank.nil⟩)
  simpa using this

/-- Enter on a buffer that holds one well-formed statement hands over exactly that statement -/
theorem step_enter_single (t : Term) (h : WFStmt t.line) :
    step t 13 = (addHistory { t with line := [], pos := 0 } [t.line], some [t.line]) := by
  have hs := split_single h
  unfold splitStatements at hs
  simp only [Prod.mk.injEq] at hs
  rw [step_enter, hs.1, hs.2]
  rfl

/-! ## the history ring -/

theorem take_append_take (n : Nat) (x y : List (List Nat)) :
    (x ++ y.take n).take n = (x ++ y).take n := by
  rw [List.take_append, List.take_append, List.take_take]
  congr 2
  omega

theorem addHistory_history : ∀ (s : List (List Nat)) (t : Term), t.history.length ≤ 100 →
    (addHistory t s).history = ((s.reverse.map (·.map validRune)) ++ t.history).take 100
  | [], t, h => by
    simp only [addHistory, List.foldl_nil, List.reverse_nil, List.map_nil, List.nil_append]
    exact (List.take_of_length_le h).symm
  | a :: s, t, _ => by
    have ih := addHistory_history s
      { t with historyIndex := -1, history := (a.map validRune :: t.history).take 100 }
      (by simp only [List.length_take]; omega)
    unfold addHistory at ih ⊢
    rw [List.foldl_cons, ih, take_append_take]
    simp

theorem addHistory_index (s : List (List Nat)) (t : Term) (h : t.historyIndex = -1) :
    (addHistory t s).historyIndex = -1 := by
  unfold addHistory
  induction s generalizing t with
  | nil => exact h
  | cons a s ih => rw [List.foldl_cons]; exact ih _ rfl

theorem map_validRune_id {s : List Nat} (h : ∀ c ∈ s, validRune c = c) : s.map validRune = s := by
  induction s with
  | nil => rfl
  | cons a s ih =>
    rw [List.map_cons, h a List.mem_cons_self, ih (fun c hc => h c (List.mem_cons_of_mem _ hc))]

theorem map_map_validRune_id {ss : List (List Nat)} (h : ∀ s ∈ ss, ∀ c ∈ s, validRune c = c) :
    ss.map (·.map validRune) = ss := by
  induction ss with
  | nil => rfl
  | cons a ss ih =>
    rw [List.map_cons, map_validRune_id (h a List.mem_cons_self),
      ih (fun s hs => h s (List.mem_cons_of_mem _ hs))]

/-- the states reached by typing: outside paste mode, not in the history, only Unicode scalar values
in the line, at most 100 history entries -/
structure Good (t : Term) : Prop where
  paste : t.pasteActive = false
  idx : t.historyIndex = -1
  valid : ∀ c ∈ t.line, validRune c = c
  cap : t.history.length ≤ 100

theorem good_init : Good {} := ⟨rfl, rfl, (fun c hc => by cases hc), by simp⟩

theorem good_addKey {t : Term} (h : Good t) {k : Nat} (hk : validRune k = k) : Good (addKeyToLine t k) := by
  refine ⟨h.paste, h.idx, ?_, h.cap⟩
  intro c hc
  simp only [addKeyToLine, List.mem_append, List.mem_cons] at hc
  rcases hc with hc | hc | hc
  · exact h.valid c (List.mem_of_mem_take hc)
  · rw [hc]; exact hk
  · exact h.valid c (List.mem_of_mem_drop hc)

/-- one typed key in a good state -/
theorem good_step {t : Term} (h : Good t) {k : Nat} (hk : TypedKey k) :
    Good (step t k).1 ∧
    (step t k).1.history = (((step t k).2.getD []).reverse ++ t.history).take 100 ∧
    ∀ s ∈ (step t k).2.getD [], WFStmt s := by
  rcases hk.1 with e | ⟨hp, hne⟩
  · subst e
    rw [step_enter]
    split
    all_goals dsimp only [Option.getD_some, Option.getD_none]
    · have hwf := split_outputs_wf t.line
      have hval := split_outputs_all (fun c => validRune c = c) t.line h.valid
      have hs : (splitStatements t.line).1 = (t.line.foldl feed {}).done.reverse := rfl
      rw [hs] at hwf hval
      refine ⟨⟨?_, ?_, ?_, ?_⟩, ?_, hwf⟩
      · rw [addHistory_paste]; exact h.paste
      · exact addHistory_index _ _ h.idx
      · rw [addHistory_line]; intro c hc; cases hc
      · rw [addHistory_history _ { t with line := [], pos := 0 } h.cap]; simp only [List.length_take]; omega
      · rw [addHistory_history _ { t with line := [], pos := 0 } h.cap,
          map_map_validRune_id (fun s hs => hval s (List.mem_reverse.mp hs))]
    · refine ⟨good_addKey h (by decide), ?_, fun s hs => by cases hs⟩
      exact (List.take_of_length_le h.cap).symm
  · rw [step_print t hp hne]
    refine ⟨good_addKey h hk.2, ?_, fun s hs => by cases hs⟩
    exact (List.take_of_length_le h.cap).symm

/-- typed keys: the history holds the statements handed over, the most recent first, at most 100; all of
them are well formed -/
theorem good_run : ∀ (keys : List Nat) (t : Term), Good t → (∀ k ∈ keys, TypedKey k) →
    Good (final t keys) ∧
    (final t keys).history = ((run t keys).flatten.reverse ++ t.history).take 100 ∧
    ∀ s ∈ (run t keys).flatten, WFStmt s
  | [], t, h, _ => ⟨h, by simp [final, run, List.take_of_length_le h.cap], fun s hs => by cases hs⟩
  | k :: keys, t, h, hv => by
    obtain ⟨g1, h1, w1⟩ := good_step h (hv k List.mem_cons_self)
    obtain ⟨g2, h2, w2⟩ := good_run keys (step t k).1 g1 (fun x hx => hv x (List.mem_cons_of_mem _ hx))
    rw [final_cons]
    refine ⟨g2, ?_, ?_⟩
    · rw [h2, h1, take_append_take]
      cases hs : step t k with
      | mk t' o =>
        cases o with
        | none => rw [run_cons_none _ hs]; simp
        | some s => rw [run_cons_some _ hs]; simp
    · cases hs : step t k with
      | mk t' o =>
        rw [hs] at w1 w2
        cases o with
        | none => rw [run_cons_none _ hs]; exact w2
        | some s =>
          rw [run_cons_some _ hs, List.flatten_cons]
          intro x hx
          rcases List.mem_append.mp hx with hx | hx
          · exact w1 x hx
          · exact w2 x hx

/-! ## the key Up -/

theorem step_up (t : Term) (hpa : t.pasteActive = false) {e : List Nat}
    (h : nthPrevious t.history (t.historyIndex + 1) = some e) :
    step t keyUp = (setLine { t with
        historyPending := if t.historyIndex == -1 then t.line.map validRune else t.historyPending,
        historyIndex := t.historyIndex + 1 } e, none) := by
  simp [step, handleKey, hpa, h, keyEnter, keyBackspace, keyAltLeft, keyAltRight, keyLeft, keyRight,
    keyHome, keyEnd, keyUp]

/-- Up beyond the oldest entry changes nothing -/
theorem step_up_none (t : Term) (hpa : t.pasteActive = false)
    (h : nthPrevious t.history (t.historyIndex + 1) = none) : step t keyUp = (t, none) := by
  simp [step, handleKey, hpa, h, keyEnter, keyBackspace, keyAltLeft, keyAltRight, keyLeft, keyRight,
    keyHome, keyEnd, keyUp]

theorem nthPrevious_nat (h : List (List Nat)) (m : Nat) : nthPrevious h ((m : Int) - 1 + 1) = h[m]? := by
  unfold nthPrevious
  have e : (m : Int) - 1 + 1 = (m : Int) := by omega
  rw [e, if_neg (by omega)]
  rfl

/-- Up pressed `j` times, `m` entries deep in the history already: `m + j` entries deep, the line is that
entry, nothing is handed over -/
theorem ups : ∀ (j : Nat) (t : Term) (m : Nat), t.pasteActive = false → t.historyIndex = (m : Int) - 1 →
    m + j ≤ t.history.length →
    run t (List.replicate j keyUp) = [] ∧
    (final t (List.replicate j keyUp)).pasteActive = false ∧
    (final t (List.replicate j keyUp)).history = t.history ∧
    (final t (List.replicate j keyUp)).historyIndex = ((m + j : Nat) : Int) - 1 ∧
    (1 ≤ j → t.history[m + j - 1]? = some (final t (List.replicate j keyUp)).line ∧
      (final t (List.replicate j keyUp)).pos = (final t (List.replicate j keyUp)).line.length)
  | 0, t, m, hpa, hi, _ => ⟨rfl, hpa, rfl, hi, fun h => absurd h (by omega)⟩
  | j + 1, t, m, hpa, hi, hlen => by
    have hm : m < t.history.length := by omega
    have hn : nthPrevious t.history (t.historyIndex + 1) = some t.history[m] := by
      rw [hi, nthPrevious_nat, List.getElem?_eq_getElem hm]
    have hs := step_up t hpa hn
    obtain ⟨r, p, hh, ix, ln⟩ := ups j (step t keyUp).1 (m + 1) (by rw [hs]; exact hpa)
      (by rw [hs, hi]; simp only [setLine]; omega) (by rw [hs]; simp only [setLine]; omega)
    rw [List.replicate_succ, final_cons]
    refine ⟨by rw [run_cons_none _ hs]; rw [hs] at r; exact r, p, ?_, ?_, ?_⟩
    · rw [hh, hs]; rfl
    · rw [ix]; omega
    · intro _
      by_cases hj : 1 ≤ j
      · have := ln hj
        rw [hs] at this ⊢
        simp only [setLine] at this ⊢
        have e : m + (j + 1) - 1 = m + 1 + j - 1 := by omega
        rw [e]; exact this
      · have hj0 : j = 0 := by omega
        subst hj0
        rw [hs]
        simp only [List.replicate_zero, final_nil, setLine, Nat.add_sub_cancel]
        refine ⟨List.getElem?_eq_getElem hm, ?_⟩
        first | trivial | rfl

/-! ## recall -/

/-- Up `k` times and Enter after typed keys: the `k`-th most recent statement is handed over again,
alone and intact -/
theorem recall (keys : List Nat) (hv : ∀ k ∈ keys, TypedKey k) (k : Nat) (hk1 : 1 ≤ k)
    (hkn : k ≤ (run {} keys).flatten.length) (hk100 : k ≤ 100) :
    run {} (keys ++ List.replicate k keyUp ++ [keyEnter]) =
      run {} keys ++ [[(run {} keys).flatten[(run {} keys).flatten.length - k]]] := by
  obtain ⟨g, hh, hw⟩ := good_run keys {} good_init hv
  have hh' : (final {} keys).history = (run {} keys).flatten.reverse.take 100 := by
    rw [hh]; simp
  obtain ⟨r, p, _, _, ln⟩ := ups k (final {} keys) 0 g.paste (by rw [g.idx]; rfl)
    (by rw [hh']; simp only [List.length_take, List.length_reverse]; omega)
  obtain ⟨ln, _⟩ := ln hk1
  have hline : (final (final {} keys) (List.replicate k keyUp)).line =
      (run {} keys).flatten[(run {} keys).flatten.length - k] := by
    rw [hh', List.getElem?_take, if_pos (by omega), List.getElem?_reverse (by omega)] at ln
    have e : (run {} keys).flatten.length - 1 - (0 + k - 1) = (run {} keys).flatten.length - k := by omega
    rw [e, List.getElem?_eq_getElem (by omega)] at ln
    exact (Option.some.inj ln).symm
  have hwf : WFStmt (final (final {} keys) (List.replicate k keyUp)).line := by
    rw [hline]; exact hw _ (List.getElem_mem _)
  have he := step_enter_single _ hwf
  rw [List.append_assoc, run_append, run_append, r, List.nil_append]
  show _ ++ run _ [13] = _
  rw [run_cons_some _ he, hline]
  rfl

end Mkdb.Console
