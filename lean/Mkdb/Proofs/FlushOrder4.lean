import Mkdb.Proofs.FlushOrder3
/-!
C16, the flush of the code (`flushOrd`): WHEN a history refuses does not depend on the iteration orders
of its flushes.  Which clean pages are resident does depend on them (through the victims of the
evictions), but the set of keys of the DIRTY resident pages is a function of the operations alone
(`dstep`: a read keeps it, a change of page `k` adds `k`, a flush empties it), and a refusal is decided by
that set and the capacity: the cache refuses page `k` iff it holds `cap` dirty pages and `k` is not one
of them.
-/
namespace Mkdb.PageCache

variable {α : Type}

/-- page `k` is resident and dirty -/
def DirtyKey (s : St α) (k : Nat) : Prop := ∃ e ∈ s.items, e.key = k ∧ e.dirty = true

/-- what an operation does to the set of dirty resident keys -/
def dstep (D : Nat → Prop) : Op α → Nat → Prop
  | .fetch _ => D
  | .write k _ => fun j => D j ∨ j = k
  | .flush => fun _ => False

theorem dstep_congr {D1 D2 : Nat → Prop} (h : ∀ j, D1 j ↔ D2 j) (op : Op α) (j : Nat) :
    dstep D1 op j ↔ dstep D2 op j := by
  cases op with
  | fetch k => exact h j
  | write k f => simp only [dstep, h j]
  | flush => exact Iff.rfl

/-! ### the dirty keys across one operation -/

theorem evict_dirtyKey {l l' : List (Ent α)} (h : evict l = some l') (j : Nat) :
    (∃ e ∈ l', e.key = j ∧ e.dirty = true) ↔ ∃ e ∈ l, e.key = j ∧ e.dirty = true := by
  obtain ⟨pre, v, post, rfl, rfl, hv, _⟩ := evict_some h
  constructor
  · rintro ⟨e, he, hk, hd⟩
    refine ⟨e, ?_, hk, hd⟩
    rcases List.mem_append.mp he with h1 | h1
    · exact List.mem_append_left _ h1
    · exact List.mem_append_right _ (List.mem_cons_of_mem _ h1)
  · rintro ⟨e, he, hk, hd⟩
    refine ⟨e, ?_, hk, hd⟩
    rcases List.mem_append.mp he with h1 | h1
    · exact List.mem_append_left _ h1
    · rcases List.mem_cons.mp h1 with rfl | h2
      · rw [hv] at hd; cases hd
      · exact List.mem_append_right _ h2

theorem insertNew_dirtyKey {s s1 : St α} {e : Ent α} (hd : e.dirty = false)
    (hi : insertNew s e = some s1) : s1.cap = s.cap ∧ ∀ j, DirtyKey s1 j ↔ DirtyKey s j := by
  unfold insertNew at hi
  by_cases hfull : s.items.length = s.cap
  · simp only [hfull, beq_self_eq_true, ↓reduceIte] at hi
    cases he : evict s.items with
    | none => simp [he] at hi
    | some items' =>
      simp only [he, Option.some.injEq] at hi
      subst hi
      refine ⟨rfl, fun j => ?_⟩
      rw [DirtyKey, DirtyKey, ← evict_dirtyKey he j]
      constructor
      · rintro ⟨x, hx, hk, hdx⟩
        rcases List.mem_cons.mp hx with rfl | hx'
        · rw [hd] at hdx; cases hdx
        · exact ⟨x, hx', hk, hdx⟩
      · rintro ⟨x, hx, hk, hdx⟩
        exact ⟨x, List.mem_cons_of_mem _ hx, hk, hdx⟩
  · have hb : (s.items.length == s.cap) = false := by simpa using hfull
    simp only [hb, Bool.false_eq_true, ↓reduceIte, Option.some.injEq] at hi
    subst hi
    refine ⟨rfl, fun j => ?_⟩
    constructor
    · rintro ⟨x, hx, hk, hdx⟩
      rcases List.mem_cons.mp hx with rfl | hx'
      · rw [hd] at hdx; cases hdx
      · exact ⟨x, hx', hk, hdx⟩
    · rintro ⟨x, hx, hk, hdx⟩
      exact ⟨x, List.mem_cons_of_mem _ hx, hk, hdx⟩

/-- a successful read keeps the capacity and the dirty keys, and leaves the page in front -/
theorem fetch_dirtyKey {s s1 : St α} {k : Nat} {v : α} (h : Inv s) (hf : fetch s k = some (s1, v)) :
    s1.cap = s.cap ∧ (∀ j, DirtyKey s1 j ↔ DirtyKey s j) ∧ ∃ e ∈ s1.items, e.key = k := by
  unfold fetch at hf
  cases hfk : find? s.items k with
  | some e =>
    simp only [hfk, Option.some.injEq, Prod.mk.injEq] at hf
    obtain ⟨rfl, _⟩ := hf
    obtain ⟨hm, hek⟩ := find?_some hfk
    refine ⟨rfl, fun j => ?_, e, List.mem_cons_self, hek⟩
    constructor
    · rintro ⟨x, hx, hk, hdx⟩
      rcases List.mem_cons.mp hx with rfl | hx'
      · exact ⟨x, hm, hk, hdx⟩
      · exact ⟨x, (remove_sublist s.items k).subset hx', hk, hdx⟩
    · rintro ⟨x, hx, hk, hdx⟩
      by_cases hxk : x.key = k
      · have := find?_of_mem h.1 hx
        rw [hxk, hfk] at this
        have hxe : e = x := Option.some.inj this
        subst hxe
        exact ⟨e, List.mem_cons_self, hk, hdx⟩
      · refine ⟨x, List.mem_cons_of_mem _ ?_, hk, hdx⟩
        unfold remove
        exact List.mem_filter.mpr ⟨hx, by simpa using hxk⟩
  | none =>
    simp only [hfk] at hf
    cases hi : insertNew s ⟨k, s.disk k, false⟩ with
    | none => simp [hi] at hf
    | some s' =>
      simp only [hi, Option.some.injEq, Prod.mk.injEq] at hf
      obtain ⟨rfl, _⟩ := hf
      obtain ⟨hc, hD⟩ := insertNew_dirtyKey rfl hi
      refine ⟨hc, hD, ?_⟩
      obtain ⟨items', rfl, _⟩ := insertNew_some h hi
      exact ⟨_, List.mem_cons_self, rfl⟩

/-- a successful change of page `k` keeps the capacity and adds `k` to the dirty keys -/
theorem write_dirtyKey {s s' : St α} {k : Nat} {f : α → α} (h : Inv s) (hw : write s k f = some s') :
    s'.cap = s.cap ∧ ∀ j, DirtyKey s' j ↔ (DirtyKey s j ∨ j = k) := by
  unfold write at hw
  cases hf : fetch s k with
  | none => simp [hf] at hw
  | some r =>
    obtain ⟨s1, v⟩ := r
    simp only [hf, Option.some.injEq] at hw
    obtain ⟨hc, hD, e0, he0, hk0⟩ := fetch_dirtyKey h hf
    subst hw
    refine ⟨hc, fun j => ?_⟩
    rw [← hD j]
    show (∃ e ∈ s1.items.map (upd k f), e.key = j ∧ e.dirty = true) ↔ _
    constructor
    · rintro ⟨x, hx, hk, hdx⟩
      obtain ⟨y, hy, rfl⟩ := List.mem_map.mp hx
      rw [upd_key] at hk
      by_cases hyk : y.key = k
      · exact .inr (hk.symm.trans hyk)
      · have : upd k f y = y := by simp [upd, hyk]
        rw [this] at hdx
        exact .inl ⟨y, hy, hk, hdx⟩
    · rintro (⟨y, hy, hk, hdy⟩ | rfl)
      · refine ⟨upd k f y, List.mem_map.mpr ⟨y, hy, rfl⟩, by rw [upd_key]; exact hk, ?_⟩
        unfold upd
        split
        · rfl
        · exact hdy
      · refine ⟨upd j f e0, List.mem_map.mpr ⟨e0, he0, rfl⟩, by rw [upd_key]; exact hk0, ?_⟩
        simp [upd, hk0]

/-- one operation that does not refuse: the capacity stays, the dirty keys are `dstep` of the operation
with the order forgotten -/
theorem stepF_dirtyKey {s s' : St α} {op : OpF α} {o : Option α} (h : Inv s)
    (hs : stepF s op = some (s', o)) :
    s'.cap = s.cap ∧ ∀ j, DirtyKey s' j ↔ dstep (DirtyKey s) op.toOp j := by
  cases op with
  | fetch k =>
    simp only [stepF, Option.map_eq_some_iff, Prod.mk.injEq] at hs
    obtain ⟨⟨s1, v⟩, hf, rfl, _⟩ := hs
    obtain ⟨hc, hD, _⟩ := fetch_dirtyKey h hf
    exact ⟨hc, hD⟩
  | write k f =>
    simp only [stepF, Option.map_eq_some_iff, Prod.mk.injEq] at hs
    obtain ⟨s1, hw, rfl, _⟩ := hs
    exact write_dirtyKey h hw
  | flushOrd order =>
    simp only [stepF, Option.some.injEq, Prod.mk.injEq] at hs
    obtain ⟨rfl, _⟩ := hs
    refine ⟨rfl, fun j => ?_⟩
    constructor
    · rintro ⟨e, he, _, hd⟩
      rw [flushOrd_all_clean s h.1 order e he] at hd
      cases hd
    · intro hF
      exact hF.elim

/-! ### the refusal is decided by the capacity and the dirty keys -/

/-- two caches of the same capacity with the same dirty resident keys: when the one is full of dirty
pages and does not hold `k`, so is and does the other -/
theorem full_of_dirty_transfer {s1 s2 : St α} (h1 : Inv s1) (h2 : Inv s2) (hc : s1.cap = s2.cap)
    (hD : ∀ j, DirtyKey s1 j ↔ DirtyKey s2 j) {k : Nat}
    (hr : find? s1.items k = none ∧ s1.items.length = s1.cap ∧ ∀ e ∈ s1.items, e.dirty = true) :
    find? s2.items k = none ∧ s2.items.length = s2.cap ∧ ∀ e ∈ s2.items, e.dirty = true := by
  obtain ⟨hnone, hlen, hall⟩ := hr
  have hsub : s1.items.map (·.key) ⊆ (s2.items.filter fun e => e.dirty).map (·.key) := by
    intro j hj
    obtain ⟨e, he, rfl⟩ := List.mem_map.mp hj
    obtain ⟨e2, he2, hk2, hd2⟩ := (hD e.key).mp ⟨e, he, rfl, hall e he⟩
    exact List.mem_map.mpr ⟨e2, List.mem_filter.mpr ⟨he2, hd2⟩, hk2⟩
  have hle := h1.1.length_le_of_subset hsub
  simp only [List.length_map] at hle
  have hfl : (s2.items.filter fun e => e.dirty).length ≤ s2.items.length := List.length_filter_le _ _
  have h2len := h2.2.1
  have hfeq : (s2.items.filter fun e => e.dirty).length = s2.items.length := by omega
  have hall2 : ∀ e ∈ s2.items, e.dirty = true := List.length_filter_eq_length_iff.mp hfeq
  refine ⟨?_, by omega, hall2⟩
  apply find?_none_of
  intro e he hek
  obtain ⟨e1, he1, hk1, _⟩ := (hD k).mpr ⟨e, he, hek, hall2 e he⟩
  exact find?_none hnone e1 he1 hk1

theorem stepF_none_transfer {s1 s2 : St α} (h1 : Inv s1) (h2 : Inv s2) (hc : s1.cap = s2.cap)
    (hD : ∀ j, DirtyKey s1 j ↔ DirtyKey s2 j) {op1 op2 : OpF α} (hop : op1.toOp = op2.toOp)
    (hn : stepF s1 op1 = none) : stepF s2 op2 = none := by
  obtain ⟨k, hk, hr⟩ := (stepF_none_iff s1 op1).mp hn
  refine (stepF_none_iff s2 op2).mpr ⟨k, ?_, full_of_dirty_transfer h1 h2 hc hD hr⟩
  rcases hk with rfl | ⟨f, rfl⟩
  · cases op2 with
    | fetch k' => simp only [OpF.toOp, Op.fetch.injEq] at hop; exact .inl (by rw [hop])
    | write k' f' => cases hop
    | flushOrd o => cases hop
  · cases op2 with
    | fetch k' => cases hop
    | write k' f' => simp only [OpF.toOp, Op.write.injEq] at hop; exact .inr ⟨f', by rw [hop.1]⟩
    | flushOrd o => cases hop

/-- two histories with the same operations (the flushes in any orders) from two caches of the same
capacity with the same dirty resident keys: when the one refuses, so does the other -/
theorem runF_none_transfer (ops1 ops2 : List (OpF α)) (hops : ops1.map OpF.toOp = ops2.map OpF.toOp)
    (s1 s2 : St α) (h1 : Inv s1) (h2 : Inv s2) (hc : s1.cap = s2.cap)
    (hD : ∀ j, DirtyKey s1 j ↔ DirtyKey s2 j) (hn : runF s1 ops1 = none) : runF s2 ops2 = none := by
  induction ops1 generalizing ops2 s1 s2 with
  | nil => simp [runF] at hn
  | cons op1 rest1 ih =>
    cases ops2 with
    | nil => simp at hops
    | cons op2 rest2 =>
      simp only [List.map_cons, List.cons.injEq] at hops
      obtain ⟨hop, hrest⟩ := hops
      simp only [runF]
      cases hs1 : stepF s1 op1 with
      | none => rw [stepF_none_transfer h1 h2 hc hD hop hs1]
      | some r1 =>
        obtain ⟨s1', o1⟩ := r1
        cases hs2 : stepF s2 op2 with
        | none => rfl
        | some r2 =>
          obtain ⟨s2', o2⟩ := r2
          have hn1 : runF s1' rest1 = none := by
            simp only [runF, hs1] at hn
            cases hr : runF s1' rest1 with
            | none => rfl
            | some r => simp [hr] at hn
          obtain ⟨hc1, hD1⟩ := stepF_dirtyKey h1 hs1
          obtain ⟨hc2, hD2⟩ := stepF_dirtyKey h2 hs2
          have hD' : ∀ j, DirtyKey s1' j ↔ DirtyKey s2' j := fun j =>
            (hD1 j).trans (((dstep_congr hD op1.toOp j).trans (by rw [hop])).trans (hD2 j).symm)
          have := ih rest2 hrest s1' s2' (stepF_sim s1 op1 h1 s1' o1 hs1).1
            (stepF_sim s2 op2 h2 s2' o2 hs2).1 (by omega) hD' hn1
          simp only [this]

/-- same capacity, same dirty resident keys, same operations: the same refusals, whatever the orders of
the flushes; and the same at every prefix of the two histories -/
theorem runF_none_iff_of_same_dirty (s1 s2 : St α) (ops1 ops2 : List (OpF α))
    (hops : ops1.map OpF.toOp = ops2.map OpF.toOp) (h1 : Inv s1) (h2 : Inv s2) (hc : s1.cap = s2.cap)
    (hD : ∀ j, DirtyKey s1 j ↔ DirtyKey s2 j) : runF s1 ops1 = none ↔ runF s2 ops2 = none :=
  ⟨runF_none_transfer ops1 ops2 hops s1 s2 h1 h2 hc hD,
    runF_none_transfer ops2 ops1 hops.symm s2 s1 h2 h1 hc.symm fun j => (hD j).symm⟩

theorem map_take_toOp (ops : List (OpF α)) (n : Nat) :
    (ops.take n).map OpF.toOp = (ops.map OpF.toOp).take n := List.map_take

/-! ### the dirty keys after a history: a function of the operations -/

/-- the set of dirty resident keys after the operations `ops`, from the set `D` -/
def drun (D : Nat → Prop) : List (Op α) → Nat → Prop
  | [] => D
  | op :: rest => drun (dstep D op) rest

theorem drun_congr {D1 D2 : Nat → Prop} (h : ∀ j, D1 j ↔ D2 j) (ops : List (Op α)) (j : Nat) :
    drun D1 ops j ↔ drun D2 ops j := by
  induction ops generalizing D1 D2 with
  | nil => exact h j
  | cons op rest ih => exact ih (dstep_congr h op)

/-- a history that does not refuse keeps the capacity, and its dirty resident keys at the end are
`drun` of the operations with the orders forgotten -/
theorem runF_dirtyKey (s : St α) (ops : List (OpF α)) (h : Inv s) (s' : St α) (outs : List (Option α))
    (hr : runF s ops = some (s', outs)) :
    s'.cap = s.cap ∧ ∀ j, DirtyKey s' j ↔ drun (DirtyKey s) (ops.map OpF.toOp) j := by
  induction ops generalizing s outs with
  | nil =>
    simp only [runF, Option.some.injEq, Prod.mk.injEq] at hr
    obtain ⟨rfl, _⟩ := hr
    exact ⟨rfl, fun _ => Iff.rfl⟩
  | cons op rest ih =>
    simp only [runF] at hr
    cases hs : stepF s op with
    | none => simp [hs] at hr
    | some r =>
      obtain ⟨s1, o⟩ := r
      simp only [hs] at hr
      cases hr1 : runF s1 rest with
      | none => simp [hr1] at hr
      | some r' =>
        obtain ⟨s2, os⟩ := r'
        simp only [hr1, Option.some.injEq, Prod.mk.injEq] at hr
        obtain ⟨rfl, _⟩ := hr
        obtain ⟨hc1, hD1⟩ := stepF_dirtyKey h hs
        obtain ⟨hc2, hD2⟩ := ih s1 (stepF_sim s op h s1 o hs).1 os hr1
        refine ⟨hc2.trans hc1, fun j => (hD2 j).trans ?_⟩
        simp only [List.map_cons, drun]
        exact drun_congr hD1 _ j

/-! ### non-vacuity: the two orders on the capacity-2 cache, then two changes and a third -/

namespace ExampleF

/-- flush in the one and in the other order, read 3 (the victims differ), change 1 and 2 (a miss and a hit
in the one run, a hit and a miss in the other), change 4: the cache holds the dirty 1 and 2 -/
def xA : List (OpF Nat) := [.flushOrd [1, 2], .fetch 3, .write 1 (· + 1), .write 2 (· + 1), .write 4 (· + 1)]
def xB : List (OpF Nat) := [.flushOrd [2, 1], .fetch 3, .write 1 (· + 1), .write 2 (· + 1), .write 4 (· + 1)]

theorem same_ops_x : xA.map OpF.toOp = xB.map OpF.toOp := rfl

/-- both refuse, at the last operation and not before; after three operations the recency lists differ -/
theorem refusals :
    (runF d0 xA).isNone = true ∧ (runF d0 xB).isNone = true ∧
    (runF d0 (xA.take 4)).isSome = true ∧ (runF d0 (xB.take 4)).isSome = true ∧
    obsF (runF d0 (xA.take 2)) = some ([(3, 30, false), (2, 21, false)], [none, some 30]) ∧
    obsF (runF d0 (xB.take 2)) = some ([(3, 30, false), (1, 11, false)], [none, some 30]) :=
  ⟨by decide, by decide, by decide, by decide, by decide, by decide⟩

/-- the two caches after the first two operations of `xA` and of `xB`: capacity 2, nothing dirty, pages
3 and 2 resident in the one, 3 and 1 in the other -/
def tA : St Nat := { cap := 2, items := [⟨3, 30, false⟩, ⟨2, 21, false⟩], disk := (flush d0).disk }
def tB : St Nat := { cap := 2, items := [⟨3, 30, false⟩, ⟨1, 11, false⟩], disk := (flush d0).disk }

theorem tA_inv : Inv tA := by
  refine ⟨by decide, by decide, ?_⟩
  intro e he
  simp only [tA, List.mem_cons, List.not_mem_nil, or_false] at he
  rcases he with rfl | rfl <;> intro _ <;> decide

theorem tB_inv : Inv tB := by
  refine ⟨by decide, by decide, ?_⟩
  intro e he
  simp only [tB, List.mem_cons, List.not_mem_nil, or_false] at he
  rcases he with rfl | rfl <;> intro _ <;> decide

theorem tA_tB_dirty (k : Nat) : DirtyKey tA k ↔ DirtyKey tB k := by
  constructor <;>
  · rintro ⟨e, he, _, hd⟩
    simp only [tA, tB, List.mem_cons, List.not_mem_nil, or_false] at he
    rcases he with rfl | rfl <;> cases hd

theorem tA_tB_are_the_runs :
    (runF d0 (xA.take 2)).map (fun r => ents r.1) = some (ents tA) ∧
    (runF d0 (xB.take 2)).map (fun r => ents r.1) = some (ents tB) := ⟨by decide, by decide⟩

end ExampleF

end Mkdb.PageCache
