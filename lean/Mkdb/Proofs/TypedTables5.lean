import Mkdb.Proofs.TypedTables3
import Mkdb.Proofs.TypedTables4
import Mkdb.Proofs.SessionInv8
import Mkdb.Proofs.ColumnNames
/-!
C18, typed tables, part 5: **the tables SELECT reads from a stored database**.

* `fetchOf db`: the `fetch` function `evaluateSelect` is run with on a stored database - what
  `RelationService.Fetch` (`Store.fetchTable`) returns, as a table of the executor.
* `decodeTuple_kinds`: whatever `Tuple.Decode` returns for a schema with distinct column names has, in
  every column, NULL or a value of the column's kind.
* `fetchTable_rows`: every row `Fetch` returns - for ANY store, any table name - is one decoded tuple
  read in schema order; so `fetchOf db` is well shaped (`fetchOf_wellShaped`) for every database.
* `AbsV.typed`: a store that abstracts to a plain database abstracts to a TYPED one.

(Imports: `SessionInv8` + `ColumnNames` instead of `SessionInv10` - nothing of SessionInv6/7/9/10 is used
here or in TypedTables6, and `SessionInv6.exec_sessAbs` now needs `select_on_stored_never_panics` of
TypedTables6 for the SELECT case; TypedTables7 imports `SessionInv10` itself.)
-/
set_option autoImplicit false
namespace Mkdb.Store
open Mkdb.Page Mkdb.Tuple Mkdb.Generated Mkdb.Tree Mkdb.Engine Mkdb.Exec.TypedP

/-- **The `fetch` of a SELECT on a stored database**: `RelationService.Fetch` of the table
(`Store.fetchTable`); the executor gets the column names and the rows without their row ids - as
`Engine.fetchForExec` hands them to UPDATE / DELETE (names as `fd.name.toUTF8.toList`, no table id:
`Exec.fetchTable` puts the alias or table name there).  An error value of `Fetch` (unknown table, a row
that does not decode) is `none`, which `Exec.fetchTable` turns into an error value; the outcomes of the
store model that are not values (`panic`, `unmodelled`, `fuel`) are `none` too - that none of them
occurs is stated separately (`FetchTotal`). -/
def fetchOf (db : Engine.DB) (name : Bytes) : Option Exec.Table :=
  match fetchTable name db.store with
  | .ok (rows, schema) _ => some ⟨schema.map fun fd => fd.name.toUTF8.toList, rows.map (·.2)⟩
  | _ => none

/-- `Fetch` of the table returns rows or an error value: no panic, no unmodelled path, no exhausted fuel -/
def FetchTotal (db : Engine.DB) (name : Bytes) : Prop :=
  (∃ r s', fetchTable name db.store = .ok r s') ∨ ∃ e s', fetchTable name db.store = .err e s'

/-! ### decoding gives typed values -/

theorem decField_kind {fd : FieldDef} {bs rest : Bytes} {v : Val} (h : decField fd bs = .ok (some v, rest)) :
    hasKind (Spec.kindOf fd.ty) v = true := by
  unfold decField at h
  split at h
  · cases h
  · cases h
  · split at h
    · rename_i hty
      split at h
      · simp only [Except.ok.injEq, Prod.mk.injEq, Option.some.injEq] at h
        rw [hty, ← h.1]; rfl
      · cases h
    · rename_i hty
      split at h
      · simp only [Except.ok.injEq, Prod.mk.injEq, Option.some.injEq] at h
        rw [hty, ← h.1]; rfl
      · cases h
    · rename_i hty
      split at h
      · simp only [Except.ok.injEq, Prod.mk.injEq, Option.some.injEq] at h
        rw [hty, ← h.1]; rfl
      · cases h
    · rename_i hty
      split at h
      · cases h
      · split at h
        · simp only [Except.ok.injEq, Prod.mk.injEq, Option.some.injEq] at h
          rw [hty, ← h.1]; rfl
        · cases h

/-- every entry `Tuple.Decode` adds to the map is a value of the kind of a column of that name -/
theorem decodeTuple_entries : ∀ (sch : List FieldDef) (bs : Bytes) (m0 m : Vals), decodeTuple sch bs m0 = .ok m →
    ∀ k, get m k = get m0 k ∨ ∃ fd ∈ sch, fd.name = k ∧ hasKind (Spec.kindOf fd.ty) (get m k) = true
  | [], _, m0, m, h, k => by
    simp only [decodeTuple, Except.ok.injEq] at h
    subst h
    exact .inl rfl
  | fd :: rest, bs, m0, m, h, k => by
    unfold decodeTuple at h
    split at h
    · cases h
    · rcases decodeTuple_entries rest _ m0 m h k with h1 | ⟨fd', hfd', e, hk⟩
      · exact .inl h1
      · exact .inr ⟨fd', List.mem_cons_of_mem _ hfd', e, hk⟩
    · rename_i v bs' hdec
      rcases decodeTuple_entries rest _ _ m h k with h1 | ⟨fd', hfd', e, hk⟩
      · by_cases hkn : fd.name = k
        · right
          refine ⟨fd, by simp, hkn, ?_⟩
          rw [h1, ← hkn, get_cons_eq]
          exact decField_kind hdec
        · left
          rw [h1, get_cons_ne _ _ _ _ hkn]
      · exact .inr ⟨fd', List.mem_cons_of_mem _ hfd', e, hk⟩

theorem name_inj_of_nodup : ∀ {sch : List FieldDef}, (sch.map (·.name)).Nodup → ∀ a ∈ sch, ∀ b ∈ sch,
    a.name = b.name → a = b
  | [], _, a, ha, _, _, _ => by cases ha
  | x :: rest, hnd, a, ha, b, hb, e => by
    simp only [List.map_cons, List.nodup_cons] at hnd
    rcases List.mem_cons.mp ha with rfl | ha'
    · rcases List.mem_cons.mp hb with rfl | hb'
      · rfl
      · exact absurd (e ▸ List.mem_map_of_mem hb') hnd.1
    · rcases List.mem_cons.mp hb with rfl | hb'
      · exact absurd (e ▸ List.mem_map_of_mem ha') hnd.1
      · exact name_inj_of_nodup hnd.2 a ha' b hb' e

/-- **What `Tuple.Decode` returns is typed**: with distinct column names, every column reads as NULL or as
a value of its kind. -/
theorem decodeTuple_kinds {sch : List FieldDef} {bs : Bytes} {m : Vals} (h : decodeTuple sch bs [] = .ok m)
    (hnd : (sch.map (·.name)).Nodup) : ∀ fd ∈ sch, hasKind (Spec.kindOf fd.ty) (get m fd.name) = true := by
  intro fd hfd
  rcases decodeTuple_entries sch bs [] m h fd.name with h1 | ⟨fd', hfd', e, hk⟩
  · rw [h1]; rfl
  · rw [name_inj_of_nodup hnd fd' hfd' fd hfd e] at hk
    exact hk

/-! ### what `Fetch` returns, for any store -/

theorem mapS_out_mem {α β} (f : α → SM β) : ∀ (l : List α) (s s' : Store) (out : List β), mapS f l s = .ok out s' →
    ∀ b ∈ out, ∃ a ∈ l, ∃ s1 s2, f a s1 = .ok b s2
  | [], s, s', out, h, b, hb => by
    simp only [mapS] at h
    cases h
    cases hb
  | a :: rest, s, s', out, h, b, hb => by
    unfold mapS at h
    obtain ⟨b0, s1, h1, h⟩ := bind_eq_ok h
    obtain ⟨tl, s2, h2, h⟩ := bind_eq_ok h
    cases h
    rcases List.mem_cons.mp hb with rfl | hb'
    · exact ⟨a, by simp, s, s1, h1⟩
    · obtain ⟨a', ha', x⟩ := mapS_out_mem f rest _ _ _ h2 b hb'
      exact ⟨a', List.mem_cons_of_mem _ ha', x⟩

/-- **every row `RelationService.Fetch` returns is one decoded tuple, read in schema order** - for any
store and any table name (also the two catalog tables, also a store no statement produced) -/
theorem fetchTable_rows {table : Bytes} {s s' : Store} {rows : List (Nat × List Val)} {schema : List FieldDef}
    (h : fetchTable table s = .ok (rows, schema) s') :
    ∀ r ∈ rows, ∃ bs m, decodeTuple schema bs [] = .ok m ∧ r.2 = schema.map fun fd => get m fd.name := by
  rw [fetchTable_eq] at h
  obtain ⟨off, s1, _, h⟩ := bind_eq_ok h
  obtain ⟨schema0, s2, _, h⟩ := bind_eq_ok h
  obtain ⟨_, s3, _, h⟩ := bind_eq_ok h
  obtain ⟨cells, s4, _, h⟩ := bind_eq_ok h
  obtain ⟨rows0, s5, hmap, h⟩ := bind_eq_ok h
  cases h
  intro r hr
  obtain ⟨c, _, sa, sb, hc⟩ := mapS_out_mem _ cells _ _ _ hmap r hr
  unfold fetchRow at hc
  obtain ⟨m, sc, hm, hc⟩ := bind_eq_ok hc
  cases hc
  refine ⟨c.1.val, m, ?_, rfl⟩
  unfold decodeRow at hm
  split at hm
  · rename_i m' hm'
    cases hm
    exact hm'
  · cases hm

/-- **The tables a SELECT reads from a stored database are well shaped** - every row has one value per
column - whatever the database (no invariant is needed). -/
theorem fetchOf_wellShaped (db : Engine.DB) : Exec.NoPanicP.WellShaped (fetchOf db) := by
  intro n t hn r hr
  unfold fetchOf at hn
  split at hn
  · rename_i rows schema s' heq
    cases hn
    simp only [List.mem_map] at hr
    obtain ⟨r0, hr0, rfl⟩ := hr
    obtain ⟨_, m, _, e⟩ := fetchTable_rows heq r0 hr0
    simp only [e, List.length_map]
  · cases hn

/-- a table read with a schema of distinct column names is kinded by the schema -/
theorem fetchTable_kinded {table : Bytes} {s s' : Store} {rows : List (Nat × List Val)} {schema : List FieldDef}
    (h : fetchTable table s = .ok (rows, schema) s') (hnd : (schema.map (·.name)).Nodup) :
    ∀ r ∈ rows, rowHas (Spec.colKinds schema) r.2 = true := by
  intro r hr
  obtain ⟨bs, m, hm, e⟩ := fetchTable_rows h r hr
  rw [e]
  exact Spec.rowHas_map_cols _ schema (decodeTuple_kinds hm hnd)

/-! ### a stored database abstracts to a typed plain database -/

theorem typed_of_valsOf {sdb0 sdb : Spec.SDB} (hv : valsOf sdb0 = valsOf sdb) (h : Spec.Typed sdb0) : Spec.Typed sdb := by
  constructor
  · have e : ∀ d : Spec.SDB, d.map (·.name) = (valsOf d).map (·.1) := by
      intro d
      simp only [valsOf, List.map_map]
      rfl
    rw [e, ← hv, ← e]
    exact h.names
  · intro t ht r hr
    have : tv t ∈ valsOf sdb0 := by
      rw [hv, valsOf_eq_map]
      exact List.mem_map_of_mem ht
    rw [valsOf_eq_map] at this
    obtain ⟨t0, ht0, e⟩ := List.mem_map.mp this
    have hr' : r.vals ∈ t0.rows.map (·.vals) := by
      rw [tv_rows e]
      exact List.mem_map_of_mem hr
    obtain ⟨r0, hr0, e0⟩ := List.mem_map.mp hr'
    have := h.rows t0 ht0 r0 hr0
    rw [tv_cols e, e0] at this
    exact this

theorem rowsOf_kinded {schema : List FieldDef} (hnd : (schema.map (·.name)).Nodup) (cs : List LeafCell) :
    ∀ r ∈ rowsOf schema cs, rowHas (Spec.colKinds schema) r.2 = true := by
  intro r hr
  unfold rowsOf at hr
  obtain ⟨c, _, hc⟩ := List.mem_filterMap.mp hr
  unfold rowOf at hc
  cases hd : decRow schema c.val with
  | none => rw [hd] at hc; cases hc
  | some m =>
    rw [hd] at hc
    simp only [Option.map_some, Option.some.injEq] at hc
    subst hc
    unfold decRow at hd
    split at hd
    · rename_i m' hm'
      cases hd
      exact Spec.rowHas_map_cols _ schema (decodeTuple_kinds hm' hnd)
    · cases hd

theorem AbsTables.typedRows {sch : Levels} {tbls : List (Bytes × Levels)} {sdb : Spec.SDB} (h : AbsTables sch tbls sdb) :
    Spec.TypedRows sdb := by
  induction h with
  | nil => exact fun _ ht => absurd ht List.not_mem_nil
  | cons hx _ ih =>
    intro t ht r hr
    rcases List.mem_cons.mp ht with rfl | ht'
    · obtain ⟨schema, _, hnd, _, rfl⟩ := hx
      simp only [absTable, List.mem_map] at hr
      obtain ⟨r0, hr0, rfl⟩ := hr
      exact rowsOf_kinded hnd _ r0 hr0
    · exact ih t ht' r hr

/-- **A stored database abstracts to a TYPED plain database**: the table names are distinct (the
catalog's are), and every row is a tuple decoded with the table's schema, whose column names are distinct -
so the hypothesis `Typed` is not an assumption about the database but a consequence of the invariant. -/
theorem AbsV.typed {s : Store} {pt sch : Levels} {tbls : List (Bytes × Levels)} {sdb : Spec.SDB}
    (h : AbsV s pt sch tbls sdb) : Spec.Typed sdb := by
  obtain ⟨sdb0, habs, hv⟩ := h
  apply typed_of_valsOf hv
  exact ⟨by rw [habs.tabs.names]; exact habs.cat.tnames, habs.tabs.typedRows⟩

theorem DbInv.typed {db : Engine.DB} {sdb : Spec.SDB} {pt sch : Levels} {tbls : List (Bytes × Levels)}
    (h : DbInv db sdb pt sch tbls) : Spec.Typed sdb := h.abs.typed

end Mkdb.Store
