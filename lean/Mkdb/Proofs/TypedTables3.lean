import Mkdb.Proofs.TypedTables2
/-!
C18, typed tables, part 3: **a SELECT over kinded tables never panics, and its output is kinded**.

`sortColumns_kinded`: rows kinded by one list are pairwise comparable in every column, so the sort
comparator - the one panic `C18_no_panic_partial` leaves - cannot fail.  `evaluateSelect_kinded`: the
whole pipeline (join, WHERE, projection, aggregation, ORDER BY, OFFSET / LIMIT).
-/
set_option autoImplicit false
namespace Mkdb.Exec.TypedP
open Mkdb.Sql Mkdb.Tuple Mkdb.Exec.NoPanicP Mkdb.Exec.AggP

/-- **ORDER BY over kinded rows cannot panic**, whatever the keys and the header they are resolved
against; it returns rows of its input -/
theorem sortColumns_kinded (ob : List SortSpec) (hdr : List Field) (rows : List Row) (ks : List Kind)
    (h : ∀ r ∈ rows, rowHas ks r = true) :
    Wp NoP (fun out => ∀ r ∈ out, r ∈ rows) (sortColumns ob hdr rows) := by
  cases hs : sortColumns ob hdr rows with
  | ok out =>
    obtain ⟨keys, _, _, rfl⟩ := SelectP.sortColumns_ok hs
    intro r hr
    exact (SelectP.sortRows_perm keys rows).mem_iff.mp hr
  | err e => trivial
  | panic s =>
    exact absurd hs (sort_safe_of_comparable ob hdr rows
      (fun _ _ i _ a ha b hb => rowHas_comparable (h a ha) (h b hb) i) s)

/-- everything after WHERE, on kinded rows as long as the header -/
theorem selectTail_kinded (q : Select) (fields : List Field) (ks : List Kind) (rows : List Row)
    (hq : Exec.NoPanicP.ParsedShape q)
    (hlen : ∀ r ∈ rows, r.length = fields.length) (hk : ∀ r ∈ rows, rowHas ks r = true) :
    Wp NoP (fun p => ∀ r ∈ p.1, rowHas (outKinds q.list fields ks) r = true) (SelectP.selectTail q fields rows) := by
  unfold SelectP.selectTail
  apply Wp.bind (Wp.and_any (projectColumns_wp (E := NoP) q.list hq.ne_nil fields rows hlen)
    (projectColumns_kinded q.list fields ks rows hk))
  rintro ⟨rows2, hdr⟩ ⟨⟨hlen2, hstar⟩, hk2⟩
  dsimp only at hlen2 hstar hk2 ⊢
  have hagg : Wp NoP (fun out => ∀ r ∈ out, rowHas (outKinds q.list fields ks) r = true)
      (aggregateRows q.list q.groupBy rows2) := by
    rcases hq.star with ⟨a, hq⟩ | hq
    · rw [hq] at hk2 ⊢
      refine Wp.mono (Wp.and_any (aggregateRows_star_wp (E := NoP) a q.groupBy rows2)
        (aggregateRows_star a q.groupBy rows2)) ?_ (fun _ e => e)
      rintro out ⟨_, rfl⟩
      exact hk2
    · have hk3 : outKinds q.list fields ks = q.list.map fun d => itemKind fields ks d.item := by
        unfold outKinds
        rw [hq]
        rfl
      rw [hk3] at hk2 ⊢
      refine Wp.mono (Wp.and_any (aggregateRows_wp (E := NoP) q.list q.groupBy rows2
        (fun _ => ⟨hq, fun r hr => by rw [hlen2 r hr, hstar hq]⟩))
        (aggregateRows_kinded (fun d => itemKind fields ks d.item) q.list q.groupBy rows2 hq
          (itemKind_agg fields ks q.list) (itemKind_cond fields ks q.list) hk2)) ?_ (fun _ e => e)
      rintro out ⟨_, h⟩
      exact h
  apply Wp.bind hagg
  intro rows3 hk3
  apply Wp.bind (sortColumns_kinded q.orderBy (sortFields q.list hdr) rows3 _ hk3)
  intro rows4 hsub
  have hcut : Wp NoP (fun rows5 => ∀ r ∈ rows5, r ∈ rows4) (cutRows q.lim rows4) := by
    cases hc : cutRows q.lim rows4 with
    | err e => trivial
    | panic s => exact ((cutRows_wp (E := NoP) hq.bounds rows4).of_panic hc).elim
    | ok rows5 =>
      intro r hr
      unfold cutRows at hc
      split at hc
      · cases hc
      · split at hc
        · cases hc
        · cases hc
          split at hr
          · have hr := List.mem_of_mem_take hr
            split at hr
            · exact List.mem_of_mem_drop hr
            · exact hr
          · split at hr
            · exact List.mem_of_mem_drop hr
            · exact hr
  apply Wp.bind hcut
  intro rows5 hsub5
  simp only [Wp_pure]
  intro r hr
  exact hk3 r (hsub r (hsub5 r hr))

/-- **A SELECT over kinded tables never panics, and every column of its result holds values of one kind
or NULL.**  `hq`: the shape of the select lists the parser builds (the hypothesis of
`C18_no_panic_partial`). -/
theorem evaluateSelect_kinded {fetch : Bytes → Option Table} (hk : KindedFetch fetch) (q : Select)
    (hq : Exec.NoPanicP.ParsedShape q) :
    Wp NoP (fun p => ∃ ks : List Kind, ∀ r ∈ p.1, rowHas ks r = true) (evaluateSelect fetch q) := by
  cases hf : q.from_ with
  | none =>
    unfold evaluateSelect
    rw [hf]
    refine Wp.mono (Wp.and_any (projectColumns_wp (E := NoP) q.list hq.ne_nil [] [[]] ?_)
      (projectColumns_kinded q.list [] [] [[]] ?_)) (fun p hp => ⟨_, hp.2⟩) (fun _ e => e)
    · intro r hr
      simp only [List.mem_singleton] at hr
      subst hr
      rfl
    · intro r hr
      simp only [List.mem_singleton] at hr
      subst hr
      rfl
  | some tr =>
    rw [SelectP.evaluateSelect_from fetch q tr hf]
    apply Wp.bind (Wp.and_any (nestedLoopJoin_wp (E := NoP) hk.wellShaped tr) (nestedLoopJoin_kinded hk tr))
    rintro ⟨rows, fields⟩ ⟨hlen, ks, hkl, hkr⟩
    dsimp only at hlen hkl hkr ⊢
    have hfilt : Wp NoP (fun rows1 => ∀ r ∈ rows1, r ∈ rows)
        (match q.where_ with
          | some c => filterRows c fields rows
          | none => pure rows) := by
      split
      · exact filterRows_wp _ fields rows hlen
      · intro r hr; exact hr
    apply Wp.bind hfilt
    intro rows1 hsub
    exact Wp.mono (selectTail_kinded q fields ks rows1 hq (fun r hr => hlen r (hsub r hr))
      (fun r hr => hkr r (hsub r hr))) (fun p hp => ⟨_, hp⟩) (fun _ e => e)

/-- a SELECT over kinded tables never panics -/
theorem evaluateSelect_no_panic {fetch : Bytes → Option Table} (hk : KindedFetch fetch) (q : Select)
    (hq : Exec.NoPanicP.ParsedShape q) (s : String) :
    evaluateSelect fetch q ≠ .panic s :=
  (evaluateSelect_kinded hk q hq).not_panic s

/-! ### the FROM clause reads the named tables only -/

/-- the table names of a FROM clause -/
def fromNames : TableRef → List Bytes
  | .table t => [t.name]
  | .join l _ r _ => fromNames l ++ [r.name]

theorem nestedLoopJoin_congr {f g : Bytes → Option Table} :
    ∀ tr : TableRef, (∀ n ∈ fromNames tr, f n = g n) → nestedLoopJoin f tr = nestedLoopJoin g tr
  | .table t, h => by
    unfold nestedLoopJoin fetchTable
    rw [h t.name (by simp [fromNames])]
  | .join l jt r on, h => by
    unfold nestedLoopJoin
    rw [nestedLoopJoin_congr l (fun n hn => h n (by simp [fromNames, hn]))]
    unfold fetchTable
    rw [h r.name (by simp [fromNames])]

/-- a SELECT looks at the tables its FROM clause names, and at no other -/
theorem evaluateSelect_congr {f g : Bytes → Option Table} (q : Select)
    (h : ∀ tr, q.from_ = some tr → ∀ n ∈ fromNames tr, f n = g n) : evaluateSelect f q = evaluateSelect g q := by
  unfold evaluateSelect
  cases hf : q.from_ with
  | none => rfl
  | some tr =>
    simp only
    rw [nestedLoopJoin_congr tr (h tr hf)]

end Mkdb.Exec.TypedP
