import Mkdb.Proofs.ScanText5
/-!
# The scanner on text in standard form, part 6: the token list written as text scans back

`scannedTok_ty`, `scannedTok_textual`: what the scanner reports for a written token has the token's
type, and is the token itself when the type is IDENT, INT or STR.  `scanSQL_renderText`: the round trip.
-/
namespace Mkdb.Scan
open Mkdb.Generated

/-- token types whose text the scanner takes from the source (and the parser reads) -/
def textualTy (ty : Int) : Bool := ty == t_IDENT || ty == t_INT || ty == t_STR

theorem ofNat_toNat_map (bs : Bytes) : (bs.map (·.toNat)).map UInt8.ofNat = bs := by
  induction bs with
  | nil => rfl
  | cons b bs ih => simp only [List.map_cons, ih, UInt8.ofNat_toNat]

/-- The scanner reports the type of the written token; for IDENT, INT and STR also its text. -/
theorem scannedTok_spec (cs : List Bool) (t : Token) (h : TokOK t = true) :
    (scannedTok cs t).ty = t.ty ∧ (textualTy t.ty = true → scannedTok cs t = t) := by
  obtain ⟨ty, text⟩ := t
  unfold TokOK at h
  unfold scannedTok pieceOf textualTy
  simp only [] at h ⊢
  split at h
  · rename_i h0
    have hty : ty = t_IDENT := by simpa using h0
    subst hty
    simp only [beq_self_eq_true, ↓reduceIte, Piece.tok, textOf_bytes, upperCodes_bytes]
    have hnone : keywordOf (text.map fun b => asciiUpper b.toNat) = none := by
      cases text with
      | nil => simp at h
      | cons b rest =>
        simp only [Bool.and_eq_true, Option.isNone_iff_eq_none] at h
        exact h.2
    simp only [hnone, true_and, implies_true]
  · rename_i h0
    split at h
    · rename_i h1
      have hty : ty = t_INT := by simpa using h1
      subst hty
      have e1 : (t_INT == t_IDENT) = false := by decide
      simp only [e1, beq_self_eq_true, Bool.false_eq_true, ↓reduceIte, Piece.tok, ofNat_toNat_map, true_and, implies_true]
    · rename_i h1
      split at h
      · rename_i h2
        have hty : ty = t_STR := by simpa using h2
        subst hty
        have e1 : (t_STR == t_IDENT) = false := by decide
        have e2 : (t_STR == t_INT) = false := by decide
        simp only [e1, e2, beq_self_eq_true, Bool.false_eq_true, ↓reduceIte, Piece.tok, textOf_bytes, true_and, implies_true]
      · rename_i h2
        simp only [h0, h1, h2, Bool.false_eq_true, ↓reduceIte, Bool.or_self, false_implies, and_true]
        cases hf : kwTable.find? (fun e => e.2 == ty) with
        | none =>
          rw [List.any_eq_true] at h
          obtain ⟨e, he, hty⟩ := h
          have := List.find?_eq_none.mp hf e he
          exact absurd hty this
        | some e =>
          obtain ⟨codes, k⟩ := e
          obtain ⟨hmem, hk⟩ := kwTable_find _ _ hf
          simp only [] at hk
          obtain ⟨hne, hlow, hshape⟩ := kwTable_shape _ hmem
          simp only []
          by_cases hw : isWordKw codes = true
          · simp only [hw, ↓reduceIte, Piece.tok, upperCodes_ascii, spell_upper codes hlow cs]
            have := keywordOf_table _ hmem
            simp only [] at this
            simp only [this, hk]
          · simp only [Bool.not_eq_true] at hw
            have := hshape hw
            simp only [hw, Bool.false_eq_true, ↓reduceIte]
            match codes, this with
            | [c], this =>
              simp only [opShape, Bool.and_eq_true] at this
              have h2 := eq_of_beq this.2
              simp only [Piece.tok, h2, hk]
            | c :: _ :: _, this =>
              simp only [opShape, Bool.and_eq_true] at this
              have h2 := eq_of_beq this.2
              simp only [Piece.tok, h2, hk]

theorem scannedTok_ty (cs : List Bool) (t : Token) (h : TokOK t = true) : (scannedTok cs t).ty = t.ty :=
  (scannedTok_spec cs t h).1

theorem scannedTok_textual (cs : List Bool) (t : Token) (h : TokOK t = true) (ht : textualTy t.ty = true) :
    scannedTok cs t = t := (scannedTok_spec cs t h).2 ht

/-! ## Layout -/

/-- gap `gap i` and piece of the `i`-th token, counting from `i` -/
def itemsOf (gap : Nat → Gap) (cs : Nat → List Bool) : Nat → List Token → List (Gap × Piece)
  | _, [] => []
  | i, t :: ts => (gap i, pieceOf (cs i) t) :: itemsOf gap cs (i + 1) ts

/-- The token list `toks` as text: `gap 0`, token 0, `gap 1`, token 1, ..., token `n-1`, `gap n`;
the keyword of token `i` is written in the letter case `cs i` (`true` = lower case, letter by letter;
upper case where the list has run out). -/
def renderText (gap : Nat → Gap) (cs : Nat → List Bool) (toks : List Token) : Input :=
  renderItems (itemsOf gap cs 0 toks) (gap toks.length)

/-- what the scanner reports for the token list: `scannedTok` of each token with its case choice -/
def scanned (cs : Nat → List Bool) : Nat → List Token → List Token
  | _, [] => []
  | i, t :: ts => scannedTok (cs i) t :: scanned cs (i + 1) ts

theorem itemsOf_map_tok (gap : Nat → Gap) (cs : Nat → List Bool) (toks : List Token) :
    ∀ i, (itemsOf gap cs i toks).map (·.2.tok) = scanned cs i toks := by
  induction toks with
  | nil => intro i; rfl
  | cons t ts ih => intro i; simp only [itemsOf, List.map_cons, scanned, scannedTok, ih]

/-- The piece `p` may be followed by the gap `g` and then the piece `next` (or the end of the text):
`g` is not empty, or the first rune of `next` lets `p` end (`Piece.stop`).  Examples of tokens that may
touch: a word or number and punctuation (`COUNT(*)`, `t.a`, `a,b`, `a=1`, `'x';`); not two words, a number
and a word starting with `e p E P` (or `x o b` after `0`), a number and `.`, `.` and a number, or `< > !`
and `=`. -/
def sepOK (p : Piece) (g : Gap) (next : Option Piece) : Bool :=
  !g.isEmpty || match next with
    | none => true
    | some q => HeadP p.stop q.runes

/-- The layout is admissible for the tokens, from index `i`: every gap is well formed and every two
neighbouring tokens are separated (`sepOK`). -/
def layoutOK (gap : Nat → Gap) (cs : Nat → List Bool) : Nat → List Token → Bool
  | i, [] => Gap.ok (gap i)
  | i, t :: ts =>
    Gap.ok (gap i) && sepOK (pieceOf (cs i) t) (gap (i + 1)) (ts.head?.map (pieceOf (cs (i + 1)))) &&
      layoutOK gap cs (i + 1) ts

theorem itemsOK_of_layoutOK (gap : Nat → Gap) (cs : Nat → List Bool) (toks : List Token)
    (htoks : ∀ t ∈ toks, TokOK t = true) :
    ∀ i, layoutOK gap cs i toks = true → ItemsOK (itemsOf gap cs i toks) (gap (i + toks.length)) = true := by
  induction toks with
  | nil => intro i h; simpa [layoutOK, itemsOf, ItemsOK] using h
  | cons t ts ih =>
    intro i h
    simp only [layoutOK, Bool.and_eq_true] at h
    obtain ⟨⟨hg, hsep⟩, hrest⟩ := h
    have ht := htoks t (List.mem_cons_self ..)
    have hts : ∀ t' ∈ ts, TokOK t' = true := fun t' h' => htoks t' (List.mem_cons_of_mem _ h')
    have ih' := ih hts (i + 1) hrest
    have hidx : i + (t :: ts).length = i + 1 + ts.length := by simp only [List.length_cons]; omega
    rw [hidx]
    simp only [itemsOf, ItemsOK, hg, pieceOf_ok _ t ht, ih', Bool.true_and, Bool.and_true]
    -- the piece can end where it ends
    have hg1 : Gap.ok (gap (i + 1)) = true := by
      cases ts with
      | nil => simpa [layoutOK] using hrest
      | cons t' ts' =>
        simp only [layoutOK, Bool.and_eq_true] at hrest
        exact hrest.1.1
    by_cases hne : gap (i + 1) = []
    · simp only [sepOK, hne, List.isEmpty_nil, Bool.not_true, Bool.false_or] at hsep
      cases ts with
      | nil =>
        simp only [itemsOf, renderItems, List.length_nil, Nat.add_zero, hne]
        rfl
      | cons t' ts' =>
        simp only [List.head?_cons, Option.map_some] at hsep
        have hok' := pieceOf_ok (cs (i + 1)) t' (hts t' (List.mem_cons_self ..))
        obtain ⟨r, X, hr, _⟩ := Piece.runes_head _ hok'
        simp only [itemsOf, renderItems, hne, Gap.runes, List.flatMap_nil, List.nil_append]
        rw [hr] at hsep ⊢
        exact hsep
    · cases ts with
      | nil =>
        simp only [itemsOf, renderItems, List.length_nil, Nat.add_zero]
        have := Piece.stop_gap (pieceOf (cs i) t) (gap (i + 1)) hg1 hne []
        rwa [List.append_nil] at this
      | cons t' ts' =>
        simp only [itemsOf, renderItems]
        exact Piece.stop_gap _ _ hg1 hne _

/-- **Round trip of the scanner** on a token list written as text (see `C10_scan_roundtrip`). -/
theorem scanSQL_renderText (gap : Nat → Gap) (cs : Nat → List Bool) (toks : List Token)
    (htoks : ∀ t ∈ toks, TokOK t = true) (hlay : layoutOK gap cs 0 toks = true) :
    scanSQL (renderText gap cs toks) = .ok (scanned cs 0 toks) := by
  have hok := itemsOK_of_layoutOK gap cs toks htoks 0 hlay
  rw [Nat.zero_add] at hok
  rw [renderText, scanSQL_items _ _ hok, itemsOf_map_tok]

/-- a layout with well-formed gaps and a non-empty gap between any two tokens is admissible -/
theorem layoutOK_of_spaced (gap : Nat → Gap) (cs : Nat → List Bool) (toks : List Token)
    (hgap : ∀ i, Gap.ok (gap i) = true) :
    ∀ i, (∀ j, i < j → j < i + toks.length → gap j ≠ []) → layoutOK gap cs i toks = true := by
  induction toks with
  | nil => intro i _; exact hgap i
  | cons t ts ih =>
    intro i h
    have ih' := ih (i + 1) (fun j h1 h2 => h j (by omega) (by simp only [List.length_cons]; omega))
    simp only [layoutOK, hgap i, ih', Bool.true_and, Bool.and_true, sepOK]
    cases ts with
    | nil => simp
    | cons t' ts' =>
      have := h (i + 1) (by omega) (by simp only [List.length_cons]; omega)
      have : (gap (i + 1)).isEmpty = false := by
        cases hq : gap (i + 1) with
        | nil => exact absurd hq this
        | cons a b => rfl
      simp [this]

end Mkdb.Scan
