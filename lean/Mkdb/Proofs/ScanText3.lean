import Mkdb.Proofs.ScanText2
/-!
# The scanner on text in standard form, part 3: written tokens (`Piece`)

A `Piece` is one token as it is written in the text.  For each kind `scanTok` reads exactly the
runes of the piece provided the next rune lets it end there (`Piece.stop`), and `scanAll` appends
exactly the token `Piece.tok` (`scanAll_piece`).
-/
namespace Mkdb.Scan
open Mkdb.Generated

/-- the one-character operators and punctuation: `! ( ) * , . ; < = >` -/
def punctCodes : List Nat := [33, 40, 41, 42, 44, 46, 59, 60, 61, 62]

/-- token type of a one-character operator -/
def punctTy (c : Nat) : Int :=
  match keywordOf [c] with | some k => k | none => t_STR

/-- One token as written in the text. -/
inductive Piece where
  /-- a word: identifier or keyword, any identifier runes (ASCII or not) -/
  | word (rs : Input)
  /-- a decimal integer, given by the codes of its digits -/
  | int (ds : List Nat)
  /-- `'body'` -/
  | str (body : Input)
  /-- one of `! ( ) * , . ; < = >` -/
  | punct (c : Nat)
  /-- `!=`, `<=`, `>=`: the first character `c`, immediately followed by `=` -/
  | op2 (c : Nat)

def Piece.runes : Piece → Input
  | .word rs => rs
  | .int ds => ds.map asciiRune
  | .str body => asciiRune 39 :: body ++ [asciiRune 39]
  | .punct c => [asciiRune c]
  | .op2 c => [asciiRune c, asciiRune 61]

/-- The body of a `'...'` literal the scanner accepts: read by `scanString` (with all its escape
handling) the closing quote written behind the body is where the literal ends, and `unquote` does not
see an odd number of backslashes before that quote.  This is the exact condition; `strBodyOK_plain` is
the simple sufficient one (no `'`, no backslash, no line feed). -/
def strBodyOK (body : Input) : Bool :=
  decide (scanStringBody 39 .normal (body ++ [asciiRune 39]) = (true, [asciiRune 39])) &&
    trailingBackslashes (textOf body) % 2 == 0

/-- Well-formed written token (decidable).  A word starts with a letter or `_` and goes on with letters,
digits, `_` (the first rune is not U+FEFF, which `dropBOM` would remove at the start of the text, and no
whitespace code is classified as a letter); an integer is a non-empty string of decimal digits; a
string body is one the scanner reads up to the closing quote (`strBodyOK`). -/
def Piece.ok : Piece → Bool
  | .word [] => false
  | .word (r :: w) => isIdentRune r true && w.all (isIdentRune · false) && !isWs r.code && !(r.code == 0xFEFF)
  | .int [] => false
  | .int (d :: ds) => isDecimal d && ds.all isDecimal
  | .str body => strBodyOK body
  | .punct c => punctCodes.contains c
  | .op2 c => c == 33 || c == 60 || c == 62

/-- The token the scanner reports for the piece. -/
def Piece.tok : Piece → Token
  | .word rs => ⟨match keywordOf (upperCodes rs) with | some k => k | none => t_IDENT, textOf rs⟩
  | .int ds => ⟨t_INT, ds.map UInt8.ofNat⟩
  | .str body => ⟨t_STR, textOf body⟩
  | .punct c => ⟨punctTy c, [UInt8.ofNat c]⟩
  | .op2 c => ⟨if c == 33 then t_NEQ else if c == 62 then t_GTE else t_LTE, [UInt8.ofNat c]⟩

/-- What the rune behind the piece must satisfy so that the piece ends there.  A word: not an
identifier rune.  An integer: not a digit, `_`, `.`, `e E p P`, and after the lone digit `0` not
`x X o O b B`.  `.`: not a digit (`.5` is a float).  `! < >`: not `=`.  Nothing for the others. -/
def Piece.stop : Piece → Rune → Bool
  | .word _, r => !isIdentRune r false
  | .int ds, r => !(isDecimal r.code || r.code == 95) && notFloatCont r && (ds != [48] || notBasePrefix r)
  | .str _, _ => true
  | .punct c, r => if c == 46 then !isDecimal r.code else if c == 33 || c == 60 || c == 62 then !(r.code == 61) else true
  | .op2 _, _ => true

theorem textOf_ascii (ds : List Nat) : textOf (ds.map asciiRune) = ds.map UInt8.ofNat := by
  induction ds with
  | nil => rfl
  | cons d ds ih => simp only [textOf, List.map_cons, List.flatMap_cons, asciiRune_bytes] at ih ⊢; rw [ih]; rfl

theorem upperCodes_ascii (ds : List Nat) : upperCodes (ds.map asciiRune) = ds.map asciiUpper := by
  induction ds with
  | nil => rfl
  | cons d ds ih =>
    simp only [upperCodes, List.map_cons, List.map_map] at ih ⊢
    rw [ih]
    rfl

theorem scanTok_word (f : Nat) (r : Rune) (w X : Input) (hr : isIdentRune r true = true)
    (hw : ∀ r ∈ w, isIdentRune r false = true) (hX : HeadP (fun r => !isIdentRune r false) X = true)
    (hws : isWs r.code = false) :
    scanTok (f + 1) (r :: w ++ X) = some (.ident, r :: w, X) := by
  have := take_append_sub (r :: w) X
  simp only [List.cons_append] at this
  simp only [scanTok, List.cons_append, skipWs_not _ _ hws, hr, ↓reduceIte, scanIdentTail_append w X hw hX, this]

theorem isDecimal_facts (d : Nat) (h : isDecimal d = true) :
    isWs d = false ∧ isIdentRune (asciiRune d) true = false := by
  simp only [isDecimal, Bool.and_eq_true, decide_eq_true_eq] at h
  refine ⟨?_, ?_⟩
  · simp only [isWs, Bool.or_eq_false_iff, beq_eq_false_iff_ne]; omega
  · simp only [isIdentRune, asciiRune_code, asciiRune_letter, asciiLetter, asciiRune_digit, Bool.not_true,
      Bool.and_false, Bool.or_false, Bool.or_eq_false_iff, beq_eq_false_iff_ne, Bool.and_eq_false_iff, decide_eq_false_iff_not]
    omega

theorem lower_digit : ∀ e : Nat, 48 ≤ e → e ≤ 57 → lower e = e := by
  have h : ∀ e : Fin 58, 48 ≤ e.val → lower e.val = e.val := by decide
  intro e h1 h2
  exact h ⟨e, by omega⟩ h1

theorem scanTok_int (f : Nat) (d : Nat) (ds : List Nat) (X : Input) (hd : isDecimal d = true)
    (hds : ∀ c ∈ ds, isDecimal c = true) (hX : HeadP (Piece.stop (.int (d :: ds))) X = true) :
    scanTok (f + 1) ((d :: ds).map asciiRune ++ X) = some (.int, (d :: ds).map asciiRune, X) := by
  obtain ⟨hws, hid⟩ := isDecimal_facts d hd
  have hX1 : HeadP (fun r => !(isDecimal r.code || r.code == 95)) X = true := by
    cases X with
    | nil => rfl
    | cons x X => simp only [HeadP, Piece.stop, Bool.and_eq_true] at hX ⊢; exact hX.1.1
  have hX2 : HeadP notFloatCont X = true := by
    cases X with
    | nil => rfl
    | cons x X => simp only [HeadP, Piece.stop, Bool.and_eq_true] at hX ⊢; exact hX.1.2
  have hY : (asciiRune d).code = 48 → HeadP notBasePrefix (ds.map asciiRune ++ X) = true := by
    intro h48
    cases ds with
    | nil =>
      cases X with
      | nil => rfl
      | cons x X =>
        simp only [asciiRune_code] at h48; subst h48
        simp only [HeadP, Piece.stop, Bool.and_eq_true] at hX ⊢
        simpa using hX.2
    | cons e ds =>
      have he := hds e (List.mem_cons_self ..)
      simp only [isDecimal, Bool.and_eq_true, decide_eq_true_eq] at he
      have hl : lower e = e := lower_digit e he.1 he.2
      simp only [List.map_cons, List.cons_append, HeadP, notBasePrefix, asciiRune_code, hl, Bool.not_eq_true',
        Bool.or_eq_false_iff, beq_eq_false_iff_ne]
      omega
  have hdig : digits false (ds.map asciiRune ++ X) = X :=
    digits_append _ _ (by intro r hr; simp only [List.mem_map] at hr; obtain ⟨c, hc, rfl⟩ := hr; exact hds c hc) hX1
  have hnum := scanNumber_int (asciiRune d) (ds.map asciiRune ++ X) X hd hY hdig hX2
  have htake := take_append_sub ((d :: ds).map asciiRune) X
  simp only [List.map_cons, List.cons_append] at htake
  have hd' : isDecimal (asciiRune d).code = true := hd
  have hws' : isWs (asciiRune d).code = false := hws
  simp only [scanTok, List.map_cons, List.cons_append, skipWs_not _ _ hws', hid, hd', hnum, Bool.false_eq_true, ↓reduceIte, htake]

/-! ### Strings -/

theorem trailingBackslashes_zero (bs : Bytes) (h : ∀ b ∈ bs, b ≠ 92) : trailingBackslashes bs = 0 := by
  unfold trailingBackslashes
  cases hr : bs.reverse with
  | nil => rfl
  | cons b rest =>
    have hb : b ∈ bs := by
      have : b ∈ bs.reverse := by rw [hr]; exact List.mem_cons_self ..
      simpa using this
    have hne : (b == 92) = false := by simpa using h b hb
    simp [List.takeWhile, hne]

/-- a body without `'`, line feed and backslash (as runes and as bytes) is accepted -/
theorem strBodyOK_plain (body : Input)
    (hb : ∀ r ∈ body, (r.code == 39 || r.code == 10 || r.code == 92) = false)
    (hbytes : ∀ b ∈ textOf body, b ≠ 92) : strBodyOK body = true := by
  unfold strBodyOK
  have h1 := scanStringBody_plain 39 body (asciiRune 39) [] rfl hb
  have h2 := trailingBackslashes_zero _ hbytes
  simp [h1, h2]

theorem textOf_append (a b : Input) : textOf (a ++ b) = textOf a ++ textOf b := by
  simp [textOf]

theorem textOf_cons (r : Rune) (b : Input) : textOf (r :: b) = r.bytes ++ textOf b := by
  simp [textOf]

theorem stripQuotes_quoted (inner : Bytes) (h : trailingBackslashes inner % 2 = 0) :
    stripQuotes (39 :: inner ++ [39]) = some inner := by
  unfold stripQuotes
  have h1 : ¬ (39 :: inner ++ [39]).length < 2 := by simp
  have h2 : (39 :: inner ++ [39] : Bytes).getLast? = (39 :: inner ++ [39] : Bytes).head? := by
    have : (39 :: inner ++ [39] : Bytes) = (39 :: inner) ++ [39] := rfl
    rw [this, List.getLast?_concat]; rfl
  have h3 : List.take ((39 :: inner ++ [39] : Bytes).length - 2) (List.drop 1 (39 :: inner ++ [39] : Bytes)) = inner := by
    simp
  simp only [h1, ↓reduceIte, h2, bne_self_eq_false, Bool.false_eq_true, h3, h]
  simp

theorem scanTok_str (f : Nat) (body X : Input) (hb : strBodyOK body = true) :
    scanTok (f + 1) (asciiRune 39 :: body ++ [asciiRune 39] ++ X) =
      some (.string, asciiRune 39 :: body ++ [asciiRune 39], X) := by
  simp only [strBodyOK, Bool.and_eq_true, decide_eq_true_eq] at hb
  have hs := scanStringBody_ext 39 (asciiRune 39) X body .normal hb.1
  have htake := take_append_sub (asciiRune 39 :: body ++ [asciiRune 39]) X
  have hform : asciiRune 39 :: body ++ [asciiRune 39] ++ X = asciiRune 39 :: (body ++ asciiRune 39 :: X) := by
    simp
  rw [hform] at htake ⊢
  have hws : isWs (asciiRune 39).code = false := rfl
  have hid : isIdentRune (asciiRune 39) true = false := by decide
  have hdec : isDecimal (asciiRune 39).code = false := by decide
  have h34 : ((asciiRune 39).code == 34) = false := by decide
  have h39 : ((asciiRune 39).code == 39) = true := by decide
  simp only [scanTok, skipWs_not _ _ hws, hid, hdec, h34, h39, hs, Bool.false_eq_true, ↓reduceIte, List.tail_cons, htake]

/-! ### One-character tokens -/

/-- a rune that is a token by itself (`default:` of `Scan`) -/
theorem scanTok_char (f : Nat) (c : Nat) (X : Input) (hws : isWs c = false)
    (hid : isIdentRune (asciiRune c) true = false) (hdec : isDecimal c = false)
    (hne : c ≠ 34 ∧ c ≠ 39 ∧ c ≠ 46 ∧ c ≠ 47 ∧ c ≠ 96) :
    scanTok (f + 1) (asciiRune c :: X) = some (.char c, [asciiRune c], X) := by
  have hws' : isWs (asciiRune c).code = false := hws
  have htake := take_append_sub [asciiRune c] X
  simp only [List.cons_append, List.nil_append] at htake
  have h1 : (c == 34) = false := by simpa using hne.1
  have h2 : (c == 39) = false := by simpa using hne.2.1
  have h3 : (c == 46) = false := by simpa using hne.2.2.1
  have h4 : (c == 47) = false := by simpa using hne.2.2.2.1
  have h5 : (c == 96) = false := by simpa using hne.2.2.2.2
  simp only [scanTok, skipWs_not _ _ hws', hid, asciiRune_code, hdec, h1, h2, h3, h4, h5, Bool.false_eq_true,
    ↓reduceIte, htake]

/-- `.` not followed by a digit -/
theorem scanTok_dot (f : Nat) (X : Input) (hX : HeadP (fun r => !isDecimal r.code) X = true) :
    scanTok (f + 1) (asciiRune 46 :: X) = some (.char 46, [asciiRune 46], X) := by
  have hws : isWs (asciiRune 46).code = false := rfl
  have hid : isIdentRune (asciiRune 46) true = false := by decide
  have hdec : isDecimal (asciiRune 46).code = false := by decide
  have h34 : ((asciiRune 46).code == 34) = false := by decide
  have h39 : ((asciiRune 46).code == 39) = false := by decide
  have h46 : ((asciiRune 46).code == 46) = true := by decide
  have htake := take_append_sub [asciiRune 46] X
  simp only [List.cons_append, List.nil_append] at htake
  cases X with
  | nil =>
    simp only [scanTok, skipWs_not _ _ hws, hid, hdec, h34, h39, h46, Bool.false_eq_true, ↓reduceIte]
    rfl
  | cons x X =>
    simp only [HeadP, Bool.not_eq_true'] at hX
    simp only [scanTok, skipWs_not _ _ hws, hid, hdec, h34, h39, h46, hX, Bool.false_eq_true, ↓reduceIte, htake]

theorem punct_facts : ∀ c ∈ punctCodes,
    isWs c = false ∧ isIdentRune (asciiRune c) true = false ∧ isDecimal c = false ∧
    (c ≠ 46 → c ≠ 34 ∧ c ≠ 39 ∧ c ≠ 46 ∧ c ≠ 47 ∧ c ≠ 96) ∧
    keywordOf [asciiUpper c] = some (punctTy c) ∧
    ((punctTy c == t_BANG || punctTy c == t_GT || punctTy c == t_LT) = (c == 33 || c == 60 || c == 62)) ∧
    (Kind.char c == Kind.string) = false := by decide

theorem scanTok_punct (f : Nat) (c : Nat) (X : Input) (hc : c ∈ punctCodes)
    (hX : HeadP (Piece.stop (.punct c)) X = true) :
    scanTok (f + 1) (asciiRune c :: X) = some (.char c, [asciiRune c], X) := by
  obtain ⟨h1, h2, h3, h4, -⟩ := punct_facts c hc
  by_cases h46 : c = 46
  · subst h46
    apply scanTok_dot
    cases X with
    | nil => rfl
    | cons x X => simpa [HeadP, Piece.stop] using hX
  · exact scanTok_char f c X h1 h2 h3 (h4 h46)

end Mkdb.Scan
