import Mkdb.Proofs.Wal
/-!
Crash at an arbitrary byte of a statement's log append, part 1 (log file only): **a log that already
holds the records `old` of acknowledged statements, and is cut `n` bytes into the frames of the
records `batch` a statement appends.**

* `readLog_old_take`: `wal.read` of the cut file returns `old ++ batch.take k`, `k` maximal with the
  first `k` frames of the batch inside the `n` bytes; flagged torn exactly when the cut is inside a
  frame of the batch; and the file it leaves behind (`afterRead`: the torn tail is cut off) is exactly
  `encodeLog (old ++ batch.take k)`.
* `append_after_old_cut`: what later statements append to that file is read back right behind
  `old ++ batch.take k`.
-/
set_option autoImplicit false
namespace Mkdb.Wal
open Mkdb.Bin

theorem encodeLog_take_length_le (rs : List Rec) (k : Nat) :
    (encodeLog (rs.take k)).length ≤ (encodeLog rs).length := by
  have := congrArg List.length (encodeLog_take_drop rs k)
  rw [List.length_append] at this
  omega

theorem encodeLog_take_prefix (rs : List Rec) (k : Nat) :
    (encodeLog rs).take (encodeLog (rs.take k)).length = encodeLog (rs.take k) := by
  rw [← encodeLog_take_drop rs k, List.take_left']
  rfl

/-- the file cut `n` bytes behind the records `old` -/
theorem take_old_add (old batch : List Rec) (n : Nat) :
    (encodeLog (old ++ batch)).take ((encodeLog old).length + n)
      = encodeLog old ++ (encodeLog batch).take n := by
  rw [encodeLog_append, List.take_append, List.take_of_length_le (by omega)]
  congr 2
  omega

/-- **The crash-cut theorem behind an acknowledged history.** -/
theorem readLog_old_take (old batch : List Rec) (hold : ∀ r ∈ old, r.wf) (hb : ∀ r ∈ batch, r.wf)
    (n : Nat) :
    ∃ k torn, k ≤ batch.length ∧
      readLog ((encodeLog (old ++ batch)).take ((encodeLog old).length + n))
        = .ok (old ++ batch.take k) (encodeLog (old ++ batch.take k)).length torn ∧
      (encodeLog (batch.take k)).length ≤ n ∧
      (k < batch.length → n < (encodeLog (batch.take (k+1))).length) ∧
      (torn = true ↔ (encodeLog (batch.take k)).length < min n (encodeLog batch).length) ∧
      afterRead ((encodeLog (old ++ batch)).take ((encodeLog old).length + n))
        = encodeLog (old ++ batch.take k) := by
  rw [take_old_add]
  have hge := encodeLog_length_ge old
  -- the fuel `wal.read` has, split into what the old records use and the rest
  let f := (encodeLog old ++ (encodeLog batch).take n).length + 1 - old.length
  have hfuel : (encodeLog old ++ (encodeLog batch).take n).length + 1 = old.length + f := by
    show _ = old.length + (_ - _)
    rw [List.length_append]; omega
  have hf : min n (encodeLog batch).length < f := by
    show _ < _ - _
    rw [List.length_append, List.length_take]; omega
  obtain ⟨k, torn, hk, hread, hle, hnext, htorn⟩ :=
    readLoop_take batch hb n f ([] ++ old) (0 + (encodeLog old).length) hf
  have hres : readLog (encodeLog old ++ (encodeLog batch).take n)
      = .ok (old ++ batch.take k) (encodeLog (old ++ batch.take k)).length torn := by
    rw [readLog, hfuel, readLoop_encodeLog old hold, hread, encodeLog_append, List.length_append]
    simp only [List.nil_append, Nat.zero_add]
  refine ⟨k, torn, hk, hres, hle, hnext, htorn, ?_⟩
  have hpre := encodeLog_take_prefix batch k
  have hlen := encodeLog_take_length_le batch k
  rw [afterRead, hres]
  cases torn with
  | true =>
    simp only
    rw [encodeLog_append, List.length_append, List.take_append,
      List.take_of_length_le (by omega), List.take_take,
      show (encodeLog old).length + (encodeLog (batch.take k)).length - (encodeLog old).length
        = (encodeLog (batch.take k)).length by omega,
      Nat.min_eq_left hle, hpre]
  | false =>
    simp only
    have hnot : ¬ (encodeLog (batch.take k)).length < min n (encodeLog batch).length := by
      intro hc; have := htorn.2 hc; cases this
    rw [encodeLog_append]
    congr 1
    by_cases hnL : n ≤ (encodeLog batch).length
    · have : n = (encodeLog (batch.take k)).length := by omega
      rw [this, hpre]
    · have : (encodeLog (batch.take k)).length = (encodeLog batch).length := by omega
      rw [List.take_of_length_le (by omega)]
      rw [← hpre, this, List.take_length]

/-- **The truncation/append theorem behind an acknowledged history**: with the `k` of
`readLog_old_take`, whatever is appended after the reader cut the torn tail off is read back right
behind `old ++ batch.take k`. -/
theorem append_after_old_cut (old batch more : List Rec) (hold : ∀ r ∈ old, r.wf)
    (hb : ∀ r ∈ batch, r.wf) (hm : ∀ r ∈ more, r.wf) (n k : Nat)
    (hafter : afterRead ((encodeLog (old ++ batch)).take ((encodeLog old).length + n))
        = encodeLog (old ++ batch.take k)) :
    readLog (afterRead ((encodeLog (old ++ batch)).take ((encodeLog old).length + n)) ++ encodeLog more)
      = .ok (old ++ batch.take k ++ more) (encodeLog (old ++ batch.take k ++ more)).length false := by
  rw [hafter, ← encodeLog_append]
  apply readLog_encodeLog
  intro r hr
  rcases List.mem_append.1 hr with hr | hr
  · rcases List.mem_append.1 hr with hr | hr
    · exact hold r hr
    · exact hb r (List.mem_of_mem_take hr)
  · exact hm r hr

/-- non-vacuity: one old record, a batch of two, cut 40 bytes into the batch (9 bytes into the second
frame of the batch): the old record and the first of the batch, flagged torn; the torn tail is cut off -/
example :
    let old : List Rec := [⟨0, 5, 4096, 1, [7]⟩]
    let batch : List Rec := [⟨1, 7, 3, 2, [0xAA, 0xBB]⟩, ⟨2, 8, 4, 0, []⟩]
    (∀ r ∈ old, r.wf) ∧ (∀ r ∈ batch, r.wf) ∧
    readLog ((encodeLog (old ++ batch)).take ((encodeLog old).length + 40))
      = .ok (old ++ batch.take 1) 61 true ∧
    afterRead ((encodeLog (old ++ batch)).take ((encodeLog old).length + 40))
      = encodeLog (old ++ batch.take 1) := by
  refine ⟨?_, ?_, by decide, by decide⟩
  · intro r hr
    simp only [List.mem_singleton] at hr
    subst hr
    simp only [Rec.wf, List.length_cons, List.length_nil]; omega
  · intro r hr
    simp only [List.mem_cons, List.not_mem_nil, or_false] at hr
    rcases hr with rfl | rfl <;> (simp only [Rec.wf, List.length_cons, List.length_nil]; omega)

end Mkdb.Wal
