import Mkdb.Proofs.Evict1
import Mkdb.Proofs.SpecHistory
/-!
C16 on the heap model, part 2: **statement outcomes, readers and whole histories do not depend on
evictions** - the consequences of `DbInv.evict` through the statement-level theorems.

The outcome of a statement on a database that satisfies `DbInv` for the plain database `sdb` is decided
by `sdb` (accepted: `DbInv.accepted`; refused before a change: `DbInv.refused`), and so is what a reader
sees (`DbInv.reads`); the eviction keeps `DbInv` for the same `sdb` (`DbInv.evict`).

* `accepted_evict`, `refused_evict`, `reads_evict`: one statement / one read after any eviction.
* `CacheOp`, `runOps`: histories of statements, flushes and evictions; `OpsOK`: the side conditions of
  `HistOK` (SpecHistory) along such a history; `runOps_refines`: the run never crashes, its outcomes are
  the plain model's verdicts on the statements alone, and it ends in `DbInv` for the plain database the
  statements alone imply (`specHist`).
* `opsOK_deletes`: histories of DELETEs with any flushes and evictions meet the side conditions.
-/
set_option autoImplicit false
namespace Mkdb.Store
open Mkdb.Page Mkdb.Tuple Mkdb.Generated Mkdb.Tree Mkdb.Engine

/-! ### one statement, one read -/

/-- **An accepted statement after any eviction**: accepted with and without the eviction, and both
results satisfy the invariant for the plain model's result. -/
theorem accepted_evict {db : Engine.DB} {sdb : Spec.SDB} {pt sch : Levels} {tbls : List (Bytes × Levels)}
    (h : DbInv db sdb pt sch tbls) (offs order : List Nat) (st : Sql.Stmt) (hroom : StmtRoom db pt sch tbls st)
    (sdb' : Spec.SDB) (hspec : Spec.specStmt sdb st = some sdb') :
    (∃ db1 pt1 sch1 tbls1, evalStmt db order st = .ok () db1 ∧ DbInv db1 sdb' pt1 sch1 tbls1) ∧
    (∃ db2 pt2 sch2 tbls2, evalStmt (evictDB db offs) order st = .ok () db2 ∧ DbInv db2 sdb' pt2 sch2 tbls2) :=
  ⟨h.accepted order st hroom sdb' hspec, (h.evict offs).accepted order st (hroom.evict offs) sdb' hspec⟩

/-- **A statement refused before a change, after any eviction**: refused with and without the eviction,
the log untouched, the invariant kept for the same plain database and the same trees. -/
theorem refused_evict {db : Engine.DB} {sdb : Spec.SDB} {pt sch : Levels} {tbls : List (Bytes × Levels)}
    (h : DbInv db sdb pt sch tbls) (offs order : List Nat) (st : Sql.Stmt) (hbad : StmtRefusal sdb pt st) :
    Spec.specStmt sdb st = none ∧
    (∃ e1 db1, evalStmt db order st = .err e1 db1 ∧ db1.wal = db.wal ∧ DbInv db1 sdb pt sch tbls) ∧
    (∃ e2 db2, evalStmt (evictDB db offs) order st = .err e2 db2 ∧ db2.wal = db.wal ∧ DbInv db2 sdb pt sch tbls) :=
  ⟨(h.refused order st hbad).1, (h.refused order st hbad).2, ((h.evict offs).refused order st hbad).2⟩

/-- **A reader after any eviction** sees the table of the plain database: the same columns and the same
rows, in order, as without the eviction. -/
theorem reads_evict {db : Engine.DB} {sdb : Spec.SDB} {pt sch : Levels} {tbls : List (Bytes × Levels)}
    (h : DbInv db sdb pt sch tbls) (offs : List Nat) {t : Bytes} {tb : Spec.STable}
    (hfind : Spec.findTable sdb t = some tb) :
    Reads db t tb.cols (tb.rows.map (·.vals)) ∧ Reads (evictDB db offs) t tb.cols (tb.rows.map (·.vals)) :=
  ⟨h.reads hfind, (h.evict offs).reads hfind⟩

/-! ### histories of statements, flushes and evictions -/

/-- a step of a history: a statement, a flush of the page cache (the timer's, with the page write order
it happens to use), or the eviction of the clean pages at some offsets -/
inductive CacheOp where
  | stmt (st : Sql.Stmt)
  | flush (order : List Nat)
  | evict (offs : List Nat)

/-- the statements of a history -/
def stmtsOf : List CacheOp → List Sql.Stmt
  | [] => []
  | .stmt st :: rest => st :: stmtsOf rest
  | _ :: rest => stmtsOf rest

/-- the history without its evictions -/
def noEvict : List CacheOp → List CacheOp
  | [] => []
  | .evict _ :: rest => noEvict rest
  | op :: rest => op :: noEvict rest

theorem stmtsOf_noEvict : ∀ (ops : List CacheOp), stmtsOf (noEvict ops) = stmtsOf ops
  | [] => rfl
  | .stmt st :: rest => by simp only [noEvict, stmtsOf, stmtsOf_noEvict rest]
  | .flush o :: rest => by simp only [noEvict, stmtsOf, stmtsOf_noEvict rest]
  | .evict o :: rest => by simp only [noEvict, stmtsOf, stmtsOf_noEvict rest]

/-- Run a history on the engine model, going on after an error value; the outcome of each statement is
`none` (accepted) or `some e` (refused with the error `e`).  `none` for the whole run: a statement or a
flush crashed (panic, unmodelled path, fuel). -/
def runOps (order : List Nat) (db : Engine.DB) : List CacheOp → Option (Engine.DB × List (Option Engine.StmtErr))
  | [] => some (db, [])
  | .stmt st :: rest =>
    match evalStmt db order st with
    | .ok _ db' => (runOps order db' rest).map fun r => (r.1, none :: r.2)
    | .err e db' => (runOps order db' rest).map fun r => (r.1, some e :: r.2)
    | _ => none
  | .flush o :: rest =>
    match Engine.flush db o with
    | .ok _ db' => runOps order db' rest
    | _ => none
  | .evict offs :: rest => runOps order (evictDB db offs) rest

/-- the plain model's verdicts on a list of statements: accepted? -/
def specOuts (sdb : Spec.SDB) : List Sql.Stmt → List Bool
  | [] => []
  | st :: rest => (Spec.specStmt sdb st).isSome :: specOuts ((Spec.specStmt sdb st).getD sdb) rest

/-- The side conditions of `HistOK` along a history with flushes and evictions: a statement the plain
model accepts has the room a Go program has (`StmtRoom`), a statement it refuses is refused before a
change (`StmtRefusal`: the refusal at a later row of a multi-row INSERT / UPDATE, the known finding of
C14, is not among them); flushes and evictions have no side condition. -/
def OpsOK (order : List Nat) : List CacheOp → Engine.DB → Spec.SDB → Prop
  | [], _, _ => True
  | .stmt st :: rest, db, sdb =>
    ((Spec.specStmt sdb st).isSome → ∀ pt sch tbls, DbInv db sdb pt sch tbls → StmtRoom db pt sch tbls st) ∧
    (Spec.specStmt sdb st = none → ∀ pt sch tbls, DbInv db sdb pt sch tbls → StmtRefusal sdb pt st) ∧
    ∀ db', (evalStmt db order st = .ok () db' ∨ ∃ e, evalStmt db order st = .err e db') →
      OpsOK order rest db' ((Spec.specStmt sdb st).getD sdb)
  | .flush o :: rest, db, sdb => ∀ db', Engine.flush db o = .ok () db' → OpsOK order rest db' sdb
  | .evict offs :: rest, db, sdb => OpsOK order rest (evictDB db offs) sdb

/-- **Every history with flushes and evictions.**  From a database that satisfies the invariant, the run
never crashes; the outcome of every statement is the plain model's verdict on the statements alone; and
the run ends in a database that satisfies the invariant for the plain database the statements alone
imply. -/
theorem runOps_refines (order : List Nat) (ops : List CacheOp) :
    ∀ (db : Engine.DB) (sdb : Spec.SDB) (pt sch : Levels) (tbls : List (Bytes × Levels)),
      DbInv db sdb pt sch tbls → OpsOK order ops db sdb →
      ∃ db' outs pt' sch' tbls', runOps order db ops = some (db', outs) ∧
        DbInv db' (specHist sdb (stmtsOf ops)) pt' sch' tbls' ∧
        outs.map Option.isNone = specOuts sdb (stmtsOf ops) := by
  induction ops with
  | nil => intro db sdb pt sch tbls h _; exact ⟨db, [], pt, sch, tbls, rfl, h, rfl⟩
  | cons op rest ih =>
    intro db sdb pt sch tbls h hok
    cases op with
    | stmt st =>
      obtain ⟨hroom, hbad, hnext⟩ := hok
      cases hs : Spec.specStmt sdb st with
      | none =>
        obtain ⟨_, e, db1, he, _, hi1⟩ := h.refused order st (hbad hs pt sch tbls h)
        have hn := hnext db1 (Or.inr ⟨e, he⟩)
        rw [hs] at hn
        obtain ⟨db2, outs, pt2, sch2, tbls2, hr, hi2, ho⟩ := ih db1 sdb pt sch tbls hi1 hn
        refine ⟨db2, some e :: outs, pt2, sch2, tbls2, ?_, ?_, ?_⟩
        · simp only [runOps, he, hr, Option.map_some]
        · simp only [stmtsOf, specHist, hs]; exact hi2
        · simp only [stmtsOf, specOuts, hs, List.map_cons]
          rw [ho]; rfl
      | some sdb' =>
        obtain ⟨db1, pt1, sch1, tbls1, he, hi1⟩ := h.accepted order st (hroom (by rw [hs]; rfl) pt sch tbls h) sdb' hs
        have hn := hnext db1 (Or.inl he)
        rw [hs] at hn
        obtain ⟨db2, outs, pt2, sch2, tbls2, hr, hi2, ho⟩ := ih db1 sdb' pt1 sch1 tbls1 hi1 hn
        refine ⟨db2, none :: outs, pt2, sch2, tbls2, ?_, ?_, ?_⟩
        · simp only [runOps, he, hr, Option.map_some]
        · simp only [stmtsOf, specHist, hs]; exact hi2
        · simp only [stmtsOf, specOuts, hs, List.map_cons]
          rw [ho]; rfl
    | flush o =>
      obtain ⟨db1, e, _, hk⟩ := h.flush o
      obtain ⟨db2, outs, pt2, sch2, tbls2, hr, hi2, ho⟩ := ih db1 sdb _ _ _ hk.inv (hok db1 e)
      refine ⟨db2, outs, pt2, sch2, tbls2, ?_, hi2, ho⟩
      simp only [runOps, e, hr]
    | evict offs =>
      obtain ⟨db2, outs, pt2, sch2, tbls2, hr, hi2, ho⟩ := ih (evictDB db offs) sdb pt sch tbls (h.evict offs) hok
      exact ⟨db2, outs, pt2, sch2, tbls2, hr, hi2, ho⟩

/-- **The history with its evictions and the history without them** give the same outcome class for
every statement (accepted / refused) and end in databases that satisfy the invariant for the SAME plain
database - hence a reader sees the same rows of every table in both. -/
theorem runOps_evictions_invisible (order : List Nat) (ops : List CacheOp) (db : Engine.DB) (sdb : Spec.SDB)
    (pt sch : Levels) (tbls : List (Bytes × Levels)) (h : DbInv db sdb pt sch tbls)
    (hok : OpsOK order ops db sdb) (hok0 : OpsOK order (noEvict ops) db sdb) :
    ∃ db1 outs1 db2 outs2, runOps order db ops = some (db1, outs1) ∧
      runOps order db (noEvict ops) = some (db2, outs2) ∧
      outs1.map Option.isNone = outs2.map Option.isNone ∧
      (∃ pt1 sch1 tbls1, DbInv db1 (specHist sdb (stmtsOf ops)) pt1 sch1 tbls1) ∧
      (∃ pt2 sch2 tbls2, DbInv db2 (specHist sdb (stmtsOf ops)) pt2 sch2 tbls2) ∧
      ∀ t tb, Spec.findTable (specHist sdb (stmtsOf ops)) t = some tb →
        Reads db1 t tb.cols (tb.rows.map (·.vals)) ∧ Reads db2 t tb.cols (tb.rows.map (·.vals)) := by
  obtain ⟨db1, outs1, pt1, sch1, tbls1, hr1, hi1, ho1⟩ := runOps_refines order ops db sdb pt sch tbls h hok
  obtain ⟨db2, outs2, pt2, sch2, tbls2, hr2, hi2, ho2⟩ := runOps_refines order (noEvict ops) db sdb pt sch tbls h hok0
  rw [stmtsOf_noEvict] at hi2 ho2
  exact ⟨db1, outs1, db2, outs2, hr1, hr2, ho1.trans ho2.symm, ⟨pt1, sch1, tbls1, hi1⟩, ⟨pt2, sch2, tbls2, hi2⟩,
    fun t tb hf => ⟨hi1.reads hf, hi2.reads hf⟩⟩

/-- a history whose statements are DELETEs on names other than the two catalog tables - whatever their
WHERE clauses, with any flushes and any evictions in between - meets the side conditions -/
theorem opsOK_deletes (order : List Nat) (ops : List CacheOp)
    (h : ∀ st ∈ stmtsOf ops, ∃ t w, st = .delete t w ∧ t ≠ sysPages ∧ t ≠ sysSchema) :
    ∀ (db : Engine.DB) (sdb : Spec.SDB), OpsOK order ops db sdb := by
  induction ops with
  | nil => intro _ _; trivial
  | cons op rest ih =>
    intro db sdb
    cases op with
    | stmt st =>
      obtain ⟨t, w, rfl, h1, h2⟩ := h st (by simp [stmtsOf])
      refine ⟨fun _ _ _ _ _ => trivial, fun hs pt sch tbls _ => .delete t w (fun _ => ⟨h1, h2⟩) hs, fun db' _ => ?_⟩
      exact ih (fun st hst => h st (by simp [stmtsOf, hst])) _ _
    | flush o => exact fun db' _ => ih (fun st hst => h st (by simpa [stmtsOf] using hst)) _ _
    | evict offs => exact ih (fun st hst => h st (by simpa [stmtsOf] using hst)) _ _

end Mkdb.Store
